(* Proofs/RemoteRefine.v -- client o registry refines the content store with tags
   (C13_refines_store), for every history, capability profile and referrers state. *)
From Oras Require Import Base.Prelude Base.Regex Generated.GC20 Generated.GC13 Model.Reference
  Model.Registry Model.RemoteClient Model.RemoteSpec Proofs.Reference Proofs.RemoteClient.
Require Import Lia.

(* ---------- association lists ---------- *)

Lemma str_eqb_sym x y : str_eqb x y = str_eqb y x.
Proof.
  destruct (str_eqb x y) eqn:A; destruct (str_eqb y x) eqn:B; auto.
  - apply str_eqb_spec in A. subst. now rewrite str_eqb_refl in B.
  - apply str_eqb_spec in B. subst. now rewrite str_eqb_refl in A.
Qed.

Lemma str_eqb_neq x y : x <> y -> str_eqb x y = false.
Proof. intro N. destruct (str_eqb x y) eqn:E; auto. apply str_eqb_spec in E. contradiction. Qed.

Section Assoc.
  Context {V : Type}.
  Implicit Types (m : list (str * V)) (k : str) (v : V).

  Lemma lookup_cons k k' v m :
    lookup k ((k', v) :: m) = if str_eqb k' k then Some v else lookup k m.
  Proof. unfold lookup. cbn. destruct (str_eqb k' k); reflexivity. Qed.

  Lemma lookup_remove_eq k m : lookup k (remove k m) = None.
  Proof.
    induction m as [|[k' v] m IH]; [reflexivity|]. unfold remove in *. cbn.
    destruct (str_eqb k' k) eqn:E; cbn; [exact IH|].
    rewrite lookup_cons, E. exact IH.
  Qed.

  Lemma lookup_remove_inv k k' m v : lookup k' (remove k m) = Some v -> lookup k' m = Some v /\ k' <> k.
  Proof.
    induction m as [|[k0 v0] m IH]; [discriminate|]. unfold remove in *. cbn.
    destruct (str_eqb k0 k) eqn:E; cbn.
    - intro X. destruct (IH X) as [A B]. split; auto. rewrite lookup_cons.
      apply str_eqb_spec in E. subst k0. rewrite str_eqb_sym, (str_eqb_neq _ _ B). exact A.
    - rewrite !lookup_cons. destruct (str_eqb k0 k') eqn:E2.
      + intro X. split; auto. apply str_eqb_spec in E2. subst k0. intros ->. now rewrite str_eqb_refl in E.
      + exact IH.
  Qed.

  Lemma lookup_remove_neq k k' m : k' <> k -> lookup k' (remove k m) = lookup k' m.
  Proof.
    intro Hn. induction m as [|[k0 v0] m IH]; [reflexivity|]. unfold remove in *. cbn.
    destruct (str_eqb k0 k) eqn:E; cbn.
    - rewrite lookup_cons. apply str_eqb_spec in E. subst k0.
      rewrite str_eqb_sym, (str_eqb_neq _ _ Hn). exact IH.
    - rewrite !lookup_cons. now rewrite IH.
  Qed.

  Lemma lookup_insert_neq k k' v m : k' <> k -> lookup k' (insert k v m) = lookup k' m.
  Proof.
    intro Hn. unfold insert. rewrite lookup_cons, str_eqb_sym, (str_eqb_neq _ _ Hn).
    now apply lookup_remove_neq.
  Qed.

  Lemma lookup_filter_notin k (f : str * V -> bool) m :
    ~ In k (map fst m) -> lookup k (filter f m) = None.
  Proof.
    induction m as [|[k0 v0] m IH]; intro Hn; [reflexivity|]. cbn [filter].
    cbn [map fst In] in Hn.
    destruct (f (k0, v0)).
    - rewrite lookup_cons. rewrite (str_eqb_neq k0 k) by tauto. apply IH. tauto.
    - apply IH. tauto.
  Qed.

  Lemma lookup_filter_some k v (f : str * V -> bool) m :
    lookup k m = Some v -> f (k, v) = true -> lookup k (filter f m) = Some v.
  Proof.
    induction m as [|[k0 v0] m IH]; intros L F; [discriminate|]. rewrite lookup_cons in L. cbn [filter].
    destruct (str_eqb k0 k) eqn:E.
    - injection L as ->. apply str_eqb_spec in E. subst k0. rewrite F, lookup_cons, str_eqb_refl. reflexivity.
    - destruct (f (k0, v0)); [rewrite lookup_cons, E|]; auto.
  Qed.

  Lemma lookup_filter_none k (f : str * V -> bool) m :
    lookup k m = None -> lookup k (filter f m) = None.
  Proof.
    induction m as [|[k0 v0] m IH]; intros L; [reflexivity|]. rewrite lookup_cons in L. cbn [filter].
    destruct (str_eqb k0 k) eqn:E; [discriminate|].
    destruct (f (k0, v0)); [rewrite lookup_cons, E|]; auto.
  Qed.

  Lemma in_fst_filter k (f : str * V -> bool) m : In k (map fst (filter f m)) -> In k (map fst m).
  Proof.
    induction m as [|[k0 v0] m IH]; cbn [filter]; [auto|]. destruct (f (k0, v0)); cbn [map fst In]; tauto.
  Qed.

  Lemma NoDup_fst_filter (f : str * V -> bool) m : NoDup (map fst m) -> NoDup (map fst (filter f m)).
  Proof.
    induction m as [|[k0 v0] m IH]; cbn [filter map fst]; intro Hn; [constructor|].
    inversion Hn as [|? ? Hk Hm]; subst.
    destruct (f (k0, v0)); cbn [map fst]; [|auto].
    constructor; [|auto]. intro X. apply Hk. eapply in_fst_filter; eauto.
  Qed.

  Lemma NoDup_fst_insert k v m : NoDup (map fst m) -> NoDup (map fst (insert k v m)).
  Proof.
    intro Hn. unfold insert, remove. cbn [map fst]. constructor; [|now apply NoDup_fst_filter].
    clear Hn. induction m as [|[k0 v0] m IH]; cbn [filter fst]; [auto|].
    destruct (str_eqb k0 k) eqn:E; cbn [negb]; [exact IH|]. cbn [map fst In].
    intros [->|X]; [now rewrite str_eqb_refl in E|auto].
  Qed.

  Lemma lookup_insert_eq k v m : lookup k (insert k v m) = Some v.
  Proof. unfold insert. now rewrite lookup_cons, str_eqb_refl. Qed.

  Lemma lookup_insert_inv k k' v v' m :
    lookup k' (insert k v m) = Some v' -> (k' = k /\ v' = v) \/ lookup k' m = Some v'.
  Proof.
    unfold insert. rewrite lookup_cons. destruct (str_eqb k k') eqn:E.
    - apply str_eqb_spec in E. intro X. injection X as <-. auto.
    - intro X. right. now apply lookup_remove_inv in X.
  Qed.
End Assoc.

Lemma valid_digest_nil : valid_digest [] = false.
Proof. reflexivity. Qed.

Opaque valid_digest valid_tag valid_repository repo_parse.

Lemma up_dig_ok (c : bool) d :
  valid_digest (nstr (opt_if c d)) && negb (str_eqb (nstr (opt_if c d)) d) = false.
Proof.
  destruct c; cbn [opt_if nstr].
  - now rewrite str_eqb_refl, andb_false_r.
  - now rewrite valid_digest_nil.
Qed.

(* ---------- honest responses pass the client's checks ---------- *)

Lemma vd_opt st ct cl (c : bool) d loc ar sj rf body :
  valid_digest d = true ->
  verify_digest (mkResp st ct cl (opt_if c d) loc ar sj rf body) d = true.
Proof.
  intro V. apply verify_digest_spec. unfold dig_consistent. destruct c; cbn; auto.
Qed.

Lemma take_n_all (l : str) : forall n, len l <= n -> take_n l n = l.
Proof.
  induction l as [|x l IH]; intros n Hn; [reflexivity|]. cbn [take_n].
  unfold len in *. cbn [length] in Hn.
  destruct (n =? 0) eqn:E; [apply N.eqb_eq in E; lia|]. f_equal. apply IH. lia.
Qed.

Section Refine.
  Variable H : str -> str.
  Variable parse_mt : str -> option str.
  Variable subject_of : str -> option (option desc).
  Variables main other : str.
  Variable user_mts : list str.
  Variable limit : N.
  Variable skip_gc : bool.
  Variable index_of : str -> option (list desc).
  Variable p : profile.

  Hypothesis Hneq : str_eqb main other = false.
  Hypothesis Hoct : parse_mt ct_octet = Some ct_octet.

  Notation ex0 := (cexch H subject_of main other p None).
  Notation S := (reg * N)%type.

  Lemma ex0_eq g n q :
    ex0 (g, n) q = ((fst (handle H (subj_of subject_of) main other p g q), n + 1),
                    snd (handle H (subj_of subject_of) main other p g q)).
  Proof. unfold cexch. destruct (handle _ _ _ _ _ g q). reflexivity. Qed.

  Ltac proj := cbn [q_m q_repo q_ep q_digest q_mount q_accept q_ctype q_clen q_range q_body
                    r_status r_ctype r_clen r_dig r_loc r_ar r_subj r_refs r_body fst snd
                    g_blobs g_mans g_tags g_other g_next g_open d_mt d_dg d_sz nstr
                    t_blobs t_mans t_tags t_other].

  (* generateDescriptor on the registry's own 200 answer *)
  Lemma gen_desc_honest mt n (c : bool) d ar body rf hd :
    parse_mt mt = Some mt -> valid_digest d = true ->
    (rf = d \/ valid_digest rf = false) ->
    (c = true \/ (hd = true /\ rf = d) \/ (hd = false /\ H body = d /\ len body <= limit /\ n <= limit)) ->
    gen_desc H parse_mt limit (mkResp 200 (Some mt) (Some n) (opt_if c d) None ar None [] body) rf hd
    = Some (mkDesc mt d n).
  Proof.
    intros Hm Vd Hrf Hc. unfold gen_desc. proj. rewrite Hm.
    assert (Dne : exists x t, d = x :: t).
    { destruct d; [|eauto]. Transparent valid_digest. discriminate. Opaque valid_digest. }
    destruct Dne as (x & t & ->).
    destruct c; cbn [opt_if nstr].
    - rewrite Vd. cbn [negb].
      destruct Hrf as [->|Vr].
      + rewrite Vd, str_eqb_refl. reflexivity.
      + rewrite Vr. reflexivity.
    - destruct Hc as [X|[[-> ->]|(-> & Hb & Hl & Hn)]]; [discriminate| |].
      + rewrite Vd, str_eqb_refl. reflexivity.
      + assert (El : (limit <? n) = false) by (apply N.ltb_ge; exact Hn).
        rewrite El. unfold hashed_body. proj. rewrite take_n_all by exact Hl.
        rewrite Hb. destruct Hrf as [->|Vr].
        * rewrite Vd, str_eqb_refl. reflexivity.
        * rewrite Vr. reflexivity.
  Qed.

  Hypothesis Hvalid : forall c, valid_digest (H c) = true.

  Notation handle' := (handle H (subj_of subject_of) main other p).

  Lemma other_main : str_eqb other main = false.
  Proof. now rewrite str_eqb_sym. Qed.

  Lemma len_eqb_refl (c : str) : (len c =? len c) = true.
  Proof. apply N.eqb_refl. Qed.

  Lemma blob_resp_none hd d c :
    blob_resp p hd d (Some c) None =
    mkResp 200 (Some ct_octet) (opt_if (p_clen p || hd) (len c)) (opt_if (p_dighdr p) d) None
           (p_range p) None [] (if hd then [] else c).
  Proof. unfold blob_resp. destruct (p_range p && negb hd); reflexivity. Qed.

  (* the registry's answers, request by request *)
  Lemma hx_get_blob g n d :
    ex0 (g, n) (req GET main (EBlob d)) = ((g, n + 1), blob_resp p false d (lookup d (g_blobs g)) None).
  Proof. unfold cexch, handle, req. proj. now rewrite str_eqb_refl. Qed.

  Lemma hx_get_blob_other g n d :
    ex0 (g, n) (req GET other (EBlob d)) = ((g, n + 1), blob_resp p false d (lookup d (g_other g)) None).
  Proof. unfold cexch, handle, req. proj. now rewrite other_main, str_eqb_refl. Qed.

  Lemma hx_head_blob g n d :
    ex0 (g, n) (req HEAD main (EBlob d)) = ((g, n + 1), blob_resp p true d (lookup d (g_blobs g)) None).
  Proof. unfold cexch, handle, req. proj. now rewrite str_eqb_refl. Qed.

  Lemma hx_get_man g n rf acc :
    ex0 (g, n) (mkReq GET main (EManifest rf) None None acc None None None [])
    = ((g, n + 1), man_resp p false g rf).
  Proof. unfold cexch, handle. proj. now rewrite str_eqb_refl. Qed.

  Lemma hx_head_man g n rf acc :
    ex0 (g, n) (mkReq HEAD main (EManifest rf) None None acc None None None [])
    = ((g, n + 1), man_resp p true g rf).
  Proof. unfold cexch, handle. proj. now rewrite str_eqb_refl. Qed.

  Ltac st := repeat match goal with
    | |- context [N.pos ?a =? N.pos ?b] =>
        let v := eval vm_compute in (N.pos a =? N.pos b) in change (N.pos a =? N.pos b) with v
    end.
  Ltac red_let := cbv beta iota zeta; st; cbv iota.
  Ltac simp := unfold resp_err, resp0; cbv beta iota zeta; proj; st; cbv beta iota; proj.

  (* ---- blobStore.Fetch ---- *)
  Lemma blob_fetch_hit g n d c :
    lookup (d_dg d) (g_blobs g) = Some c -> len c = d_sz d -> valid_digest (d_dg d) = true ->
    exists t, blob_fetch S ex0 main (g, n) d = ((g, n + 1), t, RBytes c).
  Proof.
    intros L Hs V. unfold blob_fetch. rewrite hx_get_blob, L, blob_resp_none. simp.
    eexists. f_equal. rewrite vd_opt by exact V.
    destruct (p_clen p); cbn [orb opt_if]; proj; rewrite <- ?Hs, ?len_eqb_refl; reflexivity.
  Qed.

  Lemma blob_fetch_miss g n d :
    lookup (d_dg d) (g_blobs g) = None ->
    exists t, blob_fetch S ex0 main (g, n) d = ((g, n + 1), t, RErr ENotFound).
  Proof.
    intros L. unfold blob_fetch. rewrite hx_get_blob, L. unfold blob_resp. simp. eauto.
  Qed.

  Lemma blob_fetch_other_hit g n d c :
    lookup (d_dg d) (g_other g) = Some c -> len c = d_sz d -> valid_digest (d_dg d) = true ->
    exists t, blob_fetch S ex0 other (g, n) d = ((g, n + 1), t, RBytes c).
  Proof.
    intros L Hs V. unfold blob_fetch. rewrite hx_get_blob_other, L, blob_resp_none. simp.
    eexists. f_equal. rewrite vd_opt by exact V.
    destruct (p_clen p); cbn [orb opt_if]; proj; rewrite <- ?Hs, ?len_eqb_refl; reflexivity.
  Qed.

  Lemma blob_fetch_other_miss g n d :
    lookup (d_dg d) (g_other g) = None ->
    exists t, blob_fetch S ex0 other (g, n) d = ((g, n + 1), t, RErr ENotFound).
  Proof.
    intros L. unfold blob_fetch. rewrite hx_get_blob_other, L. unfold blob_resp. simp. eauto.
  Qed.

  (* ---- invariant of reachable registry states ---- *)
  Notation sinv := (sinv H parse_mt subject_of limit p).
  Notation inv := (inv H parse_mt subject_of limit p).
  Notation minv := (minv H parse_mt limit).

  Lemma inv_minv g : inv g -> minv g.
  Proof. intros [I _] d mt c L. destruct (I _ _ _ L) as (A & _ & B & C). auto. Qed.

  Lemma man_lookup_store g rf :
    man_lookup (store_of g) rf =
    match man_digest g rf with
    | Some d => match lookup d (g_mans g) with Some mc => Some (d, mc) | None => None end
    | None => None
    end.
  Proof. reflexivity. Qed.

  Lemma man_resp_hit hd g rf d mt c :
    man_lookup (store_of g) rf = Some (d, (mt, c)) ->
    man_resp p hd g rf =
    mkResp 200 (Some mt) (opt_if (p_clen p || hd) (len c)) (opt_if (p_dighdr p) d) None false None []
           (if hd then [] else c).
  Proof.
    rewrite man_lookup_store. unfold man_resp. destruct (man_digest g rf) as [d'|]; [|discriminate].
    destruct (lookup d' (g_mans g)) as [[mt' c']|]; [|discriminate]. intro X. injection X as -> -> ->.
    reflexivity.
  Qed.

  Lemma man_resp_miss hd g rf :
    man_lookup (store_of g) rf = None -> man_resp p hd g rf = resp_err 404.
  Proof.
    rewrite man_lookup_store. unfold man_resp. destruct (man_digest g rf) as [d'|]; [|reflexivity].
    destruct (lookup d' (g_mans g)) as [[mt' c']|]; [discriminate|reflexivity].
  Qed.

  Lemma man_lookup_digest g d :
    valid_digest d = true ->
    man_lookup (store_of g) d =
    match lookup d (g_mans g) with Some mc => Some (d, mc) | None => None end.
  Proof. intro V. rewrite man_lookup_store. unfold man_digest. now rewrite V. Qed.

  Lemma man_lookup_key g rf d mc :
    man_lookup (store_of g) rf = Some (d, mc) -> lookup d (g_mans g) = Some mc /\ (valid_digest rf = true -> d = rf).
  Proof.
    rewrite man_lookup_store. unfold man_digest. destruct (valid_digest rf).
    - destruct (lookup rf (g_mans g)) eqn:E; [|discriminate]. intro X. injection X as <- <-. auto.
    - destruct (lookup rf (g_tags g)) as [d'|]; [|discriminate].
      destruct (lookup d' (g_mans g)) eqn:E; [|discriminate]. intro X. injection X as <- <-.
      split; auto. discriminate.
  Qed.

  (* ---- manifestStore.Fetch ---- *)
  Lemma man_fetch_hit_m g n d c :
    minv g -> lookup (d_dg d) (g_mans g) = Some (d_mt d, c) -> len c = d_sz d ->
    valid_digest (d_dg d) = true ->
    exists t, man_fetch parse_mt main S ex0 (g, n) d = ((g, n + 1), t, RBytes c).
  Proof.
    intros I L Hs V. destruct (I _ _ _ L) as (_ & Pm & Hlim).
    unfold man_fetch. rewrite hx_get_man.
    rewrite (man_resp_hit false g (d_dg d) (d_dg d) (d_mt d) c)
      by (rewrite man_lookup_digest, L; auto).
    simp. rewrite Pm, str_eqb_refl. cbn [negb].
    eexists. f_equal. rewrite vd_opt by exact V.
    destruct (p_clen p); cbn [orb opt_if]; proj; rewrite <- ?Hs, ?len_eqb_refl; reflexivity.
  Qed.

  Lemma man_fetch_hit g n d c :
    inv g -> lookup (d_dg d) (g_mans g) = Some (d_mt d, c) -> len c = d_sz d ->
    valid_digest (d_dg d) = true ->
    exists t, man_fetch parse_mt main S ex0 (g, n) d = ((g, n + 1), t, RBytes c).
  Proof. intro Hi. apply man_fetch_hit_m. now apply inv_minv. Qed.

  Lemma man_fetch_miss g n d :
    lookup (d_dg d) (g_mans g) = None -> valid_digest (d_dg d) = true ->
    exists t, man_fetch parse_mt main S ex0 (g, n) d = ((g, n + 1), t, RErr ENotFound).
  Proof.
    intros L V. unfold man_fetch. rewrite hx_get_man.
    rewrite man_resp_miss by (rewrite man_lookup_digest, L; auto).
    simp. eauto.
  Qed.

  (* ---- manifestStore.Resolve ---- *)
  Lemma man_resolve_hit_m g n rs rf d mt c :
    minv g -> resolve_ref main rs = Some rf ->
    man_lookup (store_of g) rf = Some (d, (mt, c)) ->
    (p_dighdr p = true \/ valid_digest rf = true) ->
    exists t, man_resolve H parse_mt main user_mts limit S ex0 (g, n) rs
              = ((g, n + 1), t, RDesc (mkDesc mt d (len c))).
  Proof.
    intros I ER L Hd. destruct (man_lookup_key _ _ _ _ L) as [Lk Hk].
    destruct (I _ _ _ Lk) as (Ed & Pm & Hlim).
    unfold man_resolve. rewrite ER, hx_head_man, (man_resp_hit true g rf d mt c L).
    simp. rewrite orb_true_r. cbn [opt_if].
    rewrite gen_desc_honest; eauto.
    - subst d. apply Hvalid.
    - destruct (valid_digest rf) eqn:V; auto. left. symmetry. auto.
    - destruct Hd as [->|V]; auto. right. left. split; auto. symmetry. auto.
  Qed.

  Lemma man_resolve_hit g n rs rf d mt c :
    inv g -> resolve_ref main rs = Some rf ->
    man_lookup (store_of g) rf = Some (d, (mt, c)) ->
    (p_dighdr p = true \/ valid_digest rf = true) ->
    exists t, man_resolve H parse_mt main user_mts limit S ex0 (g, n) rs
              = ((g, n + 1), t, RDesc (mkDesc mt d (len c))).
  Proof. intro Hi. apply man_resolve_hit_m. now apply inv_minv. Qed.

  Lemma man_resolve_miss g n rs rf :
    resolve_ref main rs = Some rf -> man_lookup (store_of g) rf = None ->
    exists t, man_resolve H parse_mt main user_mts limit S ex0 (g, n) rs = ((g, n + 1), t, RErr ENotFound).
  Proof.
    intros ER L. unfold man_resolve. rewrite ER, hx_head_man, (man_resp_miss true g rf L).
    simp. eauto.
  Qed.

  (* ---- manifestStore.FetchReference ---- *)
  Lemma man_fetchref_hit_m g n rs rf d mt c :
    minv g -> resolve_ref main rs = Some rf ->
    man_lookup (store_of g) rf = Some (d, (mt, c)) ->
    (p_clen p = true \/ p_dighdr p = true \/ valid_digest rf = true) ->
    exists n' t, man_fetchref H parse_mt main user_mts limit S ex0 (g, n) rs
              = ((g, n'), t, RDescBytes (mkDesc mt d (len c)) c).
  Proof.
    intros Hi ER L Hd. pose proof Hi as I. destruct (man_lookup_key _ _ _ _ L) as [Lk Hk].
    destruct (I _ _ _ Lk) as (Ed & Pm & Hlim).
    unfold man_fetchref. rewrite ER, hx_get_man, (man_resp_hit false g rf d mt c L).
    simp. rewrite orb_false_r.
    destruct (p_clen p) eqn:Ec; cbn [opt_if].
    - rewrite gen_desc_honest.
      + assert (Eb : match nstr (opt_if (p_dighdr p) d) with
                     | [] => hashed_body limit (mkResp 200 (Some mt) (Some (len c)) (opt_if (p_dighdr p) d) None false None [] c)
                     | _ => c end = c).
        { destruct (nstr (opt_if (p_dighdr p) d)); auto. unfold hashed_body. proj.
          apply take_n_all. exact Hlim. }
        rewrite Eb. eauto.
      + exact Pm.
      + subst d. apply Hvalid.
      + destruct (valid_digest rf) eqn:V; auto. left. symmetry. auto.
      + destruct (p_dighdr p); auto. right. right. auto.
    - destruct Hd as [X|Hd]; [discriminate|].
      destruct (man_resolve_hit_m g (n + 1) rs rf d mt c Hi ER L Hd) as [t E]. rewrite E.
      cbn [d_dg]. rewrite vd_opt by (subst d; apply Hvalid). eauto.
  Qed.

  Lemma man_fetchref_hit g n rs rf d mt c :
    inv g -> resolve_ref main rs = Some rf ->
    man_lookup (store_of g) rf = Some (d, (mt, c)) ->
    (p_clen p = true \/ p_dighdr p = true \/ valid_digest rf = true) ->
    exists n' t, man_fetchref H parse_mt main user_mts limit S ex0 (g, n) rs
              = ((g, n'), t, RDescBytes (mkDesc mt d (len c)) c).
  Proof. intro Hi. apply man_fetchref_hit_m. now apply inv_minv. Qed.

  Lemma man_fetchref_miss g n rs rf :
    resolve_ref main rs = Some rf -> man_lookup (store_of g) rf = None ->
    exists t, man_fetchref H parse_mt main user_mts limit S ex0 (g, n) rs = ((g, n + 1), t, RErr ENotFound).
  Proof.
    intros ER L. unfold man_fetchref. rewrite ER, hx_get_man, (man_resp_miss false g rf L).
    simp. eauto.
  Qed.

  (* ---- blobStore.Resolve / FetchReference ---- *)
  Lemma ct_octet_cons : exists x t, ct_octet = x :: t.
  Proof. vm_compute. eauto. Qed.

  Lemma gen_blob_honest n (c : bool) d ar body :
    valid_digest d = true ->
    gen_blob_desc parse_mt (mkResp 200 (Some ct_octet) (Some n) (opt_if c d) None ar None [] body) d
    = Some (mkDesc ct_octet d n).
  Proof.
    intro V. unfold gen_blob_desc. proj. rewrite Hoct.
    destruct ct_octet_cons as (x & t & E). rewrite E at 1. rewrite <- E.
    rewrite vd_opt by exact V. reflexivity.
  Qed.

  Lemma blob_resolve_hit g n rs rf c :
    resolve_ref main rs = Some rf -> valid_digest rf = true -> lookup rf (g_blobs g) = Some c ->
    exists t, blob_resolve parse_mt main S ex0 (g, n) rs = ((g, n + 1), t, RDesc (mkDesc ct_octet rf (len c))).
  Proof.
    intros ER V L. unfold blob_resolve. rewrite ER, V. cbn [negb].
    rewrite hx_head_blob, L, blob_resp_none. simp. rewrite orb_true_r. cbn [opt_if].
    rewrite gen_blob_honest by exact V. eauto.
  Qed.

  Lemma blob_resolve_miss g n rs rf :
    resolve_ref main rs = Some rf -> valid_digest rf = true -> lookup rf (g_blobs g) = None ->
    exists t, blob_resolve parse_mt main S ex0 (g, n) rs = ((g, n + 1), t, RErr ENotFound).
  Proof.
    intros ER V L. unfold blob_resolve. rewrite ER, V. cbn [negb].
    rewrite hx_head_blob, L. unfold blob_resp. simp. eauto.
  Qed.

  Lemma blob_fetchref_hit g n rs rf c :
    resolve_ref main rs = Some rf -> valid_digest rf = true -> lookup rf (g_blobs g) = Some c ->
    exists n' t, blob_fetchref parse_mt main S ex0 (g, n) rs
                 = ((g, n'), t, RDescBytes (mkDesc ct_octet rf (len c)) c).
  Proof.
    intros ER V L. unfold blob_fetchref. rewrite ER, V. cbn [negb].
    rewrite hx_get_blob, L, blob_resp_none. simp. rewrite orb_false_r.
    destruct (p_clen p); cbn [opt_if].
    - rewrite gen_blob_honest by exact V. eauto.
    - destruct (blob_resolve_hit g (n + 1) rs rf c ER V L) as [t E]. rewrite E.
      cbn [d_dg]. rewrite vd_opt by exact V. eauto.
  Qed.

  Lemma blob_fetchref_miss g n rs rf :
    resolve_ref main rs = Some rf -> valid_digest rf = true -> lookup rf (g_blobs g) = None ->
    exists t, blob_fetchref parse_mt main S ex0 (g, n) rs = ((g, n + 1), t, RErr ENotFound).
  Proof.
    intros ER V L. unfold blob_fetchref. rewrite ER, V. cbn [negb].
    rewrite hx_get_blob, L. unfold blob_resp. simp. eauto.
  Qed.

  (* the reader blob FetchReference returns is opened with the blob's true size in EVERY
     profile -- also when the GET carries no Content-Length and the descriptor comes from
     the HEAD -- so C13_seek (size = len content) applies to it *)
  Theorem fetchref_seeker g n rs rf c :
    resolve_ref main rs = Some rf -> valid_digest rf = true -> lookup rf (g_blobs g) = Some c ->
    exists n' t res, blob_fetchref parse_mt main S ex0 (g, n) rs = ((g, n'), t, res) /\
                     seeker_of res 0 = Some (rsc_open c (len c)).
  Proof.
    intros ER V L. destruct (blob_fetchref_hit g n rs rf c ER V L) as (n' & t & E).
    eexists _, _, _. split; [exact E|reflexivity].
  Qed.

  Theorem fetch_seeker g n d c :
    lookup (d_dg d) (g_blobs g) = Some c -> len c = d_sz d -> valid_digest (d_dg d) = true ->
    exists t res, blob_fetch S ex0 main (g, n) d = ((g, n + 1), t, res) /\
                  seeker_of res (d_sz d) = Some (rsc_open c (len c)).
  Proof.
    intros L Hs V. destruct (blob_fetch_hit g n d c L Hs V) as (t & E).
    eexists _, _. split; [exact E|]. cbn. now rewrite Hs.
  Qed.

  (* ---- Repository.delete ---- *)
  Lemma delete_blob_hit g n d c :
    lookup (d_dg d) (g_blobs g) = Some c -> valid_digest (d_dg d) = true ->
    exists g' t, delete_req main S ex0 (g, n) d false = ((g', n + 1), t, ROk) /\
                 store_of g' = with_blobs (store_of g) (remove (d_dg d) (g_blobs g)).
  Proof.
    intros L V. unfold delete_req, cexch, handle, req. proj. rewrite str_eqb_refl. proj. rewrite L.
    simp. rewrite vd_opt by exact V. eexists _, _. split; reflexivity.
  Qed.

  Lemma delete_blob_miss g n d :
    lookup (d_dg d) (g_blobs g) = None ->
    exists t, delete_req main S ex0 (g, n) d false = ((g, n + 1), t, RErr ENotFound).
  Proof.
    intros L. unfold delete_req, cexch, handle, req. proj. rewrite str_eqb_refl. proj. rewrite L.
    simp. eauto.
  Qed.

  Lemma delete_man_hit g n d mc :
    lookup (d_dg d) (g_mans g) = Some mc -> valid_digest (d_dg d) = true ->
    exists g' t, delete_req main S ex0 (g, n) d true = ((g', n + 1), t, ROk) /\
                 store_of g' = mkStore (g_blobs g) (remove (d_dg d) (g_mans g))
                                 (filter (fun t => negb (str_eqb (snd t) (d_dg d))) (g_tags g)) (g_other g).
  Proof.
    intros L V. unfold delete_req, cexch, handle, req. proj. rewrite str_eqb_refl. proj. rewrite V, L.
    simp. rewrite vd_opt by exact V. eexists _, _. split; reflexivity.
  Qed.

  Lemma delete_man_miss g n d :
    lookup (d_dg d) (g_mans g) = None -> valid_digest (d_dg d) = true ->
    exists t, delete_req main S ex0 (g, n) d true = ((g, n + 1), t, RErr ENotFound).
  Proof.
    intros L V. unfold delete_req, cexch, handle, req. proj. rewrite str_eqb_refl. proj. rewrite V, L.
    simp. eauto.
  Qed.

  (* ---- blob upload ---- *)
  Definition sess_resp (id : N) : response :=
    mkResp 202 None (Some 0) None (Some (main, ESession id)) false None [] [].
  Definition opened (g : reg) : reg :=
    mkReg (g_blobs g) (g_mans g) (g_tags g) (g_other g) (g_next g + 1) (g_next g :: g_open g).

  Lemma sess_status id : r_status (sess_resp id) = 202.
  Proof. reflexivity. Qed.

  Lemma opened_store g : store_of (opened g) = store_of g.
  Proof. reflexivity. Qed.

  Lemma hx_post g n : ex0 (g, n) (req POST main EUploads) = ((opened g, n + 1), sess_resp (g_next g)).
  Proof. unfold cexch, handle, req. proj. now rewrite str_eqb_refl. Qed.

  Lemma complete_push_ok g n id d c sized :
    mem_n id (g_open g) = true -> len c = d_sz d -> H c = d_dg d -> valid_digest (d_dg d) = true ->
    exists g' t, complete_push S ex0 (g, n) (sess_resp id) d c sized = ((g', n + 1), t, ROk) /\
                 store_of g' = with_blobs (store_of g) (insert (d_dg d) c (g_blobs g)).
  Proof.
    intros M Hs Hh V. unfold complete_push, sess_resp. proj.
    rewrite Hs, N.eqb_refl. cbn [negb]. rewrite andb_false_r.
    unfold cexch, handle. proj. rewrite str_eqb_refl. proj. rewrite M. proj.
    rewrite V, Hh, str_eqb_refl, <- Hs, N.eqb_refl. cbn [andb]. simp. rewrite up_dig_ok.
    eexists _, _. split; reflexivity.
  Qed.

  Lemma complete_push_bad g n id d c :
    matches_desc H d c = false ->
    exists g' n' t, complete_push S ex0 (g, n) (sess_resp id) d c true = ((g', n'), t, RErr EOther) /\
                    store_of g' = store_of g.
  Proof.
    unfold matches_desc. intros M. unfold complete_push, sess_resp. proj.
    destruct (len c =? d_sz d) eqn:El; cbn [negb andb] in *.
    - unfold cexch, handle. proj. rewrite str_eqb_refl. proj.
      destruct (mem_n id (g_open g)); proj.
      + rewrite M, andb_false_r. cbn [andb]. simp. eexists _, _, _. split; reflexivity.
      + simp. eexists _, _, _. split; reflexivity.
    - eexists _, _, _. split; reflexivity.
  Qed.

  Lemma mem_opened g : mem_n (g_next g) (g_open (opened g)) = true.
  Proof. unfold opened, mem_n. proj. cbn [existsb]. now rewrite N.eqb_refl. Qed.

  Lemma blob_push_ok g n d c :
    len c = d_sz d -> H c = d_dg d -> valid_digest (d_dg d) = true ->
    exists g' n' t, blob_push main S ex0 (g, n) d c = ((g', n'), t, ROk) /\
                    store_of g' = with_blobs (store_of g) (insert (d_dg d) c (g_blobs g)).
  Proof.
    intros Hs Hh V. unfold blob_push. rewrite hx_post. cbv beta iota zeta. rewrite sess_status. simp.
    destruct (complete_push_ok (opened g) (n + 1) (g_next g) d c true (mem_opened g) Hs Hh V)
      as (g' & t & E & St).
    rewrite E. eexists _, _, _. split; [reflexivity|exact St].
  Qed.

  Lemma blob_push_bad g n d c :
    matches_desc H d c = false ->
    exists g' n' t, blob_push main S ex0 (g, n) d c = ((g', n'), t, RErr EOther) /\
                    store_of g' = store_of g.
  Proof.
    intros M. unfold blob_push. rewrite hx_post. cbv beta iota zeta. rewrite sess_status. simp.
    destruct (complete_push_bad (opened g) (n + 1) (g_next g) d c M) as (g' & n' & t & E & St).
    rewrite E. eexists _, _, _. split; [reflexivity|exact St].
  Qed.

  (* ---- Mount ---- *)
  Lemma hx_mount g n d :
    ex0 (g, n) (mkReq POST main EUploads None (Some (d, other)) None None None None []) =
    match (if p_mount p then lookup d (g_other g) else None) with
    | Some c => ((set_blobs g (insert d c (g_blobs g)), n + 1),
                 mkResp 201 None (Some 0) (opt_if (p_dighdr p) d) (Some (main, EBlob d)) false None [] [])
    | None => ((opened g, n + 1), sess_resp (g_next g))
    end.
  Proof.
    unfold cexch, handle. proj. rewrite !str_eqb_refl. proj. rewrite andb_true_r.
    destruct (if p_mount p then lookup d (g_other g) else None); reflexivity.
  Qed.

  Lemma blob_mount_content g n d c :
    len c = d_sz d -> H c = d_dg d -> valid_digest (d_dg d) = true ->
    (forall c', lookup (d_dg d) (g_other g) = Some c' -> c' = c) ->
    exists g' n' t, blob_mount main other S ex0 (g, n) d (Some c) = ((g', n'), t, ROk) /\
                    store_of g' = with_blobs (store_of g) (insert (d_dg d) c (g_blobs g)).
  Proof.
    intros Hs Hh V Hsame. unfold blob_mount. rewrite hx_mount.
    destruct (if p_mount p then lookup (d_dg d) (g_other g) else None) as [c'|] eqn:E.
    - assert (c' = c) as ->.
      { destruct (p_mount p); [|discriminate]. now apply Hsame. }
      simp. rewrite vd_opt by exact V. eexists _, _, _. split; reflexivity.
    - cbv beta iota zeta. rewrite sess_status. simp.
      destruct (complete_push_ok (opened g) (n + 1) (g_next g) d c false (mem_opened g) Hs Hh V)
        as (g' & t & E2 & St).
      rewrite E2. eexists _, _, _. split; [reflexivity|exact St].
  Qed.

  Lemma blob_mount_pull_hit g n d c :
    inv g -> lookup (d_dg d) (g_other g) = Some c -> len c = d_sz d -> valid_digest (d_dg d) = true ->
    exists g' n' t, blob_mount main other S ex0 (g, n) d None = ((g', n'), t, ROk) /\
                    store_of g' = with_blobs (store_of g) (insert (d_dg d) c (g_blobs g)).
  Proof.
    intros [_ Io] L Hs V. pose proof (Io _ _ L) as Hh. symmetry in Hh.
    unfold blob_mount. rewrite hx_mount, L.
    destruct (p_mount p).
    - simp. rewrite vd_opt by exact V. eexists _, _, _. split; reflexivity.
    - cbv beta iota zeta. rewrite sess_status. simp.
      destruct (blob_fetch_other_hit (opened g) (n + 1) d c L Hs V) as [t1 E1]. rewrite E1.
      destruct (complete_push_ok (opened g) (n + 1 + 1) (g_next g) d c false (mem_opened g) Hs Hh V)
        as (g' & t & E2 & St).
      rewrite E2. eexists _, _, _. split; [reflexivity|exact St].
  Qed.

  Lemma blob_mount_pull_miss g n d :
    lookup (d_dg d) (g_other g) = None ->
    exists g' n' t, blob_mount main other S ex0 (g, n) d None = ((g', n'), t, RErr ENotFound) /\
                    store_of g' = store_of g.
  Proof.
    intros L. unfold blob_mount. rewrite hx_mount, L.
    assert ((if p_mount p then @None str else None) = None) as -> by (destruct (p_mount p); reflexivity).
    cbv beta iota zeta. rewrite sess_status. simp.
    destruct (blob_fetch_other_miss (opened g) (n + 1) d L) as [t1 E1]. rewrite E1.
    eexists _, _, _. split; reflexivity.
  Qed.

  (* ---- manifestStore.push ---- *)
  Notation sub_ok := (sub_ok subject_of p).
  Notation rst_ok := (rst_ok p).

  (* the referrers state after a successful PUT of [c] (checkOCISubjectHeader) *)
  Definition rst_after (rst : rstate) (c : str) : rstate :=
    match subject_of c with Some (Some _) => RSSupported | _ => rst end.

  Lemma rst_after_ok rst c : rst_ok rst -> rst_ok (rst_after rst c).
  Proof.
    unfold rst_after, RemoteSpec.rst_ok. intros [A|A]; auto.
    destruct (subject_of c) as [[?|]|]; auto. left. discriminate.
  Qed.

  Lemma subj_hdr rst c :
    sub_ok c -> rst_ok rst ->
    match nstr (if p_referrers p
                then match subj_of subject_of c with Some s => Some (d_dg s) | None => None end
                else None) with
    | [] => rst
    | _ => rs_set rst true
    end = rst_after rst c.
  Proof.
    unfold rst_after, subj_of. intros [Sj|(Pr & s & Sj & Ne)] Hr; rewrite Sj.
    - destruct (p_referrers p); reflexivity.
    - rewrite Pr. cbn [nstr]. destruct (d_dg s); [congruence|].
      destruct Hr as [Hr|Hr]; [|congruence]. destruct rst; cbn; congruence.
  Qed.

  Definition rst_of (res : result) (rst : rstate) (c : str) : rstate :=
    match res with ROk => rst_after rst c | _ => rst end.

  Lemma man_put_exec g n rst d c sized rf :
    valid_ref rf = true -> len c = d_sz d -> H c = d_dg d -> sub_ok c -> rst_ok rst ->
    valid_digest (d_dg d) = true ->
    exists g' n' t,
      man_put main S ex0 (g, n) rst d c sized rf
      = ((g', n'), rst_of (snd (put_manifest (store_of g) (d_dg d) (d_mt d) c rf)) rst c, t,
         snd (put_manifest (store_of g) (d_dg d) (d_mt d) c rf)) /\
      store_of g' = fst (put_manifest (store_of g) (d_dg d) (d_mt d) c rf).
  Proof.
    intros Vr Hs Hh Sj Hr V. unfold man_put.
    rewrite Hs, N.eqb_refl. cbn [negb]. rewrite andb_false_r.
    unfold cexch, handle. proj. rewrite str_eqb_refl. proj.
    rewrite <- Hs, N.eqb_refl. cbn [negb]. rewrite Hh.
    unfold put_manifest. unfold valid_ref in Vr.
    destruct (valid_digest rf) eqn:Vd; cbn [negb andb orb] in *.
    - destruct (str_eqb rf (d_dg d)) eqn:Eq; cbn [negb].
      + simp. rewrite (subj_hdr rst c Sj Hr). rewrite vd_opt by exact V.
        eexists _, _, _. split; reflexivity.
      + simp. eexists _, _, _. split; reflexivity.
    - rewrite Vr. cbn [negb]. simp. rewrite (subj_hdr rst c Sj Hr). rewrite vd_opt by exact V.
      eexists _, _, _. split; reflexivity.
  Qed.

  (* a PUT whose body does not hash to the digest reference is refused *)
  Lemma man_put_bad g n rst d c :
    matches_desc H d c = false -> valid_digest (d_dg d) = true ->
    exists g' n' t, man_put main S ex0 (g, n) rst d c true (d_dg d) = ((g', n'), rst, t, RErr EOther) /\
                    store_of g' = store_of g.
  Proof.
    unfold matches_desc. intros M V. unfold man_put.
    destruct (len c =? d_sz d) eqn:El; cbn [negb andb] in *.
    - unfold cexch, handle. proj. rewrite str_eqb_refl. proj.
      apply N.eqb_eq in El. rewrite <- El, N.eqb_refl. cbn [negb]. rewrite V. cbn [andb].
      rewrite str_eqb_sym, M. cbn [negb]. simp. eexists _, _, _. split; reflexivity.
    - eexists _, _, _. split; reflexivity.
  Qed.

  Lemma put_manifest_result st dg mt c rf :
    snd (put_manifest st dg mt c rf) = ROk \/ snd (put_manifest st dg mt c rf) = RErr EOther.
  Proof.
    unfold put_manifest. destruct (valid_digest rf); [destruct (str_eqb rf dg)|]; cbn; auto.
  Qed.

  Lemma rst_of_ok res rst c : rst_ok rst -> rst_ok (rst_of res rst c).
  Proof. intro Hr. destruct res; cbn [rst_of]; auto using rst_after_ok. Qed.

  (* pushWithIndexing *)
  Lemma man_push_exec g n rst d c rf :
    valid_ref rf = true -> len c = d_sz d -> H c = d_dg d -> sub_ok c -> rst_ok rst ->
    valid_digest (d_dg d) = true -> len c <= limit ->
    exists g' n' t,
      man_push H parse_mt subject_of main user_mts limit skip_gc index_of S ex0 (g, n) rst d c rf
      = ((g', n'), rst_of (snd (put_manifest (store_of g) (d_dg d) (d_mt d) c rf)) rst c, t,
         snd (put_manifest (store_of g) (d_dg d) (d_mt d) c rf)) /\
      store_of g' = fst (put_manifest (store_of g) (d_dg d) (d_mt d) c rf).
  Proof.
    intros Vr Hs Hh Sj Hr V Hl. unfold man_push.
    destruct (man_put_exec g n rst d c true rf Vr Hs Hh Sj Hr V) as (g' & n' & t & E & St).
    assert (El : (limit <? d_sz d) = false) by (apply N.ltb_ge; rewrite <- Hs; exact Hl).
    destruct (indexable (d_mt d) && negb (rs_supported rst)) eqn:Ei.
    - rewrite El, Hs, N.eqb_refl, Hh, str_eqb_refl. cbn [negb orb]. rewrite E.
      destruct (put_manifest_result (store_of g) (d_dg d) (d_mt d) c rf) as [R|R]; rewrite R in *.
      + cbn [rst_of]. apply andb_true_iff in Ei as [_ Ns]. apply negb_true_iff in Ns.
        unfold rst_after. destruct Sj as [Sj|(Pr & s & Sj & Ne)]; rewrite Sj.
        * rewrite Ns. eexists _, _, _. split; [reflexivity|exact St].
        * cbn [rs_supported]. eexists _, _, _. split; [reflexivity|exact St].
      + eexists _, _, _. split; [reflexivity|exact St].
    - rewrite E. eexists _, _, _. split; [reflexivity|exact St].
  Qed.

  Lemma man_push_bad g n rst d c :
    matches_desc H d c = false -> valid_digest (d_dg d) = true ->
    exists g' n' t, man_push H parse_mt subject_of main user_mts limit skip_gc index_of S ex0 (g, n) rst d c (d_dg d) = ((g', n'), rst, t, RErr EOther) /\
                    store_of g' = store_of g.
  Proof.
    intros M V. unfold man_push.
    destruct (indexable (d_mt d) && negb (rs_supported rst)).
    - unfold matches_desc in M.
      assert (X : negb (len c =? d_sz d) || negb (str_eqb (H c) (d_dg d)) = true).
      { destruct (len c =? d_sz d); cbn in *; [now rewrite M|reflexivity]. }
      rewrite X. destruct (limit <? d_sz d); eexists _, _, _; split; reflexivity.
    - apply man_put_bad; auto.
  Qed.

  (* pingReferrers against a registry with the Referrers API *)
  Lemma hx_referrers g n d :
    p_referrers p = true ->
    ex0 (g, n) (req GET main (EReferrers d))
    = ((g, n + 1), mkResp 200 (Some mt_index) None None None false None
                          (referrers_of (subj_of subject_of) g d) []).
  Proof. intro Pr. unfold cexch, handle, req. proj. rewrite str_eqb_refl. proj. now rewrite Pr. Qed.

  (* deleteWithIndexing *)
  Lemma man_delete_hit g n rst d c :
    inv g -> rst_ok rst -> lookup (d_dg d) (g_mans g) = Some (d_mt d, c) -> len c = d_sz d ->
    valid_digest (d_dg d) = true ->
    exists g' n' rst' t,
      man_delete H parse_mt subject_of main user_mts limit skip_gc index_of S ex0 (g, n) rst d = ((g', n'), rst', t, ROk) /\
      rst_ok rst' /\
      store_of g' = mkStore (g_blobs g) (remove (d_dg d) (g_mans g))
                      (filter (fun t => negb (str_eqb (snd t) (d_dg d))) (g_tags g)) (g_other g).
  Proof.
    intros Hi Hr L Hs V. pose proof Hi as [I _]. destruct (I _ _ _ L) as (Hh & Sj & _ & Hlim).
    assert (El : (limit <? d_sz d) = false) by (apply N.ltb_ge; rewrite <- Hs; exact Hlim).
    unfold man_delete. destruct (indexable_del (d_mt d) && negb (rs_supported rst)) eqn:Ei.
    - rewrite El. destruct (man_fetch_hit g n d c Hi L Hs V) as [t1 E1]. rewrite E1.
      rewrite Hs, N.eqb_refl, <- Hh, str_eqb_refl. cbn [negb orb].
      destruct Sj as [Sj|(Pr & s & Sj & Ne)]; rewrite Sj.
      + destruct (delete_man_hit g (n + 1) d _ L V) as (g' & t2 & E2 & St). rewrite E2.
        eexists _, _, _, _. split; [reflexivity|]. split; [exact Hr|exact St].
      + apply andb_true_iff in Ei as [_ Ns]. apply negb_true_iff in Ns.
        assert (rst = RSUnknown) as ->.
        { destruct Hr as [Hr|Hr]; [|congruence]. destruct rst; cbn in Ns; congruence. }
        unfold ping_referrers. rewrite (hx_referrers g (n + 1) zero_digest Pr). simp.
        rewrite str_eqb_refl. cbn [rs_set].
        destruct (delete_man_hit g (n + 1 + 1) d _ L V) as (g' & t2 & E2 & St). rewrite E2.
        eexists _, _, _, _. split; [reflexivity|]. split; [left; discriminate|exact St].
    - destruct (delete_man_hit g n d _ L V) as (g' & t2 & E2 & St). rewrite E2.
      eexists _, _, _, _. split; [reflexivity|]. split; [exact Hr|exact St].
  Qed.

  Lemma man_delete_miss g n rst d :
    lookup (d_dg d) (g_mans g) = None -> valid_digest (d_dg d) = true -> d_sz d <= limit ->
    exists n' t, man_delete H parse_mt subject_of main user_mts limit skip_gc index_of S ex0 (g, n) rst d = ((g, n'), rst, t, RErr ENotFound).
  Proof.
    intros L V Hl. assert (El : (limit <? d_sz d) = false) by (apply N.ltb_ge; exact Hl).
    unfold man_delete. destruct (indexable_del (d_mt d) && negb (rs_supported rst)).
    - rewrite El. destruct (man_fetch_miss g n d L V) as [t1 E1]. rewrite E1. eauto.
    - destruct (delete_man_miss g n d L V) as [t1 E1]. rewrite E1. eauto.
  Qed.

  (* Tag = fetch + put *)
  Lemma man_tag_hit g n rst d rs rf c :
    inv g -> rst_ok rst -> resolve_ref main rs = Some rf ->
    lookup (d_dg d) (g_mans g) = Some (d_mt d, c) -> len c = d_sz d -> valid_digest (d_dg d) = true ->
    exists g' n' t,
      man_tag parse_mt main S ex0 (g, n) rst d rs
      = ((g', n'), rst_of (snd (put_manifest (store_of g) (d_dg d) (d_mt d) c rf)) rst c, t,
         snd (put_manifest (store_of g) (d_dg d) (d_mt d) c rf)) /\
      store_of g' = fst (put_manifest (store_of g) (d_dg d) (d_mt d) c rf).
  Proof.
    intros Hi Hr ER L Hs V. pose proof Hi as [I _]. destruct (I _ _ _ L) as (Hh & Sj & _ & Hlim).
    unfold man_tag. rewrite ER.
    destruct (man_fetch_hit g n d c Hi L Hs V) as [t1 E1]. rewrite E1.
    destruct (man_put_exec g (n + 1) rst d c false rf (resolve_ref_valid _ _ _ ER) Hs (eq_sym Hh) Sj Hr V)
      as (g' & n' & t2 & E2 & St).
    rewrite E2. eexists _, _, _. split; [reflexivity|exact St].
  Qed.

  Lemma man_tag_miss g n rst d rs rf :
    resolve_ref main rs = Some rf -> lookup (d_dg d) (g_mans g) = None -> valid_digest (d_dg d) = true ->
    exists n' t, man_tag parse_mt main S ex0 (g, n) rst d rs = ((g, n'), rst, t, RErr ENotFound).
  Proof.
    intros ER L V. unfold man_tag. rewrite ER.
    destruct (man_fetch_miss g n d L V) as [t1 E1]. rewrite E1. eauto.
  Qed.

  (* ---------- Predecessors reflect the registry's state (Referrers API) ---------- *)
  Theorem predecessors_reflect g n rst d :
    p_referrers p = true -> rst <> RSUnsupported ->
    predecessors H parse_mt main user_mts limit index_of S ex0 (g, n) rst d
    = ((g, n + 1), RSSupported,
       [(req GET main (EReferrers (d_dg d)),
         mkResp 200 (Some mt_index) None None None false None
                (referrers_of (subj_of subject_of) g (d_dg d)) [])],
       RDescs (referrers_of (subj_of subject_of) g (d_dg d))).
  Proof.
    intros Pr Hr. unfold predecessors.
    destruct rst; try congruence; rewrite (hx_referrers g n (d_dg d) Pr); simp; rewrite str_eqb_refl; reflexivity.
  Qed.

  Notation wf_op := (wf_op H parse_mt subject_of main user_mts limit p).
  Notation wf_hist := (wf_hist H parse_mt subject_of main user_mts limit p).
  Notation spec_op' := (spec_op H subject_of main user_mts).
  Notation run_op' := (run_op H parse_mt subject_of main other user_mts limit skip_gc index_of S ex0).

  Lemma matches_desc_true d c : matches_desc H d c = true -> len c = d_sz d /\ H c = d_dg d.
  Proof.
    unfold matches_desc. intro M. apply andb_true_iff in M as [A B].
    apply N.eqb_eq in A. apply str_eqb_spec in B. auto.
  Qed.

  Ltac fin_ex := eexists _, _, _, _; split; [reflexivity|split; [try assumption|try reflexivity]].

  Lemma run_op_refines g n rst o :
    inv g -> rst_ok rst -> wf_op (store_of g) o ->
    exists g' n' rst' t,
      run_op' (g, n) rst o = ((g', n'), rst', t, snd (spec_op' (store_of g) o)) /\
      rst_ok rst' /\
      store_of g' = fst (spec_op' (store_of g) o).
  Proof.
    intros Hi Hr Hw. destruct o as [d c|d|d|d|rs|rs|d rs|d c rs|d getc|d|rs|rs]; cbn [run_op spec_op wf_op] in *;
      change (t_mans (store_of g)) with (g_mans g) in *; change (t_blobs (store_of g)) with (g_blobs g) in *;
      change (t_other (store_of g)) with (g_other g) in *.
    - (* Push *)
      destruct Hw as [V Hm].
      destruct (matches_desc H d c) eqn:M.
      + destruct (matches_desc_true _ _ M) as [Hs Hh].
        destruct (is_manifest user_mts d) eqn:Im.
        * destruct (Hm eq_refl) as (Sj & Pm & Hl).
          destruct (man_push_exec g n rst d c (d_dg d) (valid_ref_digest _ V) Hs Hh Sj Hr V Hl) as (g' & n' & t & E & St).
          unfold put_manifest in E, St. rewrite V, str_eqb_refl in E, St. rewrite E. fin_ex.
          -- cbn [rst_of snd]. now apply rst_after_ok.
          -- exact St.
        * destruct (blob_push_ok g n d c Hs Hh V) as (g' & n' & t & E & St).
          rewrite E. cbn [lift]. fin_ex. exact St.
      + destruct (is_manifest user_mts d).
        * destruct (man_push_bad g n rst d c M V) as (g' & n' & t & E & St). rewrite E. fin_ex. exact St.
        * destruct (blob_push_bad g n d c M) as (g' & n' & t & E & St). rewrite E. cbn [lift]. fin_ex. exact St.
    - (* Fetch *)
      destruct Hw as [V Ha]. destruct (is_manifest user_mts d).
      + proj. destruct (lookup (d_dg d) (g_mans g)) as [[mt c]|] eqn:L.
        * destruct (Ha _ _ L) as [-> Hs].
          destruct (man_fetch_hit g n d c Hi L Hs V) as [t E]. rewrite E. cbn [lift]. fin_ex.
        * destruct (man_fetch_miss g n d L V) as [t E]. rewrite E. cbn [lift]. fin_ex.
      + proj. destruct (lookup (d_dg d) (g_blobs g)) as [c|] eqn:L.
        * destruct (blob_fetch_hit g n d c L (Ha _ L) V) as [t E]. rewrite E. cbn [lift]. fin_ex.
        * destruct (blob_fetch_miss g n d L) as [t E]. rewrite E. cbn [lift]. fin_ex.
    - (* Exists *)
      pose proof (resolve_ref_digest main _ Hw) as ER.
      destruct (is_manifest user_mts d).
      + proj. destruct (lookup (d_dg d) (g_mans g)) as [[mt c]|] eqn:L.
        * assert (ML : man_lookup (store_of g) (d_dg d) = Some (d_dg d, (mt, c)))
            by (rewrite man_lookup_digest, L; auto).
          destruct (man_resolve_hit g n _ _ _ _ _ Hi ER ML (or_intror Hw)) as [t E]. rewrite E. fin_ex.
        * assert (ML : man_lookup (store_of g) (d_dg d) = None)
            by (rewrite man_lookup_digest, L; auto).
          destruct (man_resolve_miss g n _ _ ER ML) as [t E]. rewrite E. fin_ex.
      + proj. destruct (lookup (d_dg d) (g_blobs g)) as [c|] eqn:L.
        * destruct (blob_resolve_hit g n _ _ c ER Hw L) as [t E]. rewrite E. fin_ex.
        * destruct (blob_resolve_miss g n _ _ ER Hw L) as [t E]. rewrite E. fin_ex.
    - (* Delete *)
      destruct Hw as [V Ha]. destruct (is_manifest user_mts d).
      + destruct Ha as [Ha Hl]. proj. destruct (lookup (d_dg d) (g_mans g)) as [[mt c]|] eqn:L.
        * destruct (Ha _ _ L) as [-> Hs].
          destruct (man_delete_hit g n rst d c Hi Hr L Hs V) as (g' & n' & rst' & t & E & Hr' & St). rewrite E. fin_ex. exact St.
        * destruct (man_delete_miss g n rst d L V Hl) as (n' & t & E). rewrite E. fin_ex.
      + proj. destruct (lookup (d_dg d) (g_blobs g)) as [c|] eqn:L.
        * destruct (delete_blob_hit g n d c L V) as (g' & t & E & St). rewrite E. cbn [lift]. fin_ex. exact St.
        * destruct (delete_blob_miss g n d L) as (t & E). rewrite E. cbn [lift]. fin_ex.
    - (* Resolve *)
      destruct (resolve_ref main rs) as [rf|] eqn:ER.
      + destruct (man_lookup (store_of g) rf) as [[dg [mt c]]|] eqn:ML.
        * destruct (man_resolve_hit g n _ _ _ _ _ Hi ER ML (Hw _ eq_refl)) as [t E]. rewrite E. cbn [lift]. fin_ex.
        * destruct (man_resolve_miss g n _ _ ER ML) as [t E]. rewrite E. cbn [lift]. fin_ex.
      + unfold man_resolve. rewrite ER. cbn [lift]. fin_ex.
    - (* FetchReference *)
      destruct (resolve_ref main rs) as [rf|] eqn:ER.
      + destruct (man_lookup (store_of g) rf) as [[dg [mt c]]|] eqn:ML.
        * destruct (man_fetchref_hit g n _ _ _ _ _ Hi ER ML (Hw _ eq_refl)) as (n' & t & E). rewrite E. cbn [lift]. fin_ex.
        * destruct (man_fetchref_miss g n _ _ ER ML) as [t E]. rewrite E. cbn [lift]. fin_ex.
      + unfold man_fetchref. rewrite ER. cbn [lift]. fin_ex.
    - (* Tag *)
      destruct Hw as [V Ha].
      destruct (resolve_ref main rs) as [rf|] eqn:ER.
      + proj. destruct (lookup (d_dg d) (g_mans g)) as [[mt c]|] eqn:L.
        * destruct (Ha _ _ L) as [-> Hs].
          destruct (man_tag_hit g n rst d rs rf c Hi Hr ER L Hs V) as (g' & n' & t & E & St). rewrite E. fin_ex.
          -- now apply rst_of_ok.
          -- exact St.
        * destruct (man_tag_miss g n rst d rs rf ER L V) as (n' & t & E). rewrite E. fin_ex.
      + unfold man_tag. rewrite ER. fin_ex.
    - (* PushReference *)
      destruct Hw as (V & M & Sj & Pm & Hl). rewrite M. destruct (matches_desc_true _ _ M) as [Hs Hh].
      destruct (resolve_ref main rs) as [rf|] eqn:ER.
      + destruct (man_push_exec g n rst d c rf (resolve_ref_valid _ _ _ ER) Hs Hh Sj Hr V Hl) as (g' & n' & t & E & St).
        rewrite E. fin_ex.
        -- now apply rst_of_ok.
        -- exact St.
      + fin_ex.
    - (* Mount *)
      destruct getc as [c|].
      + destruct Hw as (V & M & Hsame). destruct (matches_desc_true _ _ M) as [Hs Hh].
        destruct (blob_mount_content g n d c Hs Hh V Hsame) as (g' & n' & t & E & St).
        rewrite E. cbn [lift]. fin_ex. exact St.
      + destruct Hw as (V & Ha). proj. destruct (lookup (d_dg d) (g_other g)) as [c|] eqn:L.
        * destruct (blob_mount_pull_hit g n d c Hi L (Ha _ L) V) as (g' & n' & t & E & St).
          rewrite E. cbn [lift]. fin_ex. exact St.
        * destruct (blob_mount_pull_miss g n d L) as (g' & n' & t & E & St).
          rewrite E. cbn [lift]. fin_ex. exact St.
    - (* Predecessors *)
      assert (Hn : rst <> RSUnsupported) by (destruct Hr as [Hr|Hr]; [exact Hr|congruence]).
      rewrite (predecessors_reflect g n rst d Hw Hn). fin_ex. left. discriminate.
    - (* blob Resolve *)
      destruct (resolve_ref main rs) as [rf|] eqn:ER.
      + destruct (valid_digest rf) eqn:V.
        * proj. destruct (lookup rf (g_blobs g)) as [c|] eqn:L.
          -- destruct (blob_resolve_hit g n _ _ c ER V L) as [t E]. rewrite E. cbn [lift]. fin_ex.
          -- destruct (blob_resolve_miss g n _ _ ER V L) as [t E]. rewrite E. cbn [lift]. fin_ex.
        * unfold blob_resolve. rewrite ER, V. cbn [negb lift]. fin_ex.
      + unfold blob_resolve. rewrite ER. cbn [lift]. fin_ex.
    - (* blob FetchReference *)
      destruct (resolve_ref main rs) as [rf|] eqn:ER.
      + destruct (valid_digest rf) eqn:V.
        * proj. destruct (lookup rf (g_blobs g)) as [c|] eqn:L.
          -- destruct (blob_fetchref_hit g n _ _ c ER V L) as (n' & t & E). rewrite E. cbn [lift]. fin_ex.
          -- destruct (blob_fetchref_miss g n _ _ ER V L) as [t E]. rewrite E. cbn [lift]. fin_ex.
        * unfold blob_fetchref. rewrite ER, V. cbn [negb lift]. fin_ex.
      + unfold blob_fetchref. rewrite ER. cbn [lift]. fin_ex.
  Qed.

  (* ---------- the invariant is preserved (at the level of the specification) ---------- *)
  Lemma sinv_insert_man st dg mt c tags :
    sinv st -> dg = H c -> sub_ok c -> parse_mt mt = Some mt -> len c <= limit ->
    sinv (mkStore (t_blobs st) (insert dg (mt, c) (t_mans st)) tags (t_other st)).
  Proof.
    intros [I Io] Hd Sj Pm Hl. split; proj; [|exact Io].
    intros d' mt' c' L. apply lookup_insert_inv in L as [[-> X]|L]; [|eauto].
    injection X as -> ->. auto.
  Qed.

  Lemma sinv_blobs st x : sinv st -> sinv (with_blobs st x).
  Proof. intros [I Io]. split; assumption. Qed.

  Lemma put_manifest_sinv st dg mt c rf :
    sinv st -> dg = H c -> sub_ok c -> parse_mt mt = Some mt -> len c <= limit ->
    sinv (fst (put_manifest st dg mt c rf)).
  Proof.
    intros Hi Hd Sj Pm Hl. unfold put_manifest.
    destruct (valid_digest rf); [destruct (str_eqb rf dg)|]; cbn [fst]; auto;
      apply sinv_insert_man; auto.
  Qed.

  Lemma spec_op_sinv st o : sinv st -> wf_op st o -> sinv (fst (spec_op' st o)).
  Proof.
    intros Hi Hw. pose proof Hi as [I Io].
    destruct o as [d c|d|d|d|rs|rs|d rs|d c rs|d getc|d|rs|rs]; cbn [spec_op wf_op] in *.
    - destruct Hw as [V Hm]. destruct (matches_desc H d c) eqn:M; [|exact Hi].
      destruct (matches_desc_true _ _ M) as [Hs Hh].
      destruct (is_manifest user_mts d); cbn [fst]; [|now apply sinv_blobs].
      destruct (Hm eq_refl) as (Sj & Pm & Hl). apply sinv_insert_man; auto.
    - destruct (is_manifest user_mts d).
      + destruct (lookup (d_dg d) (t_mans st)) as [[? ?]|]; exact Hi.
      + destruct (lookup (d_dg d) (t_blobs st)); exact Hi.
    - exact Hi.
    - destruct (is_manifest user_mts d).
      + destruct (lookup (d_dg d) (t_mans st)); [|exact Hi]. cbn [fst]. split; proj; [|exact Io].
        intros d' mt' c' L. apply lookup_remove_inv in L as [L _]. eauto.
      + destruct (lookup (d_dg d) (t_blobs st)); [|exact Hi]. cbn [fst]. now apply sinv_blobs.
    - destruct (resolve_ref main rs); [|exact Hi]. destruct (man_lookup st s) as [[? [? ?]]|]; exact Hi.
    - destruct (resolve_ref main rs); [|exact Hi]. destruct (man_lookup st s) as [[? [? ?]]|]; exact Hi.
    - destruct (resolve_ref main rs); [|exact Hi].
      destruct (lookup (d_dg d) (t_mans st)) as [[mt c]|] eqn:L; [|exact Hi].
      destruct (I _ _ _ L) as (Hd & Sj & Pm & Hlim). apply put_manifest_sinv; auto.
    - destruct Hw as (V & M & Sj & Pm & Hl). rewrite M. destruct (matches_desc_true _ _ M) as [Hs Hh].
      destruct (resolve_ref main rs); [|exact Hi]. apply put_manifest_sinv; auto.
    - destruct getc as [c|]; [cbn [fst]; now apply sinv_blobs|].
      destruct (lookup (d_dg d) (t_other st)); [cbn [fst]; now apply sinv_blobs|exact Hi].
    - exact Hi.
    - destruct (resolve_ref main rs); [|exact Hi]. destruct (valid_digest s); [|exact Hi].
      destruct (lookup s (t_blobs st)); exact Hi.
    - destruct (resolve_ref main rs); [|exact Hi]. destruct (valid_digest s); [|exact Hi].
      destruct (lookup s (t_blobs st)); exact Hi.
  Qed.

  (* ---------- histories ---------- *)
  Notation run_ops' := (run_ops H parse_mt subject_of main other user_mts limit skip_gc index_of S ex0).
  Notation spec_run' := (spec_run H subject_of main user_mts).

  Lemma run_ops_refines os : forall g n rst,
    inv g -> rst_ok rst -> wf_hist (store_of g) os ->
    exists g' n' rst' out,
      run_ops' (g, n) rst os = ((g', n'), rst', out) /\
      map snd out = snd (spec_run' (store_of g) os) /\
      store_of g' = fst (spec_run' (store_of g) os).
  Proof.
    induction os as [|o os IH]; intros g n rst Hi Hr Hw.
    - exists g, n, rst, []. repeat split.
    - destruct Hw as [Hw Hrest]. cbn [run_ops spec_run].
      destruct (run_op_refines g n rst o Hi Hr Hw) as (g1 & n1 & rst1 & t & E & Hr1 & St). rewrite E.
      assert (Hi1 : inv g1) by (unfold inv; rewrite St; now apply spec_op_sinv).
      rewrite <- St in Hrest.
      destruct (IH g1 n1 rst1 Hi1 Hr1 Hrest) as (g2 & n2 & rst2 & out & E2 & Ro & St2). rewrite E2.
      destruct (spec_op' (store_of g) o) as [st1 r1] eqn:Es. cbn [fst snd] in *.
      rewrite St in *. destruct (spec_run' st1 os) as [st2 rs] eqn:Er. cbn [fst snd] in *.
      eexists _, _, _, _. split; [reflexivity|]. cbn [map snd fst]. split; [now rewrite Ro|exact St2].
  Qed.

  Theorem run_history_refines other_blobs rst os g out :
    (forall d c, lookup d other_blobs = Some c -> d = H c) ->
    rst_ok rst ->
    wf_hist (mkStore [] [] [] other_blobs) os ->
    run_history H parse_mt subject_of main other user_mts limit skip_gc index_of p None other_blobs rst os = (g, out) ->
    map snd out = snd (spec_run' (mkStore [] [] [] other_blobs) os) /\
    store_of g = fst (spec_run' (mkStore [] [] [] other_blobs) os).
  Proof.
    intros Ho Hr Hw. unfold run_history.
    assert (Hi : inv (reg0 other_blobs)).
    { split; proj; [intros d mt c L; discriminate L|exact Ho]. }
    destruct (run_ops_refines os (reg0 other_blobs) 0 rst Hi Hr Hw) as (g' & n' & rst' & out' & E & Ro & St).
    rewrite E. intro X. injection X as <- <-. auto.
  Qed.

  (* ---------- the referrers tag schema: an indexed referrer is found again ---------- *)
  (* Registry without the Referrers API (or a client told so).  The referrers tag of [subj] is
     absent or points to an index the client wrote before (gen_index l).  After
     updateReferrersIndex(subj, add r) -- what Push of a manifest with that subject does --
     Predecessors over the tag schema lists the old referrers and r.  Hypotheses: JSON round
     trip of an index, a registry the tag can be resolved against (Docker-Content-Digest or
     Content-Length present: the known finding otherwise), no digest collision between the old
     and the new index, the new index within MaxMetadataBytes. *)
  (* JSON decoding of an index is the parameter index_of; the theorems ask it to invert gen_index on
     the PARTICULAR indexes they read (a hypothesis for all lists would be unsatisfiable: gen_index
     does not escape, so it is not injective on descriptors whose strings contain quotes) *)
  Definition json_ok (l : list desc) : Prop := index_of (gen_index l) = Some l.
  Definition json_ok_st (st : option (str * list desc)) : Prop :=
    match st with Some (_, l) => json_ok l | None => True end.
  Hypothesis Hidx_subj : forall l, subject_of (gen_index l) = Some None.
  Hypothesis Hidx_mt : parse_mt mt_index = Some mt_index.

  Lemma rfi_on_index_m g n tag od l :
    minv g -> resolve_ref main tag = Some tag -> valid_digest tag = false ->
    index_state g tag (Some (od, l)) -> (p_clen p = true \/ p_dighdr p = true) -> json_ok l ->
    exists n' t, referrers_from_index H parse_mt main user_mts limit index_of S ex0 (g, n) tag
                 = ((g, n'), t, ROk, Some (mkDesc mt_index od (len (gen_index l)), l)).
  Proof.
    intros Hi ER Vt [Lt Lm] Hp Hj. destruct (Hi _ _ _ Lm) as (Hd & _ & Hlim).
    assert (ML : man_lookup (store_of g) tag = Some (od, (mt_index, gen_index l))).
    { rewrite man_lookup_store. unfold man_digest. rewrite Vt, Lt, Lm. reflexivity. }
    assert (Hp' : p_clen p = true \/ p_dighdr p = true \/ valid_digest tag = true) by tauto.
    destruct (man_fetchref_hit_m g n tag tag od mt_index (gen_index l) Hi ER ML Hp') as (n' & t & E).
    unfold referrers_from_index. rewrite E. cbn [d_sz d_dg].
    assert (El : (limit <? len (gen_index l)) = false) by (apply N.ltb_ge; exact Hlim).
    rewrite El, N.eqb_refl, <- Hd, str_eqb_refl, andb_false_r, Hj. eauto.
  Qed.

  Lemma rfi_on_index g n tag od l :
    inv g -> resolve_ref main tag = Some tag -> valid_digest tag = false ->
    index_state g tag (Some (od, l)) -> (p_clen p = true \/ p_dighdr p = true) -> json_ok l ->
    exists n' t, referrers_from_index H parse_mt main user_mts limit index_of S ex0 (g, n) tag
                 = ((g, n'), t, ROk, Some (mkDesc mt_index od (len (gen_index l)), l)).
  Proof. intro Hi. apply rfi_on_index_m. now apply inv_minv. Qed.

  Lemma rfi_no_index g n tag :
    resolve_ref main tag = Some tag -> valid_digest tag = false -> index_state g tag None ->
    exists t, referrers_from_index H parse_mt main user_mts limit index_of S ex0 (g, n) tag
              = ((g, n + 1), t, RErr ENotFound, None).
  Proof.
    intros ER Vt Lt. cbn in Lt.
    assert (ML : man_lookup (store_of g) tag = None).
    { rewrite man_lookup_store. unfold man_digest. now rewrite Vt, Lt. }
    destruct (man_fetchref_miss g n tag tag ER ML) as (t & E).
    unfold referrers_from_index. rewrite E. eauto.
  Qed.

  (* the general step: whatever the change, if applyReferrerChanges yields [upd] the tag schema
     afterwards lists [upd] *)
  (* what an index update does to the registry: manifests only go away, except for the new index *)
  Definition ts_step (g g' : reg) (j : str) (old : option (str * list desc)) : Prop :=
    (forall d mt c, lookup d (g_mans g') = Some (mt, c) ->
        lookup d (g_mans g) = Some (mt, c) \/ (d = H j /\ mt = mt_index /\ c = j)) /\
    g_other g' = g_other g /\
    (forall k, k <> H j -> (forall od l0, old = Some (od, l0) -> k <> od) ->
               lookup k (g_mans g') = lookup k (g_mans g)).

  Lemma ts_step_minv g g' j old : minv g -> len j <= limit -> ts_step g g' j old -> minv g'.
  Proof.
    intros I Hl [A _] d mt c L. destruct (A _ _ _ L) as [L0|(-> & -> & ->)]; [eauto|]. auto.
  Qed.

  Lemma ts_step_inv g g' l old : inv g -> len (gen_index l) <= limit -> ts_step g g' (gen_index l) old -> inv g'.
  Proof.
    intros [I Io] Hl (A & B & _). split.
    - intros d mt c L. change (t_mans (store_of g')) with (g_mans g') in L.
      destruct (A _ _ _ L) as [L0|(-> & -> & ->)]; [exact (I _ _ _ L0)|].
      repeat split; auto. left. apply Hidx_subj.
    - change (t_other (store_of g')) with (g_other g'). rewrite B. exact Io.
  Qed.

  (* Predecessors over the tag schema reads what the referrers tag points to *)
  Lemma tag_schema_read g n subj st :
    minv g -> valid_digest (d_dg subj) = true ->
    let tag := ref_tag (d_dg subj) in
    resolve_ref main tag = Some tag -> valid_digest tag = false ->
    (p_clen p = true \/ p_dighdr p = true) ->
    index_state g tag st -> json_ok_st st ->
    exists n' t, tag_schema_referrers H parse_mt main user_mts limit index_of S ex0 (g, n) subj
                 = ((g, n'), t, RDescs (clean_refs [] (match st with Some (_, l) => l | None => [] end))).
  Proof.
    intros Hi Vs tag ER Vt Hp Hst Hj. unfold tag_schema_referrers. rewrite Vs. cbn [negb]. fold tag.
    destruct st as [[od l]|].
    - destruct (rfi_on_index_m g n tag od l Hi ER Vt Hst Hp Hj) as (n3 & t3 & E3). rewrite E3. eauto.
    - destruct (rfi_no_index g n tag ER Vt Hst) as (t3 & E3). rewrite E3. eauto.
  Qed.

  Lemma tag_schema_update_m g n rst subj old ch upd :
    minv g -> rst_ok rst ->
    valid_digest (d_dg subj) = true ->
    let tag := ref_tag (d_dg subj) in
    resolve_ref main tag = Some tag -> valid_digest tag = false ->
    (p_clen p = true \/ p_dighdr p = true) ->
    index_state g tag old -> json_ok_st old -> NoDup (map fst (g_tags g)) ->
    apply_change (match old with Some (_, l) => l | None => [] end) (Some ch) = Some upd ->
    len (gen_index upd) <= limit ->
    (skip_gc = true \/ forall od l0, old = Some (od, l0) -> od <> H (gen_index upd)) ->
    exists g' n' t,
      update_referrers_index H parse_mt main user_mts limit skip_gc index_of S ex0 (g, n) rst subj ch
      = ((g', n'), rst, t, ROk) /\
      ts_step g g' (gen_index upd) old /\
      index_state g' tag (if is_nil upd && negb skip_gc then None else Some (H (gen_index upd), upd)) /\
      NoDup (map fst (g_tags g')).
  Proof.
    intros Hi Hr Vs tag ER Vt Hp Hst Hjo Huniq Hch Hlim Hcol.
    set (j := gen_index upd).
    assert (Hi0 : ts_step g g j old) by (repeat split; auto).
    assert (Vtag : valid_ref tag = true) by (eapply resolve_ref_valid; eauto).
    assert (Hrfi : exists n1 t1 res1 o1,
               referrers_from_index H parse_mt main user_mts limit index_of S ex0 (g, n) tag = ((g, n1), t1, res1, o1) /\
               match old with
               | Some (od, l0) => res1 = ROk /\ o1 = Some (mkDesc mt_index od (len (gen_index l0)), l0)
               | None => res1 = RErr ENotFound /\ o1 = None
               end).
    { destruct old as [[od l0]|].
      - destruct (rfi_on_index_m g n tag od l0 Hi ER Vt Hst Hp Hjo) as (n1 & t1 & E). eauto 10.
      - destruct (rfi_no_index g n tag ER Vt Hst) as (t1 & E). eauto 10. }
    destruct Hrfi as (n1 & t1 & res1 & o1 & E1 & Hold).
    assert (Sj : sub_ok j) by (left; apply Hidx_subj).
    destruct (man_put_exec g n1 rst (mkDesc mt_index (H j) (len j)) j true tag Vtag eq_refl eq_refl Sj Hr (Hvalid j))
      as (g2 & n2 & t2 & E2 & St2).
    cbn [d_dg d_mt] in E2, St2. unfold put_manifest in E2, St2. rewrite Vt in E2, St2. cbn [fst snd] in E2, St2.
    assert (Hrst : rst_of ROk rst j = rst).
    { cbn [rst_of]. unfold rst_after, j. now rewrite Hidx_subj. }
    rewrite Hrst in E2.
    assert (Gm2 : g_mans g2 = insert (H j) (mt_index, j) (g_mans g)).
    { change (g_mans g2) with (t_mans (store_of g2)). rewrite St2. reflexivity. }
    assert (Hu2 : NoDup (map fst (g_tags g2))).
    { change (g_tags g2) with (t_tags (store_of g2)). rewrite St2. cbn [t_tags]. now apply NoDup_fst_insert. }
    assert (Hi2 : ts_step g g2 j old).
    { split; [|split].
      - intros d' mt' c' L. rewrite Gm2 in L.
        apply lookup_insert_inv in L as [[-> X]|L]; [right|left; exact L]. injection X as -> ->. auto.
      - change (g_other g2) with (t_other (store_of g2)). rewrite St2. reflexivity.
      - intros k K1 _. rewrite Gm2. now apply lookup_insert_neq. }
    assert (Lm2 : lookup (H j) (g_mans g2) = Some (mt_index, j)).
    { change (g_mans g2) with (t_mans (store_of g2)). rewrite St2. cbn [t_mans]. apply lookup_insert_eq. }
    assert (Lt2 : lookup tag (g_tags g2) = Some (H j)).
    { change (g_tags g2) with (t_tags (store_of g2)). rewrite St2. cbn [t_tags]. apply lookup_insert_eq. }
    unfold update_referrers_index. rewrite Vs. cbn [negb]. fold tag. rewrite E1.
    destruct old as [[od l0]|].
    - destruct Hold as [-> ->]. destruct Hst as [Lt Lm]. rewrite Hch. fold j.
      destruct (Hi _ _ _ Lm) as (Hod & _).
      destruct (negb (is_nil upd) || skip_gc) eqn:Epush.
      + rewrite E2. destruct skip_gc eqn:Eg.
        * exists g2, n2, (t1 ++ t2). split; [reflexivity|]. split; [exact Hi2|].
          rewrite andb_false_r. split; [split; assumption|exact Hu2].
        * destruct Hcol as [X|Hcol]; [discriminate|]. specialize (Hcol od l0 eq_refl).
          assert (Lod : lookup od (g_mans g2) = Some (mt_index, gen_index l0)).
          { change (g_mans g2) with (t_mans (store_of g2)). rewrite St2. cbn [t_mans].
            rewrite lookup_insert_neq by exact Hcol. exact Lm. }
          destruct (delete_man_hit g2 n2 (mkDesc mt_index od (len (gen_index l0))) _ Lod
                      ltac:(cbn [d_dg]; rewrite Hod; apply Hvalid)) as (g3 & t3 & E3 & St3).
          cbn [d_dg] in E3, St3. rewrite E3.
          assert (Hi3 : ts_step g g3 j (Some (od, l0))).
          { destruct Hi2 as (I2 & Io2 & Ik2). split; [|split].
            - intros d' mt' c' L. change (g_mans g3) with (t_mans (store_of g3)) in L. rewrite St3 in L. cbn [t_mans] in L.
              apply lookup_remove_inv in L as [L _]. eauto.
            - change (g_other g3) with (t_other (store_of g3)). rewrite St3. cbn [t_other]. exact Io2.
            - intros k K1 K2. change (g_mans g3) with (t_mans (store_of g3)). rewrite St3. cbn [t_mans].
              rewrite lookup_remove_neq by (eapply K2; eauto). now apply Ik2. }
          assert (Lm3 : lookup (H j) (g_mans g3) = Some (mt_index, j)).
          { change (g_mans g3) with (t_mans (store_of g3)). rewrite St3. cbn [t_mans].
            rewrite lookup_remove_neq by (intro X; apply Hcol; now symmetry). exact Lm2. }
          assert (Lt3 : lookup tag (g_tags g3) = Some (H j)).
          { change (g_tags g3) with (t_tags (store_of g3)). rewrite St3. cbn [t_tags].
            change (g_tags g2) with (t_tags (store_of g2)). rewrite St2. cbn [t_tags]. unfold insert. cbn [filter snd].
            rewrite (str_eqb_neq (H j) od) by (intro X; apply Hcol; now symmetry). cbn [negb].
            rewrite lookup_cons. now rewrite str_eqb_refl. }
          exists g3, (n2 + 1), (t1 ++ t2 ++ t3). split; [reflexivity|]. split; [exact Hi3|].
          rewrite orb_false_r in Epush. apply negb_true_iff in Epush. rewrite Epush. cbn [andb].
          split; [split; assumption|].
          change (g_tags g3) with (t_tags (store_of g3)). rewrite St3. cbn [t_tags]. now apply NoDup_fst_filter.
      + (* nothing left and the old index is garbage-collected: only the delete *)
        apply orb_false_iff in Epush as [En Eg]. rewrite Eg. apply negb_false_iff in En.
        assert (upd = []) as Eu by (destruct upd; [reflexivity|discriminate]).
        destruct (delete_man_hit g n1 (mkDesc mt_index od (len (gen_index l0))) _ Lm
                    ltac:(cbn [d_dg]; rewrite Hod; apply Hvalid)) as (g3 & t3 & E3 & St3).
        cbn [d_dg] in E3, St3. rewrite E3.
        assert (Hi3 : ts_step g g3 j (Some (od, l0))).
        { split; [|split].
          - intros d' mt' c' L. change (g_mans g3) with (t_mans (store_of g3)) in L. rewrite St3 in L. cbn [t_mans] in L.
            apply lookup_remove_inv in L as [L _]. auto.
          - change (g_other g3) with (t_other (store_of g3)). rewrite St3. reflexivity.
          - intros k K1 K2. change (g_mans g3) with (t_mans (store_of g3)). rewrite St3. cbn [t_mans].
            apply lookup_remove_neq. eapply K2; eauto. }
        assert (Lt3 : lookup tag (g_tags g3) = None).
        { change (g_tags g3) with (t_tags (store_of g3)). rewrite St3. cbn [t_tags].
          clear - Lt Huniq. induction (g_tags g) as [|[k v] m IH]; [reflexivity|].
          rewrite lookup_cons in Lt. cbn [map fst] in Huniq. inversion Huniq as [|? ? Hk Hm]; subst. cbn [filter snd].
          destruct (str_eqb k tag) eqn:Ek.
          - injection Lt as ->. rewrite str_eqb_refl. cbn [negb].
            apply str_eqb_spec in Ek. subst k. now apply lookup_filter_notin.
          - destruct (negb (str_eqb v od)); [rewrite lookup_cons, Ek|]; auto. }
        exists g3, (n1 + 1), (t1 ++ [] ++ t3). split; [reflexivity|]. split; [exact Hi3|].
        rewrite En. cbn [negb andb]. split; [exact Lt3|].
        change (g_tags g3) with (t_tags (store_of g3)). rewrite St3. cbn [t_tags]. now apply NoDup_fst_filter.
    - destruct Hold as [-> ->]. rewrite Hch. fold j.
      destruct (negb (is_nil upd) || skip_gc) eqn:Epush.
      + rewrite E2. exists g2, n2, (t1 ++ t2). split; [reflexivity|]. split; [exact Hi2|].
        assert ((is_nil upd && negb skip_gc) = false) as -> by (destruct (is_nil upd), skip_gc; cbn in *; congruence).
        split; [split; assumption|exact Hu2].
      + apply orb_false_iff in Epush as [En Eg]. apply negb_false_iff in En.
        assert (upd = []) as Eu by (destruct upd; [reflexivity|discriminate]).
        exists g, n1, (t1 ++ []). split; [reflexivity|]. split; [exact Hi0|].
        rewrite En, Eg. cbn [negb andb]. split; [exact Hst|exact Huniq].
  Qed.

  (* ---- lifted to every SEQUENCE of referrer changes of one subject (pushes and deletes of
     manifests with that subject, in any order): the index evolves as applyReferrerChanges says ---- *)
  Fixpoint run_changes (s : S) (rst : rstate) (subj : desc) (chs : list rchange) : S * list result :=
    match chs with
    | [] => (s, [])
    | ch :: r =>
        let '(s1, rst1, _, res) :=
          update_referrers_index H parse_mt main user_mts limit skip_gc index_of S ex0 s rst subj ch in
        let '(s2, rs) := run_changes s1 rst1 subj r in (s2, res :: rs)
    end.

  Definition ix_list (st : option (str * list desc)) : list desc :=
    match st with Some (_, l) => l | None => [] end.
  Definition ix_post (upd : list desc) : option (str * list desc) :=
    if is_nil upd && negb skip_gc then None else Some (H (gen_index upd), upd).
  (* the specification: what the referrers tag points to after the changes *)
  Fixpoint spec_changes (st : option (str * list desc)) (chs : list rchange) : option (str * list desc) :=
    match chs with
    | [] => st
    | ch :: r => match apply_change (ix_list st) (Some ch) with
                 | Some upd => spec_changes (ix_post upd) r
                 | None => spec_changes st r
                 end
    end.
  (* side conditions, per step: the change is effective, the index read decodes, the new index fits
     the limit and does not collide with the old one *)
  Fixpoint changes_ok (st : option (str * list desc)) (chs : list rchange) : Prop :=
    match chs with
    | [] => True
    | ch :: r => exists upd, apply_change (ix_list st) (Some ch) = Some upd /\
                 json_ok_st st /\ len (gen_index upd) <= limit /\
                 (skip_gc = true \/ forall od l0, st = Some (od, l0) -> od <> H (gen_index upd)) /\
                 changes_ok (ix_post upd) r
    end.

  Theorem tag_schema_changes rst subj chs : forall g n st,
    minv g -> rst_ok rst ->
    valid_digest (d_dg subj) = true ->
    let tag := ref_tag (d_dg subj) in
    resolve_ref main tag = Some tag -> valid_digest tag = false ->
    (p_clen p = true \/ p_dighdr p = true) ->
    index_state g tag st -> NoDup (map fst (g_tags g)) ->
    changes_ok st chs ->
    exists g' n',
      run_changes (g, n) rst subj chs = ((g', n'), map (fun _ => ROk) chs) /\
      minv g' /\ index_state g' tag (spec_changes st chs) /\ NoDup (map fst (g_tags g')) /\
      (json_ok_st (spec_changes st chs) ->
       exists n'' t', tag_schema_referrers H parse_mt main user_mts limit index_of S ex0 (g', n') subj
                      = ((g', n''), t', RDescs (clean_refs [] (ix_list (spec_changes st chs))))).
  Proof.
    induction chs as [|ch chs IH]; intros g n st Hi Hr Vs tag ER Vt Hp Hst Hu Hok.
    - exists g, n. cbn [run_changes map spec_changes].
      split; [reflexivity|]. split; [exact Hi|]. split; [exact Hst|]. split; [exact Hu|].
      intro Hj. apply (tag_schema_read g n subj st Hi Vs ER Vt Hp Hst Hj).
    - destruct Hok as (upd & Hch & Hjo & Hlim & Hcol & Hrest).
      destruct (tag_schema_update_m g n rst subj st ch upd Hi Hr Vs ER Vt Hp Hst Hjo Hu Hch Hlim Hcol)
        as (g1 & n1 & t1 & E1 & St1 & Ist1 & Hu1).
      assert (Hi1 : minv g1) by exact (ts_step_minv _ _ _ _ Hi Hlim St1).
      destruct (IH g1 n1 (ix_post upd) Hi1 Hr Vs ER Vt Hp Ist1 Hu1 Hrest) as (g' & n' & E & Hi' & Ist' & Hu' & R).
      exists g', n'. cbn [run_changes map spec_changes]. rewrite E1, E, Hch.
      split; [reflexivity|]. split; [exact Hi'|]. split; [exact Ist'|]. split; [exact Hu'|exact R].
  Qed.

  Lemma tag_schema_update g n rst subj old ch upd :
    inv g -> rst_ok rst ->
    valid_digest (d_dg subj) = true ->
    let tag := ref_tag (d_dg subj) in
    resolve_ref main tag = Some tag -> valid_digest tag = false ->
    (p_clen p = true \/ p_dighdr p = true) ->
    index_state g tag old -> json_ok_st old -> json_ok upd -> NoDup (map fst (g_tags g)) ->
    apply_change (match old with Some (_, l) => l | None => [] end) (Some ch) = Some upd ->
    len (gen_index upd) <= limit ->
    (skip_gc = true \/ forall od l0, old = Some (od, l0) -> od <> H (gen_index upd)) ->
    exists g' n' t,
      update_referrers_index H parse_mt main user_mts limit skip_gc index_of S ex0 (g, n) rst subj ch
      = ((g', n'), rst, t, ROk) /\
      inv g' /\
      exists n'' t', tag_schema_referrers H parse_mt main user_mts limit index_of S ex0 (g', n') subj
                     = ((g', n''), t', RDescs (clean_refs [] upd)).
  Proof.
    intros Hi Hr Vs tag ER Vt Hp Hst Hjo Hju Huniq Hch Hlim Hcol.
    destruct (tag_schema_update_m g n rst subj old ch upd (inv_minv _ Hi) Hr Vs ER Vt Hp Hst Hjo Huniq Hch Hlim Hcol)
      as (g' & n' & t & E & St & Ist & _).
    exists g', n', t. split; [exact E|]. split; [eapply ts_step_inv; eauto|].
    assert (Hjp : json_ok_st (if is_nil upd && negb skip_gc then None else Some (H (gen_index upd), upd)))
      by (destruct (is_nil upd && negb skip_gc); [exact I|exact Hju]).
    destruct (tag_schema_read g' n' subj _ (ts_step_minv _ _ _ _ (inv_minv _ Hi) Hlim St) Vs ER Vt Hp Ist Hjp) as (n'' & t' & R).
    exists n'', t'. rewrite R. destruct (is_nil upd) eqn:En; [|reflexivity].
    destruct upd; [|discriminate]. destruct skip_gc; reflexivity.
  Qed.

  (* Push of a manifest with subject [subj]: referrer r is added *)
  Theorem tag_schema_add_then_listed g n rst subj old r :
    inv g -> rst_ok rst ->
    valid_digest (d_dg subj) = true ->
    let tag := ref_tag (d_dg subj) in
    resolve_ref main tag = Some tag -> valid_digest tag = false ->
    (p_clen p = true \/ p_dighdr p = true) ->
    index_state g tag old -> json_ok_st old -> NoDup (map fst (g_tags g)) ->
    let l := match old with Some (_, l) => l | None => [] end in
    let upd := clean_refs [] l ++ [r] in
    existsb (desc_eqb r) (clean_refs [] l) = false ->
    len (gen_index upd) <= limit -> json_ok upd ->
    (skip_gc = true \/ forall od l0, old = Some (od, l0) -> od <> H (gen_index upd)) ->
    exists g' n' t,
      update_referrers_index H parse_mt main user_mts limit skip_gc index_of S ex0 (g, n) rst subj (RAdd r)
      = ((g', n'), rst, t, ROk) /\
      inv g' /\
      exists n'' t', tag_schema_referrers H parse_mt main user_mts limit index_of S ex0 (g', n') subj
                     = ((g', n''), t', RDescs (clean_refs [] upd)).
  Proof.
    intros Hi Hr Vs tag ER Vt Hp Hst Hjo Hu l upd Hnew Hlim Hju Hcol.
    apply (tag_schema_update g n rst subj old (RAdd r) upd); auto.
    fold l. unfold apply_change. now rewrite Hnew.
  Qed.

  (* Delete of a manifest with subject [subj]: referrer r is removed; when nothing is left the
     index and the tag go away (unless SkipReferrersGC keeps an empty index) *)
  Theorem tag_schema_remove_then_absent g n rst subj od l r :
    inv g -> rst_ok rst ->
    valid_digest (d_dg subj) = true ->
    let tag := ref_tag (d_dg subj) in
    resolve_ref main tag = Some tag -> valid_digest tag = false ->
    (p_clen p = true \/ p_dighdr p = true) ->
    index_state g tag (Some (od, l)) -> json_ok l -> NoDup (map fst (g_tags g)) ->
    let upd := filter (fun x => negb (desc_eqb r x)) (clean_refs [] l) in
    existsb (desc_eqb r) (clean_refs [] l) = true ->
    len (gen_index upd) <= limit -> json_ok upd ->
    (skip_gc = true \/ od <> H (gen_index upd)) ->
    exists g' n' t,
      update_referrers_index H parse_mt main user_mts limit skip_gc index_of S ex0 (g, n) rst subj (RRemove r)
      = ((g', n'), rst, t, ROk) /\
      inv g' /\
      exists n'' t', tag_schema_referrers H parse_mt main user_mts limit index_of S ex0 (g', n') subj
                     = ((g', n''), t', RDescs (clean_refs [] upd)).
  Proof.
    intros Hi Hr Vs tag ER Vt Hp Hst Hjo Hu upd Hin Hlim Hju Hcol.
    apply (tag_schema_update g n rst subj (Some (od, l)) (RRemove r) upd); auto.
    - unfold apply_change. now rewrite Hin.
    - destruct Hcol as [X|X]; [now left|right]. intros od' l' Y. injection Y as <- <-. exact X.
  Qed.

  (* ---------- operation level: Push of a manifest with a subject to a registry WITHOUT the
     Referrers API, then Predecessors of the subject ---------- *)
  Lemma man_put_noapi g n rst d c :
    p_referrers p = false -> len c = d_sz d -> H c = d_dg d -> valid_digest (d_dg d) = true ->
    exists g' n' t,
      man_put main S ex0 (g, n) rst d c true (d_dg d) = ((g', n'), rst, t, ROk) /\
      store_of g' = with_mans (store_of g) (insert (d_dg d) (d_mt d, c) (g_mans g)).
  Proof.
    intros Pr Hs Hh V. unfold man_put.
    rewrite Hs, N.eqb_refl. cbn [negb]. rewrite andb_false_r.
    unfold cexch, handle. proj. rewrite str_eqb_refl. proj.
    rewrite <- Hs, N.eqb_refl. cbn [negb]. rewrite Hh.
    rewrite V. cbn [negb andb orb]. rewrite str_eqb_refl. cbn [negb]. simp. rewrite Pr. cbn [nstr].
    rewrite vd_opt by exact V.
    eexists _, _, _. split; reflexivity.
  Qed.

  Theorem push_subject_then_predecessors g n rst d c sj old :
    minv g -> p_referrers p = false -> rst <> RSSupported ->
    is_manifest user_mts d = true -> indexable (d_mt d) = true ->
    len c = d_sz d -> H c = d_dg d -> valid_digest (d_dg d) = true ->
    parse_mt (d_mt d) = Some (d_mt d) -> len c <= limit ->
    subject_of c = Some (Some sj) -> valid_digest (d_dg sj) = true ->
    let tag := ref_tag (d_dg sj) in
    resolve_ref main tag = Some tag -> valid_digest tag = false ->
    (p_clen p = true \/ p_dighdr p = true) ->
    index_state g tag old -> json_ok_st old -> NoDup (map fst (g_tags g)) ->
    (forall od l0, old = Some (od, l0) -> od <> d_dg d) ->
    let l := match old with Some (_, l) => l | None => [] end in
    let upd := clean_refs [] l ++ [d] in
    existsb (desc_eqb d) (clean_refs [] l) = false ->
    len (gen_index upd) <= limit -> json_ok upd ->
    (skip_gc = true \/ forall od l0, old = Some (od, l0) -> od <> H (gen_index upd)) ->
    exists g' n' t,
      run_op' (g, n) rst (OPush d c) = ((g', n'), RSUnsupported, t, ROk) /\
      minv g' /\
      index_state g' tag (Some (H (gen_index upd), upd)) /\ NoDup (map fst (g_tags g')) /\
      (d_dg d <> H (gen_index upd) -> lookup (d_dg d) (g_mans g') = Some (d_mt d, c)) /\
      exists n'' t', run_op' (g', n') RSUnsupported (OPreds sj)
                     = ((g', n''), RSUnsupported, t', RDescs (clean_refs [] upd)).
  Proof.
    intros Hi Pr Hrs Him Hix Hs Hh V Pm Hl Sj Vs tag ER Vt Hp Hst Hjo Hu Hod l upd Hnew Hlim Hju Hcol.
    destruct (man_put_noapi g n rst d c Pr Hs Hh V) as (g1 & n1 & t1 & E1 & St1).
    assert (Gm : g_mans g1 = insert (d_dg d) (d_mt d, c) (g_mans g)).
    { change (g_mans g1) with (t_mans (store_of g1)). rewrite St1. reflexivity. }
    assert (Gt : g_tags g1 = g_tags g).
    { change (g_tags g1) with (t_tags (store_of g1)). rewrite St1. reflexivity. }
    assert (Hi1 : minv g1).
    { intros d' mt' c' L. rewrite Gm in L. apply lookup_insert_inv in L as [[-> X]|L]; [|eauto].
      injection X as -> ->. auto. }
    assert (Hst1 : index_state g1 tag old).
    { destruct old as [[od l0]|]; cbn [index_state] in *; rewrite Gt; [|exact Hst].
      destruct Hst as [Lt Lm]. split; [exact Lt|]. rewrite Gm, lookup_insert_neq by (eapply Hod; eauto). exact Lm. }
    assert (Hu1 : NoDup (map fst (g_tags g1))) by (rewrite Gt; exact Hu).
    assert (Ers : rs_set rst false = RSUnsupported) by (destruct rst; cbn; congruence).
    assert (Hr1 : rst_ok RSUnsupported) by (right; exact Pr).
    assert (Hch : apply_change (match old with Some (_, l) => l | None => [] end) (Some (RAdd d)) = Some upd).
    { fold l. unfold apply_change. now rewrite Hnew. }
    destruct (tag_schema_update_m g1 n1 RSUnsupported sj old (RAdd d) upd Hi1 Hr1 Vs ER Vt Hp Hst1 Hjo Hu1 Hch Hlim Hcol)
      as (g' & n' & t2 & E2 & St2 & Ist & Hu').
    assert (Hi' : minv g') by (eapply ts_step_minv; eauto).
    assert (Nn : is_nil upd = false) by (unfold upd; destruct (clean_refs [] l); reflexivity).
    rewrite Nn in Ist. cbn [andb] in Ist.
    destruct (tag_schema_read g' n' sj _ Hi' Vs ER Vt Hp Ist Hju) as (n'' & t' & R).
    exists g', n', (t1 ++ t2). split; [|split; [|split; [exact Ist|split; [exact Hu'|split]]]].
    - cbn [run_op]. rewrite Him. unfold man_push. rewrite Hix.
      assert (Ns : rs_supported rst = false) by (destruct rst; cbn; congruence).
      rewrite Ns. cbn [negb andb].
      assert (El : (limit <? d_sz d) = false) by (apply N.ltb_ge; rewrite <- Hs; exact Hl).
      rewrite El, Hs, N.eqb_refl, Hh, str_eqb_refl. cbn [negb orb]. rewrite E1, Ns, Sj, Ers, E2. reflexivity.
    - exact Hi'.
    - intro Hne. destruct St2 as (_ & _ & K). rewrite K; [rewrite Gm; apply lookup_insert_eq|exact Hne|].
      intros od l0 Y. intro X. eapply Hod; eauto.
    - exists n'', t'. cbn [run_op]. unfold predecessors. rewrite R. reflexivity.
  Qed.

  (* pingReferrers against a registry without the API *)
  Lemma ping_noapi g n rst :
    p_referrers p = false -> rst <> RSSupported ->
    exists n' t, ping_referrers main S ex0 (g, n) rst = ((g, n'), RSUnsupported, t, Some false).
  Proof.
    intros Pr Hrs. destruct rst; [|congruence|cbn [ping_referrers]; eauto].
    unfold ping_referrers, cexch, handle, req. proj. rewrite str_eqb_refl. proj. rewrite Pr. simp.
    assert (str_eqb [] name_unknown = false) as -> by (vm_compute; reflexivity).
    cbn [rs_set]. eauto.
  Qed.

  (* ... and Delete of a stored manifest with a subject: the referrer leaves the index first, then
     the manifest is deleted; Predecessors no longer lists it *)
  Theorem delete_subject_then_predecessors g n rst d c sj od l :
    minv g -> p_referrers p = false -> rst <> RSSupported ->
    is_manifest user_mts d = true -> indexable_del (d_mt d) = true ->
    lookup (d_dg d) (g_mans g) = Some (d_mt d, c) -> len c = d_sz d -> valid_digest (d_dg d) = true ->
    subject_of c = Some (Some sj) -> valid_digest (d_dg sj) = true ->
    let tag := ref_tag (d_dg sj) in
    resolve_ref main tag = Some tag -> valid_digest tag = false ->
    (p_clen p = true \/ p_dighdr p = true) ->
    index_state g tag (Some (od, l)) -> json_ok l -> NoDup (map fst (g_tags g)) ->
    od <> d_dg d ->
    let upd := filter (fun x => negb (desc_eqb d x)) (clean_refs [] l) in
    existsb (desc_eqb d) (clean_refs [] l) = true ->
    len (gen_index upd) <= limit -> json_ok upd ->
    H (gen_index upd) <> d_dg d ->
    (skip_gc = true \/ od <> H (gen_index upd)) ->
    exists g' n' t,
      run_op' (g, n) rst (ODelete d) = ((g', n'), RSUnsupported, t, ROk) /\
      minv g' /\ lookup (d_dg d) (g_mans g') = None /\
      index_state g' tag (if is_nil upd && negb skip_gc then None else Some (H (gen_index upd), upd)) /\
      NoDup (map fst (g_tags g')) /\
      exists n'' t', run_op' (g', n') RSUnsupported (OPreds sj)
                     = ((g', n''), RSUnsupported, t', RDescs (clean_refs [] upd)).
  Proof.
    intros Hi Pr Hrs Him Hix L Hs V Sj Vs tag ER Vt Hp Hst Hjo Hu Hod upd Hin Hlim Hju Hj Hcol.
    destruct (Hi _ _ _ L) as (Hh & Pm & Hl).
    destruct (man_fetch_hit_m g n d c Hi L Hs V) as (t1 & E1).
    destruct (ping_noapi g (n + 1) rst Pr Hrs) as (n2 & t2 & E2).
    assert (Hr1 : rst_ok RSUnsupported) by (right; exact Pr).
    assert (Hch : apply_change l (Some (RRemove d)) = Some upd).
    { unfold apply_change. now rewrite Hin. }
    assert (Hcol' : skip_gc = true \/ forall od' l0, Some (od, l) = Some (od', l0) -> od' <> H (gen_index upd)).
    { destruct Hcol as [X|X]; [now left|right]. intros od' l' Y. injection Y as <- <-. exact X. }
    destruct (tag_schema_update_m g n2 RSUnsupported sj (Some (od, l)) (RRemove d) upd Hi Hr1 Vs ER Vt Hp Hst Hjo Hu Hch Hlim Hcol')
      as (g3 & n3 & t3 & E3 & St3 & Ist & Hu3).
    assert (Hi3 : minv g3) by exact (ts_step_minv _ _ _ _ Hi Hlim St3).
    destruct St3 as (_ & _ & K3).
    assert (L3 : lookup (d_dg d) (g_mans g3) = Some (d_mt d, c)).
    { rewrite K3; [exact L|auto|]. intros od' l' Y. injection Y as <- <-. auto. }
    destruct (delete_man_hit g3 n3 d _ L3 V) as (g4 & t4 & E4 & St4).
    assert (Gm4 : g_mans g4 = remove (d_dg d) (g_mans g3)).
    { change (g_mans g4) with (t_mans (store_of g4)). rewrite St4. reflexivity. }
    assert (Gt4 : g_tags g4 = filter (fun t => negb (str_eqb (snd t) (d_dg d))) (g_tags g3)).
    { change (g_tags g4) with (t_tags (store_of g4)). rewrite St4. reflexivity. }
    assert (Hi4 : minv g4).
    { intros d' mt' c' L'. rewrite Gm4 in L'. apply lookup_remove_inv in L' as [L' _]. eauto. }
    assert (Ist4 : index_state g4 tag (if is_nil upd && negb skip_gc then None else Some (H (gen_index upd), upd))).
    { destruct (is_nil upd && negb skip_gc); cbn [index_state] in *; rewrite Gt4.
      - now apply lookup_filter_none.
      - destruct Ist as [Lt Lm]. split.
        + apply lookup_filter_some; [exact Lt|]. cbn [snd]. now rewrite (str_eqb_neq _ _ Hj).
        + rewrite Gm4, lookup_remove_neq by exact Hj. exact Lm. }
    assert (Hjp : json_ok_st (if is_nil upd && negb skip_gc then None else Some (H (gen_index upd), upd)))
      by (destruct (is_nil upd && negb skip_gc); [exact I|exact Hju]).
    destruct (tag_schema_read g4 (n3 + 1) sj _ Hi4 Vs ER Vt Hp Ist4 Hjp) as (n'' & t' & R).
    exists g4, (n3 + 1), (t1 ++ t2 ++ t3 ++ t4).
    split; [|split; [exact Hi4|split; [|split; [exact Ist4|split; [rewrite Gt4; now apply NoDup_fst_filter|]]]]].
    - cbn [run_op]. rewrite Him. unfold man_delete. rewrite Hix.
      assert (Ns : rs_supported rst = false) by (destruct rst; cbn; congruence).
      rewrite Ns. cbn [negb andb].
      assert (El : (limit <? d_sz d) = false) by (apply N.ltb_ge; rewrite <- Hs; exact Hl).
      rewrite El, E1, Hs, N.eqb_refl, <- Hh, str_eqb_refl. cbn [negb orb]. rewrite Sj.
      rewrite E2. rewrite <- update_x_fst in E3.
      destruct (update_referrers_index_x _ _ _ _ _ _ _ _ _ (g, n2) RSUnsupported sj (RRemove d)) as [[[[a3 b3] c3] e3] cl].
      cbn [fst] in E3. injection E3 as -> -> -> ->. rewrite E4. reflexivity.
    - rewrite Gm4. apply lookup_remove_eq.
    - exists n'', t'. cbn [run_op]. unfold predecessors. rewrite R. f_equal. f_equal.
      destruct (is_nil upd) eqn:En; [|reflexivity].
      destruct upd; [|discriminate]. destruct skip_gc; reflexivity.
  Qed.

  (* ---------- lifted to HISTORIES: every sequence of Push / Delete of manifests with one subject
     against a registry without the Referrers API ---------- *)
  (* Predecessors against a registry without the API: the API request is answered 404, the client
     falls back to the tag schema (and remembers); the registry is left as it is *)
  Lemma preds_noapi g n rst sj st :
    minv g -> p_referrers p = false -> rst <> RSSupported ->
    valid_digest (d_dg sj) = true ->
    let tag := ref_tag (d_dg sj) in
    resolve_ref main tag = Some tag -> valid_digest tag = false ->
    (p_clen p = true \/ p_dighdr p = true) ->
    index_state g tag st -> json_ok_st st ->
    exists n' t, run_op' (g, n) rst (OPreds sj)
                 = ((g, n'), RSUnsupported, t, RDescs (clean_refs [] (ix_list st))).
  Proof.
    intros Hi Pr Hrs Vs tag ER Vt Hp Hst Hj. cbn [run_op]. unfold predecessors.
    destruct rst; [|congruence|].
    - assert (Hx : ex0 (g, n) (req GET main (EReferrers (d_dg sj))) = ((g, n + 1), resp_err 404)).
      { unfold cexch, handle, req. proj. rewrite str_eqb_refl. proj. now rewrite Pr. }
      rewrite Hx.
      destruct (tag_schema_read g (n + 1) sj st Hi Vs ER Vt Hp Hst Hj) as (n' & t & R).
      simp. assert (str_eqb [] name_unknown = false) as -> by (vm_compute; reflexivity).
      rewrite R. cbn [rs_set]. eauto.
    - destruct (tag_schema_read g n sj st Hi Vs ER Vt Hp Hst Hj) as (n' & t & R).
      rewrite R. cbn [lift]. eauto.
  Qed.

  Inductive tsop := TPush (d : desc) (c : str) | TDelete (d : desc) (c : str) | TPreds.
  Definition ts_op (sj : desc) (o : tsop) : op :=
    match o with TPush d c => OPush d c | TDelete d _ => ODelete d | TPreds => OPreds sj end.
  (* what the referrers index lists after the operation (applyReferrerChanges) *)
  Definition ts_next (l : list desc) (o : tsop) : list desc :=
    match o with
    | TPush d _ => clean_refs [] l ++ [d]
    | TDelete d _ => filter (fun x => negb (desc_eqb d x)) (clean_refs [] l)
    | TPreds => l
    end.
  Definition ts_post (st : option (str * list desc)) (o : tsop) : option (str * list desc) :=
    match o with TPreds => st | _ => ix_post (ts_next (ix_list st) o) end.
  (* the result of the operation *)
  Definition ts_res (st : option (str * list desc)) (o : tsop) : result :=
    match o with TPreds => RDescs (clean_refs [] (ix_list st)) | _ => ROk end.
  (* the local side conditions of one operation in the state it meets: an accurate, indexable
     manifest with subject sj that is new to / listed in the index; the indexes read and written
     decode and fit the limit; no digest collision between manifest, old index and new index *)
  Definition ts_step_ok (sj : desc) (g : reg) (st : option (str * list desc)) (o : tsop) : Prop :=
    let upd := ts_next (ix_list st) o in
    json_ok_st st /\
    match o with TPreds => True | _ =>
      json_ok upd /\ len (gen_index upd) <= limit /\
      (skip_gc = true \/ forall od l0, st = Some (od, l0) -> od <> H (gen_index upd)) end /\
    match o with
    | TPreds => True
    | TPush d c =>
        is_manifest user_mts d = true /\ indexable (d_mt d) = true /\
        len c = d_sz d /\ H c = d_dg d /\ valid_digest (d_dg d) = true /\
        parse_mt (d_mt d) = Some (d_mt d) /\ len c <= limit /\
        subject_of c = Some (Some sj) /\
        (forall od l0, st = Some (od, l0) -> od <> d_dg d) /\
        existsb (desc_eqb d) (clean_refs [] (ix_list st)) = false
    | TDelete d c =>
        is_manifest user_mts d = true /\ indexable_del (d_mt d) = true /\
        lookup (d_dg d) (g_mans g) = Some (d_mt d, c) /\ len c = d_sz d /\ valid_digest (d_dg d) = true /\
        subject_of c = Some (Some sj) /\
        (exists od l, st = Some (od, l) /\ od <> d_dg d) /\
        existsb (desc_eqb d) (clean_refs [] (ix_list st)) = true /\
        H (gen_index upd) <> d_dg d
    end.
  (* ... checked along the run, as wf_hist checks operations against the store they meet *)
  Fixpoint ts_hist_ok (sj : desc) (s : S) (rst : rstate) (st : option (str * list desc)) (os : list tsop) : Prop :=
    match os with
    | [] => True
    | o :: r =>
        ts_step_ok sj (fst s) st o /\
        let '(s1, rst1, _, _) := run_op' s rst (ts_op sj o) in
        ts_hist_ok sj s1 rst1 (ts_post st o) r
    end.
  Fixpoint ts_final (st : option (str * list desc)) (os : list tsop) : option (str * list desc) :=
    match os with [] => st | o :: r => ts_final (ts_post st o) r end.
  Fixpoint ts_results (st : option (str * list desc)) (os : list tsop) : list result :=
    match os with [] => [] | o :: r => ts_res st o :: ts_results (ts_post st o) r end.

  Theorem tag_schema_history sj os : forall g n rst st,
    minv g -> p_referrers p = false -> rst <> RSSupported ->
    valid_digest (d_dg sj) = true ->
    let tag := ref_tag (d_dg sj) in
    resolve_ref main tag = Some tag -> valid_digest tag = false ->
    (p_clen p = true \/ p_dighdr p = true) ->
    index_state g tag st -> NoDup (map fst (g_tags g)) ->
    ts_hist_ok sj (g, n) rst st os ->
    exists g' n' rst' out,
      run_ops' (g, n) rst (map (ts_op sj) os) = ((g', n'), rst', out) /\
      map snd out = ts_results st os /\ rst' <> RSSupported /\
      minv g' /\ index_state g' tag (ts_final st os) /\ NoDup (map fst (g_tags g')) /\
      (json_ok_st (ts_final st os) ->
       exists n'' t', tag_schema_referrers H parse_mt main user_mts limit index_of S ex0 (g', n') sj
                      = ((g', n''), t', RDescs (clean_refs [] (ix_list (ts_final st os))))).
  Proof.
    induction os as [|o os IH]; intros g n rst st Hi Pr Hrs Vs tag ER Vt Hp Hst Hu Hok.
    - exists g, n, rst, []. cbn [run_ops map ts_final ts_results].
      split; [reflexivity|]. split; [reflexivity|]. split; [exact Hrs|]. split; [exact Hi|]. split; [exact Hst|].
      split; [exact Hu|]. intro Hj. apply (tag_schema_read g n sj st Hi Vs ER Vt Hp Hst Hj).
    - cbn [ts_hist_ok] in Hok. destruct Hok as [Hstep Hrest]. cbn [fst] in Hstep.
      destruct Hstep as (Hjo & Hupd & Hop).
      assert (Step : exists g1 n1 t1,
                 run_op' (g, n) rst (ts_op sj o) = ((g1, n1), RSUnsupported, t1, ts_res st o) /\ minv g1 /\
                 index_state g1 tag (ts_post st o) /\ NoDup (map fst (g_tags g1))).
      { destruct o as [d c|d c|]; cbn [ts_op ts_next ts_post ts_res] in *;
          [destruct Hupd as (Hju & Hlim & Hcol)|destruct Hupd as (Hju & Hlim & Hcol)|].
        3: { destruct (preds_noapi g n rst sj st Hi Pr Hrs Vs ER Vt Hp Hst Hjo) as (n1 & t1 & E1).
             exists g, n1, t1. split; [exact E1|]. split; [exact Hi|]. split; [exact Hst|exact Hu]. }
        - destruct Hop as (Him & Hix & Hs & Hh & V & Pm & Hl & Sj & Hod & Hnew).
          destruct (push_subject_then_predecessors g n rst d c sj st Hi Pr Hrs Him Hix Hs Hh V Pm Hl Sj Vs ER Vt Hp Hst Hjo Hu Hod Hnew Hlim Hju Hcol)
            as (g1 & n1 & t1 & E1 & Hi1 & Ist1 & Hu1 & _).
          exists g1, n1, t1. split; [exact E1|]. split; [exact Hi1|]. split; [|exact Hu1].
          assert (Nn : is_nil (clean_refs [] (ix_list st) ++ [d]) = false)
            by (destruct (clean_refs [] (ix_list st)); reflexivity).
          unfold ix_post. rewrite Nn. exact Ist1.
        - destruct Hop as (Him & Hix & L & Hs & V & Sj & (od & l & -> & Hod) & Hin & Hj).
          cbn [ix_list] in *.
          assert (Hcol' : skip_gc = true \/ od <> H (gen_index (filter (fun x => negb (desc_eqb d x)) (clean_refs [] l)))).
          { destruct Hcol as [X|X]; [now left|right; eapply X; eauto]. }
          destruct (delete_subject_then_predecessors g n rst d c sj od l Hi Pr Hrs Him Hix L Hs V Sj Vs ER Vt Hp Hst Hjo Hu Hod Hin Hlim Hju Hj Hcol')
            as (g1 & n1 & t1 & E1 & Hi1 & _ & Ist1 & Hu1 & _).
          exists g1, n1, t1. split; [exact E1|]. split; [exact Hi1|]. split; [exact Ist1|exact Hu1]. }
      destruct Step as (g1 & n1 & t1 & E1 & Hi1 & Ist1 & Hu1).
      rewrite E1 in Hrest.
      destruct (IH g1 n1 RSUnsupported _ Hi1 Pr ltac:(discriminate) Vs ER Vt Hp Ist1 Hu1 Hrest)
        as (g' & n' & rst' & out & E & Ho & Hrs' & Hi' & Ist' & Hu' & R).
      exists g', n', rst', ((t1, ts_res st o) :: out). cbn [run_ops map ts_final ts_results snd]. rewrite E1, E.
      split; [reflexivity|]. split; [now rewrite Ho|]. split; [exact Hrs'|]. split; [exact Hi'|].
      split; [exact Ist'|]. split; [exact Hu'|exact R].
  Qed.

  (* ---------- the digest-header hypothesis is exactly the failing mechanism ---------- *)
  (* Without Docker-Content-Digest, a HEAD for a TAG that exists is answered with an error:
     in every registry state, whatever the manifest. *)
  Lemma man_resolve_tag_nohdr g n rs rf d mt c :
    resolve_ref main rs = Some rf -> valid_digest rf = false ->
    man_lookup (store_of g) rf = Some (d, (mt, c)) -> p_dighdr p = false ->
    exists t, man_resolve H parse_mt main user_mts limit S ex0 (g, n) rs = ((g, n + 1), t, RErr EOther).
  Proof.
    intros ER Vr L Pd. unfold man_resolve.
    rewrite ER, hx_head_man, (man_resp_hit true g rf d mt c L). simp.
    rewrite orb_true_r, Pd. cbn [opt_if]. unfold gen_desc. proj.
    destruct (parse_mt mt); [rewrite Vr|]; eauto.
  Qed.

  Theorem resolve_tag_needs_header g n rst rs rf d mt c :
    resolve_ref main rs = Some rf -> valid_digest rf = false ->
    man_lookup (store_of g) rf = Some (d, (mt, c)) -> p_dighdr p = false ->
    snd (run_op' (g, n) rst (OResolve rs)) = RErr EOther /\
    snd (spec_op' (store_of g) (OResolve rs)) = RDesc (mkDesc mt d (len c)).
  Proof.
    intros ER Vr L Pd. cbn [run_op spec_op].
    destruct (man_resolve_tag_nohdr g n rs rf d mt c ER Vr L Pd) as [t E]. rewrite E, ER, L. split; reflexivity.
  Qed.

  Theorem fetchref_tag_needs_header g n rst rs rf d mt c :
    resolve_ref main rs = Some rf -> valid_digest rf = false ->
    man_lookup (store_of g) rf = Some (d, (mt, c)) -> p_dighdr p = false -> p_clen p = false ->
    snd (run_op' (g, n) rst (OFetchRef rs)) = RErr EOther /\
    snd (spec_op' (store_of g) (OFetchRef rs)) = RDescBytes (mkDesc mt d (len c)) c.
  Proof.
    intros ER Vr L Pd Pc. cbn [run_op spec_op]. rewrite ER, L. split; [|reflexivity].
    unfold man_fetchref. rewrite ER, hx_get_man, (man_resp_hit false g rf d mt c L). simp.
    rewrite orb_false_r, Pc. cbn [opt_if].
    destruct (man_resolve_tag_nohdr g (n + 1) rs rf d mt c ER Vr L Pd) as [t E]. rewrite E. reflexivity.
  Qed.
End Refine.

(* ---------- the registry model (also with one corrupted response) meets [loc_ok] ---------- *)
Definition no_status_corruption (kor : option (N * corruption)) : Prop :=
  match kor with Some (_, KStatus _) | Some (_, KNameUnknown) => False | _ => True end.

Lemma corrupt_keeps k r :
  match k with KStatus _ | KNameUnknown => False | _ => True end ->
  r_status (corrupt k r) = r_status r /\ (r_loc (corrupt k r) = r_loc r \/ r_loc (corrupt k r) = None).
Proof. destruct r, k; cbn; intro X; try contradiction; auto. Qed.

Lemma handle_post_loc H sj main other p g q :
  valid_repository main = true -> q_m q = POST ->
  let r := snd (handle H sj main other p g q) in
  r_status r = 202 ->
  match r_loc r with
  | Some (rp, ep) => valid_repository rp = true /\ exists id, ep = ESession id
  | None => True
  end.
Proof.
  intros Vm Hq. destruct q as [m repo ep dg mnt acc ct cl rg body]. cbn in Hq. subst m.
  unfold handle. cbn [q_m q_repo q_ep q_mount q_digest q_range q_body q_ctype q_clen].
  destruct (str_eqb repo main).
  - destruct ep; try (cbn; discriminate).
    destruct mnt as [[d from]|]; [|cbn; eauto].
    destruct (if p_mount p && str_eqb from other then lookup d (g_other g) else None); cbn; [discriminate|eauto].
  - destruct (str_eqb repo other); [destruct ep|]; cbn; discriminate.
Qed.

Theorem registry_loc_ok H subject_of main other p kor :
  valid_repository main = true -> no_status_corruption kor ->
  loc_ok (reg * N) (cexch H subject_of main other p kor).
Proof.
  intros Vm Hk [g n] q Hq. unfold cexch.
  pose proof (handle_post_loc H (subj_of subject_of) main other p g q Vm Hq) as Hh.
  destruct (handle H (subj_of subject_of) main other p g q) as [g1 r]. cbn [snd] in *.
  destruct kor as [[k c]|]; [|exact Hh].
  destruct (n =? k); [|exact Hh].
  assert (Hc : match c with KStatus _ | KNameUnknown => False | _ => True end) by (destruct c; auto).
  destruct (corrupt_keeps c r Hc) as [Es [El|El]]; rewrite Es, El; auto.
Qed.

(* every request of every history against the registry model is allowed, also when one
   response is corrupted in any field but the status *)
Theorem run_history_allowed H parse_mt subject_of main other user_mts limit skip_gc index_of p kor other_blobs rst os g out :
  valid_repository main = true -> valid_repository other = true ->
  (forall c, valid_digest (H c) = true) ->
  no_status_corruption kor -> Forall op_ok os ->
  run_history H parse_mt subject_of main other user_mts limit skip_gc index_of p kor other_blobs rst os = (g, out) ->
  Forall (fun tr => Forall (fun qr => allowed (fst qr) = true) (fst tr)) out.
Proof.
  intros Vm Vo Hv Hk Hok. unfold run_history.
  destruct (run_ops _ _ _ _ _ _ _ _ _ _ _ _ rst os) as [[s rst'] out'] eqn:E.
  intro X. injection X as _ <-.
  eapply (run_ops_allowed H parse_mt subject_of main other user_mts limit skip_gc index_of (reg * N)
            (cexch H subject_of main other p kor) Vm Vo (registry_loc_ok _ _ _ _ _ _ Vm Hk) Hv); eauto.
Qed.

(* ---------- the known limitation, as a witness ---------- *)
(* A registry that omits the optional Docker-Content-Digest header: after a successful
   PushReference under a tag, Resolve of that tag fails although the store holds it. *)
Definition w_H (_ : str) : str := zero_digest.
Definition w_limit : N := 4194304.
Definition w_index_of (_ : str) : option (list desc) := Some [].
Definition w_profile := mkProfile false true true false false.
Definition w_content := b "{}".
Definition w_desc := mkDesc mt_oci_manifest zero_digest 2.
Definition w_ops := [OPushRef w_desc w_content (b "v1"); OResolve (b "v1")].

Lemma resolve_tag_without_digest_header_refuted :
  map snd (snd (run_history w_H (fun s => Some s) (fun _ => Some None) (b "app") (b "src") [] w_limit false w_index_of
                            w_profile None [] RSUnknown w_ops))
  = [ROk; RErr EOther] /\
  snd (spec_run w_H (fun _ => Some None) (b "app") [] (mkStore [] [] [] []) w_ops)
  = [ROk; RDesc w_desc].
Proof. vm_compute. split; reflexivity. Qed.

(* ---------- non-vacuity of the refinement hypotheses ---------- *)
Definition ex_profile := mkProfile true false false true true.
Definition ex_blob := b "layer".
Definition ex_bdesc := mkDesc ct_octet zero_digest 5.
Definition ex_ref := b "{subject:w}".
Definition ex_rdesc := mkDesc mt_oci_manifest zero_digest 11.
Definition ex_subject (c : str) : option (option desc) :=
  if str_eqb c ex_ref then Some (Some w_desc) else Some None.
Definition ex_ops : list op :=
  [OPushRef w_desc w_content (b "v1"); OResolve (b "v1"); OFetchRef (b "v1"); OFetch w_desc;
   OTag w_desc (b "v2"); OExists w_desc; OMount ex_bdesc None; OFetch ex_bdesc;
   OPreds w_desc; ODelete w_desc; OResolve (b "v2");
   OPushRef ex_rdesc ex_ref (b "r1"); OPreds w_desc].
Lemma refines_store_nonvacuous :
  wf_hist w_H (fun s => Some s) ex_subject (b "app") [] w_limit ex_profile
          (mkStore [] [] [] [(zero_digest, ex_blob)]) ex_ops /\
  rst_ok ex_profile RSUnknown /\
  snd (spec_run w_H ex_subject (b "app") [] (mkStore [] [] [] [(zero_digest, ex_blob)]) ex_ops)
  = [ROk; RDesc w_desc; RDescBytes w_desc w_content; RBytes w_content; ROk; RBool true; ROk;
     RBytes ex_blob; RDescs []; ROk; RErr ENotFound; ROk; RDescs [ex_rdesc]].
Proof.
  split; [|split; [left; discriminate|vm_compute; reflexivity]].
  vm_compute. repeat split; auto; intros;
    repeat match goal with
           | X : Some _ = Some _ |- _ => injection X; clear X; intros; subst
           | X : None = Some _ |- _ => discriminate X
           end; auto.
  all: try discriminate.
  all: try (right; split; [reflexivity|]; eexists; split; [reflexivity|discriminate]).
Qed.

(* ---------- every capability profile is covered: a computation over all 32 ---------- *)
Definition all_profiles : list profile :=
  flat_map (fun a => flat_map (fun b0 => flat_map (fun c => flat_map (fun d => map (fun e => mkProfile a b0 c d e)
    [false; true]) [false; true]) [false; true]) [false; true]) [false; true].

Definition desc_eqb (x y : desc) : bool :=
  str_eqb (d_mt x) (d_mt y) && str_eqb (d_dg x) (d_dg y) && (d_sz x =? d_sz y).
Fixpoint descs_eqb (x y : list desc) : bool :=
  match x, y with
  | [], [] => true
  | a :: x', c :: y' => desc_eqb a c && descs_eqb x' y'
  | _, _ => false
  end.
Definition result_eqb (x y : result) : bool :=
  match x, y with
  | ROk, ROk => true
  | RBool a, RBool c => Bool.eqb a c
  | RDesc a, RDesc c => desc_eqb a c
  | RBytes a, RBytes c => str_eqb a c
  | RDescBytes a a', RDescBytes c c' => desc_eqb a c && str_eqb a' c'
  | RDescs a, RDescs c => descs_eqb a c
  | RErr ENotFound, RErr ENotFound | RErr EInvalidRef, RErr EInvalidRef | RErr EOther, RErr EOther => true
  | _, _ => false
  end.
Fixpoint results_eqb (x y : list result) : bool :=
  match x, y with
  | [], [] => true
  | a :: x', c :: y' => result_eqb a c && results_eqb x' y'
  | _, _ => false
  end.

(* the history of the non-vacuity example, with a tag resolved by HEAD only where the
   hypothesis of C13_refines_store_partial admits it; everything else in every profile *)
Definition cover_ops (p : profile) : list op :=
  [OPushRef w_desc w_content (b "v1")]
  ++ (if p_dighdr p then [OResolve (b "v1")] else [OResolve zero_digest])
  ++ (if p_clen p || p_dighdr p then [OFetchRef (b "v1")] else [OFetchRef zero_digest])
  ++ [OFetch w_desc; OTag w_desc (b "v2"); OExists w_desc; OMount ex_bdesc None; OMount ex_bdesc (Some ex_blob);
      OFetch ex_bdesc; OBlobResolve zero_digest; OBlobFetchRef zero_digest; OPush ex_bdesc ex_blob]
  ++ (if p_referrers p then [OPreds w_desc; OPushRef ex_rdesc ex_ref (b "r1"); OPreds w_desc] else [])
  ++ [ODelete w_desc; OResolve (b "bad!"); ODelete ex_bdesc; OExists ex_bdesc].

Definition covered (p : profile) (rst : rstate) : bool :=
  results_eqb
    (map snd (snd (run_history w_H (fun s => Some s) ex_subject (b "app") (b "src") [] w_limit false w_index_of p None
                               [(zero_digest, ex_blob)] rst (cover_ops p))))
    (snd (spec_run w_H ex_subject (b "app") [] (mkStore [] [] [] [(zero_digest, ex_blob)]) (cover_ops p))).

Lemma all_profiles_covered :
  length all_profiles = 32%nat /\
  forallb (fun p => covered p RSUnknown && covered p RSSupported
                    && (p_referrers p || covered p RSUnsupported)) all_profiles = true.
Proof. vm_compute. split; reflexivity. Qed.

(* ---------- the referrers tag schema end to end, on a concrete registry without the API ---------- *)
Definition hex_digit (n : N) : N := if n <? 10 then 48 + n else 87 + n.
(* a toy hash: the hex of the last 32 bytes (enough to tell the few contents below apart) *)
Definition toy_H (c : str) : str :=
  b "sha256:" ++ firstn 64 (flat_map (fun x => [hex_digit (x / 16); hex_digit (x mod 16)]) (rev c) ++ repeat 48 64).
Definition ts_m0 := b "{0}".
Definition ts_m1 := b "{1}".
Definition ts_d0 := mkDesc mt_oci_manifest (toy_H ts_m0) 3.
Definition ts_d1 := mkDesc mt_oci_manifest (toy_H ts_m1) 3.
Definition ts_subject (c : str) : option (option desc) := if str_eqb c ts_m1 then Some (Some ts_d0) else Some None.
Definition ts_index_of (c : str) : option (list desc) := if str_eqb c (gen_index [ts_d1]) then Some [ts_d1] else Some [].
Definition ts_profile := mkProfile true false true false false.     (* no Referrers API *)
Definition ts_ops := [OPush ts_d0 ts_m0; OPreds ts_d0; OPush ts_d1 ts_m1; OPreds ts_d0; OResolve (ref_tag (toy_H ts_m0));
                      ODelete ts_d1; OPreds ts_d0; OResolve (ref_tag (toy_H ts_m0))].

Lemma tag_schema_example :
  map snd (snd (run_history toy_H (fun s => Some s) ts_subject (b "app") (b "src") [] w_limit false ts_index_of
                            ts_profile None [] RSUnknown ts_ops))
  = [ROk; RDescs []; ROk; RDescs [ts_d1];
     RDesc (mkDesc mt_index (toy_H (gen_index [ts_d1])) (len (gen_index [ts_d1])));
     ROk; RDescs []; RErr ENotFound] /\
  ts_index_of (gen_index [ts_d1]) = Some [ts_d1] /\ ts_subject (gen_index [ts_d1]) = Some None /\
  gen_index [ts_d1] = b "{""schemaVersion"":2,""mediaType"":""application/vnd.oci.image.index.v1+json"",""manifests"":[{""mediaType"":""application/vnd.oci.image.manifest.v1+json"",""digest"":""sha256:7d317b0000000000000000000000000000000000000000000000000000000000"",""size"":3}]}".
Proof. vm_compute. repeat split; reflexivity. Qed.

(* ---------- the hypotheses of the operation-level tag-schema theorems are satisfiable ---------- *)
Definition sat_c := b "{1}".
Definition sat_sj := mkDesc mt_oci_manifest zero_digest 3.
Definition sat_d := mkDesc mt_oci_manifest zero_digest 3.
Definition sat_subject (c : str) : option (option desc) := if str_eqb c sat_c then Some (Some sat_sj) else Some None.
Definition sat_index_of (c : str) : option (list desc) := if str_eqb c (gen_index [sat_d]) then Some [sat_d] else Some [].

Lemma push_subject_satisfiable :
  exists g' n' t,
    run_op w_H (fun s => Some s) sat_subject (b "app") (b "src") [] w_limit false sat_index_of (reg * N)
           (cexch w_H sat_subject (b "app") (b "src") ts_profile None) (reg0 [], 0) RSUnknown (OPush sat_d sat_c)
    = ((g', n'), RSUnsupported, t, ROk) /\
    minv w_H (fun s => Some s) w_limit g' /\
    index_state g' (ref_tag zero_digest) (Some (w_H (gen_index [sat_d]), [sat_d])) /\
    exists n'' t',
      run_op w_H (fun s => Some s) sat_subject (b "app") (b "src") [] w_limit false sat_index_of (reg * N)
             (cexch w_H sat_subject (b "app") (b "src") ts_profile None) (g', n') RSUnsupported (OPreds sat_sj)
      = ((g', n''), RSUnsupported, t', RDescs [sat_d]).
Proof.
  destruct (push_subject_then_predecessors w_H (fun s => Some s) sat_subject (b "app") (b "src") [] w_limit false sat_index_of ts_profile
              ltac:(intro c; vm_compute; reflexivity)
              ltac:(intro l; reflexivity)
              ltac:(reflexivity)
              (reg0 []) 0 RSUnknown sat_d sat_c sat_sj None)
    as (g' & n' & t & E & Hi & Ist & _ & _ & R);
    [ intros ? ? ? L; discriminate L | try (vm_compute; reflexivity); try discriminate .. | ].
  - right. reflexivity.
  - constructor.
  - right. discriminate.
  - exists g', n', t. split; [exact E|]. split; [exact Hi|]. split; [exact Ist|]. exact R.
Qed.

(* the side conditions of tag_schema_changes are satisfiable: two referrers added, the first removed *)
Definition sat_a := mkDesc mt_oci_manifest zero_digest 3.
Definition sat_b := mkDesc mt_oci_manifest zero_digest 4.
Definition sat_changes := [RAdd sat_a; RAdd sat_b; RRemove sat_a].
Definition sat_index_of2 (c : str) : option (list desc) :=
  if str_eqb c (gen_index [sat_a]) then Some [sat_a]
  else if str_eqb c (gen_index [sat_a; sat_b]) then Some [sat_a; sat_b]
  else if str_eqb c (gen_index [sat_b]) then Some [sat_b] else Some [].
Lemma tag_schema_changes_satisfiable :
  changes_ok w_H w_limit true sat_index_of2 None sat_changes /\
  spec_changes w_H true None sat_changes = Some (w_H (gen_index [sat_b]), [sat_b]) /\
  json_ok_st sat_index_of2 (spec_changes w_H true None sat_changes).
Proof.
  split; [|split; vm_compute; reflexivity].
  unfold sat_changes. cbn [changes_ok].
  exists [sat_a]. split; [reflexivity|]. split; [exact I|]. split; [vm_compute; discriminate|]. split; [now left|].
  exists [sat_a; sat_b]. split; [vm_compute; reflexivity|]. split; [vm_compute; reflexivity|].
  split; [vm_compute; discriminate|]. split; [now left|].
  exists [sat_b]. split; [vm_compute; reflexivity|]. split; [vm_compute; reflexivity|].
  split; [vm_compute; discriminate|]. split; [now left|]. exact I.
Qed.

(* the side conditions of tag_schema_history are satisfiable: push a referrer, then delete it *)
Definition sat3_D1 := b "sha256:1111111111111111111111111111111111111111111111111111111111111111".
Definition sat3_D2 := b "sha256:2222222222222222222222222222222222222222222222222222222222222222".
Definition sat3_D3 := b "sha256:3333333333333333333333333333333333333333333333333333333333333333".
Definition sat3_d := mkDesc mt_oci_manifest sat3_D1 3.
Definition sat3_H (c : str) : str :=
  if str_eqb c sat_c then sat3_D1 else if str_eqb c (gen_index [sat3_d]) then sat3_D2 else sat3_D3.
Definition sat3_index_of (c : str) : option (list desc) :=
  if str_eqb c (gen_index [sat3_d]) then Some [sat3_d] else Some [].
Definition sat3_ops := [TPush sat3_d sat_c; TPreds; TDelete sat3_d sat_c].
Lemma tag_schema_history_satisfiable :
  (forall c, valid_digest (sat3_H c) = true) /\
  ts_hist_ok sat3_H (fun s => Some s) sat_subject (b "app") (b "src") [] w_limit false sat3_index_of ts_profile
             sat_sj (reg0 [], 0) RSUnknown None sat3_ops /\
  ts_final sat3_H false None sat3_ops = None /\
  ts_results sat3_H false None sat3_ops = [ROk; RDescs [sat3_d]; ROk].
Proof.
  split; [|split; [|split; vm_compute; reflexivity]].
  - intro c. unfold sat3_H. destruct (str_eqb c sat_c); [|destruct (str_eqb c (gen_index [sat3_d]))];
      vm_compute; reflexivity.
  - unfold sat3_ops. cbn [ts_hist_ok]. split.
    + unfold ts_step_ok. cbn [ts_next ix_list fst].
      repeat split; try (vm_compute; reflexivity); try (vm_compute; discriminate); try discriminate.
      right. discriminate.
    + destruct (run_op sat3_H (fun s => Some s) sat_subject (b "app") (b "src") [] w_limit false sat3_index_of
                       (reg * N) (cexch sat3_H sat_subject (b "app") (b "src") ts_profile None)
                       (reg0 [], 0) RSUnknown (ts_op sat_sj (TPush sat3_d sat_c))) as [[[s1 rst1] t1] r1] eqn:E.
      vm_compute in E. injection E as <- <- _ _. split.
      { unfold ts_step_ok. repeat split; try (vm_compute; reflexivity). }
      cbn [ts_post ts_next ix_list].
      match goal with |- context [run_op ?a ?b ?c ?d ?e ?f ?g ?h ?i ?j ?k ?s ?r ?o] =>
        destruct (run_op a b c d e f g h i j k s r o) as [[[s2 rst2] t2] r2] eqn:E2 end.
      vm_compute in E2. injection E2 as <- <- _ _. split; [|exact I].
      unfold ts_step_ok. cbn [ts_next ix_list fst].
      repeat split; try (vm_compute; reflexivity); try (vm_compute; discriminate).
      * right. intros od l0 X. vm_compute in X. injection X as <- <-. vm_compute. discriminate.
      * eexists _, _. split; [vm_compute; reflexivity|]. vm_compute. discriminate.
Qed.
