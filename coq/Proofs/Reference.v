(* Proofs about the reference parser model (C20). *)
From Oras Require Import Base.Prelude Base.Regex Generated.GC20 Model.Reference.

(* ---------- split_first ---------- *)

Lemma split_first_Some c s a t :
  split_first c s = Some (a, t) -> s = a ++ c :: t /\ contains c a = false.
Proof.
  unfold split_first. destruct (index_of c s) as [i|] eqn:E; [|discriminate].
  intro H. injection H as <- <-. apply index_of_some in E as (A & _ & C). auto.
Qed.

Lemma split_first_app c a t :
  contains c a = false -> split_first c (a ++ c :: t) = Some (a, t).
Proof.
  intro H. unfold split_first. rewrite (index_of_app_fresh _ _ _ H).
  now rewrite firstn_app_exact, skipn_S_app.
Qed.

Lemma split_first_None c s : split_first c s = None <-> contains c s = false.
Proof.
  unfold split_first. rewrite <- index_of_none. destruct (index_of c s); split; congruence.
Qed.

(* ---------- facts read off the generated regular expressions ---------- *)

Lemma repo_no c : avoids [(c, c)] repositoryRegexp = true ->
  forall s, valid_repository s = true -> contains c s = false.
Proof. intros H s V. apply matches_spec in V. eapply avoids_contains; eauto. Qed.

Lemma tag_no c : avoids [(c, c)] tagRegexp = true ->
  forall s, valid_tag s = true -> contains c s = false.
Proof. intros H s V. apply matches_spec in V. eapply avoids_contains; eauto. Qed.

Lemma repo_no_at s : valid_repository s = true -> contains c_at s = false.
Proof. apply repo_no. vm_compute. reflexivity. Qed.
Lemma repo_no_colon s : valid_repository s = true -> contains c_colon s = false.
Proof. apply repo_no. vm_compute. reflexivity. Qed.
Lemma tag_no_at s : valid_tag s = true -> contains c_at s = false.
Proof. apply tag_no. vm_compute. reflexivity. Qed.
Lemma tag_no_colon s : valid_tag s = true -> contains c_colon s = false.
Proof. apply tag_no. vm_compute. reflexivity. Qed.
Lemma tag_no_slash s : valid_tag s = true -> contains c_slash s = false.
Proof. apply tag_no. vm_compute. reflexivity. Qed.

Lemma repo_nonempty : valid_repository [] = false.
Proof. vm_compute. reflexivity. Qed.
Lemma tag_nonempty : valid_tag [] = false.
Proof. vm_compute. reflexivity. Qed.

(* everything below holds for every set of linked hash implementations *)
Section Avail.
Variable avail : str -> bool.
Notation valid_digest := (Reference.valid_digest avail).
Notation format := (Reference.format avail).
Notation validate_reference := (Reference.validate_reference avail).

Lemma digest_has_colon d : valid_digest d = true -> contains c_colon d = true.
Proof.
  unfold Reference.valid_digest. destruct (split_first c_colon d) as [[a e]|] eqn:E; [|discriminate].
  intros _. apply split_first_Some in E as [-> _]. rewrite contains_app.
  apply orb_true_iff. right. reflexivity.
Qed.

Lemma digest_nonempty : valid_digest [] = false.
Proof. reflexivity. Qed.

Lemma tag_not_digest t : valid_tag t = true -> valid_digest t = false.
Proof.
  intro H. apply tag_no_colon in H. destruct (valid_digest t) eqn:E; auto.
  apply digest_has_colon in E. congruence.
Qed.

(* characters of a valid digest: lower-case alphanumerics and one colon *)
Definition digest_char (c : N) : bool :=
  ((48 <=? c) && (c <=? 57)) || ((97 <=? c) && (c <=? 122)) || (c =? c_colon).

Lemma digest_chars d : valid_digest d = true -> forallb digest_char d = true.
Proof.
  unfold Reference.valid_digest. destruct (split_first c_colon d) as [[a e]|] eqn:E; [|discriminate].
  apply split_first_Some in E as [-> _].
  destruct (find _ alg_table) as [[a' n]|] eqn:F; [|discriminate].
  intro H. apply andb_true_iff in H as [_ H].
  apply find_some in F as [Fin Feq]. simpl in Feq. apply str_eqb_spec in Feq. subst a'.
  rewrite forallb_app. apply andb_true_iff. split.
  - simpl in Fin. destruct Fin as [F|[F|[F|[]]]]; injection F as <- _; vm_compute; reflexivity.
  - cbn [forallb]. apply andb_true_iff. split; [reflexivity|].
    rewrite forallb_forall in *. intros x Hx. specialize (H x Hx).
    unfold hexlower in H. unfold digest_char.
    apply orb_true_iff in H as [H|H]; apply andb_true_iff in H as [A B];
      apply N.leb_le in A, B; apply orb_true_iff; left; apply orb_true_iff.
    + left. apply andb_true_iff; split; apply N.leb_le; lia.
    + right. apply andb_true_iff; split; apply N.leb_le; lia.
Qed.

(* ---------- the grammar, stated independently of the parser ---------- *)

Section Grammar.
  Variable valid_registry : str -> bool.

  Definition ok_registry (reg : str) : Prop :=
    valid_registry reg = true /\ contains c_slash reg = false.

  (* The last three constructors are the documented leniency: a bare trailing
     ':' or '@' is treated as "no reference". *)
  Inductive RefGrammar : str -> reference -> Prop :=
  | GFormD reg repo :
      ok_registry reg -> valid_repository repo = true ->
      RefGrammar (reg ++ [c_slash] ++ repo) (mkRef reg repo [])
  | GFormC reg repo tag :
      ok_registry reg -> valid_repository repo = true -> valid_tag tag = true ->
      RefGrammar (reg ++ [c_slash] ++ repo ++ [c_colon] ++ tag) (mkRef reg repo tag)
  | GFormA reg repo d :
      ok_registry reg -> valid_repository repo = true -> valid_digest d = true ->
      RefGrammar (reg ++ [c_slash] ++ repo ++ [c_at] ++ d) (mkRef reg repo d)
  | GFormB reg repo junk d :
      ok_registry reg -> valid_repository repo = true -> contains c_at junk = false ->
      valid_digest d = true ->
      RefGrammar (reg ++ [c_slash] ++ repo ++ [c_colon] ++ junk ++ [c_at] ++ d) (mkRef reg repo d)
  | GLenientColon reg repo :
      ok_registry reg -> valid_repository repo = true ->
      RefGrammar (reg ++ [c_slash] ++ repo ++ [c_colon]) (mkRef reg repo [])
  | GLenientAt reg repo :
      ok_registry reg -> valid_repository repo = true ->
      RefGrammar (reg ++ [c_slash] ++ repo ++ [c_at]) (mkRef reg repo [])
  | GLenientColonAt reg repo junk :
      ok_registry reg -> valid_repository repo = true -> contains c_at junk = false ->
      RefGrammar (reg ++ [c_slash] ++ repo ++ [c_colon] ++ junk ++ [c_at]) (mkRef reg repo []).

  Notation parse := (Reference.parse avail valid_registry).

  Lemma parse_form_D reg repo :
    ok_registry reg -> valid_repository repo = true ->
    parse (reg ++ [c_slash] ++ repo) = Some (mkRef reg repo []).
  Proof.
    intros [Hr Hs] Hp. unfold parse. simpl app.
    rewrite (split_first_app _ _ _ Hs).
    assert (E1 : split_first c_at repo = None) by (apply split_first_None; now apply repo_no_at).
    assert (E2 : split_first c_colon repo = None) by (apply split_first_None; now apply repo_no_colon).
    rewrite E1, E2. simpl. now rewrite Hr, Hp.
  Qed.

  Lemma parse_form_C reg repo t :
    ok_registry reg -> valid_repository repo = true ->
    (t = [] \/ valid_tag t = true) ->
    parse (reg ++ [c_slash] ++ repo ++ [c_colon] ++ t) = Some (mkRef reg repo t).
  Proof.
    intros [Hr Hs] Hp Ht. unfold parse. simpl app.
    rewrite (split_first_app _ _ _ Hs).
    assert (E1 : split_first c_at (repo ++ c_colon :: t) = None).
    { apply split_first_None. rewrite contains_app. rewrite (repo_no_at _ Hp). simpl.
      destruct Ht as [->|Ht]; [reflexivity | now apply tag_no_at]. }
    rewrite E1. rewrite (split_first_app _ _ _ (repo_no_colon _ Hp)).
    simpl. rewrite Hr, Hp. simpl.
    destruct Ht as [->|Ht]; [reflexivity|]. rewrite Ht.
    destruct t; [now rewrite tag_nonempty in Ht | reflexivity].
  Qed.

  Lemma parse_form_A reg repo d :
    ok_registry reg -> valid_repository repo = true ->
    (d = [] \/ valid_digest d = true) ->
    parse (reg ++ [c_slash] ++ repo ++ [c_at] ++ d) = Some (mkRef reg repo d).
  Proof.
    intros [Hr Hs] Hp Hd. unfold parse. simpl app.
    rewrite (split_first_app _ _ _ Hs).
    rewrite (split_first_app _ _ _ (repo_no_at _ Hp)).
    assert (E2 : split_first c_colon repo = None) by (apply split_first_None; now apply repo_no_colon).
    rewrite E2. simpl. rewrite Hr, Hp. simpl.
    destruct Hd as [->|Hd]; [reflexivity|]. rewrite Hd.
    destruct d; [discriminate | reflexivity].
  Qed.

  Lemma parse_form_B reg repo junk d :
    ok_registry reg -> valid_repository repo = true -> contains c_at junk = false ->
    (d = [] \/ valid_digest d = true) ->
    parse (reg ++ [c_slash] ++ repo ++ [c_colon] ++ junk ++ [c_at] ++ d) = Some (mkRef reg repo d).
  Proof.
    intros [Hr Hs] Hp Hj Hd. unfold parse. simpl app.
    rewrite (split_first_app _ _ _ Hs).
    replace (repo ++ c_colon :: junk ++ c_at :: d) with ((repo ++ c_colon :: junk) ++ c_at :: d)
      by (rewrite <- app_assoc; reflexivity).
    assert (Hf : contains c_at (repo ++ c_colon :: junk) = false).
    { rewrite contains_app, (repo_no_at _ Hp). simpl. exact Hj. }
    rewrite (split_first_app _ _ _ Hf).
    rewrite (split_first_app _ _ _ (repo_no_colon _ Hp)).
    simpl. rewrite Hr, Hp. simpl.
    destruct Hd as [->|Hd]; [reflexivity|]. rewrite Hd.
    destruct d; [discriminate | reflexivity].
  Qed.

  Theorem parse_complete s r : RefGrammar s r -> parse s = Some r.
  Proof.
    intros G. destruct G.
    - now apply parse_form_D.
    - apply parse_form_C; auto.
    - apply parse_form_A; auto.
    - apply parse_form_B; auto.
    - apply (parse_form_C reg repo []); auto.
    - apply (parse_form_A reg repo []); auto.
    - apply (parse_form_B reg repo junk []); auto.
  Qed.

  Theorem parse_sound s r : parse s = Some r -> RefGrammar s r.
  Proof.
    unfold parse.
    destruct (split_first c_slash s) as [[reg path]|] eqn:E0; [|discriminate].
    apply split_first_Some in E0 as [-> Hs].
    destruct (split_first c_at path) as [[r0 d]|] eqn:E1.
    - apply split_first_Some in E1 as [-> Hat].
      destruct (split_first c_colon r0) as [[r1 junk]|] eqn:E2.
      + apply split_first_Some in E2 as [-> Hc].
        destruct (valid_registry reg) eqn:Vr; [|discriminate].
        destruct (valid_repository r1) eqn:Vp; [|discriminate]. simpl.
        rewrite contains_app in Hat. apply orb_false_iff in Hat as [_ Hat].
        simpl in Hat.
        destruct d as [|x d].
        * intro H. injection H as <-.
          replace (reg ++ c_slash :: (r1 ++ c_colon :: junk) ++ [c_at])
            with (reg ++ [c_slash] ++ r1 ++ [c_colon] ++ junk ++ [c_at])
            by (simpl; rewrite <- app_assoc; reflexivity).
          apply GLenientColonAt; auto. now split.
        * destruct (valid_digest (x :: d)) eqn:Vd; [|discriminate].
          intro H. injection H as <-.
          replace (reg ++ c_slash :: (r1 ++ c_colon :: junk) ++ c_at :: x :: d)
            with (reg ++ [c_slash] ++ r1 ++ [c_colon] ++ junk ++ [c_at] ++ x :: d)
            by (simpl; rewrite <- app_assoc; reflexivity).
          apply GFormB; auto. now split.
      + destruct (valid_registry reg) eqn:Vr; [|discriminate].
        destruct (valid_repository r0) eqn:Vp; [|discriminate]. simpl.
        destruct d as [|x d].
        * intro H. injection H as <-. apply (GLenientAt reg r0); auto. now split.
        * destruct (valid_digest (x :: d)) eqn:Vd; [|discriminate].
          intro H. injection H as <-. apply (GFormA reg r0 (x :: d)); auto. now split.
    - destruct (split_first c_colon path) as [[r0 t]|] eqn:E2.
      + apply split_first_Some in E2 as [-> Hc].
        destruct (valid_registry reg) eqn:Vr; [|discriminate].
        destruct (valid_repository r0) eqn:Vp; [|discriminate]. simpl.
        destruct t as [|x t].
        * intro H. injection H as <-. apply (GLenientColon reg r0); auto. now split.
        * destruct (valid_tag (x :: t)) eqn:Vt; [|discriminate].
          intro H. injection H as <-. apply (GFormC reg r0 (x :: t)); auto. now split.
      + destruct (valid_registry reg) eqn:Vr; [|discriminate].
        destruct (valid_repository path) eqn:Vp; [|discriminate]. simpl.
        intro H. injection H as <-. apply (GFormD reg path); auto. now split.
  Qed.

  Theorem parse_iff_grammar s r : parse s = Some r <-> RefGrammar s r.
  Proof. split; [apply parse_sound | apply parse_complete]. Qed.

  (* what an accepted reference looks like *)
  Definition wf_ref (r : reference) : Prop :=
    ok_registry (r_registry r) /\ valid_repository (r_repository r) = true /\
    (r_reference r = [] \/ valid_tag (r_reference r) = true \/ valid_digest (r_reference r) = true).

  Lemma grammar_wf s r : RefGrammar s r -> wf_ref r.
  Proof. destruct 1; unfold wf_ref; simpl; auto. Qed.

  Theorem parse_wf s r : parse s = Some r -> wf_ref r.
  Proof. intro H. apply parse_sound in H. eapply grammar_wf; eauto. Qed.

  Theorem format_parse r : wf_ref r -> parse (format r) = Some r.
  Proof.
    destruct r as [reg repo rf]. unfold wf_ref, Reference.format. simpl.
    intros (Hr & Hp & Hf).
    destruct repo as [|x repo]; [now rewrite repo_nonempty in Hp|].
    destruct Hf as [->|[Ht|Hd]].
    - now apply parse_form_D.
    - destruct rf as [|y rf]; [now rewrite tag_nonempty in Ht|].
      rewrite (tag_not_digest _ Ht).
      rewrite <- app_assoc. apply parse_form_C; auto.
    - destruct rf as [|y rf]; [discriminate|].
      rewrite Hd. rewrite <- app_assoc. apply parse_form_A; auto.
  Qed.

  Theorem parse_roundtrip s r : parse s = Some r -> parse (format r) = Some r.
  Proof. intro H. apply format_parse. eapply parse_wf; eauto. Qed.
End Grammar.

(* ---------- Repository.ParseReference: all accepted forms agree ---------- *)

Section RepoParse.
  Variable valid_registry : str -> bool.
  Variables breg brepo : str.
  Hypothesis Hbase_reg : ok_registry valid_registry breg.
  Hypothesis Hbase_repo : valid_repository brepo = true.

  Notation repo_parse := (Reference.repo_parse avail valid_registry breg brepo).
  Notation parse := (Reference.parse avail valid_registry).

  Lemma parse_no_slash s : contains c_slash s = false -> parse s = None.
  Proof. intro H. unfold Reference.parse. apply split_first_None in H. now rewrite H. Qed.

  Lemma digest_no_slash d : valid_digest d = true -> contains c_slash d = false.
  Proof.
    intro H. apply digest_chars in H. unfold contains.
    induction d as [|x d IH]; simpl in *; auto.
    apply andb_true_iff in H as [A B]. rewrite (IH B), orb_false_r.
    unfold digest_char in A. destruct (x =? c_slash) eqn:E; auto.
    apply N.eqb_eq in E. subst x. discriminate.
  Qed.

  Lemma digest_no_at d : valid_digest d = true -> contains c_at d = false.
  Proof.
    intro H. apply digest_chars in H. unfold contains.
    induction d as [|x d IH]; simpl in *; auto.
    apply andb_true_iff in H as [A B]. rewrite (IH B), orb_false_r.
    unfold digest_char in A. destruct (x =? c_at) eqn:E; auto.
    apply N.eqb_eq in E. subst x. discriminate.
  Qed.

  Theorem repo_parse_tag t : valid_tag t = true -> repo_parse t = Some (mkRef breg brepo t).
  Proof.
    intro H. unfold Reference.repo_parse, repo_parse_gen.
    rewrite (parse_no_slash _ (tag_no_slash _ H)).
    assert (E : split_first c_at t = None) by (apply split_first_None; now apply tag_no_at).
    rewrite E. unfold Reference.validate_reference.
    destruct t as [|x t]; [now rewrite tag_nonempty in H|].
    rewrite (tag_no_colon _ H), H. reflexivity.
  Qed.

  Theorem repo_parse_digest d : valid_digest d = true -> repo_parse d = Some (mkRef breg brepo d).
  Proof.
    intro H. unfold Reference.repo_parse, repo_parse_gen.
    rewrite (parse_no_slash _ (digest_no_slash _ H)).
    assert (E : split_first c_at d = None) by (apply split_first_None; now apply digest_no_at).
    rewrite E. unfold Reference.validate_reference.
    destruct d as [|x d]; [discriminate|].
    rewrite (digest_has_colon _ H), H. reflexivity.
  Qed.

  Theorem repo_parse_tag_at_digest junk d :
    contains c_slash junk = false -> contains c_at junk = false -> valid_digest d = true ->
    repo_parse (junk ++ [c_at] ++ d) = Some (mkRef breg brepo d).
  Proof.
    intros Hs Ha H. unfold Reference.repo_parse, repo_parse_gen.
    rewrite parse_no_slash.
    2:{ rewrite contains_app, Hs. simpl. now apply digest_no_slash. }
    simpl app. rewrite (split_first_app _ _ _ Ha). rewrite Hs, H. simpl.
    destruct d; [discriminate | reflexivity].
  Qed.

  Theorem repo_parse_full_tag t :
    valid_tag t = true ->
    repo_parse (breg ++ [c_slash] ++ brepo ++ [c_colon] ++ t) = Some (mkRef breg brepo t).
  Proof.
    intro H. unfold Reference.repo_parse, repo_parse_gen.
    rewrite parse_form_C; auto. simpl. rewrite !str_eqb_refl. simpl.
    destruct t; [now rewrite tag_nonempty in H | reflexivity].
  Qed.

  Theorem repo_parse_full_digest d :
    valid_digest d = true ->
    repo_parse (breg ++ [c_slash] ++ brepo ++ [c_at] ++ d) = Some (mkRef breg brepo d).
  Proof.
    intro H. unfold Reference.repo_parse, repo_parse_gen.
    rewrite parse_form_A; auto. simpl. rewrite !str_eqb_refl. simpl.
    destruct d; [discriminate | reflexivity].
  Qed.

  Theorem repo_parse_full_tag_digest junk d :
    contains c_at junk = false -> valid_digest d = true ->
    repo_parse (breg ++ [c_slash] ++ brepo ++ [c_colon] ++ junk ++ [c_at] ++ d) = Some (mkRef breg brepo d).
  Proof.
    intros Hj H. unfold Reference.repo_parse, repo_parse_gen.
    rewrite parse_form_B; auto. simpl. rewrite !str_eqb_refl. simpl.
    destruct d; [discriminate | reflexivity].
  Qed.

  Theorem repo_parse_other_rejected s r :
    parse s = Some r -> (r_registry r <> breg \/ r_repository r <> brepo) -> repo_parse s = None.
  Proof.
    intros H D. unfold Reference.repo_parse, repo_parse_gen. rewrite H.
    destruct (str_eqb (r_registry r) breg && str_eqb (r_repository r) brepo) eqn:E; auto.
    apply andb_true_iff in E as [A B]. apply str_eqb_spec in A, B. tauto.
  Qed.

  Theorem repo_parse_result_in_base s r :
    repo_parse s = Some r ->
    r_registry r = breg /\ r_repository r = brepo /\ r_reference r <> [] /\
    (valid_tag (r_reference r) = true \/ valid_digest (r_reference r) = true).
  Proof.
    unfold Reference.repo_parse, repo_parse_gen.
    destruct (parse s) as [r0|] eqn:P.
    - destruct (str_eqb (r_registry r0) breg && str_eqb (r_repository r0) brepo) eqn:E; [|discriminate].
      apply andb_true_iff in E as [A B]. apply str_eqb_spec in A, B.
      destruct (r_reference r0) eqn:R; [discriminate|]. intro H. injection H as <-.
      apply parse_wf in P as (_ & _ & W). rewrite R in *.
      repeat split; auto; try discriminate. destruct W as [W|W]; [discriminate | exact W].
    - destruct (split_first c_at s) as [[j d]|] eqn:E.
      + destruct (true && contains c_slash j); [discriminate|].
        destruct (valid_digest d) eqn:V; [|discriminate]. simpl.
        destruct d; [discriminate|]. intro H. injection H as <-. simpl.
        repeat split; auto; discriminate.
      + destruct (validate_reference s) eqn:V; [|discriminate]. simpl.
        destruct s as [|x s]; [discriminate|]. intro H. injection H as <-. simpl.
        repeat split; auto; try discriminate.
        unfold Reference.validate_reference in V. destruct (contains c_colon (x :: s)); auto.
  Qed.

  Theorem repo_parse_empty : repo_parse [] = None.
  Proof. reflexivity. Qed.

  (* all six accepted forms of one reference resolve to the same reference *)
  Theorem repo_forms_agree :
    (forall t, valid_tag t = true ->
       repo_parse t = Some (mkRef breg brepo t) /\
       repo_parse (breg ++ [c_slash] ++ brepo ++ [c_colon] ++ t) = Some (mkRef breg brepo t)) /\
    (forall d, valid_digest d = true ->
       repo_parse d = Some (mkRef breg brepo d) /\
       repo_parse (breg ++ [c_slash] ++ brepo ++ [c_at] ++ d) = Some (mkRef breg brepo d) /\
       (forall junk, contains c_slash junk = false -> contains c_at junk = false ->
         repo_parse (junk ++ [c_at] ++ d) = Some (mkRef breg brepo d)) /\
       (forall junk, contains c_at junk = false ->
         repo_parse (breg ++ [c_slash] ++ brepo ++ [c_colon] ++ junk ++ [c_at] ++ d)
         = Some (mkRef breg brepo d))).
  Proof.
    split.
    - intros t Ht. split; [now apply repo_parse_tag | now apply repo_parse_full_tag].
    - intros d Hd. split; [now apply repo_parse_digest|].
      split; [now apply repo_parse_full_digest|]. split.
      + intros junk Hs Ha. now apply repo_parse_tag_at_digest.
      + intros junk Ha. now apply repo_parse_full_tag_digest.
  Qed.

  (* A string that contains a slash is accepted only as a valid fully qualified reference of the
     base: nothing else with a path in it (foreign or malformed) is ever re-targeted. *)
  Theorem repo_parse_path_is_base s r :
    repo_parse s = Some r -> contains c_slash s = true ->
    parse s = Some r /\ r_registry r = breg /\ r_repository r = brepo.
  Proof.
    intros H Hs. pose proof (repo_parse_result_in_base s r H) as (A & B & _).
    split; [|split; assumption].
    revert H. unfold Reference.repo_parse, repo_parse_gen.
    destruct (parse s) as [r0|] eqn:P.
    - destruct (str_eqb (r_registry r0) breg && str_eqb (r_repository r0) brepo); [|discriminate].
      destruct (r_reference r0); [discriminate|]. intro H. now injection H as <-.
    - intro H. exfalso. revert H.
      destruct (split_first c_at s) as [[j d]|] eqn:E.
      + apply split_first_Some in E as [-> _]. rewrite contains_app in Hs. simpl in Hs.
        destruct (contains c_slash j) eqn:J; [discriminate|]. simpl.
        destruct (valid_digest d) eqn:V; [|discriminate].
        apply digest_no_slash in V. unfold contains in V, Hs. rewrite V in Hs. discriminate.
      + destruct (validate_reference s) eqn:V; [|discriminate]. intros _.
        unfold Reference.validate_reference in V. destruct s as [|x s]; [discriminate|].
        destruct (contains c_colon (x :: s)).
        * apply digest_no_slash in V. congruence.
        * apply tag_no_slash in V. congruence.
  Qed.

  (* ... spelled out on the string: base registry '/' base repository, then ':' or '@' *)
  Theorem repo_parse_path_prefix s r :
    repo_parse s = Some r -> contains c_slash s = true ->
    exists c t, s = breg ++ [c_slash] ++ brepo ++ c :: t /\ (c = c_colon \/ c = c_at).
  Proof.
    intros H Hs. pose proof (repo_parse_result_in_base s r H) as (_ & _ & Hne & _).
    destruct (repo_parse_path_is_base s r H Hs) as (P & A & B).
    apply parse_sound in P. destruct P; simpl in *; subst; try congruence.
    - exists c_colon, tag. split; [reflexivity | now left].
    - exists c_at, d. split; [reflexivity | now right].
    - exists c_colon, (junk ++ [c_at] ++ d). split; [reflexivity | now left].
  Qed.
End RepoParse.

(* Repository.ParseReference accepts EXACTLY: a tag; a digest; <dropped>@digest with a dropped part
   free of '/' and '@'; or a fully qualified reference of the base with a non-empty reference *)
Inductive RepoRefGrammar (valid_registry : str -> bool) (breg brepo : str) : str -> reference -> Prop :=
| RGTag t : valid_tag t = true -> RepoRefGrammar valid_registry breg brepo t (mkRef breg brepo t)
| RGDigest d : valid_digest d = true -> RepoRefGrammar valid_registry breg brepo d (mkRef breg brepo d)
| RGDropped junk d :
    contains c_slash junk = false -> contains c_at junk = false -> valid_digest d = true ->
    RepoRefGrammar valid_registry breg brepo (junk ++ [c_at] ++ d) (mkRef breg brepo d)
| RGFull s r :
    Reference.parse avail valid_registry s = Some r -> r_registry r = breg -> r_repository r = brepo ->
    r_reference r <> [] -> RepoRefGrammar valid_registry breg brepo s r.

Theorem repo_parse_iff_grammar (valid_registry : str -> bool) breg brepo s r :
  Reference.repo_parse avail valid_registry breg brepo s = Some r <-> RepoRefGrammar valid_registry breg brepo s r.
Proof.
  split.
  - unfold Reference.repo_parse, repo_parse_gen.
    destruct (Reference.parse avail valid_registry s) as [r0|] eqn:P.
    + destruct (str_eqb (r_registry r0) breg && str_eqb (r_repository r0) brepo) eqn:E; [|discriminate].
      apply andb_true_iff in E as [A B]. apply str_eqb_spec in A, B.
      destruct (r_reference r0) eqn:R; [discriminate|]. intro H. injection H as <-.
      apply RGFull; auto. rewrite R. discriminate.
    + destruct (split_first c_at s) as [[j d]|] eqn:E.
      * apply split_first_Some in E as [-> Hj].
        destruct (contains c_slash j) eqn:Hs; [discriminate|]. simpl.
        destruct (valid_digest d) eqn:V; [|discriminate]. simpl.
        destruct d as [|x d]; [discriminate|]. intro H. injection H as <-.
        now apply (RGDropped valid_registry breg brepo j (x :: d)).
      * destruct (validate_reference s) eqn:V; [|discriminate]. simpl.
        destruct s as [|x s]; [discriminate|]. intro H. injection H as <-.
        unfold Reference.validate_reference in V. destruct (contains c_colon (x :: s)).
        -- now apply RGDigest.
        -- now apply RGTag.
  - intros G. destruct G as [t Ht | d Hd | junk d Hs Ha Hd | s0 r0 P A B Hne].
    + now apply repo_parse_tag.
    + now apply repo_parse_digest.
    + now apply repo_parse_tag_at_digest.
    + unfold Reference.repo_parse, repo_parse_gen. rewrite P, A, B, !str_eqb_refl. simpl.
      destruct (r_reference r0); [contradiction | reflexivity].
Qed.

Theorem repo_rejects_other_paths (valid_registry : str -> bool) breg brepo s r :
  Reference.repo_parse avail valid_registry breg brepo s = Some r -> contains c_slash s = true ->
  (Reference.parse avail valid_registry s = Some r /\ r_registry r = breg /\ r_repository r = brepo) /\
  exists c t, s = breg ++ [c_slash] ++ brepo ++ c :: t /\ (c = c_colon \/ c = c_at).
Proof.
  intros H Hs. split; [now apply repo_parse_path_is_base | now apply (repo_parse_path_prefix valid_registry breg brepo s r)].
Qed.

(* ---------- URL slot ---------- *)

(* bytes that would change the structure of a URL path or need escaping:
   controls and space, double quote, hash, percent, question mark, backslash
   and everything >= 127 *)
Definition url_bad : list (N * N) :=
  [(0, 32); (34, 35); (37, 37); (63, 63); (92, 92); (127, 1114111)].

Definition url_clean (s : str) : Prop := Forall (fun c => in_ranges url_bad c = false) s.
Definition seg_clean (s : str) : Prop :=
  Forall (fun c => in_ranges ((c_slash, c_slash) :: url_bad) c = false) s.

Theorem repository_url_clean s : valid_repository s = true -> url_clean s.
Proof.
  intro H. apply matches_spec in H. eapply avoids_spec; [|exact H]. vm_compute. reflexivity.
Qed.

Theorem tag_seg_clean s : valid_tag s = true -> seg_clean s.
Proof.
  intro H. apply matches_spec in H. eapply avoids_spec; [|exact H]. vm_compute. reflexivity.
Qed.

Theorem digest_seg_clean s : valid_digest s = true -> seg_clean s.
Proof.
  intro H. apply digest_chars in H. unfold seg_clean. apply Forall_forall. intros c Hc.
  rewrite forallb_forall in H. specialize (H c Hc). unfold digest_char in H.
  unfold in_ranges, url_bad, c_slash, c_colon in *. cbn [existsb fst snd].
  repeat rewrite orb_false_r.
  apply orb_true_iff in H as [H|H]; [apply orb_true_iff in H as [H|H]|].
  - apply andb_true_iff in H as [A B]. apply N.leb_le in A, B.
    repeat (apply orb_false_iff; split); apply andb_false_iff;
      ((left; apply N.leb_gt; lia) || (right; apply N.leb_gt; lia)).
  - apply andb_true_iff in H as [A B]. apply N.leb_le in A, B.
    repeat (apply orb_false_iff; split); apply andb_false_iff;
      ((left; apply N.leb_gt; lia) || (right; apply N.leb_gt; lia)).
  - apply N.eqb_eq in H. subst c. reflexivity.
Qed.

Fixpoint after_last (c : N) (s : str) : str :=
  match s with
  | [] => []
  | x :: s' => if contains c s' then after_last c s'
               else if x =? c then s' else x :: s'
  end.

Lemma after_last_app c a t : contains c t = false -> after_last c (a ++ c :: t) = t.
Proof.
  intro H. induction a as [|x a IH]; simpl.
  - now rewrite H, N.eqb_refl.
  - rewrite contains_app. simpl. rewrite N.eqb_refl. rewrite orb_true_r. simpl. exact IH.
Qed.

Lemma seg_clean_no_slash s : seg_clean s -> contains c_slash s = false.
Proof.
  unfold seg_clean, contains. induction 1 as [|x s Hx F IH]; simpl; auto.
  rewrite IH, orb_false_r. simpl in Hx. apply orb_false_iff in Hx as [Hx _].
  destruct (x =? c_slash) eqn:E; auto. apply N.eqb_eq in E. subst. discriminate.
Qed.

Lemma seg_clean_url_clean s : seg_clean s -> url_clean s.
Proof.
  unfold seg_clean, url_clean. intro H. eapply Forall_impl; [|exact H].
  intros c Hc. simpl in Hc. apply orb_false_iff in Hc as [_ Hc]. exact Hc.
Qed.

(* Every accepted reference with a non-empty reference part yields URLs whose
   last path segment is literally the reference, with clean repository and
   reference characters (no question mark, hash, percent, backslash, space, control or non-ASCII). *)
Theorem url_slot valid_registry plain r :
  wf_ref valid_registry r -> r_reference r <> [] ->
  url_clean (r_repository r) /\ seg_clean (r_reference r) /\
  after_last c_slash (url_manifest plain r) = r_reference r /\
  after_last c_slash (url_blob plain r) = r_reference r /\
  after_last c_slash (url_referrers plain r) = r_reference r.
Proof.
  intros (_ & Hp & Hf) Hne.
  assert (Hs : seg_clean (r_reference r)).
  { destruct Hf as [E|[T|D]]; [contradiction | now apply tag_seg_clean | now apply digest_seg_clean]. }
  split; [now apply repository_url_clean|]. split; [exact Hs|].
  pose proof (seg_clean_no_slash _ Hs) as Hn.
  unfold url_manifest, url_blob, url_referrers.
  repeat split.
  - replace (b "/manifests/") with (b "/manifests" ++ [c_slash]) by reflexivity.
    rewrite <- app_assoc, app_assoc. simpl ([c_slash] ++ _). now apply after_last_app.
  - replace (b "/blobs/") with (b "/blobs" ++ [c_slash]) by reflexivity.
    rewrite <- app_assoc, app_assoc. simpl ([c_slash] ++ _). now apply after_last_app.
  - replace (b "/referrers/") with (b "/referrers" ++ [c_slash]) by reflexivity.
    rewrite <- app_assoc, app_assoc. simpl ([c_slash] ++ _). now apply after_last_app.
Qed.

End Avail.

(* before the fix: a malformed foreign path in front of a digest was re-targeted to the base *)
Theorem repo_parse_prefix_retargets :
  exists avail vr breg brepo s r,
    ok_registry vr breg /\ valid_repository brepo = true /\
    repo_parse_prefix avail vr breg brepo s = Some r /\ contains c_slash s = true /\ parse avail vr s = None.
Proof.
  exists (fun _ => true), (fun _ => true), (b "docker.io"), (b "library/x"),
         (b "ghcr.io/Org/app@sha256:e3b0c44298fc1c149afbf4c8996fb92427ae41e4649b934ca495991b7852b855"),
         (mkRef (b "docker.io") (b "library/x") (b "sha256:e3b0c44298fc1c149afbf4c8996fb92427ae41e4649b934ca495991b7852b855")).
  unfold ok_registry. repeat split; vm_compute; reflexivity.
Qed.

(* ---------- tag grammar: the regex is exactly the documented rule ---------- *)

Definition word_char (c : N) : bool :=
  ((48 <=? c) && (c <=? 57)) || ((65 <=? c) && (c <=? 90)) || (c =? 95) || ((97 <=? c) && (c <=? 122)).
Definition tag_char (c : N) : bool := word_char c || (c =? 45) || (c =? 46).

Lemma in_ranges_word c : in_ranges [(48, 57); (65, 90); (95, 95); (97, 122)] c = word_char c.
Proof.
  unfold in_ranges, word_char. cbn [existsb fst snd]. rewrite orb_false_r.
  rewrite !orb_assoc. repeat f_equal.
  destruct (c =? 95) eqn:E.
  - apply N.eqb_eq in E. now subst.
  - apply N.eqb_neq in E. apply andb_false_iff.
    destruct (95 <=? c) eqn:A; auto. right. apply N.leb_le in A. apply N.leb_gt. lia.
Qed.

Lemma in_ranges_tagc c :
  in_ranges [(45, 46); (48, 57); (65, 90); (95, 95); (97, 122)] c = tag_char c.
Proof.
  change (in_ranges [(45, 46); (48, 57); (65, 90); (95, 95); (97, 122)] c)
    with (((45 <=? c) && (c <=? 46)) || in_ranges [(48, 57); (65, 90); (95, 95); (97, 122)] c).
  rewrite in_ranges_word. unfold tag_char.
  destruct (word_char c); simpl; [apply orb_true_r|]. rewrite orb_false_r.
  destruct (c =? 45) eqn:E1; [apply N.eqb_eq in E1; now subst|].
  destruct (c =? 46) eqn:E2; [apply N.eqb_eq in E2; now subst|].
  apply N.eqb_neq in E1, E2. apply andb_false_iff.
  destruct (45 <=? c) eqn:A; auto. right. apply N.leb_le in A. apply N.leb_gt. lia.
Qed.

(* The documented tag rule: one word character followed by at most 127
   word characters, '.' or '-'. *)
Theorem tag_grammar s :
  valid_tag s = true <->
  exists c t, s = c :: t /\ word_char c = true /\ (length t <= 127)%nat /\
              Forall (fun x => tag_char x = true) t.
Proof.
  unfold valid_tag. rewrite matches_spec. unfold tagRegexp, Rep.
  rewrite Lang_Cat. split.
  - intros (s1 & s2 & -> & H1 & H2).
    apply Lang_Cls in H1 as (c & -> & H1). rewrite in_ranges_word in H1.
    apply Lang_Cat in H2 as (u & v & -> & Hu & Hv). simpl in Hu. apply Lang_Eps in Hu. subst u.
    apply Lang_rep_upto_cls in Hv as [L A].
    exists c, v. repeat split; auto. eapply Forall_impl; [|exact A].
    intros x Hx. cbv beta in Hx. now rewrite in_ranges_tagc in Hx.
  - intros (c & t & -> & Hc & L & A).
    exists [c], t. repeat split.
    + apply Lang_Cls. exists c. split; auto. now rewrite in_ranges_word.
    + apply Lang_Cat. exists [], t. repeat split; [constructor|].
      apply Lang_rep_upto_cls. split; auto. eapply Forall_impl; [|exact A].
      intros x Hx. cbv beta. now rewrite in_ranges_tagc.
Qed.
