(* C16 -- over a whole history: the password (a Basic header) reaches registry h
   only after h sent a Basic challenge earlier in the history. *)
From Oras Require Import Base.Prelude Model.Scopes Model.Challenge Model.AuthClient Proofs.AuthClient.

Section WithParse.
Variable parse : str -> scheme * params.

Definition basic_inv (f : flavour) (past : list event) (c : cc) : Prop :=
  forall h, cache_get_scheme f c h = Some SchBasic -> basic_challenged parse h past.

Lemma bc_mono h l l' : basic_challenged parse h l -> basic_challenged parse h (l ++ l').
Proof.
  intros (a & fr & hdr & ps & Hin & P). exists a, fr, hdr, ps. split; auto. apply in_or_app. now left.
Qed.

Lemma cache_scheme_store f c h s k v h' :
  cache_get_scheme f (cache_store f c h s k v) h' =
  match f with
  | FNone => None
  | _ => if h' =? h then Some s else cc_get_scheme c h'
  end.
Proof.
  destruct f; simpl; auto.
  - apply cc_get_scheme_store.
  - rewrite !cc_get_scheme_store. destruct (h' =? h); auto.
Qed.

Lemma basic_inv_keep f past c evs : basic_inv f past c -> basic_inv f (past ++ evs) c.
Proof. intros H h E. apply bc_mono. auto. Qed.

Lemma basic_inv_store_bearer f past c evs h k v :
  basic_inv f past c -> basic_inv f (past ++ evs) (cache_store f c h SchBearer k v).
Proof.
  intros H h' E. rewrite cache_scheme_store in E. destruct f; [discriminate| |];
    (destruct (h' =? h); [discriminate | apply bc_mono, H; exact E]).
Qed.

Lemma basic_inv_store_basic f past c evs h k v :
  basic_inv f past c -> basic_challenged parse h (past ++ evs) ->
  basic_inv f (past ++ evs) (cache_store f c h SchBasic k v).
Proof.
  intros H B h' E. rewrite cache_scheme_store in E. destruct f; [discriminate| |];
    (destruct (h' =? h) eqn:Eh; [apply N.eqb_eq in Eh; subst; exact B | apply bc_mono, H; exact E]).
Qed.

Definition basic_send_ok (past pre : list event) (s : send) : Prop :=
  match s with
  | SReg h (ABasic _) _ => basic_challenged parse h (past ++ pre)
  | _ => True
  end.

Fixpoint basic_trace_from (past pre evs : list event) : Prop :=
  match evs with
  | [] => True
  | ev :: rest => basic_send_ok past pre (fst ev) /\ basic_trace_from past (pre ++ [ev]) rest
  end.

Lemma basic_trace_split past evs : forall pre0,
  basic_trace_from past pre0 evs ->
  forall pre ev post, evs = pre ++ ev :: post -> basic_send_ok past (pre0 ++ pre) (fst ev).
Proof.
  induction evs as [|e evs IH]; intros pre0 H pre ev post E.
  - destruct pre; discriminate.
  - destruct H as [H1 H2]. destruct pre as [|p pre]; simpl in E.
    + injection E as <- _. now rewrite app_nil_r.
    + injection E as <- E. specialize (IH _ H2 _ _ _ E). now rewrite <- app_assoc in IH.
Qed.

Lemma first_attempt_basic f c h (hinted : list str) :
  match snd (match cache_get_scheme f c h with
    | Some SchBasic =>
      (@nil N, match cache_get_token f c h SchBasic [] with Some t => ABasic t | None => NoAuth end)
    | Some SchBearer =>
      (join [c_space] hinted,
       match cache_get_token f c h SchBearer (join [c_space] hinted) with Some t => ABearer t | None => NoAuth end)
    | _ => ([], NoAuth)
    end) with
  | ABasic _ => cache_get_scheme f c h = Some SchBasic
  | _ => True
  end.
Proof.
  destruct (cache_get_scheme f c h) as [[| |]|]; simpl; auto.
  - destruct (cache_get_token f c h SchBasic []); simpl; auto.
  - destruct (cache_get_token f c h SchBearer _); simpl; auto.
Qed.

Ltac bc_first :=
  match goal with
  | |- basic_challenged _ _ (_ ++ _) =>
    eexists _, _, _, _; split; [apply in_or_app; right; left; reflexivity | eassumption]
  end.

Ltac hleaf :=
  simpl; repeat split; auto;
  try (apply basic_inv_keep; assumption);
  try (apply basic_inv_store_bearer; assumption);
  try (apply basic_inv_store_basic; [assumption | bc_first]);
  try bc_first;
  try (match goal with
       | H : match ?a with NoAuth => True | ABasic _ => _ | ABearer _ => True end |- _ =>
         destruct a; simpl; auto; apply bc_mono; assumption
       end).

Ltac hcrush :=
  repeat (match goal with
  | |- context [match ?s with [] => _ | _ :: _ => _ end] => is_var s; destruct s as [|[| ? | ? | | ? | | ] ?]
  | |- context [if ?b then _ else _] => destruct b eqn:?
  end; cbn beta iota); hleaf.

Lemma do_request_basic clean cf c rq script past :
  basic_inv (cf_flavour cf) past c ->
  let '(evs, c', r) := do_request clean parse cf c rq script in
  basic_inv (cf_flavour cf) (past ++ evs) c' /\ basic_trace_from past [] evs.
Proof.
  intro H. unfold do_request.
  pose proof (first_attempt_basic (cf_flavour cf) c (rq_host rq)
                (get_all_scopes clean (rq_hints_host rq) (rq_hints_global rq))) as H1.
  destruct (match cache_get_scheme (cf_flavour cf) c (rq_host rq) with
            | Some SchBasic => _ | Some SchBearer => _ | _ => _ end) as [attempted a1].
  simpl in H1.
  assert (H1' : match a1 with
                | NoAuth => True
                | ABasic _ => basic_challenged parse (rq_host rq) past
                | ABearer _ => True
                end) by (destruct a1; auto).
  clear H1.
  destruct script as [|[| hdr | id | | sid | | ] script1]; try (hleaf; fail).
  destruct (parse hdr) as [[| |] ps] eqn:Ech; try (hleaf; fail).
  - unfold fetch_basic, final_send. hcrush.
  - set (scopes := if is_empty (get_param s_scope ps) then _ else _).
    set (key := join [c_space] scopes).
    cbv zeta. unfold fetch_bearer_plan, final_send.
    destruct (if str_eqb key attempted then None else cache_get_token _ c _ SchBearer key) as [tok2|];
      hcrush.
Qed.

Lemma run_history_basic clean cf : forall hist c past,
  basic_inv (cf_flavour cf) past c ->
  forall pre h t fr ans post,
    concat (map fst (fst (run_history clean parse cf c hist))) = pre ++ (SReg h (ABasic t) fr, ans) :: post ->
    basic_challenged parse h (past ++ pre).
Proof.
  induction hist as [|[rq script] hist IH]; intros c past Hinv pre h t fr ans post E; simpl in E.
  - destruct pre; discriminate.
  - pose proof (do_request_basic clean cf c rq script past Hinv) as D.
    destruct (do_request clean parse cf c rq script) as [[evs c'] r]. destruct D as [Hinv' Htr].
    specialize (IH c' (past ++ evs) Hinv').
    destruct (run_history clean parse cf c' hist) as [rest c'']. simpl in *.
    symmetry in E. apply app_eq_app in E as (l & [[E1 E2]|[E1 E2]]).
    + (* the send is in a later request *)
      subst pre. rewrite app_assoc. eapply IH. exact E2.
    + (* the send is in this request, or the first of the later ones *)
      destruct l as [|x l].
      * simpl in E2. rewrite app_nil_r in E1. subst evs.
        specialize (IH [] h t fr ans post (eq_sym E2)). now rewrite app_nil_r in IH.
      * simpl in E2. injection E2 as <- E2.
        exact (basic_trace_split past evs [] Htr pre _ l E1).
Qed.

Lemma basic_inv_nil f past : basic_inv f past [].
Proof. intros h E. destruct f; discriminate. Qed.

Lemma history_basic_only_after_challenge clean cf hist pre h t fr ans post :
  concat (map fst (fst (run_history clean parse cf [] hist))) = pre ++ (SReg h (ABasic t) fr, ans) :: post ->
  basic_challenged parse h pre.
Proof.
  intro E. exact (run_history_basic clean cf hist [] [] (basic_inv_nil _ _) pre h t fr ans post E).
Qed.

End WithParse.
