(* The created-annotation recogniser of Model/Pack.v against RFC 3339 section 5.6. *)
From Oras Require Import Base.Prelude Base.Regex Base.StrCheck Generated.GC19 Model.Pack Proofs.Pack.

Definition dig (c : N) : Prop := is_digit c = true.
Definition two (a c : N) : N := dval a * 10 + dval c.
Definition four (a c d e : N) : N := ((dval a * 10 + dval c) * 10 + dval d) * 10 + dval e.

(* date-time = full-date ("T"/"t") partial-time time-offset, with the field ranges of 5.6/5.7.
   [tseps]: admissible separators, [zs]: admissible spellings of "Z", [maxsec]: 60 admits the
   leap second. *)
Definition frac_ok (frac : str) : Prop :=
  frac = [] \/ exists f fs, frac = 46 :: f :: fs /\ Forall dig (f :: fs).

Definition zone_ok (zs : list N) (zone : str) : Prop :=
  (exists z, zone = [z] /\ In z zs) \/
  exists sg a1 a2 c1 c2, zone = [sg; a1; a2; 58; c1; c2] /\ (sg = 43 \/ sg = 45) /\
    Forall dig [a1; a2; c1; c2] /\ two a1 a2 <= 23 /\ two c1 c2 <= 59.

Definition DateTime (tseps zs : list N) (maxsec : N) (s : str) : Prop :=
  exists y1 y2 y3 y4 o1 o2 d1 d2 tsep h1 h2 m1 m2 s1 s2 frac zone,
    s = [y1; y2; y3; y4; 45; o1; o2; 45; d1; d2; tsep; h1; h2; 58; m1; m2; 58; s1; s2] ++ frac ++ zone /\
    Forall dig [y1; y2; y3; y4; o1; o2; d1; d2; h1; h2; m1; m2; s1; s2] /\
    In tsep tseps /\
    1 <= two o1 o2 <= 12 /\
    1 <= two d1 d2 <= days_in (two o1 o2) (four y1 y2 y3 y4) /\
    two h1 h2 <= 23 /\ two m1 m2 <= 59 /\ two s1 s2 <= maxsec /\
    frac_ok frac /\ zone_ok zs zone.

(* RFC 3339 section 5.6 *)
Definition RFC3339 : str -> Prop := DateTime [84; 116] [90; 122] 60.
(* its subset with upper-case "T" and "Z" and without leap second (what Go reads) *)
Definition RFC3339_go : str -> Prop := DateTime [84] [90] 59.

Lemma DateTime_mono t1 z1 m1 t2 z2 m2 s :
  incl t1 t2 -> incl z1 z2 -> m1 <= m2 -> DateTime t1 z1 m1 s -> DateTime t2 z2 m2 s.
Proof.
  intros It Iz Im (y1 & y2 & y3 & y4 & o1 & o2 & d1 & d2 & tsep & h1 & h2 & mi1 & mi2 & s1 & s2 & frac & zone &
                   E & D & T & Mo & Da & Ho & Mi & Se & Fr & Zo).
  exists y1, y2, y3, y4, o1, o2, d1, d2, tsep, h1, h2, mi1, mi2, s1, s2, frac, zone.
  repeat (split; [assumption || (apply It; assumption) || lia|]).
  destruct Zo as [(z & -> & I) | Z]; [left; exists z; split; auto | right; exact Z].
Qed.

Lemma go_is_rfc s : RFC3339_go s -> RFC3339 s.
Proof.
  apply DateTime_mono; try lia; intros x [<-|[]]; simpl; auto.
Qed.

(* ---------- inversion of the scanning primitives ---------- *)

Lemma num4_inv s v r :
  num4 s = Some (v, r) ->
  exists a c d e, s = a :: c :: d :: e :: r /\ dig a /\ dig c /\ dig d /\ dig e /\ v = four a c d e.
Proof.
  unfold num4. destruct s as [|a [|c [|d [|e s]]]]; try discriminate.
  destruct (is_digit a) eqn:A; [|discriminate]. destruct (is_digit c) eqn:C; [|discriminate].
  destruct (is_digit d) eqn:D; [|discriminate]. destruct (is_digit e) eqn:E; [|discriminate].
  simpl. intros [= <- <-]. exists a, c, d, e. auto 10.
Qed.

Lemma num2_inv s v r :
  num2 s = Some (v, r) -> exists a c, s = a :: c :: r /\ dig a /\ dig c /\ v = two a c.
Proof.
  unfold num2. destruct s as [|a [|c s]]; try discriminate.
  destruct (is_digit a) eqn:A; [|discriminate]. destruct (is_digit c) eqn:C; [|discriminate].
  simpl. intros [= <- <-]. exists a, c. auto.
Qed.

Lemma lit_inv c s r : lit c s = Some r -> s = c :: r.
Proof.
  unfold lit. destruct s as [|x s]; [discriminate|]. destruct (x =? c) eqn:E; [|discriminate].
  apply N.eqb_eq in E. now intros [= <-]; subst.
Qed.

Lemma skip_digits_split s : exists ds, s = ds ++ skip_digits s /\ Forall dig ds.
Proof.
  induction s as [|c s (ds & E & F)]; simpl.
  - exists []. split; auto.
  - destruct (is_digit c) eqn:C.
    + exists (c :: ds). split; [simpl; now f_equal | constructor; auto].
    + exists []. split; auto.
Qed.

Lemma skip_digits_app ds z : Forall dig ds -> skip_digits z = z -> skip_digits (ds ++ z) = z.
Proof.
  induction 1 as [|c ds C F IH]; simpl; auto. intro Z. unfold dig in C. now rewrite C, IH.
Qed.

Lemma tz_inv z : tz_ok true z = true -> zone_ok [90] z.
Proof.
  unfold tz_ok. destruct z as [|sg r]; [discriminate|].
  destruct (sg =? 90) eqn:E.
  - apply N.eqb_eq in E. subst. destruct r; [|discriminate]. intros _. left. exists 90. simpl; auto.
  - destruct r as [|h1 [|h2 [|col [|m1 [|m2 r]]]]]; try discriminate.
    intro T. repeat (apply andb_true_iff in T as [T ?]).
    destruct r; [|discriminate]. right.
    match goal with Hc : (col =? 58) = true |- _ => apply N.eqb_eq in Hc; subst col end.
    exists sg, h1, h2, m1, m2. split; auto.
    repeat match goal with Hx : (_ <=? _) = true |- _ => apply N.leb_le in Hx end.
    match goal with Hs : (_ || _) = true |- _ => apply orb_true_iff in Hs as [Hs|Hs]; apply N.eqb_eq in Hs end;
      (split; [auto|]); (split; [repeat constructor; assumption|]); unfold two; split; assumption.
Qed.

Lemma tail_inv r :
  tz_ok true (skip_frac true r) = true -> exists frac zone, r = frac ++ zone /\ frac_ok frac /\ zone_ok [90] zone.
Proof.
  unfold skip_frac. destruct r as [|p [|d r]].
  - intro T. exists [], []. split; auto. split; [left; auto | now apply tz_inv].
  - intro T. exists [], [p]. split; auto. split; [left; auto | now apply tz_inv].
  - cbn [negb andb]. rewrite orb_false_r.
    destruct (p =? 46) eqn:P; cbn [andb].
    + destruct (is_digit d) eqn:D.
      * intro T. apply N.eqb_eq in P. subst p.
        destruct (skip_digits_split r) as (ds & E & F).
        exists (46 :: d :: ds), (skip_digits r). split; [simpl; now rewrite <- E|].
        split; [right; exists d, ds; split; auto; constructor; auto | now apply tz_inv].
      * intro T. exists [], (p :: d :: r). split; auto. split; [left; auto | now apply tz_inv].
    + intro T. exists [], (p :: d :: r). split; auto. split; [left; auto | now apply tz_inv].
Qed.

(* ---------- the recogniser accepts exactly RFC3339_go ---------- *)

Theorem strict_sound s : rfc3339_gen true s = true -> RFC3339_go s.
Proof.
  unfold rfc3339_gen.
  destruct (num4 s) as [[year r1]|] eqn:E1; [|discriminate].
  apply num4_inv in E1 as (y1 & y2 & y3 & y4 & -> & Y1 & Y2 & Y3 & Y4 & ->).
  destruct (lit 45 r1) as [r2|] eqn:E2; [|discriminate]. apply lit_inv in E2 as ->.
  destruct (num2 r2) as [[month r3]|] eqn:E3; [|discriminate].
  apply num2_inv in E3 as (o1 & o2 & -> & O1 & O2 & ->).
  destruct (lit 45 r3) as [r4|] eqn:E4; [|discriminate]. apply lit_inv in E4 as ->.
  destruct (num2 r4) as [[day r5]|] eqn:E5; [|discriminate].
  apply num2_inv in E5 as (d1 & d2 & -> & D1 & D2 & ->).
  destruct (lit 84 r5) as [r6|] eqn:E6; [|discriminate]. apply lit_inv in E6 as ->.
  destruct (num2 r6) as [[hour r7]|] eqn:E7; [|discriminate].
  apply num2_inv in E7 as (h1 & h2 & -> & H1 & H2 & ->).
  destruct (lit 58 r7) as [r8|] eqn:E8; [|discriminate]. apply lit_inv in E8 as ->.
  destruct (num2 r8) as [[minute r9]|] eqn:E9; [|discriminate].
  apply num2_inv in E9 as (m1 & m2 & -> & M1 & M2 & ->).
  destruct (lit 58 r9) as [r10|] eqn:E10; [|discriminate]. apply lit_inv in E10 as ->.
  destruct (num2 r10) as [[sec r11]|] eqn:E11; [|discriminate].
  apply num2_inv in E11 as (s1 & s2 & -> & S1 & S2 & ->).
  intro T. repeat (apply andb_true_iff in T as [T ?]).
  match goal with Ht : tz_ok true _ = true |- _ => apply tail_inv in Ht as (frac & zone & -> & Fr & Zo) end.
  repeat match goal with
         | Hx : (_ <=? _) = true |- _ => apply N.leb_le in Hx
         | Hx : (_ <? _) = true |- _ => apply N.ltb_lt in Hx
         end.
  exists y1, y2, y3, y4, o1, o2, d1, d2, 84, h1, h2, m1, m2, s1, s2, frac, zone.
  split; [reflexivity|]. split; [repeat constructor; assumption|]. split; [simpl; auto|].
  repeat split; try assumption; try lia.
Qed.

Lemma tail_ok frac zone : frac_ok frac -> zone_ok [90] zone -> tz_ok true (skip_frac true (frac ++ zone)) = true.
Proof.
  intros Fr Zo.
  assert (TZ : tz_ok true zone = true /\ skip_digits zone = zone /\
               forall x y r, zone = x :: y :: r -> (x =? 46) = false).
  { destruct Zo as [(z & -> & [<-|[]]) | (sg & a1 & a2 & c1 & c2 & -> & Sg & Dg & Hh & Mm)].
    - repeat split; auto. intros x y r [=].
    - inversion Dg as [|? ? A1 Dg1]; subst. inversion Dg1 as [|? ? A2 Dg2]; subst.
      inversion Dg2 as [|? ? C1 Dg3]; subst. inversion Dg3 as [|? ? C2 _]; subst.
      unfold dig in *. unfold two in *. apply N.leb_le in Hh, Mm.
      destruct Sg as [-> | ->]; (split; [|split]).
      + cbn -[N.leb N.mul N.add dval]. now rewrite A1, A2, C1, C2, Hh, Mm.
      + reflexivity.
      + now intros x y r [= <- _].
      + cbn -[N.leb N.mul N.add dval]. now rewrite A1, A2, C1, C2, Hh, Mm.
      + reflexivity.
      + now intros x y r [= <- _]. }
  destruct TZ as (T & Sk & Hd).
  destruct Fr as [-> | (f & fs & -> & F)].
  - simpl. unfold skip_frac. destruct zone as [|x [|y r]]; auto.
    cbn [negb andb]. rewrite orb_false_r, (Hd x y r eq_refl). exact T.
  - inversion F as [|? ? F1 F2]; subst. unfold dig in F1.
    cbn [app skip_frac negb andb]. rewrite orb_false_r. cbn [N.eqb Pos.eqb andb].
    rewrite F1. rewrite skip_digits_app; auto.
Qed.

Theorem strict_complete s : RFC3339_go s -> rfc3339_gen true s = true.
Proof.
  intros (y1 & y2 & y3 & y4 & o1 & o2 & d1 & d2 & tsep & h1 & h2 & m1 & m2 & s1 & s2 & frac & zone &
          -> & D & T & Mo & Da & Ho & Mi & Se & Fr & Zo).
  destruct T as [<-|[]].
  repeat match goal with Hf : Forall dig (_ :: _) |- _ => inversion Hf; subst; clear Hf end.
  unfold dig in *.
  unfold rfc3339_gen, num4, num2, lit. cbn [app].
  repeat (cbn [andb N.eqb Pos.eqb];
          match goal with Hd : is_digit ?x = true |- context [is_digit ?x] => rewrite Hd end).
  cbn [andb N.eqb Pos.eqb].
  fold (two o1 o2) (two d1 d2) (two h1 h2) (two m1 m2) (two s1 s2) (four y1 y2 y3 y4).
  rewrite (tail_ok frac zone Fr Zo), andb_true_r.
  repeat (apply andb_true_iff; split); try (apply N.leb_le; lia); apply N.ltb_lt; lia.
Qed.

(* ---------- validateRFC3339 = time.Parse + the translated strict checks ---------- *)

(* The code is: time.Parse(time.RFC3339, v), then reject a ':' at offset 12 (one-digit hour), a ','
   at offset 19 (comma before the fraction) and, when the last byte is not 'Z', an offset hour
   >= 24 or an offset minute >= 60.  The lemma pins the translated source (gosrc2v kind
   "strictchecks") to that reading: a changed strict check changes the generated term and breaks
   it; the lemmas below prove that this reading is exactly [rfc3339_gen true]. *)
Definition expected_strict_checks : list (scond * list scond) :=
  [ (CByte (FromStart 12) OpEq 58, [CTrue]);
    (CByte (FromStart 19) OpEq 44, [CTrue]);
    (CByte (FromEnd 1) OpNe 90, [CNum2 (FromEnd 5) OpGe 24; CNum2 (FromEnd 2) OpGe 60]) ].

Lemma strict_checks_as_modelled :
  validateRFC3339_checks = expected_strict_checks /\ validateRFC3339_checks_layout = b "time.RFC3339".
Proof. split; reflexivity. Qed.

Lemma dig_range c : dig c -> 48 <= c <= 57.
Proof.
  unfold dig, is_digit. intro D. apply andb_true_iff in D as [A B]. apply N.leb_le in A, B. lia.
Qed.

Lemma nth_from_end (pre z : str) k :
  (k <= length z)%nat -> nth (length (pre ++ z) - k) (pre ++ z) 0 = nth (length z - k) z 0.
Proof.
  intro L. rewrite app_length, app_nth2 by lia. f_equal. lia.
Qed.

(* lenient counterpart of tail_ok: time.Parse also takes what the strict grammar takes *)
Lemma tail_ok_l frac zone : frac_ok frac -> zone_ok [90] zone -> tz_ok false (skip_frac false (frac ++ zone)) = true.
Proof.
  intros Fr Zo.
  assert (TZ : tz_ok false zone = true /\ skip_digits zone = zone /\
               forall x y r, zone = x :: y :: r -> (x =? 46) = false /\ (x =? 44) = false).
  { destruct Zo as [(z & -> & [<-|[]]) | (sg & a1 & a2 & c1 & c2 & -> & Sg & Dg & Hh & Mm)].
    - split; [reflexivity|]. split; [reflexivity|]. intros x y r E; discriminate E.
    - inversion Dg as [|? ? A1 Dg1]; subst. inversion Dg1 as [|? ? A2 Dg2]; subst.
      inversion Dg2 as [|? ? C1 Dg3]; subst. inversion Dg3 as [|? ? C2 _]; subst.
      unfold dig in *. unfold two in *.
      assert (Hh' : (dval a1 * 10 + dval a2 <=? 24) = true) by (apply N.leb_le; lia).
      assert (Mm' : (dval c1 * 10 + dval c2 <=? 60) = true) by (apply N.leb_le; lia).
      destruct Sg as [-> | ->]; (split; [|split]).
      + cbn -[N.leb N.mul N.add dval]. now rewrite A1, A2, C1, C2, Hh', Mm'.
      + reflexivity.
      + intros x y r [= <- _]. split; reflexivity.
      + cbn -[N.leb N.mul N.add dval]. now rewrite A1, A2, C1, C2, Hh', Mm'.
      + reflexivity.
      + intros x y r [= <- _]. split; reflexivity. }
  destruct TZ as (T & Sk & Hd).
  destruct Fr as [-> | (f & fs & -> & F)].
  - simpl. unfold skip_frac. destruct zone as [|x [|y r]]; auto.
    destruct (Hd x y r eq_refl) as [H46 H44]. cbn [negb andb]. now rewrite H46, H44.
  - inversion F as [|? ? F1 F2]; subst. unfold dig in F1.
    cbn [app skip_frac negb andb]. cbn [N.eqb Pos.eqb orb andb].
    rewrite F1. rewrite skip_digits_app; auto.
Qed.

Lemma lenient_of_go s : RFC3339_go s -> rfc3339_gen false s = true.
Proof.
  intros (y1 & y2 & y3 & y4 & o1 & o2 & d1 & d2 & tsep & h1 & h2 & m1 & m2 & s1 & s2 & frac & zone &
          -> & D & T & Mo & Da & Ho & Mi & Se & Fr & Zo).
  destruct T as [<-|[]].
  repeat match goal with Hf : Forall dig (_ :: _) |- _ => inversion Hf; subst; clear Hf end.
  unfold dig in *.
  unfold rfc3339_gen, num4, num2, num12, lit. cbn [app].
  repeat (cbn [andb N.eqb Pos.eqb];
          match goal with Hd : is_digit ?x = true |- context [is_digit ?x] => rewrite Hd end).
  cbn [andb N.eqb Pos.eqb].
  fold (two o1 o2) (two d1 d2) (two h1 h2) (two m1 m2) (two s1 s2) (four y1 y2 y3 y4).
  rewrite (tail_ok_l frac zone Fr Zo), andb_true_r.
  repeat (apply andb_true_iff; split); try (apply N.leb_le; lia); apply N.ltb_lt; lia.
Qed.

(* a timestamp of the strict grammar passes the three explicit checks *)
Lemma no_reject_of_go s : RFC3339_go s -> switch_rejects s expected_strict_checks = false.
Proof.
  intros (y1 & y2 & y3 & y4 & o1 & o2 & d1 & d2 & tsep & h1 & h2 & m1 & m2 & s1 & s2 & frac & zone &
          -> & D & T & Mo & Da & Ho & Mi & Se & Fr & Zo).
  repeat match goal with Hf : Forall dig (_ :: _) |- _ => inversion Hf; subst; clear Hf end.
  repeat match goal with Hd : dig _ |- _ => apply dig_range in Hd end.
  set (P := [y1; y2; y3; y4; 45; o1; o2; 45; d1; d2; tsep; h1; h2; 58; m1; m2; 58; s1; s2]).
  unfold expected_strict_checks, switch_rejects.
  (* offset 12 is the second hour digit *)
  assert (E1 : scond_eval (P ++ frac ++ zone) (CByte (FromStart 12) OpEq 58) = false).
  { simpl. apply N.eqb_neq. lia. }
  rewrite E1.
  (* offset 19 is '.', 'Z', '+' or '-' *)
  assert (E2 : scond_eval (P ++ frac ++ zone) (CByte (FromStart 19) OpEq 44) = false).
  { cbn [scond_eval byte_at cmp_eval]. change (nth 19 (P ++ frac ++ zone) 0) with (nth 0 (frac ++ zone) 0).
    destruct Fr as [-> | (f & fs & -> & _)]; [|reflexivity].
    destruct Zo as [(z & -> & [<-|[]]) | (sg & a1 & a2 & c1 & c2 & -> & [-> | ->] & _)]; reflexivity. }
  rewrite E2.
  rewrite app_assoc.
  destruct Zo as [(z & -> & [<-|[]]) | (sg & a1 & a2 & c1 & c2 & -> & Sg & Dg & Hh & Mm)].
  - assert (E3 : scond_eval ((P ++ frac) ++ [90]) (CByte (FromEnd 1) OpNe 90) = false).
    { cbn [scond_eval byte_at cmp_eval]. rewrite nth_from_end by (simpl; lia). reflexivity. }
    now rewrite E3.
  - repeat match goal with Hf : Forall dig (_ :: _) |- _ => inversion Hf; subst; clear Hf end.
    repeat match goal with Hd : dig _ |- _ => apply dig_range in Hd end.
    unfold two, dval in *.
    destruct (scond_eval ((P ++ frac) ++ [sg; a1; a2; 58; c1; c2]) (CByte (FromEnd 1) OpNe 90)); auto.
    cbn [existsb scond_eval cmp_eval]. unfold num2_at, next_idx, byte_at. cbn [Nat.sub].
    rewrite !nth_from_end by (simpl; lia). cbn [length Nat.sub nth].
    rewrite orb_false_r. apply orb_false_iff. split; apply N.leb_gt; lia.
Qed.

(* ---------- inversion of the lenient scan ---------- *)

Lemma num12_inv s v r :
  num12 s = Some (v, r) ->
  (exists a c, s = a :: c :: r /\ dig a /\ dig c /\ v = two a c) \/
  (exists a, s = a :: r /\ dig a /\ v = dval a /\ match r with c :: _ => is_digit c = false | [] => True end).
Proof.
  unfold num12. destruct s as [|a s]; [discriminate|].
  destruct (is_digit a) eqn:A; [|discriminate].
  destruct s as [|c s].
  - intros [= <- <-]. right. exists a. auto.
  - destruct (is_digit c) eqn:C; intros [= <- <-].
    + left. exists a, c. auto.
    + right. exists a. auto.
Qed.

Definition zone_l (zone : str) : Prop :=
  zone = [90] \/
  exists sg a1 a2 c1 c2, zone = [sg; a1; a2; 58; c1; c2] /\ (sg = 43 \/ sg = 45) /\
    Forall dig [a1; a2; c1; c2].

Lemma tz_inv_l z : tz_ok false z = true -> zone_l z.
Proof.
  unfold tz_ok. destruct z as [|sg r]; [discriminate|].
  destruct (sg =? 90) eqn:E.
  - apply N.eqb_eq in E. subst. destruct r; [|discriminate]. intros _. now left.
  - destruct r as [|h1 [|h2 [|col [|m1 [|m2 r]]]]]; try discriminate.
    intro T. repeat (apply andb_true_iff in T as [T ?]).
    destruct r; [|discriminate]. right.
    match goal with Hc : (col =? 58) = true |- _ => apply N.eqb_eq in Hc; subst col end.
    exists sg, h1, h2, m1, m2. split; auto.
    match goal with Hs : (_ || _) = true |- _ => apply orb_true_iff in Hs as [Hs|Hs]; apply N.eqb_eq in Hs end;
      (split; [auto|]); repeat constructor; assumption.
Qed.

(* after the seconds: an optional fraction introduced by '.' or ',' and a zone *)
Lemma tail_inv_l r :
  tz_ok false (skip_frac false r) = true ->
  exists frac zone, r = frac ++ zone /\ zone_l zone /\
    (frac = [] \/ exists sep f fs, frac = sep :: f :: fs /\ (sep = 46 \/ sep = 44) /\ Forall dig (f :: fs)).
Proof.
  unfold skip_frac. destruct r as [|p [|d r]].
  - intro T. exists [], []. split; auto. split; [now apply tz_inv_l | left; auto].
  - intro T. exists [], [p]. split; auto. split; [now apply tz_inv_l | left; auto].
  - cbn [negb andb].
    destruct (((p =? 46) || (p =? 44)) && is_digit d) eqn:G.
    + apply andb_true_iff in G as [Sep D]. intro T.
      destruct (skip_digits_split r) as (ds & E & F).
      exists (p :: d :: ds), (skip_digits r). split; [simpl; now rewrite <- E|].
      split; [now apply tz_inv_l|]. right. exists p, d, ds. split; auto. split; [|constructor; auto].
      apply orb_true_iff in Sep as [S|S]; apply N.eqb_eq in S; auto.
    + intro T. exists [], (p :: d :: r). split; auto. split; [now apply tz_inv_l | left; auto].
Qed.

(* what time.Parse takes and the explicit checks let through is in the strict grammar *)
Lemma lenient_unrejected_go s :
  rfc3339_gen false s = true -> switch_rejects s expected_strict_checks = false -> RFC3339_go s.
Proof.
  unfold rfc3339_gen.
  destruct (num4 s) as [[year r1]|] eqn:E1; [|discriminate].
  apply num4_inv in E1 as (y1 & y2 & y3 & y4 & -> & Y1 & Y2 & Y3 & Y4 & ->).
  destruct (lit 45 r1) as [r2|] eqn:E2; [|discriminate]. apply lit_inv in E2 as ->.
  destruct (num2 r2) as [[month r3]|] eqn:E3; [|discriminate].
  apply num2_inv in E3 as (o1 & o2 & -> & O1 & O2 & ->).
  destruct (lit 45 r3) as [r4|] eqn:E4; [|discriminate]. apply lit_inv in E4 as ->.
  destruct (num2 r4) as [[day r5]|] eqn:E5; [|discriminate].
  apply num2_inv in E5 as (d1 & d2 & -> & D1 & D2 & ->).
  destruct (lit 84 r5) as [r6|] eqn:E6; [|discriminate]. apply lit_inv in E6 as ->.
  destruct (num12 r6) as [[hour r7]|] eqn:E7; [|discriminate].
  apply num12_inv in E7 as [(h1 & h2 & -> & H1 & H2 & ->) | (h & -> & H1 & -> & _)].
  2:{ (* one-digit hour: the ':' sits at offset 12 and the first check rejects *)
      destruct (lit 58 r7) as [r8|] eqn:E8; [|discriminate]. apply lit_inv in E8 as ->.
      intros _ R. exfalso. unfold expected_strict_checks, switch_rejects in R. simpl in R. discriminate. }
  destruct (lit 58 r7) as [r8|] eqn:E8; [|discriminate]. apply lit_inv in E8 as ->.
  destruct (num2 r8) as [[minute r9]|] eqn:E9; [|discriminate].
  apply num2_inv in E9 as (m1 & m2 & -> & M1 & M2 & ->).
  destruct (lit 58 r9) as [r10|] eqn:E10; [|discriminate]. apply lit_inv in E10 as ->.
  destruct (num2 r10) as [[sec r11]|] eqn:E11; [|discriminate].
  apply num2_inv in E11 as (s1 & s2 & -> & S1 & S2 & ->).
  intros T R. repeat (apply andb_true_iff in T as [T ?]).
  match goal with Ht : tz_ok false _ = true |- _ => apply tail_inv_l in Ht as (frac & zone & -> & Zo & Fr) end.
  repeat match goal with
         | Hx : (_ <=? _) = true |- _ => apply N.leb_le in Hx
         | Hx : (_ <? _) = true |- _ => apply N.ltb_lt in Hx
         end.
  set (P := [y1; y2; y3; y4; 45; o1; o2; 45; d1; d2; 84; h1; h2; 58; m1; m2; 58; s1; s2]).
  change (switch_rejects (P ++ frac ++ zone) expected_strict_checks = false) in R.
  unfold expected_strict_checks, switch_rejects in R.
  assert (E1 : scond_eval (P ++ frac ++ zone) (CByte (FromStart 12) OpEq 58) = false).
  { simpl. apply N.eqb_neq. apply dig_range in H2. lia. }
  rewrite E1 in R.
  (* the fraction separator is not a comma *)
  assert (Fr' : frac_ok frac).
  { destruct Fr as [-> | (sep & f & fs & -> & [-> | ->] & F)]; [left; auto | right; eauto |].
    exfalso. cbn [scond_eval byte_at cmp_eval] in R.
    change (nth 19 (P ++ (44 :: f :: fs) ++ zone) 0) with 44 in R. simpl in R. discriminate. }
  assert (E2 : scond_eval (P ++ frac ++ zone) (CByte (FromStart 19) OpEq 44) = false).
  { cbn [scond_eval byte_at cmp_eval]. change (nth 19 (P ++ frac ++ zone) 0) with (nth 0 (frac ++ zone) 0).
    destruct Fr' as [-> | (f & fs & -> & _)]; [|reflexivity].
    destruct Zo as [-> | (sg & a1 & a2 & c1 & c2 & -> & [-> | ->] & _)]; reflexivity. }
  rewrite E2 in R.
  assert (Zo' : zone_ok [90] zone).
  { destruct Zo as [-> | (sg & a1 & a2 & c1 & c2 & -> & Sg & Dg)]; [left; exists 90; simpl; auto|].
    right. exists sg, a1, a2, c1, c2. split; auto. split; auto. split; auto.
    rewrite app_assoc in R.
    inversion Dg as [|? ? A1 Dg1]; subst. inversion Dg1 as [|? ? A2 Dg2]; subst.
    inversion Dg2 as [|? ? C1 Dg3]; subst. inversion Dg3 as [|? ? C2 _]; subst.
    apply dig_range in A1, A2, C1, C2.
    assert (G : scond_eval ((P ++ frac) ++ [sg; a1; a2; 58; c1; c2]) (CByte (FromEnd 1) OpNe 90) = true).
    { cbn [scond_eval byte_at cmp_eval]. rewrite nth_from_end by (simpl; lia). cbn [length Nat.sub nth].
      apply negb_true_iff. apply N.eqb_neq. lia. }
    rewrite G in R.
    cbn [existsb scond_eval cmp_eval] in R. unfold num2_at, next_idx, byte_at in R. cbn [Nat.sub] in R.
    rewrite !nth_from_end in R by (simpl; lia). cbn [length Nat.sub nth] in R.
    rewrite orb_false_r in R. apply orb_false_iff in R as [R1 R2]. apply N.leb_gt in R1, R2.
    unfold two, dval. lia. }
  exists y1, y2, y3, y4, o1, o2, d1, d2, 84, h1, h2, m1, m2, s1, s2, frac, zone.
  split; [reflexivity|]. split; [repeat constructor; assumption|]. split; [simpl; auto|].
  repeat split; try assumption; try lia.
Qed.

(* Go would panic on an index out of range where [nth] answers 0: on every string time.Parse
   accepts, every index the three checks evaluate (in Go's evaluation order) is in range. *)
Lemma strict_checks_in_range s :
  rfc3339_gen false s = true -> switch_safe s expected_strict_checks = true.
Proof.
  unfold rfc3339_gen.
  destruct (num4 s) as [[year r1]|] eqn:E1; [|discriminate].
  apply num4_inv in E1 as (y1 & y2 & y3 & y4 & -> & Y1 & Y2 & Y3 & Y4 & ->).
  destruct (lit 45 r1) as [r2|] eqn:E2; [|discriminate]. apply lit_inv in E2 as ->.
  destruct (num2 r2) as [[month r3]|] eqn:E3; [|discriminate].
  apply num2_inv in E3 as (o1 & o2 & -> & O1 & O2 & ->).
  destruct (lit 45 r3) as [r4|] eqn:E4; [|discriminate]. apply lit_inv in E4 as ->.
  destruct (num2 r4) as [[day r5]|] eqn:E5; [|discriminate].
  apply num2_inv in E5 as (d1 & d2 & -> & D1 & D2 & ->).
  destruct (lit 84 r5) as [r6|] eqn:E6; [|discriminate]. apply lit_inv in E6 as ->.
  destruct (num12 r6) as [[hour r7]|] eqn:E7; [|discriminate].
  apply num12_inv in E7 as [(h1 & h2 & -> & H1 & H2 & ->) | (h & -> & H1 & -> & _)].
  2:{ destruct (lit 58 r7) as [r8|] eqn:E8; [|discriminate]. apply lit_inv in E8 as ->.
      intros _. reflexivity. }
  destruct (lit 58 r7) as [r8|] eqn:E8; [|discriminate]. apply lit_inv in E8 as ->.
  destruct (num2 r8) as [[minute r9]|] eqn:E9; [|discriminate].
  apply num2_inv in E9 as (m1 & m2 & -> & M1 & M2 & ->).
  destruct (lit 58 r9) as [r10|] eqn:E10; [|discriminate]. apply lit_inv in E10 as ->.
  destruct (num2 r10) as [[sec r11]|] eqn:E11; [|discriminate].
  apply num2_inv in E11 as (s1 & s2 & -> & S1 & S2 & ->).
  intros T. repeat (apply andb_true_iff in T as [T ?]).
  match goal with Ht : tz_ok false _ = true |- _ => apply tail_inv_l in Ht as (frac & zone & -> & Zo & Fr) end.
  set (P := [y1; y2; y3; y4; 45; o1; o2; 45; d1; d2; 84; h1; h2; 58; m1; m2; 58; s1; s2]).
  change (switch_safe (P ++ frac ++ zone) expected_strict_checks = true).
  assert (LZ : (1 <= length zone)%nat /\ (zone = [90] \/ length zone = 6%nat)).
  { destruct Zo as [-> | (sg & a1 & a2 & c1 & c2 & -> & _)]; simpl; split; auto; lia. }
  destruct LZ as [LZ1 LZ2].
  unfold expected_strict_checks. cbn [switch_safe scond_safe body_safe next_idx Nat.sub].
  assert (I12 : idx_ok (P ++ frac ++ zone) (FromStart 12) = true) by reflexivity.
  assert (I19 : idx_ok (P ++ frac ++ zone) (FromStart 19) = true).
  { unfold idx_ok. apply Nat.ltb_lt. rewrite !app_length. simpl. lia. }
  assert (IE : forall k, (1 <= k)%nat -> (k <= length zone)%nat -> idx_ok (P ++ frac ++ zone) (FromEnd k) = true).
  { intros k K1 K2. unfold idx_ok. apply andb_true_iff. split; apply Nat.leb_le; auto.
    rewrite !app_length. lia. }
  rewrite I12, I19. cbn [andb].
  assert (E1 : scond_eval (P ++ frac ++ zone) (CByte (FromStart 12) OpEq 58) = false).
  { simpl. apply N.eqb_neq. apply dig_range in H2. lia. }
  rewrite E1.
  destruct (scond_eval (P ++ frac ++ zone) (CByte (FromStart 19) OpEq 44)); [reflexivity|].
  rewrite (IE 1%nat) by lia. cbn [andb].
  destruct LZ2 as [-> | L6].
  - assert (E3 : scond_eval (P ++ frac ++ [90]) (CByte (FromEnd 1) OpNe 90) = false).
    { rewrite app_assoc. cbn [scond_eval byte_at cmp_eval]. rewrite nth_from_end by (simpl; lia). reflexivity. }
    now rewrite E3.
  - destruct (scond_eval (P ++ frac ++ zone) (CByte (FromEnd 1) OpNe 90)); [|reflexivity].
    rewrite (IE 5%nat), (IE 4%nat), (IE 2%nat) by lia. cbn [andb].
    destruct (scond_eval (P ++ frac ++ zone) (CNum2 (FromEnd 5) OpGe 24)); [reflexivity|].
    destruct (scond_eval (P ++ frac ++ zone) (CNum2 (FromEnd 2) OpGe 60)); reflexivity.
Qed.

(* the model of validateRFC3339 (time.Parse, then the translated checks) is the strict recogniser *)
Theorem rfc3339_ok_is_strict s : rfc3339_ok s = rfc3339_gen true s.
Proof.
  unfold rfc3339_ok. destruct strict_checks_as_modelled as [-> _].
  destruct (rfc3339_gen true s) eqn:S.
  - apply strict_sound in S. now rewrite (lenient_of_go s S), (no_reject_of_go s S).
  - destruct (rfc3339_gen false s) eqn:L; auto.
    destruct (switch_rejects s expected_strict_checks) eqn:R; auto.
    apply (lenient_unrejected_go s L) in R. apply strict_complete in R. congruence.
Qed.

Theorem rfc3339_ok_sound s : rfc3339_ok s = true -> RFC3339_go s.
Proof. rewrite rfc3339_ok_is_strict. apply strict_sound. Qed.

Theorem rfc3339_ok_complete s : RFC3339_go s -> rfc3339_ok s = true.
Proof. rewrite rfc3339_ok_is_strict. apply strict_complete. Qed.

Theorem rfc3339_ok_spec s : rfc3339_ok s = true <-> RFC3339_go s.
Proof. split; [apply rfc3339_ok_sound | apply rfc3339_ok_complete]. Qed.

(* what is accepted is RFC 3339; i.e. a malformed created value is refused *)
Corollary accepted_is_rfc3339 s : rfc3339_ok s = true -> RFC3339 s.
Proof. intro A. apply go_is_rfc. now apply rfc3339_ok_spec. Qed.

Corollary malformed_refused s : ~ RFC3339 s -> rfc3339_ok s = false.
Proof.
  intro N. destruct (rfc3339_ok s) eqn:E; auto. elim N. now apply accepted_is_rfc3339.
Qed.

(* every RFC 3339 timestamp has length >= 20 and a ':' at offset 13 *)
Lemma RFC3339_shape s : RFC3339 s -> nth_error s 13 = Some 58.
Proof.
  intros (y1 & y2 & y3 & y4 & o1 & o2 & d1 & d2 & tsep & h1 & h2 & m1 & m2 & s1 & s2 & frac & zone & -> & _).
  reflexivity.
Qed.

(* the pre-fix validation, time.Parse(time.RFC3339, _) alone, took strings that are not
   RFC 3339: here a one-digit hour *)
Theorem prefix_refuted : exists s, rfc3339_ok_prefix s = true /\ ~ RFC3339 s.
Proof.
  exists (b "2006-01-02T1:04:05Z"). split; [vm_compute; reflexivity|].
  intro R. apply RFC3339_shape in R. vm_compute in R. discriminate.
Qed.

(* the created clause of the property in terms of RFC 3339 itself *)
Theorem malformed_created_no_manifest (marshal : manifest -> str) (H : str -> str)
        (H_empty : H empty_json = empty_json_digest) f tc fa s at_ o now s' r v :
  ann_get (created_key f) (o_ann o) = Some v -> ~ RFC3339 v ->
  pack marshal H f tc fa s at_ o now = (s', r) ->
  (exists e, r = Err e /\ (must_reject f at_ o = false -> fa = None -> t_key tc <> KFile -> e = EInvalidDateTime)) /\
  (exists evs, steps s s' evs /\ Forall (blob_ev H) evs) /\
  only_empty_blob_added H (s_store s) (s_store s').
Proof.
  intros G N P. eapply bad_created_no_manifest; eauto. now apply malformed_refused.
Qed.


(* ---------- the calendar shared by recogniser and grammar, read independently ---------- *)
Definition month_table : list N := [31; 28; 31; 30; 31; 30; 31; 31; 30; 31; 30; 31].

Lemma days_in_table m y :
  1 <= m <= 12 ->
  days_in m y = nth (N.to_nat m - 1) month_table 0 + (if (m =? 2) && is_leap y then 1 else 0).
Proof.
  intro R.
  assert (Hm : m = 1 \/ m = 2 \/ m = 3 \/ m = 4 \/ m = 5 \/ m = 6 \/ m = 7 \/ m = 8 \/ m = 9 \/ m = 10 \/
               m = 11 \/ m = 12) by lia.
  repeat (destruct Hm as [-> | Hm]); try subst m; unfold days_in; simpl; destruct (is_leap y); reflexivity.
Qed.

Lemma year_length y :
  days_in 1 y + days_in 2 y + days_in 3 y + days_in 4 y + days_in 5 y + days_in 6 y + days_in 7 y +
  days_in 8 y + days_in 9 y + days_in 10 y + days_in 11 y + days_in 12 y = if is_leap y then 366 else 365.
Proof. unfold days_in. simpl. destruct (is_leap y); reflexivity. Qed.

Lemma is_leap_gregorian y :
  is_leap y = true <-> (y mod 4 = 0 /\ (y mod 100 <> 0 \/ y mod 400 = 0)).
Proof.
  unfold is_leap. rewrite andb_true_iff, orb_true_iff, negb_true_iff, !N.eqb_eq, N.eqb_neq. reflexivity.
Qed.

Lemma leap_years : is_leap 2000 = true /\ is_leap 1900 = false /\ is_leap 2024 = true /\
                   is_leap 2023 = false /\ is_leap 2100 = false /\ is_leap 0 = true.
Proof. vm_compute. repeat split; reflexivity. Qed.

Lemma rfc3339_examples :
  RFC3339 (b "2024-02-29T23:59:59.5+07:30") /\ ~ RFC3339 (b "2006-01-02T1:04:05Z") /\
  RFC3339_go (b "2006-01-02T15:04:05Z").
Proof.
  split; [apply accepted_is_rfc3339; vm_compute; reflexivity|].
  split; [intro R; apply RFC3339_shape in R; vm_compute in R; discriminate|].
  apply rfc3339_ok_spec. vm_compute. reflexivity.
Qed.

(* ---------- the created value Pack writes itself always passes its own validation ---------- *)
Lemma dig_of n : n < 10 -> dig (48 + n).
Proof. intro L. unfold dig, is_digit. apply andb_true_iff. split; apply N.leb_le; lia. Qed.

Lemma add48 x : 48 + x - 48 = x.
Proof. rewrite N.add_comm. apply N.add_sub. Qed.

Lemma two_dig2 n : n < 100 -> two (48 + n / 10) (48 + n mod 10) = n.
Proof.
  intro L. unfold two, dval. rewrite !add48.
  rewrite (N.div_mod n 10) at 3 by discriminate. rewrite N.mul_comm. reflexivity.
Qed.

Lemma four_dig4 n : n < 10000 ->
  four (48 + n / 1000) (48 + (n / 100) mod 10) (48 + (n / 10) mod 10) (48 + n mod 10) = n.
Proof.
  intro L. unfold four, dval. rewrite !add48.
  pose proof (N.div_mod n 10 ltac:(discriminate)) as E1.
  pose proof (N.div_mod (n / 10) 10 ltac:(discriminate)) as E2.
  pose proof (N.div_mod (n / 100) 10 ltac:(discriminate)) as E3.
  rewrite N.div_div in E2 by discriminate. change (10 * 10) with 100 in E2.
  assert (E4 : n / 100 / 10 = n / 1000) by (rewrite N.div_div by discriminate; reflexivity).
  rewrite E4 in E3.
  set (a := n / 1000) in *. set (b' := (n / 100) mod 10) in *. set (c := (n / 10) mod 10) in *.
  set (d := n mod 10) in *. set (q1 := n / 10) in *. set (q2 := n / 100) in *. lia.
Qed.

Theorem format_accepted y mo d h mi s :
  civil_ok y mo d h mi s = true -> rfc3339_ok (format_rfc3339_utc y mo d h mi s) = true.
Proof.
  unfold civil_ok. intro C. repeat (apply andb_true_iff in C as [C ?]).
  repeat match goal with Hx : (_ <=? _) = true |- _ => apply N.leb_le in Hx end.
  assert (Dm : days_in mo y <= 31).
  { unfold days_in. destruct (mo =? 2); [destruct (is_leap y); lia|].
    destruct ((mo =? 4) || (mo =? 6) || (mo =? 9) || (mo =? 11)); lia. }
  apply rfc3339_ok_complete. unfold format_rfc3339_utc, dig4, dig2.
  exists (48 + y / 1000), (48 + (y / 100) mod 10), (48 + (y / 10) mod 10), (48 + y mod 10),
         (48 + mo / 10), (48 + mo mod 10), (48 + d / 10), (48 + d mod 10), 84,
         (48 + h / 10), (48 + h mod 10), (48 + mi / 10), (48 + mi mod 10), (48 + s / 10), (48 + s mod 10),
         [], [90].
  split; [reflexivity|].
  assert (M10 : forall n, n mod 10 < 10) by (intro n; apply N.mod_lt; lia).
  assert (D10 : forall n, n < 100 -> n / 10 < 10) by (intros n Hn; apply N.div_lt_upper_bound; lia).
  split.
  { repeat constructor; apply dig_of; auto; try (apply D10; lia).
    apply N.div_lt_upper_bound; lia. }
  split; [simpl; auto|].
  rewrite !two_dig2 by lia. rewrite four_dig4 by lia.
  repeat split; try lia; [left; reflexivity | left; exists 90; simpl; auto].
Qed.

(* "a created timestamp filled in": with the clock's value written as Pack writes it, no premise about
   the timestamp is left *)
Theorem ok_created_clock (marshal : manifest -> str) (H : str -> str)
        (H_empty : H empty_json = empty_json_digest) f tc fa s at_ o y mo d h mi sec s' dd m :
  civil_ok y mo d h mi sec = true ->
  pack marshal H f tc fa s at_ o (format_rfc3339_utc y mo d h mi sec) = (s', Ok dd m) ->
  (exists v, ann_get (created_key f) (m_ann m) = Some v /\ rfc3339_ok v = true /\ RFC3339 v /\
             (ann_get (created_key f) (o_ann o) = Some v \/
              ann_get (created_key f) (o_ann o) = None /\ v = format_rfc3339_utc y mo d h mi sec)) /\
  (forall k, k <> created_key f -> ann_get k (m_ann m) = ann_get k (o_ann o)) /\
  d_ann dd = m_ann m.
Proof.
  intros C P.
  destruct (ok_created marshal H H_empty _ _ _ _ _ _ _ _ _ _ (format_accepted _ _ _ _ _ _ C) P)
    as ((v & G & R & W) & O & D).
  split; [|split; assumption]. exists v. repeat split; auto. now apply accepted_is_rfc3339.
Qed.
