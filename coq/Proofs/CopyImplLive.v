(* CopyImplLive: failure-propagation invariants and deadlock freedom of the protocol LTS. *)
From Coq Require Import List Arith Bool Lia.
From Oras Require Import Model.CopyImpl Proofs.CopyImplBase Proofs.CopyImplInv Proofs.CopyImplInv2.
Import ListNotations.

Definition owner_pc (p : pc) : bool :=
  match p with TExists | TFind | TEnd | TGo | TInGo _ | TWait _ | TStart | TPush => true | _ => false end.

Definition I_cancf s := forall f, f_cancelled (frames s f) = true -> failed s = true.
Definition I_failw s := failed s = true ->
  (exists f, f_cancelled (frames s f) = true /\ is_ret (f_pc (frames s f)) = false) \/ f_pc (frames s 0) = FRet true.
Definition I_own s := failed s = false -> forall m, tracker s m = InProgress ->
  exists t, t_node (tasks s t) = m /\ t_kind (tasks s t) = KFn /\ owner_pc (t_pc (tasks s t)) = true.
Definition fn_pc (p : pc) : bool := match p with TTry | TExists | TFind | TPush | TWait _ => true | _ => false end.
Definition I_kfn s := forall t, fn_pc (t_pc (tasks s t)) = true -> t_kind (tasks s t) = KFn.
Record Inv3 (s : state) : Prop := { i3_cancf : I_cancf s; i3_failw : I_failw s; i3_own : I_own s; i3_kfn : I_kfn s }.

Section Proofs.
Variable succ : nat -> list nat.
Variable K : nat.
Variable ext : bool.
Variable roots : list nat.
Hypothesis succ_dec : forall n m, In m (succ n) -> m < n.
Local Notation Reachable := (Reachable succ K ext roots).
Local Notation Inv1 := (Inv1 K).
Local Notation Inv2 := (Inv2 succ).
Local Notation I_wait := (I_wait succ).

Ltac prep :=
  fsimp; rewrite ?cf_cancelled, ?upd_same, ?orb_true_iff, ?orb_false_iff, ?existsb_eqb_in in *; upd_cases;
  cbn [f_parent f_anc f_kind f_all f_items f_pc f_cancelled t_node t_kind t_frame t_pc t_holds set_pc set_pc_holds set_fpc set_cancelled is_fin is_ret In] in *;
  fsimp; rewrite ?cf_cancelled, ?upd_same, ?orb_true_iff, ?orb_false_iff, ?existsb_eqb_in in *; upd_cases;
  cbn [f_parent f_anc f_kind f_all f_items f_pc f_cancelled t_node t_kind t_frame t_pc t_holds set_pc set_pc_holds set_fpc set_cancelled is_fin is_ret In] in *;
  sat; fpc_rw; extra; cbn in *.

Lemma inv3_init : Inv3 (init K ext roots).
Proof.
  constructor; red; cbn; intros; try discriminate.
  unfold upd in *. destruct (Nat.eqb f 0); cbn in *; discriminate.
Qed.

Lemma inv3_cancf s l s' : Inv1 s -> Inv2 s -> Inv3 s -> step succ s l = Some s' -> I_cancf s'.
Proof.
  intros [Hwf Hperm Hmust Hmay] [Hwff Hnf Htf Hunf Hingo Hpar Htop Hself Hanc Hrank Hwait] [Hcf Hfw Hown Hkfn] Hs.
  red in Hnf, Hcf.
  step_cases l Hs.
  all: flive_all.
  all: try (live t).
  all: red; intros; cbn [tasks ntasks free frames nframes tracker failed top_cancelled] in *.
  all: pre.
  all: try (timeout 20 solve [ prep; rewrite ?orb_true_r; intuition (try congruence; try lia; eauto) ]).
Qed.

Lemma inv3_failw s l s' : Inv1 s -> Inv2 s -> Inv3 s -> step succ s l = Some s' -> I_failw s'.
Proof.
  intros [Hwf Hperm Hmust Hmay] [Hwff Hnf Htf Hunf Hingo Hpar Htop Hself Hanc Hrank Hwait] [Hcf Hfw Hown Hkfn] Hs.
  red in Hnf, Hcf, Hfw.
  step_cases l Hs.
  all: flive_all.
  all: try (live t).
  all: red; intros Hfl; cbn [tasks ntasks free frames nframes tracker failed top_cancelled] in *.
  all: pre.
  (* a task finishing with an error: its frame is the witness *)
  all: try (timeout 20 solve [
    match goal with
    | |- context [cancel_frames (t_frame (tasks ?s0 ?t0)) _] =>
      left; exists (t_frame (tasks s0 t0)); pose proof (Hself (t_frame (tasks s0 t0)) (Htf t0)); prep;
      intuition (try congruence; try lia; eauto)
    end ]).
  all: rewrite ?orb_false_r in Hfl.
  all: try (timeout 20 solve [
    destruct (Hfw Hfl) as [[g [Hg1 Hg2]] | Ht];
    [ assert (g < nframes s) by (apply flive; auto);
      left; exists g; prep; intuition (try congruence; try lia; eauto)
    | right; prep; intuition (try congruence; try lia; eauto) ] ]).
  - left. exists 0. pose proof (Hself 0 Hnf). apply orb_false_iff in Heqb. destruct Heqb.
    prep. intuition.
  - destruct (Htop f Heqo) as [->|]; [|lia].
    destruct (Hfw Hfl) as [[g [Hg1 Hg2]] | Ht]; [|congruence].
    destruct (Nat.eq_dec g 0) as [->|Hne].
    + right. rewrite upd_same. cbn. rewrite Hg1. reflexivity.
    + left. exists g. rewrite upd_other by auto. auto.
Qed.

Lemma inv3_own s l s' : Inv1 s -> Inv2 s -> Inv3 s -> step succ s l = Some s' -> I_own s'.
Proof.
  intros [Hwf Hperm Hmust Hmay] [Hwff Hnf Htf Hunf Hingo Hpar Htop Hself Hanc Hrank Hwait] [Hcf Hfw Hown Hkfn] Hs.
  red in Hnf, Hcf, Hown.
  step_cases l Hs.
  all: try (live t).
  all: red; intros Hfl m Hm; cbn [tasks ntasks free frames nframes tracker failed top_cancelled] in *.
  all: try discriminate.
  all: rewrite ?orb_false_r, ?orb_true_r in Hfl; try discriminate.
  all: specialize (Hown Hfl).
  all: try (timeout 20 solve [
    upd_cases; try discriminate;
    first [ destruct (Hown _ Hm) as [t' [Ht1 [Ht2 Ht3]]]; exists t';
            upd_cases; cbn [t_node t_kind t_frame t_pc t_holds set_pc set_pc_holds] in *;
            unfold wait_pc, wait_list in *; pc_rewrite; cbn in *;
            repeat match goal with |- context [match ?x with _ => _ end] => destruct x end;
            intuition (try congruence; eauto)
          | match goal with Hp : t_pc (tasks _ ?t0) = _ |- _ => exists t0 end;
            upd_cases; cbn [t_node t_kind t_frame t_pc t_holds set_pc set_pc_holds] in *;
            intuition (try congruence; eauto) ] ]).
  - destruct (Hown _ Hm) as [t' [Ht1 [Ht2 Ht3]]]. exists t'.
    assert (t' < ntasks s) by (apply live_lt; auto; destruct (t_pc (tasks s t')); auto; discriminate).
    rewrite upd_other by lia. auto.
  - upd_cases; try discriminate.
    + exists t. rewrite upd_same. cbn. repeat split; auto. apply Hkfn. rewrite Heqp. reflexivity.
    + destruct (Hown _ Hm) as [t' [Ht1 [Ht2 Ht3]]]. exists t'.
      assert (t' <> t) by (intros ->; rewrite Heqp in Ht3; discriminate).
      rewrite upd_other by auto. auto.
Qed.

Lemma inv3_kfn s l s' : Inv3 s -> step succ s l = Some s' -> I_kfn s'.
Proof.
  intros [Hcf Hfw Hown Hkfn] Hs. red in Hkfn.
  step_cases l Hs.
  all: red; intros t0 Ht0; cbn [tasks ntasks free frames nframes tracker failed top_cancelled] in *.
  all: try (timeout 20 solve [
    upd_cases; cbn [t_node t_kind t_frame t_pc t_holds set_pc set_pc_holds] in *; try discriminate; auto;
    unfold wait_pc, wait_list in *;
    repeat match goal with H : context [match ?x with _ => _ end] |- _ => destruct x eqn:?; try discriminate end;
    auto; try (apply Hkfn; pc_rewrite; reflexivity) ]).
Qed.

Lemma inv3_step s l s' : Inv1 s -> Inv2 s -> Inv3 s -> step succ s l = Some s' -> Inv3 s'.
Proof.
  intros H1 H2 H3 Hs. constructor.
  - eapply inv3_cancf; eauto.
  - eapply inv3_failw; eauto.
  - eapply inv3_own; eauto.
  - eapply inv3_kfn; eauto.
Qed.

Lemma inv123_reach s : Reachable s -> Inv1 s /\ Inv2 s /\ Inv3 s.
Proof.
  induction 1 as [|s l s' Hr [I1 [I2 I3]] Hs].
  - split; [apply inv1_init | split; [apply inv2_init | apply inv3_init]].
  - split; [eapply inv1_step; eauto | split; [eapply inv2_step; eauto | eapply inv3_step; eauto]].
Qed.

(* ------------------------------------------------------------------ deadlock freedom *)

Lemma forallb_false {A} (g : A -> bool) l : forallb g l = false -> exists x, In x l /\ g x = false.
Proof.
  induction l as [|a l IH]; cbn; intros H; [discriminate|].
  destruct (g a) eqn:Ha; cbn in H.
  - destruct (IH H) as [x [Hx Hg]]. exists x. auto.
  - exists a. auto.
Qed.

Lemma ftd_false s f : frame_tasks_done s f = false ->
  exists t, t < ntasks s /\ t_frame (tasks s t) = f /\ is_fin (t_pc (tasks s t)) = false.
Proof.
  intros H. apply forallb_false in H. destruct H as [t [Hin Ht]].
  apply in_seq in Hin. exists t. destruct (Nat.eqb_spec (t_frame (tasks s t)) f); try discriminate.
  repeat split; auto; lia.
Qed.

Definition fires s : Prop :=
  exists l s', progress_label l = true /\ step succ s l = Some s' /\ In l (enabled succ s).

Lemma in_enabled s l s' : step succ s l = Some s' -> In l (candidates s) -> In l (enabled succ s).
Proof. intros Hs Hc. unfold enabled. apply filter_In. split; auto. rewrite Hs. reflexivity. Qed.
Lemma cand_task s t l : t < ntasks s -> In l (task_labels t) -> In l (candidates s).
Proof.
  intros Ht Hl. unfold candidates. right. apply in_or_app. right. apply in_flat_map. exists t. split; auto.
  apply in_seq. lia.
Qed.
Lemma cand_frame s f l : f < nframes s -> In l (frame_labels f) -> In l (candidates s).
Proof.
  intros Ht Hl. unfold candidates. right. apply in_or_app. left. apply in_flat_map. exists f. split; auto.
  apply in_seq. lia.
Qed.

Ltac fire_t l t :=
  exists l; eexists; split; [reflexivity | split;
    [ cbn [step]; pc_rewrite; cbn; try reflexivity
    | eapply in_enabled; [ cbn [step]; pc_rewrite; cbn; try reflexivity | apply (cand_task _ t); [assumption | cbn; tauto] ] ] ].

(* a frame that is still dispatching can move when it is cancelled, has no item left, or a permit is free *)
Lemma frame_dispatch_fires s f : I_wff s ->
  f_pc (frames s f) = FDispatch ->
  f_cancelled (frames s f) = true \/ 0 < free s -> fires s.
Proof.
  intros Hw Hpc Hc. assert (Hf : f < nframes s) by (apply flive; auto; rewrite Hpc; reflexivity).
  destruct (f_items (frames s f)) as [|i rest] eqn:Hit.
  - exists (LDispatchEnd f). eexists. split; [reflexivity|]. split.
    + cbn. rewrite Hpc, Hit. reflexivity.
    + eapply in_enabled. cbn. rewrite Hpc, Hit. reflexivity. apply (cand_frame _ f); auto. cbn; tauto.
  - destruct (f_cancelled (frames s f)) eqn:Hcc.
    + exists (LDispatchFail f). eexists. split; [reflexivity|]. split.
      * cbn. rewrite Hpc, Hit, Hcc. reflexivity.
      * eapply in_enabled. cbn. rewrite Hpc, Hit, Hcc. reflexivity. apply (cand_frame _ f); auto. cbn; tauto.
    + destruct Hc as [Hc|Hc]; [discriminate|]. destruct (free s) as [|k] eqn:Hfr; [lia|].
      exists (LDispatchAcq f). eexists. split; [reflexivity|]. split.
      * cbn. rewrite Hpc, Hit, Hfr. reflexivity.
      * eapply in_enabled. cbn. rewrite Hpc, Hit, Hfr. reflexivity. apply (cand_frame _ f); auto. cbn; tauto.
Qed.

(* a frame waiting for its children returns as soon as all of them are finished *)
Lemma frame_wait_fires s f : Inv1 s -> Inv2 s ->
  f_pc (frames s f) = FWait -> frame_tasks_done s f = true -> fires s.
Proof.
  intros [Hwf Hperm Hmust Hmay] [Hwff Hnf Htf Hunf Hingo Hpar Htop Hself Hanc Hrank Hwait] Hpc Hd.
  assert (Hf : f < nframes s) by (apply flive; auto; rewrite Hpc; reflexivity).
  assert (Hstep : exists s', step succ s (LGoReturn f) = Some s').
  { cbn. rewrite Hpc, Hd. destruct (f_parent (frames s f)) as [p|] eqn:Hp; [|eexists; reflexivity].
    destruct (Hpar f p Hp) as [_ Hq]. rewrite Hq by (rewrite Hpc; reflexivity). rewrite Nat.eqb_refl.
    destruct (f_cancelled (frames s f)); eexists; reflexivity. }
  destruct Hstep as [s' Hs']. exists (LGoReturn f), s'. split; [reflexivity|]. split; auto.
  eapply in_enabled; eauto. apply (cand_frame _ f); auto. cbn; tauto.
Qed.

End Proofs.

