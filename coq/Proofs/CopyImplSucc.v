(* CopyImplSucc: what a successful top-level return guarantees about the tracker. *)
From Coq Require Import List Arith Bool Lia.
From Oras Require Import Model.CopyImpl Proofs.CopyImplBase Proofs.CopyImplInv Proofs.CopyImplInv2 Proofs.CopyImplLive
  Proofs.CopyImplFault.
Import ListNotations.

Definition started_pc (p : pc) : bool := match p with TSpawned | TTry => false | _ => true end.
Definition outer_late_pc (p : pc) : bool := match p with TStart | TFin _ => true | _ => false end.

Section Proofs.
Variable succ : nat -> list nat.
Variable K : nat.
Variable ext : bool.
Variable roots : list nat.
Hypothesis succ_dec : forall n m, In m (succ n) -> m < n.
Local Notation Reachable := (Reachable succ K ext roots).
Local Notation Inv1 := (Inv1 K).
Local Notation Inv2 := (Inv2 succ).

Definition I_donecl s := forall n, tracker s n = DoneCopied -> forall m, In m (succ n) -> is_done (tracker s m) = true.
Definition I_waitd s := forall t, t_kind (tasks s t) = KFn ->
  (forall l, t_pc (tasks s t) = TWait l -> forall m, In m (succ (t_node (tasks s t))) -> In m l \/ is_done (tracker s m) = true) /\
  (t_pc (tasks s t) = TStart \/ t_pc (tasks s t) = TPush -> forall m, In m (succ (t_node (tasks s t))) -> is_done (tracker s m) = true).
Definition I_tracked s := failed s = false -> forall t, t < ntasks s -> t_kind (tasks s t) = KFn ->
  started_pc (t_pc (tasks s t)) = true -> tracker s (t_node (tasks s t)) <> Untracked.
Definition I_cover s := failed s = false -> forall f i, In i (f_all (frames s f)) ->
  In i (f_items (frames s f)) \/
  exists t, t < ntasks s /\ t_frame (tasks s t) = f /\ t_node (tasks s t) = i /\ t_kind (tasks s t) = f_kind (frames s f).
Definition I_otracked s := failed s = false -> forall t, t < ntasks s -> t_kind (tasks s t) = KOuter ->
  outer_late_pc (t_pc (tasks s t)) = true -> tracker s (t_node (tasks s t)) <> Untracked.
Definition I_shape s :=
  (forall f p, f_parent (frames s f) = Some p -> f_all (frames s f) = go_items succ (tasks s p) /\ f_kind (frames s f) = KFn) /\
  (forall f, f_pc (frames s f) <> FDispatch -> f_items (frames s f) = []) /\
  (f_all (frames s 0) = roots /\ f_kind (frames s 0) = if ext then KOuter else KFn).
Record Inv4 (s : state) : Prop := {
  i4_donecl : I_donecl s; i4_waitd : I_waitd s; i4_tracked : I_tracked s; i4_cover : I_cover s;
  i4_otracked : I_otracked s; i4_shape : I_shape s }.

Lemma done_mono s l s' : step succ s l = Some s' -> forall m, is_done (tracker s m) = true -> is_done (tracker s' m) = true.
Proof.
  intros Hs m Hm. step_cases l Hs; auto.
  all: try solve [upd_cases; auto; try (rewrite ?Heqs0, ?Heqs1 in Hm; discriminate)].
Qed.
Lemma tracked_mono s l s' : step succ s l = Some s' -> forall m, tracker s m <> Untracked -> tracker s' m <> Untracked.
Proof.
  intros Hs m Hm. step_cases l Hs; auto.
  all: try solve [upd_cases; auto; try discriminate; try congruence].
Qed.

Lemma inv4_init : Inv4 (init K ext roots).
Proof.
  constructor; red; cbn; intros; try discriminate; try lia.
  - split; intros; try discriminate; try (destruct H0; discriminate).
  - unfold upd in *. destruct (Nat.eqb f 0); cbn in *; auto; try contradiction.
  - split; [|split].
    + intros f p. unfold upd. destruct (Nat.eqb f 0); cbn; discriminate.
    + intros f. unfold upd. destruct (Nat.eqb f 0); cbn; congruence.
    + auto.
Qed.

Ltac tsimp := cbn [f_parent f_anc f_kind f_all f_items f_pc f_cancelled t_node t_kind t_frame t_pc t_holds set_pc set_pc_holds set_fpc set_cancelled is_fin is_ret In] in *.

Lemma inv4_shape s l s' : Inv1 s -> Inv2 s -> Inv4 s -> step succ s l = Some s' -> I_shape s'.
Proof.
  intros [Hwf Hperm Hmust Hmay] [Hwff Hnf Htf Hunf Hingo Hpar Htop Hself Hanc Hrank Hwait]
         [Hdc Hwd Htr Hcov Hot [Hsh1 [Hsh2 [Hsh3 Hsh4]]]] Hs.
  red in Hnf.
  step_cases l Hs.
  all: flive_all.
  all: split; [|split; [|split]]; intros; cbn [tasks ntasks free frames nframes tracker failed top_cancelled] in *.
  all: try (timeout 20 solve [
    fsimp; upd_cases; tsimp; unfold go_items in *; tsimp; fsimp; eauto; try congruence; try lia;
    try (match goal with H : f_parent (frames _ ?f) = Some ?p |- _ => destruct (Hsh1 f p H); destruct (Hpar f p H) as [[? ?] ?] end;
         upd_cases; tsimp; unfold go_items in *; tsimp; auto; try congruence; try lia) ]).
Qed.

Lemma inv4_done s l s' : Inv1 s -> Inv2 s -> Inv3 s -> Inv4 s -> step succ s l = Some s' -> I_donecl s' /\ I_waitd s'.
Proof.
  intros [Hwf Hperm Hmust Hmay] [Hwff Hnf Htf Hunf Hingo Hpar Htop Hself Hanc Hrank Hwait] [Hcf Hfw Hown Hkfn]
         [Hdc Hwd Htr Hcov Hot Hsh] Hs.
  pose proof (done_mono s l s' Hs) as Hmono.
  red in Hdc, Hwd, Hkfn.
  step_cases l Hs.
  all: split; [ intros nn Hn0 mm Hm0 | intros tt Hk0; split; [intros ll Hp0 mm Hm0 | intros Hp0 mm Hm0] ];
       cbn [tasks ntasks free frames nframes tracker failed top_cancelled] in *.
  all: try (timeout 20 solve [
    upd_cases; tsimp; try discriminate; try (destruct Hp0; discriminate);
    try solve [ eapply Hdc; eauto ];
    try solve [ destruct (Hwd tt Hk0) as [Ha Hb]; eauto ];
    try solve [ destruct (Hwd _ Hk0) as [Ha Hb]; eauto ] ]).
  all: try match goal with |- is_done _ = true => apply Hmono end.
  all: upd_cases; tsimp; try discriminate; try (destruct Hp0; discriminate).
  all: unfold wait_pc, wait_list in *.
  all: try solve [ eapply Hdc; eauto ].
  all: try solve [ destruct (Hwd tt Hk0) as [Ha Hb]; eauto ].
  all: try solve [ destruct (Hwd tt Hk0) as [Ha Hb]; destruct (Ha _ ltac:(eassumption) _ Hm0); auto ].
  all: try (rewrite Hk0 in * ).
  all: repeat match goal with H : match ?x with _ => _ end = _ |- _ => destruct x eqn:?; try discriminate end.
  all: try (inversion Hp0; subst; clear Hp0).
  all: try solve [ left; congruence ].
  all: try solve [ match goal with Hq : t_pc (tasks _ ?t1) = _ |- _ =>
         destruct (Hwd t1 ltac:(first [assumption | apply Hkfn; rewrite Hq; reflexivity])) as [Ha Hb];
         first [ apply Hb; auto
               | destruct (Ha _ Hq _ Hm0) as [Hin|Hd];
                 [ cbn [In] in Hin; destruct Hin as [<-|Hin]; auto; try (rewrite ?Heqs0, ?Heqs1 in *; discriminate)
                 | auto; try (rewrite ?Heqs0, ?Heqs1 in *; discriminate) ] ] end ].
  all: repeat match goal with H : match ?x with _ => _ end = _ |- _ => destruct x eqn:?; try discriminate end.
  all: cbn [In] in *; try contradiction; try discriminate.
  all: try solve [ match goal with H : _ = succ _ |- _ => rewrite <- H in *; auto end ].
  all: try solve [ match goal with H : succ _ = _ |- _ => rewrite H in *; cbn [In] in *; tauto end ].
  all: try solve [
    match goal with
    | H0 : t_pc (tasks _ ?x) = TWait ?l1, Hk : t_kind (tasks _ ?x) = KFn |- _ =>
      let Ha := fresh "Ha" in let Hin := fresh "Hin" in let Hd := fresh "Hd" in
      destruct (Hwd x Hk) as [Ha _]; destruct (Ha _ H0 _ Hm0) as [Hin|Hd];
      [ cbn [In] in Hin; intuition (subst; rewrite ?Heqs0; cbn; auto)
      | first [ rewrite Heqs0 in Hd; discriminate | auto ] ]
    end ].
Qed.

Lemma inv4_tracked s l s' : Inv1 s -> Inv2 s -> Inv3 s -> Inv4 s -> step succ s l = Some s' -> I_tracked s'.
Proof.
  intros [Hwf Hperm Hmust Hmay] [Hwff Hnf Htf Hunf Hingo Hpar Htop Hself Hanc Hrank Hwait] [Hcf Hfw Hown Hkfn]
         [Hdc Hwd Htr Hcov Hot Hsh] Hs.
  pose proof (tracked_mono s l s' Hs) as Hmono.
  red in Htr, Hcf.
  step_cases l Hs.
  all: try (live t).
  all: intros Hfl tt Hlt Hk0 Hp0; cbn [tasks ntasks free frames nframes tracker failed top_cancelled] in *.
  all: rewrite ?orb_false_r, ?orb_true_r in Hfl; try discriminate.
  all: try (timeout 20 solve [
    try (assert (failed s = true) by (eapply Hcf; eauto); congruence);
    apply Hmono; upd_cases; tsimp; try discriminate;
    try (apply Htr; auto; try lia; pc_rewrite; auto; fail);
    try congruence ]).
  upd_cases; tsimp; try discriminate; try solve [apply Htr; auto]; try solve [apply Hmono; apply Htr; auto].
Qed.

Lemma inv4_cover s l s' : Inv1 s -> Inv2 s -> Inv3 s -> Inv4 s -> step succ s l = Some s' -> I_cover s'.
Proof.
  intros [Hwf Hperm Hmust Hmay] [Hwff Hnf Htf Hunf Hingo Hpar Htop Hself Hanc Hrank Hwait] [Hcf Hfw Hown Hkfn]
         [Hdc Hwd Htr Hcov Hot Hsh] Hs.
  red in Hcov, Hcf.
  step_cases l Hs.
  all: flive_all.
  all: try (live t).
  all: try match goal with H : t_pc (tasks _ ?p) = TInGo _ |- _ => live p end.
  all: intros Hfl ff ii Hi0; cbn [tasks ntasks free frames nframes tracker failed top_cancelled] in *.
  all: rewrite ?orb_false_r, ?orb_true_r in Hfl; try discriminate.
  all: try (assert (failed s = true) by (eapply Hcf; eauto); congruence).
  all: specialize (Hcov Hfl).
  all: try (timeout 20 solve [
    fsimp; upd_cases; tsimp; fsimp;
    first [ destruct (Hcov _ _ Hi0) as [Hin|[c [Hc1 [Hc2 [Hc3 Hc4]]]]];
            [ left; auto; fail
            | right; exists c; upd_cases; tsimp; repeat split; auto; try lia; congruence ]
          | left; auto; fail ] ]).
  all: destruct Hsh as [Hsh1 [Hsh2 Hsh3]].
  all: fsimp; upd_cases; tsimp; fsimp.
  all: destruct (Hcov _ _ Hi0) as [Hin|[c [Hc1 [Hc2 [Hc3 Hc4]]]]].
  all: try solve [ right; exists c; upd_cases; tsimp; repeat split; auto; try lia; congruence ].
  all: try solve [ left; auto ].
  all: try solve [ rewrite (Hsh2 f) in Hin by congruence; contradiction ].
  all: try solve [ rewrite Heql in Hin; cbn [In] in Hin; try contradiction; destruct Hin as [<-|Hin];
                   [ right; exists (ntasks s); rewrite upd_same; tsimp; repeat split; auto | left; auto ] ].
  rewrite Heql in Hin. contradiction.
Qed.

End Proofs.
