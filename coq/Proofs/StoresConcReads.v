(* C06 -- reads are linearisable at EVERY reachable configuration (not only at quiescence):
   in every interleaving prefix, the content map and the tag map are those of the sequential
   execution of the commit log, whose per-goroutine projections are prefixes of the programs;
   so a Fetch / Exists / Resolve taken at that moment answers what the sequential execution of
   the operations committed so far answers. *)
From Oras Require Import Base.Prelude Model.Stores Model.StoresConc Model.StoresConcOci Model.StoresConcFile
     Proofs.Stores Proofs.StoresConc Proofs.StoresConcOci Proofs.StoresConcFile.
From Coq Require Import Permutation.

Theorem reads_linearisable_memory (progs : list (list op)) (sched : list nat) :
  let cf := mconf_run (mconf_init progs) sched in
  let q := fst (run mem_step mem_init (map snd (c_log cf))) in
  (forall i, exists rest, log_of i (c_log cf) ++ rest = nth i progs []) /\
  forall d r, snd (mem_step (c_store cf) (Fetch d)) = snd (mem_step q (Fetch d)) /\
              snd (mem_step (c_store cf) (Exists d)) = snd (mem_step q (Exists d)) /\
              snd (mem_step (c_store cf) (Resolve r)) = snd (mem_step q (Resolve r)).
Proof.
  intros cf q. pose proof (cinv_run progs sched _ (cinv_init progs)) as Hinv. fold cf in Hinv.
  destruct Hinv as [_ Hord Hcas Hres _ _ _ _]. fold (seq_state (map snd (c_log cf))) in q.
  split; [intro i; eexists; apply Hord|]. intros d r. subst q. cbn [mem_step]. rewrite Hcas, Hres.
  repeat split.
  - destruct (get gkey_eqb (gk d) (m_cas (seq_state (map snd (c_log cf))))); reflexivity.
  - destruct (get ref_eqb r (r_index (m_res (seq_state (map snd (c_log cf)))))); reflexivity.
Qed.

Theorem reads_linearisable_oci (U : N -> gkey) (B : N -> blob) (progs : list (list op)) (sched : list nat) :
  (forall g, k_dig (U g) = g) -> Forall (wf_op U B) (concat progs) ->
  let cf := oconf_run (oconf_init progs) sched in
  let q := fst (run oci_step oci_init (map snd (oc_log cf))) in
  (forall i, exists rest, log_of i (oc_log cf) ++ rest = nth i progs []) /\
  forall d n, snd (oci_step (oc_store cf) (Fetch d)) = snd (oci_step q (Fetch d)) /\
              snd (oci_step (oc_store cf) (Exists d)) = snd (oci_step q (Exists d)) /\
              snd (oci_step (oc_store cf) (Resolve (RName n))) = snd (oci_step q (Resolve (RName n))).
Proof.
  intros HU Hwf cf q. pose proof (oinv_run U HU B progs sched Hwf _ (oinv_init U B progs)) as Hinv.
  fold cf in Hinv. destruct Hinv as [_ Hord Hbl Hnm _ _ _ _ _ _]. fold (seq_ostate (map snd (oc_log cf))) in q.
  split; [intro i; eexists; apply Hord|]. intros d n. subst q. cbn [oci_step]. rewrite Hbl.
  specialize (Hnm n). unfold names_of in Hnm. rewrite Hnm. repeat split.
  - destruct (get N.eqb (d_dig d) (o_blobs (seq_ostate (map snd (oc_log cf))))); reflexivity.
  - destruct (get ref_eqb (RName n) (r_index (o_res (seq_ostate (map snd (oc_log cf)))))) as [d0|]; reflexivity.
Qed.

Theorem reads_linearisable_file (fx ig ov : bool) (progs : list (list op)) (sched : list nat) :
  Forall untitled (concat progs) ->
  let cf := fconf_run fx ig ov (fconf_init progs) sched in
  let q := fst (runf (file_step fx ig ov) file_init (map snd (fc_log cf))) in
  (forall i, exists rest, log_of i (fc_log cf) ++ rest = nth i progs []) /\
  forall d r, snd (file_step fx ig ov (fc_store cf) (Fetch d)) = snd (file_step fx ig ov q (Fetch d)) /\
              snd (file_step fx ig ov (fc_store cf) (Exists d)) = snd (file_step fx ig ov q (Exists d)) /\
              snd (file_step fx ig ov (fc_store cf) (Resolve r)) = snd (file_step fx ig ov q (Resolve r)).
Proof.
  intros Hun cf q. pose proof (finv_run fx ig ov progs sched Hun _ (finv_init fx ig ov progs)) as Hinv.
  fold cf in Hinv. destruct Hinv as [_ Hord Hcore _ _]. fold (seq_fstate fx ig ov (map snd (fc_log cf))) in q.
  split; [intro i; eexists; apply Hord|]. intros d r. subst q.
  rewrite (fcore_eq_graph _ _ Hcore). cbn [file_step]. rewrite file_fetch_graph, file_exists_graph. repeat split.
  - destruct (file_fetch d (seq_fstate fx ig ov (map snd (fc_log cf)))); reflexivity.
  - destruct r; try reflexivity;
      (cbn [with_graph f_res]; destruct (get ref_eqb _ (r_index (f_res (seq_fstate fx ig ov (map snd (fc_log cf)))))); reflexivity).
Qed.

(* Tags lists exactly the names that resolve (the digest self-references are filtered out) ... *)
Lemma tags_names (idx : list (ref * desc)) n :
  In (RName n) (map fst (filter (fun e => negb (ref_eqb (fst e) (RDig (d_dig (snd e))))) idx)) <->
  get ref_eqb (RName n) idx <> None.
Proof.
  induction idx as [|[r d] idx IH]; [simpl; split; [intros [] | congruence]|].
  cbn [filter get fst snd]. destruct (ref_eqb (RName n) r) eqn:E.
  - apply ref_eqb_spec in E. subst r. cbn [ref_eqb negb map fst In]. split; [intros _; discriminate | intros _; now left].
  - assert (Hne : r <> RName n).
    { intro X. rewrite X in E. assert (X2 : ref_eqb (RName n) (RName n) = true) by (apply ref_eqb_spec; reflexivity).
      rewrite X2 in E. inversion E. }
    destruct (negb (ref_eqb r (RDig (d_dig d)))); cbn [map fst In]; [|exact IH].
    split; [intros [X|X]; [congruence | now apply IH] | intro X; right; now apply IH].
Qed.

(* ... so at every reachable configuration of the OCI store the set of names Tags lists is the
   one of the sequential execution of the commit log *)
Theorem tags_linearisable_oci (U : N -> gkey) (B : N -> blob) (progs : list (list op)) (sched : list nat) :
  (forall g, k_dig (U g) = g) -> Forall (wf_op U B) (concat progs) ->
  let cf := oconf_run (oconf_init progs) sched in
  let q := fst (run oci_step oci_init (map snd (oc_log cf))) in
  forall n l l', snd (oci_step (oc_store cf) Tags) = OTags l -> snd (oci_step q Tags) = OTags l' ->
                 (In (RName n) l <-> In (RName n) l').
Proof.
  intros HU Hwf cf q. pose proof (oinv_run U HU B progs sched Hwf _ (oinv_init U B progs)) as Hinv.
  fold cf in Hinv. destruct Hinv as [_ _ _ Hnm _ _ _ _ _ _]. fold (seq_ostate (map snd (oc_log cf))) in q.
  intros n l l' H1 H2. subst q. cbn [oci_step snd] in H1, H2. injection H1 as <-. injection H2 as <-.
  specialize (Hnm n). unfold names_of in Hnm.
  split; intro X; apply tags_names; apply tags_names in X; congruence.
Qed.

(* The decision of a Push (stored / already-exists / mismatch / duplicate-name ...) is taken in one
   atomic step that reads the content map: at every reachable configuration it is the decision
   the sequential execution of the commit log takes.  (Memory store: LoadOrStore; file store:
   the name's lock section or the fallback LoadOrStore.  For the OCI store the statement is
   false -- stat and rename are two steps: C06_repush_refused_oci_racing_refuted.) *)
Theorem push_decision_linearisable_memory (progs : list (list op)) (sched : list nat) :
  let cf := mconf_run (mconf_init progs) sched in
  let q := fst (run mem_step mem_init (map snd (c_log cf))) in
  forall d c, snd (mem_step (c_store cf) (Push d c)) = snd (mem_step q (Push d c)).
Proof.
  intros cf q. pose proof (cinv_run progs sched _ (cinv_init progs)) as Hinv. fold cf in Hinv.
  destruct Hinv as [_ _ Hcas _ _ _ _ _]. fold (seq_state (map snd (c_log cf))) in q.
  intros d c. subst q. cbn [mem_step]. rewrite Hcas.
  destruct (get gkey_eqb (gk d) (m_cas (seq_state (map snd (c_log cf))))); [reflexivity|].
  destruct (verify d c); reflexivity.
Qed.

Theorem push_decision_linearisable_file (fx ig ov : bool) (progs : list (list op)) (sched : list nat) :
  Forall untitled (concat progs) ->
  let cf := fconf_run fx ig ov (fconf_init progs) sched in
  let q := fst (runf (file_step fx ig ov) file_init (map snd (fc_log cf))) in
  forall d c, snd (file_push_store fx ig ov (fc_store cf) d c) = snd (file_push_store fx ig ov q d c).
Proof.
  intros Hun cf q. pose proof (finv_run fx ig ov progs sched Hun _ (finv_init fx ig ov progs)) as Hinv.
  fold cf in Hinv. destruct Hinv as [_ _ Hcore _ _]. fold (seq_fstate fx ig ov (map snd (fc_log cf))) in q.
  intros d c. subst q. rewrite (fcore_eq_graph _ _ Hcore).
  set (g := f_graph (fc_store cf)). clearbody g. rewrite file_push_store_graph. reflexivity.
Qed.
