(* NewFromTar sees the files NewFromFS(os.DirFS) sees. *)
From Coq Require Import List Arith Bool PeanoNat.
From Oras Require Import Model.TarFS.
Import ListNotations.

Section TarFS.
  Variable clean : nat -> nat.
  Notation index_entries := (index_entries clean).
  Notation tar_open := (tar_open clean true).

  Lemma tlookup_tset p q e m :
    tlookup p (tset q e m) = if Nat.eqb p q then Some e else tlookup p m.
  Proof.
    unfold tset. simpl. destruct (Nat.eqb p q) eqn:E; auto.
    induction m as [|[k v] m IH]; simpl; auto.
    destruct (Nat.eqb q k) eqn:E2; simpl.
    - apply Nat.eqb_eq in E2. subst k. rewrite E. exact IH.
    - destruct (Nat.eqb p k); auto.
  Qed.

  Definition fold_idx (tar : list tentry) (m : tindex) : tindex :=
    fold_left (fun m e => tset (clean (te_raw e)) e m) tar m.

  Lemma fold_none tar p : forall m,
    (forall e, In e tar -> clean (te_raw e) <> p) -> tlookup p (fold_idx tar m) = tlookup p m.
  Proof.
    induction tar as [|e tar IH]; intros m H; simpl; auto.
    unfold fold_idx in *. simpl. rewrite IH by (intros x I; apply H; now right).
    rewrite tlookup_tset. destruct (Nat.eqb p (clean (te_raw e))) eqn:E; auto.
    apply Nat.eqb_eq in E. exfalso. apply (H e); [now left|congruence].
  Qed.

  Lemma fold_app a b m : fold_idx (a ++ b) m = fold_idx b (fold_idx a m).
  Proof. unfold fold_idx. apply fold_left_app. Qed.

  (* the last entry of a cleaned name wins *)
  Lemma last_wins pre e post p :
    clean (te_raw e) = p -> (forall e', In e' post -> clean (te_raw e') <> p) ->
    tlookup p (index_entries (pre ++ e :: post)) = Some e.
  Proof.
    intros E H. change (index_entries (pre ++ e :: post)) with (fold_idx (pre ++ e :: post) []).
    rewrite fold_app. change (fold_idx (e :: post) (fold_idx pre []))
      with (fold_idx post (tset (clean (te_raw e)) e (fold_idx pre []))).
    rewrite fold_none by exact H. rewrite tlookup_tset, E, Nat.eqb_refl. reflexivity.
  Qed.

  Lemma fold_in tar p : forall m e,
    tlookup p (fold_idx tar m) = Some e -> tlookup p m = Some e \/ (In e tar /\ clean (te_raw e) = p).
  Proof.
    induction tar as [|a tar IH]; intros m e H; simpl in *; auto.
    apply IH in H as [H|[I E]]; [|right; auto].
    rewrite tlookup_tset in H. destruct (Nat.eqb p (clean (te_raw a))) eqn:E.
    - injection H as <-. apply Nat.eqb_eq in E. right. auto.
    - auto.
  Qed.

  Lemma fold_some tar p : forall m,
    (tlookup p m <> None \/ exists e, In e tar /\ clean (te_raw e) = p) -> tlookup p (fold_idx tar m) <> None.
  Proof.
    induction tar as [|a tar IH]; intros m H; simpl.
    - destruct H as [H|(e & [] & _)]; auto.
    - apply IH. rewrite tlookup_tset. destruct (Nat.eqb p (clean (te_raw a))) eqn:E; [left; congruence|].
      destruct H as [H|(e & [<-|I] & Ee)]; auto.
      + apply Nat.eqb_neq in E. congruence.
      + right. eauto.
  Qed.

  (* every file of the directory, and every name that is in neither, opens alike through
     tarfs and os.DirFS; names of archived non-files are refused as unsupported *)
  Theorem tar_view tar d : archives clean tar d ->
    forall p,
      (dlookup p d <> None \/ (forall e, In e tar -> clean (te_raw e) <> p) -> tar_open tar p = dir_open d p) /\
      (dlookup p d = None -> (exists e, In e tar /\ clean (te_raw e) = p) -> tar_open tar p = FUnsupported).
  Proof.
    intros [A B] p. split.
    - intros H. unfold TarFS.tar_open, dir_open. destruct (dlookup p d) as [c|] eqn:L.
      + destruct (A p c L) as (pre & e & post & -> & E & K & Dt & Hp).
        rewrite (last_wins pre e post p E Hp), Dt. destruct (te_kind e); try discriminate; reflexivity.
      + destruct H as [H|H]; [congruence|].
        change (index_entries tar) with (fold_idx tar []). rewrite fold_none by exact H. reflexivity.
    - intros L (e & I & E). unfold TarFS.tar_open.
      change (index_entries tar) with (fold_idx tar []).
      destruct (tlookup p (fold_idx tar [])) as [t|] eqn:T.
      + apply fold_in in T as [T|[I' E']]; [discriminate|].
        rewrite (B t I') by (rewrite E'; exact L). reflexivity.
      + exfalso. apply (fold_some tar p []); [right; eauto | exact T].
  Qed.
End TarFS.

(* the hypothesis is satisfiable: "./"-style names (clean = halving), a directory entry,
   a stale earlier copy of file 1 *)
Example tar_view_example :
  let clean := fun r => Nat.div2 r in
  let tar := [mkTE 2 TReg 70; mkTE 6 TOther 0; mkTE 3 TReg 71; mkTE 4 TSparse 72] in
  let d := [(1, 71); (2, 72)] in
  archives clean tar d /\ tar_open clean true tar 1 = FData 71 /\ tar_open clean true tar 3 = FUnsupported /\
  tar_open clean true tar 5 = FNotExist /\ tar_open clean false tar 2 = FBroken /\ tar_open clean true tar 2 = FData 72.
Proof.
  split; [|vm_compute; repeat split]. split.
  - intros p c H. simpl in H. destruct p as [|[|[|p]]]; try discriminate.
    + injection H as <-. exists [mkTE 2 TReg 70; mkTE 6 TOther 0], (mkTE 3 TReg 71), [mkTE 4 TSparse 72].
      repeat split. intros e' [<-|[]]. simpl. discriminate.
    + injection H as <-. exists [mkTE 2 TReg 70; mkTE 6 TOther 0; mkTE 3 TReg 71], (mkTE 4 TSparse 72), [].
      repeat split. intros e' [].
  - intros e [<-|[<-|[<-|[<-|[]]]]]; simpl; intro H; try discriminate; reflexivity.
Qed.

(* the code as found: a file stored as a sparse member (GNU tar -S, bsdtar) does not open to
   its content although the archive holds the directory *)
Lemma tar_view_refuted_sparse :
  exists (clean : nat -> nat) (tar : list tentry) (d : dirfs) (p : nat),
    archives clean tar d /\ dlookup p d <> None /\
    tar_open clean false tar p <> dir_open d p /\ tar_open clean true tar p = dir_open d p.
Proof.
  exists (fun r => r), [mkTE 1 TSparse 7], [(1, 7)], 1. split; [split|].
  - intros p c H. simpl in H. destruct p as [|[|p]]; try discriminate. injection H as <-.
    exists [], (mkTE 1 TSparse 7), []. repeat split. intros e' [].
  - intros e [<-|[]]. simpl. discriminate.
  - vm_compute. repeat split; discriminate.
Qed.
