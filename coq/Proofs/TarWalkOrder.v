(* C12: filepath.Walk's sorting of every directory does not change the tree as a file system:
   the hypotheses and the expected result of the round-trip theorem can be stated on the
   tree as given. *)
From Coq Require Import Permutation.
From Oras Require Import Base.Prelude Model.TarRoundTrip Proofs.TarRoundTrip.

Lemma insert_child_perm x l : Permutation (insert_child x l) (x :: l).
Proof.
  induction l as [|y l IH]; simpl; [reflexivity|].
  destruct (str_ltb (fst y) (fst x)); [|reflexivity].
  rewrite IH. apply perm_swap.
Qed.

Lemma sort_children_perm l : Permutation (sort_children l) l.
Proof.
  induction l as [|x l IH]; [reflexivity|].
  unfold sort_children in *. simpl. rewrite insert_child_perm. now constructor.
Qed.

Lemma forallb_perm {A} (f : A -> bool) l l' : Permutation l l' -> forallb f l = forallb f l'.
Proof.
  induction 1; simpl; try congruence. destruct (f x), (f y); reflexivity.
Qed.

Lemma existsb_perm {A} (f : A -> bool) l l' : Permutation l l' -> existsb f l = existsb f l'.
Proof.
  induction 1; simpl; try congruence. destruct (f x), (f y); reflexivity.
Qed.

Lemma str_eqb_sym x y : str_eqb x y = str_eqb y x.
Proof.
  destruct (str_eqb x y) eqn:E.
  - apply str_eqb_spec in E. subst. now rewrite str_eqb_refl.
  - destruct (str_eqb y x) eqn:E'; [|reflexivity]. apply str_eqb_spec in E'. subst.
    rewrite str_eqb_refl in E. discriminate.
Qed.

Lemma names_nodupb_perm l l' : Permutation l l' -> names_nodupb l = names_nodupb l'.
Proof.
  induction 1; simpl; try congruence.
  - now rewrite IHPermutation, (existsb_perm _ _ _ H).
  - rewrite (str_eqb_sym y x).
    destruct (str_eqb x y), (existsb (str_eqb x) l), (existsb (str_eqb y) l), (names_nodupb l); reflexivity.
Qed.

Lemma find_child_perm n l l' :
  Permutation l l' -> names_nodupb (map fst l) = true -> find_child n l = find_child n l'.
Proof.
  induction 1 as [|[m c] l l' HP IH|[m1 c1] [m2 c2] l|l l' l'' HP1 IH1 HP2 IH2]; simpl; intro Hnd.
  - reflexivity.
  - apply andb_true_iff in Hnd as [_ Hnd]. now rewrite IH.
  - apply andb_true_iff in Hnd as [Hn _]. apply negb_true_iff, orb_false_iff in Hn as [Hn _].
    destruct (str_eqb m1 n) eqn:E1, (str_eqb m2 n) eqn:E2; try reflexivity.
    apply str_eqb_spec in E1, E2. subst. rewrite str_eqb_refl in Hn. discriminate.
  - rewrite IH1 by exact Hnd. apply IH2.
    rewrite <- (names_nodupb_perm _ _ (Permutation_map fst HP1)). exact Hnd.
Qed.

Lemma forallb_map {A B} (f : B -> bool) (g : A -> B) l : forallb f (map g l) = forallb (fun x => f (g x)) l.
Proof. induction l; simpl; congruence. Qed.

Lemma forallb_ext_Forall {A} (f g : A -> bool) l :
  Forall (fun x => f x = g x) l -> forallb f l = forallb g l.
Proof. induction 1; simpl; congruence. Qed.

Lemma find_child_map (g : tree -> tree) n l :
  find_child n (map (fun nc => (fst nc, g (snd nc))) l) = option_map g (find_child n l).
Proof.
  induction l as [|[m c] l IH]; simpl; [reflexivity|]. destruct (str_eqb m n); [reflexivity|exact IH].
Qed.

Lemma find_child_forallb (f : tree -> bool) n l c :
  forallb (fun nc => f (snd nc)) l = true -> find_child n l = Some c -> f c = true.
Proof.
  induction l as [|[m c'] l IH]; simpl; [discriminate|]. intros Hf Hc.
  apply andb_true_iff in Hf as [H1 H2]. destruct (str_eqb m n); [congruence|now apply IH].
Qed.

Definition sortg (nc : name * tree) : name * tree := (fst nc, sort_tree (snd nc)).

Lemma sort_tree_dir m mt ch : sort_tree (Dir m mt ch) = Dir m mt (sort_children (map sortg ch)).
Proof. reflexivity. Qed.

Lemma map_fst_sortg ch : map fst (map sortg ch) = map fst ch.
Proof. rewrite map_map. reflexivity. Qed.

Lemma wf_sort : forall t, wf_treeb (sort_tree t) = wf_treeb t.
Proof.
  induction t as [c m mt|tg mt|m mt ch IH] using tree_ind'; try reflexivity.
  rewrite sort_tree_dir.
  change (wf_treeb (Dir m mt (sort_children (map sortg ch))))
    with (names_nodupb (map fst (sort_children (map sortg ch))) &&
          forallb name_okb (map fst (sort_children (map sortg ch))) &&
          forallb (fun nc => wf_treeb (snd nc)) (sort_children (map sortg ch))).
  change (wf_treeb (Dir m mt ch))
    with (names_nodupb (map fst ch) && forallb name_okb (map fst ch) && forallb (fun nc => wf_treeb (snd nc)) ch).
  f_equal; [f_equal|].
  - now rewrite (names_nodupb_perm _ _ (Permutation_map fst (sort_children_perm (map sortg ch)))), map_fst_sortg.
  - now rewrite (forallb_perm name_okb _ _ (Permutation_map fst (sort_children_perm (map sortg ch)))), map_fst_sortg.
  - rewrite (forallb_perm _ _ _ (sort_children_perm (map sortg ch))), forallb_map. simpl.
    apply forallb_ext_Forall. exact IH.
Qed.

Lemma modes_sort : forall t, modes_okb (sort_tree t) = modes_okb t.
Proof.
  induction t as [c m mt|tg mt|m mt ch IH] using tree_ind'; try reflexivity.
  rewrite sort_tree_dir. simpl.
  rewrite (forallb_perm _ _ _ (sort_children_perm (map sortg ch))), forallb_map. simpl.
  f_equal. apply forallb_ext_Forall. exact IH.
Qed.

Lemma benign_sort pre isl isf : forall t rel, benignb pre isl isf rel (sort_tree t) = benignb pre isl isf rel t.
Proof.
  induction t as [c m mt|tg mt|m mt ch IH] using tree_ind'; intro rel; try reflexivity.
  rewrite sort_tree_dir. simpl.
  rewrite (forallb_perm _ _ _ (sort_children_perm (map sortg ch))), forallb_map. simpl.
  apply forallb_ext_Forall. eapply Forall_impl; [|exact IH]. intros nc H. apply H.
Qed.

Lemma prefixes_clear_ext isl isl' isf isf' : (forall p, isl p = isl' p) -> (forall p, isf p = isf' p) ->
  forall rest acc, prefixes_clear isl isf acc rest = prefixes_clear isl' isf' acc rest.
Proof.
  intros E F. induction rest as [|x rest IH]; intro acc; simpl; [reflexivity|].
  destruct rest; [reflexivity|]. now rewrite E, IH.
Qed.

Lemma benign_ext pre isl isl' isf isf' : (forall p, isl p = isl' p) -> (forall p, isf p = isf' p) ->
  forall t rel, benignb pre isl isf rel t = benignb pre isl' isf' rel t.
Proof.
  intros E F. induction t as [c m mt|tg mt|m mt ch IH] using tree_ind'; intro rel; simpl.
  - apply F.
  - rewrite E. destruct (link_target_path pre rel tg); [|reflexivity].
    now rewrite (prefixes_clear_ext isl isl' isf isf' E F).
  - apply forallb_ext_Forall. eapply Forall_impl; [|exact IH]. intros nc H. apply H.
Qed.

Lemma flat_map_perm_Forall {A B} (f g : A -> list B) l :
  Forall (fun x => Permutation (f x) (g x)) l -> Permutation (flat_map f l) (flat_map g l).
Proof. induction 1; simpl; [reflexivity|]. now apply Permutation_app. Qed.

Lemma link_paths_sort : forall t rel, Permutation (link_paths rel (sort_tree t)) (link_paths rel t).
Proof.
  induction t as [c m mt|tg mt|m mt ch IH] using tree_ind'; intro rel; try reflexivity.
  rewrite sort_tree_dir. simpl.
  rewrite (Permutation_flat_map _ (sort_children_perm (map sortg ch))).
  rewrite flat_map_concat_map, map_map, <- flat_map_concat_map. simpl.
  apply flat_map_perm_Forall. eapply Forall_impl; [|exact IH]. intros nc H. apply H.
Qed.

Lemma file_paths_sort : forall t rel, Permutation (file_paths rel (sort_tree t)) (file_paths rel t).
Proof.
  induction t as [c m mt|tg mt|m mt ch IH] using tree_ind'; intro rel; try reflexivity.
  rewrite sort_tree_dir. simpl.
  rewrite (Permutation_flat_map _ (sort_children_perm (map sortg ch))).
  rewrite flat_map_concat_map, map_map, <- flat_map_concat_map. simpl.
  apply flat_map_perm_Forall. eapply Forall_impl; [|exact IH]. intros nc H. apply H.
Qed.

Lemma benign_tree_sort pre T : benign_tree pre (sort_tree T) = benign_tree pre T.
Proof.
  unfold benign_tree. rewrite benign_sort. apply benign_ext; intro p.
  - unfold links_of. apply existsb_perm, link_paths_sort.
  - unfold files_of. apply existsb_perm, file_paths_sort.
Qed.

Lemma tree_get_sort : forall p t,
  wf_treeb t = true -> tree_get (sort_tree t) p = option_map sort_tree (tree_get t p).
Proof.
  induction p as [|n p IH]; intros t Hwf; [reflexivity|].
  destruct t as [c m mt|tg mt|m mt ch]; try reflexivity.
  rewrite sort_tree_dir. simpl in *. apply andb_true_iff in Hwf as [Hnd Hwf]. apply andb_true_iff in Hnd as [Hnd Hnok].
  rewrite (find_child_perm n _ _ (sort_children_perm (map sortg ch)))
    by (rewrite (names_nodupb_perm _ _ (Permutation_map fst (sort_children_perm (map sortg ch)))), map_fst_sortg;
        exact Hnd).
  unfold sortg. rewrite find_child_map.
  destruct (find_child n ch) as [c|] eqn:Ec; simpl; [|reflexivity].
  apply IH. exact (find_child_forallb wf_treeb n ch c Hwf Ec).
Qed.

Lemma expected_sort umask preserve T p :
  wf_treeb T = true -> expected umask preserve (sort_tree T) p = expected umask preserve T p.
Proof.
  intro Hwf. unfold expected. rewrite (tree_get_sort p T Hwf).
  destruct (tree_get T p) as [[| |]|]; reflexivity.
Qed.

(* reproducibility does not depend on the order in which a directory lists its entries:
   sorting is idempotent on the walk, so two listings of the same children give the same tar
   as soon as their sorted forms agree *)
Theorem walk_order_irrelevant pre repro t1 t2 :
  sort_tree t1 = sort_tree t2 -> tar_entries pre repro t1 = tar_entries pre repro t2.
Proof. intro E. unfold tar_entries. now rewrite E. Qed.


(* ---------- annotations (keys regenerated from content/file/file.go) ---------- *)
From Oras Require Import Generated.GC12 Model.FileAnnotations.

Theorem dir_annotations_independent checksum name skip :
  annot_get (dir_annotations checksum name) AnnotationDigest = checksum /\
  annot_get (dir_annotations checksum name) AnnotationUnpack = b "true" /\
  annot_get (dir_annotations checksum name) title_key = name /\
  need_unpack (dir_annotations checksum name) skip = negb skip.
Proof. repeat split. Qed.
