(* Readers for which io.EOF is not final: for EVERY script (no side condition), what
   ReadAll / CopyBuffer accept is exactly what the reader delivers before its first EOF. *)
From Oras Require Import Base.Prelude Generated.GC05 Model.Verify Proofs.Verify.
From Coq Require Import Lia ZArith.

Local Open Scope nat_scope.

Lemma script_read_upto comb evs k bs e evs' :
  script_read comb evs k = ((bs, e), evs') ->
  (e = Some EEof -> upto_eof evs = bs) /\ (e <> Some EEof -> upto_eof evs = bs ++ upto_eof evs').
Proof.
  destruct evs as [|[d| | |] r]; simpl; intro E.
  - inversion E; subst. split; auto; congruence.
  - destruct (length d <=? k) eqn:L.
    + destruct comb.
      * destruct r as [|[d'| | |] r']; inversion E; subst; simpl; (split; [intro X|intro X]);
          try discriminate; try congruence; rewrite ?app_nil_r; reflexivity.
      * inversion E; subst. split; [discriminate|auto].
    + inversion E; subst. simpl. split; [discriminate|]. intros _. rewrite app_assoc, firstn_skipn. reflexivity.
  - inversion E; subst. split; [discriminate|auto].
  - inversion E; subst. split; [discriminate|auto].
  - inversion E; subst. split; auto; congruence.
Qed.

Lemma base_read_upto comb s k bs e s' :
  lim_none s = true -> base_read comb s k = ((bs, e), s') ->
  (e = Some EEof -> upto_eof (b_evs s) = bs) /\
  (e <> Some EEof -> upto_eof (b_evs s) = bs ++ upto_eof (b_evs s')).
Proof.
  unfold base_read, lim_none. destruct s as [evs [n|]]; simpl; [discriminate|]. intros _.
  destruct (script_read comb evs k) as [[bs0 e0] evs0] eqn:Es.
  intro E; inversion E; subst; simpl. eapply script_read_upto; eauto.
Qed.

Section EofNotFinal.
  Variable H : str -> str -> str.
  Variable comb : bool.

  (* ensureEOF saw EOF without a byte: nothing was left before the next EOF *)
  Lemma read_full_tee_upto fuel : forall b h want acc acc' b' h',
    lim_none b = true ->
    read_full (tee_read comb) fuel (b, h) want acc = ((acc', Some EEof), (b', h')) ->
    exists d, acc' = acc ++ d /\ upto_eof (b_evs b) = d.
  Proof.
    induction fuel as [|f IH]; intros b h want acc acc' b' h' L; simpl.
    - destruct (want <=? length acc); intro E; inversion E.
    - destruct (want <=? length acc); [intro E; inversion E|].
      unfold tee_read at 1. simpl.
      destruct (base_read comb b (want - length acc)) as [[bs e0] b1] eqn:Eb.
      pose proof (base_read_spec _ _ _ _ _ _ Eb) as (_ & _ & C & _).
      apply base_read_upto in Eb as [U1 U2]; auto.
      destruct e0 as [e0|].
      + destruct (want <=? length (acc ++ bs)); [intro E; inversion E|].
        destruct ((0 <? length (acc ++ bs)) && is_eof e0); intro E; inversion E; subst.
        exists bs. split; auto.
      + intro E. apply IH in E as (d & E1 & E2); [|congruence].
        exists (bs ++ d). rewrite app_assoc. split; auto. rewrite U2 by discriminate. congruence.
  Qed.

  (* U: what the source delivers before its first EOF; out: what Read has handed out *)
  Definition inv4 (U : str) (v : vrd) (out : str) : Prop :=
    v_verified v = false /\ lim_none (v_base v) = true /\
    (v_err v = None -> U = out ++ upto_eof (b_evs (v_base v))) /\
    (v_err v = Some EEof -> U = out ++ upto_eof (b_evs (v_base v)) \/ U = out).

  Lemma vr_read_inv4 U v out k bs e v' :
    inv4 U v out -> vr_read comb v k = ((bs, e), v') -> inv4 U v' (out ++ bs).
  Proof.
    intros (I1 & I2 & I3 & I4) E. unfold vr_read in E. destruct (v_err v) as [e0|] eqn:Ee.
    - inversion E; subst. rewrite app_nil_r. split; auto. split; auto. rewrite Ee. split; auto.
    - specialize (I3 eq_refl). destruct (v_N v <=? 0)%Z.
      + inversion E; subst. rewrite app_nil_r. unfold inv4, set_err; simpl. repeat split; auto; try discriminate.
      + destruct (base_read comb (v_base v) (clamp k (v_N v))) as [[bs0 e1] b1] eqn:Eb.
        pose proof (base_read_spec _ _ _ _ _ _ Eb) as (_ & _ & C & _).
        apply base_read_upto in Eb as [U1 U2]; auto.
        destruct e1 as [e1|]; inversion E; subst; clear E; (split; [exact I1|split; [simpl; congruence|]]); simpl.
        * split; [destruct (is_eof e1 && _); discriminate|].
          intro Q. destruct e1; simpl in Q; try discriminate.
          right. rewrite (U1 eq_refl). reflexivity.
        * split; [|discriminate]. intros _. rewrite U2 by discriminate. apply app_assoc.
  Qed.

  Lemma read_full_inv4 U fuel : forall v out want acc acc' e v',
    inv4 U v out -> read_full (vr_read comb) fuel v want acc = ((acc', e), v') ->
    exists d, acc' = acc ++ d /\ inv4 U v' (out ++ d).
  Proof.
    induction fuel as [|f IH]; intros v out want acc acc' e v' I; simpl.
    - destruct (want <=? length acc); intro E; inversion E; subst; exists []; rewrite !app_nil_r; auto.
    - destruct (want <=? length acc); [intro E; inversion E; subst; exists []; rewrite !app_nil_r; auto|].
      destruct (vr_read comb v (want - length acc)) as [[bs e0] v1] eqn:Er.
      pose proof (vr_read_inv4 _ _ _ _ _ _ _ I Er) as I1.
      destruct e0 as [e0|].
      + destruct (want <=? length (acc ++ bs)); [intro E; inversion E; subst; exists bs; auto|].
        destruct ((0 <? length (acc ++ bs)) && is_eof e0); intro E; inversion E; subst; exists bs; auto.
      + intro E. destruct (IH _ _ _ _ _ _ _ I1 E) as (d & E1 & E2).
        exists (bs ++ d). subst acc'. rewrite !app_assoc. auto.
  Qed.

  Lemma copy_loop_inv4 U bufsz fuel : forall v out e out' v',
    inv4 U v out -> copy_loop comb fuel v bufsz out = ((e, out'), v') -> inv4 U v' out'.
  Proof.
    induction fuel as [|f IH]; intros v out e out' v' I; simpl.
    - intro E; inversion E; subst; auto.
    - destruct (vr_read comb v bufsz) as [[bs e0] v1] eqn:Er.
      pose proof (vr_read_inv4 _ _ _ _ _ _ _ I Er) as I1.
      destruct e0 as [e0|]; [destruct e0; intro E; inversion E; subst; auto|apply IH; auto].
  Qed.

  Lemma vr_verify_inv4 U fuel dg v out v' :
    inv4 U v out -> vr_verify H comb fuel dg v = (None, v') -> U = out.
  Proof.
    intros (I1 & I2 & I3 & I4). unfold vr_verify. rewrite I1.
    unfold ensure_eof.
    destruct (read_full (tee_read comb) fuel (v_base v, v_hashed v) 1 []) as [[acc e] [b1 h1]] eqn:Er.
    assert (P : (U = out ++ upto_eof (b_evs (v_base v)) \/ U = out) ->
                (if negb (match e with Some EEof => true | _ => false end)
                 then (Some ETrailing, set_err (mkVr b1 (v_N v) h1 (v_err v) false) ETrailing)
                 else if verified H dg h1 then (None, mkVr b1 (v_N v) h1 (Some EEof) true)
                      else (Some EMismatch, set_err (mkVr b1 (v_N v) h1 (v_err v) false) EMismatch)) = (None, v') ->
                U = out).
    { intros [Q|Q] X; auto. destruct e as [[]|]; try discriminate.
      pose proof (read_full_tee comb fuel _ _ _ _ _ _ _ _ Er) as (d0 & _ & _ & _ & _ & D5 & _). destruct (D5 eq_refl) as [Lt _].
      apply read_full_tee_upto in Er as (d & E1 & E2); auto. simpl in E1. subst acc.
      destruct d; [|simpl in Lt; lia]. rewrite Q, E2. apply app_nil_r. }
    destruct (v_err v) as [e0|] eqn:Ee0.
    - destruct e0; try discriminate. apply P. apply I4. reflexivity.
    - destruct (v_N v >? 0)%Z; [discriminate|]. apply P. left. apply I3. reflexivity.
  Qed.

  Lemma new_vr_inv4 fixed evs dg sz : inv4 (upto_eof evs) (new_vr_gen fixed (mkBase evs None) dg sz) [].
  Proof.
    unfold new_vr_gen, inv4.
    destruct (negb (valid_digest dg)); [simpl; repeat split; auto; discriminate|].
    destruct (fixed && (sz <? 0)%Z); simpl; repeat split; auto; discriminate.
  Qed.

  (* for EVERY reader script: what ReadAll returns is exactly what the reader delivers
     before its first EOF *)
  Theorem read_all_upto_eof fixed fuel evs dg sz buf v :
    read_all H comb fixed fuel (mkBase evs None) dg sz = ((None, buf), v) -> upto_eof evs = buf.
  Proof.
    unfold read_all. destruct (sz <? 0)%Z; [discriminate|].
    pose proof (new_vr_inv4 fixed evs dg sz) as I.
    destruct (read_full (vr_read comb) fuel (new_vr fixed (mkBase evs None) dg sz) (Z.to_nat sz) []) as [[b0 e] v0] eqn:Er.
    destruct (read_full_inv4 _ _ _ _ _ _ _ _ _ I Er) as (d & E1 & I0). simpl in E1, I0. subst b0.
    destruct e as [e|]; [discriminate|].
    destruct (vr_verify H comb fuel dg v0) as [r v1] eqn:Ev.
    intro X; inversion X; subst. eapply vr_verify_inv4; eauto.
  Qed.

  Theorem copy_buffer_upto_eof fixed fuel evs bufsz dg sz out v :
    copy_buffer H comb fixed fuel (mkBase evs None) bufsz dg sz = ((None, out), v) -> upto_eof evs = out.
  Proof.
    unfold copy_buffer.
    pose proof (new_vr_inv4 fixed evs dg sz) as I.
    destruct (copy_loop comb fuel (new_vr fixed (mkBase evs None) dg sz) bufsz []) as [[e o] v0] eqn:Ec.
    pose proof (copy_loop_inv4 _ _ _ _ _ _ _ _ I Ec) as I0.
    destruct e as [e|]; [discriminate|].
    destruct (vr_verify H comb fuel dg v0) as [r v1] eqn:Ev.
    intro X; inversion X; subst. eapply vr_verify_inv4; eauto.
  Qed.

  (* hence: bytes beyond Size before the reader's first EOF are always an error, and a
     successful push stores exactly what the reader delivered before its first EOF *)
  Theorem trailing_before_eof_rejected fuel evs d :
    (d_sz d < Z.of_nat (length (upto_eof evs)))%Z ->
    (forall fixed buf v, read_all H comb fixed fuel (mkBase evs None) (d_dg d) (d_sz d) <> ((None, buf), v)) /\
    (forall bufsz out v, copy_buffer H comb true fuel (mkBase evs None) bufsz (d_dg d) (d_sz d) <> ((None, out), v)) /\
    (forall fixed m e m', mem_push H comb fixed fuel m d (mkBase evs None) = (e, m') -> e <> None /\ m' = m) /\
    (forall s e s', oci_push H comb true fuel s d (mkBase evs None) = (e, s') -> e <> None /\ s' = s).
  Proof.
    intro L.
    assert (RA : forall fixed buf v, read_all H comb fixed fuel (mkBase evs None) (d_dg d) (d_sz d) <> ((None, buf), v)).
    { intros fixed buf v E. pose proof (read_all_upto_eof _ _ _ _ _ _ _ E) as U.
      apply read_all_sound in E as ((A1 & _) & _). rewrite U in L. lia. }
    assert (CB : forall bufsz out v, copy_buffer H comb true fuel (mkBase evs None) bufsz (d_dg d) (d_sz d) <> ((None, out), v)).
    { intros bufsz out v E. pose proof (copy_buffer_upto_eof _ _ _ _ _ _ _ _ E) as U.
      apply copy_buffer_sound in E as ((A1 & _) & _). rewrite U in L. lia. }
    split; [exact RA|]. split; [exact CB|]. split.
    - intros fixed m e m'. unfold mem_push. destruct (mem_get m d).
      + intro E; inversion E; subst. split; [discriminate|reflexivity].
      + destruct (read_all H comb fixed fuel (mkBase evs None) (d_dg d) (d_sz d)) as [[[e0|] buf] v] eqn:Er;
          intro E; inversion E; subst; [split; [discriminate|reflexivity]|].
        exfalso. eapply RA; eauto.
    - intros s e s'. unfold oci_push. destruct (negb (valid_digest (d_dg d))).
      { intro E; inversion E; subst. split; [discriminate|reflexivity]. }
      destruct (oci_get s (d_dg d)).
      + intro E; inversion E; subst. split; [discriminate|reflexivity].
      + destruct (copy_buffer H comb true fuel (mkBase evs None) oci_bufsz (d_dg d) (d_sz d)) as [[[e0|] out] v] eqn:Ec;
          intro E; inversion E; subst; [split; [discriminate|reflexivity]|].
        exfalso. eapply CB; eauto.
  Qed.
End EofNotFinal.

(* ------------------------------------------------------------------ any use of a VerifyReader *)
Section EofAnyUse.
  Variable H : str -> str -> str.
  Variable comb : bool.

  (* inv4, or: verified (then the reader is inert at EOF and U = out) *)
  Definition inv5 (U : str) (v : vrd) (out : str) : Prop :=
    (v_verified v = false /\ inv4 U v out) \/
    (v_verified v = true /\ v_err v = Some EEof /\ U = out).

  Lemma vr_read_inv5 U v out k bs e v' :
    inv5 U v out -> vr_read comb v k = ((bs, e), v') -> inv5 U v' (out ++ bs).
  Proof.
    intros [[V I]|(V & Ee & Eq)] E.
    - left. pose proof (vr_read_inv4 comb _ _ _ _ _ _ _ I E) as I'. split; [apply I'|exact I'].
    - unfold vr_read in E. rewrite Ee in E. inversion E; subst. rewrite app_nil_r. right. auto.
  Qed.

  Lemma vr_verify_inv5 U fuel dg v out r v' :
    inv5 U v out -> vr_verify H comb fuel dg v = (r, v') -> inv5 U v' out /\ (r = None -> U = out).
  Proof.
    intros [[V I]|(V & Ee & Eq)] E.
    - destruct r as [e|].
      + (* an error: either nothing changed (early / an older error) or the reader is now
           in an error state other than EOF, about which inv4 says nothing *)
        split; [|discriminate]. left.
        assert (Dead : forall b N h e0 x, lim_none b = true -> x <> EEof ->
                  v_verified (set_err (mkVr b N h e0 false) x) = false /\ inv4 U (set_err (mkVr b N h e0 false) x) out).
        { intros b N h e0 x L Nx. unfold inv4, set_err; simpl. repeat split; auto; intro Q; inversion Q; congruence. }
        pose proof I as (I1 & I2 & I3 & I4). unfold vr_verify in E. rewrite I1 in E.
        destruct (ensure_eof comb fuel (v_base v, v_hashed v)) as [ok [b1 h1]] eqn:Eo.
        pose proof (ensure_eof_spec comb _ _ _ _ _ _ Eo) as (Cl & _).
        assert (L1 : lim_none b1 = true) by congruence.
        destruct (v_err v) as [e0|] eqn:Ee0.
        * destruct e0; try (inversion E; subst; split; [exact I1|exact I]; fail).
          destruct (negb ok); [inversion E; subst; apply Dead; auto; discriminate|].
          destruct (verified H dg h1); inversion E; subst. apply Dead; auto; discriminate.
        * destruct (v_N v >? 0)%Z; [inversion E; subst; split; [exact I1|exact I]|].
          destruct (negb ok); [inversion E; subst; apply Dead; auto; discriminate|].
          destruct (verified H dg h1); inversion E; subst. apply Dead; auto; discriminate.
      + pose proof (vr_verify_inv4 H comb _ _ _ _ _ _ I E) as Eq. split; auto.
        right. destruct I as (I1 & _). unfold vr_verify in E. rewrite I1 in E.
        destruct (ensure_eof comb fuel (v_base v, v_hashed v)) as [ok [b1 h1]].
        destruct (v_err v) as [e0|].
        * destruct e0; try discriminate. destruct (negb ok); [discriminate|].
          destruct (verified H dg h1); inversion E; subst. auto.
        * destruct (v_N v >? 0)%Z; [discriminate|]. destruct (negb ok); [discriminate|].
          destruct (verified H dg h1); inversion E; subst. auto.
    - unfold vr_verify in E. rewrite V in E. inversion E; subst. split; auto. right. auto.
  Qed.

  Lemma vr_run_inv5 U fuel dg ops : forall v out v' out',
    inv5 U v out -> vr_run H comb fuel dg ops v out = (v', out') -> inv5 U v' out'.
  Proof.
    induction ops as [|[k|] r IH]; intros v out v' out' I; simpl.
    - intro E; inversion E; subst; auto.
    - destruct (vr_read comb v k) as [[bs e] v1] eqn:Er. apply IH. eapply vr_read_inv5; eauto.
    - destruct (vr_verify H comb fuel dg v) as [e v1] eqn:Ev. apply IH.
      exact (proj1 (vr_verify_inv5 _ _ _ _ _ _ _ I Ev)).
  Qed.

  (* any sequence of Read(k) and Verify calls on any reader script: once Verify returns
     nil, the bytes read are exactly what the reader delivered before its first EOF *)
  Theorem verify_reader_upto_eof fuel evs dg sz ops v out v' :
    vr_run H comb fuel dg ops (new_vr true (mkBase evs None) dg sz) [] = (v, out) ->
    vr_verify H comb fuel dg v = (None, v') -> upto_eof evs = out.
  Proof.
    intros Er Ev.
    assert (I : inv5 (upto_eof evs) (new_vr true (mkBase evs None) dg sz) []).
    { left. pose proof (new_vr_inv4 true evs dg sz) as I4. split; [apply I4|exact I4]. }
    pose proof (vr_run_inv5 _ _ _ _ _ _ _ _ I Er) as I'.
    exact (proj2 (vr_verify_inv5 _ _ _ _ _ _ _ I' Ev) eq_refl).
  Qed.
End EofAnyUse.

Lemma accepts_upto_eof (H : str -> str -> str) comb fixed fuel evs bufsz dg sz :
    (forall buf v, read_all H comb fixed fuel (mkBase evs None) dg sz = ((None, buf), v) -> upto_eof evs = buf) /\
    (forall out v, copy_buffer H comb fixed fuel (mkBase evs None) bufsz dg sz = ((None, out), v) -> upto_eof evs = out).
Proof.
  split.
  - intros buf v. apply read_all_upto_eof.
  - intros out v. apply copy_buffer_upto_eof.
Qed.

(* the transition systems, for every reader script: a push that reports success has put /
   made visible exactly what its reader delivered before its first EOF *)
Section EofConc.
  Variable H : str -> str -> str.

  Lemma cstep_success_upto st i n st' t w :
    cinv H st -> cstep H st i n = Some st' ->
    nth_error (c_thr st) i = Some t -> t_pc t = PIngest w [] None ->
    oci_get (c_blobs st') (d_dg (t_d t)) = Some (upto_eof (t_evs t)) /\
    matches_desc H (d_dg (t_d t)) (d_sz (t_d t)) (upto_eof (t_evs t)).
  Proof.
    intros [Ob Ft] Es Ei Epc. unfold cstep in Es. rewrite Ei, Epc in Es. inversion Es; subst; clear Es.
    pose proof (Forall_nth_error _ _ _ _ Ft Ei) as Pt. unfold thr_ok in Pt. rewrite Epc in Pt.
    destruct Pt as [v Ec]. rewrite app_nil_r in Ec.
    pose proof (copy_buffer_upto_eof H (t_comb t) true _ _ _ _ _ _ _ Ec) as U.
    apply copy_buffer_sound in Ec as (A & _). rewrite U. simpl. rewrite str_eqb_refl. auto.
  Qed.

  Lemma concurrent_oci_upto blobs ts sched st :
    oci_reach H blobs -> Forall (fun t => t_pc t = PStart) ts ->
    crun H (mkC blobs ts) sched = Some st ->
    forall i n st' t w, cstep H st i n = Some st' -> nth_error (c_thr st) i = Some t ->
      t_pc t = PIngest w [] None ->
      oci_get (c_blobs st') (d_dg (t_d t)) = Some (upto_eof (t_evs t)) /\
      matches_desc H (d_dg (t_d t)) (d_sz (t_d t)) (upto_eof (t_evs t)).
  Proof.
    intros R F E i n st' t w Es Ei Ep.
    pose proof (crun_inv H sched _ _ (cinv_start H blobs ts (oci_reach_ok H blobs R) F) E) as Iv.
    eapply cstep_success_upto; eauto.
  Qed.
End EofConc.

(* a successful push stores exactly what its reader delivered before its first EOF *)
Section EofStores.
  Variable H : str -> str -> str.
  Variable comb : bool.

  Lemma push_stores_upto_eof fuel evs d :
    (forall fixed m m', mem_push H comb fixed fuel m d (mkBase evs None) = (None, m') -> m' = (d, upto_eof evs) :: m) /\
    (forall s s', oci_push H comb true fuel s d (mkBase evs None) = (None, s') -> s' = (d_dg d, upto_eof evs) :: s) /\
    (forall s name path s', name <> [] -> file_push H comb true fuel s name path d evs = (None, s') ->
       assoc_get (f_files s') path = Some (upto_eof evs)).
  Proof.
    split; [|split].
    - intros fixed m m'. unfold mem_push. destruct (mem_get m d); [discriminate|].
      destruct (read_all H comb fixed fuel (mkBase evs None) (d_dg d) (d_sz d)) as [[[e0|] buf] v] eqn:Er; [discriminate|].
      intro E; inversion E; subst. rewrite (read_all_upto_eof H comb _ _ _ _ _ _ _ Er). reflexivity.
    - intros s s'. unfold oci_push. destruct (negb (valid_digest (d_dg d))); [discriminate|].
      destruct (oci_get s (d_dg d)); [discriminate|].
      destruct (copy_buffer H comb true fuel (mkBase evs None) oci_bufsz (d_dg d) (d_sz d)) as [[[e0|] out] v] eqn:Ec; [discriminate|].
      intro E; inversion E; subst. rewrite (copy_buffer_upto_eof H comb _ _ _ _ _ _ _ _ Ec). reflexivity.
    - intros s name path s' Nn. unfold file_push. destruct name as [|c n0]; [congruence|].
      destruct (name_in (c :: n0) (f_names s)); [discriminate|].
      destruct (copy_buffer H comb true fuel (mkBase evs None) file_bufsz (d_dg d) (d_sz d)) as [[[e0|] out] v] eqn:Ec; [discriminate|].
      intro E; inversion E; subst. simpl. rewrite str_eqb_refl.
      rewrite (copy_buffer_upto_eof H comb _ _ _ _ _ _ _ _ Ec). reflexivity.
  Qed.
End EofStores.

(* the other two transition systems, for every reader script (EOF not final) *)
From Oras Require Import Proofs.VerifyConc Proofs.VerifyNames Proofs.VerifyFileConc.

Section EofConc2.
  Variable H : str -> str -> str.

  (* cas.Memory without LimitedStorage: what a successful LoadOrStore stores is exactly what
     the thread's reader delivered before its first EOF *)
  Lemma memory_concurrent_upto m ts sched st :
    mem_reach H m -> Forall (fun t => m_pc t = MStart /\ m_lim t = None) ts ->
    mrun H (mkM m ts) sched = Some st ->
    forall i t buf, nth_error (ms_thr st) i = Some t -> m_pc t = MRead None buf -> buf = upto_eof (m_evs t).
  Proof.
    intros R F E.
    (* invariant: every thread without a limit that has read successfully holds upto_eof *)
    assert (Inv : forall sched st0 st1,
              Forall (fun t => m_lim t = None /\ forall buf, m_pc t = MRead None buf -> buf = upto_eof (m_evs t)) (ms_thr st0) ->
              mrun H st0 sched = Some st1 ->
              Forall (fun t => m_lim t = None /\ forall buf, m_pc t = MRead None buf -> buf = upto_eof (m_evs t)) (ms_thr st1)).
    { induction sched0 as [|i r IH]; intros st0 st1 F0; simpl.
      - intro X; inversion X; subst; auto.
      - destruct (mstep H st0 i) as [st2|] eqn:Es; [|discriminate]. apply IH.
        unfold mstep in Es. destruct (nth_error (ms_thr st0) i) as [t|] eqn:Ei; [|discriminate].
        pose proof (Forall_nth_error _ _ _ _ F0 Ei) as [Lt Pt].
        assert (Keep : forall p, (forall buf, p = MRead None buf -> buf = upto_eof (m_evs t)) ->
                  Forall (fun t => m_lim t = None /\ forall buf, m_pc t = MRead None buf -> buf = upto_eof (m_evs t))
                         (set_nth (ms_thr st0) i (with_mpc t p))).
        { intros p Hp. apply Forall_set_nth; auto. }
        destruct (m_pc t) as [|[e|] buf|r0] eqn:Epc; [| | |discriminate].
        + rewrite Lt in Es.
          destruct (mem_get (ms_mem st0) (m_d t)).
          * inversion Es; subst. apply Keep. intros b X; discriminate.
          * destruct (read_all H (m_comb t) true (m_fuel t) (mkBase (m_evs t) None) (d_dg (m_d t)) (d_sz (m_d t)))
              as [[e buf] v] eqn:Er.
            inversion Es; subst. apply Keep. intros b X. inversion X; subst.
            symmetry. eapply read_all_upto_eof; eauto.
        + inversion Es; subst. apply Keep. intros b X; discriminate.
        + destruct (mem_get (ms_mem st0) (m_d t)); inversion Es; subst; apply Keep; intros b X; discriminate. }
    intros i t buf Ei Ep.
    assert (F0 : Forall (fun t => m_lim t = None /\ forall buf, m_pc t = MRead None buf -> buf = upto_eof (m_evs t)) ts).
    { eapply Forall_impl; [|exact F]. intros t0 [A B]. split; auto. intros b X. congruence. }
    pose proof (Inv sched (mkM m ts) st F0 E) as F1. simpl in F1.
    destruct (Forall_nth_error _ _ _ _ F1 Ei) as [_ P]. apply P. exact Ep.
  Qed.

  (* named file-store pushes: what becomes visible under the name is exactly what the
     reader delivered before its first EOF *)
  Lemma file_concurrent_upto (U : list str)
        (U_inj : forall a c, In a U -> In c U -> resolve_name a = resolve_name c -> a = c) s ts sched st :
    file_reach_names H s -> (forall n, name_in n (f_names s) = true -> In n U) ->
    Forall (fun t => ft_pc t = FStart /\ In (ft_name t) U) ts ->
    frun H (mkFC s ts) sched = Some st ->
    forall i st' t out path, fstep H st i = Some st' -> nth_error (fc_thr st) i = Some t ->
      ft_pc t = FWrite None out path ->
      file_fetch (fc_st st') (ft_name t) (ft_d t) = Some (upto_eof (ft_evs t)).
  Proof.
    intros R Su F E i st' t out path Es Ei Ep.
    destruct (file_concurrent H U U_inj s ts sched st R Su F E) as [_ Suc].
    destruct (Suc i st' t out path Es Ei Ep) as (Ff & _ & _).
    (* out = upto_eof: the thread's FWrite state records the result of its CopyBuffer *)
    pose proof (frun_inv H U U_inj sched _ _ (finv_start H U s ts R Su F) E) as (_ & _ & _ & Ft & _).
    pose proof (Forall_nth_error _ _ _ _ Ft Ei) as [_ Pt]. rewrite Ep in Pt.
    destruct Pt as (_ & _ & _ & v & Ec).
    rewrite Ff. f_equal. symmetry. eapply copy_buffer_upto_eof; eauto.
  Qed.
End EofConc2.
