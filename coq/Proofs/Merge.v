(* C14 — invariants of the Merge / Pool / updateReferrersIndex transition
   system of Model/Merge.v, for every trace (= every interleaving of lock
   regions and HTTP exchanges of any number of callers, with injected
   failures of the index GET / PUT / DELETE). *)
From Oras Require Import Base.Prelude Model.Referrers Proofs.Referrers Model.Merge.
From Coq Require Import Lia.

Lemma upd_eq {A} (f : nat -> A) k v : upd f k v k = v.
Proof. unfold upd. now rewrite Nat.eqb_refl. Qed.

Lemma upd_neq {A} (f : nat -> A) k v x : x <> k -> upd f k v x = f x.
Proof. unfold upd. intro H. apply Nat.eqb_neq in H. now rewrite H. Qed.

Lemma mem_In t l : mem t l = true <-> In t l.
Proof.
  unfold mem. rewrite existsb_exists. split.
  - intros (x & Hx & E). apply Nat.eqb_eq in E. now subst.
  - intro H. exists t. split; auto. apply Nat.eqb_refl.
Qed.

Lemma mem_false t l : mem t l = false <-> ~ In t l.
Proof. rewrite <- mem_In. destruct (mem t l); split; congruence. Qed.

Ltac tcase t' t :=
  let Hne := fresh "Hne" in
  destruct (Nat.eq_dec t' t) as [->|Hne];
  [rewrite ?upd_eq in * | rewrite ?upd_neq in * by exact Hne].

Lemma in_map_fst_snoc {A B} (l : list (A * B)) x y z :
  In z (map fst (l ++ [(x, y)])) <-> In z (map fst l) \/ z = x.
Proof. rewrite map_app, in_app_iff. simpl. intuition. Qed.

Lemma in_snoc {A} (l : list A) x z : In z (l ++ [x]) <-> In z l \/ z = x.
Proof. rewrite in_app_iff. simpl. intuition. Qed.

Lemma NoDup_map_fst_snoc {A B} (l : list (A * B)) x y :
  NoDup (map fst l) -> ~ In x (map fst l) -> NoDup (map fst (l ++ [(x, y)])).
Proof. intros. rewrite map_app. simpl. now apply NoDup_app_one. Qed.

Lemma snoc_not_nil {A} (l : list A) x : l ++ [x] <> [].
Proof. destruct l; discriminate. Qed.

Lemma in_fst {A B} (l : list (A * B)) x y : In (x, y) l -> In x (map fst l).
Proof. intro H. apply in_map_iff. exists (x, y). auto. Qed.

Definition post_commit (p : pc) : bool :=
  match p with NeedPut _ _ | NeedDel _ _ | Completing _ => true | _ => false end.

Definition flag (p : pc) : bool :=
  match p with
  | NeedDel _ a => a
  | Completing r => match r with RErr => false | _ => true end
  | _ => false
  end.

Lemma main_holding p : is_main p = true -> holding p = true.
Proof. destruct p; simpl; congruence. Qed.
Lemma post_commit_main p : post_commit p = true -> is_main p = true.
Proof. destruct p; simpl; congruence. Qed.

(* ------------------------------------------------------------------ *)
(* Structure of the protocol                                           *)
(* ------------------------------------------------------------------ *)
Record InvS (s : state) : Prop := {
  i_items : forall t c, In (t, c) (items s) ->
      (pcs s t = Wait \/ is_main (pcs s t) = true) /\ arg s t = c;
  i_items_nd : NoDup (batch s);
  i_pend : forall t c, In (t, c) (pending s) ->
      pcs s t = Wait /\ arg s t = c /\ ~ In t (batch s);
  i_pend_nd : NoDup (map fst (pending s));
  i_main_in : forall t, is_main (pcs s t) = true -> In t (batch s) /\ token s = false;
  i_main_unique : forall t1 t2, is_main (pcs s t1) = true -> is_main (pcs s t2) = true -> t1 = t2;
  i_token : token s = true -> items s <> [] /\ committed s = false;
  i_nomain : items s = [] ->
      token s = false /\ committed s = false /\ pending s = [] /\ applied s = false;
  i_committed : forall t, post_commit (pcs s t) = true -> committed s = true;
  i_applied : applied s = true -> committed s = true;
  i_got : forall t c, pcs s t = Got c -> arg s t = c;
  i_wait : forall t, pcs s t = Wait -> In t (batch s) \/ In t (map fst (pending s));
  i_token_or_main : items s <> [] -> token s = true \/ exists t, is_main (pcs s t) = true;
  i_pool : exists hs, NoDup hs /\ (forall t, In t hs <-> holding (pcs s t) = true) /\
      match pool s with None => hs = [] | Some rc => rc = length hs /\ hs <> [] end
}.

Lemma invS_init r0 st0 : InvS (init r0 st0).
Proof.
  constructor; simpl; intros; try discriminate; try tauto; try (now constructor).
  exists []. repeat split; try constructor; simpl; try tauto; discriminate.
Qed.

Ltac inst :=
  repeat match goal with
  | H : Some _ = Some _ |- _ => injection H as H; try subst
  | H : (_, _) = (_, _) |- _ => injection H as ? ?; try subst
  | H : _ /\ _ |- _ => destruct H
  | H : exists _, _ |- _ => destruct H
  | H : In _ (map fst (_ ++ [(_, _)])) |- _ => apply in_map_fst_snoc in H
  | H : In _ (_ ++ [_]) |- _ => apply in_snoc in H
  | H : _ \/ _ |- _ => destruct H
  end.

Ltac fin :=
  try discriminate; try congruence; try lia; try tauto;
  try (unfold batch in *; simpl in *; rewrite ?in_map_fst_snoc, ?in_snoc in *);
  try solve [eauto 4 using snoc_not_nil, NoDup_map_fst_snoc, in_fst
            | intuition (try congruence; try lia; eauto 4 using in_fst)].

Ltac solveS t :=
  intros;
  repeat match goal with
         | H : context [upd _ t _ ?x] |- _ => tcase x t
         | |- context [upd _ t _ ?x] => tcase x t
         end;
  simpl in *; inst; fin.

Lemma pool_same_holding s t p hs :
  holding (pcs s t) = true -> holding p = true ->
  (forall t', In t' hs <-> holding (pcs s t') = true) ->
  (forall t', In t' hs <-> holding (upd (pcs s) t p t') = true).
Proof.
  intros H1 H2 H t'. tcase t' t; [rewrite H; tauto | apply H].
Qed.

Ltac poolS t :=
  match goal with Hp : exists hs, NoDup hs /\ _ |- _ =>
    let hs := fresh "hs" in destruct Hp as (hs & ? & ? & ?); exists hs;
    split; [assumption|split; [apply pool_same_holding;
      [match goal with Hq : pcs _ t = _ |- _ => rewrite Hq; reflexivity end|reflexivity|assumption] | assumption]] end.

(* facts about the stepping thread used by several cases *)
Lemma not_in_batch s t : InvS s -> pcs s t <> Wait -> is_main (pcs s t) = false -> ~ In t (batch s).
Proof.
  intros I H1 H2 Hin. unfold batch in Hin. apply in_map_iff in Hin as ((t', c) & E & Hin). simpl in E. subst t'.
  destruct (i_items s I t c Hin) as [[H|H] _]; congruence.
Qed.

Lemma not_in_pending s t : InvS s -> pcs s t <> Wait -> ~ In t (map fst (pending s)).
Proof.
  intros I H1 Hin. apply in_map_iff in Hin as ((t', c) & E & Hin). simpl in E. subst t'.
  destruct (i_pend s I t c Hin) as [H _]. congruence.
Qed.

Lemma pool_none s : InvS s -> pool s = None ->
  (forall t, holding (pcs s t) = false) /\ items s = [] /\ pending s = [].
Proof.
  intros I Hp. destruct (i_pool s I) as (hs & _ & Hin & Hm). rewrite Hp in Hm. subst hs.
  assert (Hh : forall t, holding (pcs s t) = false).
  { intro t. destruct (holding (pcs s t)) eqn:E; auto. apply Hin in E. destruct E. }
  split; auto. split.
  - destruct (items s) as [|[t c] l] eqn:E; auto.
    destruct (i_items s I t c) as [[H|H] _]; [rewrite E; now left| |];
      specialize (Hh t); [rewrite H in Hh | apply main_holding in H; rewrite H in Hh]; discriminate.
  - destruct (pending s) as [|[t c] l] eqn:E; auto.
    destruct (i_pend s I t c) as [H _]; [rewrite E; now left|].
    specialize (Hh t). rewrite H in Hh. discriminate.
Qed.

Lemma token_or_main_keep s t p :
  is_main (pcs s t) = false \/ is_main p = true ->
  token s = true \/ (exists t0, is_main (pcs s t0) = true) ->
  token s = true \/ exists t0, is_main (upd (pcs s) t p t0) = true.
Proof.
  intros Hc [H|(t0 & H)]; auto. right. destruct (Nat.eq_dec t0 t) as [->|Hne].
  - destruct Hc as [Hc|Hc]; [congruence|]. exists t. now rewrite upd_eq.
  - exists t0. now rewrite upd_neq.
Qed.

Ltac tomS := solve [let Hx := fresh "Hx" in intro Hx; apply token_or_main_keep;
  [first [left; match goal with Hq : pcs _ _ = _ |- _ => rewrite Hq; reflexivity end | right; reflexivity]
  | match goal with Hi : _ <> [] -> _ \/ _ |- _ => apply Hi; exact Hx end]].

Lemma stepS_get sg s t c s' : InvS s -> step sg s (EGet t c) = Some s' -> InvS s'.
Proof.
  intros I H. simpl in H.
  destruct (pcs s t) eqn:Hpc; try discriminate.
  destruct (is_empty (cdesc c)) eqn:Hne0; try discriminate.
  assert (Hnb : ~ In t (batch s)) by (apply not_in_batch; auto; rewrite Hpc; [discriminate|reflexivity]).
  assert (Hnp : ~ In t (map fst (pending s))) by (apply not_in_pending; auto; rewrite Hpc; discriminate).
  destruct (pool s) as [rc|] eqn:Hpool; injection H as <-.
  + destruct I. constructor; simpl.
    all: try solve [solveS t | tomS].
    all: try solve [intros t0 c0 Hin; assert (t0 <> t) by (intro; subst; eauto using in_fst);
                    rewrite !upd_neq by auto; auto].
    * destruct i_pool0 as (hs & Hnd & Hin & Hp). rewrite Hpool in Hp. destruct Hp as [-> Hp].
      exists (t :: hs). repeat split; try discriminate.
      -- constructor; auto. intro Hx. apply Hin in Hx. rewrite Hpc in Hx. discriminate.
      -- intros [<-|Hx]; [now rewrite upd_eq|]. tcase t0 t; auto. now apply Hin.
      -- intro Hx. tcase t0 t; [now left|]. right. now apply Hin.
  + destruct (pool_none s I Hpool) as (Hh & Hi & Hpd).
    destruct (i_nomain s I Hi) as (Ht & Hc & _ & Ha).
    assert (Hnm : forall t0, is_main (pcs s t0) = false).
    { intro t0. destruct (is_main (pcs s t0)) eqn:E; auto. apply main_holding in E. rewrite Hh in E. discriminate. }
    destruct I. constructor; simpl.
    all: try solve [solveS t].
    all: try solve [constructor].
    all: try solve [intros t0 Hx; tcase t0 t; [discriminate|]; try apply post_commit_main in Hx; rewrite Hnm in Hx; discriminate].
    all: try solve [intro Hx; congruence].
    all: try solve [intros t0 Hx; tcase t0 t; [discriminate|]; exfalso; specialize (Hh t0); rewrite Hx in Hh; discriminate].
    exists [t]. repeat split; try discriminate.
    -- constructor; [simpl; tauto|constructor].
    -- intros [<-|[]]. now rewrite upd_eq.
    -- intro Hx. tcase t0 t; [now left|]. rewrite Hh in Hx. discriminate.
Qed.

Lemma stepS_assign sg s t s' : InvS s -> step sg s (EAssign t) = Some s' -> InvS s'.
Proof.
  intros I H. simpl in H.
  destruct (pcs s t) eqn:Hpc; try discriminate.
  assert (Hnb : ~ In t (batch s)) by (apply not_in_batch; auto; rewrite Hpc; [discriminate|reflexivity]).
  assert (Hnp : ~ In t (map fst (pending s))) by (apply not_in_pending; auto; rewrite Hpc; discriminate).
  assert (Harg : arg s t = c) by (eapply i_got; eauto).
  assert (Hne_items : forall t0 c0, In (t0, c0) (items s) -> t0 <> t) by (intros t0 c0 Hin ->; eauto using in_fst).
  assert (Hne_pend : forall t0 c0, In (t0, c0) (pending s) -> t0 <> t) by (intros t0 c0 Hin ->; eauto using in_fst).
  destruct (committed s) eqn:Hc; injection H as <-.
  + destruct I. constructor; simpl.
    all: try solve [solveS t | poolS t | tomS].
    all: try solve [intros t0 c0 Hin; rewrite !upd_neq by eauto; auto].
    all: try solve [intros t0 Hx; tcase t0 t; [right; apply in_map_fst_snoc; auto|];
                    destruct (i_wait0 t0 Hx); [auto|right; apply in_map_fst_snoc; auto]].
    intros t0 c0 Hin. apply in_snoc in Hin. destruct Hin as [Hin|Hin].
    * rewrite !upd_neq by eauto. auto.
    * injection Hin as -> ->. rewrite upd_eq. auto.
  + destruct I. constructor; simpl.
    all: try solve [solveS t | poolS t].
    all: try solve [intros t0 c0 Hin; apply in_snoc in Hin; destruct Hin as [Hin|Hin];
                    [rewrite !upd_neq by eauto; auto | injection Hin as -> ->; rewrite upd_eq; auto]].
    all: try solve [intros t0 c0 Hin; rewrite !upd_neq by eauto; destruct (i_pend0 t0 c0 Hin) as (A & B & C);
                    repeat split; auto; unfold batch; simpl; rewrite in_map_fst_snoc; intros [Hx|Hx]; [auto|];
                    subst; eapply Hne_pend; eauto].
    all: try solve [intros t0 Hx; tcase t0 t; [discriminate|]; destruct (i_main_in0 t0 Hx) as [A B]; split;
                    [unfold batch; simpl; rewrite in_map_fst_snoc; auto
                    |unfold batch in A; destruct (items s); [destruct A|]; simpl; auto]].
    all: try solve [intro Hx; exfalso; eapply snoc_not_nil; eauto].
    all: try solve [intros t0 Hx; unfold batch; simpl; rewrite in_map_fst_snoc; tcase t0 t; [auto|];
                    destruct (i_wait0 t0 Hx); auto].
    intros _. destruct (items s) as [|it its] eqn:Ei; [now left|]. simpl.
    apply token_or_main_keep; [left; rewrite Hpc; reflexivity|]. apply i_token_or_main0. discriminate.
Qed.

(* a step of the main thread that stays main: only its pc, the committed flag,
   the registry and ghost fields change *)
Lemma invS_main s t p cm r st l j ap :
  InvS s -> is_main (pcs s t) = true -> is_main p = true ->
  (committed s = true -> cm = true) -> (post_commit p = true -> cm = true) -> (ap = true -> cm = true) ->
  InvS (mkSt (pool s) cm (items s) (token s) (pending s) (upd (pcs s) t p) r st (arg s) l j ap).
Proof.
  intros I Hm Hp Hc1 Hc2 Hc3.
  destruct (i_main_in s I t Hm) as [Hin Htok].
  assert (Hni : items s <> []).
  { unfold batch in Hin. destruct (items s); [destruct Hin|discriminate]. }
  assert (Hu : forall t0, is_main (pcs s t0) = true -> t0 = t) by (intros; eapply i_main_unique; eauto).
  destruct I. constructor; simpl.
  all: try solve [solveS t | poolS t].
  all: try solve [intros t0 c0 Hin0; destruct (i_items0 t0 c0 Hin0) as [A B]; split; auto; tcase t0 t; auto].
  all: try solve [intros t0 c0 Hin0; destruct (i_pend0 t0 c0 Hin0) as (A & B & C); repeat split; auto;
                  tcase t0 t; auto; rewrite A in Hm; discriminate].
  all: try solve [intros t0 Hx; tcase t0 t; auto].
  all: try solve [intros t1 t2 H1 H2; tcase t1 t; tcase t2 t; auto; symmetry; auto].
  all: try solve [intros t0 Hx; tcase t0 t; auto; apply Hc1; eapply i_committed0; eauto].
  all: try solve [intros t0 c0 Hx; tcase t0 t; [rewrite Hx in Hp; discriminate | eauto]].
  all: try solve [intros t0 Hx; tcase t0 t; [rewrite Hx in Hp; discriminate | auto]].
  all: try solve [intros _; right; exists t; rewrite upd_eq; exact Hp].
  destruct i_pool0 as (hs & A & B & C); exists hs; repeat split; auto.
  - intro Hx; tcase t0 t; [now apply main_holding|]; now apply B.
  - intro Hx; apply B; tcase t0 t; [now apply main_holding|auto].
Qed.

Lemma stepS_main_events sg s e s' t :
  InvS s -> step sg s e = Some s' ->
  (e = ECommit t \/ (exists f, e = EPrepare t f) \/ (exists f, e = EPut t f) \/ (exists f, e = EDel t f)) ->
  InvS s'.
Proof.
  intros I H [->|[[f ->]|[[f ->]|[f ->]]]]; simpl in H.
  - destruct (pcs s t) eqn:Hpc; try discriminate.
    destruct old as [o|].
    + destruct (apply_changes (idx o) (map snd (items s))) as [|new] eqn:Ea.
      * injection H as <-. unfold set_pc, add_lin, set_committed; simpl.
        apply invS_main; auto; rewrite ?Hpc; auto.
      * destruct (negb (is_nil new) || sg).
        -- injection H as <-. unfold set_pc, set_committed; simpl. apply invS_main; auto; rewrite ?Hpc; auto.
        -- destruct o as [oi|]; injection H as <-; unfold set_pc, add_lin, set_committed; simpl;
             apply invS_main; auto; rewrite ?Hpc; auto.
    + injection H as <-. unfold set_pc, set_committed; simpl. apply invS_main; auto; rewrite ?Hpc; auto.
  - destruct (pcs s t) eqn:Hpc; try discriminate. injection H as <-.
    unfold set_pc. apply invS_main; auto; rewrite ?Hpc; auto; try discriminate. apply (i_applied s I).
  - destruct (pcs s t) eqn:Hpc; try discriminate.
    assert (Hcm : committed s = true) by (apply (i_committed s I t); rewrite Hpc; reflexivity).
    destruct f; injection H as <-; unfold set_pc, add_lin, set_reg; simpl;
      apply invS_main; auto; rewrite ?Hpc; auto.
    unfold after_put. destruct sg; [reflexivity|]. destruct old; reflexivity.
  - destruct (pcs s t) as [|c0| | |o|nw o|oi ap|r|r|r] eqn:Hpc; try discriminate.
    assert (Hcm : committed s = true) by (apply (i_committed s I t); rewrite Hpc; reflexivity).
    destruct f; injection H as <-.
    + unfold set_pc, set_reg; simpl. apply invS_main; auto; rewrite ?Hpc; auto.
    + destruct ap; unfold set_pc, add_lin, set_reg; simpl; apply invS_main; auto; rewrite ?Hpc; auto.
Qed.

Lemma stepS_recv sg s t s' : InvS s -> step sg s (ERecvMain t) = Some s' -> InvS s'.
Proof.
  intros I H. simpl in H.
  destruct (pcs s t) eqn:Hpc; try discriminate.
  destruct (token s) eqn:Htok; simpl in H; try discriminate.
  destruct (mem t (batch s)) eqn:Hmem; try discriminate. injection H as <-.
  apply mem_In in Hmem.
  assert (Hnm : forall t0, is_main (pcs s t0) = false).
  { intro t0. destruct (is_main (pcs s t0)) eqn:E; auto. destruct (i_main_in s I t0 E). congruence. }
  destruct (i_token s I Htok) as [Hni Hcm].
  destruct I. constructor; simpl.
  all: try solve [solveS t | poolS t].
  all: try solve [intros _; right; exists t; rewrite upd_eq; reflexivity].
  all: try solve [intros t0 Hx; tcase t0 t; [discriminate|auto]].
  - intros t0 c0 Hin. destruct (i_items0 t0 c0 Hin) as [A B]. split; auto. tcase t0 t; auto.
  - intros t0 c0 Hin. destruct (i_pend0 t0 c0 Hin) as (A & B & C). repeat split; auto.
    tcase t0 t; auto. tauto.
Qed.

Lemma remove_facts (hs : list nat) t : NoDup hs -> In t hs ->
  NoDup (remove Nat.eq_dec t hs) /\
  (forall x, In x (remove Nat.eq_dec t hs) <-> In x hs /\ x <> t) /\
  S (length (remove Nat.eq_dec t hs)) = length hs.
Proof.
  induction hs as [|h l IH]; intros Hnd Hin; [destruct Hin|].
  inversion Hnd as [|? ? Hn Hd]; subst. simpl.
  destruct (Nat.eq_dec t h) as [->|Hne].
  - assert (E : remove Nat.eq_dec h l = l) by (apply notin_remove; auto).
    rewrite E. split; [auto|split; [|reflexivity]].
    intro x. split.
    + intro Hx. split; [now right|]. intro; subst. auto.
    + intros [[Hx|Hx] Hy]; congruence.
  - destruct Hin as [Hin|Hin]; [congruence|].
    destruct (IH Hd Hin) as (A & B & C). split; [|split].
    + constructor; auto. intro Hx. apply B in Hx. tauto.
    + intro x. split.
      * intros [Hx|Hx]; [subst; split; [now left|congruence]|]. apply B in Hx. split; [now right|tauto].
      * intros [[Hx|Hx] Hy]; [now left|right; apply B; auto].
    + simpl. lia.
Qed.

Lemma stepS_done sg s t s' : InvS s -> step sg s (EDone t) = Some s' -> InvS s'.
Proof.
  intros I H. simpl in H.
  destruct (pcs s t) as [|c0| | |o|nw o|oi ap|r|r|r] eqn:Hpc; try discriminate.
  destruct (pool s) as [rc|] eqn:Hpool; try discriminate. injection H as <-.
  assert (Hnb : ~ In t (batch s)) by (apply not_in_batch; auto; rewrite Hpc; [discriminate|reflexivity]).
  assert (Hnp : ~ In t (map fst (pending s))) by (apply not_in_pending; auto; rewrite Hpc; discriminate).
  assert (Hne_items : forall t0 c0, In (t0, c0) (items s) -> t0 <> t) by (intros t0 c0 Hin ->; eauto using in_fst).
  assert (Hne_pend : forall t0 c0, In (t0, c0) (pending s) -> t0 <> t) by (intros t0 c0 Hin ->; eauto using in_fst).
  destruct I. constructor; simpl.
  all: try solve [solveS t | tomS].
  all: try solve [intros t0 c0 Hin; rewrite !upd_neq by eauto; auto].
  all: try solve [intros t0 Hx; tcase t0 t; [discriminate|auto]].
  destruct i_pool0 as (hs & Hnd & Hin & Hp). rewrite Hpool in Hp. destruct Hp as [-> Hne0].
  assert (Ht : In t hs) by (apply Hin; rewrite Hpc; reflexivity).
  destruct (remove_facts hs t Hnd Ht) as (A & B & C).
  exists (remove Nat.eq_dec t hs). repeat split; auto.
  - intro Hx. apply B in Hx as [Hx Hy]. rewrite upd_neq by auto. now apply Hin.
  - intro Hx. tcase t0 t; [discriminate|]. apply B. split; auto. now apply Hin.
  - destruct (Nat.leb (length hs - 1) 0) eqn:El.
    + apply Nat.leb_le in El. destruct (remove Nat.eq_dec t hs) eqn:Er; [reflexivity|]. exfalso. rewrite ?Er in C. simpl in C. unfold tid in *. lia.
    + apply Nat.leb_gt in El. unfold tid in *. split; [lia|]. intro E. rewrite E in C. simpl in C. lia.
Qed.

Lemma batch_member s t : InvS s -> In t (batch s) -> pcs s t = Wait \/ is_main (pcs s t) = true.
Proof.
  intros I Hin. unfold batch in Hin. apply in_map_iff in Hin as ((t', c) & E & Hin). simpl in E. subst t'.
  now destruct (i_items s I t c Hin).
Qed.

Definition complete_pcs (s : state) (t : tid) (r : result) : tid -> pc :=
  fun x => if Nat.eqb x t then Ret r else if mem x (batch s) then Ret r else pcs s x.

Lemma complete_pcs_cases s t r x :
  ((x = t \/ In x (batch s)) /\ complete_pcs s t r x = Ret r) \/
  (x <> t /\ ~ In x (batch s) /\ complete_pcs s t r x = pcs s x).
Proof.
  unfold complete_pcs. destruct (Nat.eqb_spec x t) as [->|Hne]; [left; auto|].
  destruct (mem x (batch s)) eqn:E.
  - apply mem_In in E. left; auto.
  - apply mem_false in E. right; auto.
Qed.

Lemma stepS_complete sg s t s' : InvS s -> step sg s (EComplete t) = Some s' -> InvS s'.
Proof.
  intros I H. simpl in H.
  destruct (pcs s t) as [|c0| | |o|nw o|oi ap|r|r|r] eqn:Hpc; try discriminate. injection H as <-.
  fold (complete_pcs s t r).
  assert (Hm : is_main (pcs s t) = true) by (rewrite Hpc; reflexivity).
  destruct (i_main_in s I t Hm) as [Htb Htok].
  assert (Hnomain : forall x, is_main (complete_pcs s t r x) = false).
  { intro x. destruct (complete_pcs_cases s t r x) as [[_ E]|(A & B & E)]; rewrite E; [reflexivity|].
    destruct (is_main (pcs s x)) eqn:Em; auto. destruct (i_main_in s I x Em). tauto. }
  constructor; simpl.
  - intros t0 c0 Hin. destruct (i_pend s I t0 c0 Hin) as (A & B & C). split; auto.
    destruct (complete_pcs_cases s t r t0) as [[[E|E] _]|(_ & _ & E)]; [subst; tauto|tauto|]. rewrite E. auto.
  - apply (i_pend_nd s I).
  - intros t0 c0 [].
  - constructor.
  - intros t0 Hx. rewrite Hnomain in Hx. discriminate.
  - intros t1 t2 Hx. rewrite Hnomain in Hx. discriminate.
  - intro Hx. split; auto. destruct (pending s); [discriminate|discriminate].
  - intro Hx. rewrite Hx. auto.
  - intros t0 Hx. apply post_commit_main in Hx. rewrite Hnomain in Hx. discriminate.
  - discriminate.
  - intros t0 c0 Hx. destruct (complete_pcs_cases s t r t0) as [[_ E]|(_ & _ & E)]; rewrite E in Hx; [discriminate|].
    eapply i_got; eauto.
  - intros x Hx. destruct (complete_pcs_cases s t r x) as [[_ E]|(A & B & E)]; rewrite E in Hx; [discriminate|].
    destruct (i_wait s I x Hx) as [Hw|Hw]; [tauto|]. left. exact Hw.
  - intro Hx. left. destruct (pending s); [congruence|reflexivity].
  - destruct (i_pool s I) as (hs & A & B & C). exists hs. repeat split; auto.
    + intro Hx. apply B in Hx. destruct (complete_pcs_cases s t r t0) as [[_ E]|(_ & _ & E)]; rewrite E; auto.
    + intro Hx. apply B. destruct (complete_pcs_cases s t r t0) as [[[E0|E0] E]|(_ & _ & E)].
      * subst. now apply main_holding.
      * destruct (batch_member s t0 I E0) as [E1|E1]; [now rewrite E1|now apply main_holding].
      * now rewrite <- E.
Qed.

Lemma stepS sg s e s' : InvS s -> step sg s e = Some s' -> InvS s'.
Proof.
  intros I H. destruct e.
  - eapply stepS_get; eauto.
  - eapply stepS_assign; eauto.
  - eapply stepS_recv; eauto.
  - eapply stepS_main_events; eauto.
  - eapply stepS_main_events; eauto.
  - eapply stepS_main_events; eauto 6.
  - eapply stepS_main_events; eauto 6.
  - eapply stepS_complete; eauto.
  - eapply stepS_done; eauto.
  - (* EExtDrop: only the registry cell changes *)
    simpl in H. destruct (reg s) as [x|]; [|discriminate].
    destruct (forallb is_empty x); [|discriminate]. injection H as <-.
    destruct I. constructor; simpl; auto.
Qed.
