(* C14 — structural invariant of the Merge / Pool / updateReferrersIndex transition system of
   Model/Merge.v (pieces: MergeBase, MergeSA, MergeSB, MergeSC), for every trace. *)
From Oras Require Import Base.Prelude Model.Referrers Proofs.Referrers Model.Merge.
From Oras Require Export Proofs.MergeBase Proofs.MergeSA Proofs.MergeSB Proofs.MergeSC.
From Coq Require Import Lia.

Lemma stepS sg s e s' : InvS s -> step sg s e = Some s' -> InvS s'.
Proof.
  intros I H. destruct e.
  - eapply stepS_get; eauto.
  - eapply stepS_assign; eauto.
  - eapply stepS_recv; eauto.
  - eapply stepS_main_events; eauto.
  - eapply stepS_main_events; eauto.
  - eapply stepS_main_events; eauto 6.
  - eapply stepS_main_events; eauto 7.
  - eapply stepS_main_events; eauto 7.
  - eapply stepS_main_events; eauto 8.
  - eapply stepS_complete; eauto.
  - eapply stepS_done; eauto.
  - (* EExtDrop: only the registry cell changes *)
    simpl in H. destruct (reg s) as [x|]; [|discriminate].
    destruct (forallb is_empty x); [|discriminate]. injection H as <-.
    destruct I. constructor; simpl; auto.
Qed.

