(* Closed form of the Retry-After parser of Model/Retry.v (C17): [parse_int64] is total, stays in
   the int64 range for EVERY byte string (saturation, never a wrapped value), and on a plain
   decimal numeral that fits it returns exactly the numeral's value -- so the hypothesis
   [parse_int64 h = n] of [retry_after_honoured] is discharged for every header value a
   registry can legally send. *)
From Coq Require Import ZifyBool ZifyN.
From Oras Require Import Base.Prelude Base.RetryTypes Generated.GC17 Model.Retry Proofs.Retry.
Open Scope Z_scope.

Definition is_digit (c : N) : bool := ((48 <=? c) && (c <=? 57))%N.

(* value of a decimal numeral, continuing from [acc] *)
Fixpoint dec_val (s : str) (acc : Z) : Z :=
  match s with
  | [] => acc
  | c :: s' => dec_val s' (acc * 10 + Z.of_N (c - 48)%N)
  end.

Lemma dec_val_ge s : forall acc, 0 <= acc -> acc <= dec_val s acc.
Proof.
  induction s as [|c s IH]; intros acc Ha; cbn [dec_val]; [lia|].
  pose proof (N2Z.is_nonneg (c - 48)%N) as H0.
  specialize (IH (acc * 10 + Z.of_N (c - 48)%N) ltac:(lia)). lia.
Qed.

Lemma max_u64_val : max_u64 = 18446744073709551615.
Proof. reflexivity. Qed.
Lemma cutoff_u64_val : cutoff_u64 = 1844674407370955162.
Proof. reflexivity. Qed.

(* every result of the digit loop is a uint64 *)
Lemma digits_val_range s : forall acc v,
  0 <= acc <= max_u64 -> digits_val s acc = Some v -> 0 <= v <= max_u64.
Proof.
  induction s as [|c s IH]; intros acc v Ha H; cbn [digits_val] in H.
  - injection H as <-. exact Ha.
  - destruct ((48 <=? c) && (c <=? 57))%N; [|discriminate].
    destruct (acc >=? cutoff_u64) eqn:E1.
    { injection H as <-. rewrite max_u64_val. lia. }
    destruct (acc * 10 + Z.of_N (c - 48)%N >? max_u64) eqn:E2.
    { injection H as <-. rewrite max_u64_val. lia. }
    pose proof (N2Z.is_nonneg (c - 48)%N) as H0.
    apply (IH (acc * 10 + Z.of_N (c - 48)%N) v); [rewrite max_u64_val in *; lia|exact H].
Qed.

(* a decimal numeral whose value fits uint64 is read exactly *)
Lemma digits_val_exact s : forall acc,
  forallb is_digit s = true -> 0 <= acc -> dec_val s acc <= max_u64 ->
  digits_val s acc = Some (dec_val s acc).
Proof.
  induction s as [|c s IH]; intros acc Hd Ha Hv; cbn [digits_val dec_val] in *; [reflexivity|].
  cbn [forallb] in Hd. apply andb_true_iff in Hd as [Hc Hd]. unfold is_digit in Hc. rewrite Hc.
  pose proof (N2Z.is_nonneg (c - 48)%N) as H0.
  pose proof (dec_val_ge s (acc * 10 + Z.of_N (c - 48)%N) ltac:(lia)) as Hge.
  rewrite max_u64_val in *.
  destruct (acc >=? cutoff_u64) eqn:E1.
  { rewrite cutoff_u64_val in E1. lia. }
  destruct (acc * 10 + Z.of_N (c - 48)%N >? 18446744073709551615) eqn:E2; [lia|].
  apply IH; [exact Hd|lia|exact Hv].
Qed.

(* a numeral too large for uint64 saturates at once (strconv's range error) *)
Lemma digits_val_saturates s : forall acc,
  forallb is_digit s = true -> 0 <= acc <= max_u64 -> max_u64 < dec_val s acc ->
  digits_val s acc = Some max_u64.
Proof.
  induction s as [|c s IH]; intros acc Hd Ha Hv; cbn [digits_val dec_val] in *; [lia|].
  cbn [forallb] in Hd. apply andb_true_iff in Hd as [Hc Hd]. unfold is_digit in Hc. rewrite Hc.
  destruct (acc >=? cutoff_u64) eqn:E1; [reflexivity|].
  destruct (acc * 10 + Z.of_N (c - 48)%N >? max_u64) eqn:E2; [reflexivity|].
  apply IH; [exact Hd|lia|exact Hv].
Qed.

(* only an all-digit string parses *)
Lemma digits_val_none s : forall acc,
  0 <= acc -> dec_val s acc <= max_u64 -> forallb is_digit s = false -> digits_val s acc = None.
Proof.
  induction s as [|c s IH]; intros acc Ha Hv Hd; cbn [digits_val dec_val forallb] in *; [discriminate|].
  unfold is_digit in Hd at 1.
  destruct ((48 <=? c) && (c <=? 57))%N eqn:Hc; [|reflexivity]. cbn [andb] in Hd.
  pose proof (N2Z.is_nonneg (c - 48)%N) as H0.
  pose proof (dec_val_ge s (acc * 10 + Z.of_N (c - 48)%N) ltac:(lia)) as Hge.
  rewrite max_u64_val in *.
  destruct (acc >=? cutoff_u64) eqn:E1.
  { rewrite cutoff_u64_val in E1. lia. }
  destruct (acc * 10 + Z.of_N (c - 48)%N >? 18446744073709551615) eqn:E2; [lia|].
  apply IH; [lia|exact Hv|exact Hd].
Qed.

Lemma two63_val : two63 = 9223372036854775808.
Proof. reflexivity. Qed.

(* int64 range for EVERY byte string *)
Lemma parse_int64_range (s : str) : - two63 <= parse_int64 s <= two63 - 1.
Proof.
  unfold parse_int64. rewrite two63_val. destruct s as [|c t]; [lia|].
  destruct (c =? 43)%N; [|destruct (c =? 45)%N].
  - destruct t as [|d t']; [lia|].
    destruct (digits_val (d :: t') 0) as [v|] eqn:E; [|lia].
    destruct (v >? 9223372036854775808 - 1) eqn:E1; [lia|].
    assert (Hr : 0 <= 0 <= max_u64) by (rewrite max_u64_val; lia).
    pose proof (digits_val_range _ _ _ Hr E) as Hv. rewrite max_u64_val in Hv. lia.
  - destruct t as [|d t']; [lia|].
    destruct (digits_val (d :: t') 0) as [v|] eqn:E; [|lia].
    destruct (v >? 9223372036854775808) eqn:E1; [lia|].
    assert (Hr : 0 <= 0 <= max_u64) by (rewrite max_u64_val; lia).
    pose proof (digits_val_range _ _ _ Hr E) as Hv. rewrite max_u64_val in Hv. lia.
  - destruct (digits_val (c :: t) 0) as [v|] eqn:E; [|lia].
    destruct (v >? 9223372036854775808 - 1) eqn:E1; [lia|].
    assert (Hr : 0 <= 0 <= max_u64) by (rewrite max_u64_val; lia).
    pose proof (digits_val_range _ _ _ Hr E) as Hv. rewrite max_u64_val in Hv. lia.
Qed.

(* an unsigned decimal numeral below 2^63 is read exactly *)
Lemma parse_int64_decimal (s : str) :
  s <> [] -> forallb is_digit s = true -> dec_val s 0 < two63 -> parse_int64 s = dec_val s 0.
Proof.
  intros Hne Hd Hv. rewrite two63_val in Hv. destruct s as [|c t]; [congruence|].
  assert (Hc : is_digit c = true) by (cbn [forallb] in Hd; apply andb_true_iff in Hd; tauto).
  unfold parse_int64. unfold is_digit in Hc.
  destruct (c =? 43)%N eqn:E43; [lia|]. destruct (c =? 45)%N eqn:E45; [lia|].
  rewrite (digits_val_exact (c :: t) 0 Hd ltac:(lia) ltac:(rewrite max_u64_val; lia)).
  rewrite two63_val. destruct (dec_val (c :: t) 0 >? 9223372036854775808 - 1) eqn:E; lia.
Qed.

(* an unsigned decimal numeral of 2^63 or more saturates at MaxInt64 (never wraps negative) *)
Lemma parse_int64_decimal_saturates (s : str) :
  s <> [] -> forallb is_digit s = true -> two63 <= dec_val s 0 -> parse_int64 s = two63 - 1.
Proof.
  intros Hne Hd Hv. rewrite two63_val in *. destruct s as [|c t]; [congruence|].
  assert (Hc : is_digit c = true) by (cbn [forallb] in Hd; apply andb_true_iff in Hd; tauto).
  unfold parse_int64. unfold is_digit in Hc.
  destruct (c =? 43)%N eqn:E43; [lia|]. destruct (c =? 45)%N eqn:E45; [lia|].
  destruct (Z_le_gt_dec (dec_val (c :: t) 0) max_u64) as [Hle|Hgt].
  - rewrite (digits_val_exact (c :: t) 0 Hd ltac:(lia) Hle).
    rewrite two63_val. destruct (dec_val (c :: t) 0 >? 9223372036854775808 - 1) eqn:E; lia.
  - rewrite (digits_val_saturates (c :: t) 0 Hd ltac:(rewrite max_u64_val; lia) ltac:(lia)).
    rewrite two63_val, max_u64_val. reflexivity.
Qed.

(* a header that is neither a numeral nor a signed numeral (e.g. an HTTP-date) reads as 0:
   Retry-After in the date form is ignored, not misread *)
Lemma parse_int64_non_numeral (c : N) (t : str) :
  c <> 43%N -> c <> 45%N -> forallb is_digit (c :: t) = false -> dec_val (c :: t) 0 <= max_u64 ->
  parse_int64 (c :: t) = 0.
Proof.
  intros H43 H45 Hd Hv. unfold parse_int64.
  destruct (c =? 43)%N eqn:E43; [lia|]. destruct (c =? 45)%N eqn:E45; [lia|].
  rewrite (digits_val_none (c :: t) 0 ltac:(lia) Hv Hd). reflexivity.
Qed.

(* the pause a decimal Retry-After of n seconds yields, for every policy shape *)
Lemma retry_after_decimal guarded oob rnd e maxretry minw maxw pred attempt (h : str) ch :
  h <> [] -> forallb is_digit h = true -> 0 < dec_val h 0 -> dec_val h 0 * 1000000000 < two63 ->
  attempt < maxretry -> pred (OStatus 429 h ch) = PRetry ->
  generic_retry (mkPolicy maxretry minw maxw pred (exp_backoff_gen guarded oob rnd e)) attempt (OStatus 429 h ch)
  = DWait (clamp minw maxw (dec_val h 0 * 1000000000)).
Proof.
  intros Hne Hd Hpos Hfit Hat Hp.
  apply retry_after_honoured; try assumption.
  apply parse_int64_decimal; try assumption. rewrite two63_val in *. lia.
Qed.

(* an unusable Retry-After (value <= 0: the HTTP-date form, garbage, "0", a negative numeral) is
   IGNORED: the backoff is exactly the one computed for the same answer without the header *)
Lemma retry_after_unusable_ignored guarded oob rnd e attempt c (h : str) ch :
  parse_int64 h <= 0 ->
  exp_backoff_gen guarded oob rnd e attempt (OStatus c h ch)
  = exp_backoff_gen guarded oob rnd e attempt (OStatus c [] ch).
Proof.
  intro Hp. unfold exp_backoff_gen, retry_after_secs, generated_backoff_retry_after_ok.
  destruct (c =? generated_backoff_retry_after_status) eqn:Ec; [|reflexivity].
  destruct h as [|x h']; [reflexivity|].
  destruct (parse_int64 (x :: h') >? 0) eqn:E; [lia|]. reflexivity.
Qed.

(* a Retry-After on any status other than 429 is never looked at *)
Lemma retry_after_only_429 guarded oob rnd e attempt c (h : str) ch :
  c <> generated_backoff_retry_after_status ->
  exp_backoff_gen guarded oob rnd e attempt (OStatus c h ch)
  = exp_backoff_gen guarded oob rnd e attempt (OStatus c [] ch).
Proof.
  intro Hc. unfold exp_backoff_gen, retry_after_secs.
  destruct (c =? generated_backoff_retry_after_status) eqn:Ec; [lia|reflexivity].
Qed.
