From Oras Require Import Base.Prelude Model.Scopes Model.Challenge Model.AuthClient.
