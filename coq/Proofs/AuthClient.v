(* C16 -- lemmas about Model/AuthClient.v: the taint invariant of the cache, what
   every send of Client.Do may carry, the send/fetch budget and the causes of
   every non-success outcome, and the cache key laws. *)
From Oras Require Import Base.Prelude Model.Scopes Model.Challenge Model.AuthClient.

(* ---------- association lists ---------- *)
Lemma tok_get_set t k v k' :
  tok_get (tok_set t k v) k' = if str_eqb k' k then Some v else tok_get t k'.
Proof.
  induction t as [|[k0 v0] t IH]; simpl.
  - destruct (str_eqb k' k); auto.
  - destruct (str_eqb k k0) eqn:E; simpl.
    + apply str_eqb_spec in E. subst k0. destruct (str_eqb k' k); auto.
    + destruct (str_eqb k' k0) eqn:E'; auto.
      apply str_eqb_spec in E'. subst k0.
      destruct (str_eqb k' k) eqn:E''; auto.
      apply str_eqb_spec in E''. subst. rewrite str_eqb_refl in E. discriminate.
Qed.

Lemma cc_entry_put c h e h' :
  cc_entry (cc_put c h e) h' = if h' =? h then Some e else cc_entry c h'.
Proof.
  induction c as [|[h0 e0] c IH]; simpl.
  - destruct (h' =? h); auto.
  - destruct (h =? h0) eqn:E; simpl.
    + apply N.eqb_eq in E. subst h0. destruct (h' =? h); auto.
    + destruct (h' =? h0) eqn:E'; auto.
      apply N.eqb_eq in E'. subst h0.
      destruct (h' =? h) eqn:E''; auto.
      apply N.eqb_eq in E''. subst. rewrite N.eqb_refl in E. discriminate.
Qed.

Lemma scheme_eqb_spec a c : scheme_eqb a c = true <-> a = c.
Proof. destruct a, c; simpl; split; intro; congruence. Qed.

Lemma scheme_eqb_refl a : scheme_eqb a a = true.
Proof. now destruct a. Qed.

(* one formula for every lookup after a store *)
Lemma cc_get_store c h s k v h' s' k' :
  cc_get_token (cc_store c h s k v) h' s' k' =
  if h' =? h then
    if scheme_eqb s' s then
      if str_eqb k' k then Some v
      else match cc_entry c h with
           | Some (s0, t) => if scheme_eqb s s0 then tok_get t k' else None
           | None => None
           end
    else None
  else cc_get_token c h' s' k'.
Proof.
  unfold cc_get_token, cc_store.
  destruct (cc_entry c h) as [[s0 t]|] eqn:E.
  - destruct (scheme_eqb s s0) eqn:Es; rewrite cc_entry_put; destruct (h' =? h) eqn:Eh; auto;
      destruct (scheme_eqb s' s); auto; rewrite ?tok_get_set; simpl; destruct (str_eqb k' k); auto.
  - rewrite cc_entry_put. destruct (h' =? h) eqn:Eh; auto.
Qed.

Lemma cc_get_scheme_store c h s k v h' :
  cc_get_scheme (cc_store c h s k v) h' = if h' =? h then Some s else cc_get_scheme c h'.
Proof.
  unfold cc_get_scheme, cc_store.
  destruct (cc_entry c h) as [[s0 t]|] eqn:E.
  - destruct (scheme_eqb s s0); rewrite cc_entry_put; destruct (h' =? h); auto.
  - rewrite cc_entry_put; destruct (h' =? h); auto.
Qed.

(* ---------- cache key laws (C16_cache_key) ---------- *)
Lemma get_store_same c h s k v : cc_get_token (cc_store c h s k v) h s k = Some v.
Proof. now rewrite cc_get_store, N.eqb_refl, scheme_eqb_refl, str_eqb_refl. Qed.

Lemma get_store_other_host c h s k v h' s' k' :
  h' <> h -> cc_get_token (cc_store c h s k v) h' s' k' = cc_get_token c h' s' k'.
Proof. intro H. rewrite cc_get_store. apply N.eqb_neq in H. now rewrite H. Qed.

(* a hit after a store is the stored token under exactly (host, scheme, key), or an older hit *)
Lemma get_store_hit c h s k v h' s' k' t :
  cc_get_token (cc_store c h s k v) h' s' k' = Some t ->
  (h' = h /\ s' = s /\ k' = k /\ t = v) \/ cc_get_token c h' s' k' = Some t.
Proof.
  rewrite cc_get_store. destruct (h' =? h) eqn:Eh; auto.
  apply N.eqb_eq in Eh. subst h'.
  destruct (scheme_eqb s' s) eqn:Es; [|discriminate]. apply scheme_eqb_spec in Es. subst s'.
  destruct (str_eqb k' k) eqn:Ek.
  - apply str_eqb_spec in Ek. intros [= <-]. auto.
  - unfold cc_get_token. destruct (cc_entry c h) as [[s0 t0]|]; [|discriminate].
    destruct (scheme_eqb s s0); [auto | discriminate].
Qed.

(* a scheme change drops every older token of that host *)
Lemma scheme_change_drops c h s0 s k v s' k' t :
  cc_get_scheme c h = Some s0 -> s0 <> s ->
  cc_get_token (cc_store c h s k v) h s' k' = Some t -> s' = s /\ k' = k /\ t = v.
Proof.
  unfold cc_get_scheme. intros H0 Hne. rewrite cc_get_store, N.eqb_refl.
  destruct (scheme_eqb s' s) eqn:Es; [|discriminate]. apply scheme_eqb_spec in Es. subst s'.
  destruct (str_eqb k' k) eqn:Ek.
  - apply str_eqb_spec in Ek. intros [= <-]. auto.
  - destruct (cc_entry c h) as [[s1 t1]|]; [|discriminate]. injection H0 as ->.
    destruct (scheme_eqb s s0) eqn:E; [|discriminate].
    apply scheme_eqb_spec in E. congruence.
Qed.

(* the shared cache distinguishes scope keys *)
Lemma shared_key_sensitive h s k v k' :
  k' <> k -> cache_get_token FShared (cache_store FShared [] h s k v) h s k' = None.
Proof.
  intro H. simpl. rewrite cc_get_store, N.eqb_refl, scheme_eqb_refl.
  destruct (str_eqb k' k) eqn:E; auto. apply str_eqb_spec in E. congruence.
Qed.

(* the single-context cache is documented to ignore scopes: host and scheme only *)
Lemma single_ignores_scopes c h s k v k' :
  exists t, cache_get_token FSingle (cache_store FSingle c h s k v) h s k' = Some t.
Proof.
  simpl. destruct (cc_get_token (cc_store (cc_store c h s k v) h s [] v) h s k') eqn:E; eauto.
  exists v. apply get_store_same.
Qed.

Lemma single_other_host c h s k v h' s' k' :
  h' <> h ->
  cache_get_token FSingle (cache_store FSingle c h s k v) h' s' k' = cache_get_token FSingle c h' s' k'.
Proof. intro H. simpl. now rewrite !get_store_other_host. Qed.

(* ---------- the taint invariant ---------- *)
Definition tok_fits (h : host) (s : scheme) (t : secret) : Prop :=
  match s with
  | SchBasic => t = SBasicTok h
  | SchBearer => t = SAccess h \/ exists id, t = SIssued h id
  | SchUnknown => False
  end.

Definition cache_ok (c : cc) : Prop :=
  forall h s k t, cc_get_token c h s k = Some t -> tok_fits h s t.

Lemma tok_fits_taint h s t : tok_fits h s t -> taint t = h.
Proof. destruct s; simpl; [tauto | intros -> | intros [->|(id & ->)]]; reflexivity. Qed.

Lemma cache_ok_nil : cache_ok [].
Proof. intros h s k t. discriminate. Qed.

Lemma cc_store_ok c h s k v : cache_ok c -> tok_fits h s v -> cache_ok (cc_store c h s k v).
Proof.
  intros H Hv h' s' k' t Hg. apply get_store_hit in Hg as [(-> & -> & -> & ->)|Hg]; auto.
  eapply H; eauto.
Qed.

Lemma cache_store_ok f c h s k v : cache_ok c -> tok_fits h s v -> cache_ok (cache_store f c h s k v).
Proof. intros H Hv. destruct f; simpl; auto using cc_store_ok. Qed.

Lemma cache_get_token_ok f c h s k t :
  cache_ok c -> cache_get_token f c h s k = Some t -> tok_fits h s t.
Proof.
  intros H. destruct f; simpl; [discriminate | apply H |].
  destruct (cc_get_token c h s k) eqn:E; [intros [= <-]; eapply H; eauto | apply H].
Qed.

(* ---------- what a send may carry ---------- *)
Definition auth_fits (h : host) (a : auth) : Prop :=
  match a with
  | NoAuth => True
  | ABasic t => tok_fits h SchBasic t
  | ABearer t => tok_fits h SchBearer t
  end.

Section WithParse.
Variable parse : str -> scheme * params.

(* registry h advertised this realm in a Bearer challenge answering a send of this request *)
Definition advertised (h : host) (realm : str) (pre : list event) : Prop :=
  exists a fr hdr ps, In (SReg h a fr, A401 hdr) pre /\
                      parse hdr = (SchBearer, ps) /\ get_param s_realm ps = realm.

Definition basic_challenged (h : host) (pre : list event) : Prop :=
  exists a fr hdr ps, In (SReg h a fr, A401 hdr) pre /\ parse hdr = (SchBasic, ps).

Definition send_ok (h : host) (pre : list event) (s : send) : Prop :=
  match s with
  | SReg h' a fresh =>
    h' = h /\ auth_fits h a /\
    (fresh = true -> match a with ABasic _ => basic_challenged h pre | _ => True end)
  | SDist forh realm _ _ basic =>
    forh = h /\ (basic = None \/ basic = Some (SUserPass h)) /\ advertised h realm pre
  | SOAuth forh realm _ _ grant =>
    forh = h /\ (grant = SRefresh h \/ grant = SUserPass h) /\ advertised h realm pre
  end.

Fixpoint trace_ok_from (h : host) (pre evs : list event) : Prop :=
  match evs with
  | [] => True
  | ev :: rest => send_ok h pre (fst ev) /\ trace_ok_from h (pre ++ [ev]) rest
  end.

Definition trace_ok (h : host) (evs : list event) : Prop :=
  forall pre ev post, evs = pre ++ ev :: post -> send_ok h pre (fst ev).

Lemma trace_ok_from_split h evs : forall pre0,
  trace_ok_from h pre0 evs ->
  forall pre ev post, evs = pre ++ ev :: post -> send_ok h (pre0 ++ pre) (fst ev).
Proof.
  induction evs as [|e evs IH]; intros pre0 H pre ev post E.
  - destruct pre; discriminate.
  - destruct H as [H1 H2]. destruct pre as [|p pre]; simpl in E.
    + injection E as <- _. now rewrite app_nil_r.
    + injection E as <- E. specialize (IH _ H2 _ _ _ E).
      now rewrite <- app_assoc in IH.
Qed.

Lemma trace_ok_of_from h evs : trace_ok_from h [] evs -> trace_ok h evs.
Proof. intros H pre ev post E. exact (trace_ok_from_split h evs [] H pre ev post E). Qed.

(* ---------- Client.Do preserves the invariant and sends only what it may ---------- *)
Lemma first_attempt_fits f c h (hinted : list str) :
  cache_ok c ->
  auth_fits h (snd (match cache_get_scheme f c h with
    | Some SchBasic =>
      (@nil N, match cache_get_token f c h SchBasic [] with Some t => ABasic t | None => NoAuth end)
    | Some SchBearer =>
      (join [c_space] hinted,
       match cache_get_token f c h SchBearer (join [c_space] hinted) with Some t => ABearer t | None => NoAuth end)
    | _ => ([], NoAuth)
    end)).
Proof.
  intro H. destruct (cache_get_scheme f c h) as [[| |]|]; simpl; auto.
  - destruct (cache_get_token f c h SchBasic []) eqn:E; simpl; auto.
    eapply cache_get_token_ok in E; eauto.
  - destruct (cache_get_token f c h SchBearer _) eqn:E; simpl; auto.
    eapply cache_get_token_ok in E; eauto.
Qed.

Ltac adv_first :=
  match goal with
  | |- advertised ?h _ _ =>
    eexists _, _, _, _; split; [left; reflexivity | split; [eassumption | reflexivity]]
  | |- basic_challenged ?h _ =>
    eexists _, _, _, _; split; [left; reflexivity | eassumption]
  end.

Ltac leaf :=
  simpl; repeat split; auto;
  try (intros; discriminate); intros;
  try adv_first;
  try (eapply cache_get_token_ok; eassumption);
  try (apply cache_store_ok; simpl; eauto);
  try (right; eexists; reflexivity); try (left; reflexivity).

Ltac crush :=
  repeat (match goal with
  | |- context [match ?s with [] => _ | _ :: _ => _ end] => is_var s; destruct s as [|[| ? | ? | | ? | | ] ?]
  | |- context [if ?b then _ else _] => destruct b eqn:?
  end; cbn beta iota); leaf.

Lemma do_request_ok clean cf c rq script :
  cache_ok c ->
  let '(evs, c', r) := do_request clean parse cf c rq script in
  cache_ok c' /\ trace_ok_from (rq_host rq) [] evs.
Proof.
  intro H. unfold do_request.
  pose proof (first_attempt_fits (cf_flavour cf) c (rq_host rq)
                (get_all_scopes clean (rq_hints_host rq) (rq_hints_global rq)) H) as H1.
  destruct (match cache_get_scheme (cf_flavour cf) c (rq_host rq) with
            | Some SchBasic => _ | Some SchBearer => _ | _ => _ end) as [attempted a1].
  simpl in H1.
  destruct script as [|[| hdr | id | | sid | | ] script1]; try (leaf; fail).
  destruct (parse hdr) as [[| |] ps] eqn:Ech; try (leaf; fail).
  - (* Basic *)
    unfold fetch_basic, final_send. crush.
  - (* Bearer *)
    set (scopes := if is_empty (get_param s_scope ps) then _ else _).
    set (key := join [c_space] scopes).
    cbv zeta. unfold fetch_bearer_plan, final_send.
    destruct (if str_eqb key attempted then None else cache_get_token _ c _ SchBearer key) as [tok2|] eqn:E2.
    + assert (F2 : tok_fits (rq_host rq) SchBearer tok2).
      { destruct (str_eqb key attempted); [discriminate|]. eapply cache_get_token_ok; eauto. }
      clear E2. crush.
    + clear E2. crush.
Qed.

(* ---------- histories ---------- *)
Lemma run_history_ok clean cf : forall hist c,
  cache_ok c ->
  cache_ok (snd (run_history clean parse cf c hist)) /\
  Forall2 (fun rs out => trace_ok (rq_host (fst rs)) (fst out))
          hist (fst (run_history clean parse cf c hist)).
Proof.
  induction hist as [|[rq script] hist IH]; intros c H; simpl.
  - split; auto.
  - pose proof (do_request_ok clean cf c rq script H) as D.
    destruct (do_request clean parse cf c rq script) as [[evs c'] r]. destruct D as [Hc Ht].
    specialize (IH c' Hc). destruct (run_history clean parse cf c' hist) as [rest c'']. simpl in *.
    destruct IH as [IH1 IH2]. split; auto. constructor; auto. simpl. now apply trace_ok_of_from.
Qed.

(* the secrets a send carries *)
Definition send_secrets (s : send) : list secret :=
  match s with
  | SReg _ NoAuth _ => []
  | SReg _ (ABasic t) _ | SReg _ (ABearer t) _ => [t]
  | SDist _ _ _ _ None => []
  | SDist _ _ _ _ (Some t) => [t]
  | SOAuth _ _ _ _ t => [t]
  end.

(* long-lived secrets: passwords and refresh tokens *)
Definition long_lived (t : secret) : bool :=
  match t with SBasicTok _ | SUserPass _ | SRefresh _ => true | _ => false end.

(* reading of [send_ok] in the words of the property *)
Lemma send_ok_reading h pre s :
  send_ok h pre s ->
  (forall t, In t (send_secrets s) -> taint t = h) /\
  match s with
  | SReg h' a fresh =>
    h' = h /\
    (forall t, In t (send_secrets s) -> long_lived t = true ->
               t = SBasicTok h /\ (fresh = true -> basic_challenged h pre))
  | SDist _ realm _ _ _ | SOAuth _ realm _ _ _ =>
    advertised h realm pre /\ (forall t, In t (send_secrets s) -> t = SUserPass h \/ t = SRefresh h)
  end.
Proof.
  destruct s as [h' a fresh | forh realm service scopes basic | forh realm service scopes grant]; simpl.
  - intros (-> & Ha & Hf). split; [|split; auto].
    + destruct a as [|t|t]; simpl in *; intros x Hx; try tauto; destruct Hx as [<-|[]];
        [now subst | destruct Ha as [->|(id & ->)]; reflexivity].
    + destruct a as [|t|t]; simpl in *; intros x Hx Hl; try tauto; destruct Hx as [<-|[]].
      * subst. auto.
      * destruct Ha as [->|(id & ->)]; discriminate.
  - intros (-> & Hb & Ha). split; [|split; auto].
    + destruct Hb as [->| ->]; simpl; intros x Hx; [tauto | destruct Hx as [<-|[]]; reflexivity].
    + destruct Hb as [->| ->]; simpl; intros x Hx; [tauto | destruct Hx as [<-|[]]; auto].
  - intros (-> & Hg & Ha). split; [|split; auto].
    + intros x [<-|[]]. destruct Hg as [->| ->]; reflexivity.
    + intros x [<-|[]]. tauto.
Qed.

(* ---------- budget and outcome ---------- *)
Definition is_reg (ev : event) : bool :=
  match fst ev with SReg _ _ _ => true | _ => false end.

Definition reg_sends (evs : list event) : nat := length (filter is_reg evs).
Definition fetches (evs : list event) : nat := length (filter (fun ev => negb (is_reg ev)) evs).

Definition no_event : event := (SReg 0 NoAuth false, AFail).

(* every outcome of Client.Do and its cause *)
Definition outcome_ok (cf : config) (rq : request) (evs : list event) (r : result) : Prop :=
  match r with
  | RResp false => exists h a fresh, last evs no_event = (SReg h a fresh, AOk)
  | RResp true =>
    exists h a fresh hdr, last evs no_event = (SReg h a fresh, A401 hdr) /\
      (fresh = true \/ exists ps, parse hdr = (SchUnknown, ps))
  | RErr ENoCred => cred_empty (cf_creds cf (rq_host rq)) = true
  | RErr EMissing =>
    c_user (cf_creds cf (rq_host rq)) && c_pass (cf_creds cf (rq_host rq)) = false
  | RErr EFetch => exists s, last evs no_event = (s, AFail) /\ is_reg (s, AFail) = false
  | RErr ERewind => rewind_ok (rq_body rq) = false
  | RErr ECred => cf_cred_err cf (rq_host rq) = true
  | RErr EShared => True   (* the error of another call's fetch: its cause is in that call's outcome *)
  | RErr ETransport => exists s, last evs no_event = (s, AErr)
  | RBad => True
  end.

Ltac bleaf :=
  simpl; repeat split; auto; try lia;
  try (eexists _, _, _; reflexivity);
  try (eexists _, _, _, _; split; [reflexivity | first [left; reflexivity | right; eexists; eassumption]]);
  try (eexists; split; reflexivity);
  try assumption;
  try (match goal with |- c_user ?x && c_pass ?x = false =>
         destruct (c_user x), (c_pass x), (c_refresh x); simpl in *; congruence end).

Ltac bcrush :=
  repeat (match goal with
  | |- context [match ?s with [] => _ | _ :: _ => _ end] => is_var s; destruct s as [|[| ? | ? | | ? | | ] ?]
  | |- context [if ?b then _ else _] => destruct b eqn:?
  end; cbn beta iota); bleaf.

Lemma do_request_budget clean cf c rq script :
  let '(evs, c', r) := do_request clean parse cf c rq script in
  (reg_sends evs <= 3)%nat /\ (fetches evs <= 1)%nat /\ outcome_ok cf rq evs r.
Proof.
  unfold do_request.
  destruct (match cache_get_scheme (cf_flavour cf) c (rq_host rq) with
            | Some SchBasic => _ | Some SchBearer => _ | _ => _ end) as [attempted a1].
  destruct script as [|[| hdr | id | | sid | | ] script1]; try (bleaf; fail).
  destruct (parse hdr) as [[| |] ps] eqn:Ech; try (bleaf; fail).
  - unfold fetch_basic, final_send. bcrush.
  - set (scopes := if is_empty (get_param s_scope ps) then _ else _).
    set (key := join [c_space] scopes).
    cbv zeta. unfold fetch_bearer_plan, final_send.
    destruct (if str_eqb key attempted then None else cache_get_token _ c _ SchBearer key) as [tok2|];
      bcrush.
Qed.

Lemma last_in {A} (l : list A) d x : last l d = x -> x <> d -> In x l.
Proof.
  induction l as [|a l IH]; simpl; intros E N; [congruence|].
  destruct l as [|a' l']; [left; auto | right; apply IH; auto].
Qed.

(* With valid credentials the request ends with the registry's non-401 answer:
   the credential for the challenged scheme exists and is complete (no
   ENoCred/EMissing), the token endpoint and the registry accept it, the schemes
   are known and the body can be re-sent. *)
Lemma valid_credentials_succeed clean cf c rq script :
  let '(evs, c', r) := do_request clean parse cf c rq script in
  r <> RBad ->
  rewind_ok (rq_body rq) = true ->
  r <> RErr ENoCred -> r <> RErr EMissing -> r <> RErr ECred -> r <> RErr EShared ->
  (forall s, ~ In (s, AFail) evs) ->
  (forall s, ~ In (s, AErr) evs) ->
  (forall h a hdr, ~ In (SReg h a true, A401 hdr) evs) ->
  (forall s hdr ps, In (s, A401 hdr) evs -> parse hdr <> (SchUnknown, ps)) ->
  r = RResp false /\ (reg_sends evs <= 3)%nat /\ (fetches evs <= 1)%nat /\
  exists h a fresh, last evs no_event = (SReg h a fresh, AOk).
Proof.
  pose proof (do_request_budget clean cf c rq script) as B.
  destruct (do_request clean parse cf c rq script) as [[evs c'] r].
  destruct B as (B1 & B2 & O).
  intros Hbad Hbody Hnc Hmiss Hce Hsh Hfail Herr Hfresh Hknown.
  destruct r as [[|]|[| | | | | |]|]; simpl in O; try congruence.
  - exfalso. destruct O as (h & a & fresh & hdr & L & [->|(ps & P)]).
    + apply (Hfresh h a hdr). apply (last_in _ _ _ L). discriminate.
    + apply (Hknown (SReg h a fresh) hdr ps); auto. apply (last_in _ _ _ L). discriminate.
  - auto.
  - exfalso. destruct O as (s & L & Hs). apply (Hfail s).
    apply (last_in _ _ _ L). intro E. rewrite E in Hs. discriminate.
  - exfalso. destruct O as (s & L). apply (Herr s). apply (last_in _ _ _ L). discriminate.
Qed.

(* which credentials are complete for which flow (the causes of ENoCred/EMissing) *)
Lemma missing_credentials_cause clean cf c rq script :
  let '(evs, c', r) := do_request clean parse cf c rq script in
  (r = RErr ENoCred -> cred_empty (cf_creds cf (rq_host rq)) = true) /\
  (r = RErr EMissing ->
   c_user (cf_creds cf (rq_host rq)) && c_pass (cf_creds cf (rq_host rq)) = false).
Proof.
  pose proof (do_request_budget clean cf c rq script) as B.
  destruct (do_request clean parse cf c rq script) as [[evs c'] r].
  destruct B as (_ & _ & O). split; intros ->; exact O.
Qed.

(* ---------- failed sends (transport error / cancelled context) ---------- *)
Fixpoint stops_after_failure (evs : list event) : Prop :=
  match evs with
  | [] => True
  | (s, a) :: rest => (a = AErr -> rest = []) /\ stops_after_failure rest
  end.

Ltac fleaf :=
  simpl; repeat split; auto; try (intros; discriminate);
  try (intros (s0 & L0 & R0); simpl in L0;
       first [reflexivity | discriminate L0 | (injection L0 as <-; simpl in R0; discriminate R0)]).

Ltac fcrush :=
  repeat (match goal with
  | |- context [match ?s with [] => _ | _ :: _ => _ end] => is_var s; destruct s as [|[| ? | ? | | ? | | ] ?]
  | |- context [if ?b then _ else _] => destruct b eqn:?
  end; cbn beta iota); fleaf.

(* nothing is sent after a send that got no response, and a token fetch that
   failed or was cancelled leaves the cache as it was *)
Lemma do_request_failures clean cf c rq script :
  let '(evs, c', r) := do_request clean parse cf c rq script in
  stops_after_failure evs /\
  ((exists s, last evs no_event = (s, AErr) /\ is_reg (s, AErr) = false) -> c' = c) /\
  ((exists s, last evs no_event = (s, AFail) /\ is_reg (s, AFail) = false) -> c' = c).
Proof.
  unfold do_request.
  destruct (match cache_get_scheme (cf_flavour cf) c (rq_host rq) with
            | Some SchBasic => _ | Some SchBearer => _ | _ => _ end) as [attempted a1].
  destruct script as [|[| hdr | id | | sid | | ] script1]; try (fleaf; fail).
  destruct (parse hdr) as [[| |] ps] eqn:Ech; try (fleaf; fail).
  - unfold fetch_basic, final_send. fcrush.
  - set (scopes := if is_empty (get_param s_scope ps) then _ else _).
    set (key := join [c_space] scopes).
    cbv zeta. unfold fetch_bearer_plan, final_send.
    destruct (if str_eqb key attempted then None else cache_get_token _ c _ SchBearer key) as [tok2|];
      fcrush.
Qed.

(* ---------- which cache entry a re-used token comes from ---------- *)
(* the keys Client.Do looks up: the canonical join of the hinted scopes, or of
   CleanScopes(hinted ++ scopes of the challenge) *)
Definition do_key (clean : list str -> list str) (rq : request) (k : str) : Prop :=
  let hinted := get_all_scopes clean (rq_hints_host rq) (rq_hints_global rq) in
  k = join [c_space] hinted \/ exists extra, k = join [c_space] (clean (hinted ++ extra)).

Definition cached_send_ok (clean : list str -> list str) (f : flavour) (c : cc) (rq : request) (ev : event) : Prop :=
  match fst ev with
  | SReg h (ABearer t) false =>
    h = rq_host rq /\ exists k, do_key clean rq k /\ cache_get_token f c h SchBearer k = Some t
  | SReg h (ABasic t) false => h = rq_host rq /\ cache_get_token f c h SchBasic [] = Some t
  | _ => True
  end.

Lemma first_attempt_cached f c h (hinted : list str) :
  match snd (match cache_get_scheme f c h with
    | Some SchBasic =>
      (@nil N, match cache_get_token f c h SchBasic [] with Some t => ABasic t | None => NoAuth end)
    | Some SchBearer =>
      (join [c_space] hinted,
       match cache_get_token f c h SchBearer (join [c_space] hinted) with Some t => ABearer t | None => NoAuth end)
    | _ => ([], NoAuth)
    end) with
  | ABasic t => cache_get_token f c h SchBasic [] = Some t
  | ABearer t => cache_get_token f c h SchBearer (join [c_space] hinted) = Some t
  | NoAuth => True
  end.
Proof.
  destruct (cache_get_scheme f c h) as [[| |]|]; simpl; auto.
  - destruct (cache_get_token f c h SchBasic []) eqn:E; simpl; auto.
  - destruct (cache_get_token f c h SchBearer _) eqn:E; simpl; auto.
Qed.

Ltac ksolve :=
  repeat match goal with
  | |- _ /\ _ => split
  | |- exists k, do_key _ _ k /\ _ =>
    eexists; split; [| first [eassumption | congruence]];
    [unfold do_key; first [left; reflexivity | right; eexists; reflexivity]]
  | |- do_key _ _ _ => unfold do_key; first [left; reflexivity | right; eexists; reflexivity]
  | |- _ = _ => first [reflexivity | eassumption | congruence]
  | |- True => exact I
  end.

Ltac kleaf :=
  simpl; repeat (apply Forall_cons || apply Forall_nil); unfold cached_send_ok; simpl; auto;
  try (match goal with
       | H : match ?a with NoAuth => True | ABasic _ => _ | ABearer _ => _ end |- _ =>
         destruct a; simpl in *; auto;
         repeat match goal with Hs : Some _ = Some _ |- _ => injection Hs as Hs; try subst end;
         ksolve
       end);
  try ksolve.

Ltac kcrush :=
  repeat (match goal with
  | |- context [match ?s with [] => _ | _ :: _ => _ end] => is_var s; destruct s as [|[| ? | ? | | ? | | ] ?]
  | |- context [if ?b then _ else _] => destruct b eqn:?
  end; cbn beta iota); kleaf.

(* every token that Client.Do re-uses (a send that is not fresh) was found in the
   cache as it was when the call started, under the request's host, the scheme,
   and one of the request's own keys *)
Lemma do_request_cached_sends clean cf c rq script :
  let '(evs, c', r) := do_request clean parse cf c rq script in
  Forall (cached_send_ok clean (cf_flavour cf) c rq) evs.
Proof.
  unfold do_request.
  pose proof (first_attempt_cached (cf_flavour cf) c (rq_host rq)
                (get_all_scopes clean (rq_hints_host rq) (rq_hints_global rq))) as H1.
  destruct (match cache_get_scheme (cf_flavour cf) c (rq_host rq) with
            | Some SchBasic => _ | Some SchBearer => _ | _ => _ end) as [attempted a1].
  simpl in H1.
  destruct script as [|[| hdr | id | | sid | | ] script1]; try (kleaf; fail).
  destruct (parse hdr) as [[| |] ps] eqn:Ech; try (kleaf; fail).
  - unfold fetch_basic, final_send. kcrush.
  - cbv zeta. unfold fetch_bearer_plan, final_send.
    destruct (is_empty (get_param s_scope ps)) eqn:Ee; cbn beta iota;
      (destruct (str_eqb _ attempted) eqn:Ek; [kcrush|];
       match goal with |- context [cache_get_token ?f ?c0 ?h0 SchBearer ?k] =>
         destruct (cache_get_token f c0 h0 SchBearer k) as [tok2|] eqn:E2 end; kcrush).
Qed.

(* ---------- per-call statements lifted to every history ---------- *)
Lemma run_history_lift clean cf (P : cc -> request -> list answer -> list event -> result -> Prop) :
  (forall c rq script, let '(evs, c', r) := do_request clean parse cf c rq script in P c rq script evs r) ->
  forall hist c,
    Forall2 (fun rs out => exists c0, P c0 (fst rs) (snd rs) (fst out) (snd out))
            hist (fst (run_history clean parse cf c hist)).
Proof.
  intros HP. induction hist as [|[rq script] hist IH]; intro c; simpl; [constructor|].
  pose proof (HP c rq script) as D.
  destruct (do_request clean parse cf c rq script) as [[evs c'] r].
  specialize (IH c'). destruct (run_history clean parse cf c' hist) as [rest c'']. simpl in *.
  constructor; auto. exists c. exact D.
Qed.

(* every call of every history: budget, outcome classification, nothing after a failed
   send, re-used tokens only from the call's own keys *)
Lemma history_budget_and_reuse clean cf hist c :
  Forall2 (fun rs out => exists c0,
             (reg_sends (fst out) <= 3)%nat /\ (fetches (fst out) <= 1)%nat /\
             outcome_ok cf (fst rs) (fst out) (snd out) /\
             stops_after_failure (fst out) /\
             Forall (cached_send_ok clean (cf_flavour cf) c0 (fst rs)) (fst out))
          hist (fst (run_history clean parse cf c hist)).
Proof.
  apply (run_history_lift clean cf (fun c0 rq script evs r =>
    (reg_sends evs <= 3)%nat /\ (fetches evs <= 1)%nat /\ outcome_ok cf rq evs r /\
    stops_after_failure evs /\ Forall (cached_send_ok clean (cf_flavour cf) c0 rq) evs)).
  intros c0 rq script.
  pose proof (do_request_budget clean cf c0 rq script) as B.
  pose proof (do_request_failures clean cf c0 rq script) as F.
  pose proof (do_request_cached_sends clean cf c0 rq script) as K.
  destruct (do_request clean parse cf c0 rq script) as [[evs c'] r].
  destruct B as (B1 & B2 & B3). destruct F as (F1 & _). repeat split; auto.
Qed.

End WithParse.
