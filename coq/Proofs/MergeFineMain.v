(* C14 — InvF preserved by the main caller's steps before complete() *)
From Oras Require Import Base.Prelude Model.Referrers Proofs.Referrers Model.Merge Proofs.Merge Model.MergeFine Proofs.MergeFine.
From Coq Require Import Lia.

Lemma invF_pre s t p cm r st :
  InvF s -> fpre (f_pcs s t) = true -> fpre p = true ->
  (f_committed s = true -> cm = true) -> (fpost p = true -> cm = true) ->
  InvF (mkF (f_pool s) cm (f_items s) (f_pending s) (f_gen s) (f_chans s) (upd (f_pcs s) t p) r st (f_verdict s)).
Proof.
  intros I Hm Hp Hc1 Hc2.
  assert (Hmm : fmain (f_pcs s t) = true) by now apply fpre_main.
  assert (Hpm : fmain p = true) by now apply fpre_main.
  assert (Hin : In t (fbatch s)) by now apply (f_mn s I).
  assert (Hni : f_items s <> []) by (unfold fbatch in Hin; destruct (f_items s); [destruct Hin|discriminate]).
  assert (Hu : forall t0, fmain (f_pcs s t0) = true -> t0 = t) by (intros; eapply (f_mu s I); eauto).
  assert (Hnw : fwindow (f_pcs s t) = false) by (destruct (f_pcs s t); try discriminate; reflexivity).
  assert (Hnw' : fwindow p = false) by (destruct p; try discriminate; reflexivity).
  assert (Hnr : fres (f_pcs s t) = None) by (destruct (f_pcs s t); try discriminate; reflexivity).
  assert (Hnr' : fres p = None) by (destruct p; try discriminate; reflexivity).
  destruct (f_qt s I t Hm) as (Q1 & Q2 & Q3).
  dI I. constructor; simpl.
  all: try solve [fsolve].
  all: try solve [apply it_keep; auto].
  all: try solve [intros t0 c0 Hin0; destruct (f_pe0 t0 c0 Hin0) as [A B]; split; auto; tcase t0 t; auto; rewrite A in Hmm; discriminate].
  all: try solve [intros t0 Hx; tcase t0 t; auto].
  all: try solve [intros t1 t2 H1 H2; tcase t1 t; tcase t2 t; auto; symmetry; auto].
  all: try solve [intros t0 g Hx; tcase t0 t; [rewrite Hx in Hpm; discriminate|eauto]].
  all: try solve [intro Hx; congruence].
  all: try solve [intros _; right; exists t; rewrite upd_eq; exact Hpm].
  all: try solve [intro Hx; exfalso; apply Hni; exact Hx].
  all: try solve [intros t0 Hx; tcase t0 t; auto; apply Hc1; eapply f_com0; eauto].
  all: try solve [intros t0 r0 Hx; tcase t0 t; [congruence|eauto]].
  all: try solve [intros r0 Hx; congruence].
  destruct f_pl0 as (hs & A & B & C). exists hs. split; auto. split; auto.
  intro x. tcase x t; [rewrite B, (fmain_holding _ Hmm), (fmain_holding _ Hpm); tauto | apply B].
Qed.

(* the main caller learns the result of its batch and enters complete() *)
Lemma invF_enter s t r cm rg st :
  InvF s -> fpre (f_pcs s t) = true -> fpost (f_pcs s t) = true \/ cm = true -> (f_committed s = true -> cm = true) ->
  InvF (mkF (f_pool s) cm (f_items s) (f_pending s) (f_gen s) (f_chans s)
            (upd (f_pcs s) t (FNotify r (length (f_items s) - 1))) rg st
            (upd (f_verdict s) (f_gen s) (Some r))).
Proof.
  intros I Hm Hcm Hc1.
  assert (Hmm : fmain (f_pcs s t) = true) by now apply fpre_main.
  assert (Hin : In t (fbatch s)) by now apply (f_mn s I).
  assert (Hni : f_items s <> []) by (unfold fbatch in Hin; destruct (f_items s); [destruct Hin|discriminate]).
  assert (Hu : forall t0, fmain (f_pcs s t0) = true -> t0 = t) by (intros; eapply (f_mu s I); eauto).
  assert (Hcm' : cm = true).
  { destruct Hcm as [Hcm|]; auto. apply Hc1. eapply (f_com s I); eauto. }
  destruct (f_qt s I t Hm) as (Q1 & Q2 & Q3).
  dI I. constructor; simpl.
  all: try solve [fsolve].
  all: try solve [apply it_keep; auto].
  all: try solve [intros t0 c0 Hin0; destruct (f_pe0 t0 c0 Hin0) as [A B]; split; auto; tcase t0 t; auto; rewrite A in Hmm; discriminate].
  all: try solve [intros t0 Hx; tcase t0 t; auto].
  all: try solve [intros t1 t2 H1 H2; tcase t1 t; tcase t2 t; auto; symmetry; auto].
  all: try solve [intros t0 g Hx; tcase t0 t; [discriminate|eauto]].
  all: try solve [intro Hx; congruence].
  all: try solve [intros _; right; exists t; rewrite upd_eq; reflexivity].
  all: try solve [intro Hx; exfalso; apply Hni; exact Hx].
  all: try solve [intros t0 Hx; tcase t0 t; auto].
  - intros t0 Hx. tcase t0 t; [discriminate|]. apply fpre_main, Hu in Hx. congruence.
  - intros t0 r0 Hx. rewrite upd_eq. tcase t0 t; [simpl in Hx; congruence|].
    apply fres_window, fwindow_main, Hu in Hx. congruence.
  - intros r0 Hx. rewrite upd_eq in Hx. injection Hx as <-. exists t. now rewrite upd_eq.
  - destruct f_pl0 as (hs & A & B & C). exists hs. split; auto. split; auto.
    intro x. tcase x t; [rewrite B, (fmain_holding _ Hmm); simpl; tauto | apply B].
Qed.

Lemma invF_frame s rg st : InvF s ->
  InvF (mkF (f_pool s) (f_committed s) (f_items s) (f_pending s) (f_gen s) (f_chans s) (f_pcs s) rg st (f_verdict s)).
Proof. intro I. dI I. constructor; simpl; auto. Qed.

Lemma stepF_main sg s e s' t :
  InvF s -> fstep sg s e = Some s' ->
  ((exists f, e = FEPrepare t f) \/ e = FECommit t \/ (exists f, e = FEPut t f) \/ (exists f, e = FEDel t f) \/ e = FEPutLost t \/ e = FEDelLost t) ->
  InvF s'.
Proof.
  intros I H [[f ->]|[->|[[f ->]|[[f ->]|[->| ->]]]]]; simpl in H.
  - destruct (f_pcs s t) eqn:Hpc; try discriminate. injection H as <-.
    unfold fset_pc. apply invF_pre; auto; try (rewrite Hpc; reflexivity). discriminate.
  - destruct (f_pcs s t) as [|c0|g| |old|nw o|oi ap|r k|r|r|r] eqn:Hpc; try discriminate.
    assert (Hp : fpre (f_pcs s t) = true) by (rewrite Hpc; reflexivity).
    destruct old as [o|].
    + destruct (apply_changes (idx o) (map snd (f_items s))) as [|new].
      * injection H as <-. unfold fnotify. simpl. apply invF_enter; auto.
      * destruct (negb (is_nil new) || sg).
        -- injection H as <-. unfold fset_pc. simpl. apply invF_pre; auto.
        -- destruct o; injection H as <-; [unfold fset_pc; simpl; apply invF_pre; auto|unfold fnotify; simpl; apply invF_enter; auto].
    + injection H as <-. unfold fnotify. simpl. apply invF_enter; auto.
  - destruct (f_pcs s t) as [|c0|g| |old|nw o|oi ap|r k|r|r|r] eqn:Hpc; try discriminate.
    assert (Hp : fpre (f_pcs s t) = true) by (rewrite Hpc; reflexivity).
    assert (Hq : fpost (f_pcs s t) = true) by (rewrite Hpc; reflexivity).
    destruct f; injection H as <-.
    + unfold fnotify. apply invF_enter; auto.
    + unfold fafter_put. destruct sg; [unfold fnotify, fset_reg; simpl; apply invF_enter; auto|].
      destruct o; [unfold fset_pc, fset_reg; simpl; apply invF_pre; auto; intro; eapply (f_com s I); eauto
                  |unfold fnotify, fset_reg; simpl; apply invF_enter; auto].
  - destruct (f_pcs s t) as [|c0|g| |old|nw o|oi ap|r k|r|r|r] eqn:Hpc; try discriminate.
    assert (Hp : fpre (f_pcs s t) = true) by (rewrite Hpc; reflexivity).
    assert (Hq : fpost (f_pcs s t) = true) by (rewrite Hpc; reflexivity).
    destruct f; injection H as <-; unfold fnotify, fset_reg; simpl; apply invF_enter; auto.
  - destruct (f_pcs s t) as [|c0|g| |old|nw o|oi ap|r k|r|r|r] eqn:Hpc; try discriminate.
    assert (Hp : fpre (f_pcs s t) = true) by (rewrite Hpc; reflexivity).
    assert (Hq : fpost (f_pcs s t) = true) by (rewrite Hpc; reflexivity).
    injection H as <-; unfold fnotify, fset_reg; simpl; apply invF_enter; auto.
  - destruct (f_pcs s t) as [|c0|g| |old|nw o|oi ap|r k|r|r|r] eqn:Hpc; try discriminate.
    assert (Hp : fpre (f_pcs s t) = true) by (rewrite Hpc; reflexivity).
    assert (Hq : fpost (f_pcs s t) = true) by (rewrite Hpc; reflexivity).
    injection H as <-; unfold fnotify, fset_reg; simpl; apply invF_enter; auto.
Qed.

