(* C16 -- the run slot of syncutil.Once is never lost: for every program whose
   paths after taking the slot release it before leaving Do (checked by
   computation on the paths generated from once.go), in every interleaving of any
   number of callers (cancelled or not) the slot is free, closed, or held by a
   caller that is inside Do on a path that will release it. *)
From Oras Require Import Base.Prelude Generated.GC16 Model.OnceSlot.

Section Program.
Variables taken closed panics : list (list oact).
Hypothesis taken_release : forall p, In p taken -> releases p = true.
Hypothesis panic_release : forall p, In p panics -> releases p = true.

Definition holder_ok (st : sstate) : Prop :=
  forall g, s_slot st = STaken g ->
    exists rest, pc_get (s_pcs st) g = PIn rest /\ releases rest = true.

Lemma pc_get_set m g p g' : pc_get (pc_set m g p) g' = if g' =? g then p else pc_get m g'.
Proof. reflexivity. Qed.

Lemma holder_ok_init : holder_ok sinit.
Proof. intros g H. discriminate. Qed.

Lemma holder_ok_step st e st' : holder_ok st -> sstep taken closed panics st e = Some st' -> holder_ok st'.
Proof.
  intros I S. destruct st as [sl pcs]. unfold holder_ok in *. simpl in *.
  destruct e as [g0|g0 i|g0 i|g0|g0|g0 i]; simpl in S.
  - destruct (pc_get pcs g0) eqn:P0; try discriminate. injection S as <-. cbn [s_slot s_pcs].
    intros g Hs. destruct (I g Hs) as (rest & Pg & R). exists rest. split; auto.
    rewrite pc_get_set. destruct (g =? g0) eqn:E; auto. apply N.eqb_eq in E. subst. congruence.
  - destruct (pc_get pcs g0) eqn:P0; try discriminate. destruct sl; try discriminate.
    destruct (nth_error taken i) as [p|] eqn:Ni; try discriminate. injection S as <-. cbn [s_slot s_pcs].
    intros g [= <-]. exists p. rewrite pc_get_set, N.eqb_refl. split; auto.
    apply taken_release. eapply nth_error_In; eauto.
  - destruct (pc_get pcs g0) eqn:P0; try discriminate. destruct sl; try discriminate.
    destruct (nth_error closed i) as [p|] eqn:Ni; try discriminate. injection S as <-. cbn [s_slot s_pcs].
    intros g Hs. discriminate.
  - destruct (pc_get pcs g0) eqn:P0; try discriminate. injection S as <-. cbn [s_slot s_pcs].
    intros g Hs. destruct (I g Hs) as (rest & Pg & R). exists rest. split; auto.
    rewrite pc_get_set. destruct (g =? g0) eqn:E; auto. apply N.eqb_eq in E. subst. congruence.
  - destruct (pc_get pcs g0) as [| |[|a rest0]|] eqn:P0; try discriminate.
    destruct a.
    + (* ACallF *) injection S as <-. cbn [s_slot s_pcs]. intros g Hs. destruct (I g Hs) as (rest & Pg & R).
      rewrite pc_get_set. destruct (g =? g0) eqn:E.
      * apply N.eqb_eq in E. subst. rewrite P0 in Pg. injection Pg as <-. exists rest0. auto.
      * eauto.
    + (* AHandBack *) destruct sl as [|g1|]; try discriminate. destruct (g0 =? g1); [|discriminate].
      injection S as <-. cbn [s_slot s_pcs]. intros g Hs. discriminate.
    + (* AClose *) destruct sl as [|g1|]; try discriminate. destruct (g0 =? g1); [|discriminate].
      injection S as <-. cbn [s_slot s_pcs]. intros g Hs. discriminate.
    + (* AStore *) injection S as <-. cbn [s_slot s_pcs]. intros g Hs. destruct (I g Hs) as (rest & Pg & R).
      rewrite pc_get_set. destruct (g =? g0) eqn:E.
      * apply N.eqb_eq in E. subst. rewrite P0 in Pg. injection Pg as <-. exists rest0. auto.
      * eauto.
    + (* ARet *) injection S as <-. cbn [s_slot s_pcs]. intros g Hs. destruct (I g Hs) as (rest & Pg & R).
      rewrite pc_get_set. destruct (g =? g0) eqn:E; [|eauto].
      apply N.eqb_eq in E. subst. rewrite P0 in Pg. injection Pg as <-. discriminate.
    + (* ANext *) injection S as <-. cbn [s_slot s_pcs]. intros g Hs. destruct (I g Hs) as (rest & Pg & R).
      rewrite pc_get_set. destruct (g =? g0) eqn:E; [|eauto].
      apply N.eqb_eq in E. subst. rewrite P0 in Pg. injection Pg as <-. discriminate.  - (* SPanicF: the deferred recover path takes over *)
    destruct (pc_get pcs g0) as [| |[|[| | | | |] rest0]|] eqn:P0; try discriminate.
    destruct (nth_error panics i) as [p|] eqn:Ni; try discriminate. injection S as <-. cbn [s_slot s_pcs].
    intros g Hs. destruct (I g Hs) as (rest & Pg & R).
    rewrite pc_get_set. destruct (g =? g0) eqn:E; [|eauto].
    exists p. split; auto. apply panic_release. eapply nth_error_In; eauto.
Qed.

Lemma holder_ok_run tr : forall st st', holder_ok st -> srun taken closed panics st tr = Some st' -> holder_ok st'.
Proof.
  induction tr as [|e tr IH]; intros st st' I R; simpl in R.
  - now injection R as <-.
  - destruct (sstep taken closed panics st e) as [st1|] eqn:S; [|discriminate].
    eapply IH; [eapply holder_ok_step; eauto | eauto].
Qed.

(* every reachable state: a taken slot is owned by a caller inside Do whose
   remaining path releases it *)
Lemma slot_owned tr st g :
  srun taken closed panics sinit tr = Some st -> s_slot st = STaken g ->
  exists rest, pc_get (s_pcs st) g = PIn rest /\ releases rest = true.
Proof. intros R. exact (holder_ok_run tr sinit st holder_ok_init R g). Qed.

(* quiescent points: when no caller is in the middle of Do, the slot is free or a
   result is published *)
Lemma quiescent_slot_free tr st :
  srun taken closed panics sinit tr = Some st ->
  (forall g rest, pc_get (s_pcs st) g <> PIn rest) ->
  s_slot st = SFree \/ s_slot st = SClosed.
Proof.
  intros R Q. destruct (s_slot st) as [|g|] eqn:E; auto.
  destruct (slot_owned tr st g R E) as (rest & P & _). exfalso. eapply Q; eauto.
Qed.

(* the owner can always go on, and its own steps alone release the slot *)
Lemma owner_releases : forall rest st g,
  s_slot st = STaken g -> pc_get (s_pcs st) g = PIn rest -> releases rest = true ->
  exists n st', (n <= length rest)%nat /\
    srun taken closed panics st (repeat (SAct g) n) = Some st' /\
    (s_slot st' = SFree \/ s_slot st' = SClosed).
Proof.
  induction rest as [|a rest IH]; intros st g Hs Hp Hr; [discriminate|].
  destruct st as [sl pcs]. simpl in *. subst sl.
  destruct a; simpl in Hr; try discriminate.
  - (* ACallF *)
    destruct (IH (mkS (STaken g) (pc_set pcs g (PIn rest))) g eq_refl) as (n & st' & Ln & Rn & F); auto.
    { cbn [s_pcs]. now rewrite pc_get_set, N.eqb_refl. }
    exists (S n), st'. split; [simpl; lia|]. split; auto. simpl. rewrite Hp. exact Rn.
  - exists 1%nat, (mkS SFree (pc_set pcs g (PIn rest))). split; [simpl; lia|]. split; auto.
    simpl. now rewrite Hp, N.eqb_refl.
  - exists 1%nat, (mkS SClosed (pc_set pcs g (PIn rest))). split; [simpl; lia|]. split; auto.
    simpl. now rewrite Hp, N.eqb_refl.
  - (* AStore *)
    destruct (IH (mkS (STaken g) (pc_set pcs g (PIn rest))) g eq_refl) as (n & st' & Ln & Rn & F); auto.
    { cbn [s_pcs]. now rewrite pc_get_set, N.eqb_refl. }
    exists (S n), st'. split; [simpl; lia|]. split; auto. simpl. rewrite Hp. exact Rn.
Qed.

Lemma never_wedged tr st g :
  srun taken closed panics sinit tr = Some st -> s_slot st = STaken g ->
  exists n st', srun taken closed panics st (repeat (SAct g) n) = Some st' /\
    (s_slot st' = SFree \/ s_slot st' = SClosed).
Proof.
  intros R Hs. destruct (slot_owned tr st g R Hs) as (rest & P & Rl).
  destruct (owner_releases rest st g Hs P Rl) as (n & st' & _ & Rn & F). eauto.
Qed.
End Program.

(* ---------- the program generated from once.go ---------- *)
Lemma generated_paths_ok :
  forallb releases paths_taken = true /\ forallb untouched paths_closed = true /\
  forallb releases paths_panic = true /\ negb (Nat.eqb (length paths_panic) 0) = true /\
  negb (Nat.eqb (length paths_taken) 0) = true /\ negb (Nat.eqb (length paths_closed) 0) = true.
Proof. vm_compute. repeat split; reflexivity. Qed.

Lemma generated_taken_release p : In p paths_taken -> releases p = true.
Proof. intro H. exact (proj1 (forallb_forall _ _) (proj1 generated_paths_ok) p H). Qed.

Lemma generated_panic_release p : In p paths_panic -> releases p = true.
Proof. intro H. exact (proj1 (forallb_forall _ _) (proj1 (proj2 (proj2 generated_paths_ok))) p H). Qed.

(* a program with a return path that keeps the slot (the caller checks its context
   after the receive and leaves) loses the slot at a quiescent point *)
Lemma leaky_program_wedges :
  let taken := [ARet] :: paths_taken in
  exists tr st, srun taken paths_closed paths_panic sinit tr = Some st /\
    (forall g rest, pc_get (s_pcs st) g <> PIn rest) /\ s_slot st = STaken 1.
Proof.
  exists [SEnter 1; STake 1 0; SAct 1]. eexists. split; [vm_compute; reflexivity|].
  split; [|reflexivity]. intros g rest. simpl. destruct (g =? 1); discriminate.
Qed.

(* a program whose deferred function does not hand the slot back loses it when the
   function argument panics *)
Lemma panic_without_handback_wedges :
  exists tr st, srun paths_taken paths_closed [[ARet]] sinit tr = Some st /\
    (forall g rest, pc_get (s_pcs st) g <> PIn rest) /\ s_slot st = STaken 1.
Proof.
  exists [SEnter 1; STake 1 0; SPanicF 1 0; SAct 1]. eexists. split; [vm_compute; reflexivity|].
  split; [|reflexivity]. intros g rest. simpl. destruct (g =? 1); discriminate.
Qed.
