(* CopyAbs: the abstract system keeps a link-closed destination link-closed, and both concrete models refine it
   (forward simulation: every concrete step is an abstract step -- a store with its guard, a return with its
   guard, or a stutter -- under the abstraction "destination content + return value"). *)
From Oras Require Import Base.Prelude Model.CopySpec Model.CopyTop Model.CopyOpt Model.CopyFault Model.CopyAbs
  Proofs.CopySpec Proofs.CopyFault.
Local Open Scope nat_scope.

Section AbsFacts.
Variable succ : nat -> list nat.
Variable is_root : nat -> Prop.
Variable held : list nat -> nat -> Prop.
Hypothesis held_mono : forall d x m, held d m -> held (x :: d) m.
Hypothesis held_self : forall d x, held (x :: d) x.

Lemma astep_closed s l s' : astep succ is_root held s l s' -> aclosed succ held (a_dst s) -> aclosed succ held (a_dst s').
Proof.
  intros H Hc. destruct H; cbn [a_dst]; auto.
  intros x [<-|Hx] m Hm.
  - apply held_mono. auto.
  - apply held_mono. eapply Hc; eauto.
Qed.
End AbsFacts.

(* ---- the visible-event system refines the abstract one ---- *)
Section SpecRefines.
Variable g : graph.
Variable c : cfg.
Variable ext : bool.
Variable d0 : list node.

Definition fabs (fs : fstate) : astate := mkA (dst (fb fs)) (returned (fb fs)).
Definition fheld (d : list nat) (m : nat) : Prop := has g d m = true.
Definition froot (r : nat) : Prop := is_call_root g c ext r.

Lemma areach_reach a b : areach (succ' g) a b -> reach g a b.
Proof. induction 1; econstructor; eauto. Qed.

Lemma fstep_refines fs fe fs' :
  closed_nodes g d0 -> mt_consistent g -> Inv g c d0 (fb fs) ->
  fstep g c ext fs fe = Some fs' ->
  exists l, astep (succ' g) froot fheld (fabs fs) l (fabs fs').
Proof.
  intros Hc Hmt I H. pose proof (fstep_preserves_inv g c ext d0 _ _ _ I H) as I'.
  apply fstep_inv in H as [Hr H].
  destruct H; unfold fabs; cbn [fb set_ret with_base dst returned set_ph]; rewrite ?Hr.
  - (* Ret true: everything reachable from the roots is held *)
    exists (ARet true). apply as_ret_ok; [reflexivity|]. intros r n Hroot Hreach. unfold fheld. cbn [a_dst].
    eapply reach_closed; eauto using areach_reach.
    + now apply (i_closed _ _ _ _ I).
    + apply (i_present _ _ _ _ I). rewrite (guard_roots_done g c ext _ r H0 Hroot). reflexivity.
  - exists (ARet false). now apply as_ret_err.
  - exists ATau. apply as_tau.
  - exists ATau. apply as_tau.
  - (* a step of CopySpec: stores at most one node, whose successors are held *)
    rewrite (step_returned g c _ _ _ H1 H0), Hr.
    destruct (dst_step g c d0 (fb fs) e st' I H1) as [E|[n [E [Hs Hn]]]]; rewrite E.
    + exists ATau. apply as_tau.
    + exists (AStore n). apply as_store; [reflexivity|].
      intros m Hm. unfold fheld. cbn [a_dst]. eapply settled_successors; eauto.
  - exists ATau. apply as_tau.
  - exists ATau. apply as_tau.
  - exists ATau. apply as_tau.
  - exists ATau. apply as_tau.
  - (* PuX *)
    destruct (stored && negb (has g (dst (fb fs)) n)) eqn:Es.
    + exists (AStore n). apply as_store; [reflexivity|].
      intros m Hm. unfold fheld. cbn [a_dst]. eapply pushing_successors; eauto.
    + exists ATau. apply as_tau.
  - exists ATau. apply as_tau.
  - (* MtX *)
    destruct (stored && negb (has g (dst (fb fs)) n)) eqn:Es.
    + exists (AStore n). apply as_store; [reflexivity|].
      intros m Hm. unfold fheld. cbn [a_dst]. eapply settled_successors; eauto.
      destruct H0 as [H0|H0]; rewrite H0; reflexivity.
    + exists ATau. apply as_tau.
  - exists ATau. apply as_tau.
  - exists ATau. apply as_tau.
Qed.

Lemma frefines tr fs fe fs' :
  ext_ok g c ext d0 -> closed_nodes g d0 -> mt_consistent g ->
  faccepts g c ext d0 tr = Some fs -> fstep g c ext fs fe = Some fs' ->
  exists l, astep (succ' g) froot fheld (fabs fs) l (fabs fs').
Proof.
  intros Hx Hc Hmt Ha H. unfold faccepts in Ha.
  eapply fstep_refines; eauto. exact (frun_inv g c ext d0 tr _ _ (finit_inv g c ext d0 Hx) Ha).
Qed.

Lemma fabs_init : fabs (finit c ext d0) = mkA d0 None.
Proof. unfold fabs, finit. cbn [fb]. destruct ext; reflexivity. Qed.

End SpecRefines.
