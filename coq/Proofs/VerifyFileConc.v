(* Concurrent named pushes into one file.Store: for every schedule, what the store
   serves matches (invariant of the transition system fstep), provided no two different
   names in play resolve to one path. *)
From Oras Require Import Base.Prelude Generated.GC05 Model.Verify Proofs.Verify Proofs.VerifyNames.
From Coq Require Import Lia.

Lemma nth_error_set_nth_eq {A} (l : list A) i x t :
  nth_error l i = Some t -> nth_error (set_nth l i x) i = Some x.
Proof. revert i. induction l as [|y l IH]; intros [|i]; simpl; try discriminate; auto. Qed.

Lemma nth_error_set_nth_neq {A} (l : list A) i j x :
  i <> j -> nth_error (set_nth l i x) j = nth_error l j.
Proof.
  revert i j. induction l as [|y l IH]; intros [|i] [|j] N; simpl; auto; try congruence.
Qed.

Lemma Forall_set_nth_others {A} (P : A -> Prop) l i x :
  (forall j tj, nth_error l j = Some tj -> j <> i -> P tj) -> P x -> Forall P (set_nth l i x).
Proof.
  revert i. induction l as [|y l IH]; intros i Hp Px; simpl; [destruct i; constructor|].
  destruct i as [|i].
  - constructor; auto. apply Forall_forall. intros z Iz. apply In_nth_error in Iz as (j & Ej).
    apply (Hp (S j) z); auto.
  - constructor.
    + apply (Hp 0%nat y); auto.
    + apply IH; auto. intros j tj Ej Nj. apply (Hp (S j) tj); auto.
Qed.

Lemma name_in_In n l : name_in n l = true <-> In n l.
Proof.
  unfold name_in. rewrite existsb_exists. split.
  - intros (x & Ix & E). apply str_eqb_spec in E. subst. exact Ix.
  - intro I. exists n. split; auto. apply str_eqb_refl.
Qed.

Section FileConc.
  Variable H : str -> str -> str.
  Variable U : list str.                       (* all names in play *)
  Hypothesis U_inj : forall a c, In a U -> In c U -> resolve_name a = resolve_name c -> a = c.

  Definition fthr_ok (s : fstore) (t : fthr) : Prop :=
    In (ft_name t) U /\
    match ft_pc t with
    | FWrite e out path =>
        ft_name t <> [] /\ resolve_name (ft_name t) = Some path /\ name_in (ft_name t) (f_names s) = false /\
        exists v, copy_buffer H (ft_comb t) true (ft_fuel t) (mkBase (ft_evs t) None) file_bufsz
                              (d_dg (ft_d t)) (d_sz (ft_d t)) = ((e, out), v)
    | _ => True
    end.

  Definition lock_unique (thr : list fthr) : Prop :=
    forall i j ti tj, nth_error thr i = Some ti -> nth_error thr j = Some tj ->
                      writing ti = true -> writing tj = true -> ft_name ti = ft_name tj -> i = j.

  Definition finv (st : fcstate) : Prop :=
    file_ok H (fc_st st) /\ d2p_named (fc_st st) /\
    (forall n, name_in n (f_names (fc_st st)) = true -> In n U) /\
    Forall (fthr_ok (fc_st st)) (fc_thr st) /\ lock_unique (fc_thr st).

  Lemma locked_false thr n : locked thr n = false ->
    forall j tj, nth_error thr j = Some tj -> writing tj = true -> ft_name tj <> n.
  Proof.
    unfold locked. intros L j tj Ej W E.
    assert (X : existsb (fun t => writing t && str_eqb (ft_name t) n) thr = true).
    { apply existsb_exists. exists tj. split; [eapply nth_error_In; eauto|]. rewrite W, E, str_eqb_refl. reflexivity. }
    congruence.
  Qed.

  (* a path that is about to be written by a thread whose name is not in use serves no content *)
  Lemma fresh_path_free s name path :
    d2p_named s -> (forall n, name_in n (f_names s) = true -> In n U) ->
    In name U -> name_in name (f_names s) = false -> resolve_name name = Some path -> path_free s path.
  Proof.
    intros Dn Su Iu Nin Rn dg p Gp. destruct (Dn _ _ Gp) as (n & In_ & Rp).
    destruct (str_eqb path p) eqn:E; auto. apply str_eqb_spec in E. subst p.
    assert (n = name) by (apply U_inj; auto; congruence). subst n. congruence.
  Qed.

  Lemma lock_unique_unlock thr i t p :
    lock_unique thr -> nth_error thr i = Some t -> writing (with_fpc t p) = false ->
    lock_unique (set_nth thr i (with_fpc t p)).
  Proof.
    intros Lu Ei Nw a c ta tc Ea Ec Wa Wc En.
    destruct (Nat.eq_dec i a) as [->|Na].
    - rewrite (nth_error_set_nth_eq _ _ _ _ Ei) in Ea. inversion Ea; subst. congruence.
    - destruct (Nat.eq_dec i c) as [->|Nc].
      + rewrite (nth_error_set_nth_eq _ _ _ _ Ei) in Ec. inversion Ec; subst. congruence.
      + rewrite nth_error_set_nth_neq in Ea, Ec by auto. eapply Lu; eauto.
  Qed.

  Lemma fstep_inv st i st' : finv st -> fstep H st i = Some st' -> finv st'.
  Proof.
    intros (Fo & Dn & Su & Ft & Lu). unfold fstep.
    destruct (nth_error (fc_thr st) i) as [t|] eqn:Ei; [|discriminate].
    pose proof (Forall_nth_error _ _ _ _ Ft Ei) as [Tu Pt].
    destruct (ft_pc t) as [|e out path|r] eqn:Epc; [| |discriminate].
    - (* FStart *)
      destruct (ft_name t) as [|c n0] eqn:En; [discriminate|].
      assert (Nn : ft_name t <> []) by (rewrite En; discriminate). rewrite <- En in *.
      destruct (locked (fc_thr st) (ft_name t)) eqn:Lk; [discriminate|].
      assert (Done : forall r, finv (mkFC (fc_st st) (set_nth (fc_thr st) i (with_fpc t (FDone r))))).
      { intro r. split; [exact Fo|]. split; [exact Dn|]. split; [exact Su|]. split.
        - apply Forall_set_nth; auto. split; auto; simpl; exact I.
        - apply lock_unique_unlock; auto. }
      destruct (name_in (ft_name t) (f_names (fc_st st))) eqn:Nin.
      { intro E; inversion E; subst. apply Done. }
      destruct (resolve_name (ft_name t)) as [path|] eqn:Rn.
      2:{ intro E; inversion E; subst. apply Done. }
      destruct (copy_buffer H (ft_comb t) true (ft_fuel t) (mkBase (ft_evs t) None) file_bufsz
                            (d_dg (ft_d t)) (d_sz (ft_d t))) as [[e out] v] eqn:Ec.
      intro E; inversion E; subst; clear E.
      pose proof (fresh_path_free _ _ _ Dn Su Tu Nin Rn) as Pf.
      split; [|split; [|split; [|split]]]; cbn [fc_st fc_thr f_names f_d2p f_files f_fb].
      + destruct Fo as [Ok1 Ok2]. split; auto. cbn [f_d2p f_files]. intros dg p Gp.
        destruct (Ok1 _ _ Gp) as (bs & Fb & Db). exists bs. rewrite assoc_get_set, (Pf _ _ Gp). auto.
      + exact Dn.
      + exact Su.
      + apply Forall_set_nth.
        * eapply Forall_impl; [|exact Ft]. intros t0 [A Bq]. split; auto.
        * split; auto. simpl. split; auto. split; auto. split; auto. exists v. exact Ec.
      + intros a c0 ta tc Ea Ec0 Wa Wc Enm.
        destruct (Nat.eq_dec i a) as [Eia|Na]; [subst a|]; (destruct (Nat.eq_dec i c0) as [Eic|Nc]; [subst c0|]); auto.
        * rewrite (nth_error_set_nth_eq _ _ _ _ Ei) in Ea. inversion Ea; subst ta.
          rewrite nth_error_set_nth_neq in Ec0 by auto.
          exfalso. eapply (locked_false _ _ Lk c0 tc); eauto.
        * rewrite (nth_error_set_nth_eq _ _ _ _ Ei) in Ec0. inversion Ec0; subst tc.
          rewrite nth_error_set_nth_neq in Ea by auto.
          exfalso. eapply (locked_false _ _ Lk a ta); eauto.
        * rewrite nth_error_set_nth_neq in Ea, Ec0 by auto. eapply Lu; eauto.
    - (* FWrite: finish *)
      destruct Pt as (Nn & Rn & Nin & v & Ec).
      pose proof (fresh_path_free _ _ _ Dn Su Tu Nin Rn) as Pf.
      assert (Wt : writing t = true) by (unfold writing; rewrite Epc; reflexivity).
      destruct e as [er|]; intro E; inversion E; subst; clear E;
        (split; [|split; [|split; [|split]]]); cbn [fc_st fc_thr f_names f_d2p f_files f_fb].
      + destruct Fo as [Ok1 Ok2]. split; auto. cbn [f_d2p f_files]. intros dg p Gp.
        destruct (Ok1 _ _ Gp) as (bs & Fb & Db). exists bs. rewrite assoc_get_del, (Pf _ _ Gp). auto.
      + exact Dn.
      + exact Su.
      + apply Forall_set_nth.
        * eapply Forall_impl; [|exact Ft]. intros t0 [A Bq]. split; auto.
        * split; auto; simpl; exact I.
      + apply lock_unique_unlock; auto.
      + (* success: the verified bytes become visible *)
        apply copy_buffer_sound in Ec as ((A1 & A2 & A3) & _).
        destruct Fo as [Ok1 Ok2]. split; auto. cbn [f_d2p f_files]. intros dg p. rewrite assoc_get_set.
        destruct (str_eqb (d_dg (ft_d t)) dg) eqn:Q.
        * apply str_eqb_spec in Q. subst dg. intro X; inversion X; subst p.
          exists out. rewrite assoc_get_set, str_eqb_refl. auto.
        * intro Gp. destruct (Ok1 _ _ Gp) as (bs & Fb & Db). exists bs. rewrite assoc_get_set, (Pf _ _ Gp). auto.
      + intros dg p. cbn [f_d2p f_names]. rewrite assoc_get_set. destruct (str_eqb (d_dg (ft_d t)) dg).
        * intro X; inversion X; subst. exists (ft_name t). rewrite name_in_cons, str_eqb_refl. auto.
        * intro Gp. destruct (Dn _ _ Gp) as (n & In_ & Rq). exists n. rewrite name_in_cons, In_, orb_true_r. auto.
      + intros n. rewrite name_in_cons. intro X. apply orb_true_iff in X as [X|X]; auto.
        apply str_eqb_spec in X. subst. exact Tu.
      + apply Forall_set_nth_others.
        * (* the other writers keep a name that is not in use: the lock *)
          intros j t0 Ej Nj.
          pose proof (Forall_nth_error _ _ _ _ Ft Ej) as [A Bq]. split; auto.
          destruct (ft_pc t0) as [|e0 out0 path0|r0] eqn:Ep0; auto.
          destruct Bq as (B0 & B1 & B2 & B3). split; auto. split; auto. split; auto.
          cbn [f_names]. rewrite name_in_cons, B2, orb_false_r.
          destruct (str_eqb (ft_name t0) (ft_name t)) eqn:Q; auto. apply str_eqb_spec in Q.
          assert (W0 : writing t0 = true) by (unfold writing; rewrite Ep0; reflexivity).
          exfalso. apply Nj. eapply Lu; eauto.
        * split; auto; simpl; exact I.
      + apply lock_unique_unlock; auto.
  Qed.

  Lemma frun_inv sched : forall st st', finv st -> frun H st sched = Some st' -> finv st'.
  Proof.
    induction sched as [|i r IH]; intros st st' Iv; simpl.
    - intro E; inversion E; subst; auto.
    - destruct (fstep H st i) as [st1|] eqn:Es; [|discriminate]. apply IH. eapply fstep_inv; eauto.
  Qed.

  Lemma finv_start s ts :
    file_reach_names H s -> (forall n, name_in n (f_names s) = true -> In n U) ->
    Forall (fun t => ft_pc t = FStart /\ In (ft_name t) U) ts -> finv (mkFC s ts).
  Proof.
    intros R Su F. destruct (file_reach_names_ok H s R) as [Rs Dn].
    split; [apply file_reach_ok; exact Rs|]. split; [exact Dn|]. split; [exact Su|]. split.
    - simpl. eapply Forall_impl; [|exact F]. intros t [E Iu]. split; auto. rewrite E. exact I.
    - intros a c ta tc Ea Ec Wa. simpl in Ea.
      pose proof (Forall_nth_error _ _ _ _ F Ea) as [E _]. unfold writing in Wa. rewrite E in Wa. discriminate.
  Qed.

  (* any number of named pushes (good and bad, one digest under several names, one name
     several times), any schedule: whatever Fetch serves at any instant hashes to the
     digest asked for, and a push that reports success has made its reader's exact
     bytes visible under its name *)
  Theorem file_concurrent s ts sched st :
    file_reach_names H s -> (forall n, name_in n (f_names s) = true -> In n U) ->
    Forall (fun t => ft_pc t = FStart /\ In (ft_name t) U) ts ->
    frun H (mkFC s ts) sched = Some st ->
    (forall name d bs, file_fetch (fc_st st) name d = Some bs ->
                       d_dg d = digest_of H (alg_of (d_dg d)) bs /\ valid_digest (d_dg d) = true) /\
    (forall i st' t out path, fstep H st i = Some st' -> nth_error (fc_thr st) i = Some t ->
       ft_pc t = FWrite None out path ->
       file_fetch (fc_st st') (ft_name t) (ft_d t) = Some out /\
       matches_desc H (d_dg (ft_d t)) (d_sz (ft_d t)) out /\ (neof (ft_evs t) = 0%nat -> stream (ft_evs t) = out)).
  Proof.
    intros R Su F E. pose proof (frun_inv sched _ _ (finv_start s ts R Su F) E) as Iv.
    split.
    - intros name d bs. apply file_fetch_ok. apply Iv.
    - intros i st' t out path Es Ei Ep. destruct Iv as (Fo & Dn & Su' & Ft & Lu).
      pose proof (Forall_nth_error _ _ _ _ Ft Ei) as [Tu Pt]. rewrite Ep in Pt.
      destruct Pt as (Nn & Rn & Nin & v & Ec).
      unfold fstep in Es. rewrite Ei, Ep in Es. inversion Es; subst; clear Es.
      apply copy_buffer_sound in Ec as (A & _ & C). specialize (C eq_refl). simpl in C.
      unfold file_fetch. cbn [fc_st f_names f_d2p f_files].
      destruct (ft_name t) as [|c n0] eqn:En.
      + (* a writing thread is named *) congruence.
      + rewrite <- En. rewrite name_in_cons, str_eqb_refl. rewrite En at 1. cbn [negb orb].
        rewrite !assoc_get_set, !str_eqb_refl. try rewrite !assoc_get_set, !str_eqb_refl. auto.
  Qed.
End FileConc.

Section FileExplore.
  Variable H : str -> str -> str.

  Lemma explore_f_reachable fuel : forall st st',
    In st' (explore_f H fuel st) -> exists sched, frun H st sched = Some st'.
  Proof.
    induction fuel as [|f IH]; intros st st'; simpl; [intros []|].
    set (nexts := flat_map (fun i => match fstep H st i with Some st1 => [st1] | None => [] end)
                           (seq 0 (length (fc_thr st)))).
    assert (Hn : forall st1, In st1 nexts -> exists i, fstep H st i = Some st1).
    { intros st1 I1. apply in_flat_map in I1 as (i & _ & I2).
      destruct (fstep H st i) as [s|] eqn:E; [|destruct I2].
      destruct I2 as [->|[]]. exists i. exact E. }
    destruct nexts as [|n0 nr] eqn:En.
    - intros [<-|[]]. exists []. reflexivity.
    - intro I1. apply in_flat_map in I1 as (st1 & I2 & I3).
      destruct (Hn st1 I2) as (i & Es). destruct (IH _ _ I3) as (sched & Er).
      exists (i :: sched). simpl. rewrite Es. exact Er.
  Qed.
End FileExplore.
