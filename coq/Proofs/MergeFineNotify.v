(* C14 — InvF preserved by the channel operations of complete() *)
From Oras Require Import Base.Prelude Model.Referrers Proofs.Referrers Model.Merge Proofs.Merge Model.MergeFine.
From Oras Require Import Proofs.MergeFine Proofs.MergeFineGet Proofs.MergeFineMain Proofs.MergeFineAssign Proofs.MergeFineWake.
From Coq Require Import Lia.


(* the main caller receives the main status *)
Lemma invF_window s t p ch' :
  InvF s -> fwindow (f_pcs s t) = true -> fwindow p = true -> fres p = fres (f_pcs s t) ->
  (forall g0, g0 <> f_gen s -> ch' g0 = f_chans s g0) ->
  fbuf (ch' (f_gen s)) <> Some FMain ->
  (forall r0, fbuf (ch' (f_gen s)) = Some (FRes r0) -> f_verdict s (f_gen s) = Some r0) ->
  (fclosed (ch' (f_gen s)) = true -> f_verdict s (f_gen s) = Some ROk) ->
  InvF (mkF (f_pool s) (f_committed s) (f_items s) (f_pending s) (f_gen s) ch' (upd (f_pcs s) t p)
            (f_reg s) (f_store s) (f_verdict s)).
Proof.
  intros I Hw Hp Hr Hch Hnm Hvb Hvc.
  assert (Hm : fmain (f_pcs s t) = true) by now apply fwindow_main.
  assert (Hpm : fmain p = true) by now apply fwindow_main.
  assert (Hu : forall t0, fmain (f_pcs s t0) = true -> t0 = t) by (intros; eapply (f_mu s I); eauto).
  assert (Hpost : fpost p = true) by (destruct p; try discriminate; reflexivity).
  assert (Hpost0 : fpost (f_pcs s t) = true) by (destruct (f_pcs s t); try discriminate; reflexivity).
  assert (Hnpre : fpre p = false) by (destruct p; try discriminate; reflexivity).
  dI I. constructor; simpl.
  all: try solve [fsolve].
  all: try solve [apply it_keep; auto].
  all: try solve [intros t0 c0 Hin0; destruct (f_pe0 t0 c0 Hin0) as [A B]; split; [|exact B]; tcase t0 t; auto; rewrite A in Hm; discriminate].
  all: try solve [intros t0 Hx; tcase t0 t; auto].
  all: try solve [intros t1 t2 H1 H2; tcase t1 t; tcase t2 t; auto; symmetry; auto].
  all: try solve [intros t0 g Hx; tcase t0 t; [rewrite Hx in Hpm; discriminate|eauto]].
  all: try solve [intro Hx; congruence].
  all: try solve [intros _; right; exists t; rewrite upd_eq; exact Hpm].
  all: try solve [intros t0 Hx; tcase t0 t; eauto].
  all: try solve [intros t0 Hx; tcase t0 t; [congruence|]; apply fpre_main, Hu in Hx; congruence].
  all: try solve [intros g0 Hx; rewrite Hch by lia; auto].
  all: try solve [intros g0 r0 Hx; destruct (Nat.eq_dec g0 (f_gen s)) as [->|Hne]; [auto|rewrite Hch in Hx by auto; eauto]].
  all: try solve [intros g0 Hx; destruct (Nat.eq_dec g0 (f_gen s)) as [->|Hne]; [auto|rewrite Hch in Hx by auto; eauto]].
  all: try solve [intros t0 r0 Hx; tcase t0 t; [rewrite Hr in Hx; eauto|eauto]].
  all: try solve [intros r0 Hx; destruct (f_vn0 r0 Hx) as (x & Hxx); destruct (Nat.eq_dec x t) as [->|Hne];
                  [exists t; rewrite upd_eq; congruence|exists x; now rewrite upd_neq]].
  destruct f_pl0 as (hs & A & B & C). exists hs. split; auto. split; auto.
  intro x. tcase x t; [rewrite B, (fmain_holding _ Hm), (fmain_holding _ Hpm); tauto | apply B].
Qed.

Lemma stepF_notify sg s t s' : InvF s -> fstep sg s (FENotify t) = Some s' -> InvF s'.
Proof.
  intros I H. simpl in H.
  destruct (f_pcs s t) as [|c|g| |old|nw o|oi ap|r k|r|r|r] eqn:Hpc; try discriminate.
  assert (Hw : fwindow (f_pcs s t) = true) by now rewrite Hpc.
  assert (Hv : f_verdict s (f_gen s) = Some r) by (apply (f_vw s I t); now rewrite Hpc).
  pose proof (f_window_no_token s t I (fwindow_main _ Hw)) as Hnt.
  assert (Hvb : forall r0, fbuf (f_chans s (f_gen s)) = Some (FRes r0) -> f_verdict s (f_gen s) = Some r0) by (intros; eapply (f_vb s I); eauto).
  assert (Hvc : fclosed (f_chans s (f_gen s)) = true -> f_verdict s (f_gen s) = Some ROk) by (apply (f_vc s I)).
  assert (Hsend : forall k2, r <> ROk -> fbuf (f_chans s (f_gen s)) = None ->
            InvF (mkF (f_pool s) (f_committed s) (f_items s) (f_pending s) (f_gen s)
                      (upd (f_chans s) (f_gen s) (mkFC (Some (FRes r)) (fclosed (f_chans s (f_gen s)))))
                      (upd (f_pcs s) t (FNotify r k2)) (f_reg s) (f_store s) (f_verdict s))).
  { intros k2 _ Hb. apply invF_window; auto; try (rewrite Hpc; reflexivity); try (rewrite upd_eq; simpl; congruence).
    - intros g0 Hne. now rewrite upd_neq.
    - rewrite upd_eq. simpl. exact Hvc. }
  assert (Hskip : InvF (fset_pc s t (FSwap r))).
  { unfold fset_pc. apply invF_window; auto; rewrite Hpc; reflexivity. }
  destruct r.
  - injection H as <-. apply invF_window; auto; try (rewrite Hpc; reflexivity); try (rewrite upd_eq; simpl; auto).
    intros g0 Hne. now rewrite upd_neq.
  - destruct k as [|k2]; [injection H as <-; exact Hskip|].
    destruct (fbuf (f_chans s (f_gen s))) eqn:Hb; [discriminate|]. injection H as <-. apply Hsend; auto. discriminate.
  - destruct k as [|k2]; [injection H as <-; exact Hskip|].
    destruct (fbuf (f_chans s (f_gen s))) eqn:Hb; [discriminate|]. injection H as <-. apply Hsend; auto. discriminate.  - destruct k as [|k2]; [injection H as <-; exact Hskip|].
    destruct (fbuf (f_chans s (f_gen s))) eqn:Hb; [discriminate|]. injection H as <-. apply Hsend; auto. discriminate.
Qed.

