(* Proofs/Links.v -- "config, layers, blobs, manifests or subject": the successor relation
   of content.Successors spelled out, and Predecessors in those terms. *)
From Coq Require Import List NArith Bool.
Import ListNotations.
From Oras Require Import Base.Prelude Generated.GC07 Model.GraphMem Model.Links Proofs.GraphMem.

(* n is referenced by document m, as the code reads m for its media type *)
Definition link (m : mdoc) (n : node) : Prop :=
  match d_kind m with
  | KDockerManifest => n = d_config m \/ In n (d_layers m)
  | KImageManifest => d_subject m = Some n \/ n = d_config m \/ In n (d_layers m)
  | KDockerList => In n (d_manifests m)
  | KImageIndex => d_subject m = Some n \/ In n (d_manifests m)
  | KArtifact => d_subject m = Some n \/ In n (d_blobs m)
  | KOther => False
  end.

Lemma In_opt_list o n : In n (opt_list o) <-> o = Some n.
Proof. destruct o; simpl; split; intros H; try tauto; try discriminate.
  - destruct H as [->|[]]. reflexivity.
  - inversion H. auto.
Qed.

(* the schema read from the source says what the hand-written reading says *)
Lemma successors_of_spec m : successors_of m = successors_spec m.
Proof.
  destruct m as [k sub cfg ls ms bs]. destruct k; cbv -[app opt_list]; rewrite ?app_nil_r; reflexivity.
Qed.

Lemma successors_link m n : In n (successors_of m) <-> link m n.
Proof.
  rewrite successors_of_spec.
  unfold successors_spec, link. destruct (d_kind m); simpl;
    rewrite ?in_app_iff, ?In_opt_list; simpl; intuition auto.
Qed.

Lemma links_exact (doc : node -> mdoc) (g : graph) :
  Inv (fun p => successors_of (doc p)) g ->
  forall n, NoDup (predecessors g n) /\
            forall p, In p (predecessors g n) <-> In p (g_nodes g) /\ link (doc p) n.
Proof.
  intros HI n. destruct (predecessors_exact _ g HI n) as [Hd Hm]. split; auto.
  intro p. rewrite Hm, successors_link. tauto.
Qed.

(* a manifest listed twice, a subject that is also a layer: one predecessor entry *)
Example link_example :
  successors_of (mkDoc KImageManifest (Some 1%N) 2%N [1%N; 3%N; 3%N] [9%N] [8%N]) = [1; 2; 1; 3; 3]%N.
Proof. vm_compute. reflexivity. Qed.
