(* The bytes saveFile writes do not depend on Go's map iteration order: the
   writer sorts the keys (Model/JsonDoc.v sort_keys). *)
From Coq Require Import Permutation Sorting.Sorted Lia.
From Oras Require Import Base.Prelude Generated.GC18 Model.Utf8 Model.Json Model.CredFile Model.JsonDoc.

Lemma str_ltb_irrefl x : str_ltb x x = false.
Proof. induction x as [|c x IH]; [reflexivity|]. cbn. rewrite N.ltb_irrefl. exact IH. Qed.

Lemma str_ltb_trans x : forall y z, str_ltb x y = true -> str_ltb y z = true -> str_ltb x z = true.
Proof.
  induction x as [|c x IH]; intros [|d y] [|e z] H1 H2; cbn in *; try discriminate; try reflexivity.
  destruct (c <? d) eqn:E1.
  - apply N.ltb_lt in E1. destruct (d <? e) eqn:E2.
    + apply N.ltb_lt in E2. assert (E : c <? e = true) by (apply N.ltb_lt; lia). now rewrite E.
    + destruct (e <? d) eqn:E3; [discriminate|]. apply N.ltb_ge in E2. apply N.ltb_ge in E3.
      assert (d = e) by lia. subst. assert (E : c <? e = true) by (apply N.ltb_lt; lia). now rewrite E.
  - destruct (d <? c) eqn:E1'; [discriminate|]. apply N.ltb_ge in E1. apply N.ltb_ge in E1'.
    assert (c = d) by lia. subst d.
    destruct (c <? e) eqn:E2; [reflexivity|]. destruct (e <? c) eqn:E3; [discriminate|]. now apply (IH y z).
Qed.

Lemma str_ltb_total x : forall y, x <> y -> str_ltb x y = true \/ str_ltb y x = true.
Proof.
  induction x as [|c x IH]; intros [|d y] N; cbn.
  - congruence.
  - now left.
  - now right.
  - destruct (c <? d) eqn:E1; [now left|]. destruct (d <? c) eqn:E2; [now right|].
    apply N.ltb_ge in E1. apply N.ltb_ge in E2. assert (c = d) by lia. subst d.
    apply IH. congruence.
Qed.

Lemma str_ltb_asym x y : str_ltb x y = true -> str_ltb y x = false.
Proof.
  intro H. destruct (str_ltb y x) eqn:E; [|reflexivity].
  pose proof (str_ltb_trans _ _ _ H E) as T. rewrite str_ltb_irrefl in T. discriminate.
Qed.

Section SortProofs.
  Context {V : Type}.
  Implicit Types (l : list (str * V)).

  Definition klt (a b : str * V) : Prop := str_ltb (fst a) (fst b) = true.

  Lemma insert_perm kv l : Permutation (insert_key kv l) (kv :: l).
  Proof.
    induction l as [|h t IH]; cbn; [apply Permutation_refl|].
    destruct (str_ltb (fst kv) (fst h)); [apply Permutation_refl|].
    eapply perm_trans; [apply perm_skip, IH|apply perm_swap].
  Qed.

  Lemma sort_perm l : Permutation (sort_keys l) l.
  Proof.
    induction l as [|kv l IH]; [constructor|]. cbn.
    eapply perm_trans; [apply insert_perm|now apply perm_skip].
  Qed.

  Lemma insert_sorted kv l :
    StronglySorted klt l -> (forall x, In x l -> fst x <> fst kv) -> StronglySorted klt (insert_key kv l).
  Proof.
    induction 1 as [|h t ST IH ALL]; intro D; cbn.
    - repeat constructor.
    - destruct (str_ltb (fst kv) (fst h)) eqn:E.
      + constructor; [constructor; assumption|]. constructor; [exact E|].
        apply Forall_forall. intros x I. unfold klt.
        apply (str_ltb_trans _ _ _ E). exact (proj1 (Forall_forall _ _) ALL x I).
      + constructor; [apply IH; intros x I; apply D; now right|].
        apply Forall_forall. intros x I.
        apply (Permutation_in _ (insert_perm kv t)) in I. destruct I as [<-|I].
        * destruct (str_ltb_total (fst h) (fst kv)) as [L|L]; [apply D; now left|exact L|congruence].
        * exact (proj1 (Forall_forall _ _) ALL x I).
  Qed.

  Lemma sort_sorted l : NoDup (map fst l) -> StronglySorted klt (sort_keys l).
  Proof.
    induction l as [|kv l IH]; intro ND; [constructor|]. inversion ND as [|? ? NI ND']; subst. cbn.
    apply insert_sorted; [now apply IH|].
    intros x I E. apply NI. apply (Permutation_in _ (sort_perm l)) in I.
    rewrite <- E. now apply in_map.
  Qed.

  Lemma sorted_perm_eq l1 : forall l2,
    StronglySorted klt l1 -> StronglySorted klt l2 -> Permutation l1 l2 -> l1 = l2.
  Proof.
    induction l1 as [|a l1 IH]; intros l2 S1 S2 P.
    - apply Permutation_nil in P. now subst.
    - destruct l2 as [|b2 l2]; [apply Permutation_sym, Permutation_nil in P; discriminate|].
      inversion S1 as [|? ? S1' A1]; subst. inversion S2 as [|? ? S2' A2]; subst.
      assert (E : a = b2).
      { assert (Ia : In a (b2 :: l2)) by (eapply Permutation_in; [exact P|now left]).
        assert (Ib : In b2 (a :: l1)) by (eapply Permutation_in; [apply Permutation_sym; exact P|now left]).
        destruct Ia as [Ia|Ia]; [now symmetry|]. destruct Ib as [Ib|Ib]; [exact Ib|].
        pose proof (proj1 (Forall_forall _ _) A2 a Ia) as L1.
        pose proof (proj1 (Forall_forall _ _) A1 b2 Ib) as L2.
        unfold klt in *. rewrite (str_ltb_asym _ _ L1) in L2. discriminate. }
      subst b2. f_equal. apply IH; [assumption|assumption|]. now apply Permutation_cons_inv in P.
  Qed.

  (* the sorted order is a function of the SET of members *)
  Lemma sort_keys_perm l l' : NoDup (map fst l) -> Permutation l l' -> sort_keys l = sort_keys l'.
  Proof.
    intros ND P.
    assert (ND' : NoDup (map fst l')) by (eapply Permutation_NoDup; [apply Permutation_map; exact P|exact ND]).
    apply sorted_perm_eq; [now apply sort_sorted|now apply sort_sorted|].
    eapply perm_trans; [apply sort_perm|]. eapply perm_trans; [exact P|apply Permutation_sym, sort_perm].
  Qed.
End SortProofs.

(* the file bytes for any iteration order of the content map and of the auths map *)
Lemma render_file_order tops ents d d' :
  NoDup (map fst d) -> Permutation d d' -> render_file tops ents d = render_file tops ents d'.
Proof. intros ND P. unfold render_file, render_object. now rewrite (sort_keys_perm d d' ND P). Qed.

Lemma render_auths_order tops ents k l l' :
  NoDup (map fst l) -> Permutation l l' ->
  render_top tops ents (k, TAuths l) = render_top tops ents (k, TAuths l').
Proof. intros ND P. unfold render_top, render_object. cbn [snd]. now rewrite (sort_keys_perm l l' ND P). Qed.
