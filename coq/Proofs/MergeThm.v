(* C14 — the theorems about the Merge transition system, derived from the
   invariants of Proofs/Merge.v and Proofs/MergeLin.v; capability CAS; several
   tags as a product of independent copies. *)
From Oras Require Import Base.Prelude Generated.GC14 Model.Referrers Proofs.Referrers Model.Merge Proofs.Merge Proofs.MergeLin.
From Coq Require Import Lia.

(* ---------- at most one main; Pool reference counting ---------- *)

Lemma runS sg tr : forall s s', InvS s -> run sg s tr = Some s' -> InvS s'.
Proof.
  induction tr as [|e tr IH]; intros s s' I H; simpl in H.
  - injection H as <-. auto.
  - destruct (step sg s e) as [s1|] eqn:E; [|discriminate].
    apply (IH s1 s'); [eapply stepS; eauto | exact H].
Qed.

Lemma single_main sg r0 st0 tr s :
  run sg (init r0 st0) tr = Some s ->
  (forall t1 t2, is_main (pcs s t1) = true -> is_main (pcs s t2) = true -> t1 = t2) /\
  (forall t, is_main (pcs s t) = true -> token s = false) /\
  (exists hs, NoDup hs /\ (forall t, In t hs <-> holding (pcs s t) = true) /\
     match pool s with None => hs = [] | Some rc => rc = length hs /\ hs <> [] end) /\
  (pool s = None -> (forall t, holding (pcs s t) = false) /\ items s = [] /\ pending s = []).
Proof.
  intro H. assert (I : InvS s) by (eapply runS; eauto using invS_init).
  split; [apply (i_main_unique s I)|]. split.
  - intros t Hm. now destruct (i_main_in s I t Hm).
  - split; [apply (i_pool s I)|]. intro Hp. now apply pool_none.
Qed.

(* ---------- no lost update ---------- *)

Lemma no_lost_update sg r0 st0 tr s :
  run sg (init r0 st0) tr = Some s -> quiescent s ->
  NoDup (lin s) /\
  (forall t, In t (lin s) <-> exists r, pcs s t = Done r /\ r <> RErr) /\
  (forall k, memb (reg s) k = member_after k (memb r0 k) (map (arg s) (lin s))).
Proof.
  intros H Q. destruct (reachable_inv _ _ _ _ _ H) as [I V].
  split; [apply (v_nd _ _ V)|]. split; [|apply (v_set _ _ V)].
  intro t. split.
  - intro Hin. destruct (Q t) as [E|(r & E)].
    + destruct (v_idle _ _ V t Hin). congruence.
    + exists r. split; auto. apply (v_ret _ _ V t r); auto.
  - intros (r & E & Hr). apply (v_ret _ _ V t r); auto.
Qed.

(* at every instant: a call that has returned took effect iff it did not return a
   plain error; an index-delete error is reported only after the update took effect *)
Lemma returned_effect sg r0 st0 tr s t r :
  run sg (init r0 st0) tr = Some s -> (pcs s t = Ret r \/ pcs s t = Done r) ->
  (In t (lin s) <-> r <> RErr) /\
  (forall k, memb (reg s) k = member_after k (memb r0 k) (map (arg s) (lin s))).
Proof.
  intros H E. destruct (reachable_inv _ _ _ _ _ H) as [I V].
  split; [apply (v_ret _ _ V t r E)|apply (v_set _ _ V)].
Qed.

(* the ghost [arg] is the change the caller passed *)
Lemma arg_set sg s t c s' : step sg s (EGet t c) = Some s' -> arg s' t = c /\ pcs s' t = Got c.
Proof.
  simpl. destruct (pcs s t); try discriminate. destruct (is_empty (cdesc c)); try discriminate.
  destruct (pool s); intro H; injection H as <-; simpl; now rewrite !upd_eq.
Qed.

Ltac step_inv H :=
  repeat match type of H with
         | match ?x with _ => _ end = Some _ => destruct x eqn:?; try discriminate
         | (if ?x then _ else _) = Some _ => destruct x eqn:?; try discriminate
         end;
  try (injection H as <-);
  unfold set_pc, add_lin, set_reg, set_committed; simpl;
  repeat match goal with |- context [if ?b then _ else _] => destruct b; simpl end.

Lemma arg_stable sg s e s' t : step sg s e = Some s' -> pcs s t <> Idle -> arg s' t = arg s t.
Proof.
  intros H Hn. destruct e; simpl in H; step_inv H; auto.
  all: try (destruct (Nat.eq_dec t t0) as [->|Hne]; [congruence|now rewrite upd_neq]).
Qed.

(* ---------- superseded indexes ---------- *)

Lemma gc_store sg r0 st0 tr s :
  run sg (init r0 st0) tr = Some s -> (forall t, is_main (pcs s t) = false) ->
  forall x, In x (store s) -> reg s = Some x \/ In x (junk s).
Proof.
  intros H Hn x Hx. destruct (reachable_inv _ _ _ _ _ H) as [I V].
  destruct (g_store _ _ V x Hx) as [E|[E|(t & a & E)]]; auto.
  specialize (Hn t). rewrite E in Hn. discriminate.
Qed.

Definition del_failed (e : event) : bool := match e with EDel _ true => true | _ => false end.

(* a PUT that took effect although the client saw an error leaves the old index behind *)
Definition put_lost (e : event) : bool := match e with EPutLost _ => true | _ => false end.
Definition gc_ok (e : event) : bool := negb (del_failed e) && negb (put_lost e).

Lemma junk_step s e s' : step false s e = Some s' -> gc_ok e = true -> junk s' = junk s.
Proof.
  unfold gc_ok. intros H Hd. destruct e; simpl in H; step_inv H; auto; try discriminate.
Qed.

Lemma junk_run tr : forall s s',
  run false s tr = Some s' -> forallb gc_ok tr = true -> junk s' = junk s.
Proof.
  induction tr as [|e tr IH]; intros s s' H F; simpl in *.
  - now injection H as <-.
  - destruct (step false s e) as [s1|] eqn:E; [|discriminate].
    apply andb_true_iff in F as [F1 F2].
    rewrite (IH s1 s' H F2). eapply junk_step; eauto.
Qed.

(* without SkipReferrersGC and without a failed deletion: when nobody is updating, every
   index manifest of the tag in the registry is the current one, or was ALREADY dangling
   at the start (it is not the initial index: that one has been deleted) *)
Lemma gc_clean r0 st0 tr s :
  run false (init r0 st0) tr = Some s ->
  forallb gc_ok tr = true ->
  (forall t, is_main (pcs s t) = false) ->
  forall x, In x (store s) -> reg s = Some x \/ (In x st0 /\ r0 <> Some x).
Proof.
  intros H F Hn x Hx. destruct (gc_store _ _ _ _ _ H Hn x Hx) as [E|E]; auto.
  right. rewrite (junk_run _ _ _ H F) in E. simpl in E. apply filter_In in E as [E1 E2].
  split; auto. intro Er. subst r0. simpl in E2. rewrite index_eqb_refl in E2. discriminate.
Qed.

(* junk grows by exactly one entry per failed index deletion *)
Lemma junk_count_step s e s' :
  step false s e = Some s' -> put_lost e = false ->
  length (junk s') = (length (junk s) + (if del_failed e then 1 else 0))%nat.
Proof.
  intros H L. destruct e; simpl in H; step_inv H; simpl; auto; try lia; try discriminate.
Qed.

Lemma junk_count tr : forall s s',
  run false s tr = Some s' -> forallb (fun e => negb (put_lost e)) tr = true ->
  length (junk s') = (length (junk s) + length (filter del_failed tr))%nat.
Proof.
  induction tr as [|e tr IH]; intros s s' H L; simpl in *.
  - injection H as <-. lia.
  - destruct (step false s e) as [s1|] eqn:E; [|discriminate].
    apply andb_true_iff in L as [L1 L2]. apply negb_true_iff in L1.
    rewrite (IH s1 s' H L2), (junk_count_step _ _ _ E L1). destruct (del_failed e); simpl; lia.
Qed.

(* ---------- SetReferrersCapability ---------- *)

Lemma set_cap_known s b : s <> CapUnknown -> fst (set_cap s b) = s.
Proof. destruct s; simpl; congruence. Qed.

Lemma set_cap_leaves s b : fst (set_cap s b) <> CapUnknown.
Proof. destruct s, b; simpl; discriminate. Qed.

Lemma set_cap_error s b : snd (set_cap s b) = true <-> s <> CapUnknown /\ s <> cap_of b.
Proof. destruct s, b; simpl; split; intro H; try discriminate; try (split; discriminate); destruct H; congruence. Qed.

Lemma set_caps_monotone l : forall s, s <> CapUnknown ->
  Forall (fun r => fst r = s) (set_caps s l).
Proof.
  induction l as [|b l IH]; intros s H; simpl; constructor.
  - now apply set_cap_known.
  - rewrite set_cap_known by auto. now apply IH.
Qed.

Lemma capability_monotone b l :
  let r := set_cap CapUnknown b in
  fst r = cap_of b /\ snd r = false /\ Forall (fun x => fst x = cap_of b) (set_caps (fst r) l).
Proof.
  simpl. repeat split. apply set_caps_monotone. destruct b; discriminate.
Qed.

(* ---------- several tags = independent copies ---------- *)

Definition gstate := nat -> state.
Definition gstep (sg : bool) (S : gstate) (ge : nat * event) : option gstate :=
  match step sg (S (fst ge)) (snd ge) with
  | Some s' => Some (upd S (fst ge) s')
  | None => None
  end.
Fixpoint grun (sg : bool) (S : gstate) (tr : list (nat * event)) : option gstate :=
  match tr with
  | [] => Some S
  | ge :: tr' => match gstep sg S ge with Some S' => grun sg S' tr' | None => None end
  end.

Lemma grun_project sg tr : forall S S',
  grun sg S tr = Some S' -> forall g, exists trg, run sg (S g) trg = Some (S' g).
Proof.
  induction tr as [|[g0 e] tr IH]; intros S S' H g; simpl in H.
  - injection H as <-. exists []. reflexivity.
  - unfold gstep in H. simpl in H. destruct (step sg (S g0) e) as [s1|] eqn:E; [|discriminate].
    destruct (IH _ _ H g) as [trg Hr].
    destruct (Nat.eq_dec g g0) as [->|Hne].
    + rewrite upd_eq in Hr. exists (e :: trg). simpl. now rewrite E.
    + rewrite upd_neq in Hr by auto. exists trg. exact Hr.
Qed.

(* ---------- progress: the protocol never blocks by itself ---------- *)

(* events of the environment: a new call, another tag's update dropping a shared index *)
Definition is_env (e : event) : bool := match e with EGet _ _ | EExtDrop => true | _ => false end.

(* an enabled event that is not a new call *)
Definition can_move (sg : bool) (s : state) : Prop :=
  exists e s', is_env e = false /\ step sg s e = Some s'.

Lemma main_enabled sg s t : is_main (pcs s t) = true -> can_move sg s.
Proof.
  intro H. unfold can_move. destruct (pcs s t) as [|c0| | |old|nw o|oi ap|r|r|r] eqn:Hpc; try discriminate.
  - exists (EPrepare t false). simpl. rewrite Hpc. eauto.
  - exists (ECommit t). simpl. rewrite Hpc. destruct old as [o|]; [|eauto].
    destruct (apply_changes (idx o) (map snd (items s))) as [|new]; [eauto|].
    destruct (negb (is_nil new) || sg); [eauto|]. destruct o; eauto.
  - exists (EPut t true). simpl. rewrite Hpc. eauto.
  - exists (EDel t true). simpl. rewrite Hpc. eauto.
  - exists (EComplete t). simpl. rewrite Hpc. eauto.
Qed.

Lemma progress sg s :
  InvS s -> (exists t, holding (pcs s t) = true) -> can_move sg s.
Proof.
  intros I (t & Ht).
  destruct (pcs s t) as [|c0| | |old|nw o|oi ap|r|r|r] eqn:Hpc; try discriminate;
    try (apply (main_enabled sg s t); rewrite Hpc; reflexivity).
  - exists (EAssign t). simpl. rewrite Hpc. destruct (committed s); eauto.
  - assert (Hni : items s <> []).
    { destruct (i_wait s I t Hpc) as [Hb|Hp].
      - unfold batch in Hb. destruct (items s); [destruct Hb|discriminate].
      - intro E. destruct (i_nomain s I E) as (_ & _ & Ep & _). rewrite Ep in Hp. destruct Hp. }
    destruct (i_token_or_main s I Hni) as [Htok|(t' & Hm)]; [|eapply main_enabled; eauto].
    destruct (items s) as [|[t1 c1] rest] eqn:Ei; [congruence|].
    assert (Hin : In (t1, c1) (items s)) by (rewrite Ei; now left).
    destruct (i_items s I t1 c1 Hin) as [[Hw|Hm] _].
    + exists (ERecvMain t1). simpl. rewrite Hw, Htok. simpl.
      assert (Hmem : mem t1 (batch s) = true) by (apply mem_In; unfold batch; rewrite Ei; now left).
      rewrite Hmem. eauto.
    + destruct (i_main_in s I t1 Hm). congruence.
  - exists (EDone t). simpl. rewrite Hpc.
    destruct (i_pool s I) as (hs & _ & Hin & Hp).
    destruct (pool s) as [rc|]; [eauto|]. subst hs.
    assert (Hx : In t []) by (apply Hin; rewrite Hpc; reflexivity). destruct Hx.
Qed.

(* in every reachable state in which a caller is inside, an event OTHER than a new call
   (EGet) is enabled *)
Lemma no_deadlock sg r0 st0 tr s :
  run sg (init r0 st0) tr = Some s -> (exists t, holding (pcs s t) = true) ->
  exists e s', is_env e = false /\ step sg s e = Some s'.
Proof. intros H Hh. eapply progress; eauto. eapply runS; eauto using invS_init. Qed.

(* ---------- every execution without new calls is finite ---------- *)

Definition weight (p : pc) : nat :=
  match p with
  | Idle => 0 | Got _ => 9 | Wait => 8 | Prep => 7 | Prepared _ => 6 | NeedPut _ _ => 5
  | NeedDel _ _ => 4 | Completing _ => 3 | Ret _ => 1 | Done _ => 0
  end%nat.

Definition mu (L : list tid) (f : tid -> pc) : nat := list_sum (map (fun t => weight (f t)) L).

Lemma mu_le L f g : (forall x, weight (g x) <= weight (f x))%nat -> (mu L g <= mu L f)%nat.
Proof.
  intro H. unfold mu. induction L as [|h l IH]; simpl; auto. specialize (H h). lia.
Qed.

Lemma mu_lt L f g t :
  (forall x, weight (g x) <= weight (f x))%nat -> In t L -> (weight (g t) < weight (f t))%nat ->
  (mu L g < mu L f)%nat.
Proof.
  intros H Hin Hlt. unfold mu. induction L as [|h l IH]; simpl; [destruct Hin|].
  destruct Hin as [->|Hin].
  - pose proof (mu_le l f g H) as Hle. unfold mu in Hle. lia.
  - specialize (IH Hin). specialize (H h). lia.
Qed.

Lemma mu_upd L f t p :
  In t L -> (weight p < weight (f t))%nat -> (mu L (upd f t p) < mu L f)%nat.
Proof.
  intros Hin Hlt. apply (mu_lt L f (upd f t p) t); auto.
  - intro x. destruct (Nat.eq_dec x t) as [->|Hne]; [rewrite upd_eq; lia|rewrite upd_neq; auto].
  - now rewrite upd_eq.
Qed.

Lemma holding_upd_keep (f : tid -> pc) t p (L : list tid) :
  In t L -> (forall x, holding (f x) = true -> In x L) ->
  forall x, holding (upd f t p x) = true -> In x L.
Proof.
  intros Hin H x Hx. destruct (Nat.eq_dec x t) as [->|Hne]; auto. rewrite upd_neq in Hx; auto.
Qed.

Lemma step_decreases sg s e s' L :
  InvS s -> step sg s e = Some s' -> is_env e = false ->
  (forall t, holding (pcs s t) = true -> In t L) ->
  (mu L (pcs s') < mu L (pcs s))%nat /\ (forall t, holding (pcs s' t) = true -> In t L).
Proof.
  intros I H Hg HL. destruct e; try discriminate; simpl in H.
  - (* EAssign *)
    destruct (pcs s t) eqn:Hpc; try discriminate.
    assert (Hin : In t L) by (apply HL; rewrite Hpc; reflexivity).
    destruct (committed s); injection H as <-; simpl;
      (split; [apply mu_upd; auto; rewrite Hpc; simpl; lia | now apply holding_upd_keep]).
  - (* ERecvMain *)
    destruct (pcs s t) eqn:Hpc; try discriminate.
    assert (Hin : In t L) by (apply HL; rewrite Hpc; reflexivity).
    destruct (token s && mem t (batch s)); try discriminate. injection H as <-; simpl.
    split; [apply mu_upd; auto; rewrite Hpc; simpl; lia | now apply holding_upd_keep].
  - (* EPrepare *)
    destruct (pcs s t) eqn:Hpc; try discriminate.
    assert (Hin : In t L) by (apply HL; rewrite Hpc; reflexivity).
    injection H as <-; simpl.
    split; [apply mu_upd; auto; rewrite Hpc; simpl; lia | now apply holding_upd_keep].
  - (* ECommit *)
    destruct (pcs s t) as [|c0| | |old|nw o|oi ap|r|r|r] eqn:Hpc; try discriminate.
    assert (Hin : In t L) by (apply HL; rewrite Hpc; reflexivity).
    destruct old as [o|].
    + destruct (apply_changes (idx o) (map snd (items s))) as [|new].
      * injection H as <-; simpl.
        split; [apply mu_upd; auto; rewrite Hpc; simpl; lia | now apply holding_upd_keep].
      * destruct (negb (is_nil new) || sg).
        -- injection H as <-; simpl.
           split; [apply mu_upd; auto; rewrite Hpc; simpl; lia | now apply holding_upd_keep].
        -- destruct o; injection H as <-; simpl;
             (split; [apply mu_upd; auto; rewrite Hpc; simpl; lia | now apply holding_upd_keep]).
    + injection H as <-; simpl.
      split; [apply mu_upd; auto; rewrite Hpc; simpl; lia | now apply holding_upd_keep].
  - (* EPut *)
    destruct (pcs s t) as [|c0| | |old|nw o|oi ap|r|r|r] eqn:Hpc; try discriminate.
    assert (Hin : In t L) by (apply HL; rewrite Hpc; reflexivity).
    destruct fail; injection H as <-; simpl.
    + split; [apply mu_upd; auto; rewrite Hpc; simpl; lia | now apply holding_upd_keep].
    + split; [apply mu_upd; auto; rewrite Hpc; unfold after_put; destruct sg; [simpl; lia|]; destruct o; simpl; lia
             | now apply holding_upd_keep].
  - (* EPutLost *)
    destruct (pcs s t) as [|c0| | |old|nw o|oi ap|r|r|r] eqn:Hpc; try discriminate.
    assert (Hin : In t L) by (apply HL; rewrite Hpc; reflexivity).
    injection H as <-; simpl.
    split; [apply mu_upd; auto; rewrite Hpc; simpl; lia | now apply holding_upd_keep].
  - (* EDel *)
    destruct (pcs s t) as [|c0| | |old|nw o|oi ap|r|r|r] eqn:Hpc; try discriminate.
    assert (Hin : In t L) by (apply HL; rewrite Hpc; reflexivity).
    destruct fail; [|destruct ap]; injection H as <-; simpl;
      (split; [apply mu_upd; auto; rewrite Hpc; simpl; lia | now apply holding_upd_keep]).
  - (* EDelLost *)
    destruct (pcs s t) as [|c0| | |old|nw o|oi ap|r|r|r] eqn:Hpc; try discriminate.
    assert (Hin : In t L) by (apply HL; rewrite Hpc; reflexivity).
    destruct ap; injection H as <-; simpl;
      (split; [apply mu_upd; auto; rewrite Hpc; simpl; lia | now apply holding_upd_keep]).
  - (* EComplete *)
    destruct (pcs s t) as [|c0| | |old|nw o|oi ap|r|r|r] eqn:Hpc; try discriminate.
    assert (Hin : In t L) by (apply HL; rewrite Hpc; reflexivity).
    injection H as <-; simpl. fold (complete_pcs s t r).
    assert (Hw : forall x, (weight (complete_pcs s t r x) <= weight (pcs s x))%nat).
    { intro x. destruct (complete_pcs_cases s t r x) as [[[E0|E0] E]|(_ & _ & E)]; rewrite E; [| |lia].
      - subst x. rewrite Hpc. simpl. lia.
      - destruct (batch_member s x I E0) as [Ew|Em]; [rewrite Ew; simpl; lia|].
        destruct (pcs s x); try discriminate; simpl; lia. }
    split.
    + apply (mu_lt L (pcs s) (complete_pcs s t r) t); auto.
      destruct (complete_pcs_cases s t r t) as [[_ E]|(A & _)]; [|congruence].
      rewrite E, Hpc. simpl. lia.
    + intros x Hx. apply HL.
      destruct (complete_pcs_cases s t r x) as [[[E0|E0] E]|(_ & _ & E)].
      * subst x. rewrite Hpc. reflexivity.
      * destruct (batch_member s x I E0) as [Ew|Em]; [now rewrite Ew|now apply main_holding].
      * now rewrite <- E.
  - (* EDone *)
    destruct (pcs s t) as [|c0| | |old|nw o|oi ap|r|r|r] eqn:Hpc; try discriminate.
    assert (Hin : In t L) by (apply HL; rewrite Hpc; reflexivity).
    destruct (pool s); try discriminate. injection H as <-; simpl.
    split; [apply mu_upd; auto; rewrite Hpc; simpl; lia | now apply holding_upd_keep].
Qed.

Lemma bounded_run sg L tr : forall s s',
  InvS s -> (forall t, holding (pcs s t) = true -> In t L) ->
  forallb (fun e => negb (is_env e)) tr = true -> run sg s tr = Some s' ->
  (length tr + mu L (pcs s') <= mu L (pcs s))%nat.
Proof.
  induction tr as [|e tr IH]; intros s s' I HL F H; simpl in *.
  - injection H as <-. lia.
  - destruct (step sg s e) as [s1|] eqn:E; [|discriminate].
    apply andb_true_iff in F as [F1 F2]. apply negb_true_iff in F1.
    destruct (step_decreases sg s e s1 L I E F1 HL) as [Hlt HL1].
    assert (I1 : InvS s1) by (eapply stepS; eauto).
    specialize (IH s1 s' I1 HL1 F2 H). lia.
Qed.

(* from every reachable state: there is a bound such that every continuation
   without new calls is at most that long *)
Lemma bounded_completion sg r0 st0 tr s :
  run sg (init r0 st0) tr = Some s ->
  exists bound, forall tr' s',
    forallb (fun e => negb (is_env e)) tr' = true -> run sg s tr' = Some s' ->
    (length tr' <= bound)%nat.
Proof.
  intro H. assert (I : InvS s) by (eapply runS; eauto using invS_init).
  destruct (i_pool s I) as (hs & _ & Hin & _).
  exists (mu hs (pcs s)). intros tr' s' F R.
  assert (HL : forall t, holding (pcs s t) = true -> In t hs) by (intros t Ht; now apply Hin).
  pose proof (bounded_run sg hs tr' s s' I HL F R). lia.
Qed.

(* ---------- the tag (Pool key / Merge object / registry tag) depends on the digest only ---------- *)

(* an event of a caller whose manifest names the subject by descriptor [sd] acts on the
   component selected by buildReferrersTag *)
Definition sstep (sg : bool) (S : gstate) (se : subject * event) : option gstate :=
  gstep sg S (N.to_nat (tag_of (fst se)), snd se).

Lemma tag_by_digest a b :
  s_digest a = s_digest b ->
  tag_of a = tag_of b /\ forall sg S e, sstep sg S (a, e) = sstep sg S (b, e).
Proof. unfold sstep, tag_of. simpl. intros ->. auto. Qed.

Lemma tag_distinct a b : s_digest a <> s_digest b -> tag_of a <> tag_of b.
Proof. unfold tag_of. auto. Qed.

(* ---------- "exactly the live manifests" fails for Push(A) || Delete(A) ---------- *)

Definition race_A := mkDesc 1 0 0.
Definition race_trace : list mevent :=
  [MPut 1;                                   (* Push(A): manifest PUT (A was live already) *)
   MIdx (EGet 0 (Remove race_A)); MIdx (EAssign 0);   (* Delete(A) fetched A and enters the index update *)
   MIdx (EGet 1 (Add race_A)); MIdx (EAssign 1);      (* Push(A) joins the same batch *)
   MIdx (ERecvMain 0); MIdx (EPrepare 0 false); MIdx (ECommit 0);   (* [Remove A; Add A] on [A]: no update *)
   MIdx (EComplete 0); MIdx (EDone 0); MIdx (EDone 1);
   MDel 1]%nat.                              (* Delete(A): manifest DELETE *)

Lemma listing_is_live_refuted :
  exists m, mrun false (init (Some [race_A]) [], [1]) race_trace = Some m /\
    quiescent (fst m) /\
    pcs (fst m) 0%nat = Done ROk /\ pcs (fst m) 1%nat = Done ROk /\
    memb (reg (fst m)) 1 = true /\ is_live 1 m = false.
Proof.
  eexists. split; [vm_compute; reflexivity|]. split.
  - intro t. do 2 (destruct t as [|t]; [right; eexists; reflexivity|]). left. reflexivity.
  - repeat split.
Qed.

(* ---------- what Referrers() returns through the tag schema ---------- *)

Lemma listing_is_fold sg r0 st0 tr s :
  run sg (init r0 st0) tr = Some s ->
  NoDup (keys (list_referrers (reg s) 0)) /\
  Forall (fun d => nonempty d = true) (list_referrers (reg s) 0) /\
  (forall k, In k (keys (list_referrers (reg s) 0)) <->
             member_after k (memb r0 k) (map (arg s) (lin s)) = true) /\
  (forall art d, In d (list_referrers (reg s) art) -> art = 0 \/ dart d = art).
Proof.
  intro H. destruct (reachable_inv _ _ _ _ _ H) as [I V].
  destruct (list_referrers_spec (reg s) 0) as (A & B & _ & D).
  split; auto. split; auto. split.
  - intro k. rewrite D. rewrite <- (v_set _ _ V k). unfold memb, idx. reflexivity.
  - intros art d Hd. destruct (list_referrers_spec (reg s) art) as (_ & _ & C & _). auto.
Qed.

(* ---------- sequential histories: the index lists exactly the live referrers ---------- *)

Definition tracks (st : option index * list N) : Prop :=
  forall k, memb (fst st) k = negb (k =? 0) && existsb (N.eqb k) (snd st).

Lemma existsb_filter_neq k x l :
  existsb (N.eqb k) (filter (fun y => negb (y =? x)) l) = negb (k =? x) && existsb (N.eqb k) l.
Proof.
  induction l as [|h t IH]; simpl; [now rewrite andb_false_r|].
  destruct (h =? x) eqn:E; simpl.
  - apply N.eqb_eq in E. subst h. rewrite IH. destruct (k =? x); reflexivity.
  - rewrite IH. destruct (k =? h) eqn:E2; simpl; [|reflexivity].
    apply N.eqb_eq in E2. subst h. now rewrite E.
Qed.

Lemma seq_op_tracks st c : dkey (cdesc c) <> 0 -> tracks st -> tracks (seq_op st c).
Proof.
  intros Hz T k. destruct st as [r live]. unfold tracks in T. simpl in T.
  assert (F : changes_nonempty [c]) by (constructor; [exact Hz|constructor]).
  assert (Hm : memb (match apply_changes (idx r) [c] with Updated l => Some l | NoUpdate => r end) k
               = member_step k (memb r k) c).
  { destruct (apply_changes (idx r) [c]) as [|l] eqn:E.
    - pose proof (apply_noupdate_effect (idx r) [c] F E k) as H. unfold member_after in H. simpl in H.
      unfold memb in *. simpl in *. exact H.
    - pose proof (apply_updated_effect (idx r) [c] l F E k) as H. unfold member_after in H. simpl in H.
      unfold memb in *. simpl in *. exact H. }
  unfold seq_op. destruct c as [d|d]; simpl in *; rewrite Hm, (T k); simpl.
  - destruct (dkey d =? k) eqn:E.
    + apply N.eqb_eq in E. subst k. rewrite N.eqb_refl. simpl. apply N.eqb_neq in Hz. now rewrite Hz.
    + rewrite (N.eqb_sym k (dkey d)), E. reflexivity.
  - rewrite existsb_filter_neq. rewrite (N.eqb_sym k (dkey d)).
    destruct (dkey d =? k); simpl; [now rewrite andb_false_r|reflexivity].
Qed.

Lemma sequential_listing_is_live cs : forall st,
  changes_nonempty cs -> tracks st -> tracks (fold_left seq_op cs st).
Proof.
  induction cs as [|c t IH]; intros st F T; simpl; auto.
  inversion F; subst. apply IH; auto. now apply seq_op_tracks.
Qed.

(* ---------- every detection path goes through the compare-and-swap ---------- *)

(* regenerated from the Go sources (tools/gosrc2v kind c14_field_uses): Repository.referrersState
   is only ever read with atomic.LoadInt32 and written by
   atomic.CompareAndSwapInt32(&r.referrersState, referrersStateUnknown, _) *)
Lemma capability_single_writer :
  GC14.referrersState_other = 0%Z /\ (0 < GC14.referrersState_cas_from_unknown)%Z.
Proof. split; [reflexivity|reflexivity]. Qed.

(* hence, whatever pingReferrers / Referrers() / checkOCISubjectHeader / indexReferrersForPush
   request and in whatever order their compare-and-swaps are linearised, the state follows
   set_caps: it takes the first requested value and keeps it *)
Lemma capability_all_paths :
  GC14.referrersState_other = 0%Z /\
  forall (requests : list bool),
    match set_caps CapUnknown requests with
    | [] => requests = []
    | (s0, e0) :: rest => e0 = false /\ s0 <> CapUnknown /\ Forall (fun x => fst x = s0) rest
    end.
Proof.
  split; [reflexivity|]. intros [|b l]; simpl; auto.
  repeat split; [destruct b; discriminate|]. apply set_caps_monotone. destruct b; discriminate.
Qed.

(* ---------- lost response of the index PUT ---------- *)

(* a caller that got a plain error after a lost response: the ghost result RLost *)
Definition has_lost (p : pc) : bool :=
  match p with Completing RLost | Ret RLost | Done RLost => true | _ => false end.

(* an index exchange that took effect although the client saw an error *)
Definition resp_lost (e : event) : bool := match e with EPutLost _ | EDelLost _ => true | _ => false end.

Lemma lost_step sg s e s' :
  step sg s e = Some s' -> resp_lost e = false ->
  (forall t, has_lost (pcs s t) = false) -> forall t, has_lost (pcs s' t) = false.
Proof.
  intros H L A x. destruct e; try discriminate; simpl in H.
  all: try (destruct (pcs s t) as [|c0| | |old|nw o|oi ap|r|r|r] eqn:Hpc; try discriminate).
  all: try (assert (Hr : has_lost (pcs s t) = false) by apply A; rewrite Hpc in Hr).
  all: step_inv H; auto.
  all: try solve [unfold upd; destruct (Nat.eqb x t); auto; try apply A].
  all: try solve [unfold upd; destruct (Nat.eqb x t); [|apply A]; destruct r; auto; discriminate].
  all: try solve [destruct (Nat.eqb x t); [destruct r; auto; discriminate|];
                  destruct (mem x (batch s)); [destruct r; auto; discriminate|apply A]].
  unfold upd, after_put. destruct (Nat.eqb x t); [|apply A]. destruct sg; auto. destruct o; auto.
Qed.

Lemma lost_run sg tr : forall s s',
  run sg s tr = Some s' -> forallb (fun e => negb (resp_lost e)) tr = true ->
  (forall t, has_lost (pcs s t) = false) -> forall t, has_lost (pcs s' t) = false.
Proof.
  induction tr as [|e tr IH]; intros s s' H L A; simpl in *.
  - now injection H as <-.
  - destruct (step sg s e) as [s1|] eqn:E; [|discriminate].
    apply andb_true_iff in L as [L1 L2]. apply negb_true_iff in L1.
    apply (IH s1 s' H L2). eapply lost_step; eauto.
Qed.


(* 1. a registry that answers truthfully (no lost response): a call that returned a plain
      error had NO effect - the index is the fold of exactly the calls that did not *)
Lemma plain_error_no_effect sg r0 st0 tr s t r :
  run sg (init r0 st0) tr = Some s -> forallb (fun e => negb (resp_lost e)) tr = true ->
  (pcs s t = Ret r \/ pcs s t = Done r) ->
  (In t (lin s) <-> seen r <> RErr).
Proof.
  intros H L E. destruct (returned_effect sg r0 st0 tr s t r H E) as [A _].
  assert (Hl : has_lost (pcs s t) = false) by (eapply lost_run; eauto).
  destruct E as [E|E]; rewrite E in Hl; destruct r; simpl in *; try discriminate; exact A.
Qed.

(* 2. with lost responses: a call that returned nil or the index-delete error took effect
      (never lost); a call that returned a plain error may or may not have taken effect, and
      it did iff the response of its batch's PUT was lost *)
Lemma seen_effect sg r0 st0 tr s t r :
  run sg (init r0 st0) tr = Some s -> (pcs s t = Ret r \/ pcs s t = Done r) ->
  (seen r <> RErr -> In t (lin s)) /\ (seen r = RErr -> (In t (lin s) <-> r = RLost)).
Proof.
  intros H E. destruct (returned_effect sg r0 st0 tr s t r H E) as [A _].
  split.
  - intro Hs. apply A. destruct r; simpl in *; congruence.
  - intros Hs. rewrite A. destruct r; simpl in *; split; congruence.
Qed.

(* ---------- the Pool entry is a reference count ---------- *)

(* every step moves the [pool] field as pool_get / pool_put say; a fresh entry is a zero Merge *)
Lemma pool_is_refcount sg s e s' :
  step sg s e = Some s' ->
  match e with
  | EGet _ _ => pool s' = fst (pool_get (pool s)) /\
                (snd (pool_get (pool s)) = true ->
                 items s' = [] /\ pending s' = [] /\ committed s' = false /\ token s' = false)
  | EDone _ => pool s' = pool_put (pool s)
  | _ => pool s' = pool s
  end.
Proof.
  intro H. destruct e; simpl in H; step_inv H; simpl; auto; try discriminate.
  split; auto. discriminate.
Qed.

(* two holders never see two entries: while somebody holds the entry, Get does not create one *)
Lemma pool_shared sg r0 st0 tr s t c s' :
  run sg (init r0 st0) tr = Some s -> (exists x, holding (pcs s x) = true) ->
  step sg s (EGet t c) = Some s' -> snd (pool_get (pool s)) = false.
Proof.
  intros H (x & Hx) Hs. destruct (reachable_inv _ _ _ _ _ H) as [I _].
  destruct (pool s) eqn:Ep; [reflexivity|]. exfalso.
  destruct (pool_none s I Ep) as (Hn & _). rewrite Hn in Hx. discriminate.
Qed.

(* with lost PUT responses too: at most one more dangling index per failed deletion or lost PUT *)
Lemma junk_bound_step s e s' :
  step false s e = Some s' ->
  (length (junk s') <= length (junk s) + (if del_failed e || put_lost e then 1 else 0))%nat.
Proof.
  intros H. destruct e; simpl in H; step_inv H; simpl; auto; try lia; try discriminate.
  all: repeat match goal with |- context [match ?o with Some _ => _ | None => _ end] => destruct o; simpl end; lia.
Qed.

Lemma junk_bound tr : forall s s',
  run false s tr = Some s' ->
  (length (junk s') <= length (junk s) + length (filter (fun e => del_failed e || put_lost e) tr))%nat.
Proof.
  induction tr as [|e tr IH]; intros s s' H; simpl in *.
  - injection H as <-. lia.
  - destruct (step false s e) as [s1|] eqn:E; [|discriminate].
    pose proof (IH s1 s' H). pose proof (junk_bound_step _ _ _ E).
    destruct (del_failed e || put_lost e); simpl; lia.
Qed.
