(* What can be read back from the stored manifest bytes: encoding/json coerces strings to valid
   UTF-8 (Model/Pack.v utf8_san), so the stored document is [san_manifest m]. *)
From Oras Require Import Base.Prelude Base.Regex Generated.GC19 Model.Pack Proofs.Pack.

Definition ascii (s : str) : Prop := Forall (fun c => c < 128) s.
Definition utf8_clean (s : str) : Prop := utf8_san s = s.

Lemma ascii_clean s : ascii s -> utf8_clean s.
Proof.
  unfold utf8_clean. induction 1 as [|c s C F IH]; [reflexivity|].
  simpl. apply N.ltb_lt in C. now rewrite C, IH.
Qed.

Lemma is_alnum_ascii c : is_alnum c = true -> c < 128.
Proof.
  unfold is_alnum. rewrite !orb_true_iff, !andb_true_iff, !N.leb_le. lia.
Qed.

Lemma rn_char_ascii c : rn_char c = true -> c < 128.
Proof.
  unfold rn_char. rewrite !orb_true_iff, !N.eqb_eq. intros H.
  repeat (destruct H as [H|H]; [|lia]). now apply is_alnum_ascii.
Qed.

Lemma restricted_name_ascii t : restricted_name t -> ascii t.
Proof.
  intros (c & r & -> & A & _ & F). constructor; [now apply is_alnum_ascii|].
  eapply Forall_impl; [|exact F]. intros x. apply rn_char_ascii.
Qed.

(* a media type that passes validateMediaType survives json.Marshal unchanged *)
Theorem valid_media_type_clean s : valid_media_type s = true -> utf8_clean s.
Proof.
  intro V. apply media_type_grammar in V as (t & u & -> & T & U). apply ascii_clean.
  apply Forall_app. split; [now apply restricted_name_ascii|].
  constructor; [lia | now apply restricted_name_ascii].
Qed.

Definition clean_manifest (m : manifest) : Prop := san_manifest m = m.

Section JsonProofs.
  Variable marshal : manifest -> str.
  Variable H : str -> str.
  Variable unmarshal : str -> option manifest.
  Hypothesis H_empty : H empty_json = empty_json_digest.
  Hypothesis H_inj : forall x y, H x = H y -> x = y.
  (* encoding/json: decoding what was encoded gives the document with every string coerced to UTF-8 *)
  Hypothesis json_roundtrip : forall m, unmarshal (marshal m) = Some (san_manifest m).

  (* the bytes now stored under the returned descriptor decode to the requested manifest, coerced *)
  Theorem stored_parses f tc fa s at_ o now s' d m :
    wf_store H (s_store s) ->
    pack marshal H f tc fa s at_ o now = (s', Ok d m) ->
    exists e, In e (s_store s') /\ same_key (t_key tc) d e = true /\
              unmarshal (e_bytes e) = Some (san_manifest m) /\
              (clean_manifest m -> unmarshal (e_bytes e) = Some m) /\
              (forall m', unmarshal (e_bytes e) = Some m' -> kind_mt (m_kind m') = d_mt d).
  Proof.
    intros W P.
    assert (MT : d_mt d = kind_mt (m_kind m)).
    { apply (ok_consistent marshal H H_empty) in P as (ann & evs & _ & _ & -> & _). reflexivity. }
    destruct (ok_descriptor_describes_stored marshal H H_empty _ _ _ _ _ _ _ _ _ _ W P)
      as (_ & _ & _ & e & I & K & _ & B).
    destruct (B H_inj) as (EB & _). exists e. split; auto. split; auto.
    rewrite EB, json_roundtrip. split; auto. split; [intros C; now rewrite C|].
    intros m' [= <-]. now rewrite MT.
  Qed.

  (* PackManifest: the media types it validated are clean, whatever the caller passed *)
  Theorem pack_manifest_media_types_clean f tc fa s at_ o now s' d m :
    f = FV10 \/ f = FV11 ->
    pack marshal H f tc fa s at_ o now = (s', Ok d m) ->
    utf8_clean (m_at m) /\ forall c, m_config m = Some c -> utf8_clean (d_mt c).
  Proof.
    intros F P. pose proof (ok_not_rejected marshal H H_empty _ _ _ _ _ _ _ _ _ _ P) as MR.
    apply (ok_consistent marshal H H_empty) in P as (ann & evs & _ & -> & _).
    unfold requested_manifest, requested_config, invented_config.
    destruct F as [-> | ->]; unfold must_reject, invalid_config, config_is_empty_or_nil in MR;
      destruct (o_config o) as [c|] eqn:OC; cbn [m_at m_config is_some negb andb orb] in *.
    - (* v1.0, config given *)
      apply orb_false_iff in MR as [MR _]. apply orb_false_iff in MR as [_ MR].
      apply negb_false_iff in MR. split; [reflexivity|]. intros c' [= <-]. now apply valid_media_type_clean.
    - (* v1.0, invented config *)
      apply orb_false_iff in MR as [_ MR]. split; [reflexivity|]. intros c' [= <-]. cbn [with_ann desc_from_bytes d_mt].
      destruct at_ as [|a0 at_]; cbn [is_empty] in *; [apply valid_media_type_clean; apply valid_unknown_config|].
      apply negb_false_iff in MR. now apply valid_media_type_clean.
    - (* v1.1, config given *)
      apply orb_false_iff in MR as [MR MC]. apply orb_false_iff in MR as [_ MA].
      apply negb_false_iff in MC. split.
      + destruct at_ as [|a0 at_]; [reflexivity|]. cbn [is_empty negb andb] in MA.
        apply negb_false_iff in MA. now apply valid_media_type_clean.
      + intros c' [= <-]. now apply valid_media_type_clean.
    - (* v1.1, empty config *)
      apply orb_false_iff in MR as [MR _]. apply orb_false_iff in MR as [ME MA]. split.
      + destruct at_ as [|a0 at_]; [reflexivity|]. cbn [is_empty negb andb] in MA.
        apply negb_false_iff in MA. now apply valid_media_type_clean.
      + intros c' [= <-]. cbn [with_ann DescriptorEmptyJSON d_mt]. apply valid_media_type_clean. apply valid_empty_json.
  Qed.
End JsonProofs.

(* ---------- the deviation: Pack does not validate, json.Marshal coerces ---------- *)
Definition lossy_marshal (m : manifest) : str := m_at m.
Definition lossy_H (s : str) : str := if str_eqb s empty_json then empty_json_digest else 120 :: s.

(* Pack (image manifest, rc2) with a config media type that is not valid UTF-8 succeeds, pushes the
   config blob under the raw media type, and the manifest that can be read back names a config
   descriptor that is NOT in the target (memory store: keyed by media type + digest + size):
   the invented blob is not reachable from the stored manifest, the result cannot be copied. *)
Theorem lossy_json_refuted :
  exists at_ o s' d m c,
    pack lossy_marshal lossy_H FRC2 (mkTcfg true KFull) None (init_state []) at_ o [50] = (s', Ok d m) /\
    m_config (san_manifest m) = Some c /\
    stored KFull (s_store s') c = false /\
    (exists c0, m_config m = Some c0 /\ stored KFull (s_store s') c0 = true).
Proof.
  exists [97; 255; 47; 98], (mkOpts None None [(AnnotationCreated, b "2006-01-02T15:04:05Z")] None []).
  eexists _, _, _, _. split; [vm_compute; reflexivity|].
  split; [vm_compute; reflexivity|]. split; [vm_compute; reflexivity|].
  eexists. split; vm_compute; reflexivity.
Qed.

(* ---------- the deviation: the rejection clauses hold for PackManifest only ---------- *)
(* Pack (deprecated) validates nothing: no string is rejected ... *)
Theorem pack_rejects_nothing at_ o : must_reject FRC2 at_ o = false /\ must_reject FArtifact at_ o = false.
Proof. split; reflexivity. Qed.

(* ... and it really succeeds with a media type that violates RFC 6838, pushing the config blob
   under that type and writing it into the manifest. *)
Theorem pack_accepts_invalid_media_type :
  exists at_ o s' d m c,
    ~ RFC6838 at_ /\
    pack lossy_marshal lossy_H FRC2 (mkTcfg true KFull) None (init_state []) at_ o [50] = (s', Ok d m) /\
    m_config m = Some c /\ d_mt c = at_ /\ d_at d = at_ /\
    In (EvPush RBlob c empty_json) (s_events s').
Proof.
  exists (b "not a type"), (mkOpts None None [(AnnotationCreated, b "2006-01-02T15:04:05Z")] None []).
  eexists _, _, _, _.
  split; [intro R; apply media_type_grammar in R; vm_compute in R; discriminate|].
  split; [vm_compute; reflexivity|]. split; [reflexivity|]. split; [reflexivity|]. split; [reflexivity|].
  vm_compute. right. left. reflexivity.
Qed.

(* ---------- instances used by the Examples of Properties/C19.v ---------- *)
Lemma lossy_H_empty : lossy_H empty_json = empty_json_digest.
Proof. reflexivity. Qed.

Lemma lossy_H_injective x y : lossy_H x = lossy_H y -> x = y.
Proof.
  unfold lossy_H.
  destruct (str_eqb x empty_json) eqn:Ex; destruct (str_eqb y empty_json) eqn:Ey.
  - apply str_eqb_spec in Ex, Ey. congruence.
  - discriminate.
  - discriminate.
  - now intros [= ->].
Qed.

Definition ex_titled_ann : list kv := [(AnnotationTitle, b "cfg.json")].
Definition ex_named_entry (content_digest : str) : entry :=
  mkEntry (b "application/octet-stream") content_digest 2 [] (b "cfg.json").

(* file store: the config is written as the named file cfg.json; when that name is already taken
   by other content the store refuses (ErrDuplicateName) and Pack fails; when it is taken by "{}"
   itself Exists answers true and nothing is pushed but the manifest *)
Lemma ex_file_store :
  (exists s' d m, pack lossy_marshal lossy_H FV10 (mkTcfg true KFile) None (init_state []) []
                       (mkOpts None None [] None ex_titled_ann) [50] = (s', Ok d m) /\
                  map e_name (s_store s') = [b "cfg.json"; []]) /\
  (exists s', pack lossy_marshal lossy_H FV10 (mkTcfg true KFile) None (init_state [ex_named_entry (b "sha256:other")]) []
                   (mkOpts None None [] None ex_titled_ann) [50] = (s', Err EInjected) /\ length (s_events s') = 2%nat) /\
  (exists s' d m, pack lossy_marshal lossy_H FV10 (mkTcfg true KFile) None (init_state [ex_named_entry empty_json_digest]) []
                       (mkOpts None None [] None ex_titled_ann) [50] = (s', Ok d m) /\ length (s_events s') = 2%nat).
Proof.
  split; [eexists _, _, _; split; vm_compute; reflexivity|].
  split; [eexists; split; vm_compute; reflexivity|].
  eexists _, _, _; split; vm_compute; reflexivity.
Qed.

(* registry: "{}" held as a blob does not answer for a config typed as a manifest (other namespace) *)
Lemma ex_registry_namespace :
  stored KNamespace [mkEntry MediaTypeEmptyJSON empty_json_digest 2 empty_json []]
         (mkDesc MediaTypeImageManifest empty_json_digest 2 [] [] no_extra) = false /\
  stored KDigest [mkEntry MediaTypeEmptyJSON empty_json_digest 2 empty_json []]
         (mkDesc MediaTypeImageManifest empty_json_digest 2 [] [] no_extra) = true.
Proof. vm_compute. split; reflexivity. Qed.

(* a fault plan: the third storage operation (the manifest push) fails after the config was stored *)
Lemma ex_fault_plan :
  exists s', pack lossy_marshal lossy_H FV11 (mkTcfg true KDigest) (Some 2%nat) (init_state []) (b "application/vnd.example")
                  (mkOpts None None [] None []) (b "2024-02-29T12:00:00Z") = (s', Err EInjected) /\
             length (s_events s') = 3%nat /\ length (s_store s') = 1%nat.
Proof. eexists. vm_compute. repeat split; reflexivity. Qed.

(* the premise "not a file store" of the idempotence theorem is needed: a file store refuses to write
   the named manifest a second time (ErrDuplicateName is not ErrAlreadyExists) *)
Lemma repeat_call_file_store_refuted :
  exists o s1 d m s2,
    ann_get (created_key FArtifact) (o_ann o) = Some (b "2021-07-01T12:00:00Z") /\
    pack lossy_marshal lossy_H FArtifact (mkTcfg true KFile) None (init_state []) [] o [50] = (s1, Ok d m) /\
    pack lossy_marshal lossy_H FArtifact (mkTcfg true KFile) None s1 [] o [50] = (s2, Err EInjected).
Proof.
  exists (mkOpts None None [(AnnotationArtifactCreated, b "2021-07-01T12:00:00Z"); (AnnotationTitle, b "manifest.json")] None []).
  eexists _, _, _, _. split; [reflexivity|]. split; vm_compute; reflexivity.
Qed.
