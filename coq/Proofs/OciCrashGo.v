(* C10 -- goroutines that make several calls one after the other (Model/OciCrashConc.v, gstep):
   all invariants of the concurrent model survive the start of a call, so every result about
   batches of single calls holds for goroutines with queues of calls, the program of each call
   being decided when it starts. *)
From Oras Require Import Base.Prelude Model.OciCrash Model.OciCrashSpec Model.OciCrashConc
  Proofs.OciCrash Proofs.OciCrashConc Proofs.OciCrashSync.

Section Go.
Variable H : list N -> N.
Variable shuffle : nat -> list entry -> list entry.
Hypothesis shuffle_In : forall c l e, In e (shuffle c l) <-> In e l.

Notation stepN := (sched_step shuffle).
Notation gstepN := (gstep H shuffle).

Record GInv (s : st) (c : conf) : Prop := {
  g_c : CInv H c;
  g_l : LInv c;
  g_s : Sy c;
  g_k : KInv s c;
  g_w : WInv c
}.

Lemma ginv_step s c i : GInv s c -> GInv s (stepN c i).
Proof.
  intros [C L S K W]. constructor.
  - now apply step_inv.
  - now apply lstep_inv.
  - now apply sstep_inv.
  - now apply kstep_inv.
  - now apply (wstep_inv shuffle shuffle_In s).
Qed.

(* the next call of goroutine i starts *)
Definition begin (c : conf) (i : nat) (x : ccall) : conf :=
  mkConf (cfs c) (ctags c) (cdigs c) (clock c) (ccnt c)
         (set_nth i (mkThread (call_prog H (cfs c) (ctags c) x) [] None false) (cthreads c)).

Lemma ginv_begin s c i t x :
  nth_error (cthreads c) i = Some t -> tprog t = [] -> GInv s c -> GInv s (begin c i x).
Proof.
  intros En Ep [C L S K W]. unfold begin.
  set (t' := mkThread (call_prog H (cfs c) (ctags c) x) [] None false).
  constructor.
  - destruct C as [CL CB CI CT CD CTh]. constructor; cbn [cfs ctags cdigs cthreads]; try assumption.
    intros u Hin. apply In_set_nth in Hin as [->|Hin]; [|now apply CTh].
    split; cbn [tsnap ttmp tprog]; [intros l E; discriminate|apply call_prog_safe].
  - apply (linv_update c i t t'); [exact L|exact En| | |].
    + cbn [tholds tprog]. apply call_prog_shape.
    + cbn [tholds]. intro E. discriminate.
    + intro E. split; [reflexivity|now left].
  - destruct S as [A|[F E]]; unfold Sy; cbn [cfs ctags cdigs cthreads].
    + left. destruct A as (u & Hin & Hl). destruct (in_keep _ i t t' u En Hin) as [->|Hin'].
      * rewrite Ep in Hl. destruct Hl.
      * exists u. now split.
    + right. split.
      * intros u Hin Hu Hp. destruct (in_set_idx _ i t t' u En Hin) as [->|(j & _ & Ej)]; [discriminate Hu|].
        exact (F u (nth_error_In _ _ Ej) Hu Hp).
      * destruct E as [(u & Hin & Hu & Hp)|Sn]; [|now right].
        left. destruct (in_keep _ i t t' u En Hin) as [->|Hin'].
        -- rewrite Ep in Hp. destruct Hp.
        -- exists u. now split.
  - destruct K as [KT KC KF]. constructor; cbn [cfs ctags ccnt]; assumption.
  - destruct W as [WD WT]. split; cbn [cfs cthreads]; [exact WD|].
    intros u Hin l E. apply In_set_nth in Hin as [->|Hin]; [discriminate E|exact (WT u Hin l E)].
Qed.

Lemma idle_nil t : idle t = true -> tprog t = [].
Proof. unfold idle. destruct (tprog t); [reflexivity|discriminate]. Qed.

Lemma ginv_gstep s g i : GInv s (gc g) -> GInv s (gc (gstepN g i)).
Proof.
  intro G. unfold gstep.
  destruct (nth_error (cthreads (gc g)) i) as [t|] eqn:En; [|exact G].
  destruct (nth_error (gq g) i) as [q|]; [|exact G].
  destruct (idle t) eqn:Ei.
  - destruct q as [|x r]; [exact G|]. cbn [gc]. exact (ginv_begin s (gc g) i t x En (idle_nil t Ei) G).
  - cbn [gc]. now apply ginv_step.
Qed.

Lemma ginv_gsched s is : forall g, GInv s (gc g) -> GInv s (gc (gsched H shuffle g is)).
Proof. induction is as [|i is IH]; intros g G; [exact G|]. cbn [gsched fold_left]. apply IH. now apply ginv_gstep. Qed.

Lemma gstep_grows g i : grows (cfs (gc g)) (cfs (gc (gstepN g i))).
Proof.
  unfold gstep.
  destruct (nth_error (cthreads (gc g)) i) as [t|]; [|intros d Hd; exact Hd].
  destruct (nth_error (gq g) i) as [q|]; [|intros d Hd; exact Hd].
  destruct (idle t).
  - destruct q as [|x r]; intros d Hd; exact Hd.
  - cbn [gc]. apply step_grows.
Qed.

Lemma gsched_grows is : forall g, grows (cfs (gc g)) (cfs (gc (gsched H shuffle g is))).
Proof.
  induction is as [|i is IH]; intros g d Hd; [exact Hd|].
  cbn [gsched fold_left]. apply IH. now apply gstep_grows.
Qed.

Lemma gstart_inv s qs : Inv H s -> Agree s -> GInv s (gc (gstart s qs)).
Proof.
  intros I A. cbn [gstart gc].
  assert (Ht : forall t, In t (map (fun _ : list ccall => mkThread [] [] None false) qs) -> t = mkThread [] [] None false).
  { intros t Hin. apply in_map_iff in Hin as (x & <- & _). reflexivity. }
  constructor.
  - destruct (inv_good H s I) as (GL & GB & GI).
    constructor; cbn [cfs ctags cdigs cthreads]; try assumption.
    + exact (inv_tagdig H s I).
    + exact (inv_digs H s I).
    + intros t Hin. rewrite (Ht t Hin). split; cbn; [intros l E; discriminate|exact Logic.I].
  - constructor; cbn [cthreads clock].
    + intros t Hin. rewrite (Ht t Hin). reflexivity.
    + intros _ t Hin. now rewrite (Ht t Hin).
    + intros i j ti tj Ei _ Hi _. rewrite (Ht ti (nth_error_In _ _ Ei)) in Hi. discriminate.
  - right. cbn [cfs ctags cdigs cthreads]. split.
    + intros t Hin Hh. rewrite (Ht t Hin) in Hh. discriminate.
    + right. exact A.
  - constructor; cbn [cfs ctags ccnt]; [reflexivity|lia|exact (inv_fun H s I)].
  - split; cbn [cfs cthreads].
    + exact (agree_wf H s I A).
    + intros t Hin l E. rewrite (Ht t Hin) in E. discriminate.
Qed.

(* every prefix of every schedule of goroutines with queues of calls *)
Theorem go_crash_safe s qs is :
  Inv H s -> Agree s ->
  let g := gsched H shuffle (gstart s qs) is in
  layout_ok (cfs (gc g)) /\ blob_ok H (cfs (gc g)) /\ index_ok (cfs (gc g)) /\
  (forall d, has (sfs s) (FBlob d) -> has (cfs (gc g)) (FBlob d)).
Proof.
  intros I A g. destruct (ginv_gsched s is _ (gstart_inv s qs I A)) as [[L B Ix _ _ _] _ _ _ _]. fold g in L, B, Ix.
  split; [exact L|split; [exact B|split; [exact Ix|]]].
  intros d Hd. apply (gsched_grows is (gstart s qs)). exact Hd.
Qed.

(* all calls of all goroutines have returned: index.json is the index of the resolver *)
Theorem go_quiescent_synced s qs is :
  Inv H s -> Agree s ->
  let g := gsched H shuffle (gstart s qs) is in
  gquietb g = true -> Agree (st_of (gc g)).
Proof.
  intros I A g Q. destruct (ginv_gsched s is _ (gstart_inv s qs I A)) as [_ _ S _ _]. fold g in S.
  unfold gquietb in Q. apply andb_true_iff in Q as [Q _]. rewrite forallb_forall in Q.
  destruct S as [(t & Hin & Hl)|[_ [(t & Hin & _ & Hp)|Sn]]].
  - rewrite (idle_nil t (Q t Hin)) in Hl. destruct Hl.
  - rewrite (idle_nil t (Q t Hin)) in Hp. destruct Hp.
  - exact Sn.
Qed.

End Go.

(* ---------- with the configuration read off the source ---------- *)
Theorem go_crash_safe_src :
  forall (H : list N -> N) (shuffle : nat -> list entry -> list entry),
    (forall c l e, In e (shuffle c l) <-> In e l) ->
    forall (ps : list phase) (h : list hop) (qs : list (list ccall)) (is : list nat),
      phases_quiet H shuffle src_inplace src_unlink_first init ps = true ->
      let s := runc H shuffle src_inplace src_unlink_first true h
                    (run_phases H shuffle src_inplace src_unlink_first init ps) in
      let g := gsched H shuffle (gstart s qs) is in
      layout_ok (cfs (gc g)) /\ blob_ok H (cfs (gc g)) /\ index_ok (cfs (gc g)) /\
      (forall d, has (sfs s) (FBlob d) -> has (cfs (gc g)) (FBlob d)) /\
      (gquietb g = true ->
       exists l, read_index (cfs (gc g)) = Some l /\
                 forall e, In e l <-> In e (save (ctags (gc g)) (cdigs (gc g)))).
Proof.
  rewrite src_inplace_false, src_unlink_first_false. intros H shuffle Hs ps h qs is Q s g.
  destruct (phases_synced H shuffle Hs ps Q) as [I0 A0].
  assert (I : Inv H s) by (apply inv_runc; [exact Hs|exact I0]).
  assert (A : Agree s) by (apply (agree_runc H shuffle Hs); [exact I0|exact A0]).
  destruct (go_crash_safe H shuffle Hs s qs is I A) as (L & B & Ix & G).
  split; [exact L|split; [exact B|split; [exact Ix|split; [exact G|]]]].
  intro Qg. exact (go_quiescent_synced H shuffle Hs s qs is I A Qg).
Qed.

(* the hypotheses are satisfiable, and the program of a call is decided when it starts: goroutine 1
   tags blob 1, which goroutine 0 pushes in the same batch -- a no-op if it starts before the
   push has published the blob, effective if it starts after *)
Lemma go_example :
  let H := fun _ : list N => 1 in
  let id := fun (_ : nat) (l : list entry) => l in
  let g1 := gsched H id (gstart init [[CPush 1 [5] true; CTag 1 10]; [CUntag 10]]) [1; 0; 0; 0; 0; 0; 0; 0; 0; 0; 0; 0; 0; 0]%nat in
  let g2 := gsched H id (gstart init [[CPush 1 [5] true]; [CTag 1 10]]) [1; 0; 0; 0; 0; 0; 0; 0; 1]%nat in
  gquietb g1 = true /\ read_index (cfs (gc g1)) = Some [(1, Some 10)] /\
  gquietb g2 = true /\ read_index (cfs (gc g2)) = Some [(1, None)].
Proof. vm_compute. repeat split; reflexivity. Qed.
