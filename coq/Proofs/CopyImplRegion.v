(* CopyImplRegion: LimitedRegion over the semaphore model never makes the semaphore panic
   ("released more than held"), End / Start are idempotent, and the permits held are exactly the
   started regions. *)
From Coq Require Import List Arith Bool Lia Permutation.
From Oras Require Import Model.CopyImplSem Model.CopyImplRegion Proofs.CopyImplSem.
Import ListNotations.

Definition pend (s : sem) (x : nat) : Prop := In x (s_wait s ++ s_granted s).

(* effect of each semaphore operation on the set of pending waiters and on the held count *)
Lemma eff_acquire s w d s' r : sstep s (SAcquire w d) = Some (s', r) ->
  match r with
  | RGranted => (forall x, pend s' x <-> pend s x) /\ s_held s' = S (s_held s) /\ ~ pend s w
  | RBlocked => (forall x, pend s' x <-> x = w \/ pend s x) /\ s_held s' = s_held s /\ ~ pend s w
  | RFailed => s' = s
  | RDone _ => False
  end.
Proof.
  unfold pend. cbn [sstep]. destruct d; [intros H; inversion H; subst; auto|].
  destruct (memb w (s_wait s) || memb w (s_granted s)) eqn:Hm; [discriminate|].
  apply orb_false_iff in Hm. destruct Hm as [Hm1 Hm2].
  assert (Hn : ~ In w (s_wait s ++ s_granted s)).
  { rewrite in_app_iff. intros [A|A]; apply memb_In in A; congruence. }
  destruct (Nat.ltb (s_cur s) (s_size s) && match s_wait s with [] => true | _ => false end); intros H; inversion H; subst; cbn.
  - split; [intros x; tauto|]. split; auto.
  - split; [|split; auto]. intros x. rewrite !in_app_iff. cbn. intuition (subst; auto).
Qed.

Lemma notify_members fuel size cur wait granted c ws gs woken :
  notify fuel size cur wait granted = (c, ws, gs, woken) -> length wait <= fuel -> cur <= size ->
  forall x, In x (ws ++ gs) <-> In x (wait ++ granted).
Proof.
  intros H Hl Hc x. destruct (notify_spec _ _ _ _ _ _ _ _ _ H Hl Hc) as [A [B _]]. subst.
  rewrite !in_app_iff. tauto.
Qed.

Lemma eff_release n s s' r : SReach n s -> sstep s SRelease = Some (s', r) ->
  (forall x, pend s' x <-> pend s x) /\ S (s_held s') = s_held s.
Proof.
  intros Hr H. destruct (sreach_inv n s Hr) as [[Hc Hle Hnl Hnd] Hs]. unfold pend. cbn [sstep] in H.
  destruct (s_held s) as [|h]; [discriminate|]. destruct (s_cur s) as [|c] eqn:Hcur; [discriminate|].
  destruct (notify (length (s_wait s)) (s_size s) c (s_wait s) (s_granted s)) as [[[c' ws] gs] woken] eqn:E.
  inversion H; subst. cbn. split; auto. intros x. eapply notify_members; eauto. lia.
Qed.

Lemma eff_wake n s w d s' r : SReach n s -> sstep s (SWake w d) = Some (s', r) ->
  pend s w /\ (forall x, pend s' x <-> x <> w /\ pend s x) /\ s_held s' = (if d then s_held s else S (s_held s)).
Proof.
  intros Hr H. destruct (sreach_inv n s Hr) as [[Hc Hle Hnl Hnd] Hs]. unfold pend. cbn [sstep] in H.
  assert (Hnw : forall x, In x (s_wait s) -> In x (s_granted s) -> False).
  { intros x A B. clear -Hnd A B. induction (s_wait s) as [|a l IH]; cbn in *; [contradiction|].
    inversion Hnd; subst. destruct A as [->|A]; auto. apply H1. apply in_or_app. auto. }
  destruct d.
  - destruct (memb w (s_granted s)) eqn:Hm; [|discriminate]. apply memb_In in Hm.
    destruct (s_cur s) as [|c] eqn:Hcur; [discriminate|].
    destruct (notify (length (s_wait s)) (s_size s) c (s_wait s) (remove1 w (s_granted s))) as [[[c' ws] gs] woken] eqn:E.
    inversion H; subst. cbn. split; [apply in_or_app; auto|]. split; auto.
    intros x. rewrite (notify_members _ _ _ _ _ _ _ _ _ E (le_n _) ltac:(lia) x).
    rewrite !in_app_iff, remove1_In. split.
    + intros [A|[A B]]; split; auto. intros ->. eapply Hnw; eauto.
    + intros [A [B|B]]; auto.
  - destruct (memb w (s_granted s)) eqn:Hm; [|discriminate]. apply memb_In in Hm.
    inversion H; subst. cbn. split; [apply in_or_app; auto|]. split; auto.
    intros x. rewrite !in_app_iff, remove1_In. split.
    + intros [A|[A B]]; split; auto. intros ->. eapply Hnw; eauto.
    + intros [A [B|B]]; auto.
Qed.

Lemma eff_cancel n s w s' r : SReach n s -> sstep s (SCancel w) = Some (s', r) ->
  pend s w /\ (forall x, pend s' x <-> x <> w /\ pend s x) /\ s_held s' = s_held s.
Proof.
  intros Hr H. destruct (sreach_inv n s Hr) as [[Hc Hle Hnl Hnd] Hs]. unfold pend. cbn [sstep] in H.
  assert (Hnw : forall x, In x (s_wait s) -> In x (s_granted s) -> False).
  { intros x A B. clear -Hnd A B. induction (s_wait s) as [|a l IH]; cbn in *; [contradiction|].
    inversion Hnd; subst. destruct A as [->|A]; auto. apply H1. apply in_or_app. auto. }
  destruct (memb w (s_wait s)) eqn:Hm; [|discriminate].
  assert (Hfull : s_cur s = s_size s) by (apply Hnl; intros E; rewrite E in Hm; discriminate).
  assert (Hlt : Nat.ltb (s_cur s) (s_size s) = false) by (apply Nat.ltb_ge; lia).
  rewrite Hlt, andb_false_r in H. inversion H; subst. cbn. apply memb_In in Hm.
  split; [apply in_or_app; auto|]. split; auto.
  intros x. rewrite !in_app_iff, remove1_In. split.
  - intros [[A B]|A]; split; auto. intros ->. eapply Hnw; eauto.
  - intros [A [B|B]]; auto.
Qed.

Section Regions.
Variable n : nat.

Inductive RReach : rsys -> Prop :=
| RR_init : RReach (rinit n)
| RR_step x o x' : RReach x -> rstep x o = Some x' -> RReach x'.

Record RInv (x : rsys) : Prop := {
  ri_sem : SReach n (r_sem x);
  ri_pend : forall w, r_reg x w = RPending <-> pend (r_sem x) w;
  ri_started : exists l, NoDup l /\ (forall w, In w l <-> r_reg x w = RStarted) /\ length l = s_held (r_sem x) }.

Lemma rset_same f w v : rset f w v w = v.
Proof. unfold rset. rewrite Nat.eqb_refl. reflexivity. Qed.
Lemma rset_other f w v j : j <> w -> rset f w v j = f j.
Proof. intros H. unfold rset. destruct (Nat.eqb_spec j w); congruence. Qed.

Lemma rinv_init : RInv (rinit n).
Proof.
  constructor; cbn.
  - constructor.
  - intros w. unfold pend. cbn. split; [discriminate|contradiction].
  - exists []. repeat split; auto; try constructor; try contradiction; try discriminate.
Qed.

Lemma rinv_step x o x' : RInv x -> rstep x o = Some x' -> RInv x'.
Proof.
  intros [Hs Hp [l [Hnd [Hl Hlen]]]] H. destruct o as [w d|w|w d|w]; cbn [rstep] in H.
  - (* Start *)
    destruct (r_reg x w) eqn:Hw; try discriminate.
    + destruct (sstep (r_sem x) (SAcquire w d)) as [[s' r]|] eqn:E; [|discriminate].
      pose proof (eff_acquire _ _ _ _ _ E) as Heff.
      assert (Hs' : SReach n s') by (econstructor; eauto).
      destruct r; try contradiction.
      * destruct Heff as [Hm [Hh Hnp]]. inversion H; subst. constructor; cbn; auto.
        -- intros j. destruct (Nat.eq_dec j w) as [->|Hne]; [rewrite rset_same | rewrite rset_other by auto].
           ++ rewrite Hm. split; [discriminate|]. intros A. exfalso. apply Hnp, A.
           ++ rewrite Hm. apply Hp.
        -- exists (w :: l). split; [|split].
           ++ constructor; auto. rewrite Hl. congruence.
           ++ intros j. cbn. destruct (Nat.eq_dec j w) as [->|Hne]; [rewrite rset_same | rewrite rset_other by auto].
              ** tauto.
              ** rewrite <- Hl. split; [intros [A|A]; congruence || auto | auto].
           ++ cbn. lia.
      * destruct Heff as [Hm [Hh Hnp]]. inversion H; subst. constructor; cbn; auto.
        -- intros j. destruct (Nat.eq_dec j w) as [->|Hne]; [rewrite rset_same | rewrite rset_other by auto].
           ++ rewrite Hm. tauto.
           ++ rewrite Hm, Hp. split; auto. intros [A|A]; auto. congruence.
        -- exists l. split; auto. split; [|lia].
           intros j. destruct (Nat.eq_dec j w) as [->|Hne]; [rewrite rset_same | rewrite rset_other by auto]; auto.
           rewrite Hl. split; congruence.
      * subst s'. inversion H; subst. constructor; cbn; eauto.
    + inversion H; subst. constructor; eauto.
  - (* End *)
    destruct (r_reg x w) eqn:Hw; try discriminate.
    + inversion H; subst. constructor; eauto.
    + destruct (sstep (r_sem x) SRelease) as [[s' r]|] eqn:E; [|discriminate].
      destruct (eff_release n _ _ _ Hs E) as [Hm Hh]. inversion H; subst.
      assert (Hs' : SReach n s') by (econstructor; eauto).
      assert (Hin : In w l) by (apply Hl; auto).
      constructor; cbn; auto.
      * intros j. destruct (Nat.eq_dec j w) as [->|Hne]; [rewrite rset_same | rewrite rset_other by auto].
        -- rewrite Hm, <- Hp. split; congruence.
        -- rewrite Hm. apply Hp.
      * exists (remove1 w l). split; [apply remove1_NoDup; auto|]. split.
        -- intros j. rewrite remove1_In. destruct (Nat.eq_dec j w) as [->|Hne]; [rewrite rset_same | rewrite rset_other by auto].
           ++ split; [tauto|discriminate].
           ++ rewrite Hl. tauto.
        -- pose proof (remove1_length w l Hnd Hin). lia.
  - (* Wake *)
    destruct (r_reg x w) eqn:Hw; try discriminate.
    destruct (sstep (r_sem x) (SWake w d)) as [[s' r]|] eqn:E; [|discriminate].
    destruct (eff_wake n _ _ _ _ _ Hs E) as [Hpw [Hm Hh]]. inversion H; subst.
    assert (Hs' : SReach n s') by (econstructor; eauto).
    constructor; cbn; auto.
    + intros j. destruct (Nat.eq_dec j w) as [->|Hne]; [rewrite rset_same | rewrite rset_other by auto].
      * rewrite Hm. destruct d; split; try discriminate; tauto.
      * rewrite Hm, Hp. tauto.
    + destruct d.
      * exists l. split; auto. split; [|lia].
        intros j. destruct (Nat.eq_dec j w) as [->|Hne]; [rewrite rset_same | rewrite rset_other by auto]; auto.
        rewrite Hl. split; congruence.
      * exists (w :: l). split; [|split].
        -- constructor; auto. rewrite Hl. congruence.
        -- intros j. cbn. destruct (Nat.eq_dec j w) as [->|Hne]; [rewrite rset_same | rewrite rset_other by auto].
           ++ tauto.
           ++ rewrite <- Hl. split; [intros [A|A]; congruence || auto | auto].
        -- cbn. lia.
  - (* Cancel *)
    destruct (r_reg x w) eqn:Hw; try discriminate.
    destruct (sstep (r_sem x) (SCancel w)) as [[s' r]|] eqn:E; [|discriminate].
    destruct (eff_cancel n _ _ _ _ Hs E) as [Hpw [Hm Hh]]. inversion H; subst.
    assert (Hs' : SReach n s') by (econstructor; eauto).
    constructor; cbn; auto.
    + intros j. destruct (Nat.eq_dec j w) as [->|Hne]; [rewrite rset_same | rewrite rset_other by auto].
      * rewrite Hm. split; [discriminate|tauto].
      * rewrite Hm, Hp. tauto.
    + exists l. split; auto. split; [|lia].
      intros j. destruct (Nat.eq_dec j w) as [->|Hne]; [rewrite rset_same | rewrite rset_other by auto]; auto.
      rewrite Hl. split; congruence.
Qed.

Lemma rreach_inv x : RReach x -> RInv x.
Proof. induction 1; eauto using rinv_init, rinv_step. Qed.

(* End() of a started region always succeeds: the semaphore never panics with "released more than
   held", whatever Start / End calls (idempotent ones included), wake-ups and cancellations came before *)
Theorem region_end_never_panics x w : RReach x -> r_reg x w = RStarted ->
  exists x', rstep x (REnd w) = Some x' /\ r_reg x' w = REnded.
Proof.
  intros Hr Hw. destruct (rreach_inv x Hr) as [Hs Hp [l [Hnd [Hl Hlen]]]].
  destruct (sreach_inv n _ Hs) as [[Hc Hle Hnl Hndp] Hsz].
  assert (Hin : In w l) by (apply Hl; auto).
  assert (Hh : 1 <= s_held (r_sem x)) by (destruct l; [contradiction|cbn in Hlen; lia]).
  cbn [rstep]. rewrite Hw. cbn [sstep].
  destruct (s_held (r_sem x)) as [|h]; [lia|]. destruct (s_cur (r_sem x)) as [|c]; [lia|].
  destruct (notify _ _ _ _ _) as [[[c' ws] gs] woken]. eexists. split; [reflexivity|]. cbn. apply rset_same.
Qed.

(* idempotence: End on an ended region and Start on a started region do nothing *)
Theorem region_idempotent x w :
  (r_reg x w = REnded -> rstep x (REnd w) = Some x) /\
  (forall d, r_reg x w = RStarted -> rstep x (RStart w d) = Some x).
Proof. split; [intros H | intros d H]; cbn [rstep]; rewrite H; reflexivity. Qed.

(* the permits held are exactly the started regions; at most n regions are started *)
Theorem region_permits x : RReach x ->
  exists l, NoDup l /\ (forall w, In w l <-> r_reg x w = RStarted) /\ length l = s_held (r_sem x) /\ length l <= n.
Proof.
  intros Hr. destruct (rreach_inv x Hr) as [Hs Hp [l [Hnd [Hl Hlen]]]].
  exists l. repeat split; auto; try apply Hl. destruct (sem_sound n _ Hs) as [_ [_ [Hle _]]]. lia.
Qed.

End Regions.
