From Oras Require Import Base.Prelude Base.Regex Generated.GC20 Generated.GC13 Model.Reference Model.Registry Model.RemoteClient.
