(* C18 -- saveFile is atomic with owner-only permissions at every crash point
   (Model/CredSave.v over Base/FlatFS.v). *)
From Oras Require Import Base.Prelude Base.FlatFS Model.CredSave.

(* ---------- path maps ---------- *)
Lemma peqb_false x y : str_eqb x y = false <-> x <> y.
Proof.
  split.
  - intros H E. apply str_eqb_spec in E. congruence.
  - intro H. destruct (str_eqb x y) eqn:E; [|reflexivity]. apply str_eqb_spec in E. contradiction.
Qed.

Section PMapLemmas.
  Context {V : Type}.
  Implicit Types (l : list (path * V)).

  Lemma pget_pdel_eq p l : pget p (pdel p l) = None.
  Proof.
    induction l as [|[q v] l IH]; simpl; [reflexivity|].
    destruct (str_eqb p q) eqn:E; simpl; [exact IH|]. rewrite E. exact IH.
  Qed.

  Lemma pget_pdel_neq p q l : p <> q -> pget q (pdel p l) = pget q l.
  Proof.
    intro N. induction l as [|[k v] l IH]; simpl; [reflexivity|].
    destruct (str_eqb p k) eqn:E; simpl.
    - apply str_eqb_spec in E. subst k.
      assert (F : str_eqb q p = false) by (apply peqb_false; congruence).
      rewrite F. exact IH.
    - destruct (str_eqb q k); [reflexivity|exact IH].
  Qed.

  Lemma pget_pset_eq p v l : pget p (pset p v l) = Some v.
  Proof. unfold pset. simpl. now rewrite str_eqb_refl. Qed.

  Lemma pget_pset_neq p q v l : p <> q -> pget q (pset p v l) = pget q l.
  Proof.
    intro N. unfold pset. simpl.
    assert (F : str_eqb q p = false) by (apply peqb_false; congruence).
    rewrite F. now apply pget_pdel_neq.
  Qed.
End PMapLemmas.

(* ---------- steps that only concern one file ---------- *)
Definition only_file (t : path) (m : mstep) : Prop :=
  match m with
  | MkdirAll _ _ | Close _ => True
  | CreateExcl q _ | Chmod q _ | Write q _ | Unlink q => q = t
  | Rename _ _ => False
  end.

Lemma exec_only_file t m s q : only_file t m -> q <> t -> fget q (exec s m) = fget q s.
Proof.
  intros O N. destruct m; simpl in *; try contradiction; subst; unfold fget in *; simpl.
  - destruct (dget d s); reflexivity.
  - destruct (pget t (fs_files s)); simpl; [reflexivity|]. apply pget_pset_neq. congruence.
  - destruct (pget t (fs_files s)); simpl; [|reflexivity]. apply pget_pset_neq. congruence.
  - destruct (pget t (fs_files s)); simpl; [|reflexivity]. apply pget_pset_neq. congruence.
  - reflexivity.
  - apply pget_pdel_neq. congruence.
Qed.

Lemma exec_all_only_file t l : forall s q,
  Forall (only_file t) l -> q <> t -> fget q (exec_all s l) = fget q s.
Proof.
  unfold exec_all. induction l as [|m l IH]; intros s q F N; [reflexivity|].
  simpl. inversion F as [|? ? Hm Hl]; subst. rewrite (IH (exec s m) q Hl N). now apply (exec_only_file t).
Qed.

(* a crash cut keeps any step predicate that survives shortening a write *)
Lemma cut_forall (P : mstep -> Prop) l pre :
  (forall q d d', P (Write q (d ++ d')) -> P (Write q d)) ->
  crash_cut l pre -> Forall P l -> Forall P pre.
Proof.
  intro HP. induction 1; intro F.
  - constructor.
  - inversion F; subst. constructor; [eauto|constructor].
  - inversion F; subst. constructor; auto.
Qed.

(* a crash cut of steps that only concern [t] only concerns [t] *)
Lemma cut_only_file t l pre :
  crash_cut l pre -> Forall (only_file t) l -> Forall (only_file t) pre.
Proof. apply cut_forall. intros q d d' H. exact H. Qed.

Definition is_mkdir (m : mstep) : Prop := match m with MkdirAll _ _ => True | _ => False end.
Definition no_mkdir (m : mstep) : Prop := match m with MkdirAll _ _ => False | _ => True end.

Lemma exec_mkdir_files s m : is_mkdir m -> fs_files (exec s m) = fs_files s.
Proof. destruct m; simpl; try contradiction. intros _. destruct (dget d s); reflexivity. Qed.

Lemma exec_all_mkdir_files l : forall s, Forall is_mkdir l -> fs_files (exec_all s l) = fs_files s.
Proof.
  unfold exec_all. induction l as [|m l IH]; intros s F; [reflexivity|].
  inversion F as [|? ? Hm Hl]; subst. simpl. rewrite (IH _ Hl). now apply exec_mkdir_files.
Qed.

Lemma exec_no_mkdir_dirs s m : no_mkdir m -> fs_dirs (exec s m) = fs_dirs s.
Proof.
  destruct m; simpl; try contradiction; intros _; try reflexivity.
  - destruct (fget p s); reflexivity.
  - destruct (fget p s); reflexivity.
  - destruct (fget p s); reflexivity.
  - destruct (fget src s); reflexivity.
Qed.

Lemma exec_all_no_mkdir_dirs l : forall s, Forall no_mkdir l -> fs_dirs (exec_all s l) = fs_dirs s.
Proof.
  unfold exec_all. induction l as [|m l IH]; intros s F; [reflexivity|].
  inversion F as [|? ? Hm Hl]; subst. simpl. rewrite (IH _ Hl). now apply exec_no_mkdir_dirs.
Qed.

(* cutting [A ++ B]: inside A, or all of A and a cut of B *)
Lemma cut_app A B pre :
  crash_cut (A ++ B) pre -> crash_cut A pre \/ exists pre', pre = A ++ pre' /\ crash_cut B pre'.
Proof.
  revert pre. induction A as [|m A IH]; intros pre C; simpl in C.
  - right. exists pre. split; [reflexivity|exact C].
  - inversion C; subst.
    + left. constructor.
    + left. constructor.
    + match goal with H : crash_cut (A ++ B) _ |- _ => destruct (IH _ H) as [L|(pre' & -> & R)] end.
      * left. now constructor.
      * right. exists pre'. split; [reflexivity|exact R].
Qed.

(* cutting [A ++ [r]] where [r] is not a write: inside A, or everything *)
Lemma cut_snoc A r pre :
  (forall p d, r <> Write p d) ->
  crash_cut (A ++ [r]) pre -> crash_cut A pre \/ pre = A ++ [r].
Proof.
  intro NW. revert pre. induction A as [|m A IH]; intros pre C; simpl in C.
  - inversion C; subst.
    + left. constructor.
    + exfalso. eapply NW. reflexivity.
    + match goal with H : crash_cut [] _ |- _ => inversion H; subst end. now right.
  - inversion C; subst.
    + left. constructor.
    + left. constructor.
    + match goal with H : crash_cut (A ++ [r]) _ |- _ => destruct (IH _ H) as [L|R] end.
      * left. now constructor.
      * right. simpl. now f_equal.
Qed.

(* ---------- the ingest file while it is being written ---------- *)
Definition is_prefix (d full : str) : Prop := exists rest, full = d ++ rest.

(* the temp file holds [d] with mode 0600 *)
Definition temp_is (t : path) (d : str) (s : fs) : Prop :=
  fget t s = Some {| f_data := d; f_mode := mode_file |}.

Lemma exec_write t d c s : temp_is t d s -> temp_is t (d ++ c) (exec s (Write t c)).
Proof.
  unfold temp_is. intro H. cbn [exec]. rewrite H. unfold fget. cbn [fs_files f_data f_mode]. apply pget_pset_eq.
Qed.

Lemma exec_writes t chunks : forall d s,
  temp_is t d s -> temp_is t (d ++ concat chunks) (exec_all s (map (Write t) chunks)).
Proof.
  unfold exec_all. induction chunks as [|c cs IH]; intros d s H; simpl.
  - now rewrite app_nil_r.
  - rewrite app_assoc. apply IH. now apply exec_write.
Qed.

(* any cut of the write phase leaves a prefix of the content, mode 0600 *)
Lemma cut_writes t chunks : forall d s pre,
  temp_is t d s -> crash_cut (map (Write t) chunks) pre ->
  exists d', temp_is t (d ++ d') (exec_all s pre) /\ is_prefix d' (concat chunks).
Proof.
  induction chunks as [|c cs IH]; intros d s pre H C; simpl in C.
  - inversion C; subst. exists []. rewrite app_nil_r. split; [exact H|]. now exists [].
  - inversion C as [l0 | p0 d0 d1 l0 | m0 l0 l1 C']; subst.
    + exists []. rewrite app_nil_r. split; [exact H|]. now exists (concat ((d0 ++ d1) :: cs)) || now exists (concat (c :: cs)).
    + exists d0. split.
      * unfold exec_all. simpl fold_left. now apply exec_write.
      * exists (d1 ++ concat cs). simpl. now rewrite app_assoc.
    + destruct (IH (d ++ c) (exec s (Write t c)) _ (exec_write t d c s H) C') as (d' & T & P).
      exists (c ++ d'). split.
      * unfold exec_all in *. simpl fold_left. now rewrite app_assoc.
      * destruct P as [rest P]. exists rest. simpl. rewrite P. now rewrite app_assoc.
Qed.

Lemma exec_mkdir_fget q d m s : fget q (exec s (MkdirAll d m)) = fget q s.
Proof. unfold fget. cbn [exec]. destruct (dget d s); reflexivity. Qed.

Lemma exec_create_fresh t m s :
  fget t s = None -> fget t (exec s (CreateExcl t m)) = Some {| f_data := []; f_mode := m |}.
Proof. intro H. cbn [exec]. rewrite H. unfold fget. cbn [fs_files]. apply pget_pset_eq. Qed.

Lemma exec_chmod t m f s :
  fget t s = Some f -> fget t (exec s (Chmod t m)) = Some {| f_data := f_data f; f_mode := m |}.
Proof. intro H. cbn [exec]. rewrite H. unfold fget. cbn [fs_files]. apply pget_pset_eq. Qed.

Lemma exec_rename t p f s :
  fget t s = Some f -> t <> p ->
  fget p (exec s (Rename t p)) = Some f /\ fget t (exec s (Rename t p)) = None /\
  forall q, q <> p -> q <> t -> fget q (exec s (Rename t p)) = fget q s.
Proof.
  intros H N. cbn [exec]. rewrite H. unfold fget. cbn [fs_files].
  split; [apply pget_pset_eq|]. split.
  - rewrite pget_pset_neq by congruence. apply pget_pdel_eq.
  - intros q N1 N2. rewrite pget_pset_neq by congruence. apply pget_pdel_neq. congruence.
Qed.

(* ---------- the save ---------- *)
Section Save.
  Variables (chain : list path) (p t : path) (chunks : list str).
  Hypothesis t_not_p : t <> p.

  Let mkdirs := map (fun d => MkdirAll d mode_dir) chain.
  Let tail_steps := [CreateExcl t mode_file; Chmod t mode_file] ++ map (Write t) chunks ++ [Close t].
  Let prefix_steps := mkdirs ++ tail_steps.

  Lemma save_steps_split : save_steps chain p t chunks = prefix_steps ++ [Rename t p].
  Proof.
    unfold save_steps, prefix_steps, tail_steps, mkdirs. rewrite <- !app_assoc. reflexivity.
  Qed.

  Lemma mkdirs_are_mkdir : Forall is_mkdir mkdirs.
  Proof. apply Forall_forall. intros m I. apply in_map_iff in I as (c & <- & _). exact I. Qed.

  Lemma mkdirs_only_t : Forall (only_file t) mkdirs.
  Proof. apply Forall_forall. intros m I. apply in_map_iff in I as (c & <- & _). exact I. Qed.

  Lemma tail_only_t : Forall (only_file t) tail_steps.
  Proof.
    unfold tail_steps. repeat (constructor; [simpl; auto|]).
    apply Forall_app. split.
    - apply Forall_forall. intros m I. apply in_map_iff in I as (c & <- & _). reflexivity.
    - repeat constructor.
  Qed.

  Lemma prefix_only_t : Forall (only_file t) prefix_steps.
  Proof. apply Forall_app. split; [apply mkdirs_only_t|apply tail_only_t]. Qed.

  Lemma mkdirs_fget q s : fget q (exec_all s mkdirs) = fget q s.
  Proof. unfold fget. now rewrite (exec_all_mkdir_files mkdirs s mkdirs_are_mkdir). Qed.

  Let s3 (s : fs) := exec (exec (exec_all s mkdirs) (CreateExcl t mode_file)) (Chmod t mode_file).

  Lemma s3_temp s : fget t s = None -> temp_is t [] (s3 s).
  Proof.
    intro FR. unfold temp_is, s3.
    rewrite (exec_chmod t mode_file {| f_data := []; f_mode := mode_file |}); [reflexivity|].
    apply exec_create_fresh. now rewrite mkdirs_fget.
  Qed.

  Lemma prefix_exec s : exec_all s prefix_steps = exec_all (s3 s) (map (Write t) chunks).
  Proof.
    unfold prefix_steps, tail_steps, exec_all, s3. rewrite fold_left_app. cbn [app fold_left].
    rewrite fold_left_app. reflexivity.
  Qed.

  (* the complete save: the config path holds exactly the new content, 0600, and
     the ingest file is gone *)
  Lemma save_complete s :
    fget t s = None ->
    let s' := exec_all s (save_steps chain p t chunks) in
    fget p s' = Some {| f_data := concat chunks; f_mode := mode_file |} /\
    fget t s' = None /\
    (forall q, q <> p -> q <> t -> fget q s' = fget q s).
  Proof.
    intros FR s'. unfold s'. rewrite save_steps_split. unfold exec_all. rewrite fold_left_app.
    fold (exec_all s prefix_steps). cbn [fold_left].
    assert (T : temp_is t (concat chunks) (exec_all s prefix_steps)).
    { rewrite prefix_exec. change (concat chunks) with ([] ++ concat chunks).
      apply exec_writes. now apply s3_temp. }
    destruct (exec_rename t p _ _ T t_not_p) as (P & T' & Q).
    split; [exact P|]. split; [exact T'|].
    intros q N1 N2. rewrite (Q q N1 N2).
    apply (exec_all_only_file t prefix_steps s q prefix_only_t N2).
  Qed.

  (* the ingest file during the part after the mkdirs *)
  Lemma tail_temp s1 pre' :
    fget t s1 = None -> crash_cut tail_steps pre' ->
    fget t (exec_all s1 pre') = None \/
    exists d, temp_is t d (exec_all s1 pre') /\ is_prefix d (concat chunks).
  Proof.
    intros F1 C. unfold tail_steps in C. cbn [app] in C.
    inversion C as [|?|m l l'' C2]; subst; [left; exact F1|].
    pose proof (exec_create_fresh t mode_file _ F1) as T2.
    right.
    inversion C2 as [|?|m l l3 C3]; subst; [exists []; split; [exact T2|now exists (concat chunks)]|].
    assert (T3 : temp_is t [] (exec (exec s1 (CreateExcl t mode_file)) (Chmod t mode_file))).
    { unfold temp_is. rewrite (exec_chmod t mode_file {| f_data := []; f_mode := mode_file |}); [reflexivity|exact T2]. }
    apply cut_snoc in C3; [|discriminate].
    unfold exec_all. cbn [fold_left].
    match goal with |- context [fold_left exec l3 ?S] => fold (exec_all S l3) end.
    destruct C3 as [C3|E3].
    - destruct (cut_writes t chunks [] _ l3 T3 C3) as (d' & T & P). exists d'. split; assumption.
    - subst l3. exists (concat chunks). split; [|exists []; now rewrite app_nil_r].
      unfold exec_all. rewrite fold_left_app. cbn [fold_left exec].
      apply (exec_writes t chunks [] _ T3).
  Qed.

  (* every crash point *)
  Lemma save_atomic s pre :
    fget t s = None ->
    crash_cut (save_steps chain p t chunks) pre ->
    let s' := exec_all s pre in
    (* the config path: complete old or complete new file *)
    (fget p s' = fget p s \/
     fget p s' = Some {| f_data := concat chunks; f_mode := mode_file |}) /\
    (* no other file is touched *)
    (forall q, q <> p -> q <> t -> fget q s' = fget q s) /\
    (* the ingest file: absent, or a prefix of the new content readable by the owner only *)
    (fget t s' = None \/ exists d, temp_is t d s' /\ is_prefix d (concat chunks)).
  Proof.
    intros FR C s'. unfold s'. rewrite save_steps_split in C.
    apply cut_snoc in C; [|discriminate].
    destruct C as [C|E].
    - pose proof (cut_only_file t _ _ C prefix_only_t) as O.
      split; [left; apply (exec_all_only_file t pre s p O); congruence|].
      split; [intros q N1 N2; now apply (exec_all_only_file t pre s q O)|].
      (* the ingest file *)
      clear O. unfold prefix_steps in C. apply cut_app in C as [CM|(pre' & -> & CT)].
      + left. unfold fget.
        rewrite (exec_all_mkdir_files pre s); [exact FR|].
        apply (cut_forall is_mkdir mkdirs pre); [intros q d d' H; exact H|exact CM|apply mkdirs_are_mkdir].
      + unfold exec_all. rewrite fold_left_app. fold (exec_all s mkdirs).
        fold (exec_all (exec_all s mkdirs) pre').
        apply tail_temp; [now rewrite mkdirs_fget|exact CT].
    - subst pre. rewrite <- save_steps_split.
      destruct (save_complete s FR) as (P & T & Q).
      split; [right; exact P|]. split; [exact Q|]. left. exact T.
  Qed.

  (* os.MkdirAll: once the mkdirs are done -- in particular after the save --
     every level of the chain exists; a level that was missing has mode 0700, an
     existing one keeps its mode; no other directory changes *)
  Lemma mkdirs_dget d : forall s,
    dget d (exec_all s mkdirs) =
    if existsb (str_eqb d) chain
    then Some (match dget d s with Some m => m | None => mode_dir end)
    else dget d s.
  Proof.
    unfold mkdirs. clear. induction chain as [|c l IH]; intro s; [reflexivity|].
    unfold exec_all in *. cbn [map fold_left existsb]. rewrite IH.
    assert (E : dget d (exec s (MkdirAll c mode_dir)) =
                if str_eqb d c then Some (match dget d s with Some m => m | None => mode_dir end) else dget d s).
    { cbn [exec]. destruct (str_eqb d c) eqn:EC.
      - apply str_eqb_spec in EC. subst c. destruct (dget d s) eqn:ED; [exact ED|].
        unfold dget. cbn [fs_dirs]. apply pget_pset_eq.
      - apply peqb_false in EC. destruct (dget c s); [reflexivity|].
        unfold dget. cbn [fs_dirs]. apply pget_pset_neq. congruence. }
    rewrite E. destruct (str_eqb d c); cbn [orb].
    - destruct (existsb (str_eqb d) l); reflexivity.
    - reflexivity.
  Qed.

  Lemma save_dirs s d :
    dget d (exec_all s (save_steps chain p t chunks)) =
    if existsb (str_eqb d) chain
    then Some (match dget d s with Some m => m | None => mode_dir end)
    else dget d s.
  Proof.
    rewrite save_steps_split. unfold prefix_steps, exec_all. rewrite !fold_left_app.
    fold (exec_all s mkdirs). fold (exec_all (exec_all s mkdirs) tail_steps).
    fold (exec_all (exec_all (exec_all s mkdirs) tail_steps) [Rename t p]).
    unfold dget at 1.
    rewrite exec_all_no_mkdir_dirs by (repeat constructor).
    rewrite exec_all_no_mkdir_dirs.
    - apply mkdirs_dget.
    - unfold tail_steps. repeat (constructor; [exact I|]). apply Forall_app. split.
      + apply Forall_forall. intros m HI. apply in_map_iff in HI as (c & <- & _). exact I.
      + repeat constructor.
  Qed.

  (* a symlinked config path: the reader sees the old target or the complete
     new file; the target itself is never written *)
  Lemma prefix_no_rename pre : Forall (only_file t) pre -> renamed_onto p pre = false.
  Proof.
    induction 1 as [|m l Hm Hl IH]; [reflexivity|].
    unfold renamed_onto in *. cbn [existsb]. rewrite IH. destruct m; try reflexivity. contradiction.
  Qed.

  Lemma symlink_path q s pre :
    q <> p -> q <> t -> fget t s = None ->
    crash_cut (save_steps chain p t chunks) pre ->
    (read_via_link p q s pre = fget q s \/
     read_via_link p q s pre = Some {| f_data := concat chunks; f_mode := mode_file |}) /\
    fget q (exec_all s pre) = fget q s /\
    (pre = save_steps chain p t chunks ->
     read_via_link p q s pre = Some {| f_data := concat chunks; f_mode := mode_file |}).
  Proof.
    intros NQP NQT FR C.
    destruct (save_atomic s pre FR C) as (_ & OTH & _).
    assert (Q : fget q (exec_all s pre) = fget q s) by (now apply OTH).
    assert (FULL : renamed_onto p (save_steps chain p t chunks) = true).
    { rewrite save_steps_split. unfold renamed_onto. rewrite existsb_app. cbn [existsb].
      rewrite str_eqb_refl. now rewrite !orb_true_r. }
    destruct (save_complete s FR) as (P & _ & _).
    split; [|split; [exact Q|]].
    - pose proof C as C'. rewrite save_steps_split in C'. apply cut_snoc in C'; [|discriminate].
      destruct C' as [CP|E].
      + left. unfold read_via_link.
        rewrite (prefix_no_rename pre (cut_only_file t _ _ CP prefix_only_t)). exact Q.
      + right. rewrite <- save_steps_split in E. subst pre. unfold read_via_link. rewrite FULL. exact P.
    - intros ->. unfold read_via_link. rewrite FULL. exact P.
  Qed.
End Save.

(* ---------- I/O errors inside a save ---------- *)
Section FailedSave.
  Variables (chain : list path) (p t : path) (chunks : list str).
  Hypothesis t_not_p : t <> p.

  Lemma firstn_forall {A} (P : A -> Prop) n (l : list A) : Forall P l -> Forall P (firstn n l).
  Proof.
    intro F. revert n. induction F as [|x l Hx _ IH]; intros [|n]; cbn [firstn]; constructor; auto.
  Qed.

  Lemma mkdirs_only_t' : Forall (only_file t) (map (fun d => MkdirAll d mode_dir) chain).
  Proof. apply Forall_forall. intros m I. apply in_map_iff in I as (c & <- & _). exact I. Qed.

  Lemma writes_only_t : Forall (only_file t) (map (Write t) chunks).
  Proof. apply Forall_forall. intros m I. apply in_map_iff in I as (c & <- & _). reflexivity. Qed.

  Lemma failed_only_t fp : Forall (only_file t) (failed_save_steps chain p t chunks fp).
  Proof.
    destruct fp; cbn [failed_save_steps].
    - apply firstn_forall, mkdirs_only_t'.
    - apply mkdirs_only_t'.
    - apply Forall_app. split; [apply mkdirs_only_t'|]. repeat constructor.
    - apply Forall_app. split; [apply mkdirs_only_t'|].
      apply Forall_app. split; [repeat constructor|].
      apply Forall_app. split; [apply firstn_forall, writes_only_t|repeat constructor].
    - apply Forall_app. split; [apply mkdirs_only_t'|].
      apply Forall_app. split; [repeat constructor|].
      apply Forall_app. split; [apply writes_only_t|repeat constructor].
    - apply Forall_app. split; [apply mkdirs_only_t'|].
      apply Forall_app. split; [repeat constructor|].
      apply Forall_app. split; [apply writes_only_t|repeat constructor].
  Qed.

  Lemma exec_all_app s l1 l2 : exec_all s (l1 ++ l2) = exec_all (exec_all s l1) l2.
  Proof. unfold exec_all. apply fold_left_app. Qed.

  Lemma unlink_last s l : fget t (exec_all s (l ++ [Unlink t])) = None.
  Proof. rewrite exec_all_app. unfold exec_all, fget. cbn [fold_left exec fs_files]. apply pget_pdel_eq. Qed.

  (* whatever system call of the save fails: the config path and every other file
     are untouched and no ingest file stays behind *)
  Lemma failed_save_harmless s fp :
    fget t s = None ->
    let s' := exec_all s (failed_save_steps chain p t chunks fp) in
    fget p s' = fget p s /\
    (forall q, q <> t -> fget q s' = fget q s) /\
    fget t s' = None.
  Proof.
    intros FR s'. unfold s'.
    split; [apply (exec_all_only_file t _ s p (failed_only_t fp)); congruence|].
    split; [intros q N; apply (exec_all_only_file t _ s q (failed_only_t fp) N)|].
    destruct fp; cbn [failed_save_steps].
    - unfold fget. rewrite exec_all_mkdir_files; [exact FR|].
      apply firstn_forall. apply Forall_forall. intros m I. apply in_map_iff in I as (c & <- & _). exact I.
    - unfold fget. rewrite exec_all_mkdir_files; [exact FR|].
      apply Forall_forall. intros m I. apply in_map_iff in I as (c & <- & _). exact I.
    - rewrite !app_assoc. change [Close t; Unlink t] with ([Close t] ++ [Unlink t]). rewrite !app_assoc. apply unlink_last.
    - rewrite !app_assoc. change [Close t; Unlink t] with ([Close t] ++ [Unlink t]). rewrite !app_assoc. apply unlink_last.
    - rewrite !app_assoc. apply unlink_last.
    - rewrite !app_assoc. change [Close t; Unlink t] with ([Close t] ++ [Unlink t]). rewrite !app_assoc. apply unlink_last.
  Qed.

  (* before the Ingest fix: a failing chmod leaves the (empty) ingest file, a failing
     write leaves the ingest file with the part of the secrets written so far *)
  Lemma failed_save_prefix_leaks s :
    fget t s = None ->
    fget t (exec_all s (failed_save_steps_prefix chain p t chunks FChmod)) <> None /\
    forall j, fget t (exec_all s (failed_save_steps_prefix chain p t chunks (FWrite j))) <> None.
  Proof.
    intro FR.
    assert (M : forall s0, fget t s0 = None ->
                fget t (exec_all s0 (map (fun d => MkdirAll d mode_dir) chain)) = None).
    { intros s0 F0. unfold fget. rewrite exec_all_mkdir_files; [exact F0|].
      apply Forall_forall. intros m I. apply in_map_iff in I as (c & <- & _). exact I. }
    split.
    - cbn [failed_save_steps_prefix]. rewrite exec_all_app.
      set (s1 := exec_all s (map (fun d => MkdirAll d mode_dir) chain)).
      change (exec_all s1 ([CreateExcl t mode_file] ++ [Close t])) with (exec s1 (CreateExcl t mode_file)).
      rewrite (exec_create_fresh t mode_file s1 (M s FR)). discriminate.
    - intro j. cbn [failed_save_steps_prefix]. rewrite !exec_all_app.
      set (s1 := exec_all s (map (fun d => MkdirAll d mode_dir) chain)).
      assert (T3 : temp_is t [] (exec_all s1 [CreateExcl t mode_file; Chmod t mode_file])).
      { unfold exec_all. cbn [fold_left]. unfold temp_is.
        rewrite (exec_chmod t mode_file {| f_data := []; f_mode := mode_file |}); [reflexivity|].
        apply exec_create_fresh. apply M. exact FR. }
      assert (C : crash_cut (map (Write t) chunks) (firstn j (map (Write t) chunks))).
      { clear. revert j. induction (map (Write t) chunks) as [|m l IH]; intros [|j]; cbn [firstn]; constructor. apply IH. }
      destruct (cut_writes t chunks [] _ _ T3 C) as (d' & T & _).
      match goal with |- fget t (exec_all ?X [Close t]) <> None => change (exec_all X [Close t]) with X end.
      unfold temp_is in T. rewrite T. discriminate.
  Qed.
End FailedSave.

(* the mode of the config file never depends on the file that was there: after
   the save it is 0600, and at every crash cut the path either still holds the
   old file (data and mode untouched) or holds a file of mode 0600 *)
Lemma mode_owner_only (dir : list path) (p t : path) (chunks : list str) :
  t <> p -> forall s,
  fget t s = None ->
  (forall f, fget p (exec_all s (save_steps dir p t chunks)) = Some f -> f_mode f = mode_file) /\
  (exists f, fget p (exec_all s (save_steps dir p t chunks)) = Some f) /\
  (forall pre f, crash_cut (save_steps dir p t chunks) pre ->
                 fget p (exec_all s pre) = Some f -> fget p (exec_all s pre) <> fget p s -> f_mode f = mode_file).
Proof.
  intros NE s FR. destruct (save_complete dir p t chunks NE s FR) as (P & _ & _).
  split; [|split].
  - intros f E. rewrite P in E. injection E as <-. reflexivity.
  - eexists. exact P.
  - intros pre f C E D.
    destruct (save_atomic dir p t chunks NE s pre FR C) as ([OLD|NEW] & _ & _).
    + contradiction.
    + rewrite NEW in E. injection E as <-. reflexivity.
Qed.

(* ---------- one store operation, crash at any point ---------- *)
From Oras Require Import Generated.GC18 Model.CredFile.

Section OpSaveProofs.
  Variables (enc : str -> str) (dec : str -> option str).
  Variable render : fdoc -> str.
  Variable parse : str -> option fdoc.
  Variable eqv : fdoc -> fdoc -> Prop.
  Variable chunking : str -> list str.
  Hypothesis chunking_ok : forall x, concat (chunking x) = x.

  Lemma saves_spec st o :
    (saves st o = true -> exists d, st_file (fst (step enc dec st o)) = Some d) /\
    (saves st o = false -> fst (step enc dec st o) = st).
  Proof.
    destruct o as [a|a c|a|s']; simpl; [| | |split; [intros _; eexists; reflexivity|discriminate]].
    - split; [discriminate|reflexivity].
    - destruct (put_accepts a c); simpl; split; try discriminate; try reflexivity.
      intros _. eexists. reflexivity.
    - destruct (lookup a (m_cache (st_mem st))); simpl; split; try discriminate; try reflexivity.
      intros _. eexists. reflexivity.
  Qed.

  Lemma cut_nil pre : crash_cut [] pre -> pre = [].
  Proof. inversion 1; reflexivity. Qed.

  (* the only JSON fact used: the document this operation writes reads back as an
     equivalent document *)
  Definition reads_back (st : state) (o : op) : Prop :=
    forall d, st_file (fst (step enc dec st o)) = Some d ->
              exists d', parse (render d) = Some d' /\ eqv d' d.

  Lemma atomic_op (dir : list path) (p t : path) st o s pre :
    t <> p -> fget t s = None ->
    reads_back st o ->
    disk_is parse eqv p s (st_file st) ->
    crash_cut (op_steps enc dec render chunking dir p t st o) pre ->
    let st' := fst (step enc dec st o) in
    let s' := exec_all s pre in
    (disk_is parse eqv p s' (st_file st) \/
     disk_is parse eqv p s' (st_file st') /\
     (saves st o = true -> exists f, fget p s' = Some f /\ f_mode f = mode_file)) /\
    (pre = op_steps enc dec render chunking dir p t st o -> disk_is parse eqv p s' (st_file st')) /\
    (forall q, q <> p -> q <> t -> fget q s' = fget q s).
  Proof.
    intros NE FR RB V C st' s'. unfold op_steps in *. subst st'.
    destruct (saves_spec st o) as [SY SN].
    destruct (saves st o) eqn:SV.
    - destruct (SY eq_refl) as [d ED]. destruct (RB d ED) as (d' & PR & EQ). rewrite ED in *.
      assert (NEWV : forall s1, fget p s1 = Some {| f_data := concat (chunking (render d)); f_mode := mode_file |} ->
                                disk_is parse eqv p s1 (Some d)).
      { intros s1 E. exists {| f_data := concat (chunking (render d)); f_mode := mode_file |}, d'.
        split; [exact E|]. cbn [f_data]. rewrite chunking_ok. split; assumption. }
      destruct (save_atomic dir p t (chunking (render d)) NE s pre FR C) as ([OLD|NEW] & OTH & _).
      + split; [left; unfold disk_is, s' in *; now rewrite OLD|]. split; [|exact OTH].
        intro E. subst pre.
        destruct (save_complete dir p t (chunking (render d)) NE s FR) as (P & _ & _).
        apply NEWV. exact P.
      + split; [right; split; [now apply NEWV|]|split; [intros _; now apply NEWV|exact OTH]].
        intros _. eexists. split; [exact NEW|reflexivity].
    - apply cut_nil in C. subst pre. unfold s'. rewrite (SN eq_refl).
      split; [left; exact V|]. split; [intros _; exact V|reflexivity].
  Qed.
End OpSaveProofs.
