(* C18 -- saveFile is atomic with owner-only permissions at every crash point
   (Model/CredSave.v over Base/FlatFS.v). *)
From Oras Require Import Base.Prelude Base.FlatFS Model.CredSave.

(* ---------- path maps ---------- *)
Lemma peqb_false x y : str_eqb x y = false <-> x <> y.
Proof.
  split.
  - intros H E. apply str_eqb_spec in E. congruence.
  - intro H. destruct (str_eqb x y) eqn:E; [|reflexivity]. apply str_eqb_spec in E. contradiction.
Qed.

Section PMapLemmas.
  Context {V : Type}.
  Implicit Types (l : list (path * V)).

  Lemma pget_pdel_eq p l : pget p (pdel p l) = None.
  Proof.
    induction l as [|[q v] l IH]; simpl; [reflexivity|].
    destruct (str_eqb p q) eqn:E; simpl; [exact IH|]. rewrite E. exact IH.
  Qed.

  Lemma pget_pdel_neq p q l : p <> q -> pget q (pdel p l) = pget q l.
  Proof.
    intro N. induction l as [|[k v] l IH]; simpl; [reflexivity|].
    destruct (str_eqb p k) eqn:E; simpl.
    - apply str_eqb_spec in E. subst k.
      assert (F : str_eqb q p = false) by (apply peqb_false; congruence).
      rewrite F. exact IH.
    - destruct (str_eqb q k); [reflexivity|exact IH].
  Qed.

  Lemma pget_pset_eq p v l : pget p (pset p v l) = Some v.
  Proof. unfold pset. simpl. now rewrite str_eqb_refl. Qed.

  Lemma pget_pset_neq p q v l : p <> q -> pget q (pset p v l) = pget q l.
  Proof.
    intro N. unfold pset. simpl.
    assert (F : str_eqb q p = false) by (apply peqb_false; congruence).
    rewrite F. now apply pget_pdel_neq.
  Qed.
End PMapLemmas.

(* ---------- steps that only concern one file ---------- *)
Definition only_file (t : path) (m : mstep) : Prop :=
  match m with
  | MkdirAll _ _ | Close _ => True
  | CreateExcl q _ | Chmod q _ | Write q _ | Unlink q => q = t
  | Rename _ _ => False
  end.

Lemma exec_only_file t m s q : only_file t m -> q <> t -> fget q (exec s m) = fget q s.
Proof.
  intros O N. destruct m; simpl in *; try contradiction; subst; unfold fget in *; simpl.
  - destruct (dget d s); reflexivity.
  - destruct (pget t (fs_files s)); simpl; [reflexivity|]. apply pget_pset_neq. congruence.
  - destruct (pget t (fs_files s)); simpl; [|reflexivity]. apply pget_pset_neq. congruence.
  - destruct (pget t (fs_files s)); simpl; [|reflexivity]. apply pget_pset_neq. congruence.
  - reflexivity.
  - apply pget_pdel_neq. congruence.
Qed.

Lemma exec_all_only_file t l : forall s q,
  Forall (only_file t) l -> q <> t -> fget q (exec_all s l) = fget q s.
Proof.
  unfold exec_all. induction l as [|m l IH]; intros s q F N; [reflexivity|].
  simpl. inversion F as [|? ? Hm Hl]; subst. rewrite (IH (exec s m) q Hl N). now apply (exec_only_file t).
Qed.

(* a crash cut of steps that only concern [t] only concerns [t] *)
Lemma cut_only_file t l pre :
  crash_cut l pre -> Forall (only_file t) l -> Forall (only_file t) pre.
Proof.
  induction 1; intro F.
  - constructor.
  - inversion F; subst. constructor; [assumption|constructor].
  - inversion F; subst. constructor; auto.
Qed.

(* cutting [A ++ [r]] where [r] is not a write: inside A, or everything *)
Lemma cut_snoc A r pre :
  (forall p d, r <> Write p d) ->
  crash_cut (A ++ [r]) pre -> crash_cut A pre \/ pre = A ++ [r].
Proof.
  intro NW. revert pre. induction A as [|m A IH]; intros pre C; simpl in C.
  - inversion C; subst.
    + left. constructor.
    + exfalso. eapply NW. reflexivity.
    + match goal with H : crash_cut [] _ |- _ => inversion H; subst end. now right.
  - inversion C; subst.
    + left. constructor.
    + left. constructor.
    + match goal with H : crash_cut (A ++ [r]) _ |- _ => destruct (IH _ H) as [L|R] end.
      * left. now constructor.
      * right. simpl. now f_equal.
Qed.

(* ---------- the ingest file while it is being written ---------- *)
Definition is_prefix (d full : str) : Prop := exists rest, full = d ++ rest.

(* the temp file holds [d] with mode 0600 *)
Definition temp_is (t : path) (d : str) (s : fs) : Prop :=
  fget t s = Some {| f_data := d; f_mode := mode_file |}.

Lemma exec_write t d c s : temp_is t d s -> temp_is t (d ++ c) (exec s (Write t c)).
Proof.
  unfold temp_is. intro H. cbn [exec]. rewrite H. unfold fget. cbn [fs_files f_data f_mode]. apply pget_pset_eq.
Qed.

Lemma exec_writes t chunks : forall d s,
  temp_is t d s -> temp_is t (d ++ concat chunks) (exec_all s (map (Write t) chunks)).
Proof.
  unfold exec_all. induction chunks as [|c cs IH]; intros d s H; simpl.
  - now rewrite app_nil_r.
  - rewrite app_assoc. apply IH. now apply exec_write.
Qed.

(* any cut of the write phase leaves a prefix of the content, mode 0600 *)
Lemma cut_writes t chunks : forall d s pre,
  temp_is t d s -> crash_cut (map (Write t) chunks) pre ->
  exists d', temp_is t (d ++ d') (exec_all s pre) /\ is_prefix d' (concat chunks).
Proof.
  induction chunks as [|c cs IH]; intros d s pre H C; simpl in C.
  - inversion C; subst. exists []. rewrite app_nil_r. split; [exact H|]. now exists [].
  - inversion C as [l0 | p0 d0 d1 l0 | m0 l0 l1 C']; subst.
    + exists []. rewrite app_nil_r. split; [exact H|]. now exists (concat ((d0 ++ d1) :: cs)) || now exists (concat (c :: cs)).
    + exists d0. split.
      * unfold exec_all. simpl fold_left. now apply exec_write.
      * exists (d1 ++ concat cs). simpl. now rewrite app_assoc.
    + destruct (IH (d ++ c) (exec s (Write t c)) _ (exec_write t d c s H) C') as (d' & T & P).
      exists (c ++ d'). split.
      * unfold exec_all in *. simpl fold_left. now rewrite app_assoc.
      * destruct P as [rest P]. exists rest. simpl. rewrite P. now rewrite app_assoc.
Qed.

Lemma exec_mkdir_fget q d m s : fget q (exec s (MkdirAll d m)) = fget q s.
Proof. unfold fget. cbn [exec]. destruct (dget d s); reflexivity. Qed.

Lemma exec_create_fresh t m s :
  fget t s = None -> fget t (exec s (CreateExcl t m)) = Some {| f_data := []; f_mode := m |}.
Proof. intro H. cbn [exec]. rewrite H. unfold fget. cbn [fs_files]. apply pget_pset_eq. Qed.

Lemma exec_chmod t m f s :
  fget t s = Some f -> fget t (exec s (Chmod t m)) = Some {| f_data := f_data f; f_mode := m |}.
Proof. intro H. cbn [exec]. rewrite H. unfold fget. cbn [fs_files]. apply pget_pset_eq. Qed.

Lemma exec_rename t p f s :
  fget t s = Some f -> t <> p ->
  fget p (exec s (Rename t p)) = Some f /\ fget t (exec s (Rename t p)) = None /\
  forall q, q <> p -> q <> t -> fget q (exec s (Rename t p)) = fget q s.
Proof.
  intros H N. cbn [exec]. rewrite H. unfold fget. cbn [fs_files].
  split; [apply pget_pset_eq|]. split.
  - rewrite pget_pset_neq by congruence. apply pget_pdel_eq.
  - intros q N1 N2. rewrite pget_pset_neq by congruence. apply pget_pdel_neq. congruence.
Qed.

(* ---------- the save ---------- *)
Section Save.
  Variables (dir p t : path) (chunks : list str).
  Hypothesis t_not_p : t <> p.

  Let prefix_steps := [MkdirAll dir mode_dir; CreateExcl t mode_file; Chmod t mode_file]
                        ++ map (Write t) chunks ++ [Close t].

  Lemma save_steps_split : save_steps dir p t chunks = prefix_steps ++ [Rename t p].
  Proof. unfold save_steps, prefix_steps. simpl. rewrite <- app_assoc. reflexivity. Qed.

  Lemma prefix_only_t : Forall (only_file t) prefix_steps.
  Proof.
    unfold prefix_steps. repeat (constructor; [simpl; auto|]).
    apply Forall_app. split.
    - apply Forall_forall. intros m I. apply in_map_iff in I as (c & <- & _). reflexivity.
    - repeat constructor.
  Qed.

  Let s3 (s : fs) := exec (exec (exec s (MkdirAll dir mode_dir)) (CreateExcl t mode_file)) (Chmod t mode_file).

  Lemma s3_temp s : fget t s = None -> temp_is t [] (s3 s).
  Proof.
    intro FR. unfold temp_is, s3.
    rewrite (exec_chmod t mode_file {| f_data := []; f_mode := mode_file |}); [reflexivity|].
    apply exec_create_fresh. now rewrite exec_mkdir_fget.
  Qed.

  Lemma prefix_exec s : exec_all s prefix_steps = exec_all (s3 s) (map (Write t) chunks).
  Proof. unfold prefix_steps, exec_all, s3. cbn [app fold_left]. rewrite fold_left_app. reflexivity. Qed.

  (* the complete save: the config path holds exactly the new content, 0600, and
     the ingest file is gone *)
  Lemma save_complete s :
    fget t s = None ->
    let s' := exec_all s (save_steps dir p t chunks) in
    fget p s' = Some {| f_data := concat chunks; f_mode := mode_file |} /\
    fget t s' = None /\
    (forall q, q <> p -> q <> t -> fget q s' = fget q s).
  Proof.
    intros FR s'. unfold s'. rewrite save_steps_split. unfold exec_all. rewrite fold_left_app.
    fold (exec_all s prefix_steps). cbn [fold_left].
    assert (T : temp_is t (concat chunks) (exec_all s prefix_steps)).
    { rewrite prefix_exec. change (concat chunks) with ([] ++ concat chunks).
      apply exec_writes. now apply s3_temp. }
    destruct (exec_rename t p _ _ T t_not_p) as (P & T' & Q).
    split; [exact P|]. split; [exact T'|].
    intros q N1 N2. rewrite (Q q N1 N2).
    apply (exec_all_only_file t prefix_steps s q prefix_only_t N2).
  Qed.

  (* every crash point *)
  Lemma save_atomic s pre :
    fget t s = None ->
    crash_cut (save_steps dir p t chunks) pre ->
    let s' := exec_all s pre in
    (* the config path: complete old or complete new file *)
    (fget p s' = fget p s \/
     fget p s' = Some {| f_data := concat chunks; f_mode := mode_file |}) /\
    (* no other file is touched *)
    (forall q, q <> p -> q <> t -> fget q s' = fget q s) /\
    (* the ingest file: absent, or a prefix of the new content readable by the owner only *)
    (fget t s' = None \/ exists d, temp_is t d s' /\ is_prefix d (concat chunks)).
  Proof.
    intros FR C s'. unfold s'. rewrite save_steps_split in C.
    apply cut_snoc in C; [|discriminate].
    destruct C as [C|E].
    - pose proof (cut_only_file t _ _ C prefix_only_t) as O.
      split; [left; apply (exec_all_only_file t pre s p O); congruence|].
      split; [intros q N1 N2; now apply (exec_all_only_file t pre s q O)|].
      (* the ingest file *)
      clear O. unfold prefix_steps in C. cbn [app] in C.
      inversion C as [|?|m l l' C1]; subst; [left; exact FR|].
      assert (F1 : fget t (exec s (MkdirAll dir mode_dir)) = None) by (now rewrite exec_mkdir_fget).
      inversion C1 as [|?|m l l'' C2]; subst; [left; exact F1|].
      pose proof (exec_create_fresh t mode_file _ F1) as T2.
      right.
      inversion C2 as [|?|m l l3 C3]; subst; [exists []; split; [exact T2|now exists (concat chunks)]|].
      pose proof (s3_temp s FR) as T3.
      apply cut_snoc in C3; [|discriminate].
      unfold exec_all. cbn [fold_left]. fold (s3 s). fold (exec_all (s3 s) l3).
      destruct C3 as [C3|E3].
      + destruct (cut_writes t chunks [] _ l3 T3 C3) as (d' & T & P). exists d'. split; assumption.
      + subst l3. exists (concat chunks). split; [|exists []; now rewrite app_nil_r].
        unfold exec_all. rewrite fold_left_app. cbn [fold_left exec].
        apply (exec_writes t chunks [] _ T3).
    - subst pre. rewrite <- save_steps_split.
      destruct (save_complete s FR) as (P & T & Q).
      split; [right; exact P|]. split; [exact Q|]. left. exact T.
  Qed.
End Save.

(* the mode of the config file never depends on the file that was there: after
   the save it is 0600, and at every crash cut the path either still holds the
   old file (data and mode untouched) or holds a file of mode 0600 *)
Lemma mode_owner_only (dir p t : path) (chunks : list str) :
  t <> p -> forall s,
  fget t s = None ->
  (forall f, fget p (exec_all s (save_steps dir p t chunks)) = Some f -> f_mode f = mode_file) /\
  (exists f, fget p (exec_all s (save_steps dir p t chunks)) = Some f) /\
  (forall pre f, crash_cut (save_steps dir p t chunks) pre ->
                 fget p (exec_all s pre) = Some f -> fget p (exec_all s pre) <> fget p s -> f_mode f = mode_file).
Proof.
  intros NE s FR. destruct (save_complete dir p t chunks NE s FR) as (P & _ & _).
  split; [|split].
  - intros f E. rewrite P in E. injection E as <-. reflexivity.
  - eexists. exact P.
  - intros pre f C E D.
    destruct (save_atomic dir p t chunks NE s pre FR C) as ([OLD|NEW] & _ & _).
    + contradiction.
    + rewrite NEW in E. injection E as <-. reflexivity.
Qed.

(* ---------- one store operation, crash at any point ---------- *)
From Oras Require Import Generated.GC18 Model.CredFile.

Section OpSaveProofs.
  Variables (enc : str -> str) (dec : str -> option str).
  Variable render : fdoc -> str.
  Variable parse : str -> option fdoc.
  Variable chunking : str -> list str.
  Hypothesis parse_render : forall d, parse (render d) = Some d.
  Hypothesis chunking_ok : forall x, concat (chunking x) = x.

  Lemma saves_spec st o :
    (saves st o = true -> exists d, st_file (fst (step enc dec st o)) = Some d) /\
    (saves st o = false -> fst (step enc dec st o) = st).
  Proof.
    destruct o as [a|a c|a]; simpl.
    - split; [discriminate|reflexivity].
    - destruct (contains colon (c_user c)); simpl; split; try discriminate; try reflexivity.
      intros _. eexists. reflexivity.
    - destruct (lookup a (m_cache (st_mem st))); simpl; split; try discriminate; try reflexivity.
      intros _. eexists. reflexivity.
  Qed.

  Lemma cut_nil pre : crash_cut [] pre -> pre = [].
  Proof. inversion 1; reflexivity. Qed.

  Lemma atomic_op (dir p t : path) st o s pre :
    t <> p -> fget t s = None ->
    disk_view parse p s = view_of (st_file st) ->
    crash_cut (op_steps enc dec render chunking dir p t st o) pre ->
    let st' := fst (step enc dec st o) in
    let s' := exec_all s pre in
    (disk_view parse p s' = view_of (st_file st) \/
     disk_view parse p s' = view_of (st_file st') /\
     (saves st o = true -> exists f, fget p s' = Some f /\ f_mode f = mode_file)) /\
    (pre = op_steps enc dec render chunking dir p t st o -> disk_view parse p s' = view_of (st_file st')) /\
    (forall q, q <> p -> q <> t -> fget q s' = fget q s).
  Proof.
    intros NE FR V C st' s'. unfold op_steps in *. subst st'.
    destruct (saves_spec st o) as [SY SN].
    destruct (saves st o) eqn:SV.
    - destruct (SY eq_refl) as [d ED]. rewrite ED in *.
      destruct (save_atomic dir p t (chunking (render d)) NE s pre FR C) as ([OLD|NEW] & OTH & _).
      + split; [left; unfold disk_view, s'; now rewrite OLD|]. split; [|exact OTH].
        intro E. subst pre.
        destruct (save_complete dir p t (chunking (render d)) NE s FR) as (P & _ & _).
        unfold disk_view, s'. rewrite P. cbn [f_data]. now rewrite chunking_ok, parse_render.
      + assert (VN : disk_view parse p s' = view_of (Some d)).
        { unfold disk_view, s'. rewrite NEW. cbn [f_data]. now rewrite chunking_ok, parse_render. }
        split; [right; split; [exact VN|]|split; [intros _; exact VN|exact OTH]].
        intros _. eexists. split; [exact NEW|reflexivity].
    - apply cut_nil in C. subst pre. unfold s'. rewrite (SN eq_refl).
      split; [left; exact V|]. split; [intros _; exact V|reflexivity].
  Qed.
End OpSaveProofs.
