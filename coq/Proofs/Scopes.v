From Oras Require Import Base.Prelude Model.Scopes.
Lemma clean_scopes_nil : clean_scopes [] = [].
Proof. reflexivity. Qed.
