(* C16 -- lemmas about Model/Scopes.v (CleanScopes / cleanActions). *)
From Coq Require Import Sorting.Sorted Sorting.Permutation.
From Oras Require Import Base.Prelude Model.Scopes.

Ltac nb := repeat match goal with
  | H : (_ <? _) = true |- _ => apply N.ltb_lt in H
  | H : (_ <? _) = false |- _ => apply N.ltb_ge in H
  end.

(* ---------- the order ---------- *)
Definition leb (x y : str) : Prop := str_leb x y = true.
Definition slt (x y : str) : Prop := str_leb x y = true /\ x <> y.

Lemma str_leb_refl x : str_leb x x = true.
Proof. induction x as [|c x IH]; simpl; auto. now rewrite N.ltb_irrefl. Qed.

Lemma str_leb_total x y : str_leb x y = true \/ str_leb y x = true.
Proof.
  revert y; induction x as [|c x IH]; intros [|d y]; simpl; auto.
  destruct (c <? d) eqn:E1; auto. destruct (d <? c) eqn:E2; auto.
Qed.

Lemma str_leb_antisym x y : str_leb x y = true -> str_leb y x = true -> x = y.
Proof.
  revert y; induction x as [|c x IH]; intros [|d y]; simpl; auto; try discriminate.
  destruct (c <? d) eqn:E1; destruct (d <? c) eqn:E2; intros H1 H2; try discriminate.
  - nb. lia.
  - nb. assert (c = d) by lia. subst. f_equal. auto.
Qed.

Lemma str_leb_trans x y z : str_leb x y = true -> str_leb y z = true -> str_leb x z = true.
Proof.
  revert y z; induction x as [|c x IH]; intros [|d y] [|e z]; simpl; auto; try discriminate.
  destruct (c <? d) eqn:E1; destruct (d <? c) eqn:E2;
  destruct (d <? e) eqn:E3; destruct (e <? d) eqn:E4;
  destruct (c <? e) eqn:E5; destruct (e <? c) eqn:E6; intros H1 H2; nb;
  first [discriminate | reflexivity | (exfalso; lia) | (eapply IH; eassumption)].
Qed.

Lemma slt_leb x y : slt x y -> leb x y.
Proof. now intros [H _]. Qed.

(* ---------- insertion sort ---------- *)
Lemma insert_perm x l : Permutation (insert x l) (x :: l).
Proof.
  induction l as [|y l IH]; simpl; auto.
  destruct (str_leb x y); auto.
  eapply perm_trans; [apply perm_skip, IH | apply perm_swap].
Qed.

Lemma isort_perm_of l : Permutation (isort l) l.
Proof.
  induction l as [|x l IH]; simpl; auto.
  eapply perm_trans; [apply insert_perm | auto].
Qed.

Lemma insert_sorted x l : StronglySorted leb l -> StronglySorted leb (insert x l).
Proof.
  induction l as [|y l IH]; intro S; simpl.
  - repeat constructor.
  - apply StronglySorted_inv in S as [S F].
    destruct (str_leb x y) eqn:E.
    + constructor. { constructor; auto. }
      constructor; auto. rewrite Forall_forall in *. intros z Hz.
      eapply str_leb_trans; [exact E | apply F; auto].
    + constructor; auto.
      eapply Permutation_Forall; [apply Permutation_sym, insert_perm|].
      constructor; auto. destruct (str_leb_total x y) as [H|H]; [congruence | exact H].
Qed.

Lemma isort_sorted l : StronglySorted leb (isort l).
Proof. induction l; simpl; [constructor | now apply insert_sorted]. Qed.

Lemma sorted_perm_eq l1 : forall l2,
  StronglySorted leb l1 -> StronglySorted leb l2 -> Permutation l1 l2 -> l1 = l2.
Proof.
  induction l1 as [|a l1 IH]; intros l2 S1 S2 P.
  - apply Permutation_nil in P. auto.
  - destruct l2 as [|c l2]. { apply Permutation_sym, Permutation_nil in P. discriminate. }
    apply StronglySorted_inv in S1 as [S1 F1]. apply StronglySorted_inv in S2 as [S2 F2].
    rewrite Forall_forall in F1, F2.
    assert (a = c) as ->.
    { apply str_leb_antisym.
      - assert (In c (a :: l1)) as [->|Hin] by (eapply Permutation_in; [apply Permutation_sym, P | now left]).
        + apply str_leb_refl. + now apply F1.
      - assert (In a (c :: l2)) as [->|Hin] by (eapply Permutation_in; [apply P | now left]).
        + apply str_leb_refl. + now apply F2. }
    f_equal. apply IH; auto. eapply Permutation_cons_inv; eauto.
Qed.

(* sorting any permutation gives the same list: the iteration order of the Go
   maps that feed the final slices.Sort cannot be observed *)
Lemma isort_perm l l' : Permutation l l' -> isort l = isort l'.
Proof.
  intro P. apply sorted_perm_eq; try apply isort_sorted.
  eapply perm_trans; [apply isort_perm_of|]. eapply perm_trans; [exact P|].
  apply Permutation_sym, isort_perm_of.
Qed.

Lemma isort_id l : StronglySorted leb l -> isort l = l.
Proof. intro S. apply sorted_perm_eq; auto using isort_sorted, isort_perm_of. Qed.

Lemma isort_in x l : In x (isort l) <-> In x l.
Proof.
  split; apply Permutation_in; [apply isort_perm_of | apply Permutation_sym, isort_perm_of].
Qed.

(* ---------- compact ---------- *)
Lemma compact_cons2 a c l :
  compact (a :: c :: l) = if str_eqb a c then compact (c :: l) else a :: compact (c :: l).
Proof. reflexivity. Qed.

Lemma in_cons_iff' {A} (a x : A) l : In x (a :: l) <-> a = x \/ In x l.
Proof. simpl; tauto. Qed.

Lemma compact_in x l : In x (compact l) <-> In x l.
Proof.
  induction l as [|a l IH]; [simpl; tauto|].
  destruct l as [|c l']; [simpl; tauto|].
  rewrite compact_cons2. destruct (str_eqb a c) eqn:E.
  - apply str_eqb_spec in E. subst. rewrite IH, !in_cons_iff'. tauto.
  - rewrite (in_cons_iff' a x (c :: l')), <- IH, in_cons_iff'. tauto.
Qed.

Lemma compact_ssorted l : StronglySorted leb l -> StronglySorted slt (compact l).
Proof.
  induction l as [|a l IH]; intro S; [constructor|].
  destruct l as [|c l']; [simpl; repeat constructor|].
  rewrite compact_cons2. apply StronglySorted_inv in S as [S F].
  destruct (str_eqb a c) eqn:E; [now apply IH|].
  constructor; [now apply IH|].
  rewrite Forall_forall in *. intros y Hy. rewrite compact_in in Hy.
  split; [now apply F|]. intros <-.
  assert (a = c).
  { apply str_leb_antisym; [apply F; now left|].
    destruct Hy as [<-|Hy]; [apply str_leb_refl|].
    apply StronglySorted_inv in S as [_ F']. rewrite Forall_forall in F'. now apply F'. }
  subst. rewrite str_eqb_refl in E. discriminate.
Qed.

Lemma ssorted_weaken l : StronglySorted slt l -> StronglySorted leb l.
Proof.
  induction 1 as [|a l S IH F]; constructor; auto.
  eapply Forall_impl; [|exact F]. intros ? [? _]; assumption.
Qed.

Lemma ssorted_nodup l : StronglySorted slt l -> NoDup l.
Proof.
  induction 1 as [|a l S IH F]; constructor; auto.
  intro Hin. rewrite Forall_forall in F. destruct (F _ Hin) as [_ Hne]. now apply Hne.
Qed.

Lemma ssorted_ext l1 : forall l2,
  StronglySorted slt l1 -> StronglySorted slt l2 ->
  (forall x, In x l1 <-> In x l2) -> l1 = l2.
Proof.
  induction l1 as [|a l1 IH]; intros l2 S1 S2 H.
  - destruct l2 as [|c l2]; auto. exfalso. apply (H c). now left.
  - destruct l2 as [|c l2]. { exfalso. apply (H a). now left. }
    apply StronglySorted_inv in S1 as [S1 F1]. apply StronglySorted_inv in S2 as [S2 F2].
    rewrite Forall_forall in F1, F2.
    assert (a = c) as ->.
    { assert (In a (c :: l2)) as Ha by (apply H; now left).
      assert (In c (a :: l1)) as Hc by (apply H; now left).
      destruct Ha as [->|Ha]; auto. destruct Hc as [->|Hc]; auto.
      destruct (F1 _ Hc) as [L1 N1]. destruct (F2 _ Ha) as [L2 N2].
      exfalso. apply N1. now apply str_leb_antisym. }
    f_equal. apply IH; auto. intro x. split; intro Hx.
    + assert (In x (c :: l2)) as [<-|Hx'] by (apply H; now right); auto.
      exfalso. destruct (F1 _ Hx) as [_ N]. now apply N.
    + assert (In x (c :: l1)) as [<-|Hx'] by (apply H; now right); auto.
      exfalso. destruct (F2 _ Hx) as [_ N]. now apply N.
Qed.

Lemma compact_id l : StronglySorted slt l -> compact l = l.
Proof.
  intro S. apply ssorted_ext; auto.
  - apply compact_ssorted, ssorted_weaken, S.
  - intro; apply compact_in.
Qed.

(* canonical list of a set: sort, then drop adjacent duplicates *)
Definition canon (l : list str) : list str := compact (isort l).

Definition same {A} (l l' : list A) : Prop := forall x, In x l <-> In x l'.

Lemma canon_in x l : In x (canon l) <-> In x l.
Proof. unfold canon. now rewrite compact_in, isort_in. Qed.

Lemma canon_ssorted l : StronglySorted slt (canon l).
Proof. apply compact_ssorted, isort_sorted. Qed.

Lemma canon_ext l l' : same l l' -> canon l = canon l'.
Proof.
  intro H. apply ssorted_ext; try apply canon_ssorted.
  intro x. rewrite !canon_in. apply H.
Qed.

Lemma canon_id l : StronglySorted slt l -> canon l = l.
Proof.
  intro S. unfold canon. rewrite isort_id by now apply ssorted_weaken. now apply compact_id.
Qed.

(* ---------- the slow path ---------- *)
Lemma key_eqb_spec k1 k2 : key_eqb k1 k2 = true <-> k1 = k2.
Proof.
  destruct k1 as [a1 b1], k2 as [a2 b2]. unfold key_eqb. simpl.
  rewrite andb_true_iff, !str_eqb_spec. split; [intros [-> ->]; auto | intros [= -> ->]; auto].
Qed.

Lemma key_eqb_refl k : key_eqb k k = true.
Proof. now apply key_eqb_spec. Qed.

Lemma in_passes y L : In y (passes L) <-> In (Pass y) L.
Proof.
  induction L as [|c L IH]; simpl; [tauto|].
  destruct c as [s| |t n a]; simpl; rewrite IH; intuition (try discriminate; try congruence).
Qed.

Lemma in_acts_of a k L :
  In a (acts_of k L) <-> exists acts, In (Keyed (fst k) (snd k) acts) L /\ In a acts.
Proof.
  induction L as [|c L IH]; simpl.
  - split; [tauto | intros (? & [] & _)].
  - destruct c as [s| |t n a0].
    + rewrite IH. split; intros (acts & H & Ha); exists acts; split; auto.
      destruct H as [H|H]; [discriminate | auto].
    + rewrite IH. split; intros (acts & H & Ha); exists acts; split; auto.
      destruct H as [H|H]; [discriminate | auto].
    + destruct (key_eqb k (t, n)) eqn:E.
      * apply key_eqb_spec in E. subst k. simpl. rewrite in_app_iff, IH. simpl. split.
        -- intros [H|(acts & H & Ha)]; [exists a0; auto | exists acts; auto].
        -- intros (acts & [H|H] & Ha); [injection H as ->; auto | right; eauto].
      * rewrite IH. split; intros (acts & H & Ha); exists acts; split; auto.
        destruct H as [H|H]; auto. injection H as -> -> ->.
        destruct k; simpl in E. rewrite key_eqb_refl in E. discriminate.
Qed.

Lemma in_keys_of k L : forall seen,
  In k (keys_of L seen) <->
  (exists a, In (Keyed (fst k) (snd k) a) L) /\ mem_key k seen = false.
Proof.
  induction L as [|c L IH]; intro seen; simpl.
  - split; [tauto | intros [(a & []) _]].
  - destruct c as [s| |t n a0].
    + rewrite IH. split; intros [(a & H) M]; split; auto; exists a; auto.
      destruct H as [H|H]; [discriminate | auto].
    + rewrite IH. split; intros [(a & H) M]; split; auto; exists a; auto.
      destruct H as [H|H]; [discriminate | auto].
    + destruct (mem_key (t, n) seen) eqn:M.
      * rewrite IH. split; intros [(a & H) Mk]; split; auto; [exists a; auto|].
        destruct H as [H|H]; [|eauto]. injection H as -> -> ->.
        destruct k; simpl in *. congruence.
      * rewrite in_cons_iff', IH. split.
        -- intros [H | [(a & H) Mk]].
           ++ subst k; simpl. split; [exists a0; auto | auto].
           ++ split; [exists a; auto|]. simpl in Mk. apply orb_false_iff in Mk as [_ Mk]. auto.
        -- intros [(a & H) Mk]. destruct (key_eqb k (t, n)) eqn:E.
           ++ left. apply key_eqb_spec in E. auto.
           ++ right. split.
              ** destruct H as [H|H]; [|eauto]. injection H as -> -> ->.
                 destruct k; simpl in E. rewrite key_eqb_refl in E. discriminate.
              ** simpl. now rewrite E, Mk.
Qed.

Lemma keys_of_nodup L : forall seen, NoDup (keys_of L seen).
Proof.
  induction L as [|c L IH]; intro seen; simpl; [constructor|].
  destruct c as [s| |t n a0]; auto.
  destruct (mem_key (t, n) seen) eqn:M; auto.
  constructor; auto. intro H. apply in_keys_of in H as [_ H].
  simpl in H. rewrite key_eqb_refl in H. discriminate.
Qed.

Lemma existsb_same {A} (f : A -> bool) l l' : same l l' -> existsb f l = existsb f l'.
Proof.
  intro H. destruct (existsb f l) eqn:E.
  - apply existsb_exists in E as (x & Hx & Hf). symmetry. apply existsb_exists. exists x. split; auto. now apply H.
  - destruct (existsb f l') eqn:E'; auto.
    apply existsb_exists in E' as (x & Hx & Hf).
    assert (existsb f l = true) by (apply existsb_exists; exists x; split; auto; now apply H). congruence.
Qed.

Lemma merge_actions_ext a a' : same a a' -> merge_actions a = merge_actions a'.
Proof.
  intro H. unfold merge_actions. rewrite (existsb_same _ _ _ H).
  destruct (existsb is_star a'); auto. now apply canon_ext.
Qed.

Lemma rebuild_ext L L' k : same L L' -> rebuild L k = rebuild L' k.
Proof.
  intro H. unfold rebuild.
  assert (S : same (acts_of k L) (acts_of k L')).
  { intro a. rewrite !in_acts_of. split; intros (acts & Hi & Ha); exists acts; split; auto; now apply H. }
  pose proof (merge_actions_ext _ _ S) as M.
  destruct (acts_of k L) as [|x A], (acts_of k L') as [|x' A']; auto.
  - exfalso. apply (S x'). now left.
  - exfalso. apply (S x). now left.
  - now rewrite M.
Qed.

Lemma in_presort y l :
  In y (presort l) <->
  In (Pass y) (map classify l) \/
  exists k, In k (keys_of (map classify l) []) /\ In y (rebuild (map classify l) k).
Proof.
  unfold presort. rewrite in_app_iff, in_passes, in_flat_map. tauto.
Qed.

Lemma presort_same l l' : same l l' -> same (presort l) (presort l').
Proof.
  intros H y.
  assert (HL : same (map classify l) (map classify l')).
  { intro c. rewrite !in_map_iff. split; intros (s & E & Hs); exists s; split; auto; now apply H. }
  rewrite !in_presort. split; (intros [Hp | (k & Hk & Hy)]; [left; now apply HL | right; exists k; split]).
  - apply in_keys_of. apply in_keys_of in Hk as [(a & Ha) M]. split; auto. exists a. now apply HL.
  - now rewrite <- (rebuild_ext _ _ k HL).
  - apply in_keys_of. apply in_keys_of in Hk as [(a & Ha) M]. split; auto. exists a. now apply HL.
  - now rewrite (rebuild_ext _ _ k HL).
Qed.

Lemma slow_canon l : clean_scopes_slow l = canon (presort l).
Proof. reflexivity. Qed.

(* the slow path depends only on the SET of scopes passed in *)
Lemma slow_ext l l' : same l l' -> clean_scopes_slow l = clean_scopes_slow l'.
Proof. intro H. rewrite !slow_canon. apply canon_ext. now apply presort_same. Qed.

Lemma slow_in y l : In y (clean_scopes_slow l) <-> In y (presort l).
Proof. rewrite slow_canon. apply canon_in. Qed.

(* any iteration order of the maps (any permutation of the pre-sort list) gives
   the same result *)
Lemma slow_any_map_order l p :
  Permutation p (presort l) -> compact (isort p) = clean_scopes_slow l.
Proof. intro P. unfold clean_scopes_slow. now rewrite (isort_perm _ _ P). Qed.

Lemma merge_any_set_order a q : Permutation q a -> merge_actions q = merge_actions a.
Proof. intro P. apply merge_actions_ext. intro x. split; apply Permutation_in; auto using Permutation_sym. Qed.

(* ---------- results about clean_scopes (fast paths included) ---------- *)
Lemma clean_single_fast_len s i : (length (clean_single_fast s i) <= 1)%nat.
Proof. unfold clean_single_fast. destruct (clean_actions _); simpl; lia. Qed.

Lemma short_ssorted (l : list str) : (length l <= 1)%nat -> StronglySorted slt l.
Proof.
  destruct l as [|a [|c l]]; simpl; intro H; try lia; repeat constructor.
Qed.

Lemma clean_scopes_ssorted l : StronglySorted slt (clean_scopes l).
Proof.
  destruct l as [|s [|s' l]].
  - constructor.
  - apply short_ssorted. simpl.
    destruct (last_index_of c_colon s) as [i|]; [|simpl; lia].
    destruct (index_of c_colon s) as [j|]; [|simpl; lia].
    destruct (Nat.eqb i j); [simpl; lia | apply clean_single_fast_len].
  - apply canon_ssorted.
Qed.

Lemma clean_scopes_perm l l' : Permutation l l' -> clean_scopes l = clean_scopes l'.
Proof.
  intro P. pose proof (Permutation_length P) as Hlen.
  destruct l as [|s [|s2 l]].
  - apply Permutation_nil in P. now subst.
  - apply Permutation_length_1_inv in P. now subst.
  - destruct l' as [|t [|t2 l']]; try discriminate.
    apply slow_ext. intro x. split; apply Permutation_in; auto using Permutation_sym.
Qed.

(* duplicates and order are irrelevant as soon as both lists take the general path *)
Lemma clean_scopes_set l l' :
  (2 <= length l)%nat -> (2 <= length l')%nat -> same l l' -> clean_scopes l = clean_scopes l'.
Proof.
  intros H1 H2 S.
  destruct l as [|s [|s2 l]]; simpl in H1; try lia.
  destruct l' as [|t [|t2 l']]; simpl in H2; try lia.
  now apply slow_ext.
Qed.

(* wildcard: a "*" among the actions of (t, n) absorbs every other action *)
Lemma star_absorbs l s t n a :
  (2 <= length l)%nat -> In s l -> classify s = Keyed t n a -> In [c_star] a ->
  In (t ++ [c_colon] ++ n ++ [c_colon] ++ [c_star]) (clean_scopes l).
Proof.
  intros Hlen Hs Hc Hstar.
  destruct l as [|s1 [|s2 l]]; simpl in Hlen; try lia.
  change (clean_scopes (s1 :: s2 :: l)) with (clean_scopes_slow (s1 :: s2 :: l)).
  set (l0 := s1 :: s2 :: l) in *.
  apply slow_in, in_presort. right. exists (t, n).
  assert (HK : In (Keyed t n a) (map classify l0)) by (apply in_map_iff; exists s; auto).
  split.
  - apply in_keys_of. split; [exists a; exact HK | reflexivity].
  - unfold rebuild.
    assert (Hin : In [c_star] (acts_of (t, n) (map classify l0))).
    { apply in_acts_of. exists a. auto. }
    assert (Hex : existsb is_star (acts_of (t, n) (map classify l0)) = true).
    { apply existsb_exists. exists [c_star]. split; auto. }
    destruct (acts_of (t, n) (map classify l0)) as [|x A] eqn:EA; [destruct Hin|].
    unfold merge_actions. rewrite Hex. simpl. left. reflexivity.
Qed.

(* every member of the result is an unparsable input scope or the single
   rebuilt scope of one (type, name) *)
Lemma clean_scopes_members l y :
  (2 <= length l)%nat ->
  (In y (clean_scopes l) <->
   (In y l /\ classify y = Pass y) \/
   exists k, In k (keys_of (map classify l) []) /\ rebuild (map classify l) k = [y]).
Proof.
  intro Hlen. destruct l as [|s1 [|s2 l]]; simpl in Hlen; try lia.
  change (clean_scopes (s1 :: s2 :: l)) with (clean_scopes_slow (s1 :: s2 :: l)).
  set (l0 := s1 :: s2 :: l) in *.
  rewrite slow_in, in_presort.
  assert (HP : In (Pass y) (map classify l0) <-> In y l0 /\ classify y = Pass y).
  { rewrite in_map_iff. split.
    - intros (s & E & Hs). assert (s = y) as ->; auto.
      unfold classify in E. destruct (index_of c_colon s); [|congruence].
      destruct (last_index_of c_colon _); [|congruence].
      destruct (is_empty _); discriminate.
    - intros [H E]. exists y. auto. }
  rewrite HP. split; (intros [H|(k & Hk & Hy)]; [left; exact H | right; exists k; split; auto]).
  - unfold rebuild in *. destruct (acts_of k (map classify l0)); [destruct Hy|].
    destruct Hy as [<-|[]]. reflexivity.
  - rewrite Hy. now left.
Qed.

(* ---------- the code before the fixes ---------- *)
Lemma prefix_keeps_duplicates :
  clean_scopes_prefix [b "foo"; b "foo"] = [b "foo"; b "foo"].
Proof. vm_compute. reflexivity. Qed.

Lemma prefix_not_idempotent :
  clean_scopes_prefix [b "a:"; b "r:n:"] = [b "a:"] /\ clean_scopes_prefix [b "a:"] = [].
Proof. split; vm_compute; reflexivity. Qed.
