(* C16 -- CleanScopes: the single-scope fast path agrees with the general path,
   hence the result depends only on the set of scopes, and CleanScopes is
   idempotent. *)
From Coq Require Import Sorting.Sorted Sorting.Permutation.
From Oras Require Import Base.Prelude Model.Scopes Proofs.Scopes.

(* ---------- index lemmas ---------- *)
Lemma last_none c s : last_index_of c s = None <-> contains c s = false.
Proof.
  induction s as [|d s IH]; simpl; [tauto|].
  destruct (last_index_of c s) as [i|].
  - split; [discriminate|]. intro H. apply orb_false_iff in H as [_ H]. apply IH in H. discriminate.
  - destruct (d =? c); simpl; split; try discriminate; intro; auto. now apply IH.
Qed.

Lemma last_app c p r :
  last_index_of c (p ++ c :: r) =
  match last_index_of c r with
  | Some j => Some (length p + S j)%nat
  | None => Some (length p)
  end.
Proof.
  induction p as [|d p IH]; simpl.
  - destruct (last_index_of c r); auto. now rewrite N.eqb_refl.
  - rewrite IH. destruct (last_index_of c r); auto.
Qed.

Lemma last_some c s i :
  last_index_of c s = Some i ->
  s = firstn i s ++ c :: skipn (S i) s /\ contains c (skipn (S i) s) = false /\ length (firstn i s) = i.
Proof.
  revert i; induction s as [|d s IH]; simpl; intros i H; [discriminate|].
  destruct (last_index_of c s) as [j|] eqn:E.
  - injection H as <-. destruct (IH j eq_refl) as (A & B & C). simpl. repeat split; auto. now f_equal.
  - destruct (d =? c) eqn:Ed; [|discriminate]. injection H as <-. apply N.eqb_eq in Ed. subst.
    simpl. repeat split; auto. now apply last_none.
Qed.

Lemma index_some_len c s i :
  index_of c s = Some i ->
  s = firstn i s ++ c :: skipn (S i) s /\ contains c (firstn i s) = false /\ length (firstn i s) = i.
Proof.
  intro H. destruct (index_of_some _ _ _ H) as (A & _ & B). repeat split; auto.
  pose proof (index_of_app_fresh c (firstn i s) (skipn (S i) s) A) as L.
  rewrite <- B in L. rewrite H in L. now injection L.
Qed.

Lemma contains_cons c d s : contains c (d :: s) = (d =? c) || contains c s.
Proof. reflexivity. Qed.

(* ---------- the three shapes of a scope ---------- *)
Lemma classify_cases s :
  (index_of c_colon s = None /\ classify s = Pass s) \/
  (exists t r, s = t ++ c_colon :: r /\ contains c_colon t = false /\ contains c_colon r = false /\
               index_of c_colon s = Some (length t) /\ last_index_of c_colon s = Some (length t) /\
               classify s = Pass s) \/
  (exists t n a, s = t ++ c_colon :: n ++ c_colon :: a /\
                 contains c_colon t = false /\ contains c_colon a = false /\
                 index_of c_colon s = Some (length t) /\
                 last_index_of c_colon s = Some (length t + S (length n))%nat /\
                 classify s = if is_empty a then Drop
                              else Keyed t n (filter (fun x => negb (is_empty x)) (split_on c_comma a))).
Proof.
  unfold classify. destruct (index_of c_colon s) as [i|] eqn:Ei; [|left; auto].
  right. destruct (index_some_len _ _ _ Ei) as (Es & Ft & Lt).
  set (t := firstn i s) in *. set (rest := skipn (S i) s) in *.
  destruct (last_index_of c_colon rest) as [j|] eqn:El.
  - right. destruct (last_some _ _ _ El) as (Er & Fa & Ln).
    set (n := firstn j rest) in *. set (a := skipn (S j) rest) in *.
    exists t, n, a. repeat split; auto;
      try (now rewrite Lt); try (rewrite Es at 1; now rewrite Er at 1);
      try (rewrite Es; rewrite last_app, El, ?Ln; reflexivity).
  - left. exists t, rest. repeat split; auto;
      try (now rewrite Lt); try (now apply last_none);
      try (rewrite Es; rewrite last_app, El; reflexivity).
Qed.

(* ---------- split / join ---------- *)
Lemma split_fresh c x : contains c x = false -> split_on c x = [x].
Proof.
  induction x as [|d x IH]; simpl; auto. intro H. apply orb_false_iff in H as [H1 H2].
  rewrite H1, (IH H2). reflexivity.
Qed.

Lemma split_app_fresh c x r : contains c x = false -> split_on c (x ++ c :: r) = x :: split_on c r.
Proof.
  induction x as [|d x IH]; simpl; intro H.
  - now rewrite N.eqb_refl.
  - apply orb_false_iff in H as [H1 H2]. rewrite H1, (IH H2). reflexivity.
Qed.

Lemma split_join c m :
  m <> [] -> (forall x, In x m -> contains c x = false) -> split_on c (join [c] m) = m.
Proof.
  induction m as [|x m IH]; intros Hne Hf; [congruence|].
  destruct m as [|y m'].
  - simpl. apply split_fresh. apply Hf. now left.
  - change (join [c] (x :: y :: m')) with (x ++ c :: join [c] (y :: m')).
    rewrite split_app_fresh by (apply Hf; now left).
    f_equal. apply IH; [discriminate|]. intros z Hz. apply Hf. now right.
Qed.

Lemma split_pieces c a x : In x (split_on c a) ->
  contains c x = false /\ forall d, contains d x = true -> contains d a = true.
Proof.
  revert x; induction a as [|e a IH]; simpl; intros x H.
  - destruct H as [<-|[]]. split; auto; discriminate.
  - destruct (e =? c) eqn:E.
    + destruct H as [<-|H].
      * split; auto; discriminate.
      * destruct (IH _ H) as [A B]. split; auto. intros d Hd. rewrite (B d Hd). apply orb_true_r.
    + destruct (split_on c a) as [|w ws] eqn:Es.
      * destruct H as [<-|[]]. simpl. rewrite E. split; auto. intros d Hd.
        rewrite orb_false_r in Hd. now rewrite Hd.
      * destruct H as [<-|H].
        -- destruct (IH w (or_introl eq_refl)) as [A B]. split.
           ++ simpl. now rewrite E, A.
           ++ intros d Hd. simpl in Hd. apply orb_true_iff in Hd as [Hd|Hd].
              ** now rewrite Hd.
              ** rewrite (B d Hd). apply orb_true_r.
        -- destruct (IH x (or_intror H)) as [A B]. split; auto.
           intros d Hd. rewrite (B d Hd). apply orb_true_r.
Qed.

Lemma contains_join d sep m :
  contains d sep = false -> (forall x, In x m -> contains d x = false) -> contains d (join sep m) = false.
Proof.
  intros Hs. induction m as [|x m IH]; intro Hf; auto.
  destruct m as [|y m'].
  - simpl. apply Hf. now left.
  - change (join sep (x :: y :: m')) with (x ++ sep ++ join sep (y :: m')).
    rewrite !contains_app, Hs, (Hf x (or_introl eq_refl)). simpl.
    apply IH. intros z Hz. apply Hf. now right.
Qed.

(* ---------- well-formed action lists ---------- *)
Definition good_act (x : str) : Prop :=
  is_empty x = false /\ contains c_comma x = false /\ contains c_colon x = false.

Lemma good_star : good_act [c_star].
Proof. repeat split. Qed.

Lemma keyed_acts_good s t n acts x :
  classify s = Keyed t n acts -> In x acts -> good_act x /\ contains c_colon t = false.
Proof.
  intros Hc Hx. destruct (classify_cases s) as [(_ & E)|[(t0 & r & _ & _ & _ & _ & _ & E)|
    (t0 & n0 & a & Es & Ft & Fa & _ & _ & E)]]; try congruence.
  rewrite Hc in E. destruct (is_empty a); [discriminate|]. injection E as -> -> ->.
  apply filter_In in Hx as [Hx Hne]. destruct (split_pieces _ _ _ Hx) as [A B].
  repeat split; auto.
  - now apply negb_true_iff in Hne.
  - destruct (contains c_colon x) eqn:Ec; auto. apply B in Ec. congruence.
Qed.

Lemma merge_good A :
  A <> [] -> (forall x, In x A -> good_act x) ->
  let m := merge_actions A in
  m <> [] /\ (forall x, In x m -> good_act x) /\ merge_actions m = m /\
  (existsb is_star A = false -> m = canon A).
Proof.
  intros Hne Hg. unfold merge_actions. destruct (existsb is_star A) eqn:Es; simpl.
  - split; [discriminate|]. split; [intros x [<-|[]]; apply good_star|].
    split; [reflexivity | intros [=]].
  - assert (Hc : canon A <> []).
    { destruct A as [|a A']; [congruence|]. intro E.
      assert (In a (canon (a :: A'))) by (apply canon_in; now left). rewrite E in H. destruct H. }
    split; [exact Hc|]. split; [intros x Hx; apply Hg; exact (proj1 (canon_in x A) Hx)|].
    split; [|intros _; reflexivity].
    assert (E : existsb is_star (canon A) = false).
    { rewrite <- Es. apply existsb_same. intro x. apply canon_in. }
    change (compact (isort A)) with (canon A). rewrite E.
    change (canon (canon A) = canon A). apply canon_id, canon_ssorted.
Qed.

(* the rebuilt scope parses back to its parts *)
Lemma classify_rebuilt t n m :
  contains c_colon t = false -> m <> [] -> (forall x, In x m -> good_act x) ->
  classify (t ++ [c_colon] ++ n ++ [c_colon] ++ join [c_comma] m) = Keyed t n m.
Proof.
  intros Ft Hne Hg.
  assert (Fj : contains c_colon (join [c_comma] m) = false).
  { apply contains_join; [reflexivity|]. intros x Hx. apply Hg, Hx. }
  unfold classify. simpl app.
  rewrite (index_of_app_fresh c_colon t _ Ft).
  rewrite firstn_app_exact, skipn_S_app.
  rewrite last_app. replace (last_index_of c_colon (join [c_comma] m)) with (@None nat)
    by (symmetry; now apply last_none).
  rewrite firstn_app_exact, skipn_S_app.
  assert (Ej : is_empty (join [c_comma] m) = false).
  { destruct m as [|x [|y m']]; [congruence| |].
    - simpl. apply Hg. now left.
    - change (join [c_comma] (x :: y :: m')) with (x ++ [c_comma] ++ join [c_comma] (y :: m')).
      destruct x; reflexivity. }
  rewrite Ej. f_equal.
  rewrite split_join; auto; [|intros x Hx; apply Hg, Hx].
  clear -Hg. induction m as [|x m IH]; auto. simpl.
  destruct (Hg x (or_introl eq_refl)) as (E & _). rewrite E. simpl. f_equal.
  apply IH. intros z Hz. apply Hg. now right.
Qed.

(* ---------- cleanActions = the action-set semantics of the general path ---------- *)
Definition nonempty (x : str) : bool := negb (is_empty x).

Definition merge' (A : list str) : list str :=
  match A with [] => [] | _ => merge_actions A end.

Lemma is_star_nonempty x : is_star x = true -> nonempty x = true.
Proof. unfold is_star. intro H. apply str_eqb_spec in H. now subst. Qed.

Lemma existsb_star_filter S : existsb is_star (filter nonempty S) = existsb is_star S.
Proof.
  induction S as [|x S IH]; simpl; auto.
  destruct (nonempty x) eqn:E; simpl; rewrite IH; auto.
  destruct (is_star x) eqn:Es; auto. apply is_star_nonempty in Es. congruence.
Qed.

Lemma merge_nonempty A : A <> [] -> merge_actions A <> [].
Proof.
  intro H. unfold merge_actions. destruct (existsb is_star A); [discriminate|].
  destruct A as [|a A']; [congruence|]. intro E.
  assert (Hin : In a (canon (a :: A'))) by (apply canon_in; now left).
  unfold canon in Hin. rewrite E in Hin. destruct Hin.
Qed.

Lemma str_leb_cons_nil c x : str_leb (c :: x) [] = false.
Proof. reflexivity. Qed.

Lemma drop_empty_canon S :
  match canon S with [] :: rest => rest | c => c end = canon (filter nonempty S).
Proof.
  pose proof (canon_ssorted S) as SS.
  assert (M : forall x, In x (canon S) <-> In x S) by (intro; apply canon_in).
  apply ssorted_ext; [| apply canon_ssorted |].
  - destruct (canon S) as [|[|c0 c'] rest]; auto. now apply StronglySorted_inv in SS.
  - intro x. rewrite canon_in, filter_In, <- M. unfold nonempty.
    destruct (canon S) as [|[|c0 c'] rest] eqn:E.
    + simpl. tauto.
    + apply StronglySorted_inv in SS as [_ F]. rewrite Forall_forall in F. split.
      * intro Hx. split; [now right|]. destruct (F _ Hx) as [_ N]. destruct x; [congruence | reflexivity].
      * intros [[<-|Hx] Hn]; [discriminate | exact Hx].
    + split; [|tauto]. intro Hx. split; auto.
      destruct x as [|x0 x']; [|reflexivity]. exfalso.
      destruct Hx as [Hx|Hx]; [discriminate|].
      apply StronglySorted_inv in SS as [_ F]. rewrite Forall_forall in F.
      destruct (F _ Hx) as [L _]. simpl in L. discriminate.
Qed.

Lemma clean_actions_spec S : clean_actions S = merge' (filter nonempty S).
Proof.
  destruct S as [|x [|y S']].
  - reflexivity.
  - simpl. unfold nonempty. destruct (is_empty x) eqn:E; simpl; auto.
    unfold merge_actions. simpl. destruct (is_star x) eqn:Es; simpl.
    + unfold is_star in Es. apply str_eqb_spec in Es. now subst.
    + reflexivity.
  - set (S := x :: y :: S').
    change (clean_actions S) with
      (if existsb is_star (isort S) then [[c_star]]
       else match compact (isort S) with [] :: rest => rest | c => c end).
    assert (E1 : existsb is_star (isort S) = existsb is_star S).
    { apply existsb_same. intro z. apply isort_in. }
    rewrite E1. fold (canon S). rewrite drop_empty_canon.
    unfold merge'. destruct (filter nonempty S) as [|a A] eqn:EF.
    + rewrite <- (existsb_star_filter S), EF. reflexivity.
    + unfold merge_actions. rewrite <- EF, existsb_star_filter.
      destruct (existsb is_star S); reflexivity.
Qed.

(* ---------- the fast path is the general path ---------- *)
Lemma canon_single x : canon [x] = [x].
Proof. reflexivity. Qed.

Lemma single_fast_slow s : clean_scopes [s] = clean_scopes_slow [s].
Proof.
  rewrite slow_canon. unfold presort. simpl map.
  destruct (classify_cases s) as [(Ei & Ec)|[(t & r & Es & Ft & Fr & Ei & El & Ec)|
    (t & n & a & Es & Ft & Fa & Ei & El & Ec)]].
  - rewrite Ec. simpl. rewrite Ei. destruct (last_index_of c_colon s); reflexivity.
  - rewrite Ec. simpl. rewrite Ei, El, Nat.eqb_refl. reflexivity.
  - simpl clean_scopes. rewrite Ei, El.
    replace (Nat.eqb (length t + S (length n)) (length t)) with false
      by (symmetry; apply Nat.eqb_neq; lia).
    unfold clean_single_fast.
    assert (Ep : s = (t ++ c_colon :: n ++ [c_colon]) ++ a).
    { rewrite Es. rewrite <- app_assoc. simpl. rewrite <- app_assoc. reflexivity. }
    assert (Lp : length (t ++ c_colon :: n ++ [c_colon]) = S (length t + S (length n))).
    { rewrite app_length. simpl. rewrite app_length. simpl. lia. }
    assert (Hsk : skipn (S (length t + S (length n))) s = a).
    { rewrite <- Lp, Ep. apply skipn_app_exact. }
    assert (Hfi : firstn (S (length t + S (length n))) s = t ++ c_colon :: n ++ [c_colon]).
    { rewrite <- Lp, Ep. apply firstn_app_exact. }
    rewrite Hsk, Hfi.
    rewrite clean_actions_spec. rewrite Ec.
    destruct (is_empty a) eqn:Ea.
    + destruct a; [|discriminate]. reflexivity.
    + fold nonempty. simpl passes. simpl keys_of. simpl flat_map.
      unfold rebuild. simpl acts_of. rewrite key_eqb_refl, !app_nil_r.
      destruct (filter nonempty (split_on c_comma a)) as [|x A] eqn:EF.
      * reflexivity.
      * unfold merge'. pose proof (merge_nonempty (x :: A)) as Hm.
        destruct (merge_actions (x :: A)) as [|m0 m] eqn:Em; [exfalso; apply Hm; [discriminate | reflexivity]|].
        rewrite app_nil_l, canon_single. simpl fst. simpl snd. f_equal.
        rewrite <- app_assoc. simpl. rewrite <- app_assoc. reflexivity.
Qed.

Lemma clean_eq_slow l : clean_scopes l = clean_scopes_slow l.
Proof.
  destruct l as [|s [|s' l]]; [reflexivity | apply single_fast_slow | reflexivity].
Qed.

(* CleanScopes depends only on the set of scopes, for all inputs *)
Lemma clean_scopes_same l l' : same l l' -> clean_scopes l = clean_scopes l'.
Proof. intro H. rewrite !clean_eq_slow. now apply slow_ext. Qed.

(* ---------- idempotence ---------- *)
Lemma pass_self s y : classify s = Pass y -> s = y.
Proof.
  unfold classify. destruct (index_of c_colon s); [|congruence].
  destruct (last_index_of c_colon _); [|congruence].
  destruct (is_empty _); discriminate.
Qed.

Lemma rebuild_acts L k A :
  same (acts_of k L) A -> A <> [] ->
  rebuild L k = [fst k ++ [c_colon] ++ snd k ++ [c_colon] ++ join [c_comma] (merge_actions A)].
Proof.
  intros S Hne. unfold rebuild.
  destruct (acts_of k L) as [|x X] eqn:E.
  - exfalso. destruct A as [|a A']; [congruence|]. apply (S a). now left.
  - now rewrite (merge_actions_ext _ _ S).
Qed.

Lemma rebuild_singleton L k y : In y (rebuild L k) -> rebuild L k = [y].
Proof. unfold rebuild. destruct (acts_of k L); simpl; [tauto|]. intros [<-|[]]. reflexivity. Qed.

(* what the members of a cleaned list look like *)
Definition rebuilt_form (L : list cls) (y : str) : Prop :=
  exists t n m,
    y = t ++ [c_colon] ++ n ++ [c_colon] ++ join [c_comma] m /\
    rebuild L (t, n) = [y] /\ classify y = Keyed t n m /\
    merge_actions m = m /\ m <> [].

Lemma out_members l y :
  In y (clean_scopes_slow l) ->
  classify y = Pass y \/ rebuilt_form (map classify l) y.
Proof.
  intro H. apply slow_in, in_presort in H as [H|(k & Hk & Hy)].
  - left. apply in_map_iff in H as (s & E & _). pose proof (pass_self _ _ E). now subst.
  - right. set (L := map classify l) in *. destruct k as [t n].
    pose proof (rebuild_singleton _ _ _ Hy) as Hy0.
    unfold rebuild in Hy. destruct (acts_of (t, n) L) as [|x X] eqn:EA; [destruct Hy|].
    destruct Hy as [<-|[]]. simpl fst in *. simpl snd in *.
    assert (Hg : forall z, In z (x :: X) -> good_act z /\ contains c_colon t = false).
    { intros z Hz. rewrite <- EA in Hz. apply in_acts_of in Hz as (acts & Hin & Hz).
      apply in_map_iff in Hin as (s & Es & _). simpl in Es. eapply keyed_acts_good; eauto. }
    destruct (merge_good (x :: X)) as (M1 & M2 & M3 & _); [discriminate | intros z Hz; apply Hg, Hz|].
    exists t, n, (merge_actions (x :: X)). repeat split; auto.
    + apply classify_rebuilt; auto. apply (Hg x). now left.
Qed.

Lemma rebuild_out l s t n m :
  In s (clean_scopes_slow l) -> classify s = Keyed t n m ->
  rebuild (map classify (clean_scopes_slow l)) (t, n) = [s].
Proof.
  intros Hs Hc. set (out := clean_scopes_slow l) in *.
  destruct (out_members l s Hs) as [E|(t' & n' & m' & Ey & Er & Ec & Em & Hne)]; [congruence|].
  rewrite Hc in Ec. injection Ec as <- <- <-.
  rewrite (rebuild_acts _ (t, n) m); [rewrite Em; simpl fst; simpl snd; now rewrite <- Ey | | exact Hne].
  intro x. rewrite in_acts_of. simpl fst. simpl snd. split.
  - intros (acts & Hin & Hx). apply in_map_iff in Hin as (s' & Es' & Hs').
    destruct (out_members l s' Hs') as [E|(t2 & n2 & m2 & Ey2 & Er2 & Ec2 & _)]; [congruence|].
    rewrite Es' in Ec2. injection Ec2 as <- <- <-.
    rewrite Er in Er2. injection Er2 as <-. rewrite Hc in Es'. now injection Es' as <-.
  - intro Hx. exists m. split; auto. apply in_map_iff. exists s. auto.
Qed.

Lemma presort_out_same l : same (presort (clean_scopes_slow l)) (clean_scopes_slow l).
Proof.
  intro y. rewrite in_presort. split.
  - intros [H|(k & Hk & Hy)].
    + apply in_map_iff in H as (s & E & Hs). pose proof (pass_self _ _ E). now subst.
    + apply in_keys_of in Hk as [(a & Ha) _]. apply in_map_iff in Ha as (s & Es & Hs).
      destruct k as [t n]. simpl in Es.
      rewrite (rebuild_out l s t n a Hs Es) in Hy. destruct Hy as [<-|[]]. exact Hs.
  - intro Hy. destruct (out_members l y Hy) as [E|(t & n & m & Ey & Er & Ec & Em & Hne)].
    + left. apply in_map_iff. exists y. auto.
    + right. exists (t, n). split.
      * apply in_keys_of. split; [|reflexivity]. exists m. apply in_map_iff. exists y. auto.
      * exact (eq_ind_r (fun z => In y z) (in_eq y []) (rebuild_out l y t n m Hy Ec)).
Qed.

Lemma clean_scopes_idempotent l : clean_scopes (clean_scopes l) = clean_scopes l.
Proof.
  rewrite !clean_eq_slow. rewrite (slow_canon (clean_scopes_slow l)).
  rewrite (canon_ext _ _ (presort_out_same l)).
  apply canon_id. rewrite slow_canon. apply canon_ssorted.
Qed.

(* ---------- the code before the fixes ---------- *)
Lemma prefix_refuted :
  (exists l, ~ NoDup (clean_scopes_prefix l)) /\
  (exists l, clean_scopes_prefix (clean_scopes_prefix l) <> clean_scopes_prefix l).
Proof.
  split.
  - exists [b "foo"; b "foo"]. rewrite prefix_keeps_duplicates. intro H.
    inversion H as [|x l' Hn Hd]; subst. apply Hn. now left.
  - exists [b "a:"; b "r:n:"]. destruct prefix_not_idempotent as [E1 E2]. rewrite E1, E2. discriminate.
Qed.

(* ---------- the cache key determines the canonical scope set ---------- *)
(* a scope that can be an element of a space-separated key: not empty, no space *)
Definition key_safe (s : str) : Prop := is_empty s = false /\ contains c_space s = false.

Lemma join_nonempty sep x m : is_empty x = false -> is_empty (join sep (x :: m)) = false.
Proof.
  intro H. destruct m as [|y m']; [exact H|].
  change (join sep (x :: y :: m')) with (x ++ sep ++ join sep (y :: m')). destruct x; [discriminate | reflexivity].
Qed.

Lemma join_space_inj l l' :
  (forall s, In s l -> key_safe s) -> (forall s, In s l' -> key_safe s) ->
  join [c_space] l = join [c_space] l' -> l = l'.
Proof.
  intros H H' E.
  destruct l as [|x m], l' as [|x' m']; auto.
  - exfalso. pose proof (join_nonempty [c_space] x' m' (proj1 (H' x' (or_introl eq_refl)))) as N.
    rewrite <- E in N. discriminate.
  - exfalso. pose proof (join_nonempty [c_space] x m (proj1 (H x (or_introl eq_refl)))) as N.
    rewrite E in N. discriminate.
  - rewrite <- (split_join c_space (x :: m)); [|discriminate | intros s Hs; apply H, Hs].
    rewrite <- (split_join c_space (x' :: m')); [|discriminate | intros s Hs; apply H', Hs].
    now rewrite E.
Qed.

Lemma contains_firstn d i s : contains d (firstn i s) = true -> contains d s = true.
Proof.
  revert i; induction s as [|c s IH]; intros [|i]; simpl; try discriminate.
  intro H. apply orb_true_iff in H as [H|H]; [now rewrite H | rewrite (IH _ H); apply orb_true_r].
Qed.

Lemma merge_subset A x : In x (merge_actions A) -> In x A \/ x = [c_star].
Proof.
  unfold merge_actions. destruct (existsb is_star A).
  - intros [<-|[]]. now right.
  - intro H. left. exact (proj1 (canon_in x A) H).
Qed.

(* cleaning space-free, non-empty scopes gives space-free, non-empty scopes *)
Lemma clean_key_safe l y :
  (forall s, In s l -> key_safe s) -> In y (clean_scopes l) -> key_safe y.
Proof.
  intros H Hy. rewrite clean_eq_slow in Hy. apply slow_in, in_presort in Hy as [Hy|(k & Hk & Hy)].
  - apply in_map_iff in Hy as (s & E & Hs). pose proof (pass_self _ _ E). subst. auto.
  - apply in_keys_of in Hk as [(a0 & Ha0) _]. apply in_map_iff in Ha0 as (s0 & E0 & Hs0).
    destruct k as [t n]. simpl in E0.
    unfold rebuild in Hy. destruct (acts_of (t, n) (map classify l)) as [|x X] eqn:EA; [destruct Hy|].
    destruct Hy as [<-|[]]. simpl fst. simpl snd.
    (* the type and the name are pieces of s0 *)
    destruct (classify_cases s0) as [(_ & E)|[(t1 & r1 & _ & _ & _ & _ & _ & E)|
      (t1 & n1 & a1 & Es & _ & _ & _ & _ & E)]]; try congruence.
    rewrite E0 in E. destruct (is_empty a1); [discriminate|]. injection E as <- <- _.
    destruct (H s0 Hs0) as [_ Fs]. rewrite Es, !contains_app in Fs. simpl in Fs.
    rewrite contains_app in Fs. simpl in Fs.
    apply orb_false_iff in Fs as [Ft Fs]. apply orb_false_iff in Fs as [Fn _].
    split.
    + destruct t; reflexivity.
    + rewrite !contains_app. simpl. rewrite Ft, Fn. simpl.
      apply contains_join; [reflexivity|].
      intros z Hz. apply merge_subset in Hz as [Hz| ->]; [|reflexivity].
      rewrite <- EA in Hz. apply in_acts_of in Hz as (acts & Hin & Hz).
      apply in_map_iff in Hin as (s1 & E1 & Hs1). simpl in E1.
      destruct (classify_cases s1) as [(_ & E)|[(t2 & r2 & _ & _ & _ & _ & _ & E)|
        (t2 & n2 & a2 & Es2 & _ & _ & _ & _ & E)]]; try congruence.
      rewrite E1 in E. destruct (is_empty a2); [discriminate|]. injection E as _ _ ->.
      apply filter_In in Hz as [Hz _]. destruct (split_pieces _ _ _ Hz) as [_ B].
      destruct (contains c_space z) eqn:Ez; auto. apply B in Ez.
      destruct (H s1 Hs1) as [_ Fs1]. rewrite Es2, !contains_app in Fs1. simpl in Fs1.
      rewrite contains_app in Fs1. simpl in Fs1. rewrite Ez in Fs1.
      rewrite !orb_true_r in Fs1. discriminate.
Qed.

(* equal cache keys <=> equal canonical scope sets, for scopes without spaces *)
Lemma key_determines_scopes l l' :
  (forall s, In s l -> key_safe s) -> (forall s, In s l' -> key_safe s) ->
  join [c_space] (clean_scopes l) = join [c_space] (clean_scopes l') ->
  clean_scopes l = clean_scopes l'.
Proof.
  intros H H' E. apply join_space_inj; [intros s Hs; exact (clean_key_safe l s H Hs) | intros s Hs; exact (clean_key_safe l' s H' Hs) | exact E].
Qed.

(* a hint containing a space aliases the key of a different scope set *)
Lemma key_alias_with_space :
  let l := [b "repository:a:pull repository:b:pull"] in
  let l' := [b "repository:a:pull"; b "repository:b:pull"] in
  join [c_space] (clean_scopes l) = join [c_space] (clean_scopes l') /\ clean_scopes l <> clean_scopes l'.
Proof. split; vm_compute; [reflexivity | discriminate]. Qed.

(* ---------- wildcard / membership without the length restriction ---------- *)
Lemma star_absorbs_all l s t n a :
  In s l -> classify s = Keyed t n a -> In [c_star] a ->
  In (t ++ [c_colon] ++ n ++ [c_colon] ++ [c_star]) (clean_scopes l).
Proof.
  intros Hs Hc Hstar.
  rewrite (clean_scopes_same l (l ++ l)) by (intro x; rewrite in_app_iff; tauto).
  apply (star_absorbs (l ++ l) s t n a); auto.
  - destruct l as [|x l']; [destruct Hs|]. simpl. rewrite app_length. simpl. lia.
  - apply in_app_iff. now left.
Qed.

Lemma clean_scopes_members_all l y :
  In y (clean_scopes l) <->
  (In y l /\ classify y = Pass y) \/
  exists k, In k (keys_of (map classify l) []) /\ rebuild (map classify l) k = [y].
Proof.
  rewrite clean_eq_slow, slow_in, in_presort.
  assert (HP : In (Pass y) (map classify l) <-> In y l /\ classify y = Pass y).
  { rewrite in_map_iff. split.
    - intros (s & E & Hs). pose proof (pass_self _ _ E). subst. auto.
    - intros [H E]. exists y. auto. }
  rewrite HP. split; (intros [H|(k & Hk & Hy)]; [left; exact H | right; exists k; split; auto]).
  - now apply rebuild_singleton.
  - rewrite Hy. now left.
Qed.
