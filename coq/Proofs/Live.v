(* C14 — "listing = exactly the live manifests" for every interleaving in which operations on
   the SAME manifest do not overlap (Model/Live.v), on top of the invariants of the Merge
   system. *)
From Oras Require Import Base.Prelude Model.Referrers Proofs.Referrers Model.Merge Proofs.Merge
  Proofs.MergeLin Proofs.MergeThm Model.Live.
From Coq Require Import Lia.

(* ---------- generic facts about one step of the Merge system ---------- *)

Lemma step_lin sg s e s' : step sg s e = Some s' -> lin s' = lin s \/ lin s' = lin s ++ batch s.
Proof.
  intro H. destruct e; simpl in H; step_inv H; auto.
Qed.

Definition active (p : pc) : bool := match p with Idle | Done _ => false | _ => true end.

Lemma step_pcs sg s e s' : InvS s -> step sg s e = Some s' ->
  forall x,
    (pcs s' x = pcs s x) \/
    (exists c, e = EGet x c /\ pcs s x = Idle /\ pcs s' x = Got c) \/
    (exists r, e = EDone x /\ pcs s x = Ret r /\ pcs s' x = Done r) \/
    (active (pcs s x) = true /\ active (pcs s' x) = true).
Proof.
  intros I H x. destruct e; simpl in H.
  - destruct (pcs s t) eqn:Hpc; try discriminate. destruct (is_empty (cdesc c)); try discriminate.
    destruct (pool s); injection H as <-; simpl;
      (destruct (Nat.eq_dec x t) as [->|Hne]; [right; left; exists c; rewrite upd_eq; auto | left; now rewrite upd_neq]).
  - destruct (pcs s t) eqn:Hpc; try discriminate.
    destruct (committed s); injection H as <-; simpl;
      (destruct (Nat.eq_dec x t) as [->|Hne]; [right; right; right; rewrite upd_eq, Hpc; auto | left; now rewrite upd_neq]).
  - destruct (pcs s t) eqn:Hpc; try discriminate.
    destruct (token s && mem t (batch s)); try discriminate. injection H as <-; simpl.
    destruct (Nat.eq_dec x t) as [->|Hne]; [right; right; right; rewrite upd_eq, Hpc; auto | left; now rewrite upd_neq].
  - destruct (pcs s t) eqn:Hpc; try discriminate. injection H as <-; simpl.
    destruct (Nat.eq_dec x t) as [->|Hne]; [right; right; right; rewrite upd_eq, Hpc; auto | left; now rewrite upd_neq].
  - destruct (pcs s t) as [|c0| | |old|nw o|oi ap|r|r|r] eqn:Hpc; try discriminate.
    assert (Hc : forall p st, active p = true ->
              (pcs (set_pc st t p) x = pcs st x) \/ (active (pcs s x) = true /\ active (pcs (set_pc st t p) x) = true) \/ True) by auto.
    destruct old as [o|].
    + destruct (apply_changes (idx o) (map snd (items s))) as [|new].
      * injection H as <-; simpl.
        destruct (Nat.eq_dec x t) as [->|Hne]; [right; right; right; rewrite upd_eq, Hpc; auto | left; now rewrite upd_neq].
      * destruct (negb (is_nil new) || sg).
        -- injection H as <-; simpl.
           destruct (Nat.eq_dec x t) as [->|Hne]; [right; right; right; rewrite upd_eq, Hpc; auto | left; now rewrite upd_neq].
        -- destruct o; injection H as <-; simpl;
             (destruct (Nat.eq_dec x t) as [->|Hne]; [right; right; right; rewrite upd_eq, Hpc; auto | left; now rewrite upd_neq]).
    + injection H as <-; simpl.
      destruct (Nat.eq_dec x t) as [->|Hne]; [right; right; right; rewrite upd_eq, Hpc; auto | left; now rewrite upd_neq].
  - destruct (pcs s t) as [|c0| | |old|nw o|oi ap|r|r|r] eqn:Hpc; try discriminate.
    destruct fail; injection H as <-; simpl;
      (destruct (Nat.eq_dec x t) as [->|Hne]; [right; right; right; rewrite upd_eq, Hpc; split; auto; unfold after_put; destruct sg; auto; destruct o; auto | left; now rewrite upd_neq]).
  - destruct (pcs s t) as [|c0| | |old|nw o|oi ap|r|r|r] eqn:Hpc; try discriminate.
    injection H as <-; simpl;
      (destruct (Nat.eq_dec x t) as [->|Hne]; [right; right; right; rewrite upd_eq, Hpc; auto | left; now rewrite upd_neq]).
  - destruct (pcs s t) as [|c0| | |old|nw o|oi ap|r|r|r] eqn:Hpc; try discriminate.
    destruct fail; [|destruct ap]; injection H as <-; simpl;
      (destruct (Nat.eq_dec x t) as [->|Hne]; [right; right; right; rewrite upd_eq, Hpc; auto | left; now rewrite upd_neq]).
  - destruct (pcs s t) as [|c0| | |old|nw o|oi ap|r|r|r] eqn:Hpc; try discriminate.
    destruct ap; injection H as <-; simpl;
      (destruct (Nat.eq_dec x t) as [->|Hne]; [right; right; right; rewrite upd_eq, Hpc; auto | left; now rewrite upd_neq]).
  - destruct (pcs s t) as [|c0| | |old|nw o|oi ap|r|r|r] eqn:Hpc; try discriminate.
    injection H as <-. cbn [pcs].
    change (fun x0 : nat => if Nat.eqb x0 t then Ret r else if mem x0 (batch s) then Ret r else pcs s x0)
      with (complete_pcs s t r).
    destruct (complete_pcs_cases s t r x) as [[[E0|E0] E]|(_ & _ & E)]; unfold complete_pcs in E.
    + right; right; right. rewrite E. subst x. rewrite Hpc. auto.
    + right; right; right. rewrite E. split; auto.
      destruct (batch_member s x I E0) as [Ew|Em]; [now rewrite Ew|]. destruct (pcs s x); try discriminate; auto.
    + left. exact E.
  - destruct (pcs s t) as [|c0| | |old|nw o|oi ap|r|r|r] eqn:Hpc; try discriminate.
    destruct (pool s); try discriminate. injection H as <-; simpl.
    destruct (Nat.eq_dec x t) as [->|Hne]; [right; right; left; exists r; rewrite upd_eq; auto | left; now rewrite upd_neq].
  - destruct (reg s) as [y|]; try discriminate. destruct (forallb is_empty y); try discriminate.
    injection H as <-. left. reflexivity.
Qed.

Lemma step_arg_lin sg r0 s e s' : InvS s -> InvV r0 s -> step sg s e = Some s' ->
  forall x, In x (lin s ++ batch s) -> arg s' x = arg s x.
Proof.
  intros I V H x Hx. eapply arg_stable; eauto. apply in_app_iff in Hx as [Hx|Hx].
  - now destruct (v_idle _ _ V x Hx).
  - destruct (batch_member s x I Hx) as [E|E]; [rewrite E; discriminate|].
    destruct (pcs s x); try discriminate.
Qed.

(* the effect of one step on the index, as a set *)
Lemma step_effect sg r0 s e s' : InvS s -> InvV r0 s -> InvV r0 s' -> step sg s e = Some s' ->
  (lin s' = lin s /\ forall k, memb (reg s') k = memb (reg s) k) \/
  (lin s' = lin s ++ batch s /\
   forall k, memb (reg s') k = member_after k (memb (reg s) k) (map (arg s) (batch s))).
Proof.
  intros I V V' H.
  assert (Ha : forall l, (forall x, In x l -> In x (lin s ++ batch s)) -> map (arg s') l = map (arg s) l).
  { intros l Hl. apply map_ext_in. intros x Hx. eapply step_arg_lin; eauto. }
  destruct (step_lin _ _ _ _ H) as [E|E]; [left|right]; split; auto; intro k.
  - rewrite (v_set _ _ V' k), (v_set _ _ V k), E. f_equal. apply Ha. intros x Hx. apply in_app_iff. now left.
  - rewrite (v_set _ _ V' k), (v_set _ _ V k), E, map_app, member_after_app. f_equal.
    + f_equal. apply Ha. intros x Hx. apply in_app_iff. now left.
    + apply Ha. intros x Hx. apply in_app_iff. now right.
Qed.

(* the value of key k after a list of changes in which every change of key k has the same kind *)
Lemma member_after_none k b cs : (forall c, In c cs -> ckey c <> k) -> member_after k b cs = b.
Proof.
  unfold member_after. revert b. induction cs as [|c t IH]; intros b H; simpl; auto.
  rewrite IH by (intros; apply H; now right).
  assert (Hc : ckey c <> k) by (apply H; now left).
  unfold ckey in Hc. destruct c as [d|d]; simpl in *; apply N.eqb_neq in Hc; now rewrite Hc.
Qed.

Lemma classic_dec_ex (cs : list change) k :
  (exists c, In c cs /\ ckey c = k) \/ (forall c, In c cs -> ckey c <> k).
Proof.
  induction cs as [|c t IH]; [right; intros c []|].
  destruct (N.eq_dec (ckey c) k) as [E|E]; [left; exists c; split; auto; now left|].
  destruct IH as [(c0 & H0 & H1)|IH]; [left; exists c0; split; auto; now right|].
  right. intros c1 [<-|H1]; auto.
Qed.

Lemma member_after_kind k kind cs : forall b,
  (forall c, In c cs -> ckey c = k -> is_add c = kind) ->
  (exists c, In c cs /\ ckey c = k) -> member_after k b cs = kind.
Proof.
  unfold member_after. induction cs as [|c t IH]; intros b Hall (c0 & Hin & Hk); [destruct Hin|]. simpl.
  destruct (classic_dec_ex t k) as [Hex|Hno].
  - apply IH; auto. intros c1 H1. apply Hall. now right.
  - change (fold_left (member_step k) t (member_step k b c)) with (member_after k (member_step k b c) t).
    rewrite member_after_none by exact Hno.
    destruct Hin as [->|Hin]; [|exfalso; eapply Hno; eauto].
    assert (Hkind := Hall c0 (or_introl eq_refl) Hk).
    unfold ckey in Hk. destruct c0 as [d|d]; simpl in *; rewrite Hk, N.eqb_refl; auto.
Qed.

(* ---------- bookkeeping lemmas ---------- *)

Definition ents := list (tid * N * bool).

Lemma has_entry_In t k b (l : ents) : has_entry t k b l = true <-> In (t, k, b) l.
Proof.
  unfold has_entry. rewrite existsb_exists. split.
  - intros ([[t' k'] b'] & Hin & H). unfold ent_tid, ent_key in H. simpl in H.
    apply andb_true_iff in H as [H Hb]. apply andb_true_iff in H as [Ht Hk].
    apply Nat.eqb_eq in Ht. apply N.eqb_eq in Hk. apply Bool.eqb_prop in Hb. now subst.
  - intro Hin. exists (t, k, b). split; auto. unfold ent_tid, ent_key. simpl.
    now rewrite Nat.eqb_refl, N.eqb_refl, Bool.eqb_reflx.
Qed.

Lemma has_tid_false t (l : ents) : has_tid t l = false -> ~ In t (map ent_tid l).
Proof.
  intros H Hin. apply in_map_iff in Hin as (e & E & Hin).
  assert (has_tid t l = true); [|congruence].
  unfold has_tid. apply existsb_exists. exists e. split; auto. rewrite E. apply Nat.eqb_refl.
Qed.

Lemma has_key_false k (l : ents) : has_ent_key k l = false -> ~ In k (map ent_key l).
Proof.
  intros H Hin. apply in_map_iff in Hin as (e & E & Hin).
  assert (has_ent_key k l = true); [|congruence].
  unfold has_ent_key. apply existsb_exists. exists e. split; auto. rewrite E. apply N.eqb_refl.
Qed.

Lemma ent_key_unique (l : ents) t k b t' b' :
  NoDup (map ent_key l) -> In (t, k, b) l -> In (t', k, b') l -> t = t' /\ b = b'.
Proof.
  induction l as [|e l IH]; simpl; intros N H1 H2; [destruct H1|].
  inversion N as [|? ? Hn Hd]; subst.
  destruct H1 as [->|H1], H2 as [E2|H2].
  - injection E2 as <- <-. auto.
  - exfalso. apply Hn. apply in_map_iff. exists (t', k, b'). auto.
  - subst e. exfalso. apply Hn. apply in_map_iff. exists (t, k, b). auto.
  - auto.
Qed.

Lemma ent_tid_unique (l : ents) t k b k' b' :
  NoDup (map ent_tid l) -> In (t, k, b) l -> In (t, k', b') l -> k = k' /\ b = b'.
Proof.
  induction l as [|e l IH]; simpl; intros N H1 H2; [destruct H1|].
  inversion N as [|? ? Hn Hd]; subst.
  destruct H1 as [->|H1], H2 as [E2|H2].
  - injection E2 as <- <-. auto.
  - exfalso. apply Hn. apply in_map_iff. exists (t, k', b'). auto.
  - subst e. exfalso. apply Hn. apply in_map_iff. exists (t, k, b). auto.
  - auto.
Qed.

Lemma drop_tid_In t (l : ents) e : In e (drop_tid t l) <-> In e l /\ ent_tid e <> t.
Proof. unfold drop_tid. rewrite filter_In, negb_true_iff, Nat.eqb_neq. tauto. Qed.

Lemma NoDup_map_filter {A B} (f : A -> B) (g : A -> bool) l : NoDup (map f l) -> NoDup (map f (filter g l)).
Proof.
  induction l as [|h t IH]; simpl; intro N; [constructor|].
  inversion N as [|? ? Hn Hd]; subst. destruct (g h); simpl; auto.
  constructor; auto. intro Hin. apply Hn. apply in_map_iff in Hin as (x & E & Hx).
  apply filter_In in Hx as [Hx _]. apply in_map_iff. eauto.
Qed.

Lemma live_mem_cons k x l : live_mem k (x :: l) = (k =? x) || live_mem k l.
Proof. reflexivity. Qed.

Lemma live_mem_filter k x l : live_mem k (filter (fun y => negb (y =? x)) l) = negb (k =? x) && live_mem k l.
Proof. apply existsb_filter_neq. Qed.

(* ---------- the invariant ---------- *)

Record LInv (m : lstate) : Prop := {
  li_nd_k : NoDup (map ent_key (l_inflight m));
  li_nd_t : NoDup (map ent_tid (l_inflight m));
  li_act : forall t, active (pcs (l_s m) t) = true ->
      In (t, ckey (arg (l_s m) t), is_add (arg (l_s m) t)) (l_inflight m);
  li_ent : forall t k b, In (t, k, b) (l_inflight m) ->
      live_mem k (l_live m) = true /\ k <> 0 /\
      (pcs (l_s m) t = Idle -> b = true) /\
      (pcs (l_s m) t <> Idle -> ckey (arg (l_s m) t) = k /\ is_add (arg (l_s m) t) = b);
  li_lin : forall t k b, In (t, k, b) (l_inflight m) -> In t (lin (l_s m)) -> memb (reg (l_s m)) k = b;
  li_cons : forall k, ~ In k (map ent_key (l_inflight m)) -> ~ In k (l_taint m) -> consistent m k
}.

Lemma linv_init r0 st0 live0 : tracks (r0, live0) -> LInv (linit r0 st0 live0).
Proof.
  intro T. constructor; simpl; try constructor; try tauto.
  - intros t H. discriminate.
  - intros k _ _. unfold consistent. simpl. apply (T k).
Qed.

(* ---------- preservation ---------- *)

Definition not_get (e : event) : Prop := forall t c, e <> EGet t c.

Lemma pcs_facts sg s e s' : InvS s -> step sg s e = Some s' -> not_get e ->
  forall x, (pcs s' x = Idle <-> pcs s x = Idle) /\ (active (pcs s' x) = true -> active (pcs s x) = true).
Proof.
  intros I H Hn x. destruct (step_pcs sg s e s' I H x) as [E|[(c & E & _)|[(r & _ & E1 & E2)|[E1 E2]]]].
  - rewrite E. tauto.
  - exfalso. eapply Hn; eauto.
  - rewrite E1, E2. split; [split; discriminate|discriminate].
  - split; [|auto]. split; intro E; rewrite E in *; discriminate.
Qed.

Lemma linv_idx sg r0 m e s' :
  LInv m -> InvS (l_s m) -> InvV r0 (l_s m) -> InvV r0 s' ->
  step sg (l_s m) e = Some s' -> not_get e ->
  LInv (mkL s' (l_live m) (l_inflight m) (l_taint m)).
Proof.
  intros L I V V' H Hn. set (s := l_s m) in *.
  pose proof (pcs_facts sg s e s' I H Hn) as Hp.
  assert (Harg : forall x, pcs s x <> Idle -> arg s' x = arg s x) by (intros; eapply arg_stable; eauto).
  assert (Hmem : forall x, In x (batch s) -> In (x, ckey (arg s x), is_add (arg s x)) (l_inflight m)).
  { intros x Hx. apply (li_act m L). destruct (batch_member s x I Hx) as [E|E]; [fold s; now rewrite E|].
    fold s. destruct (pcs s x); try discriminate; reflexivity. }
  constructor; simpl.
  - apply (li_nd_k m L).
  - apply (li_nd_t m L).
  - intros t Ha. destruct (Hp t) as [Hi Hact]. specialize (Hact Ha).
    assert (pcs s t <> Idle) by (intro E; rewrite E in Hact; discriminate).
    rewrite Harg by auto. now apply (li_act m L).
  - intros t k b Hin. destruct (li_ent m L t k b Hin) as (A & B & C & D). fold s in C, D.
    destruct (Hp t) as [Hi _]. repeat split; auto.
    + intro E. apply C. now apply Hi.
    + assert (pcs s t <> Idle) by (intro E; apply H0; now apply Hi). rewrite Harg by auto. now apply D.
    + assert (pcs s t <> Idle) by (intro E; apply H0; now apply Hi). rewrite Harg by auto. now apply D.
  - intros t k b Hin Hl.
    destruct (step_effect sg r0 s e s' I V V' H) as [[El Em]|[El Em]].
    + rewrite Em. apply (li_lin m L t k b Hin). fold s. now rewrite <- El.
    + rewrite Em. rewrite El in Hl. apply in_app_iff in Hl.
      destruct (in_dec Nat.eq_dec t (batch s)) as [Hb|Hnb].
      * apply member_after_kind.
        -- intros c Hc Hk. apply in_map_iff in Hc as (x & <- & Hx).
           destruct (ent_key_unique _ _ _ _ _ _ (li_nd_k m L) Hin (eq_rect _ (fun kk => In (x, kk, _) _) (Hmem x Hx) _ Hk)) as [_ Eb].
           now symmetry.
        -- exists (arg s t). split; [now apply in_map|].
           destruct (li_ent m L t k b Hin) as (_ & _ & _ & D). fold s in D. apply D.
           destruct (batch_member s t I Hb) as [E|E]; [rewrite E; discriminate|]. destruct (pcs s t); try discriminate.
      * rewrite member_after_none.
        -- apply (li_lin m L t k b Hin). fold s. tauto.
        -- intros c Hc Hk. apply in_map_iff in Hc as (x & <- & Hx). apply Hnb.
           destruct (ent_key_unique _ _ _ _ _ _ (li_nd_k m L) Hin (eq_rect _ (fun kk => In (x, kk, _) _) (Hmem x Hx) _ Hk)) as [-> _].
           exact Hx.
  - intros k Hk Ht. unfold consistent. simpl.
    pose proof (li_cons m L k Hk Ht) as Hc. unfold consistent in Hc. fold s in Hc.
    destruct (step_effect sg r0 s e s' I V V' H) as [[El Em]|[El Em]]; rewrite Em; auto.
    rewrite member_after_none; auto.
    intros c Hc' Hkk. apply in_map_iff in Hc' as (x & <- & Hx). apply Hk.
    apply in_map_iff. exists (x, ckey (arg s x), is_add (arg s x)). split; auto.
Qed.

Lemma get_facts sg s t c s' : step sg s (EGet t c) = Some s' ->
  pcs s t = Idle /\ ckey c <> 0 /\ arg s' t = c /\ pcs s' t = Got c /\
  lin s' = lin s /\ reg s' = reg s /\
  (forall x, x <> t -> pcs s' x = pcs s x /\ arg s' x = arg s x).
Proof.
  intro H. destruct (arg_set _ _ _ _ _ H) as [A B]. simpl in H.
  destruct (pcs s t) eqn:Hpc; try discriminate.
  destruct (is_empty (cdesc c)) eqn:Hne; try discriminate.
  assert (Hk : ckey c <> 0) by (unfold ckey, is_empty in *; now apply N.eqb_neq).
  destruct (pool s); injection H as <-; simpl; repeat split; auto;
    try (intros y Hy; rewrite !upd_neq by auto; auto); try (rewrite !upd_neq by auto; auto).
Qed.

(* an EGet: [fl'] is the old list, possibly with the new entry of t in front *)
Lemma linv_get sg m t c s' fl' :
  LInv m -> step sg (l_s m) (EGet t c) = Some s' ->
  (forall e, In e fl' <-> e = (t, ckey c, is_add c) \/ In e (l_inflight m)) ->
  NoDup (map ent_key fl') -> NoDup (map ent_tid fl') ->
  live_mem (ckey c) (l_live m) = true ->
  ~ In t (lin (l_s m)) ->
  LInv (mkL s' (l_live m) fl' (l_taint m)).
Proof.
  intros L H Hfl Nk Nt Hlive Hnl. set (s := l_s m) in *.
  destruct (get_facts _ _ _ _ _ H) as (Hidle & Hk & Ha & Hp & El & Er & Ho).
  constructor; simpl; auto.
  - intros x Hx. apply Hfl. destruct (Nat.eq_dec x t) as [->|Hne].
    + left. now rewrite Ha.
    + right. destruct (Ho x Hne) as [E1 E2]. rewrite E1 in Hx. rewrite E2. now apply (li_act m L).
  - intros x k b Hin. apply Hfl in Hin. destruct (Nat.eq_dec x t) as [->|Hne].
    + assert (E : (t, k, b) = (t, ckey c, is_add c)).
      { destruct Hin as [E|Hin]; auto.
        assert (Hin1 : In (t, k, b) fl') by (apply Hfl; now right).
        assert (Hin2 : In (t, ckey c, is_add c) fl') by (apply Hfl; now left).
        destruct (ent_tid_unique _ _ _ _ _ _ Nt Hin1 Hin2) as [-> ->]. reflexivity. }
      injection E as -> ->. rewrite Hp, Ha. repeat split; auto; try discriminate.
    + destruct Hin as [E|Hin]; [injection E as -> _ _; congruence|].
      destruct (Ho x Hne) as [E1 E2]. rewrite E1, E2. apply (li_ent m L x k b Hin).
  - intros x k b Hin Hl. rewrite El in Hl. rewrite Er. apply Hfl in Hin.
    destruct Hin as [E|Hin]; [injection E as -> _ _; tauto|]. now apply (li_lin m L x k b Hin).
  - intros k Hk' Ht. unfold consistent. simpl. rewrite Er. apply (li_cons m L k); auto.
    intro Hin. apply Hk'. apply in_map_iff in Hin as (e & E & Hin). apply in_map_iff. exists e. split; auto.
    apply Hfl. now right.
Qed.

Lemma drop_keys (l : ents) t k b k' :
  NoDup (map ent_tid l) -> In (t, k, b) l -> k' <> k ->
  ~ In k' (map ent_key (drop_tid t l)) -> ~ In k' (map ent_key l).
Proof.
  intros Nt Hin Hne Hn Hk. apply Hn. apply in_map_iff in Hk as ([[t1 k1] b1] & E & H1).
  unfold ent_key in E. simpl in E. subst k1. apply in_map_iff. exists (t1, k', b1). split; auto.
  apply drop_tid_In. split; auto. unfold ent_tid. simpl. intro; subst t1.
  destruct (ent_tid_unique _ _ _ _ _ _ Nt Hin H1). congruence.
Qed.

(* the operation of t is over: its entry is dropped *)
Lemma linv_drop m t k b live' taint' :
  LInv m -> In (t, k, b) (l_inflight m) -> active (pcs (l_s m) t) = false ->
  (forall k', k' <> k -> live_mem k' live' = live_mem k' (l_live m)) ->
  (forall k', In k' (l_taint m) -> In k' taint') ->
  (In k taint' \/ memb (reg (l_s m)) k = negb (k =? 0) && live_mem k live') ->
  LInv (mkL (l_s m) live' (drop_tid t (l_inflight m)) taint').
Proof.
  intros L Hin Hna Hlive Htaint Hk. constructor; simpl.
  - apply NoDup_map_filter, (li_nd_k m L).
  - apply NoDup_map_filter, (li_nd_t m L).
  - intros x Hx. apply drop_tid_In. split; [now apply (li_act m L)|].
    unfold ent_tid. simpl. intro; subst x. congruence.
  - intros x k' b' Hin'. apply drop_tid_In in Hin' as [Hin' Hne]. unfold ent_tid in Hne. simpl in Hne.
    destruct (li_ent m L x k' b' Hin') as (A & B & C & D). repeat split; auto; try (now apply D).
    rewrite Hlive; auto. intro; subst k'.
    destruct (ent_key_unique _ _ _ _ _ _ (li_nd_k m L) Hin Hin'). congruence.
  - intros x k' b' Hin' Hl. apply drop_tid_In in Hin' as [Hin' _]. now apply (li_lin m L x k' b').
  - intros k' Hk' Ht. unfold consistent. simpl. destruct (N.eq_dec k' k) as [->|Hne].
    + destruct Hk as [Hk|Hk]; [tauto|exact Hk].
    + rewrite Hlive by auto. apply (li_cons m L k').
      * eapply drop_keys; eauto. apply (li_nd_t m L).
      * intro Hx. apply Ht. auto.
Qed.

Lemma lstep_inv sg r0 m e m' :
  LInv m -> InvS (l_s m) -> InvV r0 (l_s m) -> lstep sg m e = Some m' ->
  LInv m' /\ InvS (l_s m') /\ InvV r0 (l_s m').
Proof.
  intros L I V H. destruct e as [t d|e|t|t|d]; cbn -[step] in H.
  - (* LPut *)
    destruct (pcs (l_s m) t) eqn:Hpc; try discriminate.
    destruct (is_empty d) eqn:He; simpl in H; [discriminate|].
    destruct (has_tid t (l_inflight m)) eqn:Ht; simpl in H; [discriminate|].
    destruct (has_ent_key (dkey d) (l_inflight m)) eqn:Hk; [discriminate|]. injection H as <-.
    split; [|split; auto]. constructor; cbn [l_s l_live l_inflight l_taint map].
    + constructor; [now apply has_key_false|apply (li_nd_k m L)].
    + constructor; [now apply has_tid_false|apply (li_nd_t m L)].
    + intros x Hx. right. now apply (li_act m L).
    + intros x k b [E|Hin].
      * injection E as <- <- <-. rewrite live_mem_cons, N.eqb_refl. repeat split; auto; try congruence.
        unfold is_empty in He. now apply N.eqb_neq.
      * destruct (li_ent m L x k b Hin) as (A & B & C & D). rewrite live_mem_cons, A, orb_true_r. auto.
    + intros x k b [E|Hin] Hl.
      * injection E as <- _ _. destruct (v_idle _ _ V t Hl). congruence.
      * now apply (li_lin m L x k b).
    + intros k Hk' Ht'. unfold consistent. cbn [l_s l_live]. rewrite live_mem_cons.
      assert (k <> dkey d) by (intro; subst; apply Hk'; left; reflexivity).
      apply N.eqb_neq in H. rewrite H. simpl. apply (li_cons m L k); auto.
      intro Hx. apply Hk'. now right.
  - (* LIdx *)
    assert (Hgen : forall s', step sg (l_s m) e = Some s' -> not_get e ->
              LInv (mkL s' (l_live m) (l_inflight m) (l_taint m)) /\ InvS s' /\ InvV r0 s').
    { intros s' Hs Hn. assert (I' : InvS s') by exact (stepS sg (l_s m) e s' I Hs).
      assert (V' : InvV r0 s') by exact (stepV sg r0 (l_s m) e s' I V Hs).
      split; [|split; auto]. apply (linv_idx sg r0 m e s'); auto. }
    destruct e as [t c|t|t|t f|t|t f|t|t f|t|t|t|]; cbn -[step] in H;
      try (match type of H with match step ?a ?b ?ev with _ => _ end = _ =>
             destruct (step a b ev) as [s'|] eqn:Hs; [|discriminate]; injection H as <-;
             apply Hgen; auto; intros ? ? ?; discriminate end).
    destruct c as [d|d].
    + destruct (has_entry t (dkey d) true (l_inflight m)) eqn:He; [|discriminate].
      destruct (step sg (l_s m) (EGet t (Add d))) as [s'|] eqn:Hs; [|discriminate]. injection H as <-.
      apply has_entry_In in He.
      split; [|split; [exact (stepS _ _ _ _ I Hs)|exact (stepV _ _ _ _ _ I V Hs)]].
      destruct (get_facts _ _ _ _ _ Hs) as (Hidle & _).
      eapply linv_get; eauto; try apply (li_nd_k m L); try apply (li_nd_t m L).
      * intro e. split; [now right|]. intros [->|]; auto.
      * now destruct (li_ent m L t (dkey d) true He).
      * intro Hl. destruct (v_idle _ _ V t Hl). congruence.
    + destruct (has_tid t (l_inflight m)) eqn:Ht; cbn -[step] in H; [discriminate|].
      destruct (has_ent_key (dkey d) (l_inflight m)) eqn:Hk; cbn -[step] in H; [discriminate|].
      destruct (live_mem (dkey d) (l_live m)) eqn:Hl; cbn -[step] in H; [|discriminate].
      destruct (step sg (l_s m) (EGet t (Remove d))) as [s'|] eqn:Hs; [|discriminate]. injection H as <-.
      split; [|split; [exact (stepS _ _ _ _ I Hs)|exact (stepV _ _ _ _ _ I V Hs)]].
      destruct (get_facts _ _ _ _ _ Hs) as (Hidle & _).
      eapply linv_get; eauto.
      * intro e. simpl. unfold ckey. simpl. split; intros [E|E]; auto.
      * simpl. constructor; [now apply has_key_false|apply (li_nd_k m L)].
      * simpl. constructor; [now apply has_tid_false|apply (li_nd_t m L)].
      * intro Hx. destruct (v_idle _ _ V t Hx). congruence.
  - (* LDel *)
    destruct (pcs (l_s m) t) as [|c0| | |old|nw o|oi ap|r|r|r] eqn:Hpc; try discriminate.
    destruct (has_entry t (ckey (arg (l_s m) t)) false (l_inflight m)) eqn:He; simpl in H; [|discriminate].
    apply has_entry_In in He.
    assert (Hr : r <> RErr) by (destruct r; simpl in H; congruence).
    assert (E : (if negb (plain_err r) then
                   Some (mkL (l_s m) (filter (fun x => negb (x =? ckey (arg (l_s m) t))) (l_live m)) (drop_tid t (l_inflight m)) (l_taint m))
                 else None) = Some m') by exact H.
    destruct r; simpl in E; try congruence; injection E as <-;
      (split; [|split; auto]; eapply linv_drop; eauto;
       [rewrite Hpc; reflexivity
       |intros k' Hne; rewrite live_mem_filter; apply N.eqb_neq in Hne; now rewrite Hne
       |right; rewrite live_mem_filter, N.eqb_refl; simpl; rewrite andb_false_r;
        apply (li_lin m L t _ false He); apply (v_ret _ _ V t _ (or_intror Hpc)); discriminate]).
  - (* LEnd *)
    destruct (pcs (l_s m) t) as [|c0| | |old|nw o|oi ap|r|r|r] eqn:Hpc; try discriminate.
    destruct (has_entry t (ckey (arg (l_s m) t)) (is_add (arg (l_s m) t)) (l_inflight m)) eqn:He; [|discriminate].
    apply has_entry_In in He.
    assert (Hok : forall r', r = r' -> r' <> RErr -> is_add (arg (l_s m) t) = true ->
              LInv (mkL (l_s m) (l_live m) (drop_tid t (l_inflight m)) (l_taint m))).
    { intros r' -> Hr Ha. eapply linv_drop; eauto.
      - rewrite Hpc. reflexivity.
      - right. destruct (li_ent m L _ _ _ He) as (A & B & _). rewrite A. apply N.eqb_neq in B. rewrite B. simpl.
        rewrite <- Ha. apply (li_lin m L t _ _ He). apply (v_ret _ _ V t _ (or_intror Hpc)). exact Hr. }
    assert (Hab : LInv (mkL (l_s m) (l_live m) (drop_tid t (l_inflight m)) (ckey (arg (l_s m) t) :: l_taint m))).
    { eapply linv_drop; eauto.
      - rewrite Hpc. reflexivity.
      - intros k' Hk'. now right.
      - left. now left. }
    destruct r.
    + destruct (is_add (arg (l_s m) t)) eqn:Ha; injection H as <-; (split; [|split; auto]); auto.
      eapply Hok; eauto. discriminate.
    + destruct (is_add (arg (l_s m) t)) eqn:Ha; injection H as <-; (split; [|split; auto]); auto.
      eapply Hok; eauto. discriminate.
    + injection H as <-. split; [|split; auto]. eapply linv_drop; eauto.
      * rewrite Hpc. reflexivity.
      * intros k' Hk'. now right.
      * left. now left.
    + destruct (is_add (arg (l_s m) t)) eqn:Ha; injection H as <-; (split; [|split; auto]); auto.
      eapply Hok; eauto. discriminate.
  - (* LPutLost *)
    destruct (is_empty d) eqn:He; simpl in H; [discriminate|].
    destruct (has_ent_key (dkey d) (l_inflight m)) eqn:Hk; [discriminate|]. injection H as <-.
    split; [|split; auto]. constructor; cbn [l_s l_live l_inflight l_taint map].
    + apply (li_nd_k m L).
    + apply (li_nd_t m L).
    + apply (li_act m L).
    + intros x k b Hin. destruct (li_ent m L x k b Hin) as (A & B & C & D). rewrite live_mem_cons, A, orb_true_r. auto.
    + apply (li_lin m L).
    + intros k Hk' Ht'. unfold consistent. cbn [l_s l_live]. rewrite live_mem_cons.
      assert (Hd : k <> dkey d) by (intro; subst; apply Ht'; left; reflexivity).
      apply N.eqb_neq in Hd. rewrite Hd. simpl. apply (li_cons m L k); auto. intro Hx. apply Ht'. now right.
Qed.

Lemma lrun_inv sg r0 tr : forall m m',
  LInv m -> InvS (l_s m) -> InvV r0 (l_s m) -> lrun sg m tr = Some m' ->
  LInv m' /\ InvS (l_s m') /\ InvV r0 (l_s m').
Proof.
  induction tr as [|e tr IH]; intros m m' L I V H; simpl in H.
  - injection H as <-. auto.
  - destruct (lstep sg m e) as [m1|] eqn:E; [|discriminate].
    destruct (lstep_inv sg r0 m e m1 L I V E) as (L1 & I1 & V1). eapply IH; eauto.
Qed.

(* every interleaving of operations on one subject in which operations on the same manifest
   do not overlap: a manifest that no operation is working on (and no failed operation has
   touched) is listed iff it is live *)
Lemma listing_is_live sg r0 st0 live0 tr m :
  tracks (r0, live0) -> lrun sg (linit r0 st0 live0) tr = Some m ->
  forall k, ~ In k (map ent_key (l_inflight m)) -> ~ In k (l_taint m) -> consistent m k.
Proof.
  intros T H. destruct (lrun_inv sg r0 tr _ _ (linv_init r0 st0 live0 T) (invS_init r0 st0) (invV_init r0 st0) H) as (L & _ & _).
  apply (li_cons m L).
Qed.
