(* Reading back the decimal numbers json.Marshal writes. *)
From Oras Require Import Base.Prelude Base.Regex Generated.GC19 Model.Pack Model.PackEnc Proofs.Pack Proofs.PackEnc.

Definition val (a : N) (ds : str) : N := fold_left (fun x d => x * 10 + (d - 48)) ds a.

Fixpoint pow10 (k : nat) : N := match k with O => 1 | S k' => 10 * pow10 k' end.

Lemma val_app a ds d : val a (ds ++ [d]) = val a ds * 10 + (d - 48).
Proof. unfold val. now rewrite fold_left_app. Qed.

Lemma add48' x : 48 + x - 48 = x.
Proof. rewrite N.add_comm. apply N.add_sub. Qed.

Lemma digit48 x : x < 10 -> is_digit (48 + x) = true.
Proof. intro L. unfold is_digit. apply andb_true_iff. split; apply N.leb_le; lia. Qed.

Lemma dec_digits_S f n acc :
  dec_digits (S f) n acc = if n / 10 =? 0 then (48 + n mod 10) :: acc else dec_digits f (n / 10) ((48 + n mod 10) :: acc).
Proof. reflexivity. Qed.

Lemma dec_digits_spec f : forall n l, n < pow10 (S f) ->
  exists ds, dec_digits (S f) n l = ds ++ l /\ ds <> [] /\
             Forall (fun c => is_digit c = true) ds /\ forall a, val a ds = a * pow10 (length ds) + n.
Proof.
  induction f as [|f IH]; intros n l L.
  - simpl in L. assert (D : n / 10 = 0) by (apply N.div_small; lia).
    assert (M : n mod 10 = n) by (apply N.mod_small; lia).
    exists [48 + n]. rewrite dec_digits_S, D, M. cbn [N.eqb]. split; [reflexivity|]. split; [discriminate|].
    split; [constructor; [apply digit48; lia | constructor]|]. intro a. unfold val. cbn [fold_left length pow10]. rewrite add48'. lia.
  - pose proof (N.div_mod n 10 ltac:(discriminate)) as DM.
    pose proof (N.mod_lt n 10 ltac:(discriminate)) as ML.
    rewrite dec_digits_S. destruct (n / 10 =? 0) eqn:Z.
    + apply N.eqb_eq in Z. exists [48 + n mod 10]. split; [reflexivity|]. split; [discriminate|].
      split; [constructor; [apply digit48; lia | constructor]|]. intro a. unfold val. cbn [fold_left length pow10]. rewrite add48'. lia.
    + assert (Lq : n / 10 < pow10 (S f)).
      { apply N.div_lt_upper_bound; [discriminate|]. change (pow10 (S (S f))) with (10 * pow10 (S f)) in L. exact L. }
      destruct (IH (n / 10) ((48 + n mod 10) :: l) Lq) as (ds & E & NE & F & V).
      exists (ds ++ [48 + n mod 10]). split; [rewrite E, <- app_assoc; reflexivity|].
      split; [destruct ds; discriminate|]. split; [apply Forall_app; split; auto; constructor; [apply digit48; lia | constructor]|].
      intro a. rewrite val_app, V, add48', app_length. simpl length. rewrite Nat.add_1_r.
      change (pow10 (S (length ds))) with (10 * pow10 (length ds)). set (p := pow10 (length ds)). lia.
Qed.

Lemma read_digits_app ds rest a :
  Forall (fun c => is_digit c = true) ds ->
  match rest with c :: _ => is_digit c = false | [] => True end ->
  read_digits (ds ++ rest) a = (val a ds, rest).
Proof.
  intros F R. revert a. induction F as [|d ds D F IH]; intro a; cbn [app read_digits val fold_left].
  - destruct rest as [|c r]; auto. cbn [read_digits]. now rewrite R.
  - rewrite D. apply IH.
Qed.

(* what json.Marshal writes for a natural number below 10^40 reads back as that number *)
Theorem read_json_nat n rest :
  n < pow10 40 ->
  match rest with c :: _ => is_digit c = false | [] => True end ->
  read_digits (json_nat n ++ rest) 0 = (n, rest).
Proof.
  intros L R. unfold json_nat. destruct (dec_digits_spec 39 n [] L) as (ds & E & _ & F & V).
  rewrite E, app_nil_r, (read_digits_app ds rest 0 F R), V. f_equal; lia.
Qed.


Lemma json_int_of_N n : json_int (Z.of_N n) = json_nat n.
Proof. destruct n; reflexivity. Qed.

Lemma join_head_sep x l : exists t, join comma (x :: l) = x ++ t /\ (t = [] \/ exists t', t = 44 :: t').
Proof.
  destruct l as [|y l]; [exists []; split; [simpl; now rewrite app_nil_r | now left]|].
  exists (comma ++ join comma (y :: l)). split; [reflexivity | right; eexists; reflexivity].
Qed.

Lemma desc_head c n : d_sz c = Z.of_N n ->
  exists t, json_desc c = 123 :: field "mediaType" (json_string (d_mt c)) ++ comma ++
                          field "digest" (json_string (d_dg c)) ++ comma ++
                          json_string (b "size") ++ 58 :: json_nat n ++ t /\
            exists ch t', t = ch :: t' /\ is_digit ch = false.
Proof.
  intro SZ. unfold json_desc. cbn [app].
  match goal with |- context [json_obj (?a :: ?b' :: ?c' :: ?l)] => destruct (join_head_sep c' l) as (t & E & T) end.
  exists (t ++ [125]). split.
  - unfold json_obj. rewrite !join_cons, E. rewrite SZ, json_int_of_N. unfold field at 3.
    cbn [app]. rewrite <- !app_assoc. cbn [app]. reflexivity.
  - destruct T as [-> | (t' & ->)]; eexists _, _; split; reflexivity.
Qed.

Lemma read_config_head_json c n tail :
  d_sz c = Z.of_N n -> n < pow10 40 ->
  read_config_head (field "config" (json_desc c) ++ tail) = Some (utf8_san (d_mt c), utf8_san (d_dg c), n).
Proof.
  intros SZ L. destruct (desc_head c n SZ) as (t & ED & ch & t' & -> & ND).
  unfold read_config_head, field at 1. rewrite ED.
  assert (E : (json_string (b "config") ++ 58 :: 123 :: field "mediaType" (json_string (d_mt c)) ++ comma ++
               field "digest" (json_string (d_dg c)) ++ comma ++ json_string (b "size") ++ 58 :: json_nat n ++ ch :: t') ++ tail
              = (json_string (b "config") ++ [58; 123]) ++ field "mediaType" (json_string (d_mt c)) ++ comma ++
                field "digest" (json_string (d_dg c)) ++
                (comma ++ json_string (b "size") ++ [58]) ++ json_nat n ++ (ch :: t') ++ tail).
  { unfold comma. repeat (progress (repeat rewrite <- app_assoc; cbn [app])). reflexivity. }
  rewrite E, strip_prefix_app, read_field_json, strip_prefix_app, read_field_json, strip_prefix_app.
  rewrite read_json_nat; auto.
Qed.

Theorem doc_config_head_json m c n :
  m_kind m = KImage -> m_config m = Some c -> d_sz c = Z.of_N n -> n < pow10 40 ->
  doc_config_head (json_manifest m) = Some (utf8_san (d_mt c), utf8_san (d_dg c), n).
Proof.
  intros K C SZ L. unfold json_manifest. rewrite K, C.
  destruct (m_at m) as [|a0 a] eqn:A; cbn [nonempty opt_field app];
    unfold json_obj, doc_config_head; rewrite !join_cons; cbn [app strip_prefix N.eqb Pos.eqb];
    rewrite <- !app_assoc; rewrite (app_assoc (field "schemaVersion" [50]) comma), strip_prefix_app;
    rewrite read_field_json, strip_prefix_app.
  - assert (NA : forall x y, read_field "artifactType" (field "config" x ++ y) = None) by reflexivity.
    rewrite NA. now apply read_config_head_json.
  - rewrite read_field_json, strip_prefix_app. now apply read_config_head_json.
Qed.
