(* Lemmas about the elaboration of traces recorded with nil callbacks (Model/CopyFaultOpt.v): the
   elaborated trace is a run of Model/CopyFault.v, it contains a fault iff the recorded one does, and
   erasing the invocations of nil callbacks from it gives the recorded trace back -- so every theorem of
   Proofs/CopyFault.v speaks about runs with any subset of the callbacks set. *)
From Oras Require Import Base.Prelude Model.CopySpec Model.CopyTop Model.CopyOpt Model.CopyFault Model.CopyFaultOpt
  Proofs.CopySpec Proofs.CopyFault.
Local Open Scope nat_scope.

Section O.
Variable cs : cbset.
Variable g : graph.
Variable c : cfg.
Variable ext : bool.

Lemma frun_join tr1 : forall tr2 fs fs1 fs2, frun g c ext fs tr1 = Some fs1 -> frun g c ext fs1 tr2 = Some fs2 ->
  frun g c ext fs (tr1 ++ tr2) = Some fs2.
Proof.
  induction tr1 as [|e tr1 IH]; simpl; intros tr2 fs fs1 fs2 H1 H2.
  - injection H1 as <-. exact H2.
  - destruct (fstep g c ext fs e) as [fsx|]; [|discriminate]. eauto.
Qed.

Lemma fstep_opt_sound fs fe fs' full : fstep_opt cs g c ext fs fe = Some (fs', full) ->
  frun g c ext fs full = Some fs'.
Proof.
  unfold fstep_opt. destruct (fnil_cb cs fe); [discriminate|].
  destruct (frun g c ext fs (fpre_events cs fs fe ++ [fe])) as [fs2|] eqn:E1; [|discriminate].
  destruct (frun g c ext fs2 (fpost_events cs fs2 fe)) as [fs3|] eqn:E2; [|discriminate].
  intro H. injection H as <- <-.
  pose proof (frun_join _ _ _ _ _ E1 E2) as HJ. rewrite <- app_assoc in HJ. exact HJ.
Qed.

Lemma frun_opt_sound tr : forall fs fs' full, frun_opt cs g c ext fs tr = Some (fs', full) ->
  frun g c ext fs full = Some fs'.
Proof.
  induction tr as [|fe tr IH]; simpl; intros fs fs' full H.
  - injection H as <- <-. reflexivity.
  - destruct (fstep_opt cs g c ext fs fe) as [[fs1 full1]|] eqn:E1; [|discriminate].
    destruct (frun_opt cs g c ext fs1 tr) as [[fs2 full2]|] eqn:E2; [|discriminate].
    injection H as <- <-. eapply frun_join; [eapply fstep_opt_sound; eauto | eapply IH; eauto].
Qed.

(* inserted events are successful callback invocations: never faults *)
Lemma pre_events_nofault st e : existsb is_fault (map Ev (pre_events cs st e)) = false.
Proof. unfold pre_events. destruct e; simpl; try reflexivity; destruct (negb (cs CPre) && awaits_pre (ph st n)); reflexivity. Qed.

Lemma post_events_nofault st e : existsb is_fault (map Ev (post_events cs st e)) = false.
Proof.
  unfold post_events. destruct (ev_node e); [|reflexivity].
  destruct (ph st n); try reflexivity;
  match goal with |- context [if ?b then _ else _] => destruct b end; reflexivity.
Qed.

Lemma fstep_opt_faults fs fe fs' full : fstep_opt cs g c ext fs fe = Some (fs', full) ->
  existsb is_fault full = is_fault fe.
Proof.
  unfold fstep_opt. destruct (fnil_cb cs fe); [discriminate|].
  destruct (frun g c ext fs (fpre_events cs fs fe ++ [fe])) as [fs2|]; [|discriminate].
  destruct (frun g c ext fs2 (fpost_events cs fs2 fe)) as [fs3|]; [|discriminate].
  intro H. injection H as _ <-.
  assert (H1 : existsb is_fault (fpre_events cs fs fe) = false).
  { unfold fpre_events. destruct fe; try reflexivity. apply pre_events_nofault. }
  assert (H2 : existsb is_fault (fpost_events cs fs2 fe) = false).
  { unfold fpost_events. destruct fe; try reflexivity. destruct (returned (fb fs2)); [reflexivity|]. apply post_events_nofault. }
  rewrite existsb_app, H1. cbn [app existsb orb]. rewrite H2. apply orb_false_r.
Qed.

Lemma frun_opt_faults tr : forall fs fs' full, frun_opt cs g c ext fs tr = Some (fs', full) ->
  existsb is_fault full = existsb is_fault tr.
Proof.
  induction tr as [|fe tr IH]; simpl; intros fs fs' full H.
  - injection H as _ <-. reflexivity.
  - destruct (fstep_opt cs g c ext fs fe) as [[fs1 full1]|] eqn:E1; [|discriminate].
    destruct (frun_opt cs g c ext fs1 tr) as [[fs2 full2]|] eqn:E2; [|discriminate].
    injection H as _ <-. rewrite existsb_app, (fstep_opt_faults _ _ _ _ E1), (IH _ _ _ E2). reflexivity.
Qed.

(* erasing the invocations of nil callbacks from the elaborated trace gives the recorded trace *)
Lemma erase_pre st e : ferase cs (map Ev (pre_events cs st e)) = [].
Proof.
  unfold pre_events. destruct e; simpl; try reflexivity;
  destruct (cs CPre) eqn:Hc; simpl; try reflexivity; destruct (awaits_pre (ph st n)); simpl; rewrite ?Hc; reflexivity.
Qed.

Lemma erase_post st e : ferase cs (map Ev (post_events cs st e)) = [].
Proof.
  unfold post_events. destruct (ev_node e); [|reflexivity].
  destruct (ph st n); try reflexivity;
  match goal with |- context [if cs ?k then _ else _] => destruct (cs k) eqn:Hc end; simpl; rewrite ?Hc; reflexivity.
Qed.

Lemma ferase_app a b : ferase cs (a ++ b) = ferase cs a ++ ferase cs b.
Proof. unfold ferase. apply filter_app. Qed.

Lemma fstep_opt_erase fs fe fs' full : fstep_opt cs g c ext fs fe = Some (fs', full) -> ferase cs full = [fe].
Proof.
  unfold fstep_opt. destruct (fnil_cb cs fe) eqn:Hn; [discriminate|].
  destruct (frun g c ext fs (fpre_events cs fs fe ++ [fe])) as [fs2|]; [|discriminate].
  destruct (frun g c ext fs2 (fpost_events cs fs2 fe)) as [fs3|]; [|discriminate].
  intro H. injection H as _ <-.
  assert (H1 : ferase cs (fpre_events cs fs fe) = []).
  { unfold fpre_events. destruct fe; try reflexivity. apply erase_pre. }
  assert (H2 : ferase cs (fpost_events cs fs2 fe) = []).
  { unfold fpost_events. destruct fe; try reflexivity. destruct (returned (fb fs2)); [reflexivity|]. apply erase_post. }
  rewrite ferase_app, H1. change ([fe] ++ fpost_events cs fs2 fe) with (fe :: fpost_events cs fs2 fe).
  unfold ferase at 1. cbn [filter app]. rewrite Hn. cbn [negb]. f_equal. exact H2.
Qed.

Lemma frun_opt_erase tr : forall fs fs' full, frun_opt cs g c ext fs tr = Some (fs', full) -> ferase cs full = tr.
Proof.
  induction tr as [|fe tr IH]; simpl; intros fs fs' full H.
  - injection H as _ <-. reflexivity.
  - destruct (fstep_opt cs g c ext fs fe) as [[fs1 full1]|] eqn:E1; [|discriminate].
    destruct (frun_opt cs g c ext fs1 tr) as [[fs2 full2]|] eqn:E2; [|discriminate].
    injection H as _ <-. rewrite ferase_app, (fstep_opt_erase _ _ _ _ E1), (IH _ _ _ E2). reflexivity.
Qed.

(* ---- the C02 statements for runs with any subset of the callbacks set ---- *)

Variable d0 : list node.

Lemma fopt_elaborates tr fs full : faccepts_opt cs g c ext d0 tr = Some (fs, full) ->
  faccepts g c ext d0 full = Some fs /\ ferase cs full = tr /\ existsb is_fault full = existsb is_fault tr.
Proof.
  intro H. unfold faccepts_opt in H. split; [|split].
  - unfold faccepts. eapply frun_opt_sound; eauto.
  - eapply frun_opt_erase; eauto.
  - eapply frun_opt_faults; eauto.
Qed.

Lemma fopt_closed_always tr fs full :
  ext_ok g c ext d0 -> closed_nodes g d0 -> faccepts_opt cs g c ext d0 tr = Some (fs, full) ->
  closed_nodes g (dst (fb fs)).
Proof.
  intros Hx Hc H. destruct (fopt_elaborates _ _ _ H) as [Ha _]. eapply fclosed_always; eauto.
Qed.

Lemma fopt_fault_surfaces tr fs full :
  ext_ok g c ext d0 -> faccepts_opt cs g c ext d0 tr = Some (fs, full) -> existsb is_fault tr = true ->
  returned (fb fs) <> Some true.
Proof.
  intros Hx H Hf. destruct (fopt_elaborates _ _ _ H) as [Ha [_ He]]. apply (ffault_surfaces g c ext d0 full fs Hx Ha). congruence.
Qed.

Lemma fopt_nofault_no_error tr fs full :
  faccepts_opt cs g c ext d0 tr = Some (fs, full) -> existsb is_fault tr = false ->
  tainted g fs = false /\ returned (fb fs) <> Some false.
Proof.
  intros H Hf. destruct (fopt_elaborates _ _ _ H) as [Ha [_ He]]. apply (fnofault_no_error g c ext d0 full fs Ha). congruence.
Qed.

Lemma fopt_success_complete tr fs full :
  ext_ok g c ext d0 -> closed_nodes g d0 -> mt_consistent g ->
  faccepts_opt cs g c ext d0 tr = Some (fs, full) -> returned (fb fs) = Some true ->
  forall r n, is_call_root g c ext r -> reach g r n -> has g (dst (fb fs)) n = true.
Proof.
  intros Hx Hc Hmt H Hr. destruct (fopt_elaborates _ _ _ H) as [Ha _]. eapply fclosure; eauto.
Qed.

End O.

(* witness: g_sh copied with only PreCopy set (PostCopy, OnCopySkipped nil); the push of C = 0 fails after
   storing; the recorded trace has no CB.post / CB.skip events, the elaboration inserts them *)
Definition cs_pre_only : cbset := fun k => match k with CPre => true | _ => false end.
Definition tr_sh_opt : list fevent :=
  [Ev (ExB 4); Ev (ExE 4 false); Ev (SFB 4); Ev (SFE 4); Ev (SFC 4);
   Ev (ExB 2); Ev (ExB 3); Ev (ExE 2 false); Ev (ExE 3 false);
   Ev (SFB 2); Ev (SFE 2); Ev (SFC 2); Ev (SFB 3); Ev (SFE 3); Ev (SFC 3);
   Ev (ExB 0); Ev (ExB 1); Ev (ExE 0 false); Ev (ExE 1 false);
   Ev (Cb CPre 0); Ev (SFB 0); Ev (SFE 0); Ev (PuB 0 false);
   Ev (Cb CPre 1); Ev (SFB 1);
   PuX 0 false true; Ev (SFC 0);
   Ev (SFE 1); Ev (PuB 1 false); Ev (PuE 1 false POk); Ev (SFC 1);
   Ev (Ret false)].

Lemma example_opt_run :
  exists fs full, faccepts_opt cs_pre_only g_sh c_sh false [] tr_sh_opt = Some (fs, full) /\
    returned (fb fs) = Some false /\ ph (fb fs) 1 = Done /\ In (Ev (Cb CPost 1)) full /\
    length full = S (length tr_sh_opt).
Proof.
  eexists. eexists. split; [vm_compute; reflexivity|].
  split; [reflexivity|]. split; [reflexivity|]. split; [|reflexivity].
  simpl. do 31 right. left. reflexivity.
Qed.
