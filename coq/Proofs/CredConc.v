(* C18 -- every concurrent execution of Get/Put/Delete callers on one store is
   equal to a sequential order of the operations (Model/CredConc.v). *)
From Coq Require Import Lia.
From Oras Require Import Base.Prelude Generated.GC18 Model.CredFile Model.CredConc Proofs.CredFile.

Section ConcProofs.
  Variable enc : str -> str.
  Variable dec : str -> option str.

  Notation step := (step enc dec).
  Notation run := (run enc dec).
  Notation cstep := (cstep enc dec).
  Notation creach := (creach enc dec).
  Notation cache_update := (cache_update enc).
  Notation seq_results := (seq_results enc dec).

  Lemma upd_same ts i t : upd ts i t i = t.
  Proof. unfold upd. now rewrite Nat.eqb_refl. Qed.

  Lemma upd_other ts i j t : j <> i -> upd ts i t j = ts j.
  Proof. intro N. unfold upd. destruct (Nat.eqb_spec j i); [contradiction|reflexivity]. Qed.

  (* ----- the two half steps of a writer compose to the atomic step ----- *)
  Lemma writer_step st o :
    writer_op o ->
    snd (step st o) = ROk /\
    fst (step st o) = (if needs_save (st_mem st) o then save (cache_update (st_mem st) o) else st) /\
    (needs_save (st_mem st) o = false -> cache_update (st_mem st) o = st_mem st).
  Proof.
    destruct o as [a|a c|a|s']; simpl; intro W; [| | |repeat split; discriminate].
    - contradiction.
    - rewrite W. simpl. repeat split. discriminate.
    - destruct (lookup a (m_cache (st_mem st))); simpl; repeat split. discriminate.
  Qed.

  Lemma run_snoc h : forall st o, run st (h ++ [o]) = fst (step (run st h) o).
  Proof. induction h as [|x h IH]; intros st o; simpl; [reflexivity|apply IH]. Qed.

  Lemma seq_results_snoc h : forall st o,
    seq_results st (h ++ [o]) = seq_results st h ++ [snd (step (run st h) o)].
  Proof. induction h as [|x h IH]; intros st o; simpl; [reflexivity|]. now rewrite IH. Qed.

  (* ----- the abstraction: the store once a half-done write is completed ----- *)
  Definition abs (g : gstate) : state :=
    match g_writer g with
    | Some i => match t_pc (g_threads g i) with
                | WCached _ true => save (st_mem (g_store g))
                | _ => g_store g
                end
    | None => g_store g
    end.

  (* ----- lock discipline ----- *)
  Definition lock_inv (g : gstate) : Prop :=
    (forall i, in_write_cs (t_pc (g_threads g i)) <-> g_writer g = Some i) /\
    (forall j, in_read_cs (t_pc (g_threads g j)) -> g_writer g = None) /\
    (forall i o, t_pc (g_threads g i) = WLocked o -> writer_op o).

  Lemma lock_initial g : initial g -> lock_inv g.
  Proof.
    intros (W & T). repeat split.
    - intro H. destruct (T i) as [P _]. rewrite P in H. contradiction.
    - intro H. rewrite W in H. discriminate.
    - intros j H. destruct (T j) as [P _]. rewrite P in H. contradiction.
    - intros i o H. destruct (T i) as [P _]. rewrite P in H. discriminate.
  Qed.

  Ltac thread_cases j i :=
    let E := fresh "E" in let NE := fresh "NE" in
    destruct (Nat.eq_dec j i) as [E|NE];
    [subst j; rewrite ?upd_same in *|rewrite ?(upd_other _ _ _ _ NE) in *].

  Lemma lock_step g l g' : lock_inv g -> cstep g l g' -> lock_inv g'.
  Proof.
    intros (LW & LR & LO) S.
    inversion S; subst; clear S; unfold with_thread, lock_inv; cbn [g_store g_writer g_threads];
      (split; [intro k; split|split; [intro k|intros k o']]).
    (* acq_r *)
    - thread_cases k i; cbn [t_pc]; [contradiction|now apply LW].
    - thread_cases k i; cbn [t_pc]; [congruence|now apply LW].
    - intros _. assumption.
    - thread_cases k i; cbn [t_pc]; [discriminate|apply LO].
    (* read *)
    - thread_cases k i; cbn [t_pc]; [contradiction|now apply LW].
    - assert (WN : g_writer g = None) by (apply (LR i); rewrite H; exact I).
      thread_cases k i; cbn [t_pc]; [congruence|now apply LW].
    - intros _. apply (LR i); rewrite H; exact I.
    - thread_cases k i; cbn [t_pc]; [discriminate|apply LO].
    (* rel_r *)
    - thread_cases k i; cbn [t_pc]; [contradiction|now apply LW].
    - assert (WN : g_writer g = None) by (apply (LR i); rewrite H; exact I).
      thread_cases k i; cbn [t_pc]; [congruence|now apply LW].
    - intros _. apply (LR i); rewrite H; exact I.
    - thread_cases k i; cbn [t_pc]; [discriminate|apply LO].
    (* refuse *)
    - thread_cases k i; cbn [t_pc]; [contradiction|now apply LW].
    - thread_cases k i; cbn [t_pc]; [|now apply LW].
      intro E. apply LW in E. rewrite H in E. contradiction.
    - thread_cases k i; cbn [t_pc]; [contradiction|apply LR].
    - thread_cases k i; cbn [t_pc]; [discriminate|apply LO].
    (* acq_w *)
    - thread_cases k i; cbn [t_pc]; [reflexivity|].
      intro E. apply LW in E. congruence.
    - thread_cases k i; cbn [t_pc]; [intros _; exact I|].
      intro E. injection E as E. congruence.
    - thread_cases k i; cbn [t_pc]; [contradiction|].
      intro E. elim (H3 k E).
    - thread_cases k i; cbn [t_pc]; [|apply LO].
      intro E. injection E as <-. assumption.
    (* wcache *)
    - assert (WI : g_writer g = Some i) by (apply LW; rewrite H; exact I).
      thread_cases k i; cbn [t_pc]; [intros _; exact WI|now apply LW].
    - thread_cases k i; cbn [t_pc]; [intros _; exact I|now apply LW].
    - thread_cases k i; cbn [t_pc]; [contradiction|apply LR].
    - thread_cases k i; cbn [t_pc]; [discriminate|apply LO].
    (* wfile *)
    - assert (WI : g_writer g = Some i) by (apply LW; rewrite H; exact I).
      thread_cases k i; cbn [t_pc]; [intros _; exact WI|now apply LW].
    - thread_cases k i; cbn [t_pc]; [intros _; exact I|now apply LW].
    - thread_cases k i; cbn [t_pc]; [contradiction|apply LR].
    - thread_cases k i; cbn [t_pc]; [discriminate|apply LO].
    (* rel_w *)
    - assert (WI : g_writer g = Some i) by (apply LW; rewrite H; exact I).
      thread_cases k i; cbn [t_pc]; [contradiction|].
      intro E. apply LW in E. congruence.
    - discriminate.
    - assert (WI : g_writer g = Some i) by (apply LW; rewrite H; exact I).
      thread_cases k i; cbn [t_pc]; [contradiction|].
      intro E. apply LR in E. congruence.
    - thread_cases k i; cbn [t_pc]; [discriminate|apply LO].
  Qed.

  Lemma lock_reach g0 g lin : initial g0 -> creach g0 g lin -> lock_inv g.
  Proof.
    intros I R. induction R; [now apply lock_initial|]. eapply lock_step; eauto.
  Qed.

  (* ----- linearisation: the abstraction follows the sequential run ----- *)
  Definition lin_inv (g0 g : gstate) (lin : list label) : Prop :=
    abs g = run (g_store g0) (map lab_op lin) /\
    map lab_res lin = seq_results (g_store g0) (map lab_op lin).

  Lemma abs_no_writer g : g_writer g = None -> abs g = g_store g.
  Proof. intro H. unfold abs. now rewrite H. Qed.

  Lemma lin_snoc g0 g g' lin i o r :
    lin_inv g0 g lin ->
    step (abs g) o = (abs g', r) ->
    lin_inv g0 g' (lin ++ [(i, o, r)]).
  Proof.
    intros (A & B) E. unfold lin_inv. rewrite !map_app. cbn [map lab_op lab_res fst snd].
    rewrite run_snoc, seq_results_snoc, <- A, <- B, E. split; reflexivity.
  Qed.

  Lemma lin_same g0 g g' lin : lin_inv g0 g lin -> abs g' = abs g -> lin_inv g0 g' (lin ++ []).
  Proof. intros (A & B) E. rewrite app_nil_r. split; [now rewrite E|exact B]. Qed.

  Lemma lin_step g0 g l g' lin :
    lock_inv g -> lin_inv g0 g lin -> cstep g l g' ->
    lin_inv g0 g' (lin ++ match l with Some x => [x] | None => [] end).
  Proof.
    intros (LW & LR & LO) L S.
    inversion S; subst; clear S.
    - (* acq_r *)
      apply (lin_same g0 g); [exact L|].
      rewrite !abs_no_writer; [reflexivity|assumption|assumption].
    - (* read *)
      assert (WN : g_writer g = None) by (apply (LR i); rewrite H; exact I).
      apply (lin_snoc g0 g); [exact L|].
      rewrite !abs_no_writer by assumption. reflexivity.
    - (* rel_r *)
      assert (WN : g_writer g = None) by (apply (LR i); rewrite H; exact I).
      apply (lin_same g0 g); [exact L|].
      rewrite !abs_no_writer; [reflexivity|assumption|assumption].
    - (* refuse *)
      apply (lin_snoc g0 g); [exact L|].
      assert (E : abs (with_thread g i {| t_pc := Idle; t_todo := rest;
                                          t_done := (Put a c, RErrBadCred) :: t_done (g_threads g i) |}) = abs g).
      { unfold abs, with_thread. cbn [g_store g_writer g_threads].
        destruct (g_writer g) as [k|] eqn:W; [|reflexivity].
        assert (NE : k <> i).
        { intro X. subst k. pose proof (proj2 (LW i) eq_refl) as Y. rewrite H in Y. contradiction. }
        now rewrite (upd_other _ _ _ _ NE). }
      rewrite E. apply put_refused. assumption.
    - (* acq_w *)
      apply (lin_same g0 g); [exact L|].
      rewrite (abs_no_writer g) by assumption.
      unfold abs. cbn [g_store g_writer g_threads]. now rewrite upd_same.
    - (* wcache *)
      assert (WI : g_writer g = Some i) by (apply LW; rewrite H; exact I).
      apply (lin_snoc g0 g); [exact L|].
      assert (AG : abs g = g_store g).
      { unfold abs. now rewrite WI, H. }
      rewrite AG.
      destruct (writer_step (g_store g) o (LO i o H)) as (R & F & N).
      rewrite (surjective_pairing (step (g_store g) o)), R, F. f_equal.
      unfold abs. cbn [g_store g_writer g_threads]. rewrite WI, upd_same. cbn [t_pc st_mem].
      subst m. destruct (needs_save (st_mem (g_store g)) o) eqn:NS; [reflexivity|].
      rewrite (N eq_refl). now destruct (g_store g).
    - (* wfile *)
      assert (WI : g_writer g = Some i) by (apply LW; rewrite H; exact I).
      apply (lin_same g0 g); [exact L|].
      unfold abs. cbn [g_store g_writer g_threads]. rewrite WI, upd_same, H. cbn [t_pc].
      destruct sv; reflexivity.
    - (* rel_w *)
      assert (WI : g_writer g = Some i) by (apply LW; rewrite H; exact I).
      apply (lin_same g0 g); [exact L|].
      unfold abs. cbn [g_store g_writer g_threads]. now rewrite WI, H.
  Qed.

  (* ----- the file at EVERY reachable state (hence at a crash at any moment of a
     concurrent execution) is the file of a sequential prefix of the linearisation ----- *)
  Definition file_inv (g0 g : gstate) (lin : list label) : Prop :=
    exists n, (n <= length lin)%nat /\
              st_file (g_store g) = st_file (run (g_store g0) (map lab_op (firstn n lin))).

  Lemma firstn_app_le {A} (l l' : list A) n : (n <= length l)%nat -> firstn n (l ++ l') = firstn n l.
  Proof.
    intro H. rewrite firstn_app. replace (n - length l)%nat with 0%nat by lia.
    cbn [firstn]. now rewrite app_nil_r.
  Qed.

  Lemma file_keep g0 g g' lin x :
    file_inv g0 g lin -> st_file (g_store g') = st_file (g_store g) -> file_inv g0 g' (lin ++ x).
  Proof.
    intros (n & LE & F) E. exists n. split; [rewrite app_length; lia|].
    rewrite E, F. now rewrite firstn_app_le.
  Qed.

  Lemma file_step g0 g l g' lin :
    lock_inv g -> lin_inv g0 g lin -> file_inv g0 g lin -> cstep g l g' ->
    file_inv g0 g' (lin ++ match l with Some x => [x] | None => [] end).
  Proof.
    intros (LW & LR & LO) (A & _) FI S.
    inversion S; subst; clear S; try (apply (file_keep g0 g); [exact FI|reflexivity]).
    (* wfile *)
    destruct sv; [|apply (file_keep g0 g); [exact FI|reflexivity]].
    assert (WI : g_writer g = Some i) by (apply LW; rewrite H; exact I).
    exists (length lin). rewrite app_nil_r. split; [lia|].
    rewrite firstn_all, <- A. unfold abs. rewrite WI, H. reflexivity.
  Qed.

  Lemma file_always_sequential g0 g lin :
    initial g0 -> creach g0 g lin ->
    exists n, (n <= length lin)%nat /\
              st_file (g_store g) = st_file (run (g_store g0) (map lab_op (firstn n lin))).
  Proof.
    intros I R.
    assert (INV : lock_inv g /\ lin_inv g0 g lin /\ file_inv g0 g lin).
    { induction R.
      - split; [now apply lock_initial|]. split.
        + split; [|reflexivity]. apply abs_no_writer. apply I.
        + exists 0%nat. split; [apply Nat.le_refl|reflexivity].
      - destruct IHR as (LI & LN & FI). split; [eapply lock_step; eauto|].
        split; [now apply (lin_step g0 g)|now apply (file_step g0 g)]. }
    exact (proj2 (proj2 INV)).
  Qed.

  (* ----- per-thread bookkeeping: program order and returned results ----- *)
  Definition pending (p : pc) : list (op * result) :=
    match p with
    | RDone a r => [(Get a, r)]
    | WCached o _ | WDone o => [(o, ROk)]
    | _ => []
    end.
  Definition inflight (p : pc) : list op :=
    match p with
    | Idle => []
    | RLocked a | RDone a _ => [Get a]
    | WLocked o | WCached o _ | WDone o => [o]
    end.

  Definition prog_inv (g0 g : gstate) (lin : list label) : Prop :=
    forall i,
      of_thread i lin = rev (t_done (g_threads g i)) ++ pending (t_pc (g_threads g i)) /\
      map fst (rev (t_done (g_threads g i))) ++ inflight (t_pc (g_threads g i)) ++ t_todo (g_threads g i)
      = t_todo (g_threads g0 i).

  Lemma of_thread_snoc_same i lin o r :
    of_thread i (lin ++ [(i, o, r)]) = of_thread i lin ++ [(o, r)].
  Proof.
    unfold of_thread. rewrite filter_app, map_app. cbn [filter lab_thread fst].
    rewrite Nat.eqb_refl. reflexivity.
  Qed.

  Lemma of_thread_snoc_other i j lin o r :
    j <> i -> of_thread j (lin ++ [(i, o, r)]) = of_thread j lin.
  Proof.
    intro N. unfold of_thread. rewrite filter_app, map_app. cbn [filter lab_thread fst].
    destruct (Nat.eqb_spec i j); [congruence|]. cbn [map]. now rewrite app_nil_r.
  Qed.

  Lemma prog_initial g0 : initial g0 -> prog_inv g0 g0 [].
  Proof.
    intros (_ & T) i. destruct (T i) as [P D]. rewrite P, D. split; reflexivity.
  Qed.

  Lemma prog_step g0 g l g' lin :
    prog_inv g0 g lin -> cstep g l g' ->
    prog_inv g0 g' (lin ++ match l with Some x => [x] | None => [] end).
  Proof.
    intros P S.
    inversion S; subst; clear S; intro k; destruct (P k) as [PK1 PK2];
      unfold with_thread; cbn [g_store g_writer g_threads].
    - (* acq_r *)
      rewrite app_nil_r. thread_cases k i; [|split; assumption].
      cbn [t_pc t_done t_todo pending inflight]. rewrite H, H0 in *. cbn [pending inflight] in *.
      split; assumption.
    - (* read *)
      thread_cases k i.
      + rewrite of_thread_snoc_same. cbn [t_pc t_done t_todo pending inflight].
        rewrite H in *. cbn [pending inflight] in *. rewrite app_nil_r in PK1. rewrite PK1. split; [reflexivity|assumption].
      + rewrite of_thread_snoc_other by assumption. split; assumption.
    - (* rel_r *)
      rewrite app_nil_r. thread_cases k i; [|split; assumption].
      cbn [t_pc t_done t_todo pending inflight]. rewrite H in *. cbn [pending inflight rev] in *.
      rewrite app_nil_r. split; [assumption|].
      rewrite map_app. cbn [map fst]. rewrite <- app_assoc. exact PK2.
    - (* refuse *)
      thread_cases k i.
      + rewrite of_thread_snoc_same. cbn [t_pc t_done t_todo pending inflight].
        rewrite H, H0 in *. cbn [pending inflight rev] in *. rewrite app_nil_r in *.
        rewrite PK1. split; [reflexivity|].
        rewrite map_app. cbn [map fst]. rewrite <- app_assoc. exact PK2.
      + rewrite of_thread_snoc_other by assumption. split; assumption.
    - (* acq_w *)
      rewrite app_nil_r. thread_cases k i; [|split; assumption].
      cbn [t_pc t_done t_todo pending inflight]. rewrite H, H0 in *. cbn [pending inflight] in *.
      split; assumption.
    - (* wcache *)
      thread_cases k i.
      + rewrite of_thread_snoc_same. cbn [t_pc t_done t_todo pending inflight].
        rewrite H in *. cbn [pending inflight] in *. rewrite app_nil_r in PK1. rewrite PK1. split; [reflexivity|assumption].
      + rewrite of_thread_snoc_other by assumption. split; assumption.
    - (* wfile *)
      rewrite app_nil_r. thread_cases k i; [|split; assumption].
      cbn [t_pc t_done t_todo pending inflight]. rewrite H in *. cbn [pending inflight] in *.
      split; assumption.
    - (* rel_w *)
      rewrite app_nil_r. thread_cases k i; [|split; assumption].
      cbn [t_pc t_done t_todo pending inflight]. rewrite H in *. cbn [pending inflight rev] in *.
      rewrite app_nil_r. split; [assumption|].
      rewrite map_app. cbn [map fst]. rewrite <- app_assoc. exact PK2.
  Qed.

  (* ----- C18_serialisable ----- *)
  Lemma serialisable g0 g lin :
    initial g0 -> creach g0 g lin -> quiescent g ->
    (* the store (memory and file) is the one the sequential order produces *)
    g_store g = run (g_store g0) (map lab_op lin) /\
    (* every operation returned what it returns in that order *)
    map lab_res lin = seq_results (g_store g0) (map lab_op lin) /\
    (* the order contains exactly each caller's program, in program order, with
       the results that caller received *)
    (forall i, of_thread i lin = rev (t_done (g_threads g i)) /\
               map fst (rev (t_done (g_threads g i))) = t_todo (g_threads g0 i)).
  Proof.
    intros I R Q.
    assert (INV : lock_inv g /\ lin_inv g0 g lin /\ prog_inv g0 g lin).
    { clear Q. induction R.
      - split; [now apply lock_initial|]. split; [|now apply prog_initial].
        split; [|reflexivity]. apply abs_no_writer. apply I.
      - destruct IHR as (LI & LN & PR). split; [eapply lock_step; eauto|].
        split; [now apply (lin_step g0 g)|now apply (prog_step g0 g)]. }
    destruct INV as (_ & (A & B) & P).
    split; [|split; [exact B|]].
    - rewrite <- A. unfold abs. destruct (g_writer g) as [k|]; [|reflexivity].
      destruct (Q k) as [PK _]. now rewrite PK.
    - intro i. destruct (P i) as [P1 P2]. destruct (Q i) as [QP QT].
      rewrite QP, QT in *. cbn [pending inflight] in *. rewrite !app_nil_r in *. split; assumption.
  Qed.
End ConcProofs.
