(* C14 — InvS preserved by EDone, EComplete *)
From Oras Require Import Base.Prelude Model.Referrers Proofs.Referrers Model.Merge Proofs.MergeBase.
From Coq Require Import Lia.

Lemma remove_facts (hs : list nat) t : NoDup hs -> In t hs ->
  NoDup (remove Nat.eq_dec t hs) /\
  (forall x, In x (remove Nat.eq_dec t hs) <-> In x hs /\ x <> t) /\
  S (length (remove Nat.eq_dec t hs)) = length hs.
Proof.
  induction hs as [|h l IH]; intros Hnd Hin; [destruct Hin|].
  inversion Hnd as [|? ? Hn Hd]; subst. simpl.
  destruct (Nat.eq_dec t h) as [->|Hne].
  - assert (E : remove Nat.eq_dec h l = l) by (apply notin_remove; auto).
    rewrite E. split; [auto|split; [|reflexivity]].
    intro x. split.
    + intro Hx. split; [now right|]. intro; subst. auto.
    + intros [[Hx|Hx] Hy]; congruence.
  - destruct Hin as [Hin|Hin]; [congruence|].
    destruct (IH Hd Hin) as (A & B & C). split; [|split].
    + constructor; auto. intro Hx. apply B in Hx. tauto.
    + intro x. split.
      * intros [Hx|Hx]; [subst; split; [now left|congruence]|]. apply B in Hx. split; [now right|tauto].
      * intros [[Hx|Hx] Hy]; [now left|right; apply B; auto].
    + simpl. lia.
Qed.

Lemma stepS_done sg s t s' : InvS s -> step sg s (EDone t) = Some s' -> InvS s'.
Proof.
  intros I H. simpl in H.
  destruct (pcs s t) as [|c0| | |o|nw o|oi ap|r|r|r] eqn:Hpc; try discriminate.
  destruct (pool s) as [rc|] eqn:Hpool; try discriminate. injection H as <-.
  assert (Hnb : ~ In t (batch s)) by (apply not_in_batch; auto; rewrite Hpc; [discriminate|reflexivity]).
  assert (Hnp : ~ In t (map fst (pending s))) by (apply not_in_pending; auto; rewrite Hpc; discriminate).
  assert (Hne_items : forall t0 c0, In (t0, c0) (items s) -> t0 <> t) by (intros t0 c0 Hin ->; eauto using in_fst).
  assert (Hne_pend : forall t0 c0, In (t0, c0) (pending s) -> t0 <> t) by (intros t0 c0 Hin ->; eauto using in_fst).
  dS I. constructor; simpl.
  all: try solve [solveS t | tomS].
  all: try solve [intros t0 c0 Hin; rewrite !upd_neq by eauto; auto].
  all: try solve [intros t0 Hx; tcase t0 t; [discriminate|auto]].
  destruct i_pool0 as (hs & Hnd & Hin & Hp). rewrite Hpool in Hp. destruct Hp as [-> Hne0].
  assert (Ht : In t hs) by (apply Hin; rewrite Hpc; reflexivity).
  destruct (remove_facts hs t Hnd Ht) as (A & B & C).
  exists (remove Nat.eq_dec t hs). repeat split; auto.
  - intro Hx. apply B in Hx as [Hx Hy]. rewrite upd_neq by auto. now apply Hin.
  - intro Hx. tcase t0 t; [discriminate|]. apply B. split; auto. now apply Hin.
  - destruct (Nat.leb (length hs - 1) 0) eqn:El.
    + apply Nat.leb_le in El. destruct (remove Nat.eq_dec t hs) eqn:Er; [reflexivity|]. exfalso. rewrite ?Er in C. simpl in C. unfold tid in *. lia.
    + apply Nat.leb_gt in El. unfold tid in *. split; [lia|]. intro E. rewrite E in C. simpl in C. lia.
Qed.

Lemma batch_member s t : InvS s -> In t (batch s) -> pcs s t = Wait \/ is_main (pcs s t) = true.
Proof.
  intros I Hin. unfold batch in Hin. apply in_map_iff in Hin as ((t', c) & E & Hin). simpl in E. subst t'.
  now destruct (i_items s I t c Hin).
Qed.

Definition complete_pcs (s : state) (t : tid) (r : result) : tid -> pc :=
  fun x => if Nat.eqb x t then Ret r else if mem x (batch s) then Ret r else pcs s x.

Lemma complete_pcs_cases s t r x :
  ((x = t \/ In x (batch s)) /\ complete_pcs s t r x = Ret r) \/
  (x <> t /\ ~ In x (batch s) /\ complete_pcs s t r x = pcs s x).
Proof.
  unfold complete_pcs. destruct (Nat.eqb_spec x t) as [->|Hne]; [left; auto|].
  destruct (mem x (batch s)) eqn:E.
  - apply mem_In in E. left; auto.
  - apply mem_false in E. right; auto.
Qed.

Lemma stepS_complete sg s t s' : InvS s -> step sg s (EComplete t) = Some s' -> InvS s'.
Proof.
  intros I H. simpl in H.
  destruct (pcs s t) as [|c0| | |o|nw o|oi ap|r|r|r] eqn:Hpc; try discriminate. injection H as <-.
  fold (complete_pcs s t r).
  assert (Hm : is_main (pcs s t) = true) by (rewrite Hpc; reflexivity).
  destruct (i_main_in s I t Hm) as [Htb Htok].
  assert (Hnomain : forall x, is_main (complete_pcs s t r x) = false).
  { intro x. destruct (complete_pcs_cases s t r x) as [[_ E]|(A & B & E)]; rewrite E; [reflexivity|].
    destruct (is_main (pcs s x)) eqn:Em; auto. destruct (i_main_in s I x Em). tauto. }
  constructor; simpl.
  - intros t0 c0 Hin. destruct (i_pend s I t0 c0 Hin) as (A & B & C). split; auto.
    destruct (complete_pcs_cases s t r t0) as [[[E|E] _]|(_ & _ & E)]; [subst; tauto|tauto|]. rewrite E. auto.
  - apply (i_pend_nd s I).
  - intros t0 c0 [].
  - constructor.
  - intros t0 Hx. rewrite Hnomain in Hx. discriminate.
  - intros t1 t2 Hx. rewrite Hnomain in Hx. discriminate.
  - intro Hx. split; auto. destruct (pending s); [discriminate|discriminate].
  - intro Hx. rewrite Hx. auto.
  - intros t0 Hx. apply post_commit_main in Hx. rewrite Hnomain in Hx. discriminate.
  - discriminate.
  - intros t0 c0 Hx. destruct (complete_pcs_cases s t r t0) as [[_ E]|(_ & _ & E)]; rewrite E in Hx; [discriminate|].
    eapply i_got; eauto.
  - intros x Hx. destruct (complete_pcs_cases s t r x) as [[_ E]|(A & B & E)]; rewrite E in Hx; [discriminate|].
    destruct (i_wait s I x Hx) as [Hw|Hw]; [tauto|]. left. exact Hw.
  - intro Hx. left. destruct (pending s); [congruence|reflexivity].
  - destruct (i_pool s I) as (hs & A & B & C). exists hs. repeat split; auto.
    + intro Hx. apply B in Hx. destruct (complete_pcs_cases s t r t0) as [[_ E]|(_ & _ & E)]; rewrite E; auto.
    + intro Hx. apply B. destruct (complete_pcs_cases s t r t0) as [[[E0|E0] E]|(_ & _ & E)].
      * subst. now apply main_holding.
      * destruct (batch_member s t0 I E0) as [E1|E1]; [now rewrite E1|now apply main_holding].
      * now rewrite <- E.
Qed.

