(* C16 -- the order of the observable effects in the Go source on which the models
   rely, re-read from cache.go / client.go on every run (translator kind callseq).
   Only ORDER RELATIONS are stated (not the exact call lists), so that a refactoring
   that keeps the order of the effects keeps the lemmas. *)
From Oras Require Import Base.Prelude Generated.GC16.

(* x occurs, and no y occurs before the first x *)
Fixpoint all_after (y x : str) (l : list str) : bool :=
  match l with
  | [] => false
  | z :: l' => if str_eqb z x then true else if str_eqb z y then false else all_after y x l'
  end.

(* once x has occurred, y does not occur any more *)
Fixpoint none_after (x y : str) (l : list str) : bool :=
  match l with
  | [] => true
  | z :: l' => if str_eqb z x then negb (existsb (str_eqb y) l') && none_after x y l' else none_after x y l'
  end.

(* every x is immediately followed by y *)
Fixpoint next_is (x y : str) (l : list str) : bool :=
  match l with
  | [] => true
  | z :: l' =>
    (if str_eqb z x then match l' with w :: _ => str_eqb w y | [] => false end else true) && next_is x y l'
  end.

(* every x is followed, somewhere later, by a y *)
Fixpoint eventually (x y : str) (l : list str) : bool :=
  match l with
  | [] => true
  | z :: l' => (if str_eqb z x then existsb (str_eqb y) l' else true) && eventually x y l'
  end.

(* concurrentCache.Set: the in-flight entry is taken before Once.Do, the fetch runs under
   it, the entry is deleted only afterwards (Model/CacheSet.v: CLoad, COnce, CDelete) *)
Lemma cc_set_order :
  all_after (b "fetchOnce.Do") (b "cc.status.LoadOrStore") calls_cc_set = true /\
  all_after (b "fetch") (b "fetchOnce.Do") calls_cc_set = true /\
  all_after (b "cc.status.Delete") (b "fetchOnce.Do") calls_cc_set = true.
Proof. vm_compute. auto. Qed.

(* concurrentCache.store: the token is written after the entry was looked up / replaced
   (the intermediate state of C16_store_intermediate_state) *)
Lemma cc_store_order :
  all_after (b "entry.tokens.Store") (b "cc.cache.LoadOrStore") calls_cc_store = true /\
  none_after (b "entry.tokens.Store") (b "cc.cache.Store") calls_cc_store = true.
Proof. vm_compute. auto. Qed.

(* single-context cache: scoped Set first, host-only copy second; the host-only copy
   stores what its (constant) fetch returned *)
Lemma fallback_set_order :
  all_after (b "fc.secondary.Set") (b "fc.primary.Set") calls_fallback_set = true /\
  none_after (b "fc.secondary.Set") (b "fc.primary.Set") calls_fallback_set = true /\
  all_after (b "cc.store") (b "fetch") calls_host_set = true.
Proof. vm_compute. auto. Qed.

(* Client.Do: the scheme is read before any token; a token is looked up before anything
   is stored; every Set is followed by the rewind of the body and then a send
   (do_request: store, then rewind check, then the final send) *)
Lemma do_order :
  all_after (b "cache.GetToken") (b "cache.GetScheme") calls_do = true /\
  all_after (b "cache.Set") (b "cache.GetToken") calls_do = true /\
  eventually (b "cache.Set") (b "rewindRequestBody") calls_do = true /\
  next_is (b "rewindRequestBody") (b "c.send") calls_do = true.
Proof. vm_compute. auto. Qed.
