(* C16 -- the order of the effects in the Go source on which the models rely,
   re-read from cache.go / client.go on every run (translator kind callseq).
   A reordering of the source changes the generated lists and breaks these lemmas. *)
From Oras Require Import Base.Prelude Generated.GC16.

(* concurrentCache.Set: take the in-flight entry, run the fetch under Once.Do, delete
   the entry afterwards (Model/CacheSet.v: CLoad, COnce, CDelete).  Only effects whose
   order is observable are pinned: where the token is stored relative to the Delete
   is not. *)
Lemma cc_set_order :
  calls_cc_set = [b "cc.status.LoadOrStore"; b "fetchOnce.Do"; b "fetch"; b "cc.status.Delete"].
Proof. vm_compute. reflexivity. Qed.

(* concurrentCache.store: entry lookup/replacement before the token is written (cc_store) *)
Lemma cc_store_order :
  calls_cc_store = [b "cc.cache.LoadOrStore"; b "cc.cache.Store"; b "entry.tokens.Store"].
Proof. vm_compute. reflexivity. Qed.

(* single-context cache: scoped store first, host-only copy second (cache_store FSingle);
   the host-only copy runs the constant fetch and stores without the in-flight map *)
Lemma fallback_set_order :
  calls_fallback_set = [b "fc.primary.Set"; b "fc.secondary.Set"] /\
  calls_host_set = [b "fetch"; b "cc.store"; b "c.Cache.Set"].
Proof. split; vm_compute; reflexivity. Qed.

(* Client.Do, the cache operations and the sends only (their order is what do_request
   fixes): pass-through send; GetScheme, the two first-attempt lookups, send; Basic: Set;
   Bearer: second lookup, rewind, send, Set; rewind; final send *)
Lemma do_order :
  calls_do = [b "c.send"; b "cache.GetScheme"; b "cache.GetToken"; b "cache.GetToken"; b "c.send";
              b "cache.Set"; b "cache.GetToken"; b "rewindRequestBody"; b "c.send"; b "cache.Set";
              b "rewindRequestBody"; b "c.send"].
Proof. vm_compute. reflexivity. Qed.
