(* C16 -- concurrentCache.Set under concurrency (Model/CacheSet.v): the token a
   call returns was fetched by a call with the same status key (registry, scheme,
   scope key), for every interleaving -- provided every call on that key runs a
   real fetch.  The single-context cache breaks the proviso for the empty scope
   key (known finding) and, before the fix, returned the result of such a call. *)
From Oras Require Import Base.Prelude Model.Challenge Model.Once Model.CacheSet Proofs.AuthClient.

Lemma skey_eqb_spec a c : skey_eqb a c = true <-> a = c.
Proof.
  destruct a as [[h1 s1] k1], c as [[h2 s2] k2]. unfold skey_eqb.
  rewrite !andb_true_iff, N.eqb_eq, scheme_eqb_spec, str_eqb_spec.
  split; [intros [[-> ->] ->]; reflexivity | intros [= -> -> ->]; auto].
Qed.

Lemma status_get_in m k i : status_get m k = Some i -> In (k, i) m.
Proof.
  induction m as [|[k' i'] m IH]; simpl; [discriminate|].
  destruct (skey_eqb k k') eqn:E.
  - apply skey_eqb_spec in E. subst. intros [= ->]. now left.
  - intro H. right. auto.
Qed.

Lemma status_del_in m k i x : In x (status_del m k i) -> In x m.
Proof.
  induction m as [|[k' i'] m IH]; simpl; auto.
  destruct (skey_eqb k k' && Nat.eqb i i'); simpl; intros H; [right; auto|].
  destruct H as [H|H]; auto.
Qed.

Section Inv.
Variable calls : N -> call.
Variable K : skey.
Hypothesis real : forall g, ck (calls g) = K -> csrc (calls g) = None.

Record inv (st : cstate) : Prop := {
  iA : forall k i, In (k, i) (status st) -> exists s, inst_get (insts st) i = Some (k, s);
  iB : forall g i, nget (loaded st) g = Some i -> exists s, inst_get (insts st) i = Some (ck (calls g), s);
  iC : forall i v, inst_get (insts st) i = Some (K, OClosed v) -> ck (calls v) = K;
  iD : forall g v, nget (results st) g = Some v -> ck (calls g) = K -> ck (calls v) = K;
  iE : forall i x, inst_get (insts st) i = Some x -> (i < next st)%nat;
}.

Lemma inv_init : inv cinit.
Proof. split; simpl; intros; try discriminate; tauto. Qed.

Lemma inv_step st e st' : inv st -> cstep calls st e = Some st' -> inv st'.
Proof.
  intros I St. destruct I as [A B C D E]. destruct e as [g|g e|g]; simpl in St.
  - (* CLoad *)
    destruct (nget (loaded st) g) eqn:L; [discriminate|].
    destruct (status_get (status st) (ck (calls g))) as [i|] eqn:S; injection St as <-.
    + split; simpl; auto. intros g' i' H. destruct (g' =? g) eqn:Eg; auto.
      apply N.eqb_eq in Eg. subst g'. injection H as <-. apply A. now apply status_get_in.
    + split; simpl.
      * intros k i [H|H].
        -- injection H as <- <-. rewrite Nat.eqb_refl. eauto.
        -- destruct (A _ _ H) as (s & Hs). destruct (Nat.eqb i (next st)) eqn:En; [|eauto].
           apply Nat.eqb_eq in En. subst. apply E in Hs. lia.
      * intros g' i' H. destruct (g' =? g) eqn:Eg.
        -- apply N.eqb_eq in Eg. subst g'. injection H as <-. rewrite Nat.eqb_refl. eauto.
        -- destruct (B _ _ H) as (s & Hs). destruct (Nat.eqb i' (next st)) eqn:En; [|eauto].
           apply Nat.eqb_eq in En. subst. apply E in Hs. lia.
      * intros i v H. destruct (Nat.eqb i (next st)); [discriminate | eauto].
      * auto.
      * intros i x H. destruct (Nat.eqb i (next st)) eqn:En.
        -- apply Nat.eqb_eq in En. lia.
        -- apply E in H. lia.
  - (* COnce *)
    destruct (negb (ev_goroutine e =? g)) eqn:Eg; [discriminate|].
    apply negb_false_iff, N.eqb_eq in Eg.
    destruct (nget (loaded st) g) as [i|] eqn:L; [|discriminate].
    destruct (inst_get (insts st) i) as [[k s]|] eqn:Ei; [|discriminate].
    destruct (B _ _ L) as (s0 & Hs0). rewrite Ei in Hs0. injection Hs0 as Hk _.
    match type of St with (if negb ?v then _ else _) = _ => destruct v eqn:V end; [|discriminate].
    simpl in St. destruct (ostep s e) as [s'|] eqn:O; [|discriminate]. injection St as <-.
    assert (Hclosed : forall v, k = K -> s' = OClosed v -> ck (calls v) = K).
    { intros v HK Hs'. assert (HgK : ck (calls g) = K) by congruence. subst s'.
      destruct s as [|g0|v0]; destruct e as [g1|g1 v1|g1|g1 v1|g1]; simpl in O; try discriminate;
        try (destruct (g0 =? g1); discriminate);
        try (destruct (g0 =? g1); [|discriminate]);
        try (destruct (v0 =? v1); [|discriminate]);
        injection O as O; try discriminate.
      - (* ODone *) subst v1. simpl in Eg. subst g1.
        rewrite (real g HgK) in V. apply N.eqb_eq in V. subst v. exact HgK.
      - subst v0. eapply C. rewrite Ei. congruence.
      - subst v0. eapply C. rewrite Ei. congruence. }
    split; simpl.
    + intros k' i' H. destruct (A _ _ H) as (s1 & Hs1).
      destruct (Nat.eqb i' i) eqn:En; [|eauto]. apply Nat.eqb_eq in En. subst i'.
      rewrite Ei in Hs1. injection Hs1 as <- _. eauto.
    + intros g' i' H. destruct (B _ _ H) as (s1 & Hs1).
      destruct (Nat.eqb i' i) eqn:En; [|eauto]. apply Nat.eqb_eq in En. subst i'.
      rewrite Ei in Hs1. injection Hs1 as <- _. eauto.
    + intros i' v H. destruct (Nat.eqb i' i) eqn:En; [|eauto].
      injection H as HK Hs. eapply Hclosed; eauto.
    + intros g' v H HK.
      destruct e as [g1|g1 v1|g1|g1 v1|g1]; simpl in H; eauto; simpl in Eg; subst g1.
      * destruct (g' =? g) eqn:Egg; [|eauto]. apply N.eqb_eq in Egg. subst g'. injection H as <-.
        destruct s as [|g0|v0]; simpl in O; try discriminate.
        destruct (g0 =? g); [|discriminate]. injection O as <-.
        apply (Hclosed v1); congruence.
      * destruct (g' =? g) eqn:Egg; [|eauto]. apply N.eqb_eq in Egg. subst g'. injection H as <-.
        destruct s as [|g0|v0]; simpl in O; try discriminate.
        destruct (v0 =? v1) eqn:Ev; [|discriminate]. injection O as <-.
        apply N.eqb_eq in Ev. subst v1. apply (C i). rewrite Ei. congruence.
    + intros i' x H. destruct (Nat.eqb i' i) eqn:En; [|eauto].
      apply Nat.eqb_eq in En. subst i'. eapply E; eauto.
  - (* CDelete *)
    destruct (nget (loaded st) g) as [i|]; [|discriminate]. injection St as <-.
    split; simpl; auto. intros k i' H. apply A. eapply status_del_in; eauto.
Qed.

Lemma inv_run tr : forall st st', inv st -> crun calls st tr = Some st' -> inv st'.
Proof.
  induction tr as [|e tr IH]; intros st st' I R; simpl in R.
  - now injection R as <-.
  - destruct (cstep calls st e) as [st1|] eqn:S; [|discriminate].
    eapply IH; [eapply inv_step; eauto | eauto].
Qed.

(* every value a call on key K returned was fetched by a call on key K *)
Lemma set_result_same_key tr st g v :
  crun calls cinit tr = Some st ->
  nget (results st) g = Some v -> ck (calls g) = K -> ck (calls v) = K.
Proof. intros R. apply (iD st (inv_run tr cinit st inv_init R)). Qed.
End Inv.

(* ---------- witnesses ---------- *)
Definition kx : skey := (0, SchBearer, b "repository:x:pull").
Definition ky : skey := (0, SchBearer, b "repository:y:pull").
Definition k0 : skey := (0, SchBearer, []).

(* before the fix: fallbackCache.Set(ky) (calls 3 then 4) returns the result of
   its host-only follow-up call 4, which is combined with the follow-up call 2 of
   a concurrent Set(kx) and carries the token fetched by call 1 for kx *)
Lemma fallback_prefix_refuted :
  let calls := table_calls [(1, mkCall kx None); (2, mkCall k0 (Some 1));
                            (3, mkCall ky None); (4, mkCall k0 (Some 3))] in
  exists tr st, crun calls cinit tr = Some st /\
    nget (results st) 4 = Some 1 /\ ck (calls 3) = ky /\ ck (calls 1) = kx /\ kx <> ky.
Proof.
  exists [CLoad 1; COnce 1 (OAcquire 1); COnce 1 (ODone 1 1); CDelete 1;
          CLoad 3; COnce 3 (OAcquire 3); COnce 3 (ODone 3 3); CDelete 3;
          CLoad 2; COnce 2 (OAcquire 2); CLoad 4; COnce 2 (ODone 2 1); COnce 4 (OReadClosed 4 1)].
  eexists. split; [vm_compute; reflexivity|]. repeat split; try reflexivity. discriminate.
Qed.

(* after the fix the caller keeps the result of its own first call (3); that one
   is sound unless the scope key is empty: then the first call shares the status
   key with the follow-up calls of concurrent Sets (known finding) *)
Lemma fallback_empty_key_refuted :
  let calls := table_calls [(1, mkCall kx None); (2, mkCall k0 (Some 1)); (3, mkCall k0 None)] in
  exists tr st, crun calls cinit tr = Some st /\
    nget (results st) 3 = Some 1 /\ ck (calls 3) = k0 /\ ck (calls 1) = kx /\ kx <> k0.
Proof.
  exists [CLoad 1; COnce 1 (OAcquire 1); COnce 1 (ODone 1 1); CDelete 1;
          CLoad 2; COnce 2 (OAcquire 2); CLoad 3; COnce 2 (ODone 2 1); COnce 3 (OReadClosed 3 1)].
  eexists. split; [vm_compute; reflexivity|]. repeat split; try reflexivity. discriminate.
Qed.

(* satisfiable: two concurrent real calls on one key share one fetch *)
Lemma set_share_example :
  let calls := table_calls [(1, mkCall kx None); (2, mkCall kx None)] in
  exists st, crun calls cinit
    [CLoad 1; COnce 1 (OAcquire 1); CLoad 2; COnce 1 (ODone 1 1); COnce 2 (OReadClosed 2 1); CDelete 1] = Some st /\
    nget (results st) 1 = Some 1 /\ nget (results st) 2 = Some 1.
Proof. eexists. split; [vm_compute; reflexivity|]. split; reflexivity. Qed.

(* the shared cache: every call is a real fetch *)
Lemma shared_set_result_same_key calls :
  (forall g, csrc (calls g) = None) ->
  forall tr st g v, crun calls cinit tr = Some st ->
    nget (results st) g = Some v -> ck (calls v) = ck (calls g).
Proof.
  intros H tr st g v R Hr.
  exact (set_result_same_key calls (ck (calls g)) (fun g' _ => H g') tr st g v R Hr eq_refl).
Qed.

(* an execution accepted with the observed instances is a run of the system *)
Lemma crun_obs_run calls tr : forall st st',
  crun_obs calls st tr = Some st' -> crun calls st (map fst tr) = Some st'.
Proof.
  induction tr as [|[e exp] tr IH]; intros st st' H; simpl in *; auto.
  destruct (cstep calls st e) as [st1|]; [|discriminate].
  destruct (match e with CLoad g => _ | _ => _ end); [auto | discriminate].
Qed.

(* what acceptance of a recorded execution gives: it is a run of the system, so
   every delivered token was fetched by a call on the same status key *)
Lemma accepted_trace_same_key tbl tr :
  set_accepts tbl tr = true ->
  (forall g, csrc (table_calls tbl g) = None) ->
  exists st, crun (table_calls tbl) cinit (map fst tr) = Some st /\
    forall g v, nget (results st) g = Some v -> ck (table_calls tbl v) = ck (table_calls tbl g).
Proof.
  unfold set_accepts. intros A H.
  destruct (crun_obs (table_calls tbl) cinit tr) as [st|] eqn:R; [|discriminate].
  exists st. pose proof (crun_obs_run _ _ _ _ R) as R'. split; auto.
  intros g v Hr. eapply shared_set_result_same_key; eauto.
Qed.
