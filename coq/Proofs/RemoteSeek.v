(* Proofs/RemoteSeek.v -- readSeekCloser refines an in-memory reader (C13_seek). *)
From Oras Require Import Base.Prelude Base.Regex Generated.GC20 Generated.GC13 Model.Reference
  Model.Registry Model.RemoteClient Model.RemoteSpec.
Require Import Lia ZifyN ZifyNat.

Lemma skipn_skipn {A} (n m : nat) (l : list A) : skipn n (skipn m l) = skipn (m + n) l.
Proof.
  revert l; induction m as [|m IH]; intro l; simpl; [reflexivity|].
  destruct l as [|x l]; simpl; [now rewrite skipn_nil|]. apply IH.
Qed.

Lemma skipn_firstn_len {A} (n : nat) (l : list A) : skipn n l = skipn (length (firstn n l)) l.
Proof.
  destruct (Nat.le_gt_cases n (length l)) as [Hle|Hgt].
  - now rewrite firstn_length_le.
  - rewrite firstn_all2 by lia. rewrite !skipn_all2; auto; lia.
Qed.

Definition sk_inv (content : str) (k : rsc) (s : pos) : Prop :=
  k_size k = len content /\ k_off k = s_off s /\ k_closed k = s_closed s /\ k_bi k = s_bi s /\
  (k_closed k = false -> k_rc k = skipn (N.to_nat (k_off k)) content).

Lemma len_nat (s : str) : N.to_nat (len s) = length s.
Proof. unfold len. lia. Qed.

Lemma slice_tail (content : str) (t : N) :
  t < len content -> slice t (len content - 1) content = skipn (N.to_nat t) content.
Proof.
  intro Ht. unfold slice. apply firstn_all2. rewrite skipn_length.
  pose proof (len_nat content). lia.
Qed.

Ltac fin := cbv beta iota zeta; unfold sk_inv; cbn [k_size k_off k_closed k_rc k_bi s_off s_closed s_bi];
  repeat split; auto; try congruence; try (intro; congruence).

Section SeekProof.
  Variable modes : nat -> bmode.

  Lemma rsc_step_refines content k s o :
    sk_inv content k s ->
    let '(k1, rq, out) := rsc_step modes content k o in
    let '(s1, rq', out') := ref_step modes content s o in
    rq = rq' /\ out = out' /\ sk_inv content k1 s1.
  Proof.
    intros (Hsz & Hoff & Hcl & Hbi & Hrc). destruct o as [n|off w|].
    - (* Read *)
      unfold rsc_step, ref_step. rewrite <- Hcl. destruct (k_closed k) eqn:Ec.
      + fin.
      + specialize (Hrc eq_refl). rewrite <- Hoff, <- Hbi, Hrc.
        unfold read_chunk.
        set (rest := skipn (N.to_nat (k_off k)) content).
        set (l := N.to_nat (read_len (modes (k_bi k)) n (len rest))).
        fin. intros _.
        assert (E : skipn l rest = skipn (length (firstn l rest)) rest) by apply skipn_firstn_len.
        rewrite E. unfold rest. rewrite skipn_skipn. f_equal. unfold len. lia.
    - (* Seek *)
      unfold rsc_step, ref_step. rewrite <- Hcl. destruct (k_closed k) eqn:Ec.
      + fin.
      + rewrite <- Hoff, <- Hsz, <- Hbi. cbv zeta.
        set (tgt := match w with
                    | SeekStart => off
                    | SeekCurrent => (off + Z.of_N (k_off k))%Z
                    | SeekEnd => (off + Z.of_N (k_size k))%Z
                    end).
        destruct (tgt <? 0)%Z eqn:Eneg.
        * fin.
        * set (t := Z.to_N tgt).
          destruct (t =? k_off k) eqn:Eeq.
          -- apply N.eqb_eq in Eeq. cbn [negb andb]. fin.
          -- cbn [negb andb]. destruct (k_size k <=? t) eqn:Ege.
             ++ apply N.leb_le in Ege.
                assert (El : (t <? k_size k) = false) by (apply N.ltb_ge; exact Ege).
                rewrite El. fin. intros _. symmetry. apply skipn_all2.
                pose proof (len_nat content). lia.
             ++ apply N.leb_gt in Ege.
                assert (El : (t <? k_size k) = true) by (apply N.ltb_lt; exact Ege).
                rewrite El. unfold range_body.
                assert (E1 : (t <=? k_size k - 1) = true) by (apply N.leb_le; lia).
                assert (E2 : (k_size k - 1 <? len content) = true) by (apply N.ltb_lt; lia).
                rewrite E1, E2. cbn [andb]. fin.
                intros _. rewrite Hsz. apply slice_tail. lia.
    - (* Close *)
      unfold rsc_step, ref_step. fin.
  Qed.

  Lemma rsc_run_refines content os : forall k s,
    sk_inv content k s -> rsc_run modes content k os = ref_run modes content s os.
  Proof.
    induction os as [|o os IH]; intros k s Hinv; [reflexivity|].
    pose proof (rsc_step_refines content k s o Hinv) as Hs.
    cbn [rsc_run ref_run].
    destruct (rsc_step modes content k o) as [[k1 rq] out].
    destruct (ref_step modes content s o) as [[s1 rq'] out'].
    destruct Hs as (-> & -> & Hinv1). f_equal. apply IH. exact Hinv1.
  Qed.

  Theorem seek_refines content os :
    rsc_run modes content (rsc_open content (len content)) os = ref_run modes content (mkPos 0 false 0) os.
  Proof.
    apply rsc_run_refines. unfold sk_inv, rsc_open; cbn. repeat split; auto.
  Qed.

  (* what the reference reader returns, whatever the body behaviour: a prefix of the bytes at
     the position, no longer than the buffer; io.EOF only at the end of the content *)
  Theorem ref_read_spec content k n k1 rq c eof :
    s_closed k = false ->
    ref_step modes content k (SRead n) = (k1, rq, SData c eof) ->
    rq = [] /\ c = firstn (length c) (skipn (N.to_nat (s_off k)) content) /\
    (len c <= n) /\ s_off k1 = s_off k + len c /\
    (eof = true -> skipn (N.to_nat (s_off k1)) content = []).
  Proof.
    intros Hc. unfold ref_step. rewrite Hc. unfold read_chunk.
    set (rest := skipn (N.to_nat (s_off k)) content).
    set (l := N.to_nat (read_len (modes (s_bi k)) n (len rest))).
    intro X. injection X as <- <- <- <-. cbn [s_off].
    assert (Hl : (l <= N.to_nat n)%nat).
    { unfold l, read_len. destruct (bm_chunk (modes (s_bi k)) =? 0); lia. }
    repeat split.
    - destruct (Nat.le_gt_cases l (length rest)) as [Hle|Hgt].
      + now rewrite firstn_length_le.
      + rewrite (firstn_all2 rest) by lia. now rewrite firstn_all.
    - unfold len. rewrite firstn_length. lia.
    - intro He.
      assert (E : skipn (N.to_nat (s_off k + len (firstn l rest))) content = skipn (length (firstn l rest)) rest).
      { unfold rest. rewrite skipn_skipn. f_equal. unfold len. lia. }
      rewrite E, <- skipn_firstn_len.
      destruct rest as [|x r]; [now rewrite skipn_nil|].
      apply andb_true_iff in He as [_ He]. destruct (skipn l (x :: r)); [reflexivity|discriminate].
  Qed.
End SeekProof.
