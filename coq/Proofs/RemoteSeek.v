(* Proofs/RemoteSeek.v -- readSeekCloser refines an in-memory reader (C13_seek). *)
From Oras Require Import Base.Prelude Base.Regex Generated.GC20 Generated.GC13 Model.Reference
  Model.Registry Model.RemoteClient Model.RemoteSpec Proofs.RemoteClient.
Require Import Lia ZifyN ZifyNat.

Lemma skipn_skipn {A} (n m : nat) (l : list A) : skipn n (skipn m l) = skipn (m + n) l.
Proof.
  revert l; induction m as [|m IH]; intro l; simpl; [reflexivity|].
  destruct l as [|x l]; simpl; [now rewrite skipn_nil|]. apply IH.
Qed.

Lemma skipn_firstn_len {A} (n : nat) (l : list A) : skipn n l = skipn (length (firstn n l)) l.
Proof.
  destruct (Nat.le_gt_cases n (length l)) as [Hle|Hgt].
  - now rewrite firstn_length_le.
  - rewrite firstn_all2 by lia. rewrite !skipn_all2; auto; lia.
Qed.

Definition sk_inv (content : str) (k : rsc) (s : pos) : Prop :=
  k_size k = len content /\ k_off k = s_off s /\ k_closed k = s_closed s /\ k_bi k = s_bi s /\
  k_nb k = S (k_bi k) /\
  (k_closed k = false -> k_rc k = skipn (N.to_nat (k_off k)) content).

Lemma len_nat (s : str) : N.to_nat (len s) = length s.
Proof. unfold len. lia. Qed.

Lemma slice_tail (content : str) (t : N) :
  t < len content -> slice t (len content - 1) content = skipn (N.to_nat t) content.
Proof.
  intro Ht. unfold slice. apply firstn_all2. rewrite skipn_length.
  pose proof (len_nat content). lia.
Qed.

Ltac fin := cbv beta iota zeta; unfold sk_inv; cbn [k_size k_off k_closed k_rc k_bi k_nb k_rq s_off s_closed s_bi];
  repeat split; auto; try congruence; try (intro; congruence).

Section SeekProof.
  Variable modes : nat -> bmode.
  (* the registry model with range support answers the Range requests for blob [d] *)
  Variable p : profile.
  Variable d : str.
  Hypothesis Hrange : p_range p = true.

  Lemma range_srv_honest content i a bb :
    a <= bb -> bb < len content ->
    range_srv p d content None i a bb =
    mkResp 206 (Some ct_octet) (opt_if (p_clen p) (bb + 1 - a)) (opt_if (p_dighdr p) d) None true None []
           (slice a bb content).
  Proof.
    intros H1 H2. unfold range_srv, blob_resp. rewrite Hrange. cbn [negb andb].
    assert (E1 : (a <=? bb) = true) by now apply N.leb_le.
    assert (E2 : (bb <? len content) = true) by now apply N.ltb_lt.
    now rewrite E1, E2.
  Qed.

  Lemma rsc_step_refines content k s o :
    sk_inv content k s ->
    let '(k1, rq, out) := rsc_step modes (range_srv p d content None) k o in
    let '(s1, rq', out') := ref_step modes content s o in
    rq = rq' /\ out = out' /\ sk_inv content k1 s1.
  Proof.
    intros (Hsz & Hoff & Hcl & Hbi & Hnb & Hrc). destruct o as [n|off w|].
    - (* Read *)
      unfold rsc_step, ref_step. rewrite <- Hcl. destruct (k_closed k) eqn:Ec.
      + fin.
      + specialize (Hrc eq_refl). rewrite <- Hoff, <- Hbi, Hrc.
        unfold read_chunk.
        set (rest := skipn (N.to_nat (k_off k)) content).
        set (l := N.to_nat (read_len (modes (k_bi k)) n (len rest))).
        fin. intros _.
        assert (E : skipn l rest = skipn (length (firstn l rest)) rest) by apply skipn_firstn_len.
        rewrite E. unfold rest. rewrite skipn_skipn. f_equal. unfold len. lia.
    - (* Seek *)
      unfold rsc_step, ref_step. rewrite <- Hcl. destruct (k_closed k) eqn:Ec.
      + fin.
      + rewrite <- Hoff, <- Hsz, <- Hbi. cbv zeta.
        set (tgt := match w with
                    | SeekStart => off
                    | SeekCurrent => wrap64 (off + Z.of_N (k_off k))
                    | SeekEnd => wrap64 (off + Z.of_N (k_size k))
                    end).
        destruct (tgt <? 0)%Z eqn:Eneg.
        * fin.
        * set (t := Z.to_N tgt).
          destruct (t =? k_off k) eqn:Eeq.
          -- apply N.eqb_eq in Eeq. cbn [negb andb]. fin.
          -- cbn [negb andb]. destruct (k_size k <=? t) eqn:Ege.
             ++ apply N.leb_le in Ege.
                assert (El : (t <? k_size k) = false) by (apply N.ltb_ge; exact Ege).
                rewrite El. fin. intros _. symmetry. apply skipn_all2.
                pose proof (len_nat content). lia.
             ++ apply N.leb_gt in Ege.
                assert (El : (t <? k_size k) = true) by (apply N.ltb_lt; exact Ege).
                rewrite El.
                rewrite range_srv_honest by lia. cbn [r_status r_clen r_body].
                change (206 =? 206) with true. cbn [negb is_body_status orb].
                assert (Ecl : match opt_if (p_clen p) (k_size k - 1 + 1 - t) with
                              | Some n0 => negb (n0 =? k_size k - t) | None => false end = false).
                { destruct (p_clen p); cbn [opt_if]; auto.
                  replace (k_size k - 1 + 1 - t) with (k_size k - t) by lia. now rewrite N.eqb_refl. }
                rewrite Ecl. fin.
                intros _. rewrite Hsz. apply slice_tail. lia.
    - (* Close *)
      unfold rsc_step, ref_step. fin.
  Qed.

  Lemma rsc_run_refines content os : forall k s,
    sk_inv content k s -> rsc_run modes (range_srv p d content None) k os = ref_run modes content s os.
  Proof.
    induction os as [|o os IH]; intros k s Hinv; [reflexivity|].
    pose proof (rsc_step_refines content k s o Hinv) as Hs.
    cbn [rsc_run ref_run].
    destruct (rsc_step modes (range_srv p d content None) k o) as [[k1 rq] out].
    destruct (ref_step modes content s o) as [[s1 rq'] out'].
    destruct Hs as (-> & -> & Hinv1). f_equal. apply IH. exact Hinv1.
  Qed.

  Theorem seek_refines content os :
    rsc_run modes (range_srv p d content None) (rsc_open content (len content)) os
    = ref_run modes content (mkPos 0 false 0) os.
  Proof.
    apply rsc_run_refines. unfold sk_inv, rsc_open; cbn. repeat split; auto.
  Qed.

  (* what the reference reader returns, whatever the body behaviour: a prefix of the bytes at
     the position, no longer than the buffer; io.EOF only at the end of the content *)
  Theorem ref_read_spec content k n k1 rq c eof :
    s_closed k = false ->
    ref_step modes content k (SRead n) = (k1, rq, SData c eof) ->
    rq = [] /\ c = firstn (length c) (skipn (N.to_nat (s_off k)) content) /\
    (len c <= n) /\ s_off k1 = s_off k + len c /\
    (eof = true -> skipn (N.to_nat (s_off k1)) content = []).
  Proof.
    intros Hc. unfold ref_step. rewrite Hc. unfold read_chunk.
    set (rest := skipn (N.to_nat (s_off k)) content).
    set (l := N.to_nat (read_len (modes (s_bi k)) n (len rest))).
    intro X. injection X as <- <- <- <-. cbn [s_off].
    assert (Hl : (l <= N.to_nat n)%nat).
    { unfold l, read_len. destruct (bm_chunk (modes (s_bi k)) =? 0); lia. }
    repeat split.
    - destruct (Nat.le_gt_cases l (length rest)) as [Hle|Hgt].
      + now rewrite firstn_length_le.
      + rewrite (firstn_all2 rest) by lia. now rewrite firstn_all.
    - unfold len. rewrite firstn_length. lia.
    - intro He.
      assert (E : skipn (N.to_nat (s_off k + len (firstn l rest))) content = skipn (length (firstn l rest)) rest).
      { unfold rest. rewrite skipn_skipn. f_equal. unfold len. lia. }
      rewrite E, <- skipn_firstn_len.
      destruct rest as [|x r]; [now rewrite skipn_nil|].
      apply andb_true_iff in He as [_ He]. destruct (skipn l (x :: r)); [reflexivity|discriminate].
  Qed.
End SeekProof.

(* ---------- against ANY server: what a successful reconnect implies, and what is asked ---------- *)
Section SeekAnyServer.
  Variable modes : nat -> bmode.
  Variable srv : nat -> N -> N -> response.

  (* a Seek emits at most one request; it asks for bytes t..size-1 with t inside the blob *)
  Theorem seek_request_shape k o k1 rq out :
    rsc_step modes srv k o = (k1, rq, out) ->
    rq = [] \/ exists t, rq = [(t, k_size k - 1)] /\ t < k_size k /\ k_rq k1 = S (k_rq k).
  Proof.
    destruct o as [n|off w|]; unfold rsc_step.
    - destruct (k_closed k); [intro X; injection X as _ <- _; auto|].
      destruct (read_chunk _ _ _) as [[got rest] eof]. intro X; injection X as _ <- _; auto.
    - destruct (k_closed k); [intro X; injection X as _ <- _; auto|]. cbv zeta.
      set (tgt := match w with SeekStart => off | SeekCurrent => _ | SeekEnd => _ end).
      destruct (tgt <? 0)%Z; [intro X; injection X as _ <- _; auto|].
      set (t := Z.to_N tgt).
      destruct (t =? k_off k); [intro X; injection X as _ <- _; auto|].
      destruct (k_size k <=? t) eqn:Ege; [intro X; injection X as _ <- _; auto|].
      apply N.leb_gt in Ege.
      destruct (negb (r_status (srv (k_rq k) t (k_size k - 1)) =? 206)).
      + intro X; injection X as <- <- _. right. exists t. cbn. auto.
      + destruct (match r_clen _ with Some n => _ | None => false end);
          intro X; injection X as <- <- _; right; exists t; cbn; auto.
    - intro X; injection X as _ <- _; auto.
  Qed.

  (* a reconnect is accepted only from a 206 whose Content-Length is absent or the length of
     the requested range; the reader then serves that response's body *)
  Theorem seek_accepts_consistent k off w k1 t0 b0 t :
    rsc_step modes srv k (SSeek off w) = (k1, [(t0, b0)], SPos t) ->
    let r := srv (k_rq k) t (k_size k - 1) in
    t0 = t /\ r_status r = 206 /\ len_consistent r (k_size k - t) /\ k_rc k1 = r_body r /\ k_off k1 = t.
  Proof.
    unfold rsc_step. destruct (k_closed k); [discriminate|]. cbv zeta.
    set (tgt := match w with SeekStart => off | SeekCurrent => _ | SeekEnd => _ end).
    destruct (tgt <? 0)%Z; [discriminate|].
    set (t' := Z.to_N tgt).
    destruct (t' =? k_off k); [discriminate|].
    destruct (k_size k <=? t'); [discriminate|].
    destruct (r_status (srv (k_rq k) t' (k_size k - 1)) =? 206) eqn:Es; cbn [negb]; [|discriminate].
    destruct (match r_clen (srv (k_rq k) t' (k_size k - 1)) with Some n => negb (n =? k_size k - t') | None => false end) eqn:El;
      [discriminate|].
    intro X. injection X as <- <- _ <-. cbn. apply N.eqb_eq in Es. apply len_check_spec in El. auto.
  Qed.

  (* the Range request is one the specification allows *)
  Theorem seek_request_allowed main d k o k1 a bb out :
    valid_repository main = true -> valid_digest d = true ->
    rsc_step modes srv k o = (k1, [(a, bb)], out) ->
    allowed (mkReq GET main (EBlob d) None None None None None (Some (a, bb)) []) = true.
  Proof.
    intros Vm Vd E. destruct (seek_request_shape _ _ _ _ _ E) as [X|(t & X & Ht & _)]; [discriminate|].
    injection X as -> ->. unfold allowed. cbn [q_m q_repo q_ep q_digest q_mount q_ctype q_range q_body].
    rewrite Vm, Vd. assert (E1 : (t <=? k_size k - 1) = true) by (apply N.leb_le; lia). now rewrite E1.
  Qed.
End SeekAnyServer.

(* ---------- known finding seek-206-digest-unverified, as a witness ---------- *)
(* the answer to the Range request carries a well-formed Docker-Content-Digest of OTHER content:
   Seek succeeds and installs that response's body *)
Definition w_seek_profile := mkProfile true true true false false.
Definition w_seek_digest : str := zero_digest.
Definition w_seek_other : str := b "sha256:1111111111111111111111111111111111111111111111111111111111111111".
Definition w_seek_srv := range_srv w_seek_profile w_seek_digest (b "hello world") (Some (0%nat, KDigOther w_seek_other)).

Lemma seek_206_digest_unverified_refuted :
  let '(k1, rq, out) := rsc_step (fun _ => mkBm 0 false) w_seek_srv (rsc_open (b "hello world") 11) (SSeek 6 SeekStart) in
  out = SPos 6 /\ rq = [(6, 10)] /\ k_rc k1 = b "world" /\
  r_dig (w_seek_srv 0%nat 6 10) = Some w_seek_other /\ valid_digest w_seek_other = true /\
  str_eqb w_seek_other w_seek_digest = false.
Proof. vm_compute. repeat split; reflexivity. Qed.
