(* encoding/json's string codec round-trips every valid UTF-8 string (Model/Json.v). *)
From Coq Require Import Lia.
From Oras Require Import Base.Prelude Model.Utf8 Model.Json.

Definition cons_opt (u : str) (o : option str) : option str :=
  match o with Some t => Some (u ++ t) | None => None end.

(* ---------- one ASCII byte: all 128 values, symbolic tail and fuel ---------- *)
Definition ascii_codes : list N := map N.of_nat (seq 0 128).

Lemma ascii_in c : c < 128 -> In c ascii_codes.
Proof.
  intro H. unfold ascii_codes. apply in_map_iff. exists (N.to_nat c). split; [lia|]. apply in_seq. lia.
Qed.

Lemma ascii_unit c Q m :
  c < 128 ->
  unquote_fuel (S m) (quote_ascii c ++ Q) = cons_opt [c] (unquote_fuel m Q) /\ (1 <= length (quote_ascii c))%nat.
Proof.
  intro H. apply ascii_in in H. unfold ascii_codes in H. cbn [seq map N.of_nat] in H.
  repeat (destruct H as [<-|H]; [split; [reflexivity|cbn; lia]|]). destruct H.
Qed.

(* ---------- a multi-byte rune is copied and read back ---------- *)
Lemma big_head b0 : (b0 <? 128) = false -> (b0 =? bs) = false /\ ((b0 <? 32) || (b0 =? dq)) = false.
Proof.
  intro H. apply N.ltb_ge in H. unfold bs, dq. split.
  - apply N.eqb_neq. lia.
  - apply orb_false_iff. split; [apply N.ltb_ge; lia|apply N.eqb_neq; lia].
Qed.

Lemma rune_unit s k Q m :
  rune_len s = Some k -> (2 <= k)%nat ->
  unquote_fuel (S m) (firstn k s ++ Q) = cons_opt (firstn k s) (unquote_fuel m Q) /\
  exists c r, s = c :: r /\ (c <? 128) = false.
Proof.
  intros H K. unfold rune_len in H. destruct s as [|b0 r]; [discriminate|].
  destruct (b0 <? 128) eqn:E0; [injection H as <-; lia|].
  destruct (big_head b0 E0) as [NB NC].
  split; [|now exists b0, r].
  destruct (in_range 194 223 b0) eqn:E1.
  { destruct r as [|c1 r]; [discriminate|]. destruct (cont c1) eqn:E2; [|discriminate]. injection H as <-.
    cbn [firstn app unquote_fuel]. rewrite NB, NC. unfold rune_len. rewrite E0, E1, E2. reflexivity. }
  destruct (in_range 224 239 b0) eqn:E3.
  { destruct r as [|c1 [|c2 r]]; try discriminate.
    match type of H with (if ?b then _ else _) = _ => destruct b eqn:E4; [|discriminate] end. injection H as <-.
    cbn [firstn app unquote_fuel]. rewrite NB, NC. unfold rune_len. rewrite E0, E1, E3, E4. reflexivity. }
  destruct (in_range 240 244 b0) eqn:E5; [|discriminate].
  destruct r as [|c1 [|c2 [|c3 r]]]; try discriminate.
  match type of H with (if ?b then _ else _) = _ => destruct b eqn:E6; [|discriminate] end. injection H as <-.
  cbn [firstn app unquote_fuel]. rewrite NB, NC. unfold rune_len. rewrite E0, E1, E3, E5, E6. reflexivity.
Qed.

Lemma rune_len_length s k : rune_len s = Some k -> (1 <= k)%nat /\ length (firstn k s) = k.
Proof.
  intro H. unfold rune_len in H. destruct s as [|b0 r]; [discriminate|].
  repeat match type of H with
         | (if ?b then _ else _) = _ => destruct b; try discriminate
         | match ?l with _ => _ end = _ => destruct l; try discriminate
         end; injection H as <-; cbn; lia.
Qed.

(* U+2028 / U+2029 *)
Lemma ls_ps_unit s d Q m :
  ls_ps s = Some d ->
  unquote_fuel (S m) ([bs; 117; 50; 48; 50; d] ++ Q) = cons_opt (firstn 3 s) (unquote_fuel m Q) /\ rune_len s = Some 3%nat.
Proof.
  intro H. unfold ls_ps in H.
  destruct s as [|a [|b0 [|c r]]]; try discriminate.
  destruct ((a =? 226) && (b0 =? 128)) eqn:E; [|discriminate].
  apply andb_true_iff in E as [E1 E2]. apply N.eqb_eq in E1. apply N.eqb_eq in E2. subst a b0.
  destruct (c =? 168) eqn:E3.
  { apply N.eqb_eq in E3. subst c. injection H as <-. split; reflexivity. }
  destruct (c =? 169) eqn:E4; [|discriminate].
  apply N.eqb_eq in E4. subst c. injection H as <-. split; reflexivity.
Qed.

Lemma cons_opt_some u t : cons_opt u (Some t) = Some (u ++ t).
Proof. reflexivity. Qed.

(* ---------- the round trip ---------- *)
Lemma roundtrip_fuel n : forall s,
  valid_fuel n s = true ->
  forall m, (length (quote_fuel n s) <= m)%nat -> unquote_fuel m (quote_fuel n s) = Some s.
Proof.
  induction n as [|n IH]; intros [|c r] V m L; try (destruct m; reflexivity); try discriminate.
  cbn [valid_fuel] in V. cbn [quote_fuel] in *.
  destruct (rune_len (c :: r)) as [k|] eqn:RL; [|discriminate].
  destruct (rune_len_length _ _ RL) as [K1 KL].
  destruct k as [|[|k]]; [lia| |].
  - (* ASCII *)
    assert (C : c < 128).
    { unfold rune_len in RL. destruct (c <? 128) eqn:E; [now apply N.ltb_lt|].
      repeat match type of RL with
             | (if ?b then _ else _) = _ => destruct b; try discriminate
             | match ?l with _ => _ end = _ => destruct l; try discriminate
             end. }
    cbn [skipn] in V.
    destruct m as [|m]; [destruct (ascii_unit c [] 0 C) as [_ P]; rewrite app_length in L; lia|].
    destruct (ascii_unit c (quote_fuel n r) m C) as [U P]. rewrite U.
    rewrite (IH r V m); [reflexivity|]. rewrite app_length in L. lia.
  - (* multi-byte *)
    destruct (ls_ps (c :: r)) as [d|] eqn:LP.
    + destruct (ls_ps_unit _ d (quote_fuel n (skipn (S (S k)) (c :: r))) (pred m) LP) as [U R3].
      rewrite RL in R3. injection R3 as R3. 
      destruct m as [|m]; [cbn in L; lia|]. cbn [pred] in U.
      change ([bs; 117; 50; 48; 50; d] ++ quote_fuel n (skipn (S (S k)) (c :: r))) with
             ([bs; 117; 50; 48; 50; d] ++ quote_fuel n (skipn (S (S k)) (c :: r))) in *.
      rewrite U. rewrite (IH _ V m).
      * rewrite cons_opt_some. rewrite <- R3. now rewrite firstn_skipn.
      * cbn [app length] in L. lia.
    + destruct m as [|m]; [rewrite app_length, KL in L; lia|].
      destruct (rune_unit (c :: r) (S (S k)) (quote_fuel n (skipn (S (S k)) (c :: r))) m RL) as [U _]; [lia|].
      rewrite U. rewrite (IH _ V m).
      * rewrite cons_opt_some. now rewrite firstn_skipn.
      * rewrite app_length, KL in L. lia.
Qed.

Lemma json_string_roundtrip s : valid_utf8 s = true -> json_unquote (json_quote s) = Some s.
Proof. intro V. unfold json_unquote, json_quote. apply roundtrip_fuel; [exact V|lia]. Qed.

(* ---------- ASCII strings are valid UTF-8 ---------- *)
Lemma ascii_valid_fuel n : forall s, Forall (fun c => c < 128) s -> (length s <= n)%nat -> valid_fuel n s = true.
Proof.
  induction n as [|n IH]; intros [|c r] F L; try reflexivity; [cbn in L; lia|].
  inversion F as [|? ? C F']; subst. cbn [valid_fuel]. unfold rune_len.
  apply N.ltb_lt in C. rewrite C. cbn [skipn]. apply IH; [exact F'|cbn in L; lia].
Qed.

Lemma ascii_valid s : Forall (fun c => c < 128) s -> valid_utf8 s = true.
Proof. intro F. apply ascii_valid_fuel; [exact F|lia]. Qed.

(* ---------- scanning a quoted string: the quoted text never ends early ---------- *)
Definition prepend (u : str) (o : option (str * str)) : option (str * str) :=
  match o with Some (t, rest) => Some (u ++ t, rest) | None => None end.

Lemma scan_ascii_unit c R : c < 128 -> scan_string (quote_ascii c ++ R) = prepend (quote_ascii c) (scan_string R).
Proof.
  intro H. apply ascii_in in H. unfold ascii_codes in H. cbn [seq map N.of_nat] in H.
  repeat (destruct H as [<-|H]; [cbn; destruct (scan_string R) as [[? ?]|]; reflexivity|]). destruct H.
Qed.

Lemma scan_high u : forall R, Forall (fun x => 128 <= x) u -> scan_string (u ++ R) = prepend u (scan_string R).
Proof.
  induction u as [|x u IH]; intros R F.
  - cbn. destruct (scan_string R) as [[? ?]|]; reflexivity.
  - inversion F as [|? ? X F']; subst. cbn [app scan_string].
    assert (E1 : (x =? dq) = false) by (apply N.eqb_neq; unfold dq; lia).
    assert (E2 : (x =? bs) = false) by (apply N.eqb_neq; unfold bs; lia).
    rewrite E1, E2, (IH R F'). destruct (scan_string R) as [[? ?]|]; reflexivity.
Qed.

Lemma in_range_lo lo hi c : in_range lo hi c = true -> lo <= c.
Proof. unfold in_range. intro H. apply andb_true_iff in H as [H _]. now apply N.leb_le in H. Qed.

Lemma rune_high s k : rune_len s = Some k -> (2 <= k)%nat -> Forall (fun x => 128 <= x) (firstn k s).
Proof.
  intros H K. unfold rune_len in H. destruct s as [|b0 r]; [discriminate|].
  destruct (b0 <? 128) eqn:E0; [injection H as <-; lia|]. apply N.ltb_ge in E0.
  destruct (in_range 194 223 b0) eqn:E1.
  { destruct r as [|c1 r]; [discriminate|]. destruct (cont c1) eqn:E2; [|discriminate]. injection H as <-.
    cbn [firstn]. repeat constructor; [exact E0|exact (in_range_lo _ _ _ E2)]. }
  destruct (in_range 224 239 b0) eqn:E3.
  { destruct r as [|c1 [|c2 r]]; try discriminate.
    match type of H with (if ?b then _ else _) = _ => destruct b eqn:E4; [|discriminate] end. injection H as <-.
    apply andb_true_iff in E4 as [E4 E5]. apply in_range_lo in E4. apply in_range_lo in E5.
    cbn [firstn]. repeat constructor; [exact E0| |exact E5].
    destruct (b0 =? 224); lia. }
  destruct (in_range 240 244 b0) eqn:E5; [|discriminate].
  destruct r as [|c1 [|c2 [|c3 r]]]; try discriminate.
  match type of H with (if ?b then _ else _) = _ => destruct b eqn:E6; [|discriminate] end. injection H as <-.
  apply andb_true_iff in E6 as [E6 E8]. apply andb_true_iff in E6 as [E6 E7].
  apply in_range_lo in E6. apply in_range_lo in E7. apply in_range_lo in E8.
  cbn [firstn]. repeat constructor; [exact E0| |exact E7|exact E8].
  destruct (b0 =? 240); lia.
Qed.

Lemma scan_quote_fuel n : forall s Q, scan_string (quote_fuel n s ++ dq :: Q) = Some (quote_fuel n s, Q).
Proof.
  induction n as [|n IH]; intros [|c r] Q; try reflexivity.
  cbn [quote_fuel].
  destruct (rune_len (c :: r)) as [[|[|k]]|] eqn:RL.
  - destruct (rune_len_length _ _ RL). lia.
  - assert (C : c < 128).
    { unfold rune_len in RL. destruct (c <? 128) eqn:E; [now apply N.ltb_lt|].
      repeat match type of RL with
             | (if ?b then _ else _) = _ => destruct b; try discriminate
             | match ?l with _ => _ end = _ => destruct l; try discriminate
             end. }
    rewrite <- app_assoc, scan_ascii_unit by exact C. now rewrite IH.
  - destruct (ls_ps (c :: r)) as [d|] eqn:LP.
    + rewrite <- app_assoc.
      assert (D : d = 56 \/ d = 57).
      { unfold ls_ps in LP. destruct r as [|x [|y r']]; try discriminate.
        destruct ((c =? 226) && (x =? 128)); [|discriminate].
        destruct (y =? 168); [injection LP as <-; now left|].
        destruct (y =? 169); [injection LP as <-; now right|discriminate]. }
      destruct D as [-> | ->]; cbn [app scan_string N.eqb Pos.eqb dq bs]; rewrite IH; reflexivity.
    + rewrite <- app_assoc, scan_high by (apply (rune_high _ _ RL); lia). now rewrite IH.
  - rewrite <- app_assoc. unfold esc_fffd. cbn [app scan_string N.eqb Pos.eqb dq bs]. rewrite IH. reflexivity.
Qed.

Lemma scan_json_quote x Q : scan_string (json_quote x ++ dq :: Q) = Some (json_quote x, Q).
Proof. apply scan_quote_fuel. Qed.

(* ---------- the entry Put writes parses back to its three fields ---------- *)
Definition render_member (kv : str * str) : str :=
  [dq] ++ fst kv ++ [dq; 58; dq] ++ json_quote (snd kv) ++ [dq].

Definition key_ok (k : str) : Prop :=
  (forall R, scan_string (k ++ dq :: R) = Some (k, R)) /\ json_unquote k = Some k.

Lemma join_cons2 x y r : join_comma (x :: y :: r) = x ++ 44 :: join_comma (y :: r).
Proof. reflexivity. Qed.

Lemma parse_members_rendered l : forall n,
  l <> [] ->
  Forall (fun kv => key_ok (fst kv) /\ valid_utf8 (snd kv) = true) l ->
  (length l <= n)%nat ->
  parse_members n (join_comma (map render_member l) ++ [125]) = Some l.
Proof.
  induction l as [|[k v] l IH]; intros n NE F L; [congruence|].
  inversion F as [|? ? [[KS KU] VV] F']; subst. cbn [fst snd] in *.
  destruct n as [|n]; [cbn in L; lia|].
  destruct l as [|kv2 l].
  - cbn [map join_comma]. unfold render_member. cbn [fst snd].
    repeat rewrite <- app_assoc. unfold dq at 1. cbn [app parse_members].
    change (34 :: 58 :: 34 :: json_quote v ++ [dq] ++ [125]) with (dq :: 58 :: 34 :: (json_quote v ++ dq :: [125])).
    rewrite KS. rewrite scan_json_quote. rewrite KU, (json_string_roundtrip v VV). reflexivity.
  - cbn [map]. rewrite join_cons2.
    set (T := join_comma (render_member kv2 :: map render_member l)) in *.
    assert (ET : T = join_comma (map render_member (kv2 :: l))) by reflexivity.
    unfold render_member. cbn [fst snd].
    repeat rewrite <- app_assoc. unfold dq at 1. cbn [app parse_members].
    change (34 :: 58 :: 34 :: json_quote v ++ [dq] ++ 44 :: T ++ [125])
      with (dq :: 58 :: 34 :: (json_quote v ++ dq :: 44 :: (T ++ [125]))).
    rewrite KS. rewrite scan_json_quote. rewrite KU, (json_string_roundtrip v VV).
    cbv beta iota. rewrite ET.
    rewrite (IH n); [reflexivity|discriminate|exact F'|cbn in L |- *; lia].
Qed.

Lemma key_ok_auth : key_ok k_auth.
Proof. split; [intro R; reflexivity|vm_compute; reflexivity]. Qed.
Lemma key_ok_idtok : key_ok k_idtok.
Proof. split; [intro R; reflexivity|vm_compute; reflexivity]. Qed.
Lemma key_ok_regtok : key_ok k_regtok.
Proof. split; [intro R; reflexivity|vm_compute; reflexivity]. Qed.

Definition fresh_members (a i r : str) : list (str * str) :=
  filter (fun kv => match snd kv with [] => false | _ => true end) [(k_auth, a); (k_idtok, i); (k_regtok, r)].

Lemma render_fresh_members a i r :
  render_fresh a i r = [123] ++ join_comma (map render_member (fresh_members a i r)) ++ [125].
Proof. destruct a, i, r; reflexivity. Qed.

Lemma fresh_members_ok a i r :
  valid_utf8 a = true -> valid_utf8 i = true -> valid_utf8 r = true ->
  Forall (fun kv => key_ok (fst kv) /\ valid_utf8 (snd kv) = true) (fresh_members a i r).
Proof.
  intros VA VI VR. unfold fresh_members. apply Forall_forall. intros kv I.
  apply filter_In in I as [I _]. cbn [In] in I.
  destruct I as [<-|[<-|[<-|[]]]]; cbn [fst snd]; split; auto using key_ok_auth, key_ok_idtok, key_ok_regtok.
Qed.

Lemma member_length kv : (1 <= length (render_member kv))%nat.
Proof. unfold render_member. cbn [app length]. lia. Qed.

Lemma join_length l : (length l <= length (join_comma (map render_member l) ++ [125%N]))%nat.
Proof.
  induction l as [|kv [|kv2 l] IH].
  - cbn. lia.
  - cbn [map join_comma length]. rewrite app_length. pose proof (member_length kv). cbn [length]. lia.
  - cbn [map join_comma]. rewrite <- !app_assoc. rewrite app_length.
    pose proof (member_length kv). cbn [map join_comma] in IH. cbn [length app] in *. lia.
Qed.

Lemma fresh_roundtrip a i r :
  valid_utf8 a = true -> valid_utf8 i = true -> valid_utf8 r = true ->
  parse_fresh (render_fresh a i r) = Some (a, i, r).
Proof.
  intros VA VI VR. rewrite render_fresh_members.
  pose proof (fresh_members_ok a i r VA VI VR) as F.
  destruct (fresh_members a i r) as [|kv l] eqn:E.
  - (* all three empty *)
    unfold fresh_members in E. destruct a, i, r; cbn in E; try discriminate. reflexivity.
  - assert (P : parse_members (length (join_comma (map render_member (kv :: l)) ++ [125]))
                              (join_comma (map render_member (kv :: l)) ++ [125]) = Some (kv :: l)).
    { apply parse_members_rendered; [discriminate|exact F|apply join_length]. }
    assert (S0 : exists x y, join_comma (map render_member (kv :: l)) ++ [125] = 34 :: x :: y).
    { destruct kv as [k v]. assert (KO : key_ok k) by (inversion F as [|? ? [K _] _]; exact K).
      unfold fresh_members in E.
      destruct l; cbn [map join_comma]; unfold render_member; cbn [fst];
        destruct a, i, r; cbn in E; try discriminate; injection E as <- <-; try subst;
        eexists; eexists; reflexivity. }
    destruct S0 as (x & y & S0). cbn [app]. rewrite S0 in *. cbn [parse_fresh]. 
    destruct y; [|idtac]; try (cbn [parse_fresh]); rewrite P;
      rewrite <- E; unfold fresh_members; destruct a, i, r; reflexivity.
Qed.
