(* encoding/json's string codec round-trips every valid UTF-8 string (Model/Json.v). *)
From Coq Require Import Lia.
From Oras Require Import Base.Prelude Model.Utf8 Model.Json.

Definition cons_opt (u : str) (o : option str) : option str :=
  match o with Some t => Some (u ++ t) | None => None end.

(* ---------- one ASCII byte: all 128 values, symbolic tail and fuel ---------- *)
Definition ascii_codes : list N := map N.of_nat (seq 0 128).

Lemma ascii_in c : c < 128 -> In c ascii_codes.
Proof.
  intro H. unfold ascii_codes. apply in_map_iff. exists (N.to_nat c). split; [lia|]. apply in_seq. lia.
Qed.

Lemma ascii_unit c Q m :
  c < 128 ->
  unquote_fuel (S m) (quote_ascii c ++ Q) = cons_opt [c] (unquote_fuel m Q) /\ (1 <= length (quote_ascii c))%nat.
Proof.
  intro H. apply ascii_in in H. unfold ascii_codes in H. cbn [seq map N.of_nat] in H.
  repeat (destruct H as [<-|H]; [split; [reflexivity|cbn; lia]|]). destruct H.
Qed.

(* ---------- a multi-byte rune is copied and read back ---------- *)
Lemma big_head b0 : (b0 <? 128) = false -> (b0 =? bs) = false /\ ((b0 <? 32) || (b0 =? dq)) = false.
Proof.
  intro H. apply N.ltb_ge in H. unfold bs, dq. split.
  - apply N.eqb_neq. lia.
  - apply orb_false_iff. split; [apply N.ltb_ge; lia|apply N.eqb_neq; lia].
Qed.

Lemma rune_unit s k Q m :
  rune_len s = Some k -> (2 <= k)%nat ->
  unquote_fuel (S m) (firstn k s ++ Q) = cons_opt (firstn k s) (unquote_fuel m Q) /\
  exists c r, s = c :: r /\ (c <? 128) = false.
Proof.
  intros H K. unfold rune_len in H. destruct s as [|b0 r]; [discriminate|].
  destruct (b0 <? 128) eqn:E0; [injection H as <-; lia|].
  destruct (big_head b0 E0) as [NB NC].
  split; [|now exists b0, r].
  destruct (in_range 194 223 b0) eqn:E1.
  { destruct r as [|c1 r]; [discriminate|]. destruct (cont c1) eqn:E2; [|discriminate]. injection H as <-.
    cbn [firstn app unquote_fuel]. rewrite NB, NC. unfold rune_len. rewrite E0, E1, E2. reflexivity. }
  destruct (in_range 224 239 b0) eqn:E3.
  { destruct r as [|c1 [|c2 r]]; try discriminate.
    match type of H with (if ?b then _ else _) = _ => destruct b eqn:E4; [|discriminate] end. injection H as <-.
    cbn [firstn app unquote_fuel]. rewrite NB, NC. unfold rune_len. rewrite E0, E1, E3, E4. reflexivity. }
  destruct (in_range 240 244 b0) eqn:E5; [|discriminate].
  destruct r as [|c1 [|c2 [|c3 r]]]; try discriminate.
  match type of H with (if ?b then _ else _) = _ => destruct b eqn:E6; [|discriminate] end. injection H as <-.
  cbn [firstn app unquote_fuel]. rewrite NB, NC. unfold rune_len. rewrite E0, E1, E3, E5, E6. reflexivity.
Qed.

Lemma rune_len_length s k : rune_len s = Some k -> (1 <= k)%nat /\ length (firstn k s) = k.
Proof.
  intro H. unfold rune_len in H. destruct s as [|b0 r]; [discriminate|].
  repeat match type of H with
         | (if ?b then _ else _) = _ => destruct b; try discriminate
         | match ?l with _ => _ end = _ => destruct l; try discriminate
         end; injection H as <-; cbn; lia.
Qed.

(* U+2028 / U+2029 *)
Lemma ls_ps_unit s d Q m :
  ls_ps s = Some d ->
  unquote_fuel (S m) ([bs; 117; 50; 48; 50; d] ++ Q) = cons_opt (firstn 3 s) (unquote_fuel m Q) /\ rune_len s = Some 3%nat.
Proof.
  intro H. unfold ls_ps in H.
  destruct s as [|a [|b0 [|c r]]]; try discriminate.
  destruct ((a =? 226) && (b0 =? 128)) eqn:E; [|discriminate].
  apply andb_true_iff in E as [E1 E2]. apply N.eqb_eq in E1. apply N.eqb_eq in E2. subst a b0.
  destruct (c =? 168) eqn:E3.
  { apply N.eqb_eq in E3. subst c. injection H as <-. split; reflexivity. }
  destruct (c =? 169) eqn:E4; [|discriminate].
  apply N.eqb_eq in E4. subst c. injection H as <-. split; reflexivity.
Qed.

Lemma cons_opt_some u t : cons_opt u (Some t) = Some (u ++ t).
Proof. reflexivity. Qed.

(* ---------- the round trip ---------- *)
Lemma roundtrip_fuel n : forall s,
  valid_fuel n s = true ->
  forall m, (length (quote_fuel n s) <= m)%nat -> unquote_fuel m (quote_fuel n s) = Some s.
Proof.
  induction n as [|n IH]; intros [|c r] V m L; try (destruct m; reflexivity); try discriminate.
  cbn [valid_fuel] in V. cbn [quote_fuel] in *.
  destruct (rune_len (c :: r)) as [k|] eqn:RL; [|discriminate].
  destruct (rune_len_length _ _ RL) as [K1 KL].
  destruct k as [|[|k]]; [lia| |].
  - (* ASCII *)
    assert (C : c < 128).
    { unfold rune_len in RL. destruct (c <? 128) eqn:E; [now apply N.ltb_lt|].
      repeat match type of RL with
             | (if ?b then _ else _) = _ => destruct b; try discriminate
             | match ?l with _ => _ end = _ => destruct l; try discriminate
             end. }
    cbn [skipn] in V.
    destruct m as [|m]; [destruct (ascii_unit c [] 0 C) as [_ P]; rewrite app_length in L; lia|].
    destruct (ascii_unit c (quote_fuel n r) m C) as [U P]. rewrite U.
    rewrite (IH r V m); [reflexivity|]. rewrite app_length in L. lia.
  - (* multi-byte *)
    destruct (ls_ps (c :: r)) as [d|] eqn:LP.
    + destruct (ls_ps_unit _ d (quote_fuel n (skipn (S (S k)) (c :: r))) (pred m) LP) as [U R3].
      rewrite RL in R3. injection R3 as R3. 
      destruct m as [|m]; [cbn in L; lia|]. cbn [pred] in U.
      change ([bs; 117; 50; 48; 50; d] ++ quote_fuel n (skipn (S (S k)) (c :: r))) with
             ([bs; 117; 50; 48; 50; d] ++ quote_fuel n (skipn (S (S k)) (c :: r))) in *.
      rewrite U. rewrite (IH _ V m).
      * rewrite cons_opt_some. rewrite <- R3. now rewrite firstn_skipn.
      * cbn [app length] in L. lia.
    + destruct m as [|m]; [rewrite app_length, KL in L; lia|].
      destruct (rune_unit (c :: r) (S (S k)) (quote_fuel n (skipn (S (S k)) (c :: r))) m RL) as [U _]; [lia|].
      rewrite U. rewrite (IH _ V m).
      * rewrite cons_opt_some. now rewrite firstn_skipn.
      * rewrite app_length, KL in L. lia.
Qed.

Lemma json_string_roundtrip s : valid_utf8 s = true -> json_unquote (json_quote s) = Some s.
Proof. intro V. unfold json_unquote, json_quote. apply roundtrip_fuel; [exact V|lia]. Qed.

(* ---------- ASCII strings are valid UTF-8 ---------- *)
Lemma ascii_valid_fuel n : forall s, Forall (fun c => c < 128) s -> (length s <= n)%nat -> valid_fuel n s = true.
Proof.
  induction n as [|n IH]; intros [|c r] F L; try reflexivity; [cbn in L; lia|].
  inversion F as [|? ? C F']; subst. cbn [valid_fuel]. unfold rune_len.
  apply N.ltb_lt in C. rewrite C. cbn [skipn]. apply IH; [exact F'|cbn in L; lia].
Qed.

Lemma ascii_valid s : Forall (fun c => c < 128) s -> valid_utf8 s = true.
Proof. intro F. apply ascii_valid_fuel; [exact F|lia]. Qed.
