(* C11 — lemmas about Model/FileConfine.v: confinement of every mutation of the
   repaired store to the working directory. *)
From Oras Require Import Base.Prelude Model.FileConfine.
Require Import Lia.
Open Scope nat_scope.
Global Opaque FUEL NLINK.

(* ---------- paths ---------- *)

Lemma path_eqb_spec p q : path_eqb p q = true <-> p = q.
Proof.
  revert q; induction p as [|a p IH]; intros [|c q]; simpl; split; intro H;
    try reflexivity; try discriminate.
  - apply andb_true_iff in H as [H1 H2]. apply str_eqb_spec in H1. apply IH in H2. congruence.
  - injection H as -> ->. rewrite str_eqb_refl. simpl. now apply IH.
Qed.

Lemma path_eqb_refl p : path_eqb p p = true.
Proof. now apply path_eqb_spec. Qed.

Lemma path_eqb_neq p q : p <> q -> path_eqb p q = false.
Proof. intro H. destruct (path_eqb p q) eqn:E; auto. apply path_eqb_spec in E. contradiction. Qed.

Lemma strip_prefix_spec a l r : strip_prefix a l = Some r <-> l = a ++ r.
Proof.
  revert l; induction a as [|x a IH]; intros l; simpl.
  - split; [intros [= ->]; reflexivity | intros ->; reflexivity].
  - destruct l as [|y l]; [split; [discriminate | intro H; discriminate]|].
    destruct (str_eqb x y) eqn:E.
    + apply str_eqb_spec in E. subst y. rewrite IH. split; [intros ->; reflexivity | intros [= ->]; reflexivity].
    + split; [discriminate|]. intros [= -> _]. rewrite str_eqb_refl in E. discriminate.
Qed.

Lemma inside_spec wd p : inside wd p = true <-> exists r, p = wd ++ r.
Proof.
  unfold inside. destruct (strip_prefix wd p) as [r|] eqn:E.
  - apply strip_prefix_spec in E. split; eauto.
  - split; [discriminate|]. intros [r Hr]. apply strip_prefix_spec in Hr. congruence.
Qed.

Lemma inside_app wd p x : inside wd p = true -> inside wd (p ++ x) = true.
Proof. rewrite !inside_spec. intros [r ->]. exists (r ++ x). now rewrite app_assoc. Qed.

Lemma inside_refl wd : inside wd wd = true.
Proof. apply inside_spec. exists []. now rewrite app_nil_r. Qed.

(* strictly inside *)
Definition sinside (wd p : path) : Prop := exists x r, p = wd ++ x :: r.

Lemma sinside_inside wd p : sinside wd p -> inside wd p = true.
Proof. intros (x & r & ->). apply inside_spec. eauto. Qed.

Lemma sinside_not_prefix wd p q r : sinside wd p -> wd = q ++ r -> p <> q.
Proof.
  intros (x & t & ->) -> E. apply (f_equal (@length _)) in E.
  rewrite !app_length in E. simpl in E. lia.
Qed.

Lemma removelast_snoc {A} (l : list A) x : removelast (l ++ [x]) = l.
Proof. apply removelast_last. Qed.

(* ---------- lookup after updates ---------- *)

Lemma lookup_del l p q :
  lookup_ents (del_ents l p) q = if path_eqb p q then None else lookup_ents l q.
Proof.
  induction l as [|[k n] l IH]; simpl.
  - now destruct (path_eqb p q).
  - destruct (path_eqb k p) eqn:E; simpl.
    + apply path_eqb_spec in E. subst k. rewrite IH. destruct (path_eqb p q); reflexivity.
    + rewrite IH. destruct (path_eqb k q) eqn:E2; [|reflexivity].
      apply path_eqb_spec in E2. subst k. rewrite path_eqb_neq; [reflexivity|].
      intros ->. rewrite path_eqb_refl in E. discriminate.
Qed.

Lemma lookup_set p n f q :
  lookup (set_ent p n f) q = if path_eqb p q then Some n else lookup f q.
Proof.
  unfold lookup, set_ent; simpl. destruct (path_eqb p q) eqn:E; [reflexivity|].
  rewrite lookup_del, E. reflexivity.
Qed.

Lemma lookup_delent p f q :
  lookup (del_ent p f) q = if path_eqb p q then None else lookup f q.
Proof. unfold lookup, del_ent; simpl. apply lookup_del. Qed.

Lemma lookup_newfile p c f q :
  lookup (new_file p c f) q = if path_eqb p q then Some (NFile (nexti f)) else lookup f q.
Proof.
  unfold lookup, new_file; simpl. destruct (path_eqb p q) eqn:E; [reflexivity|].
  rewrite lookup_del, E. reflexivity.
Qed.

Lemma lookup_setcont i c f q : lookup (set_cont i c f) q = lookup f q.
Proof. reflexivity. Qed.

Lemma lookup_setdmode p m f q : lookup (set_dmode p m f) q = lookup f q.
Proof. reflexivity. Qed.

(* ---------- the invariant ---------- *)

(* a link whose walk, started in directory [base] (the root for an absolute target),
   is lexically inside the working directory *)
Definition good_link (wd base : path) (cs : list comp) : Prop :=
  exists m ns, cs = Ups m ++ Nms ns /\
               inside wd (firstn (length base - m) base ++ ns) = true.

Record Inv (wd : path) (f : fsys) : Prop := mkInv {
  inv_wd   : forall q r, wd = q ++ r -> q <> [] -> lookup f q = Some NDir;
  inv_sym  : forall p d a cs, lookup f p = Some (NSym d a cs) -> inside wd p = true ->
             good_link wd (if a then [] else removelast p) cs;
  inv_ino  : forall p q i, lookup f p = Some (NFile i) -> lookup f q = Some (NFile i) ->
             inside wd p = true -> inside wd q = true;
  inv_fresh : forall p i, lookup f p = Some (NFile i) -> i < nexti f
}.

Definition same_outside (wd : path) (f f' : fsys) : Prop :=
  forall p, inside wd p = false -> view_at f' p = view_at f p.

Definition Keeps (wd : path) (f f' : fsys) : Prop := Inv wd f' /\ same_outside wd f f'.

Lemma same_outside_refl wd f : same_outside wd f f.
Proof. intros p _. reflexivity. Qed.

Lemma same_outside_trans wd f g h : same_outside wd f g -> same_outside wd g h -> same_outside wd f h.
Proof. intros A B p Hp. rewrite (B p Hp). apply A, Hp. Qed.

Lemma Keeps_refl wd f : Inv wd f -> Keeps wd f f.
Proof. intro H. split; [exact H | apply same_outside_refl]. Qed.

Lemma Keeps_trans wd f g h : Keeps wd f g -> Keeps wd g h -> Keeps wd f h.
Proof. intros [_ A] [I B]. split; [exact I | eapply same_outside_trans; eauto]. Qed.

Lemma outside_neq wd p q : inside wd p = true -> inside wd q = false -> path_eqb p q = false.
Proof. intros A B. apply path_eqb_neq. intros ->. congruence. Qed.

(* what may be written at a location strictly inside *)
Definition node_ok (wd : path) (f : fsys) (p : path) (n : node) : Prop :=
  match n with
  | NDir => True
  | NFile i => exists q, inside wd q = true /\ lookup f q = Some (NFile i)
  | NSym d a cs => good_link wd (if a then [] else removelast p) cs
  end.

Lemma keeps_set wd f p n :
  Inv wd f -> sinside wd p -> node_ok wd f p n -> Keeps wd f (set_ent p n f).
Proof.
  intros I Hp Hn. pose proof (sinside_inside _ _ Hp) as Hin. split.
  - constructor.
    + intros q r E Hq. rewrite lookup_set. rewrite path_eqb_neq; [eapply inv_wd; eauto|].
      eapply sinside_not_prefix; eauto.
    + intros p0 d a cs. rewrite lookup_set. destruct (path_eqb p p0) eqn:E.
      * apply path_eqb_spec in E. subst p0. intros [= ->] _. exact Hn.
      * apply (inv_sym _ _ I).
    + intros p0 q0 i. rewrite !lookup_set.
      destruct (path_eqb p p0) eqn:E1; destruct (path_eqb p q0) eqn:E2.
      * apply path_eqb_spec in E2. subst q0. intros _ _ _. exact Hin.
      * intros [= ->] Hq _. destruct Hn as (q1 & Hq1 & Lq1). eapply (inv_ino _ _ I q1 q0); eauto.
      * apply path_eqb_spec in E2. subst q0. intros _ _ _. exact Hin.
      * apply (inv_ino _ _ I).
    + intros p0 i. rewrite lookup_set. destruct (path_eqb p p0) eqn:E.
      * intros [= ->]. destruct Hn as (q1 & _ & Lq1). eapply (inv_fresh _ _ I); eauto.
      * apply (inv_fresh _ _ I).
  - intros q Hq. unfold view_at. rewrite lookup_set, (outside_neq _ _ _ Hin Hq). reflexivity.
Qed.

Lemma keeps_del wd f p : Inv wd f -> sinside wd p -> Keeps wd f (del_ent p f).
Proof.
  intros I Hp. pose proof (sinside_inside _ _ Hp) as Hin. split.
  - constructor.
    + intros q r E Hq. rewrite lookup_delent. rewrite path_eqb_neq; [eapply inv_wd; eauto|].
      eapply sinside_not_prefix; eauto.
    + intros p0 d a cs. rewrite lookup_delent. destruct (path_eqb p p0); [discriminate|].
      apply (inv_sym _ _ I).
    + intros p0 q0 i. rewrite !lookup_delent.
      destruct (path_eqb p p0); [discriminate|]. destruct (path_eqb p q0); [discriminate|].
      apply (inv_ino _ _ I).
    + intros p0 i. rewrite lookup_delent. destruct (path_eqb p p0); [discriminate|].
      apply (inv_fresh _ _ I).
  - intros q Hq. unfold view_at. rewrite lookup_delent, (outside_neq _ _ _ Hin Hq). reflexivity.
Qed.

Lemma content_setcont_other i c f j : j <> i -> content (set_cont i c f) j = content f j.
Proof. intro H. unfold content, set_cont; simpl. destruct (Nat.eqb i j) eqn:E; [|reflexivity].
  apply Nat.eqb_eq in E. congruence. Qed.

Lemma keeps_setcont wd f i c p :
  Inv wd f -> inside wd p = true -> lookup f p = Some (NFile i) -> Keeps wd f (set_cont i c f).
Proof.
  intros I Hin L. split.
  - constructor.
    + exact (inv_wd _ _ I).
    + exact (inv_sym _ _ I).
    + exact (inv_ino _ _ I).
    + exact (inv_fresh _ _ I).
  - intros q Hq. unfold view_at. rewrite lookup_setcont.
    destruct (lookup f q) as [[|j|]|] eqn:E; try reflexivity.
    f_equal. apply content_setcont_other. intros ->.
    pose proof (inv_ino _ _ I p q i L E Hin). congruence.
Qed.

Lemma keeps_newfile wd f p c : Inv wd f -> sinside wd p -> Keeps wd f (new_file p c f).
Proof.
  intros I Hp. pose proof (sinside_inside _ _ Hp) as Hin. split.
  - constructor.
    + intros q r E Hq. rewrite lookup_newfile. rewrite path_eqb_neq; [eapply inv_wd; eauto|].
      eapply sinside_not_prefix; eauto.
    + intros p0 d a cs. rewrite lookup_newfile. destruct (path_eqb p p0); [discriminate|].
      apply (inv_sym _ _ I).
    + intros p0 q0 i. rewrite !lookup_newfile.
      destruct (path_eqb p p0) eqn:E1; destruct (path_eqb p q0) eqn:E2.
      * apply path_eqb_spec in E2. subst q0. intros _ _ _. exact Hin.
      * intros [= <-] Hq _. apply (inv_fresh _ _ I) in Hq. lia.
      * apply path_eqb_spec in E2. subst q0. intros _ _ _. exact Hin.
      * apply (inv_ino _ _ I).
    + intros p0 i. rewrite lookup_newfile. unfold new_file at 1; simpl. destruct (path_eqb p p0).
      * intros [= <-]. lia.
      * intro H. apply (inv_fresh _ _ I) in H. lia.
  - intros q Hq. unfold view_at. rewrite lookup_newfile, (outside_neq _ _ _ Hin Hq).
    destruct (lookup f q) as [[|j|]|] eqn:E; try reflexivity.
    f_equal. unfold content, new_file; simpl. destruct (Nat.eqb (nexti f) j) eqn:E2; [|reflexivity].
    apply Nat.eqb_eq in E2. apply (inv_fresh _ _ I) in E. lia.
Qed.

Lemma keeps_setdmode wd f p m : Inv wd f -> inside wd p = true -> Keeps wd f (set_dmode p m f).
Proof.
  intros I Hin. split.
  - constructor.
    + exact (inv_wd _ _ I).
    + exact (inv_sym _ _ I).
    + exact (inv_ino _ _ I).
    + exact (inv_fresh _ _ I).
  - intros q Hq. unfold view_at. rewrite lookup_setdmode.
    destruct (lookup f q) as [[|j|]|]; try reflexivity.
    unfold dir_mode, set_dmode; simpl. rewrite (outside_neq _ _ _ Hin Hq). reflexivity.
Qed.

Lemma keeps_newdir wd f p m : Inv wd f -> sinside wd p -> Keeps wd f (new_dir p m f).
Proof.
  intros I Hp. unfold new_dir.
  pose proof (keeps_set wd f p NDir I Hp Logic.I) as K1.
  eapply Keeps_trans; [exact K1|]. apply keeps_setdmode; [exact (proj1 K1) | now apply sinside_inside].
Qed.

(* ---------- kernel path resolution stays inside ---------- *)

Definition compat (wd lv : path) : Prop := exists x, inside wd (lv ++ x) = true.

Definition lexv (cur : path) (m : nat) (ns : list name) : path :=
  firstn (length cur - m) cur ++ ns.

Lemma lexv_nil cur : lexv cur 0 [] = cur.
Proof. unfold lexv. rewrite Nat.sub_0_r, firstn_all, app_nil_r. reflexivity. Qed.

Lemma lexv_cons cur c ns : lexv cur 0 (c :: ns) = cur ++ c :: ns.
Proof. unfold lexv. rewrite Nat.sub_0_r, firstn_all. reflexivity. Qed.

Lemma lexv_up cur m ns : lexv (removelast cur) m ns = lexv cur (S m) ns.
Proof.
  unfold lexv. f_equal.
  destruct cur as [|y cur'] using rev_ind; [reflexivity|].
  rewrite removelast_last, app_length. simpl.
  replace (length cur' + 1 - S m) with (length cur' - m) by lia.
  rewrite firstn_app. replace (length cur' - m - length cur') with 0 by lia.
  simpl. rewrite app_nil_r. reflexivity.
Qed.

Lemma snoc_cases wd cur c rest :
  inside wd (cur ++ c :: rest) = true ->
  (exists l, wd = (cur ++ [c]) ++ l) \/ sinside wd (cur ++ [c]).
Proof.
  rewrite inside_spec. intros [r E].
  apply app_eq_app in E as [l [[E1 E2]|[E1 E2]]].
  - right. subst cur. destruct l as [|y l'].
    + exists c, []. now rewrite app_nil_r.
    + exists y, (l' ++ [c]). now rewrite <- app_assoc.
  - destruct l as [|y l'].
    + right. rewrite app_nil_r in E1. subst cur. exists c, []. reflexivity.
    + left. injection E2 as <- _. exists l'. rewrite <- app_assoc. exact E1.
Qed.

Lemma inside_sinside_app wd a ns : inside wd a = true -> ns <> [] -> sinside wd (a ++ ns).
Proof.
  rewrite inside_spec. intros [r ->] H. destruct ns as [|n ns']; [contradiction|].
  destruct r as [|y r'].
  - exists n, ns'. now rewrite app_nil_r.
  - exists y, (r' ++ n :: ns'). now rewrite <- app_assoc.
Qed.

Lemma Ups_Nms_app m ns r : (Ups m ++ Nms ns) ++ Nms r = Ups m ++ Nms (ns ++ r).
Proof. unfold Nms. now rewrite <- app_assoc, map_app. Qed.

Definition walk_post (wd : path) (f : fsys) (strict ins : bool) (w : wres) : Prop :=
  match w with
  | WDir p => compat wd p /\ (strict = true -> sinside wd p) /\ (ins = true -> inside wd p = true)
  | WFile p i => sinside wd p /\ lookup f p = Some (NFile i)
  | WSym p d a cs => sinside wd p /\ lookup f p = Some (NSym d a cs)
  | WNoEnt p => sinside wd p /\ lookup f p = None
  | _ => True
  end.

Lemma walk_inside wd f (I : Inv wd f) :
  forall fuel nl cur m ns follow strict ins,
    compat wd (lexv cur m ns) ->
    (strict = true -> follow = false /\ sinside wd (lexv cur m ns)) ->
    (ins = true -> inside wd (lexv cur m ns) = true) ->
    walk_post wd f strict ins (walk fuel f nl cur (Ups m ++ Nms ns) follow).
Proof.
  induction fuel as [|fuel IH]; intros nl cur m ns follow strict ins Hc Hs Hi; [exact Logic.I|].
  destruct m as [|m].
  - destruct ns as [|c ns].
    + simpl. rewrite lexv_nil in *. split; [exact Hc|]. split; [|exact Hi]. intro E. apply Hs in E. tauto.
    + rewrite lexv_cons in *.
      assert (Hstep : walk_post wd f strict ins (walk fuel f nl (cur ++ [c]) (Ups 0 ++ Nms ns) follow)).
      { apply IH; rewrite ?lexv_nil; unfold lexv; rewrite Nat.sub_0_r, firstn_all, <- app_assoc; assumption. }
      simpl in Hstep. simpl.
      destruct Hc as [x Hc]. rewrite <- app_assoc in Hc. simpl in Hc.
      apply snoc_cases in Hc as [[l Hl]|Hp].
      * rewrite (inv_wd _ _ I _ _ Hl); [exact Hstep|]. destruct cur; discriminate.
      * destruct (lookup f (cur ++ [c])) as [[|i|d a cs]|] eqn:L.
        -- exact Hstep.
        -- destruct ns; [split; assumption | exact Logic.I].
        -- pose proof (inv_sym _ _ I _ _ _ _ L (sinside_inside _ _ Hp)) as (m' & ns2 & -> & Hg).
           rewrite removelast_last in Hg.
           assert (Hgo : (ns <> [] \/ follow = true) -> forall nl', walk_post wd f strict ins
                     (walk fuel f nl' (if a then [] else cur) ((Ups m' ++ Nms ns2) ++ Nms ns) follow)).
           { intros Hor nl'. rewrite Ups_Nms_app. apply IH.
             - exists []. rewrite app_nil_r. unfold lexv. rewrite app_assoc. apply inside_app. exact Hg.
             - intro E. destruct (Hs E) as [Hf _]. split; [exact Hf|].
               unfold lexv. rewrite app_assoc. apply inside_sinside_app; [exact Hg|].
               destruct Hor as [H|H]; [exact H | congruence].
             - intros _. unfold lexv. rewrite app_assoc. apply inside_app. exact Hg. }
           destruct ns as [|n ns'].
           ++ destruct follow.
              ** destruct nl as [|nl']; [exact Logic.I|]. apply Hgo. now right.
              ** split; assumption.
           ++ destruct follow; (destruct nl as [|nl']; [exact Logic.I|]; apply Hgo; left; discriminate).
        -- destruct ns; [split; assumption | exact Logic.I].
  - simpl. apply IH; rewrite lexv_up; assumption.
Qed.

(* ---------- where lexical and physical resolution agree ---------- *)

(* no proper prefix of [ns] below [cur] that the walk reaches is a symbolic link *)
Fixpoint lexreal (f : fsys) (cur : path) (ns : list name) : bool :=
  match ns with
  | [] => true
  | c :: r =>
    match r with
    | [] => true
    | _ => match lookup f (cur ++ [c]) with
           | Some NDir => lexreal f (cur ++ [c]) r
           | Some (NSym _ _ _) => false
           | _ => true
           end
    end
  end.

Definition loc_is (w : wres) (q : path) : Prop :=
  match w with
  | WDir p => p = q
  | WFile p _ => p = q
  | WSym p _ _ _ => p = q
  | WNoEnt p => p = q
  | _ => True
  end.

Lemma walk_lexical f : forall ns fuel nl cur,
  lexreal f cur ns = true -> loc_is (walk fuel f nl cur (Nms ns) false) (cur ++ ns).
Proof.
  induction ns as [|c r IH]; intros fuel nl cur H; destruct fuel as [|fuel]; try exact Logic.I.
  - simpl. now rewrite app_nil_r.
  - simpl. simpl in H.
    assert (Hrec : lookup f (cur ++ [c]) = Some NDir ->
                   loc_is (walk fuel f nl (cur ++ [c]) (Nms r) false) (cur ++ c :: r)).
    { intro L. destruct r as [|c2 r'].
      - destruct fuel; simpl; [exact Logic.I | reflexivity].
      - rewrite L in H. specialize (IH fuel nl (cur ++ [c]) H).
        rewrite <- app_assoc in IH. exact IH. }
    destruct (lookup f (cur ++ [c])) as [[|i|d a cs]|] eqn:L.
    + apply Hrec. reflexivity.
    + destruct r; simpl; [reflexivity | exact Logic.I].
    + destruct r as [|c2 r']; simpl; [reflexivity | discriminate].
    + destruct r; simpl; [reflexivity | exact Logic.I].
Qed.

Definition RealD (f : fsys) (cur d : path) : Prop :=
  forall q r, d = q ++ r -> q <> [] -> lookup f (cur ++ q) = Some NDir.

Lemma RealD_step f cur c d : RealD f cur (c :: d) -> RealD f (cur ++ [c]) d.
Proof.
  intros H q r E Hq. rewrite <- app_assoc. apply (H (c :: q) r); [now rewrite E | discriminate].
Qed.

Lemma RealD_head f cur c d : RealD f cur (c :: d) -> lookup f (cur ++ [c]) = Some NDir.
Proof. intro H. apply (H [c] d); [reflexivity | discriminate]. Qed.

Lemma walk_real f : forall d fuel nl cur follow,
  RealD f cur d ->
  match walk fuel f nl cur (Nms d) follow with
  | WDir p => p = cur ++ d
  | WErr => True
  | _ => False
  end.
Proof.
  induction d as [|c d IH]; intros fuel nl cur follow H; destruct fuel as [|fuel]; try exact Logic.I.
  - simpl. now rewrite app_nil_r.
  - simpl. rewrite (RealD_head _ _ _ _ H).
    specialize (IH fuel nl (cur ++ [c]) follow (RealD_step _ _ _ _ H)).
    rewrite <- app_assoc in IH. exact IH.
Qed.

Lemma lexreal_app f : forall d cur ns,
  RealD f cur d -> lexreal f (cur ++ d) ns = true -> lexreal f cur (d ++ ns) = true.
Proof.
  induction d as [|c d IH]; intros cur ns H L.
  - now rewrite app_nil_r in L.
  - simpl. destruct (d ++ ns) eqn:E; [reflexivity|]. rewrite <- E.
    rewrite (RealD_head _ _ _ _ H). apply IH; [apply (RealD_step _ _ _ _ H)|].
    now rewrite <- app_assoc.
Qed.

Lemma descend_lexreal f : forall ns cur,
  descend_ok f cur (removelast ns) = true -> lexreal f cur ns = true.
Proof.
  induction ns as [|c r IH]; intros cur H; [reflexivity|].
  destruct r as [|c2 r']; [reflexivity|].
  change (removelast (c :: c2 :: r')) with (c :: removelast (c2 :: r')) in H.
  simpl in H. cbn [lexreal].
  destruct (lookup f (cur ++ [c])) as [[|i|d a cs]|]; try reflexivity; try discriminate.
  apply IH. exact H.
Qed.

Lemma parents_ok_lexreal f dp ns :
  RealD f [] dp -> parents_ok f dp ns = true -> lexreal f dp ns = true.
Proof.
  intros HR H. unfold parents_ok in H.
  destruct (removelast ns) as [|q qs] eqn:E.
  - destruct ns as [|c [|c2 r]]; try reflexivity.
    change (removelast (c :: c2 :: r)) with (c :: removelast (c2 :: r)) in E. discriminate.
  - pose proof (walk_real f dp FUEL NLINK [] true HR) as W. unfold awalk in H.
    destruct (walk FUEL f NLINK [] (Nms dp) true); try contradiction; try discriminate.
    simpl in W. subst p. apply descend_lexreal. rewrite E. exact H.
Qed.

Lemma all_real_spec f : forall l cur, all_real f cur l = true -> RealD f cur l.
Proof.
  induction l as [|c l IH]; intros cur H q r E Hq.
  - destruct q; [contradiction | discriminate].
  - simpl in H. destruct (lookup f (cur ++ [c])) as [[|i|d a cs]|] eqn:L; try discriminate.
    destruct q as [|y q']; [contradiction|]. injection E as <- E.
    destruct q' as [|z q''].
    + exact L.
    + replace (cur ++ c :: z :: q'') with ((cur ++ [c]) ++ z :: q'') by now rewrite <- app_assoc.
      apply (IH _ H (z :: q'') r E). discriminate.
Qed.

Lemma RealD_wd wd f l : Inv wd f -> RealD f wd l -> RealD f [] (wd ++ l).
Proof.
  intros I H q r E Hq. simpl.
  apply app_eq_app in E as [t [[E1 E2]|[E1 E2]]].
  - (* wd = q ++ t *) eapply inv_wd; eauto.
  - (* q = wd ++ t *) subst q. destruct t as [|y t'].
    + rewrite app_nil_r. eapply (inv_wd _ _ I wd []); [now rewrite app_nil_r|].
      intros ->. apply Hq. reflexivity.
    + apply (H (y :: t') r E2). discriminate.
Qed.

(* ---------- filepath.Clean on components ---------- *)

Lemma lc_push abs : forall l cs m st, lc abs (Nms l ++ cs) m st = lc abs cs m (rev l ++ st).
Proof.
  induction l as [|a l IH]; intros cs m st; [reflexivity|].
  simpl. rewrite IH, <- app_assoc. reflexivity.
Qed.

Lemma clean_abs_names l : clean_abs (Nms l) = l.
Proof.
  unfold clean_abs. rewrite <- (app_nil_r (Nms l)), lc_push. simpl.
  rewrite app_nil_r, rev_involutive. reflexivity.
Qed.

Lemma rev_cons_inv {A} (F : list A) y t : rev F = y :: t -> t = rev (removelast F).
Proof.
  intro H. apply (f_equal (@rev A)) in H. rewrite rev_involutive in H. simpl in H.
  subst F. rewrite removelast_last, rev_involutive. reflexivity.
Qed.

Lemma lc_rel_abs base : forall cs m st mt,
  snd (lc true cs mt (st ++ rev (firstn (length base - m) base))) =
  firstn (length base - fst (lc false cs m st)) base ++ snd (lc false cs m st).
Proof.
  induction cs as [|[|s] r IH]; intros m st mt.
  - simpl. rewrite rev_app_distr, rev_involutive. reflexivity.
  - destruct st as [|y st'].
    + cbn [lc app].
      destruct (rev (firstn (length base - m) base)) as [|y t] eqn:E.
      * specialize (IH (S m) [] mt). cbn [app] in IH.
        assert (E2 : firstn (length base - S m) base = []).
        { apply (f_equal (@rev _)) in E. rewrite rev_involutive in E. simpl in E.
          destruct (length base - m) eqn:K.
          - replace (length base - S m) with 0 by lia. reflexivity.
          - destruct base; [reflexivity | discriminate]. }
        rewrite E2 in IH. simpl in IH. exact IH.
      * specialize (IH (S m) [] mt). cbn [app] in IH.
        pose proof (rev_cons_inv _ _ _ E) as Ht.
        assert (K : length base - m <> 0) by (intro K; rewrite K in E; discriminate).
        assert (E2 : removelast (firstn (length base - m) base) = firstn (length base - S m) base).
        { replace (length base - m) with (S (length base - S m)) by lia.
          apply removelast_firstn. lia. }
        rewrite E2 in Ht. subst t. exact IH.
    + cbn [lc app]. apply IH.
  - cbn [lc]. apply (IH m (s :: st) mt).
Qed.

Lemma clean_abs_join base cs :
  clean_abs (Nms base ++ cs) =
  firstn (length base - fst (clean_rel cs)) base ++ snd (clean_rel cs).
Proof.
  unfold clean_abs, clean_rel. rewrite lc_push, app_nil_r.
  pose proof (lc_rel_abs base cs 0 [] 0) as H. cbn [app] in H.
  rewrite Nat.sub_0_r, firstn_all in H. exact H.
Qed.

(* ---------- system calls ---------- *)

Definition dirs_kept (f f' : fsys) (ex : path -> Prop) : Prop :=
  forall q, lookup f q = Some NDir -> ~ ex q -> lookup f' q = Some NDir.

Definition nobody : path -> Prop := fun _ => False.

Lemma dirs_kept_refl f ex : dirs_kept f f ex.
Proof. intros q H _. exact H. Qed.

Lemma dirs_kept_trans f g h ex : dirs_kept f g ex -> dirs_kept g h ex -> dirs_kept f h ex.
Proof. intros A B q H N. apply B; [apply A|]; assumption. Qed.

Lemma dirs_kept_weaken f g (ex ex' : path -> Prop) :
  (forall q, ex q -> ex' q) -> dirs_kept f g ex -> dirs_kept f g ex'.
Proof. intros W A q H N. apply A; [exact H|]. intro E. apply N, W, E. Qed.

Lemma dirs_kept_set f p n ex : lookup f p <> Some NDir -> dirs_kept f (set_ent p n f) ex.
Proof.
  intros Hp q H _. rewrite lookup_set. destruct (path_eqb p q) eqn:E; [|exact H].
  apply path_eqb_spec in E. subst q. contradiction.
Qed.

Lemma dirs_kept_new f p c ex : lookup f p <> Some NDir -> dirs_kept f (new_file p c f) ex.
Proof.
  intros Hp q H _. rewrite lookup_newfile. destruct (path_eqb p q) eqn:E; [|exact H].
  apply path_eqb_spec in E. subst q. contradiction.
Qed.

Lemma dirs_kept_del f p : dirs_kept f (del_ent p f) (eq p).
Proof.
  intros q H N. rewrite lookup_delent. destruct (path_eqb p q) eqn:E; [|exact H].
  apply path_eqb_spec in E. contradiction.
Qed.

Lemma awalk_post_gen wd f ns follow strict ins :
  Inv wd f -> compat wd ns ->
  (strict = true -> follow = false /\ sinside wd ns) ->
  (ins = true -> inside wd ns = true) ->
  walk_post wd f strict ins (awalk f ns follow).
Proof.
  intros I Hc Hs Hi. unfold awalk.
  apply (walk_inside wd f I FUEL NLINK [] 0 ns follow strict ins); unfold lexv; simpl; assumption.
Qed.

Lemma awalk_post wd f ns follow strict :
  Inv wd f -> compat wd ns ->
  (strict = true -> follow = false /\ sinside wd ns) ->
  walk_post wd f strict false (awalk f ns follow).
Proof. intros I Hc Hs. apply awalk_post_gen; auto. discriminate. Qed.

Lemma nostrict (follow : bool) (P : Prop) : false = true -> follow = false /\ P.
Proof. discriminate. Qed.

Lemma inside_compat wd p : inside wd p = true -> compat wd p.
Proof. intro H. exists []. now rewrite app_nil_r. Qed.

Lemma Nms_snoc d c : Nms d ++ [Nm c] = Nms (d ++ [c]).
Proof. unfold Nms. now rewrite map_app. Qed.

Lemma dirs_kept_newdir f p m ex : lookup f p <> Some NDir -> dirs_kept f (new_dir p m f) ex.
Proof. intros Hp q H N. unfold new_dir. rewrite lookup_setdmode. exact (dirs_kept_set f p NDir ex Hp q H N). Qed.

Lemma mkdir_prefixes_keeps wd mo : forall t d f f',
  Inv wd f -> compat wd (d ++ t) ->
  mkdir_prefixes f (Nms d) (Nms t) mo = Some f' ->
  Keeps wd f f' /\ dirs_kept f f' nobody.
Proof.
  induction t as [|c t IH]; intros d f f' I Hc H.
  - injection H as <-. split; [now apply Keeps_refl | apply dirs_kept_refl].
  - cbn [Nms map mkdir_prefixes] in H. fold (Nms t) in H. rewrite Nms_snoc in H.
    assert (Hc1 : compat wd (d ++ [c])).
    { destruct Hc as [x Hx]. exists (t ++ x). rewrite <- app_assoc in *. exact Hx. }
    assert (Hc2 : compat wd ((d ++ [c]) ++ t)) by (rewrite <- app_assoc; exact Hc).
    pose proof (awalk_post wd f (d ++ [c]) true false I Hc1 (nostrict _ _)) as W1.
    pose proof (awalk_post wd f (d ++ [c]) false false I Hc1 (nostrict _ _)) as W2.
    unfold awalk in W1, W2.
    assert (Hcreate : match walk FUEL f NLINK [] (Nms (d ++ [c])) false with
                      | WNoEnt p => mkdir_prefixes (new_dir p mo f) (Nms (d ++ [c])) (Nms t) mo
                      | _ => None end = Some f' ->
                      Keeps wd f f' /\ dirs_kept f f' nobody).
    { destruct (walk FUEL f NLINK [] (Nms (d ++ [c])) false); try discriminate.
      destruct W2 as [Hp Lp]. intro H2.
      pose proof (keeps_newdir wd f p mo I Hp) as K1.
      destruct (IH _ _ _ (proj1 K1) Hc2 H2) as [K2 D2].
      split; [eapply Keeps_trans; eauto|].
      eapply dirs_kept_trans; [|exact D2]. apply dirs_kept_newdir. rewrite Lp. discriminate. }
    destruct (walk FUEL f NLINK [] (Nms (d ++ [c])) true); try (apply Hcreate; exact H).
    + apply (IH _ _ _ I Hc2 H).
    + discriminate.
Qed.

Lemma mkdir_all_keeps wd ns mo f f' :
  Inv wd f -> compat wd ns -> mkdir_all f (Nms ns) mo = Some f' ->
  Keeps wd f f' /\ dirs_kept f f' nobody.
Proof. intros I Hc H. apply (mkdir_prefixes_keeps wd mo ns [] f f' I Hc H). Qed.

Lemma write_at_keeps wd ns c mo f f' :
  Inv wd f -> compat wd ns -> write_at f (Nms ns) c mo = Some f' ->
  Keeps wd f f' /\ dirs_kept f f' nobody.
Proof.
  intros I Hc H. unfold write_at in H.
  pose proof (awalk_post wd f ns true false I Hc (nostrict _ _)) as W. unfold awalk in W.
  destruct (walk FUEL f NLINK [] (Nms ns) true); try discriminate; injection H as <-; destruct W as [Hp Lp].
  - split; [eapply keeps_setcont; eauto using sinside_inside|]. intros q Hq _. exact Hq.
  - split; [now apply keeps_newfile|]. apply dirs_kept_new. rewrite Lp. discriminate.
Qed.

Lemma chmod_at_keeps wd ns mo f f' :
  Inv wd f -> inside wd ns = true -> chmod_at f ns mo = Some f' ->
  Keeps wd f f' /\ dirs_kept f f' nobody.
Proof.
  intros I Hin H. unfold chmod_at in H.
  pose proof (awalk_post_gen wd f ns true false true I (inside_compat _ _ Hin) (nostrict _ _) (fun _ => Hin)) as W.
  destruct (awalk f ns true); try discriminate; injection H as <-.
  - destruct W as (_ & _ & Hp). split; [apply keeps_setdmode; [exact I | apply Hp; reflexivity]|]. intros q Hq _. exact Hq.
  - destruct W as [Hp Lp]. split; [exact (keeps_setcont wd f i _ p I (sinside_inside _ _ Hp) Lp)|]. intros q Hq _. exact Hq.
Qed.

Lemma chmod_if_keeps wd pres r fp mo f f' :
  Inv wd f -> inside wd fp = true ->
  (forall f1, r = Some f1 -> Keeps wd f f1 /\ dirs_kept f f1 nobody) ->
  chmod_if pres r fp mo = Some f' ->
  Keeps wd f f' /\ dirs_kept f f' nobody.
Proof.
  intros I Hin Hr H. unfold chmod_if in H. destruct r as [f1|]; [|discriminate].
  destruct (Hr f1 eq_refl) as [K1 D1]. destruct pres.
  - destruct (chmod_at_keeps wd fp mo f1 f' (proj1 K1) Hin H) as [K2 D2].
    split; [eapply Keeps_trans; eauto | eapply dirs_kept_trans; eauto].
  - injection H as <-. split; assumption.
Qed.

Lemma remove_at_keeps wd fp f f' :
  Inv wd f -> sinside wd fp -> lexreal f [] fp = true -> remove_at f fp = Some f' ->
  f' = del_ent fp f /\ Keeps wd f f' /\ dirs_kept f f' (eq fp).
Proof.
  intros I Hs HL H. unfold remove_at in H.
  pose proof (walk_lexical f fp FUEL NLINK [] HL) as Wl. fold (awalk f fp false) in Wl.
  assert (forall p, p = fp -> Some (del_ent p f) = Some f' ->
          f' = del_ent fp f /\ Keeps wd f f' /\ dirs_kept f f' (eq fp)).
  { intros p -> [= <-]. split; [reflexivity|]. split; [now apply keeps_del | apply dirs_kept_del]. }
  destruct (awalk f fp false); try discriminate; simpl in Wl; try (now apply (H0 p)).
  destruct p; [discriminate|]. destruct (has_child f (n :: p)); [discriminate|]. now apply (H0 (n :: p)).
Qed.

Lemma lexreal_ext f g : forall ns cur,
  (forall q r, ns = q ++ r -> q <> [] -> r <> [] -> lookup g (cur ++ q) = lookup f (cur ++ q)) ->
  lexreal g cur ns = lexreal f cur ns.
Proof.
  induction ns as [|c r IH]; intros cur H; [reflexivity|].
  cbn [lexreal]. destruct r as [|c2 r']; [reflexivity|].
  rewrite (H [c] (c2 :: r')); [|reflexivity|discriminate|discriminate].
  destruct (lookup f (cur ++ [c])) as [[|i|d a cs]|]; try reflexivity.
  apply IH. intros q r E Hq Hr. rewrite <- !app_assoc. apply (H (c :: q) r); [now rewrite E|discriminate|exact Hr].
Qed.

Lemma do_symlink_keeps wd fp n f f' :
  Inv wd f -> sinside wd fp -> lexreal f [] fp = true ->
  (forall f0, node_ok wd f0 fp n) ->
  do_symlink f fp n = Some f' ->
  Keeps wd f f' /\ dirs_kept f f' (eq fp).
Proof.
  intros I Hs HL Hn H. unfold do_symlink in H.
  pose proof (walk_lexical f fp FUEL NLINK [] HL) as Wl. fold (awalk f fp false) in Wl.
  assert (Hretry : match remove_at f fp with
                   | None => None
                   | Some f1 => match awalk f1 fp false with WNoEnt q => Some (set_ent q n f1) | _ => None end
                   end = Some f' -> Keeps wd f f' /\ dirs_kept f f' (eq fp)).
  { destruct (remove_at f fp) as [f1|] eqn:R; [|discriminate].
    destruct (remove_at_keeps wd fp f f1 I Hs HL R) as (E1 & K1 & D1).
    assert (HL1 : lexreal f1 [] fp = true).
    { rewrite <- HL. apply lexreal_ext. intros q r E Hq Hr. subst f1. simpl. rewrite lookup_delent.
      rewrite path_eqb_neq; [reflexivity|]. intros ->. apply (f_equal (@length _)) in E.
      rewrite app_length in E. destruct r; [contradiction|simpl in E; lia]. }
    pose proof (walk_lexical f1 fp FUEL NLINK [] HL1) as Wl1. fold (awalk f1 fp false) in Wl1.
    destruct (awalk f1 fp false); try discriminate. simpl in Wl1. subst p. intros [= <-].
    pose proof (keeps_set wd f1 fp n (proj1 K1) Hs (Hn f1)) as K2.
    split; [eapply Keeps_trans; eauto|].
    intros q Hq Nq. rewrite lookup_set. rewrite path_eqb_neq by exact Nq. apply D1; assumption. }
  pose proof (awalk_post wd f fp false false I (inside_compat _ _ (sinside_inside _ _ Hs)) (nostrict _ _)) as W.
  destruct (awalk f fp false); try discriminate; try (apply Hretry; exact H).
  simpl in Wl. subst p. injection H as <-. destruct W as [_ Lp].
  split; [apply keeps_set; auto|]. apply dirs_kept_set. rewrite Lp. discriminate.
Qed.

Lemma do_link_keeps wd cwd fp pn tgt f f' :
  Inv wd f -> compat wd fp -> inside wd pn = true ->
  do_link cfg_fixed f cwd fp pn tgt = Some f' ->
  Keeps wd f f' /\ dirs_kept f f' nobody.
Proof.
  intros I Hc Hpn H. unfold do_link in H. cbn [fixH fixS cfg_fixed] in H.
  pose proof (awalk_post wd f pn false false I (inside_compat _ _ Hpn) (nostrict _ _)) as W.
  pose proof (awalk_post wd f fp false false I Hc (nostrict _ _)) as W2.
  destruct tgt as [|t0 tgt']; [discriminate|].
  destruct (awalk f pn false); try discriminate.
  destruct W as [Hp Lp].
  destruct (awalk f fp false); try discriminate. injection H as <-. destruct W2 as [Hq Lq].
  split.
  - apply keeps_set; auto. exists p. split; [now apply sinside_inside | exact Lp].
  - apply dirs_kept_set. rewrite Lq. discriminate.
Qed.

(* ---------- extraction ---------- *)

Lemma ensure_link_inside wd f dp fp tgt pn :
  inside wd dp = true -> ensure_link f dp fp tgt = Some pn ->
  pn = link_abs_path fp tgt /\ inside wd pn = true.
Proof.
  intros Hd H. unfold ensure_link in H.
  destruct (strip_prefix dp (link_abs_path fp tgt)) as [ns|] eqn:E; [|discriminate].
  destruct (parents_ok f dp ns); [|discriminate]. injection H as <-.
  split; [reflexivity|]. apply strip_prefix_spec in E. rewrite E. now apply inside_app.
Qed.

Lemma sym_node_ok wd fp tgt :
  inside wd (link_abs_path fp tgt) = true ->
  forall f0 : fsys, node_ok wd f0 fp (sym_node cfg_fixed tgt).
Proof.
  intros H f0. unfold sym_node, node_ok. cbn [fixC cfg_fixed].
  unfold link_abs_path in H. unfold clean_str. destruct (is_abs tgt).
  - exists 0, (clean_abs (comps_of tgt)). split; [reflexivity|]. simpl. exact H.
  - exists (fst (clean_rel (comps_of tgt))), (snd (clean_rel (comps_of tgt))).
    split; [reflexivity|]. rewrite clean_abs_join in H. exact H.
Qed.

Lemma RealD_kept f f' dp (ex : path -> Prop) :
  RealD f [] dp -> dirs_kept f f' ex ->
  (forall q r, dp = q ++ r -> ~ ex q) -> RealD f' [] dp.
Proof. intros H D N q r E Hq. simpl. apply D; [apply (H q r E Hq) | apply (N q r E)]. Qed.

Lemma extract_entry_keeps wd pres cwd dp dirName f e f' :
  Inv wd f -> inside wd dp = true -> RealD f [] dp ->
  extract_entry cfg_fixed pres cwd dp dirName f e = Some f' ->
  Keeps wd f f' /\ RealD f' [] dp.
Proof.
  intros I Hd HR H. unfold extract_entry, resolve_rel in H. cbn [fixR cfg_fixed] in H.
  destruct (entry_rel dp dirName (entry_name e)) as [rel|] eqn:ER; [|discriminate].
  destruct (parents_ok f dp rel) eqn:PO; [|discriminate].
  assert (Hfp : inside wd (dp ++ rel) = true) by now apply inside_app.
  assert (HL : lexreal f [] (dp ++ rel) = true).
  { apply lexreal_app; [exact HR|]. simpl. now apply parents_ok_lexreal. }
  assert (Hnob : forall g, Keeps wd f g /\ dirs_kept f g nobody -> Keeps wd f g /\ RealD g [] dp).
  { intros g [K D]. split; [exact K|]. eapply RealD_kept; [exact HR | exact D | intros q r _ []]. }
  destruct e as [nm c mo|nm mo|nm tgt|nm tgt|nm]; cbn [entry_name] in *.
  - apply Hnob. apply (chmod_if_keeps wd pres (write_at f (Nms (dp ++ rel)) c mo) (dp ++ rel) mo f f' I Hfp); [|exact H].
    intros f1 E1. apply (write_at_keeps wd (dp ++ rel) c mo f f1 I (inside_compat _ _ Hfp) E1).
  - apply Hnob. apply (chmod_if_keeps wd pres (mkdir_all f (Nms (dp ++ rel)) mo) (dp ++ rel) mo f f' I Hfp); [|exact H].
    intros f1 E1. apply (mkdir_all_keeps wd (dp ++ rel) mo f f1 I (inside_compat _ _ Hfp) E1).
  - destruct rel as [|r0 rel']; [discriminate|]. set (rel := r0 :: rel') in *.
    destruct (ensure_link f dp (dp ++ rel) tgt) as [pn|] eqn:EL; [|discriminate].
    destruct (ensure_link_inside _ _ _ _ _ _ Hd EL) as [_ Hpn].
    apply Hnob. apply (do_link_keeps wd cwd (dp ++ rel) pn tgt f f' I (inside_compat _ _ Hfp) Hpn H).
  - destruct rel as [|r0 rel']; [discriminate|]. set (rel := r0 :: rel') in *.
    destruct (ensure_link f dp (dp ++ rel) tgt) as [pn|] eqn:EL; [|discriminate].
    destruct (ensure_link_inside _ _ _ _ _ _ Hd EL) as [-> Hpn].
    destruct tgt as [|t0 tgt']; [discriminate|].
    assert (Hrel : rel <> []) by discriminate.
    assert (Hs : sinside wd (dp ++ rel)) by (apply inside_sinside_app; assumption).
    destruct (do_symlink_keeps wd (dp ++ rel) _ f f' I Hs HL (sym_node_ok wd _ _ Hpn) H) as [K D].
    split; [exact K|]. eapply RealD_kept; eauto.
    intros q r E <-. apply (f_equal (@length _)) in E. rewrite !app_length in E.
    subst rel. simpl in E. lia.
  - injection H as <-. split; [now apply Keeps_refl | exact HR].
Qed.

Lemma extract_keeps wd pres cwd dp dirName : forall es f f' ok,
  Inv wd f -> inside wd dp = true -> RealD f [] dp ->
  extract cfg_fixed pres cwd dp dirName f es = (f', ok) ->
  Keeps wd f f'.
Proof.
  induction es as [|e es IH]; intros f f' ok I Hd HR H.
  - injection H as <- _. now apply Keeps_refl.
  - cbn [extract] in H.
    destruct (extract_entry cfg_fixed pres cwd dp dirName f e) as [f1|] eqn:E.
    + destruct (extract_entry_keeps _ _ _ _ _ _ _ _ I Hd HR E) as [K1 HR1].
      eapply Keeps_trans; [exact K1|]. eapply IH; eauto. exact (proj1 K1).
    + injection H as <- _. now apply Keeps_refl.
Qed.

(* ---------- push ---------- *)

Lemma removelast_map {A B} (g : A -> B) (l : list A) : removelast (map g l) = map g (removelast l).
Proof. induction l as [|a [|a' l'] IH]; try reflexivity. cbn [map removelast] in *. now rewrite IH. Qed.

Lemma removelast_Nms l : removelast (Nms l) = Nms (removelast l).
Proof. apply removelast_map. Qed.

Lemma compat_removelast wd l : inside wd l = true -> compat wd (removelast l).
Proof.
  intro H. destruct l as [|a l'] using rev_ind.
  - exists []. exact H.
  - rewrite removelast_last. exists [a]. exact H.
Qed.

Lemma push_keeps wd pres cwd s o s' ok :
  Inv wd (st_fs s) ->
  push cfg_fixed pres wd cwd s o = (s', ok) ->
  Keeps wd (st_fs s) (st_fs s').
Proof.
  intros I H. unfold push in H.
  destruct (push_title o) as [|t0 tt] eqn:ET.
  { injection H as <- _. now apply Keeps_refl. }
  rewrite <- ET in H.
  destruct (existsb (str_eqb (push_title o)) (st_names s)).
  { injection H as <- _. now apply Keeps_refl. }
  destruct (write_path cfg_fixed wd (push_title o)) as [raw|] eqn:EW.
  2:{ injection H as <- _. now apply Keeps_refl. }
  assert (Hraw : exists cl, raw = Nms cl /\ inside wd cl = true).
  { unfold write_path in EW. cbn [fixA cfg_fixed] in EW.
    match type of EW with (if inside wd ?c then _ else _) = _ => destruct (inside wd c) eqn:Ein; [|discriminate] end.
    injection EW as <-. eexists. split; [reflexivity | exact Ein]. }
  destruct Hraw as (cl & -> & Hcl).
  destruct o as [t c|t es]; cbn [push_title] in *.
  - rewrite removelast_Nms, clean_abs_names in H.
    destruct (mkdir_all (st_fs s) (Nms (removelast cl)) 511) as [f1|] eqn:M.
    2:{ injection H as <- _. now apply Keeps_refl. }
    destruct (mkdir_all_keeps wd _ _ _ _ I (compat_removelast _ _ Hcl) M) as [K1 _].
    destruct (write_at f1 (Nms cl) c 438) as [f2|] eqn:Wr.
    + injection H as <- _. simpl. eapply Keeps_trans; [exact K1|].
      eapply write_at_keeps; eauto using inside_compat. exact (proj1 K1).
    + injection H as <- _. exact K1.
  - rewrite clean_abs_names in H. cbn [fixD cfg_fixed] in H.
    destruct (mkdir_all (st_fs s) (Nms cl) 511) as [f1|] eqn:M.
    2:{ injection H as <- _. now apply Keeps_refl. }
    destruct (mkdir_all_keeps wd _ _ _ _ I (inside_compat _ _ Hcl) M) as [K1 _].
    destruct (strip_prefix wd cl) as [rel|] eqn:SP.
    2:{ injection H as <- _. exact K1. }
    destruct (all_real f1 wd rel) eqn:AR.
    2:{ injection H as <- _. exact K1. }
    cbn [negb] in H.
    destruct (extract cfg_fixed pres cwd cl t f1 es) as [f2 ok2] eqn:EX.
    injection H as <- _. simpl.
    eapply Keeps_trans; [exact K1|].
    apply strip_prefix_spec in SP. subst cl.
    eapply extract_keeps; eauto. exact (proj1 K1).
    apply RealD_wd; [exact (proj1 K1)|]. now apply all_real_spec.
Qed.

Lemma pushes_keeps wd pres cwd : forall os s s' oks,
  Inv wd (st_fs s) ->
  pushes cfg_fixed pres wd cwd s os = (s', oks) ->
  Keeps wd (st_fs s) (st_fs s').
Proof.
  induction os as [|o os IH]; intros s s' oks I H.
  - injection H as <- _. now apply Keeps_refl.
  - cbn [pushes] in H.
    destruct (push cfg_fixed pres wd cwd s o) as [s1 ok] eqn:P.
    destruct (pushes cfg_fixed pres wd cwd s1 os) as [s2 oks2] eqn:Ps.
    injection H as <- _.
    pose proof (push_keeps _ _ _ _ _ _ _ I P) as K1.
    eapply Keeps_trans; [exact K1|]. eapply IH; eauto. exact (proj1 K1).
Qed.

(* ---------- names that resolve outside are rejected ---------- *)

(* the lexical location a name denotes, taken relative to the working directory *)
Definition lex_loc (wd : path) (s : str) : path :=
  clean_abs (if is_abs s then comps_of s else Nms wd ++ comps_of s).

Lemma write_path_lex g wd title raw :
  write_path g wd title = Some raw -> inside wd (lex_loc wd title) = true /\ clean_abs raw = lex_loc wd title.
Proof.
  unfold write_path, lex_loc. destruct (is_abs title).
  - destruct (inside wd (clean_abs (comps_of title))) eqn:E; [|discriminate].
    intros [= <-]. split; [reflexivity|]. destruct (fixA g); [apply clean_abs_names | reflexivity].
  - rewrite clean_abs_names.
    destruct (inside wd (clean_abs (Nms wd ++ comps_of title))) eqn:E; [|discriminate].
    intros [= <-]. split; [reflexivity|]. destruct (fixA g); apply clean_abs_names.
Qed.

Lemma push_outside_title g pres wd cwd s o :
  inside wd (lex_loc wd (push_title o)) = false -> push_title o <> [] ->
  push g pres wd cwd s o = (s, false).
Proof.
  intros H Hne. unfold push. destruct (push_title o) as [|t0 tt] eqn:ET; [contradiction|].
  rewrite <- ET in *. destruct (existsb (str_eqb (push_title o)) (st_names s)); [reflexivity|].
  destruct (write_path g wd (push_title o)) as [raw|] eqn:EW; [|reflexivity].
  apply write_path_lex in EW as [E _]. congruence.
Qed.

(* an accepted entry name denotes a location below the unpack directory *)
Lemma entry_rel_inside wd title nm ns :
  entry_rel (lex_loc wd title) title nm = Some ns ->
  lex_loc wd nm = lex_loc wd title ++ ns.
Proof.
  unfold entry_rel, lex_loc, rel_under, clean_str. destruct (is_abs nm) eqn:An.
  - cbn [Bool.eqb fst snd andb Nat.eqb]. intro H. apply strip_prefix_spec in H. exact H.
  - destruct (is_abs title) eqn:At; cbn [Bool.eqb andb]; [discriminate|].
    destruct (Nat.eqb (fst (clean_rel (comps_of title))) (fst (clean_rel (comps_of nm)))) eqn:Em; [|discriminate].
    apply Nat.eqb_eq in Em. intro H. apply strip_prefix_spec in H.
    rewrite !clean_abs_join, H, Em, app_assoc. reflexivity.
Qed.

Lemma entry_outside_rejected g pres wd cwd title f e :
  inside wd (lex_loc wd title) = true ->
  inside wd (lex_loc wd (entry_name e)) = false ->
  extract_entry g pres cwd (lex_loc wd title) title f e = None.
Proof.
  intros Ht He. unfold extract_entry, resolve_rel.
  destruct (entry_rel (lex_loc wd title) title (entry_name e)) as [ns|] eqn:E; [|reflexivity].
  apply entry_rel_inside in E. rewrite E, inside_app in He; [discriminate | exact Ht].
Qed.

Lemma extract_stops g pres cwd dp dirName e es2 : forall es1 f,
  (forall f0, extract_entry g pres cwd dp dirName f0 e = None) ->
  snd (extract g pres cwd dp dirName f (es1 ++ e :: es2)) = false.
Proof.
  induction es1 as [|e1 es1 IH]; intros f H; cbn [app extract].
  - now rewrite H.
  - destruct (extract_entry g pres cwd dp dirName f e1); [now apply IH | reflexivity].
Qed.

(* ---------- a concrete tree: the hypotheses are satisfiable, the unrepaired code escapes ---------- *)

Definition wd0 : path := [b "r"; b "w"].
Definition cwd0 : path := [b "c"].
Definition fs0 : fsys :=
  mkFS [ ([b "r"], NDir); ([b "r"; b "w"], NDir); ([b "r"; b "victim"], NFile 0);
         ([b "victim"], NFile 1); ([b "c"], NDir); ([b "c"; b "secret"], NFile 2);
         ([b "r"; b "x"], NDir); ([b "r"; b "x"; b "victim"], NFile 3);
         ([b "r"; b "w"; b "old"], NFile 4) ]
       [ (0, 100%N); (1, 101%N); (2, 102%N); (3, 103%N); (4, 104%N) ] 5 [].

Lemma inv_fs0 : Inv wd0 fs0.
Proof.
  constructor.
  - intros q r E Hq. destruct q as [|q1 [|q2 [|q3 q']]]; [contradiction| | |].
    + injection E as <- _. reflexivity.
    + injection E as <- <- _. reflexivity.
    + apply (f_equal (@length _)) in E. simpl in E. rewrite app_length in E. lia.
  - intros p d a cs H. unfold lookup, fs0 in H. cbn [ents lookup_ents] in H.
    repeat match type of H with
           | (if ?c then _ else _) = _ => destruct c; [discriminate|]
           end. discriminate.
  - intros p q i Hp Hq. unfold lookup, fs0 in Hp, Hq. cbn [ents lookup_ents] in Hp, Hq.
    repeat match type of Hp with
           | (if path_eqb ?k p then _ else _) = _ =>
             let E := fresh "E" in destruct (path_eqb k p) eqn:E;
             [apply path_eqb_spec in E; subst p; try discriminate Hp | ]
           end; try discriminate Hp;
    injection Hp as <-;
    repeat match type of Hq with
           | (if path_eqb ?k q then _ else _) = _ =>
             let E := fresh "E" in destruct (path_eqb k q) eqn:E;
             [apply path_eqb_spec in E; subst q; try discriminate Hq | ]
           end; try discriminate Hq; intros; try assumption; try reflexivity.
  - intros p i H. change (nexti fs0) with 5. unfold lookup, fs0 in H. cbn [ents lookup_ents] in H.
    repeat match type of H with
           | (if ?c then _ else _) = _ =>
             destruct c; [first [discriminate H | (injection H as H; subst i; lia)] |]
           end. discriminate.
Qed.

Definition run0 (g : cfg) (os : list pushop) : fsys * list bool :=
  let '(s, oks) := pushes g false wd0 cwd0 (mkStore fs0 []) os in (st_fs s, oks).

Definition escapes (g : cfg) : Prop :=
  exists os p, inside wd0 p = false /\ view_at (fst (run0 g os)) p <> view_at fs0 p.

Ltac escape_with os p :=
  exists os, p; split; [vm_compute; reflexivity | vm_compute; discriminate].

(* F10: hard link whose relative target is taken from the process's current directory *)
Definition os_hardlink_cwd : list pushop :=
  [PDir (b "t") [EHard (b "t/h") (b "secret"); EReg (b "t/h") 7%N 420%N]].
Lemma refuted_hardlink_cwd : escapes (mkCfg false true true true true true).
Proof. escape_with os_hardlink_cwd [b "c"; b "secret"]. Qed.

(* F11: link created with the raw target *)
Definition os_raw_target : list pushop :=
  [PDir (b "t") [EDir (b "t/a/b") 493%N; ESym (b "t/a/b/s") (b "../..");
                 ESym (b "t/l") (b "a/b/s/../../../victim"); EReg (b "t/l") 7%N 420%N]].
Lemma refuted_raw_target : escapes (mkCfg true false true true true true).
Proof. escape_with os_raw_target [b "victim"]. Qed.

(* unpack directory reached through a link created by the store *)
Definition os_title_through_link : list pushop :=
  [PDir (b ".") [ESym (b "./x") (b ".")];
   PDir (b "x") [ESym (b "x/l") (b "../x/victim"); EReg (b "x/l") 7%N 420%N]].
Lemma refuted_title_through_link : escapes (mkCfg true true false true true true).
Proof. escape_with os_title_through_link [b "r"; b "x"; b "victim"]. Qed.

(* absolute title used raw: ".." after a store link *)
Definition os_abs_title : list pushop :=
  [PDir (b "t") [EDir (b "t/b") 493%N; ESym (b "t/b/s") (b "..")];
   PBlob (b "/r/w/t/b/s/../../../victim") 7%N].
Lemma refuted_abs_title : escapes (mkCfg true true true false true true).
Proof. escape_with os_abs_title [b "victim"]. Qed.

(* hard link to a symbolic link *)
Definition os_hardlink_symlink : list pushop :=
  [PDir (b "t") [EDir (b "t/b/c") 493%N; ESym (b "t/b/c/s") (b "../.."); EHard (b "t/h") (b "b/c/s")];
   PBlob (b "t/h/victim") 7%N].
Lemma refuted_hardlink_symlink : escapes (mkCfg true true true true false true).
Proof. escape_with os_hardlink_symlink [b "r"; b "victim"]. Qed.

Lemma prefix_escapes : escapes cfg_prefix.
Proof. escape_with os_hardlink_cwd [b "c"; b "secret"]. Qed.

(* the repaired store accepts ordinary archives (hypotheses and success are not vacuous) *)
Definition os_ordinary : list pushop :=
  [PDir (b "t") [EDir (b "t/a/b") 493%N; EReg (b "t/a/b/f") 7%N 384%N; ESym (b "t/a/b/s") (b "../..");
                 ESym (b "t/l") (b "a/b/s/../x"); EHard (b "t/h") (b "a/b/f"); EReg (b "t/h") 8%N 420%N;
                 ESym (b "t/l") (b "a/b/f"); EReg (b "t/l") 9%N 420%N];
   PBlob (b "t/a/new") 10%N; PBlob (b "old") 11%N].

Lemma ordinary_ok :
  snd (run0 cfg_fixed os_ordinary) = [true; true; true] /\
  view_at (fst (run0 cfg_fixed os_ordinary)) [b "r"; b "w"; b "t"; b "a"; b "b"; b "f"] = VFile (enc 9 384) /\
  view_at (fst (run0 cfg_fixed os_ordinary)) [b "r"; b "w"; b "old"] = VFile (enc 11 104).
Proof.
  vm_compute. repeat split.
Qed.

(* all five attacks are refused or harmless on the repaired store *)
Lemma attacks_confined_fixed :
  forall os, In os [os_hardlink_cwd; os_raw_target; os_title_through_link; os_abs_title; os_hardlink_symlink] ->
  forall p, inside wd0 p = false -> view_at (fst (run0 cfg_fixed os)) p = view_at fs0 p.
Proof.
  intros os Hin p Hp. unfold run0.
  destruct (pushes cfg_fixed false wd0 cwd0 (mkStore fs0 []) os) as [s oks] eqn:E. simpl.
  apply (proj2 (pushes_keeps wd0 false cwd0 os (mkStore fs0 []) s oks inv_fs0 E) p Hp).
Qed.

Lemma push_outside_entry g pres wd cwd s title es1 e es2 :
  title <> [] ->
  inside wd (lex_loc wd (entry_name e)) = false ->
  snd (push g pres wd cwd s (PDir title (es1 ++ e :: es2))) = false.
Proof.
  intros Hne He. unfold push. cbn [push_title].
  destruct title as [|t0 tt] eqn:ET; [contradiction|]. rewrite <- ET in *.
  destruct (existsb (str_eqb title) (st_names s)); [reflexivity|].
  destruct (write_path g wd title) as [raw|] eqn:EW; [|reflexivity].
  apply write_path_lex in EW as [Hin ->].
  destruct (mkdir_all (st_fs s) raw 511) as [f1|]; [|reflexivity].
  match goal with |- snd (if negb ?c then _ else _) = _ => destruct c end; cbn [negb]; [|reflexivity].
  pose proof (extract_stops g pres cwd (lex_loc wd title) title e es2 es1 f1
                (fun f0 => entry_outside_rejected g pres wd cwd title f0 e Hin He)) as Hs.
  destruct (extract g pres cwd (lex_loc wd title) title f1 (es1 ++ e :: es2)) as [f2 ok]. simpl in *. exact Hs.
Qed.

(* the working directory itself stays a real directory *)
Lemma pushes_wd_kept wd pres cwd os s s' oks :
  wd <> [] -> Inv wd (st_fs s) ->
  pushes cfg_fixed pres wd cwd s os = (s', oks) ->
  lookup (st_fs s') wd = Some NDir.
Proof.
  intros Hwd I H. destruct (pushes_keeps wd pres cwd os s s' oks I H) as [I' _].
  apply (inv_wd _ _ I' wd []); [now rewrite app_nil_r | exact Hwd].
Qed.

(* without the last repair an archive can replace the (empty) working directory itself by a link *)
Definition fs1 : fsys :=
  mkFS [ ([b "r"], NDir); ([b "r"; b "w"], NDir); ([b "r"; b "victim"], NFile 0) ] [ (0, 100%N) ] 1 [].

Lemma inv_fs1 : Inv wd0 fs1.
Proof.
  constructor.
  - intros q r E Hq. destruct q as [|q1 [|q2 [|q3 q']]]; [contradiction| | |].
    + injection E as <- _. reflexivity.
    + injection E as <- <- _. reflexivity.
    + apply (f_equal (@length _)) in E. simpl in E. rewrite app_length in E. lia.
  - intros p d a cs H. unfold lookup, fs1 in H. cbn [ents lookup_ents] in H.
    repeat match type of H with
           | (if ?c then _ else _) = _ => destruct c; [discriminate|]
           end. discriminate.
  - intros p q i Hp Hq. unfold lookup, fs1 in Hp, Hq. cbn [ents lookup_ents] in Hp, Hq.
    repeat match type of Hp with
           | (if path_eqb ?k p then _ else _) = _ =>
             let E := fresh "E" in destruct (path_eqb k p) eqn:E;
             [apply path_eqb_spec in E; subst p; try discriminate Hp | ]
           end; try discriminate Hp;
    injection Hp as <-;
    repeat match type of Hq with
           | (if path_eqb ?k q then _ else _) = _ =>
             let E := fresh "E" in destruct (path_eqb k q) eqn:E;
             [apply path_eqb_spec in E; subst q; try discriminate Hq | ]
           end; try discriminate Hq; intros; try assumption; try reflexivity.
  - intros p i H. change (nexti fs1) with 1. unfold lookup, fs1 in H. cbn [ents lookup_ents] in H.
    repeat match type of H with
           | (if ?c then _ else _) = _ =>
             destruct c; [first [discriminate H | (injection H as H; subst i; lia)] |]
           end. discriminate.
Qed.

Definition os_replace_wd : list pushop := [PDir (b ".") [ESym (b ".") (b "w/x")]].

Lemma refuted_replace_wd :
  lookup (st_fs (fst (pushes (mkCfg true true true true true false) false wd0 cwd0 (mkStore fs1 []) os_replace_wd))) wd0
  <> Some NDir.
Proof. vm_compute. discriminate. Qed.

Lemma replace_wd_fixed :
  pushes cfg_fixed false wd0 cwd0 (mkStore fs1 []) os_replace_wd = (mkStore fs1 [], [false]).
Proof. vm_compute. reflexivity. Qed.

(* with PreservePermissions the unrepaired code also re-modes a directory outside *)
Definition os_remode : list pushop :=
  [PDir (b "t") [EDir (b "t/a/b") 493%N; ESym (b "t/a/b/s") (b "../..");
                 ESym (b "t/l") (b "a/b/s/../.."); EDir (b "t/l") 448%N]].

Lemma refuted_remode :
  inside wd0 [b "r"] = false /\
  view_at (st_fs (fst (pushes (mkCfg true false true true true true) true wd0 cwd0 (mkStore fs0 []) os_remode))) [b "r"]
  <> view_at fs0 [b "r"].
Proof. split; [vm_compute; reflexivity | vm_compute; discriminate]. Qed.
