(* C11 — lemmas about Model/FileConfine.v *)
From Oras Require Import Base.Prelude Model.FileConfine.
Open Scope nat_scope.

Lemma placeholder_true : True.
Proof. exact I. Qed.
