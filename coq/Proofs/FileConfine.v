(* C11 — lemmas about Model/FileConfine.v: confinement of every mutation of the
   repaired store to the working directory. *)
From Oras Require Import Base.Prelude Generated.GC11 Model.FileConfine.
Require Import Lia.
Open Scope nat_scope.
Global Opaque FUEL NLINK.

(* ---------- paths ---------- *)

Lemma path_eqb_spec p q : path_eqb p q = true <-> p = q.
Proof.
  revert q; induction p as [|a p IH]; intros [|c q]; simpl; split; intro H;
    try reflexivity; try discriminate.
  - apply andb_true_iff in H as [H1 H2]. apply str_eqb_spec in H1. apply IH in H2. congruence.
  - injection H as -> ->. rewrite str_eqb_refl. simpl. now apply IH.
Qed.

Lemma path_eqb_refl p : path_eqb p p = true.
Proof. now apply path_eqb_spec. Qed.

Lemma path_eqb_neq p q : p <> q -> path_eqb p q = false.
Proof. intro H. destruct (path_eqb p q) eqn:E; auto. apply path_eqb_spec in E. contradiction. Qed.

Lemma strip_prefix_spec a l r : strip_prefix a l = Some r <-> l = a ++ r.
Proof.
  revert l; induction a as [|x a IH]; intros l; simpl.
  - split; [intros [= ->]; reflexivity | intros ->; reflexivity].
  - destruct l as [|y l]; [split; [discriminate | intro H; discriminate]|].
    destruct (str_eqb x y) eqn:E.
    + apply str_eqb_spec in E. subst y. rewrite IH. split; [intros ->; reflexivity | intros [= ->]; reflexivity].
    + split; [discriminate|]. intros [= -> _]. rewrite str_eqb_refl in E. discriminate.
Qed.

Lemma inside_spec wd p : inside wd p = true <-> exists r, p = wd ++ r.
Proof.
  unfold inside. destruct (strip_prefix wd p) as [r|] eqn:E.
  - apply strip_prefix_spec in E. split; eauto.
  - split; [discriminate|]. intros [r Hr]. apply strip_prefix_spec in Hr. congruence.
Qed.

Lemma inside_app wd p x : inside wd p = true -> inside wd (p ++ x) = true.
Proof. rewrite !inside_spec. intros [r ->]. exists (r ++ x). now rewrite app_assoc. Qed.

Lemma inside_refl wd : inside wd wd = true.
Proof. apply inside_spec. exists []. now rewrite app_nil_r. Qed.

(* strictly inside *)
Definition sinside (wd p : path) : Prop := exists x r, p = wd ++ x :: r.

Lemma sinside_inside wd p : sinside wd p -> inside wd p = true.
Proof. intros (x & r & ->). apply inside_spec. eauto. Qed.

Lemma sinside_not_prefix wd p q r : sinside wd p -> wd = q ++ r -> p <> q.
Proof.
  intros (x & t & ->) -> E. apply (f_equal (@length _)) in E.
  rewrite !app_length in E. simpl in E. lia.
Qed.

Lemma removelast_snoc {A} (l : list A) x : removelast (l ++ [x]) = l.
Proof. apply removelast_last. Qed.

(* ---------- lookup after updates ---------- *)

Lemma lookup_del l p q :
  lookup_ents (del_ents l p) q = if path_eqb p q then None else lookup_ents l q.
Proof.
  induction l as [|[k n] l IH]; simpl.
  - now destruct (path_eqb p q).
  - destruct (path_eqb k p) eqn:E; simpl.
    + apply path_eqb_spec in E. subst k. rewrite IH. destruct (path_eqb p q); reflexivity.
    + rewrite IH. destruct (path_eqb k q) eqn:E2; [|reflexivity].
      apply path_eqb_spec in E2. subst k. rewrite path_eqb_neq; [reflexivity|].
      intros ->. rewrite path_eqb_refl in E. discriminate.
Qed.

Lemma lookup_set p n f q :
  lookup (set_ent p n f) q = if path_eqb p q then Some n else lookup f q.
Proof.
  unfold lookup, set_ent; simpl. destruct (path_eqb p q) eqn:E; [reflexivity|].
  rewrite lookup_del, E. reflexivity.
Qed.

Lemma lookup_delent p f q :
  lookup (del_ent p f) q = if path_eqb p q then None else lookup f q.
Proof. unfold lookup, del_ent; simpl. apply lookup_del. Qed.

Lemma lookup_newfile p c f q :
  lookup (new_file p c f) q = if path_eqb p q then Some (NFile (nexti f)) else lookup f q.
Proof.
  unfold lookup, new_file; simpl. destruct (path_eqb p q) eqn:E; [reflexivity|].
  rewrite lookup_del, E. reflexivity.
Qed.

Lemma lookup_setcont i c f q : lookup (set_cont i c f) q = lookup f q.
Proof. reflexivity. Qed.

Lemma lookup_setdmode p m f q : lookup (set_dmode p m f) q = lookup f q.
Proof. reflexivity. Qed.

Lemma lookup_setfstamp i t f q : lookup (set_fstamp i t f) q = lookup f q.
Proof. reflexivity. Qed.

Lemma lookup_setdstamp p t f q : lookup (set_dstamp p t f) q = lookup f q.
Proof. reflexivity. Qed.

(* ---------- the invariant ---------- *)

(* taint f (a ghost field no operation reads or changes): the inodes that files below the working
   directory may share with files outside - pre-populated hard links.  With taint f = [] the
   invariant says that no inode is shared. *)
Record Inv (wd : path) (f : fsys) : Prop := mkInv {
  inv_wd   : forall q r, wd = q ++ r -> q <> [] -> lookup f q = Some NDir;
  inv_ino  : forall p q i, lookup f p = Some (NFile i) -> lookup f q = Some (NFile i) ->
             inside wd p = true -> inside wd q = true \/ In i (taint f);
  inv_fresh : forall p i, lookup f p = Some (NFile i) -> i < nexti f;
  inv_taint : forall i, In i (taint f) -> i < nexti f
}.

(* nothing outside the working directory changes: not what is there (entry, type, inode, link text),
   not the attributes of directories, not the content / mode / times of files - except for the
   content, mode and times of files whose inode is tainted *)
Definition same_outside (wd : path) (f f' : fsys) : Prop :=
  taint f' = taint f /\
  forall p, inside wd p = false ->
    lookup f' p = lookup f p /\ dir_mode f' p = dir_mode f p /\ dir_stamp f' p = dir_stamp f p /\
    (forall i, lookup f p = Some (NFile i) -> ~ In i (taint f) ->
               content f' i = content f i /\ file_stamp f' i = file_stamp f i).

Definition Keeps (wd : path) (f f' : fsys) : Prop := Inv wd f' /\ same_outside wd f f'.

Lemma same_outside_refl wd f : same_outside wd f f.
Proof. split; [reflexivity|]. intros p _. repeat split; reflexivity. Qed.

Lemma same_outside_trans wd f g h : same_outside wd f g -> same_outside wd g h -> same_outside wd f h.
Proof.
  intros [Ta A] [Tb B]. split; [congruence|]. intros p Hp.
  destruct (A p Hp) as (A1 & A2 & A3 & A4). destruct (B p Hp) as (B1 & B2 & B3 & B4).
  split; [congruence|]. split; [congruence|]. split; [congruence|].
  intros i L N. destruct (A4 i L N) as [C1 C2].
  rewrite <- A1 in L. rewrite <- Ta in N. destruct (B4 i L N) as [D1 D2]. split; congruence.
Qed.

(* the observer's view: unchanged wherever the file is not tainted *)
Lemma same_outside_view wd f f' p :
  same_outside wd f f' -> inside wd p = false ->
  (forall i, lookup f p = Some (NFile i) -> ~ In i (taint f)) ->
  view_at f' p = view_at f p.
Proof.
  intros [_ A] Hp Hn. destruct (A p Hp) as (A1 & A2 & A3 & A4). unfold view_at. rewrite A1.
  destruct (lookup f p) as [[|i|d a cs]|] eqn:L; try reflexivity.
  - now rewrite A2, A3.
  - destruct (A4 i eq_refl (Hn i eq_refl)) as [C1 C2]. now rewrite C1, C2.
Qed.

Lemma Keeps_refl wd f : Inv wd f -> Keeps wd f f.
Proof. intro H. split; [exact H | apply same_outside_refl]. Qed.

Lemma Keeps_trans wd f g h : Keeps wd f g -> Keeps wd g h -> Keeps wd f h.
Proof. intros [_ A] [I B]. split; [exact I | eapply same_outside_trans; eauto]. Qed.

Lemma outside_neq wd p q : inside wd p = true -> inside wd q = false -> path_eqb p q = false.
Proof. intros A B. apply path_eqb_neq. intros ->. congruence. Qed.

(* what may be written at a location strictly inside *)
Definition node_ok (wd : path) (f : fsys) (p : path) (n : node) : Prop :=
  match n with
  | NDir => True
  | NFile i => exists q, inside wd q = true /\ lookup f q = Some (NFile i)
  | NSym _ _ _ => True      (* where a link points does not matter: it is never followed *)
  end.

(* an update of the entries at an inside location only *)
Lemma frame_ents wd f f' p :
  inside wd p = true -> taint f' = taint f ->
  (forall q, q <> p -> lookup f' q = lookup f q) ->
  (forall q, dir_mode f' q = dir_mode f q) -> (forall q, dir_stamp f' q = dir_stamp f q) ->
  (forall q i, lookup f q = Some (NFile i) -> content f' i = content f i /\ file_stamp f' i = file_stamp f i) ->
  same_outside wd f f'.
Proof.
  intros Hin T L M D C. split; [exact T|]. intros q Hq.
  assert (q <> p) by (intros ->; congruence).
  split; [now apply L|]. split; [apply M|]. split; [apply D|]. intros i Li _. now apply (C q).
Qed.

Lemma keeps_set wd f p n :
  Inv wd f -> sinside wd p -> node_ok wd f p n -> Keeps wd f (set_ent p n f).
Proof.
  intros I Hp Hn. pose proof (sinside_inside _ _ Hp) as Hin. split.
  - constructor.
    + intros q r E Hq. rewrite lookup_set. rewrite path_eqb_neq; [eapply inv_wd; eauto|].
      eapply sinside_not_prefix; eauto.
    + intros p0 q0 i. rewrite !lookup_set.
      destruct (path_eqb p p0) eqn:E1; destruct (path_eqb p q0) eqn:E2.
      * apply path_eqb_spec in E2. subst q0. intros _ _ _. now left.
      * intros [= ->] Hq _. destruct Hn as (q1 & Hq1 & Lq1). eapply (inv_ino _ _ I q1 q0); eauto.
      * apply path_eqb_spec in E2. subst q0. intros _ _ _. now left.
      * apply (inv_ino _ _ I).
    + intros p0 i. rewrite lookup_set. destruct (path_eqb p p0) eqn:E.
      * intros [= ->]. destruct Hn as (q1 & _ & Lq1). eapply (inv_fresh _ _ I); eauto.
      * apply (inv_fresh _ _ I).
    + exact (inv_taint _ _ I).
  - apply (frame_ents wd f _ p Hin); try reflexivity; [|intros; split; reflexivity].
    intros q Hq. rewrite lookup_set, path_eqb_neq; [reflexivity | congruence].
Qed.

Lemma keeps_del wd f p : Inv wd f -> sinside wd p -> Keeps wd f (del_ent p f).
Proof.
  intros I Hp. pose proof (sinside_inside _ _ Hp) as Hin. split.
  - constructor.
    + intros q r E Hq. rewrite lookup_delent. rewrite path_eqb_neq; [eapply inv_wd; eauto|].
      eapply sinside_not_prefix; eauto.
    + intros p0 q0 i. rewrite !lookup_delent.
      destruct (path_eqb p p0); [discriminate|]. destruct (path_eqb p q0); [discriminate|].
      apply (inv_ino _ _ I).
    + intros p0 i. rewrite lookup_delent. destruct (path_eqb p p0); [discriminate|].
      apply (inv_fresh _ _ I).
    + exact (inv_taint _ _ I).
  - apply (frame_ents wd f _ p Hin); try reflexivity; [|intros; split; reflexivity].
    intros q Hq. rewrite lookup_delent, path_eqb_neq; [reflexivity | congruence].
Qed.

Lemma content_setcont_other i c f j : j <> i -> content (set_cont i c f) j = content f j.
Proof. intro H. unfold content, set_cont; simpl. destruct (Nat.eqb i j) eqn:E; [|reflexivity].
  apply Nat.eqb_eq in E. congruence. Qed.

(* a write to the inode of an inside file reaches an outside file only when the inode is tainted *)
Lemma keeps_setcont wd f i c p :
  Inv wd f -> inside wd p = true -> lookup f p = Some (NFile i) -> Keeps wd f (set_cont i c f).
Proof.
  intros I Hin L. split.
  - constructor.
    + exact (inv_wd _ _ I).
    + exact (inv_ino _ _ I).
    + exact (inv_fresh _ _ I).
    + exact (inv_taint _ _ I).
  - split; [reflexivity|]. intros q Hq. repeat split; try reflexivity.
    apply content_setcont_other. intros ->.
    destruct (inv_ino _ _ I p q i L H Hin) as [C|C]; [congruence | contradiction].
Qed.

Lemma keeps_setfstamp wd f i t p :
  Inv wd f -> inside wd p = true -> lookup f p = Some (NFile i) -> Keeps wd f (set_fstamp i t f).
Proof.
  intros I Hin L. split.
  - constructor.
    + exact (inv_wd _ _ I).
    + exact (inv_ino _ _ I).
    + exact (inv_fresh _ _ I).
    + exact (inv_taint _ _ I).
  - split; [reflexivity|]. intros q Hq. repeat split; try reflexivity.
    unfold file_stamp, set_fstamp; simpl. destruct (Nat.eqb i i0) eqn:E2; [|reflexivity].
    apply Nat.eqb_eq in E2. subst i0.
    destruct (inv_ino _ _ I p q i L H Hin) as [C|C]; [congruence | contradiction].
Qed.

Lemma keeps_newfile wd f p c : Inv wd f -> sinside wd p -> Keeps wd f (new_file p c f).
Proof.
  intros I Hp. pose proof (sinside_inside _ _ Hp) as Hin. split.
  - constructor.
    + intros q r E Hq. rewrite lookup_newfile. rewrite path_eqb_neq; [eapply inv_wd; eauto|].
      eapply sinside_not_prefix; eauto.
    + intros p0 q0 i. rewrite !lookup_newfile.
      destruct (path_eqb p p0) eqn:E1; destruct (path_eqb p q0) eqn:E2.
      * apply path_eqb_spec in E2. subst q0. intros _ _ _. now left.
      * intros [= <-] Hq _. apply (inv_fresh _ _ I) in Hq. lia.
      * apply path_eqb_spec in E2. subst q0. intros _ _ _. now left.
      * apply (inv_ino _ _ I).
    + intros p0 i. rewrite lookup_newfile. unfold new_file at 1; simpl. destruct (path_eqb p p0).
      * intros [= <-]. lia.
      * intro H. apply (inv_fresh _ _ I) in H. lia.
    + intros i Hi. unfold new_file; simpl. apply (inv_taint _ _ I) in Hi. lia.
  - apply (frame_ents wd f _ p Hin); try reflexivity.
    + intros q Hq. rewrite lookup_newfile, path_eqb_neq; [reflexivity | congruence].
    + intros q j Lq. split; [|reflexivity].
      unfold content, new_file; simpl. destruct (Nat.eqb (nexti f) j) eqn:E2; [|reflexivity].
      apply Nat.eqb_eq in E2. apply (inv_fresh _ _ I) in Lq. lia.
Qed.

Lemma keeps_setdmode wd f p m : Inv wd f -> inside wd p = true -> Keeps wd f (set_dmode p m f).
Proof.
  intros I Hin. split.
  - constructor.
    + exact (inv_wd _ _ I).
    + exact (inv_ino _ _ I).
    + exact (inv_fresh _ _ I).
    + exact (inv_taint _ _ I).
  - split; [reflexivity|]. intros q Hq. repeat split; try reflexivity.
    unfold dir_mode, set_dmode; simpl. rewrite (outside_neq _ _ _ Hin Hq). reflexivity.
Qed.

Lemma keeps_setdstamp wd f p t : Inv wd f -> inside wd p = true -> Keeps wd f (set_dstamp p t f).
Proof.
  intros I Hin. split.
  - constructor.
    + exact (inv_wd _ _ I).
    + exact (inv_ino _ _ I).
    + exact (inv_fresh _ _ I).
    + exact (inv_taint _ _ I).
  - split; [reflexivity|]. intros q Hq. repeat split; try reflexivity.
    unfold dir_stamp, set_dstamp; simpl. rewrite (outside_neq _ _ _ Hin Hq). reflexivity.
Qed.

Lemma keeps_newdir wd f p m : Inv wd f -> sinside wd p -> Keeps wd f (new_dir p m f).
Proof.
  intros I Hp. unfold new_dir.
  pose proof (keeps_set wd f p NDir I Hp Logic.I) as K1.
  eapply Keeps_trans; [exact K1|]. apply keeps_setdmode; [exact (proj1 K1) | now apply sinside_inside].
Qed.

(* ---------- where lexical and physical resolution agree ---------- *)

Lemma inside_sinside_app wd a ns : inside wd a = true -> ns <> [] -> sinside wd (a ++ ns).
Proof.
  rewrite inside_spec. intros [r ->] H. destruct ns as [|n ns']; [contradiction|].
  destruct r as [|y r'].
  - exists n, ns'. now rewrite app_nil_r.
  - exists y, (r' ++ n :: ns'). now rewrite <- app_assoc.
Qed.


(* no proper prefix of [ns] below [cur] that the walk reaches is a symbolic link *)
Fixpoint lexreal (f : fsys) (cur : path) (ns : list name) : bool :=
  match ns with
  | [] => true
  | c :: r =>
    match r with
    | [] => true
    | _ => match lookup f (cur ++ [c]) with
           | Some NDir => lexreal f (cur ++ [c]) r
           | Some (NSym _ _ _) => false
           | _ => true
           end
    end
  end.

Definition loc_is (w : wres) (q : path) : Prop :=
  match w with
  | WDir p => p = q
  | WFile p _ => p = q
  | WSym p _ _ _ => p = q
  | WNoEnt p => p = q
  | _ => True
  end.

Lemma walk_lex f : forall ns fuel nl cur follow,
  lexreal f cur ns = true ->
  (follow = true -> forall d a cs, lookup f (cur ++ ns) <> Some (NSym d a cs)) ->
  loc_is (walk fuel f nl cur (Nms ns) follow) (cur ++ ns).
Proof.
  induction ns as [|c r IH]; intros fuel nl cur follow H Hf; destruct fuel as [|fuel]; try exact Logic.I.
  - simpl. now rewrite app_nil_r.
  - simpl. simpl in H.
    assert (Hrec : lookup f (cur ++ [c]) = Some NDir ->
                   loc_is (walk fuel f nl (cur ++ [c]) (Nms r) follow) (cur ++ c :: r)).
    { intro L. destruct r as [|c2 r'].
      - destruct fuel; simpl; [exact Logic.I | reflexivity].
      - rewrite L in H. specialize (IH fuel nl (cur ++ [c]) follow H).
        rewrite <- app_assoc in IH. apply IH. exact Hf. }
    destruct (lookup f (cur ++ [c])) as [[|i|d a cs]|] eqn:L.
    + apply Hrec. reflexivity.
    + destruct r; simpl; [reflexivity | exact Logic.I].
    + destruct r as [|c2 r']; [|discriminate].
      destruct follow; simpl; [|reflexivity].
      exfalso. apply (Hf eq_refl d a cs). exact L.
    + destruct r; simpl; [reflexivity | exact Logic.I].
Qed.

Lemma walk_lexical f ns fuel nl cur :
  lexreal f cur ns = true -> loc_is (walk fuel f nl cur (Nms ns) false) (cur ++ ns).
Proof. intro H. apply walk_lex; [exact H | discriminate]. Qed.

(* what a walk returns is what the tree holds there *)
Definition res_lookup (f : fsys) (w : wres) : Prop :=
  match w with
  | WFile p i => lookup f p = Some (NFile i) /\ p <> []
  | WSym p d a cs => lookup f p = Some (NSym d a cs) /\ p <> []
  | WNoEnt p => lookup f p = None /\ p <> []
  | _ => True
  end.

Lemma snoc_not_nil {A} (l : list A) x : l ++ [x] <> [].
Proof. destruct l; discriminate. Qed.

Lemma walk_lookup f : forall fuel nl cur rem follow, res_lookup f (walk fuel f nl cur rem follow).
Proof.
  induction fuel as [|fuel IH]; intros nl cur rem follow; [exact Logic.I|].
  destruct rem as [|[|c] r]; simpl; [exact Logic.I | apply IH |].
  destruct (lookup f (cur ++ [c])) as [[|i|d a cs]|] eqn:L.
  - apply IH.
  - destruct r; simpl; [split; [exact L | apply snoc_not_nil] | exact Logic.I].
  - destruct r as [|c2 r']; destruct follow; try (destruct nl; [exact Logic.I | apply IH]).
    simpl. split; [exact L | apply snoc_not_nil].
  - destruct r; simpl; [split; [exact L | apply snoc_not_nil] | exact Logic.I].
Qed.

Definition RealD (f : fsys) (cur d : path) : Prop :=
  forall q r, d = q ++ r -> q <> [] -> lookup f (cur ++ q) = Some NDir.

Lemma RealD_step f cur c d : RealD f cur (c :: d) -> RealD f (cur ++ [c]) d.
Proof.
  intros H q r E Hq. rewrite <- app_assoc. apply (H (c :: q) r); [now rewrite E | discriminate].
Qed.

Lemma RealD_head f cur c d : RealD f cur (c :: d) -> lookup f (cur ++ [c]) = Some NDir.
Proof. intro H. apply (H [c] d); [reflexivity | discriminate]. Qed.

Lemma walk_real f : forall d fuel nl cur follow,
  RealD f cur d ->
  match walk fuel f nl cur (Nms d) follow with
  | WDir p => p = cur ++ d
  | WErr => True
  | _ => False
  end.
Proof.
  induction d as [|c d IH]; intros fuel nl cur follow H; destruct fuel as [|fuel]; try exact Logic.I.
  - simpl. now rewrite app_nil_r.
  - simpl. rewrite (RealD_head _ _ _ _ H).
    specialize (IH fuel nl (cur ++ [c]) follow (RealD_step _ _ _ _ H)).
    rewrite <- app_assoc in IH. exact IH.
Qed.

Lemma lexreal_app f : forall d cur ns,
  RealD f cur d -> lexreal f (cur ++ d) ns = true -> lexreal f cur (d ++ ns) = true.
Proof.
  induction d as [|c d IH]; intros cur ns H L.
  - now rewrite app_nil_r in L.
  - simpl. destruct (d ++ ns) eqn:E; [reflexivity|]. rewrite <- E.
    rewrite (RealD_head _ _ _ _ H). apply IH; [apply (RealD_step _ _ _ _ H)|].
    now rewrite <- app_assoc.
Qed.

Lemma descend_lexreal f : forall ns cur,
  descend_ok f cur (removelast ns) = true -> lexreal f cur ns = true.
Proof.
  induction ns as [|c r IH]; intros cur H; [reflexivity|].
  destruct r as [|c2 r']; [reflexivity|].
  change (removelast (c :: c2 :: r')) with (c :: removelast (c2 :: r')) in H.
  simpl in H. cbn [lexreal].
  destruct (lookup f (cur ++ [c])) as [[|i|d a cs]|]; try reflexivity; try discriminate.
  apply IH. exact H.
Qed.

Lemma parents_ok_lexreal f dp ns :
  RealD f [] dp -> parents_ok f dp ns = true -> lexreal f dp ns = true.
Proof.
  intros HR H. unfold parents_ok in H.
  destruct (removelast ns) as [|q qs] eqn:E.
  - destruct ns as [|c [|c2 r]]; try reflexivity.
    change (removelast (c :: c2 :: r)) with (c :: removelast (c2 :: r)) in E. discriminate.
  - pose proof (walk_real f dp FUEL NLINK [] true HR) as W. unfold awalk in H.
    destruct (walk FUEL f NLINK [] (Nms dp) true); try contradiction; try discriminate.
    simpl in W. subst p. apply descend_lexreal. rewrite E. exact H.
Qed.

Lemma RealD_wd wd f l : Inv wd f -> RealD f wd l -> RealD f [] (wd ++ l).
Proof.
  intros I H q r E Hq. simpl.
  apply app_eq_app in E as [t [[E1 E2]|[E1 E2]]].
  - (* wd = q ++ t *) eapply inv_wd; eauto.
  - (* q = wd ++ t *) subst q. destruct t as [|y t'].
    + rewrite app_nil_r. eapply (inv_wd _ _ I wd []); [now rewrite app_nil_r|].
      intros ->. apply Hq. reflexivity.
    + apply (H (y :: t') r E2). discriminate.
Qed.

(* ---------- filepath.Clean on components ---------- *)

Lemma lc_push abs : forall l cs m st, lc abs (Nms l ++ cs) m st = lc abs cs m (rev l ++ st).
Proof.
  induction l as [|a l IH]; intros cs m st; [reflexivity|].
  simpl. rewrite IH, <- app_assoc. reflexivity.
Qed.

Lemma clean_abs_names l : clean_abs (Nms l) = l.
Proof.
  unfold clean_abs. rewrite <- (app_nil_r (Nms l)), lc_push. simpl.
  rewrite app_nil_r, rev_involutive. reflexivity.
Qed.

Lemma rev_cons_inv {A} (F : list A) y t : rev F = y :: t -> t = rev (removelast F).
Proof.
  intro H. apply (f_equal (@rev A)) in H. rewrite rev_involutive in H. simpl in H.
  subst F. rewrite removelast_last, rev_involutive. reflexivity.
Qed.

Lemma lc_rel_abs base : forall cs m st mt,
  snd (lc true cs mt (st ++ rev (firstn (length base - m) base))) =
  firstn (length base - fst (lc false cs m st)) base ++ snd (lc false cs m st).
Proof.
  induction cs as [|[|s] r IH]; intros m st mt.
  - simpl. rewrite rev_app_distr, rev_involutive. reflexivity.
  - destruct st as [|y st'].
    + cbn [lc app].
      destruct (rev (firstn (length base - m) base)) as [|y t] eqn:E.
      * specialize (IH (S m) [] mt). cbn [app] in IH.
        assert (E2 : firstn (length base - S m) base = []).
        { apply (f_equal (@rev _)) in E. rewrite rev_involutive in E. simpl in E.
          destruct (length base - m) eqn:K.
          - replace (length base - S m) with 0 by lia. reflexivity.
          - destruct base; [reflexivity | discriminate]. }
        rewrite E2 in IH. simpl in IH. exact IH.
      * specialize (IH (S m) [] mt). cbn [app] in IH.
        pose proof (rev_cons_inv _ _ _ E) as Ht.
        assert (K : length base - m <> 0) by (intro K; rewrite K in E; discriminate).
        assert (E2 : removelast (firstn (length base - m) base) = firstn (length base - S m) base).
        { replace (length base - m) with (S (length base - S m)) by lia.
          apply removelast_firstn. lia. }
        rewrite E2 in Ht. subst t. exact IH.
    + cbn [lc app]. apply IH.
  - cbn [lc]. apply (IH m (s :: st) mt).
Qed.

Lemma clean_abs_join base cs :
  clean_abs (Nms base ++ cs) =
  firstn (length base - fst (clean_rel cs)) base ++ snd (clean_rel cs).
Proof.
  unfold clean_abs, clean_rel. rewrite lc_push, app_nil_r.
  pose proof (lc_rel_abs base cs 0 [] 0) as H. cbn [app] in H.
  rewrite Nat.sub_0_r, firstn_all in H. exact H.
Qed.


(* ---------- system calls: every mutation is at the lexical location ---------- *)

Definition only_at (f f' : fsys) (fp : path) : Prop :=
  forall q, q <> fp -> lookup f' q = lookup f q.

Definition only_below (f f' : fsys) (cur : path) : Prop :=
  forall q, ~ sinside cur q -> lookup f' q = lookup f q.

Lemma only_at_refl f fp : only_at f f fp.
Proof. intros q _. reflexivity. Qed.

Lemma only_at_trans f g h fp : only_at f g fp -> only_at g h fp -> only_at f h fp.
Proof. intros A B q H. rewrite (B q H). apply A, H. Qed.

Lemma only_below_refl f cur : only_below f f cur.
Proof. intros q _. reflexivity. Qed.

Lemma only_below_trans f g h cur : only_below f g cur -> only_below g h cur -> only_below f h cur.
Proof. intros A B q H. rewrite (B q H). apply A, H. Qed.

Lemma only_at_below f f' dp rel : rel <> [] -> only_at f f' (dp ++ rel) -> only_below f f' dp.
Proof.
  intros Hr A q Hq. apply A. intros ->. apply Hq.
  destruct rel as [|x r]; [contradiction|]. exists x, r. reflexivity.
Qed.

Lemma only_below_step f f' cur c : only_below f f' (cur ++ [c]) -> only_below f f' cur.
Proof.
  intros A q Hq. apply A. intros (x & r & ->). apply Hq. exists c, (x :: r). now rewrite <- app_assoc.
Qed.

Lemma not_sinside_prefix dp q r : dp = q ++ r -> ~ sinside dp q.
Proof.
  intros -> (x & t & E). apply (f_equal (@length _)) in E. rewrite !app_length in E. simpl in E. lia.
Qed.

Lemma RealD_only_below f f' dp : RealD f [] dp -> only_below f f' dp -> RealD f' [] dp.
Proof.
  intros H A q r E Hq. simpl. rewrite (A q); [apply (H q r E Hq)|]. eapply not_sinside_prefix; eauto.
Qed.

Lemma RealD_snoc f cur c : RealD f [] cur -> lookup f (cur ++ [c]) = Some NDir -> RealD f [] (cur ++ [c]).
Proof.
  intros H L q r E Hq. simpl. destruct r as [|x r'] using rev_ind.
  - rewrite app_nil_r in E. subst q. exact L.
  - rewrite app_assoc in E. apply app_inj_tail in E as [E _]. apply (H q r' E Hq).
Qed.

Lemma RealD_prefix f dp rel : RealD f [] (dp ++ rel) -> RealD f [] dp.
Proof. intros H q r E Hq. apply (H q (r ++ rel)); [rewrite E; now rewrite app_assoc | exact Hq]. Qed.

Lemma RealD_inv wd f : Inv wd f -> RealD f [] wd.
Proof. intros I q r E Hq. simpl. eapply inv_wd; eauto. Qed.

Lemma RealD_lexreal f dp ns : RealD f [] dp -> lexreal f dp ns = true -> lexreal f [] (dp ++ ns) = true.
Proof. intros H L. apply lexreal_app; [exact H | exact L]. Qed.

Lemma lexreal_single f cur c : lexreal f cur [c] = true.
Proof. reflexivity. Qed.

Lemma lexreal_ext f g : forall ns cur,
  (forall q r, ns = q ++ r -> q <> [] -> r <> [] -> lookup g (cur ++ q) = lookup f (cur ++ q)) ->
  lexreal g cur ns = lexreal f cur ns.
Proof.
  induction ns as [|c r IH]; intros cur H; [reflexivity|].
  cbn [lexreal]. destruct r as [|c2 r']; [reflexivity|].
  rewrite (H [c] (c2 :: r')); [|reflexivity|discriminate|discriminate].
  destruct (lookup f (cur ++ [c])) as [[|i|d a cs]|]; try reflexivity.
  apply IH. intros q r E Hq Hr. rewrite <- !app_assoc. apply (H (c :: q) r); [now rewrite E|discriminate|exact Hr].
Qed.

Lemma lexreal_only_at f g fp : only_at f g fp -> lexreal g [] fp = lexreal f [] fp.
Proof.
  intro A. apply lexreal_ext. intros q r E Hq Hr. simpl. apply A. intros ->.
  apply (f_equal (@length _)) in E. rewrite app_length in E. destruct r; [contradiction | simpl in E; lia].
Qed.

(* a location inside that is not a directory is strictly inside *)
Lemma inside_sinside wd f fp :
  Inv wd f -> inside wd fp = true -> fp <> [] -> lookup f fp <> Some NDir -> sinside wd fp.
Proof.
  intros I Hin Hne Hl. apply inside_spec in Hin as [r ->]. destruct r as [|x r'].
  - exfalso. rewrite app_nil_r in *. apply Hl. apply (inv_wd _ _ I wd []); [now rewrite app_nil_r | exact Hne].
  - exists x, r'. reflexivity.
Qed.

Lemma walk_nil fuel f nl cur follow :
  walk fuel f nl cur [] follow = WDir cur \/ walk fuel f nl cur [] follow = WErr.
Proof. destruct fuel; simpl; auto. Qed.

(* the last element is followed only when it is a link: an Lstat that did not see a link sees what
   the following system call sees *)
Lemma walk_follow_agrees f : forall fuel nl cur rem,
  (forall q d a cs, walk fuel f nl cur rem false <> WSym q d a cs) ->
  walk fuel f nl cur rem true = walk fuel f nl cur rem false.
Proof.
  induction fuel as [|fuel IH]; intros nl cur rem H; [reflexivity|].
  destruct rem as [|[|c] r]; simpl in *; [reflexivity | now apply IH |].
  destruct (lookup f (cur ++ [c])) as [[|i|d a cs]|]; try reflexivity.
  - now apply IH.
  - destruct r as [|c2 r'].
    + exfalso. apply (H (cur ++ [c]) d a cs). reflexivity.
    + destruct nl; [reflexivity | now apply IH].
Qed.

Definition nosym (f : fsys) (fp : list name) : Prop := forall q d a cs, awalk f fp false <> WSym q d a cs.

Lemma nosym_of_lookup f fp :
  lexreal f [] fp = true -> (forall d a cs, lookup f fp <> Some (NSym d a cs)) -> nosym f fp.
Proof.
  intros HL Hns q d a cs E.
  pose proof (walk_lexical f fp FUEL NLINK [] HL) as Wl. fold (awalk f fp false) in Wl.
  pose proof (walk_lookup f FUEL NLINK [] (Nms fp) false) as Wk. fold (awalk f fp false) in Wk.
  rewrite E in Wl, Wk. simpl in Wl. subst q. destruct Wk as [L _]. exact (Hns d a cs L).
Qed.

(* a directory result of a lexical walk of a non-empty path is an entry of the tree *)
Lemma walk_dir_is_entry f : forall ns cur fu n0,
  lexreal f cur ns = true -> ns <> [] -> lookup f (cur ++ ns) <> Some NDir ->
  walk fu f n0 cur (Nms ns) false <> WDir (cur ++ ns).
Proof.
  induction ns as [|c r IHr]; intros cur fu n0 HL0 Hn0 Hd; [contradiction|].
  destruct fu as [|fu]; [discriminate|]. simpl. simpl in HL0.
  destruct r as [|c2 r'].
  - destruct (lookup f (cur ++ [c])) as [[|i0|d0 a0 cs0]|] eqn:L0; try discriminate. now elim Hd.
  - destruct (lookup f (cur ++ [c])) as [[|i0|d0 a0 cs0]|] eqn:L0; try discriminate.
    specialize (IHr (cur ++ [c]) fu n0 HL0). rewrite <- app_assoc in IHr. apply IHr; [discriminate | exact Hd].
Qed.

(* what an Lstat at a path whose parents are real tells about the tree *)
Lemma klstat_fwd f p :
  lexreal f [] p = true -> p <> [] ->
  match klstat f p with
  | LDir q => q = p /\ lookup f p = Some NDir
  | LFile => exists i, lookup f p = Some (NFile i)
  | LSym => exists d a cs, lookup f p = Some (NSym d a cs)
  | _ => True
  end.
Proof.
  intros HL Hne. unfold klstat.
  pose proof (walk_lexical f p FUEL NLINK [] HL) as Wl. fold (awalk f p false) in Wl.
  pose proof (walk_lookup f FUEL NLINK [] (Nms p) false) as Wk. fold (awalk f p false) in Wk.
  destruct (awalk f p false) eqn:E; simpl in *; try exact Logic.I.
  - subst p0. split; [reflexivity|].
    destruct (lookup f p) as [[|i|d a cs]|] eqn:L; [reflexivity | | |]; exfalso;
      apply (walk_dir_is_entry f p [] FUEL NLINK HL Hne); simpl; try (rewrite L; discriminate); exact E.
  - destruct Wk as [L _]. subst p0. exists i. exact L.
  - destruct Wk as [L _]. subst p0. exists d, a, cs. exact L.
Qed.

Lemma write_at_lex wd fp c mo f f' :
  Inv wd f -> inside wd fp = true -> lexreal f [] fp = true ->
  nosym f fp ->
  write_at f (Nms fp) c mo = Some f' ->
  Keeps wd f f' /\ only_at f f' fp /\ exists i, lookup f' fp = Some (NFile i).
Proof.
  intros I Hin HL Hns H. unfold write_at in H.
  rewrite (walk_follow_agrees f FUEL NLINK [] (Nms fp) Hns) in H.
  pose proof (walk_lexical f fp FUEL NLINK [] HL) as Wl.
  pose proof (walk_lookup f FUEL NLINK [] (Nms fp) false) as Wk.
  destruct (walk FUEL f NLINK [] (Nms fp) false); try discriminate; injection H as <-;
    simpl in Wl; subst p; destruct Wk as [L Hne].
  - split; [eapply keeps_setcont; eauto|]. split; [intros q _; reflexivity|]. exists i. exact L.
  - split; [apply keeps_newfile; [exact I|]; eapply inside_sinside; eauto; rewrite L; discriminate|].
    split.
    + intros q Hq. rewrite lookup_newfile. rewrite path_eqb_neq; [reflexivity | congruence].
    + exists (nexti f). rewrite lookup_newfile, path_eqb_refl. reflexivity.
Qed.

Lemma chmod_at_lex wd fp mo f f' :
  Inv wd f -> inside wd fp = true -> lexreal f [] fp = true ->
  (forall d a cs, lookup f fp <> Some (NSym d a cs)) ->
  chmod_at f fp mo = Some f' ->
  Keeps wd f f' /\ (forall q, lookup f' q = lookup f q).
Proof.
  intros I Hin HL Hns H. unfold chmod_at, awalk in H.
  pose proof (walk_lex f fp FUEL NLINK [] true HL (fun _ => Hns)) as Wl.
  pose proof (walk_lookup f FUEL NLINK [] (Nms fp) true) as Wk.
  destruct (walk FUEL f NLINK [] (Nms fp) true); try discriminate; injection H as <-;
    simpl in Wl; subst p.
  - split; [now apply keeps_setdmode | intros q; reflexivity].
  - destruct Wk as [L _]. split; [eapply keeps_setcont; eauto | intros q; reflexivity].
Qed.

Lemma remove_at_lex wd fp f f' :
  Inv wd f -> sinside wd fp -> lexreal f [] fp = true -> remove_at f fp = Some f' ->
  f' = del_ent fp f /\ Keeps wd f f' /\ (lookup f fp = Some NDir -> has_child f fp = false).
Proof.
  intros I Hs HL H. unfold remove_at in H.
  pose proof (walk_lexical f fp FUEL NLINK [] HL) as Wl. fold (awalk f fp false) in Wl.
  pose proof (walk_lookup f FUEL NLINK [] (Nms fp) false) as Wk. fold (awalk f fp false) in Wk.
  assert (forall p, p = fp -> Some (del_ent p f) = Some f' -> f' = del_ent fp f /\ Keeps wd f f').
  { intros p -> [= <-]. split; [reflexivity | now apply keeps_del]. }
  destruct (awalk f fp false); try discriminate; simpl in Wl.
  - destruct p; [discriminate|]. destruct (has_child f (n :: p)) eqn:HC; [discriminate|].
    destruct (H0 (n :: p) Wl H) as [A B]. subst fp. split; [exact A|]. split; [exact B|]. intros _. exact HC.
  - destruct (H0 p Wl H) as [A B]. split; [exact A|]. split; [exact B|]. subst p. destruct Wk as [L _]. rewrite L. discriminate.
  - destruct (H0 p Wl H) as [A B]. split; [exact A|]. split; [exact B|]. subst p. destruct Wk as [L _]. rewrite L. discriminate.
Qed.

(* an entry below a directory shows in has_child *)
Lemma lookup_ents_in l : forall p n, lookup_ents l p = Some n -> exists k, In (k, n) l /\ k = p.
Proof.
  induction l as [|[k v] l IH]; intros p n H; [discriminate|]. simpl in H.
  destruct (path_eqb k p) eqn:E.
  - injection H as <-. apply path_eqb_spec in E. exists k. split; [now left | exact E].
  - destruct (IH _ _ H) as (k' & Hin & Ek). exists k'. split; [now right | exact Ek].
Qed.

Lemma has_child_false f p c : has_child f p = false -> lookup f (p ++ [c]) = None.
Proof.
  intro H. destruct (lookup f (p ++ [c])) as [n|] eqn:L; [|reflexivity]. exfalso.
  apply lookup_ents_in in L as (k & Hin & ->).
  unfold has_child in H. rewrite <- Bool.not_true_iff_false in H. apply H.
  apply existsb_exists. exists (p ++ [c], n). split; [exact Hin|]. simpl.
  assert (E : strip_prefix p (p ++ [c]) = Some [c]) by now apply strip_prefix_spec. rewrite E. reflexivity.
Qed.

(* how one archive entry may change what is at a location (for the directories recorded so far) *)
Definition child_of (f : fsys) (fp : path) : Prop := exists c, lookup f (fp ++ [c]) <> None.

Definition Step (f f' : fsys) (fp : path) : Prop :=
  (forall q v, lookup f q = Some v -> lookup f' q = Some v) \/
  (only_at f f' fp /\ lookup f' fp <> None /\
   (lookup f fp = Some NDir -> child_of f fp -> lookup f' fp = Some NDir)).

Lemma Step_same f f' f'' fp : (forall q, lookup f'' q = lookup f' q) -> Step f f' fp -> Step f f'' fp.
Proof.
  intros S [M|(O & B & C)]; [left | right].
  - intros q v L. rewrite S. now apply M.
  - split; [intros q Hq; rewrite S; now apply O|]. split; [now rewrite S|]. intros L Hc. rewrite S. now apply C.
Qed.

Lemma Step_refl f fp : Step f f fp.
Proof. left. auto. Qed.

Lemma only_at_del f fp : only_at f (del_ent fp f) fp.
Proof. intros q Hq. rewrite lookup_delent, path_eqb_neq; [reflexivity | congruence]. Qed.

Lemma only_at_set f fp n : only_at f (set_ent fp n f) fp.
Proof. intros q Hq. rewrite lookup_set, path_eqb_neq; [reflexivity | congruence]. Qed.

Lemma remove_at_nil f : remove_at f [] = None.
Proof.
  unfold remove_at, awalk, Nms. cbn [map]. destruct (walk_nil FUEL f NLINK [] false) as [E|E]; rewrite E; reflexivity.
Qed.

Lemma unlink_if_lex wd fp f f' :
  Inv wd f -> inside wd fp = true -> lexreal f [] fp = true ->
  unlink_if_symlink f fp = Some f' ->
  Keeps wd f f' /\ only_at f f' fp /\ nosym f' fp.
Proof.
  intros I Hin HL H. unfold unlink_if_symlink in H.
  assert (Hkeep : klstat f fp <> LSym -> Some f = Some f' -> Keeps wd f f' /\ only_at f f' fp /\ nosym f' fp).
  { intros Hk [= <-]. split; [now apply Keeps_refl|]. split; [apply only_at_refl|].
    intros q d a cs E. apply Hk. unfold klstat. rewrite E. reflexivity. }
  destruct (klstat f fp) eqn:EK; try (apply Hkeep; [discriminate | exact H]).
  destruct fp as [|x fp']; [rewrite remove_at_nil in H; discriminate|].
  pose proof (klstat_fwd f (x :: fp') HL ltac:(discriminate)) as Kf. rewrite EK in Kf.
  destruct Kf as (d & a & cs & L).
  assert (Hs : sinside wd (x :: fp')).
  { eapply inside_sinside; eauto; [discriminate | rewrite L; discriminate]. }
  destruct (remove_at_lex wd _ f f' I Hs HL H) as (-> & K & _).
  split; [exact K|]. split; [apply only_at_del|].
  apply nosym_of_lookup.
  - rewrite (lexreal_only_at f _ _ (only_at_del f (x :: fp'))). exact HL.
  - intros d0 a0 cs0. rewrite lookup_delent, path_eqb_refl. discriminate.
Qed.

Lemma do_symlink_lex wd fp d a cs f f' :
  Inv wd f -> sinside wd fp -> lexreal f [] fp = true ->
  do_symlink f fp (NSym d a cs) = Some f' ->
  Keeps wd f f' /\ only_at f f' fp /\ Step f f' fp.
Proof.
  intros I Hs HL H. unfold do_symlink in H.
  pose proof (walk_lexical f fp FUEL NLINK [] HL) as Wl. fold (awalk f fp false) in Wl.
  assert (Hretry : match remove_at f fp with
                   | None => None
                   | Some f1 => match awalk f1 fp false with WNoEnt q => Some (set_ent q (NSym d a cs) f1) | _ => None end
                   end = Some f' -> Keeps wd f f' /\ only_at f f' fp /\ Step f f' fp).
  { destruct (remove_at f fp) as [f1|] eqn:R; [|discriminate].
    destruct (remove_at_lex wd fp f f1 I Hs HL R) as (E1 & K1 & HC). clear R. subst f1.
    set (f1 := del_ent fp f) in *.
    assert (HL1 : lexreal f1 [] fp = true).
    { rewrite <- HL. apply lexreal_only_at. apply only_at_del. }
    pose proof (walk_lexical f1 fp FUEL NLINK [] HL1) as Wl1. fold (awalk f1 fp false) in Wl1.
    destruct (awalk f1 fp false); try discriminate. simpl in Wl1. subst p. intros [= <-].
    pose proof (keeps_set wd f1 fp (NSym d a cs) (proj1 K1) Hs Logic.I) as K2.
    assert (O : only_at f (set_ent fp (NSym d a cs) f1) fp)
      by (eapply only_at_trans; [apply only_at_del | apply only_at_set]).
    split; [eapply Keeps_trans; eauto|]. split; [exact O|]. right. split; [exact O|].
    split; [rewrite lookup_set, path_eqb_refl; discriminate|].
    intros L [c Hc]. exfalso. apply Hc. apply has_child_false. now apply HC. }
  pose proof (walk_lookup f FUEL NLINK [] (Nms fp) false) as Wk. fold (awalk f fp false) in Wk.
  destruct (awalk f fp false); try discriminate; try (apply Hretry; exact H).
  simpl in Wl. subst p. injection H as <-. destruct Wk as [Ln _].
  split; [apply keeps_set; auto; exact Logic.I|]. split; [apply only_at_set|].
  right. split; [apply only_at_set|]. split; [rewrite lookup_set, path_eqb_refl; discriminate|].
  intros L. rewrite Ln in L. discriminate.
Qed.

Lemma do_link_lex wd cwd fp pn tgt f f' :
  Inv wd f -> inside wd fp = true -> lexreal f [] fp = true ->
  inside wd pn = true -> lexreal f [] pn = true ->
  do_link cfg_fixed f cwd fp pn tgt = Some f' ->
  Keeps wd f f' /\ only_at f f' fp /\ Step f f' fp.
Proof.
  intros I Hfp HLfp Hpn HLpn H. unfold do_link in H. cbn [fixH cfg_fixed] in H.
  pose proof (walk_lexical f pn FUEL NLINK [] HLpn) as Wo. fold (awalk f pn false) in Wo.
  pose proof (walk_lookup f FUEL NLINK [] (Nms pn) false) as Ko. fold (awalk f pn false) in Ko.
  pose proof (walk_lexical f fp FUEL NLINK [] HLfp) as Wn. fold (awalk f fp false) in Wn.
  pose proof (walk_lookup f FUEL NLINK [] (Nms fp) false) as Kn. fold (awalk f fp false) in Kn.
  assert (Hnew : forall n, node_ok wd f fp n ->
            match awalk f fp false with WNoEnt q => Some (set_ent q n f) | _ => None end = Some f' ->
            Keeps wd f f' /\ only_at f f' fp /\ Step f f' fp).
  { intros n Hn H2. destruct (awalk f fp false); try discriminate. simpl in Wn. subst p.
    destruct Kn as [Ln Hne]. injection H2 as <-.
    split; [|split; [apply only_at_set|]].
    - apply keeps_set; auto. eapply inside_sinside; eauto. rewrite Ln. discriminate.
    - right. split; [apply only_at_set|]. split; [rewrite lookup_set, path_eqb_refl; discriminate|].
      intros L. rewrite Ln in L. discriminate. }
  destruct (awalk f pn false); try discriminate; simpl in Wo; subst p; destruct Ko as [Lo _].
  - apply (Hnew (NFile i)); [|exact H]. exists pn. split; assumption.
  - apply (Hnew (NSym d a cs)); [exact Logic.I | exact H].
Qed.

Lemma Nms_snoc d c : Nms d ++ [Nm c] = Nms (d ++ [c]).
Proof. unfold Nms. now rewrite map_app. Qed.

(* os.MkdirAll of a path whose elements all exist as directories changes nothing *)
Lemma mkdir_prefixes_noop f mo : forall t d f',
  RealD f [] (d ++ t) -> mkdir_prefixes f (Nms d) (Nms t) mo = Some f' -> f' = f.
Proof.
  induction t as [|c t IH]; intros d f' HR H.
  - now injection H as <-.
  - cbn [Nms map mkdir_prefixes] in H. fold (Nms t) in H. rewrite Nms_snoc in H.
    assert (HR1 : RealD f [] (d ++ [c])).
    { apply (RealD_prefix f (d ++ [c]) t). now rewrite <- app_assoc. }
    pose proof (walk_real f (d ++ [c]) FUEL NLINK [] true HR1) as W1.
    pose proof (walk_real f (d ++ [c]) FUEL NLINK [] false HR1) as W2.
    destruct (walk FUEL f NLINK [] (Nms (d ++ [c])) true); try contradiction.
    + apply (IH (d ++ [c]) f'); [now rewrite <- app_assoc | exact H].
    + destruct (walk FUEL f NLINK [] (Nms (d ++ [c])) false); try contradiction; discriminate.
Qed.

(* ensureDirNoSymlink *)
Lemma mkdir_real_lex wd mo : forall qs cur f f',
  Inv wd f -> inside wd cur = true -> RealD f [] cur ->
  mkdir_real f cur qs mo = Some f' ->
  Keeps wd f f' /\ RealD f' [] (cur ++ qs) /\ only_below f f' cur.
Proof.
  induction qs as [|c r IH]; intros cur f f' I Hin HR H.
  - injection H as <-. rewrite app_nil_r. split; [now apply Keeps_refl|]. split; [exact HR | apply only_below_refl].
  - cbn [mkdir_real] in H.
    assert (Hin' : inside wd (cur ++ [c]) = true) by now apply inside_app.
    assert (HL : lexreal f [] (cur ++ [c]) = true) by (apply RealD_lexreal; [exact HR | reflexivity]).
    pose proof (klstat_fwd f (cur ++ [c]) HL (snoc_not_nil cur c)) as Kf.
    destruct (klstat f (cur ++ [c])) as [q| | | |] eqn:EK; try discriminate.
    + destruct Kf as [_ L].
      destruct (IH (cur ++ [c]) f f' I Hin' (RealD_snoc _ _ _ HR L) H) as (K & R & O).
      rewrite <- app_assoc in R. split; [exact K|]. split; [exact R | exact (only_below_step _ _ _ c O)].
    + pose proof (walk_lexical f (cur ++ [c]) FUEL NLINK [] HL) as Wl. fold (awalk f (cur ++ [c]) false) in Wl.
      destruct (awalk f (cur ++ [c]) false); try discriminate. simpl in Wl. subst p.
      assert (Hs : sinside wd (cur ++ [c])) by (apply inside_sinside_app; [exact Hin | discriminate]).
      pose proof (keeps_newdir wd f (cur ++ [c]) mo I Hs) as K1.
      assert (O1 : only_at f (new_dir (cur ++ [c]) mo f) (cur ++ [c])).
      { intros q Hq. unfold new_dir. rewrite lookup_setdmode. now apply only_at_set. }
      assert (HR1 : RealD (new_dir (cur ++ [c]) mo f) [] (cur ++ [c])).
      { apply RealD_snoc.
        - intros q t E Hq. simpl. rewrite O1; [apply (HR q t E Hq)|].
          intros ->. apply (f_equal (@length _)) in E. rewrite !app_length in E. simpl in E. lia.
        - unfold new_dir. rewrite lookup_setdmode, lookup_set, path_eqb_refl. reflexivity. }
      destruct (IH (cur ++ [c]) _ f' (proj1 K1) Hin' HR1 H) as (K & R & O).
      rewrite <- app_assoc in R. split; [eapply Keeps_trans; eauto|]. split; [exact R|].
      eapply only_below_trans; [|exact (only_below_step _ _ _ c O)].
      apply (only_at_below f _ cur [c]); [discriminate | exact O1].
Qed.

(* os.Chmod of a real directory *)
Lemma chmod_at_real wd fp mo f f' :
  Inv wd f -> inside wd fp = true -> RealD f [] fp -> chmod_at f fp mo = Some f' ->
  Keeps wd f f' /\ (forall q, lookup f' q = lookup f q).
Proof.
  intros I Hin HR H. unfold chmod_at, awalk in H.
  pose proof (walk_real f fp FUEL NLINK [] true HR) as W.
  destruct (walk FUEL f NLINK [] (Nms fp) true); try contradiction; try discriminate.
  simpl in W. subst p. injection H as <-. split; [now apply keeps_setdmode | intros q; reflexivity].
Qed.

Lemma write_at_real f fp c mo : RealD f [] fp -> write_at f (Nms fp) c mo = None.
Proof.
  intro HR. unfold write_at. pose proof (walk_real f fp FUEL NLINK [] true HR) as W.
  destruct (walk FUEL f NLINK [] (Nms fp) true); try contradiction; reflexivity.
Qed.

(* ---------- extraction ---------- *)

Lemma ensure_link_lex wd f dp fp tgt pn :
  inside wd dp = true -> RealD f [] dp -> ensure_link f dp fp tgt = Some pn ->
  inside wd pn = true /\ lexreal f [] pn = true.
Proof.
  intros Hd HR H. unfold ensure_link in H.
  destruct (strip_prefix dp (link_abs_path fp tgt)) as [ns|] eqn:E; [|discriminate].
  destruct (parents_ok f dp ns) eqn:PO; [|discriminate]. injection H as <-.
  apply strip_prefix_spec in E. rewrite E. split; [now apply inside_app|].
  apply RealD_lexreal; [exact HR | now apply parents_ok_lexreal].
Qed.

Lemma RealD_same f f' dp : (forall q, lookup f' q = lookup f q) -> RealD f [] dp -> RealD f' [] dp.
Proof. intros S H q r E Hq. rewrite S. apply (H q r E Hq). Qed.

Lemma write_at_dir_none f fp c mo :
  lexreal f [] fp = true -> lookup f fp = Some NDir -> write_at f (Nms fp) c mo = None.
Proof.
  intros HL L. unfold write_at.
  assert (Hns : forall d a cs, lookup f fp <> Some (NSym d a cs)) by (intros; rewrite L; discriminate).
  pose proof (walk_lex f fp FUEL NLINK [] true HL (fun _ => Hns)) as Wl.
  pose proof (walk_lookup f FUEL NLINK [] (Nms fp) true) as Wk.
  destruct (walk FUEL f NLINK [] (Nms fp) true); try reflexivity; simpl in Wl; subst p;
    destruct Wk as [L2 _]; rewrite L in L2; discriminate.
Qed.

Lemma mkdir_real_mono mo : forall qs cur f f',
  mkdir_real f cur qs mo = Some f' -> forall q v, lookup f q = Some v -> lookup f' q = Some v.
Proof.
  induction qs as [|c r IH]; intros cur f f' H q v L.
  - injection H as <-. exact L.
  - cbn [mkdir_real] in H. destruct (klstat f (cur ++ [c])) as [q0| | | |] eqn:E; try discriminate.
    + eapply IH; eauto.
    + pose proof (walk_lookup f FUEL NLINK [] (Nms (cur ++ [c])) false) as Wk. fold (awalk f (cur ++ [c]) false) in Wk.
      destruct (awalk f (cur ++ [c]) false); try discriminate. destruct Wk as [Ln _].
      eapply IH; [exact H|]. unfold new_dir. rewrite lookup_setdmode, lookup_set.
      destruct (path_eqb p q) eqn:Ep; [|exact L]. apply path_eqb_spec in Ep. subst q. congruence.
Qed.

Lemma extract_entry_core_keeps wd pres cwd dp dirName f e f' :
  Inv wd f -> inside wd dp = true -> RealD f [] dp ->
  extract_entry_core cfg_fixed pres cwd dp dirName f e = Some f' ->
  exists rel, entry_rel dp dirName (entry_name e) = Some rel /\
              Keeps wd f f' /\ RealD f' [] dp /\ lexreal f' [] (dp ++ rel) = true /\
              Step f f' (dp ++ rel) /\
              (match e with EDir _ _ => RealD f' [] (dp ++ rel) | _ => True end).
Proof.
  intros I Hd HR H. unfold extract_entry_core, resolve_rel in H. cbn [fixR fixN fixW cfg_fixed] in H.
  destruct (entry_rel dp dirName (entry_name e)) as [rel|] eqn:ER; [|discriminate].
  exists rel. split; [reflexivity|].
  destruct (parents_ok f dp rel) eqn:PO; [|discriminate].
  assert (Hfp : inside wd (dp ++ rel) = true) by now apply inside_app.
  assert (HL : lexreal f [] (dp ++ rel) = true).
  { apply RealD_lexreal; [exact HR | now apply parents_ok_lexreal]. }
  assert (Hat : forall g, rel <> [] -> Keeps wd f g -> only_at f g (dp ++ rel) ->
                Keeps wd f g /\ RealD g [] dp /\ lexreal g [] (dp ++ rel) = true).
  { intros g Hr K O. split; [exact K|]. split; [|rewrite (lexreal_only_at _ _ _ O); exact HL].
    eapply RealD_only_below; [exact HR|]. eapply only_at_below; eauto. }
  destruct e as [nm c mo|nm mo|nm tgt|nm tgt|nm]; cbn [entry_name] in *.
  - (* regular file *)
    destruct rel as [|r0 rel']; [discriminate|].
    set (rel := r0 :: rel') in *. set (fp := dp ++ rel) in *.
    destruct (unlink_if_symlink f fp) as [f0|] eqn:U; [|discriminate].
    destruct (unlink_if_lex wd fp f f0 I Hfp HL U) as (K0 & O0 & N0).
    assert (HL0 : lexreal f0 [] fp = true) by (rewrite (lexreal_only_at _ _ _ O0); exact HL).
    unfold chmod_if in H.
    destruct (write_at f0 (Nms fp) c mo) as [f1|] eqn:Wr; [|discriminate].
    destruct (write_at_lex wd fp c mo f0 f1 (proj1 K0) Hfp HL0 N0 Wr) as (K1 & O1 & (i & L1)).
    assert (K01 : Keeps wd f f1) by (eapply Keeps_trans; eauto).
    assert (O01 : only_at f f1 fp) by (eapply only_at_trans; eauto).
    assert (S01 : Step f f1 fp).
    { right. split; [exact O01|]. split; [rewrite L1; discriminate|].
      intros L _. exfalso. unfold unlink_if_symlink in U.
      assert (Hfpne : fp <> []) by (unfold fp, rel; destruct dp; discriminate).
      pose proof (klstat_fwd f fp HL Hfpne) as Kf.
      destruct (klstat f fp);
        try (injection U as <-; rewrite (write_at_dir_none f fp c mo HL L) in Wr; discriminate).
      destruct Kf as (d0 & a0 & cs0 & L2). rewrite L in L2. discriminate. }
    destruct pres.
    + assert (HL1 : lexreal f1 [] fp = true) by (rewrite (lexreal_only_at _ _ _ O1); exact HL0).
      assert (N1 : forall d a cs, lookup f1 fp <> Some (NSym d a cs)) by (intros; rewrite L1; discriminate).
      destruct (chmod_at_lex wd fp mo f1 f' (proj1 K1) Hfp HL1 N1 H) as (K2 & S2).
      assert (O02 : only_at f f' fp) by (intros q Hq; rewrite S2; now apply O01).
      destruct (Hat f' ltac:(discriminate) (Keeps_trans _ _ _ _ K01 K2) O02) as (A & B & C).
      split; [exact A|]. split; [exact B|]. split; [exact C|]. split; [exact (Step_same f f1 f' fp S2 S01) | exact Logic.I].
    + injection H as <-. destruct (Hat f1 ltac:(discriminate) K01 O01) as (A & B & C).
      split; [exact A|]. split; [exact B|]. split; [exact C|]. split; [exact S01 | exact Logic.I].
  - (* directory: created (writable for the owner), mode restored at the end *)
    destruct (mkdir_real_lex wd _ rel dp f f' I Hd HR H) as (K1 & R1 & O1).
    split; [exact K1|]. split; [eapply RealD_prefix; eauto|].
    split; [rewrite <- (app_nil_r (dp ++ rel)); now apply RealD_lexreal|].
    split; [left; eapply mkdir_real_mono; eauto | exact R1].
  - (* hard link *)
    destruct rel as [|r0 rel']; [discriminate|]. set (rel := r0 :: rel') in *.
    destruct (ensure_link f dp (dp ++ rel) tgt) as [pn|] eqn:EL; [|discriminate].
    destruct (ensure_link_lex _ _ _ _ _ _ Hd HR EL) as [Hpn HLpn].
    destruct (do_link_lex wd cwd (dp ++ rel) pn tgt f f' I Hfp HL Hpn HLpn H) as (K & O & S).
    destruct (Hat f' ltac:(discriminate) K O) as (A & B & C).
    split; [exact A|]. split; [exact B|]. split; [exact C|]. split; [exact S | exact Logic.I].
  - (* symbolic link: created with the raw target *)
    destruct rel as [|r0 rel']; [discriminate|]. set (rel := r0 :: rel') in *.
    destruct (ensure_link f dp (dp ++ rel) tgt) as [pn|] eqn:EL; [|discriminate].
    destruct tgt as [|t0 tgt']; [discriminate|].
    assert (Hs : sinside wd (dp ++ rel)) by (apply inside_sinside_app; [exact Hd | discriminate]).
    unfold sym_node in H.
    destruct (do_symlink_lex wd (dp ++ rel) _ _ _ f f' I Hs HL H) as (K & O & S).
    destruct (Hat f' ltac:(discriminate) K O) as (A & B & C).
    split; [exact A|]. split; [exact B|]. split; [exact C|]. split; [exact S | exact Logic.I].
  - injection H as <-. split; [now apply Keeps_refl|]. split; [exact HR|]. split; [exact HL|].
    split; [apply Step_refl | exact Logic.I].
Qed.

(* os.Chtimes after the entry: never through a link, so at the lexical location *)
Lemma touch_keeps wd fp t f :
  Inv wd f -> inside wd fp = true -> lexreal f [] fp = true ->
  Keeps wd f (touch cfg_fixed f fp t) /\ (forall q, lookup (touch cfg_fixed f fp t) q = lookup f q).
Proof.
  intros I Hin HL. unfold touch. cbn [fixT cfg_fixed].
  assert (Hch : nosym f fp ->
                Keeps wd f (chtimes_at f fp t) /\ (forall q, lookup (chtimes_at f fp t) q = lookup f q)).
  { intro Hns. unfold chtimes_at. destruct t as [|tp]; [split; [now apply Keeps_refl | reflexivity]|].
    unfold awalk. rewrite (walk_follow_agrees f FUEL NLINK [] (Nms fp) Hns).
    pose proof (walk_lexical f fp FUEL NLINK [] HL) as Wl.
    pose proof (walk_lookup f FUEL NLINK [] (Nms fp) false) as Wk.
    destruct (walk FUEL f NLINK [] (Nms fp) false); try (split; [now apply Keeps_refl | reflexivity]);
      simpl in Wl; subst p.
    - split; [now apply keeps_setdstamp | reflexivity].
    - destruct Wk as [L _]. split; [eapply keeps_setfstamp; eauto | reflexivity]. }
  assert (Hk : klstat f fp <> LSym -> nosym f fp).
  { intros Hk q d a cs E. apply Hk. unfold klstat. rewrite E. reflexivity. }
  destruct (klstat f fp) eqn:EK; try (split; [now apply Keeps_refl | reflexivity]);
    apply Hch, Hk; discriminate.
Qed.

(* a recorded directory: every proper ancestor is a real directory and still has its child on
   the path, so no later entry can turn it into a link *)
Definition Recd (f : fsys) (fp : path) : Prop :=
  forall q c r, fp = q ++ c :: r -> q <> [] -> lookup f q = Some NDir /\ lookup f (q ++ [c]) <> None.

Lemma Recd_of_RealD f fp : RealD f [] fp -> Recd f fp.
Proof.
  intros HR q c r E Hq. split.
  - apply (HR q (c :: r) E Hq).
  - pose proof (HR (q ++ [c]) r) as L. simpl in L. rewrite L; [discriminate | now rewrite <- app_assoc | apply snoc_not_nil].
Qed.

Lemma Recd_same f f' fp : (forall q, lookup f' q = lookup f q) -> Recd f fp -> Recd f' fp.
Proof. intros S H q c r E Hq. rewrite !S. now apply (H q c r). Qed.

Lemma Recd_step f f' fp0 fp : Step f f' fp0 -> Recd f fp -> Recd f' fp.
Proof.
  intros [M|(O & B & C)] H q c r E Hq; destruct (H q c r E Hq) as [L1 L2].
  - split; [now apply M|]. destruct (lookup f (q ++ [c])) as [v|] eqn:Ev; [|contradiction].
    rewrite (M _ _ Ev). discriminate.
  - split.
    + destruct (path_eqb fp0 q) eqn:Eq.
      * apply path_eqb_spec in Eq. subst fp0. apply C; [exact L1 | exists c; exact L2].
      * rewrite O; [exact L1|]. intros ->. rewrite path_eqb_refl in Eq. discriminate.
    + destruct (path_eqb fp0 (q ++ [c])) eqn:Eq.
      * apply path_eqb_spec in Eq. subst fp0. exact B.
      * rewrite O; [exact L2|]. intro E'. rewrite <- E', path_eqb_refl in Eq. discriminate.
Qed.

Lemma Recd_RealD f fp : Recd f fp -> lookup f fp = Some NDir -> RealD f [] fp.
Proof.
  intros H L q r E Hq. simpl. destruct r as [|c r'].
  - rewrite app_nil_r in E. subst q. exact L.
  - apply (H q c r' E Hq).
Qed.

Definition Recds (f : fsys) (dirs : list (path * N)) : Prop := Forall (fun d => Recd f (fst d)) dirs.

Lemma extract_entry_keeps wd pres cwd dp dirName f e t f' dirs :
  Inv wd f -> inside wd dp = true -> RealD f [] dp -> Recds f dirs ->
  extract_entry cfg_fixed pres cwd dp dirName f e t = Some f' ->
  Keeps wd f f' /\ RealD f' [] dp /\
  Recds f' (match dir_record dp dirName e with Some d => d :: dirs | None => dirs end).
Proof.
  intros I Hd HR HD H. unfold extract_entry in H.
  destruct (extract_entry_core cfg_fixed pres cwd dp dirName f e) as [f1|] eqn:C; [|discriminate].
  destruct (extract_entry_core_keeps _ _ _ _ _ _ _ _ I Hd HR C) as (rel & ER & K1 & R1 & L1 & S1 & D1).
  assert (HD1 : Recds f1 (match dir_record dp dirName e with Some d => d :: dirs | None => dirs end)).
  { assert (A : Recds f1 dirs).
    { unfold Recds in *. rewrite Forall_forall in *. intros d Hin. eapply Recd_step; eauto. }
    destruct e as [nm c mo|nm mo|nm tgt|nm tgt|nm]; cbn [dir_record entry_name] in *; try exact A.
    rewrite ER. constructor; [|exact A]. simpl. now apply Recd_of_RealD. }
  assert (Ht : forall g, (forall q, lookup g q = lookup f1 q) -> Keeps wd f1 g ->
               Keeps wd f g /\ RealD g [] dp /\
               Recds g (match dir_record dp dirName e with Some d => d :: dirs | None => dirs end)).
  { intros g S K. split; [eapply Keeps_trans; eauto|]. split; [apply (RealD_same f1); assumption|].
    unfold Recds in *. rewrite Forall_forall in *. intros d Hin. apply (Recd_same f1); auto. }
  destruct (touch_keeps wd (dp ++ rel) t f1 (proj1 K1) (inside_app _ _ _ Hd) L1) as [K2 S2].
  destruct e; cbn [entry_name] in *; try rewrite ER in H; injection H as <-;
    try (apply Ht; assumption).
  apply Ht; [reflexivity | apply Keeps_refl; exact (proj1 K1)].
Qed.

(* restoreDirModes: each chmod hits a recorded directory that is still a real directory *)
Lemma Recd_lexreal f p : Recd f p -> lexreal f [] p = true.
Proof.
  intro H. destruct p as [|x l] using rev_ind; [reflexivity|].
  apply RealD_lexreal; [|reflexivity].
  intros q r0 E Hq. simpl. destruct (r0 ++ [x]) as [|c r] eqn:Er; [destruct r0; discriminate|].
  apply (H q c r); [|exact Hq]. rewrite E, <- app_assoc, Er. reflexivity.
Qed.

Lemma restore_dirs_keeps wd pres : forall dirs f f' seen,
  Inv wd f -> Recds f dirs -> Forall (fun d => inside wd (fst d) = true) dirs ->
  restore_dirs pres f dirs seen = Some f' -> Keeps wd f f'.
Proof.
  induction dirs as [|[p m] r IH]; intros f f' seen I HD Hin H.
  - injection H as <-. now apply Keeps_refl.
  - cbn [restore_dirs] in H. inversion HD as [|? ? Hp Hr]; subst. inversion Hin as [|? ? Ip Ir]; subst.
    simpl in Hp, Ip.
    destruct (existsb (path_eqb p) seen); [exact (IH f f' seen I Hr Ir H)|].
    assert (HRp : forall q, klstat f p = LDir q -> RealD f [] p).
    { intros q EK. destruct p as [|x p']; [intros q0 r0 E Hq0; destruct q0; [contradiction | discriminate]|].
      pose proof (klstat_fwd f (x :: p') (Recd_lexreal _ _ Hp) ltac:(discriminate)) as Kf.
      rewrite EK in Kf. destruct Kf as [_ L]. exact (Recd_RealD _ _ Hp L). }
    destruct (klstat f p) as [q| | | |] eqn:EK; try discriminate; try exact (IH f f' (p :: seen) I Hr Ir H).
    match type of H with (if ?c then _ else _) = _ => destruct c end; [exact (IH f f' (p :: seen) I Hr Ir H)|].
    match type of H with match chmod_at f p ?w with _ => _ end = _ => destruct (chmod_at f p w) as [f1|] eqn:Cm end; [|discriminate].
    destruct (chmod_at_real wd p _ f f1 I Ip (HRp q eq_refl) Cm) as [K1 S1].
    eapply Keeps_trans; [exact K1|]. apply (IH f1 f' (p :: seen) (proj1 K1)); [|exact Ir | exact H].
    unfold Recds in *. rewrite Forall_forall in *. intros d Hd. apply (Recd_same f); auto.
Qed.

Lemma extract_keeps wd pres cwd dp dirName trunc : forall es f f' ok ts dirs,
  Inv wd f -> inside wd dp = true -> RealD f [] dp ->
  Recds f dirs -> Forall (fun d => inside wd (fst d) = true) dirs ->
  extract cfg_fixed pres cwd dp dirName f es ts dirs trunc = (f', ok) ->
  Keeps wd f f'.
Proof.
  induction es as [|e es IH]; intros f f' ok ts dirs I Hd HR HD Hin H.
  - cbn [extract] in H. destruct trunc; [injection H as <- _; now apply Keeps_refl|].
    destruct (restore_dirs pres f dirs []) as [f1|] eqn:R; injection H as <- _.
    + eapply restore_dirs_keeps; eauto.
    + now apply Keeps_refl.
  - cbn [extract] in H.
    destruct (extract_entry cfg_fixed pres cwd dp dirName f e (hd 0%N ts)) as [f1|] eqn:E.
    + destruct (extract_entry_keeps _ _ _ _ _ _ _ _ _ dirs I Hd HR HD E) as (K1 & HR1 & HD1).
      eapply Keeps_trans; [exact K1|]. eapply IH; eauto; [exact (proj1 K1)|].
      destruct e as [nm c mo|nm mo|nm tgt|nm tgt|nm]; cbn [dir_record] in *; try exact Hin.
      destruct (entry_rel dp dirName nm) as [rel|]; [|exact Hin].
      constructor; [simpl; now apply inside_app | exact Hin].
    + injection H as <- _. now apply Keeps_refl.
Qed.

(* ---------- push ---------- *)

Lemma removelast_map {A B} (g : A -> B) (l : list A) : removelast (map g l) = map g (removelast l).
Proof. induction l as [|a [|a' l'] IH]; try reflexivity. cbn [map removelast] in *. now rewrite IH. Qed.

Lemma removelast_Nms l : removelast (Nms l) = Nms (removelast l).
Proof. apply removelast_map. Qed.

Lemma lexreal_of_parent f cl : RealD f [] (removelast cl) -> lexreal f [] cl = true.
Proof.
  destruct cl as [|x l] using rev_ind; [reflexivity|].
  rewrite removelast_last. intro HR. apply RealD_lexreal; [exact HR | reflexivity].
Qed.

(* the directory of a title that is inside the working directory but not below it: the
   title denotes the working directory itself *)
Lemma parent_outside wd cl :
  inside wd cl = true -> strip_prefix wd (removelast cl) = None -> cl = wd /\ wd <> [].
Proof.
  intros Hin SP. apply inside_spec in Hin as [r ->]. destruct r as [|x r'].
  - rewrite app_nil_r in *. split; [reflexivity|]. intros ->. discriminate.
  - exfalso. rewrite removelast_app in SP by discriminate.
    assert (E : strip_prefix wd (wd ++ removelast (x :: r')) = Some (removelast (x :: r'))) by now apply strip_prefix_spec.
    congruence.
Qed.

Lemma write_path_fixed wd title raw :
  write_path cfg_fixed wd title = Some raw -> exists cl, raw = Nms cl /\ inside wd cl = true.
Proof.
  intro EW. unfold write_path in EW. cbn [fixA cfg_fixed] in EW.
  match type of EW with (if inside wd ?c then _ else _) = _ => destruct (inside wd c) eqn:Ein; [|discriminate] end.
  injection EW as <-. eexists. split; [reflexivity | exact Ein].
Qed.

(* ensureWriteDir of a directory below the working directory *)
Lemma ensure_write_dir_below wd f rel rawdir f1 :
  Inv wd f -> ensure_write_dir cfg_fixed wd f (wd ++ rel) rawdir = Some f1 ->
  Keeps wd f f1 /\ RealD f1 [] (wd ++ rel).
Proof.
  intros I H. unfold ensure_write_dir in H. cbn [fixN cfg_fixed] in H.
  assert (SP : strip_prefix wd (wd ++ rel) = Some rel) by now apply strip_prefix_spec.
  rewrite SP in H. pose proof (RealD_inv _ _ I) as HRwd.
  destruct (mkdir_all f (Nms wd) c11_write_dir_perm) as [f0|] eqn:M0; [|discriminate].
  unfold mkdir_all in M0. apply (mkdir_prefixes_noop f _ wd [] f0 HRwd) in M0. subst f0.
  destruct (mkdir_real_lex wd _ rel wd _ f1 I (inside_refl wd) HRwd H) as (K1 & R1 & _).
  split; assumption.
Qed.

Lemma push_blob_keeps wd s title w good s' ok :
  Inv wd (st_fs s) ->
  push_blob cfg_fixed wd s title w good = (s', ok) ->
  Keeps wd (st_fs s) (st_fs s').
Proof.
  intros I H. unfold push_blob in H.
  destruct (existsb (str_eqb title) (st_names s)).
  { injection H as <- _. now apply Keeps_refl. }
  destruct (write_path cfg_fixed wd title) as [raw|] eqn:EW.
  2:{ injection H as <- _. now apply Keeps_refl. }
  destruct (write_path_fixed _ _ _ EW) as (cl & -> & Hcl).
  unfold cached, remember in H. cbn [fixW fixK cfg_fixed negb andb] in H.
  pose proof (RealD_inv _ _ I) as HRwd.
  rewrite removelast_Nms, !clean_abs_names in H.
  destruct (strip_prefix wd (removelast cl)) as [rel|] eqn:SP.
  - apply strip_prefix_spec in SP. rewrite SP in H.
    destruct (ensure_write_dir cfg_fixed wd (st_fs s) (wd ++ rel) (Nms (wd ++ rel))) as [f1|] eqn:M.
    2:{ injection H as <- _. now apply Keeps_refl. }
    destruct (ensure_write_dir_below wd _ rel _ f1 I M) as (K1 & R1).
    rewrite <- SP in R1.
    pose proof (lexreal_of_parent _ _ R1) as HL1.
    destruct (path_eqb cl wd) eqn:Hclwd; cbn [negb andb] in H.
    { (* the title denotes the working directory itself: os.Create fails on the directory *)
      apply path_eqb_spec in Hclwd. subst cl.
      rewrite (write_at_real f1 wd w 438 (RealD_inv _ _ (proj1 K1))) in H. injection H as <- _. exact K1. }
    destruct (unlink_if_symlink f1 cl) as [f1'|] eqn:U.
    2:{ injection H as <- _. exact K1. }
    destruct (unlink_if_lex wd cl f1 f1' (proj1 K1) Hcl HL1 U) as (K2 & O2 & N2).
    assert (K12 : Keeps wd (st_fs s) f1') by (eapply Keeps_trans; eauto).
    assert (HL2 : lexreal f1' [] cl = true) by (rewrite (lexreal_only_at _ _ _ O2); exact HL1).
    destruct (write_at f1' (Nms cl) w 438) as [f2|] eqn:Wr.
    + destruct (write_at_lex wd cl w 438 f1' f2 (proj1 K2) Hcl HL2 N2 Wr) as (K3 & O3 & (i3 & L3)).
      assert (K13 : Keeps wd (st_fs s) f2) by (eapply Keeps_trans; eauto).
      destruct good; [injection H as <- _; exact K13|].
      destruct (remove_at f2 cl) as [f3|] eqn:Rm; injection H as <- _; [|exact K13]. simpl.
      assert (Hne : cl <> []).
      { intros ->. rewrite (write_at_real f1' [] w 438) in Wr; [discriminate|].
        intros q r E Hq. destruct q; [contradiction | discriminate]. }
      assert (Hs : sinside wd cl) by (eapply inside_sinside; [exact (proj1 K3) | exact Hcl | exact Hne | rewrite L3; discriminate]).
      assert (HL3 : lexreal f2 [] cl = true) by (rewrite (lexreal_only_at _ _ _ O3); exact HL2).
      destruct (remove_at_lex wd cl f2 f3 (proj1 K3) Hs HL3 Rm) as (_ & K4 & _).
      eapply Keeps_trans; eauto.
    + injection H as <- _. exact K12.
  - destruct (parent_outside wd cl Hcl SP) as [-> Hwd].
    assert (HRp : RealD (st_fs s) [] (removelast wd)).
    { apply (RealD_prefix _ (removelast wd) [last wd []]). rewrite <- app_removelast_last by exact Hwd. exact HRwd. }
    unfold ensure_write_dir in H. cbn [fixN cfg_fixed] in H. rewrite SP in H.
    destruct (mkdir_all (st_fs s) (Nms (removelast wd)) c11_ensure_dir_perm) as [f1|] eqn:M.
    2:{ injection H as <- _. now apply Keeps_refl. }
    unfold mkdir_all in M.
    apply (mkdir_prefixes_noop (st_fs s) _ (removelast wd) [] f1 HRp) in M. subst f1.
    rewrite path_eqb_refl in H. cbn [negb andb] in H.
    rewrite (write_at_real _ wd w 438 HRwd) in H. injection H as <- _. now apply Keeps_refl.
Qed.

Lemma push_dir_keeps wd pres cwd s title ts es how s' ok :
  Inv wd (st_fs s) ->
  push_dir cfg_fixed pres wd cwd s title ts es how = (s', ok) ->
  Keeps wd (st_fs s) (st_fs s').
Proof.
  intros I H. unfold push_dir in H.
  destruct (existsb (str_eqb title) (st_names s)).
  { injection H as <- _. now apply Keeps_refl. }
  destruct (write_path cfg_fixed wd title) as [raw|] eqn:EW.
  2:{ injection H as <- _. now apply Keeps_refl. }
  destruct (write_path_fixed _ _ _ EW) as (cl & -> & Hcl).
  unfold cached, remember in H. cbn [fixK cfg_fixed negb andb] in H.
  rewrite clean_abs_names in H.
  destruct (strip_prefix wd cl) as [rel|] eqn:SP.
  2:{ unfold inside in Hcl. rewrite SP in Hcl. discriminate. }
  apply strip_prefix_spec in SP. subst cl.
  destruct (ensure_write_dir cfg_fixed wd (st_fs s) (wd ++ rel) (Nms (wd ++ rel))) as [f1|] eqn:M.
  2:{ injection H as <- _. now apply Keeps_refl. }
  destruct (ensure_write_dir_below wd _ rel _ f1 I M) as (K1 & R1).
  destruct (how =? 1)%N; [injection H as <- _; exact K1|].
  destruct (extract cfg_fixed pres cwd (wd ++ rel) title f1 es ts [] (how =? 2)%N) as [f2 ok2] eqn:EX.
  injection H as <- _. simpl.
  eapply Keeps_trans; [exact K1|].
  apply (extract_keeps wd pres cwd (wd ++ rel) title _ es f1 f2 ok2 ts [] (proj1 K1) Hcl R1 (Forall_nil _) (Forall_nil _) EX).
Qed.

(* restoreDuplicates: every restored layer is an ordinary named-blob push in the current tree *)
Lemma restore_layers_keeps wd : forall layers s s' ok,
  Inv wd (st_fs s) ->
  restore_layers cfg_fixed wd s layers = (s', ok) ->
  Keeps wd (st_fs s) (st_fs s').
Proof.
  induction layers as [|[t c] r IH]; intros s s' ok I H.
  - injection H as <- _. now apply Keeps_refl.
  - cbn [restore_layers] in H. destruct t as [|t0 tt]; [now apply (IH s s' ok)|].
    destruct (existsb (str_eqb (t0 :: tt)) (st_names s)); [now apply (IH s s' ok)|].
    destruct (fetch s c) as [| |c']; [now apply (IH s s' ok) | injection H as <- _; now apply Keeps_refl |].
    destruct (push_blob cfg_fixed wd s (t0 :: tt) c' ((c' =? c)%N && negb (c =? 0)%N)) as [s1 ok1] eqn:P.
    pose proof (push_blob_keeps _ _ _ _ _ _ _ I P) as K1.
    destruct ok1.
    + eapply Keeps_trans; [exact K1|]. apply (IH s1 s' ok (proj1 K1) H).
    + injection H as <- _. exact K1.
Qed.

Lemma push_keeps wd pres cwd s o s' ok :
  Inv wd (st_fs s) ->
  push cfg_fixed pres wd cwd s o = (s', ok) ->
  Keeps wd (st_fs s) (st_fs s').
Proof.
  intros I H. unfold push in H. destruct o as [t c|t ts es|layers|how t ts es].
  - destruct t as [|t0 tt].
    + destruct ((c =? 0)%N || existsb (str_eqb [0%N; c]) (st_names s)); injection H as <- _; now apply Keeps_refl.
    + eapply push_blob_keeps; eauto.
  - destruct t as [|t0 tt].
    + injection H as <- _. now apply Keeps_refl.
    + eapply push_dir_keeps; eauto.
  - destruct (existsb (str_eqb (manifest_marker layers)) (st_names s)).
    + injection H as <- _. now apply Keeps_refl.
    + apply (restore_layers_keeps wd layers (mkStore (st_fs s) (manifest_marker layers :: st_names s) (st_d2p s)) s' ok I H).
  - destruct t as [|t0 tt].
    + injection H as <- _. now apply Keeps_refl.
    + eapply push_dir_keeps; eauto.
Qed.

Lemma pushes_keeps wd pres cwd : forall os s s' oks,
  Inv wd (st_fs s) ->
  pushes cfg_fixed pres wd cwd s os = (s', oks) ->
  Keeps wd (st_fs s) (st_fs s').
Proof.
  induction os as [|o os IH]; intros s s' oks I H.
  - injection H as <- _. now apply Keeps_refl.
  - cbn [pushes] in H.
    destruct (push cfg_fixed pres wd cwd s o) as [s1 ok] eqn:P.
    destruct (pushes cfg_fixed pres wd cwd s1 os) as [s2 oks2] eqn:Ps.
    injection H as <- _.
    pose proof (push_keeps _ _ _ _ _ _ _ I P) as K1.
    eapply Keeps_trans; [exact K1|]. eapply IH; eauto. exact (proj1 K1).
Qed.

(* ---------- names that resolve outside are rejected ---------- *)

(* the lexical location a name denotes, taken relative to the working directory *)
Definition lex_loc (wd : path) (s : str) : path :=
  clean_abs (if is_abs s then comps_of s else Nms wd ++ comps_of s).

Lemma write_path_lex g wd title raw :
  write_path g wd title = Some raw -> inside wd (lex_loc wd title) = true /\ clean_abs raw = lex_loc wd title.
Proof.
  unfold write_path, lex_loc. destruct (is_abs title).
  - destruct (inside wd (clean_abs (comps_of title))) eqn:E; [|discriminate].
    intros [= <-]. split; [reflexivity|]. destruct (fixA g); [apply clean_abs_names | reflexivity].
  - rewrite clean_abs_names.
    destruct (inside wd (clean_abs (Nms wd ++ comps_of title))) eqn:E; [|discriminate].
    intros [= <-]. split; [reflexivity|]. destruct (fixA g); apply clean_abs_names.
Qed.

Lemma push_outside_title g pres wd cwd s o :
  inside wd (lex_loc wd (push_title o)) = false -> push_title o <> [] ->
  push g pres wd cwd s o = (s, false).
Proof.
  assert (D : forall t ts es how, t <> [] -> inside wd (lex_loc wd t) = false ->
              push_dir g pres wd cwd s t ts es how = (s, false)).
  { intros t ts es how _ Ho. unfold push_dir. destruct (existsb (str_eqb t) (st_names s)); [reflexivity|].
    destruct (write_path g wd t) as [raw|] eqn:EW; [|reflexivity].
    apply write_path_lex in EW as [E _]. congruence. }
  intros H Hne. unfold push. destruct o as [t c|t ts es|layers|how t ts es]; cbn [push_title] in *; try contradiction;
    (destruct t as [|t0 tt]; [contradiction|]); try (apply D; assumption).
  - unfold push_blob. destruct (existsb (str_eqb (t0 :: tt)) (st_names s)); [reflexivity|].
    destruct (write_path g wd (t0 :: tt)) as [raw|] eqn:EW; [|reflexivity].
    apply write_path_lex in EW as [E _]. congruence.
Qed.

(* an accepted entry name denotes a location below the unpack directory *)
Lemma entry_rel_inside wd title nm ns :
  entry_rel (lex_loc wd title) title nm = Some ns ->
  lex_loc wd nm = lex_loc wd title ++ ns.
Proof.
  unfold entry_rel, lex_loc, rel_under, clean_str. destruct (is_abs nm) eqn:An.
  - cbn [Bool.eqb fst snd andb Nat.eqb]. intro H. apply strip_prefix_spec in H. exact H.
  - destruct (is_abs title) eqn:At; cbn [Bool.eqb andb]; [discriminate|].
    destruct (Nat.eqb (fst (clean_rel (comps_of title))) (fst (clean_rel (comps_of nm)))) eqn:Em; [|discriminate].
    apply Nat.eqb_eq in Em. intro H. apply strip_prefix_spec in H.
    rewrite !clean_abs_join, H, Em, app_assoc. reflexivity.
Qed.

Lemma entry_outside_rejected g pres wd cwd title f e :
  inside wd (lex_loc wd title) = true ->
  inside wd (lex_loc wd (entry_name e)) = false ->
  forall t, extract_entry g pres cwd (lex_loc wd title) title f e t = None.
Proof.
  intros Ht He t. unfold extract_entry, extract_entry_core, resolve_rel.
  destruct (entry_rel (lex_loc wd title) title (entry_name e)) as [ns|] eqn:E; [|reflexivity].
  apply entry_rel_inside in E. rewrite E, inside_app in He; [discriminate | exact Ht].
Qed.

Lemma extract_stops g pres cwd dp dirName e es2 trunc : forall es1 f ts (dirs : list (path * N)),
  (forall f0 t, extract_entry g pres cwd dp dirName f0 e t = None) ->
  snd (extract g pres cwd dp dirName f (es1 ++ e :: es2) ts dirs trunc) = false.
Proof.
  induction es1 as [|e1 es1 IH]; intros f ts dirs H; cbn [app extract].
  - now rewrite H.
  - destruct (extract_entry g pres cwd dp dirName f e1 (hd 0%N ts)); [now apply IH | reflexivity].
Qed.

(* ---------- a concrete tree: the hypotheses are satisfiable, the unrepaired code escapes ---------- *)

Definition wd0 : path := [b "r"; b "w"].
Definition cwd0 : path := [b "c"].
Definition fs0 : fsys :=
  mkFS [ ([b "r"], NDir); ([b "r"; b "w"], NDir); ([b "r"; b "victim"], NFile 0);
         ([b "victim"], NFile 1); ([b "c"], NDir); ([b "c"; b "secret"], NFile 2);
         ([b "r"; b "x"], NDir); ([b "r"; b "x"; b "victim"], NFile 3);
         ([b "r"; b "w"; b "old"], NFile 4) ]
       [ (0, 100%N); (1, 101%N); (2, 102%N); (3, 103%N); (4, 104%N) ] 5 [] [] [] [].

Lemma inv_fs0 : Inv wd0 fs0.
Proof.
  constructor.
  - intros q r E Hq. destruct q as [|q1 [|q2 [|q3 q']]]; [contradiction| | |].
    + injection E as <- _. reflexivity.
    + injection E as <- <- _. reflexivity.
    + apply (f_equal (@length _)) in E. simpl in E. rewrite app_length in E. lia.
  - intros p q i Hp Hq. unfold lookup, fs0 in Hp, Hq. cbn [ents lookup_ents] in Hp, Hq.
    repeat match type of Hp with
           | (if path_eqb ?k p then _ else _) = _ =>
             let E := fresh "E" in destruct (path_eqb k p) eqn:E;
             [apply path_eqb_spec in E; subst p; try discriminate Hp | ]
           end; try discriminate Hp;
    injection Hp as <-;
    repeat match type of Hq with
           | (if path_eqb ?k q then _ else _) = _ =>
             let E := fresh "E" in destruct (path_eqb k q) eqn:E;
             [apply path_eqb_spec in E; subst q; try discriminate Hq | ]
           end; try discriminate Hq; intros; try (left; assumption); try (left; reflexivity).
  - intros p i H. change (nexti fs0) with 5. unfold lookup, fs0 in H. cbn [ents lookup_ents] in H.
    repeat match type of H with
           | (if ?c then _ else _) = _ =>
             destruct c; [first [discriminate H | (injection H as H; subst i; lia)] |]
           end. discriminate.  - intros i [].
Qed.

Definition run0 (g : cfg) (os : list pushop) : fsys * list bool :=
  let '(s, oks) := pushes g false wd0 cwd0 (mkStore fs0 [] []) os in (st_fs s, oks).

Definition escapes (g : cfg) : Prop :=
  exists os p, inside wd0 p = false /\ view_at (fst (run0 g os)) p <> view_at fs0 p.

Ltac escape_with os p :=
  exists os, p; split; [vm_compute; reflexivity | vm_compute; discriminate].

(* F10: hard link whose relative target is taken from the process's current directory *)
Definition os_hardlink_cwd : list pushop :=
  [PDir (b "t") [] [EHard (b "t/h") (b "secret"); EReg (b "t/h") 7%N 420%N]].
Lemma refuted_hardlink_cwd : escapes (mkCfg false true true true true true true).
Proof. escape_with os_hardlink_cwd [b "c"; b "secret"]. Qed.

(* F11: the raw link target is lexically inside and physically outside; a regular entry (or a
   named blob) is written through the link *)
Definition os_raw_target : list pushop :=
  [PDir (b "t") [] [EDir (b "t/a/b") 493%N; ESym (b "t/a/b/s") (b "../..");
                 ESym (b "t/l") (b "a/b/s/../../../victim"); EReg (b "t/l") 7%N 420%N]].
Definition os_raw_target_blob : list pushop :=
  [PDir (b "t") [] [EDir (b "t/a/b") 493%N; ESym (b "t/a/b/s") (b "../..");
                 ESym (b "t/l") (b "a/b/s/../../../victim")];
   PBlob (b "t/l") 7%N].
Lemma refuted_write_through_link : escapes (mkCfg true true true true false true true).
Proof. escape_with os_raw_target [b "victim"]. Qed.
Lemma refuted_blob_through_link : escapes (mkCfg true true true true false true true).
Proof. escape_with os_raw_target_blob [b "victim"]. Qed.

(* directories created / entered through a link: unpack directory reached through a link
   created by the store *)
Definition os_title_through_link : list pushop :=
  [PDir (b ".") [] [ESym (b "./x") (b ".")];
   PDir (b "x") [] [ESym (b "x/l") (b "../x/victim"); EReg (b "x/l") 7%N 420%N]].
Lemma refuted_title_through_link : escapes (mkCfg true true true false false true true).
Proof. escape_with os_title_through_link [b "r"; b "x"; b "victim"]. Qed.

(* named blob below a link (here a hard link to a link, which sits at another depth) *)
Definition os_hardlink_symlink : list pushop :=
  [PDir (b "t") [] [EDir (b "t/b/c") 493%N; ESym (b "t/b/c/s") (b "../.."); EHard (b "t/h") (b "b/c/s")];
   PBlob (b "t/h/victim") 7%N].
Lemma refuted_dir_through_link : escapes (mkCfg true true true false true true true).
Proof. escape_with os_hardlink_symlink [b "r"; b "victim"]. Qed.

(* absolute title used raw: ".." after a store link *)
Definition os_abs_title : list pushop :=
  [PDir (b "t") [] [EDir (b "t/b") 493%N; ESym (b "t/b/s") (b "..")];
   PBlob (b "/r/w/t/b/s/../../../victim") 7%N].
Lemma refuted_abs_title : escapes (mkCfg true false true true true true true).
Proof. escape_with os_abs_title [b "victim"]. Qed.

Lemma prefix_escapes : escapes cfg_prefix.
Proof. escape_with os_hardlink_cwd [b "c"; b "secret"]. Qed.

(* the repaired store accepts ordinary archives (hypotheses and success are not vacuous) *)
Definition os_ordinary : list pushop :=
  [PDir (b "t") [] [EDir (b "t/a/b") 493%N; EReg (b "t/a/b/f") 7%N 384%N; ESym (b "t/a/b/s") (b "../..");
                 ESym (b "t/l") (b "a/b/s/../x"); EHard (b "t/h") (b "a/b/f"); EReg (b "t/h") 8%N 420%N;
                 ESym (b "t/l") (b "a/b/f"); EReg (b "t/l") 9%N 420%N; ESym (b "t/k") (b "a/b/s/../x")];
   PBlob (b "t/a/new") 10%N; PBlob (b "old") 11%N].

Lemma ordinary_ok :
  snd (run0 cfg_fixed os_ordinary) = [true; true; true] /\
  view_at (fst (run0 cfg_fixed os_ordinary)) [b "r"; b "w"; b "t"; b "a"; b "b"; b "f"] = VFile (enc 8 384) 0%N /\
  view_at (fst (run0 cfg_fixed os_ordinary)) [b "r"; b "w"; b "t"; b "l"] = VFile (enc 9 420) 0%N /\
  view_at (fst (run0 cfg_fixed os_ordinary)) [b "r"; b "w"; b "t"; b "k"] = VSym (b "a/b/s/../x") /\
  view_at (fst (run0 cfg_fixed os_ordinary)) [b "r"; b "w"; b "old"] = VFile (enc 11 104) 0%N.
Proof.
  vm_compute. repeat split.
Qed.

(* all five attacks are refused or harmless on the repaired store *)
Lemma attacks_confined_fixed :
  forall os, In os [os_hardlink_cwd; os_raw_target; os_raw_target_blob; os_title_through_link; os_abs_title; os_hardlink_symlink] ->
  forall p, inside wd0 p = false -> view_at (fst (run0 cfg_fixed os)) p = view_at fs0 p.
Proof.
  intros os Hin p Hp. unfold run0.
  destruct (pushes cfg_fixed false wd0 cwd0 (mkStore fs0 [] []) os) as [s oks] eqn:E. simpl.
  apply (same_outside_view wd0 fs0 (st_fs s) p (proj2 (pushes_keeps wd0 false cwd0 os (mkStore fs0 [] []) s oks inv_fs0 E)) Hp).
  intros i _ [].
Qed.

Lemma push_outside_entry g pres wd cwd s title ts es1 e es2 :
  title <> [] ->
  inside wd (lex_loc wd (entry_name e)) = false ->
  snd (push g pres wd cwd s (PDir title ts (es1 ++ e :: es2))) = false.
Proof.
  intros Hne He. unfold push. destruct title as [|t0 tt] eqn:ET; [contradiction|]. rewrite <- ET in *.
  unfold push_dir.
  destruct (existsb (str_eqb title) (st_names s)); [reflexivity|].
  destruct (write_path g wd title) as [raw|] eqn:EW; [|reflexivity].
  apply write_path_lex in EW as [Hin ->].
  match goal with |- snd (match ?m with Some _ => _ | None => _ end) = _ => destruct m as [f1|] end; [|reflexivity].
  pose proof (extract_stops g pres cwd (lex_loc wd title) title e es2 false es1 f1 ts []
                (fun f0 => entry_outside_rejected g pres wd cwd title f0 e Hin He)) as Hs.
  change (0 =? 1)%N with false. change (0 =? 2)%N with false. change (0 =? 3)%N with false. cbn [negb andb].
  destruct (extract g pres cwd (lex_loc wd title) title f1 (es1 ++ e :: es2) ts [] false) as [f2 ok]. simpl in *.
  rewrite Bool.andb_true_r. exact Hs.
Qed.

(* the working directory itself stays a real directory *)
Lemma pushes_wd_kept wd pres cwd os s s' oks :
  wd <> [] -> Inv wd (st_fs s) ->
  pushes cfg_fixed pres wd cwd s os = (s', oks) ->
  lookup (st_fs s') wd = Some NDir.
Proof.
  intros Hwd I H. destruct (pushes_keeps wd pres cwd os s s' oks I H) as [I' _].
  apply (inv_wd _ _ I' wd []); [now rewrite app_nil_r | exact Hwd].
Qed.

(* without the last repair an archive can replace the (empty) working directory itself by a link *)
Definition fs1 : fsys :=
  mkFS [ ([b "r"], NDir); ([b "r"; b "w"], NDir); ([b "r"; b "victim"], NFile 0) ] [ (0, 100%N) ] 1 [] [] [] [].

Lemma inv_fs1 : Inv wd0 fs1.
Proof.
  constructor.
  - intros q r E Hq. destruct q as [|q1 [|q2 [|q3 q']]]; [contradiction| | |].
    + injection E as <- _. reflexivity.
    + injection E as <- <- _. reflexivity.
    + apply (f_equal (@length _)) in E. simpl in E. rewrite app_length in E. lia.
  - intros p q i Hp Hq. unfold lookup, fs1 in Hp, Hq. cbn [ents lookup_ents] in Hp, Hq.
    repeat match type of Hp with
           | (if path_eqb ?k p then _ else _) = _ =>
             let E := fresh "E" in destruct (path_eqb k p) eqn:E;
             [apply path_eqb_spec in E; subst p; try discriminate Hp | ]
           end; try discriminate Hp;
    injection Hp as <-;
    repeat match type of Hq with
           | (if path_eqb ?k q then _ else _) = _ =>
             let E := fresh "E" in destruct (path_eqb k q) eqn:E;
             [apply path_eqb_spec in E; subst q; try discriminate Hq | ]
           end; try discriminate Hq; intros; try (left; assumption); try (left; reflexivity).
  - intros p i H. change (nexti fs1) with 1. unfold lookup, fs1 in H. cbn [ents lookup_ents] in H.
    repeat match type of H with
           | (if ?c then _ else _) = _ =>
             destruct c; [first [discriminate H | (injection H as H; subst i; lia)] |]
           end. discriminate.  - intros i [].
Qed.

Definition os_replace_wd : list pushop := [PDir (b ".") [] [ESym (b ".") (b "w/x")]].

Lemma refuted_replace_wd :
  lookup (st_fs (fst (pushes (mkCfg true true false true true true true) false wd0 cwd0 (mkStore fs1 [] []) os_replace_wd))) wd0
  <> Some NDir.
Proof. vm_compute. discriminate. Qed.

Lemma replace_wd_fixed :
  pushes cfg_fixed false wd0 cwd0 (mkStore fs1 [] []) os_replace_wd = (mkStore fs1 [] [], [false]).
Proof. vm_compute. reflexivity. Qed.

(* a directory entry on top of a link, with PreservePermissions: the recorded mode is applied after
   the last entry only to paths that are (still) directories, never through the link *)
Definition os_remode : list pushop :=
  [PDir (b "t") [] [EDir (b "t/a/b") 493%N; ESym (b "t/a/b/s") (b "../..");
                 ESym (b "t/l") (b "a/b/s/../.."); EDir (b "t/e") 448%N; ESym (b "t/e") (b "a/b/s/../..")]].

Lemma remode_skips_links :
  snd (fst (pushes cfg_fixed true wd0 cwd0 (mkStore fs0 [] []) os_remode), snd (pushes cfg_fixed true wd0 cwd0 (mkStore fs0 [] []) os_remode)) = [true] /\
  view_at (st_fs (fst (pushes cfg_fixed true wd0 cwd0 (mkStore fs0 [] []) os_remode))) [b "r"] = view_at fs0 [b "r"].
Proof. split; vm_compute; reflexivity. Qed.


(* the unpack directory is narrowed to the mode the archive records for it (no PreservePermissions);
   other modes are not touched *)
Definition os_narrow : list pushop :=
  [PDir (b "t") [] [EDir (b "t") 448%N; EDir (b "t/a") 511%N; EReg (b "t/a/f") 7%N 384%N]].

Lemma narrow_ok :
  snd (run0 cfg_fixed os_narrow) = [true] /\
  view_at (fst (run0 cfg_fixed os_narrow)) [b "r"; b "w"; b "t"] = VDir 448%N 0%N /\
  view_at (fst (run0 cfg_fixed os_narrow)) [b "r"; b "w"; b "t"; b "a"] = VDir 493%N 0%N /\
  view_at (fst (run0 cfg_fixed os_narrow)) [b "r"; b "w"] = VDir 493%N 0%N.
Proof. vm_compute. repeat split. Qed.

(* F1 of the audit: os.Chtimes after a link entry follows the link and sets the times of a file
   outside (the link text is raw, lexically inside, physically outside) *)
Definition os_touch : list pushop :=
  [PDir (b "t") [0%N; 0%N; 77%N]
        [EDir (b "t/a/b") 493%N; ESym (b "t/a/b/s") (b "../.."); ESym (b "t/l") (b "a/b/s/../../../victim")]].

Lemma refuted_touch : escapes (mkCfg true true true true true false true).
Proof. escape_with os_touch [b "victim"]. Qed.

Lemma touch_fixed :
  snd (run0 cfg_fixed os_touch) = [true] /\
  view_at (fst (run0 cfg_fixed os_touch)) [b "victim"] = view_at fs0 [b "victim"] /\
  view_at (fst (run0 cfg_fixed os_touch)) [b "r"; b "w"; b "t"; b "l"] = VSym (b "a/b/s/../../../victim").
Proof. vm_compute. repeat split. Qed.

(* times are set on ordinary entries *)
Definition os_times : list pushop :=
  [PDir (b "t") [5%N; 6%N] [EDir (b "t/a") 493%N; EReg (b "t/a/f") 7%N 420%N]].
Lemma times_ok :
  view_at (fst (run0 cfg_fixed os_times)) [b "r"; b "w"; b "t"; b "a"] = VDir 493%N 5%N /\
  view_at (fst (run0 cfg_fixed os_times)) [b "r"; b "w"; b "t"; b "a"; b "f"] = VFile (enc 7 420) 6%N.
Proof. vm_compute. repeat split. Qed.

(* ---------- further rejections (audit F5) ---------- *)

(* an entry whose name is not below the unpack directory (even if inside the working directory) *)
Lemma entry_outside_unpack_dir_rejected g pres wd cwd title f e :
  inside (lex_loc wd title) (lex_loc wd (entry_name e)) = false ->
  forall t, extract_entry g pres cwd (lex_loc wd title) title f e t = None.
Proof.
  intros He t. unfold extract_entry, extract_entry_core, resolve_rel.
  destruct (entry_rel (lex_loc wd title) title (entry_name e)) as [ns|] eqn:E; [|reflexivity].
  apply entry_rel_inside in E. rewrite E in He.
  rewrite (inside_app _ _ _ (inside_refl _)) in He. discriminate.
Qed.

(* a link (symbolic or hard) whose target, taken relative to the link's directory, is lexically
   not below the unpack directory *)
Lemma link_target_outside_rejected g pres cwd dp dirName f nm tgt rel t :
  entry_rel dp dirName nm = Some rel ->
  inside dp (link_abs_path (dp ++ rel) tgt) = false ->
  extract_entry g pres cwd dp dirName f (ESym nm tgt) t = None /\
  extract_entry g pres cwd dp dirName f (EHard nm tgt) t = None.
Proof.
  intros ER Ho.
  assert (EL : ensure_link f dp (dp ++ rel) tgt = None).
  { unfold ensure_link. unfold inside in Ho.
    destruct (strip_prefix dp (link_abs_path (dp ++ rel) tgt)); [discriminate | reflexivity]. }
  unfold extract_entry, extract_entry_core, resolve_rel; cbn [entry_name]. rewrite ER.
  destruct (parents_ok f dp rel); [|split; reflexivity].
  rewrite EL. split; destruct (match rel with [] => fixR g | _ :: _ => false end); reflexivity.
Qed.

Lemma descend_ok_link f c d a cs r : forall q cur,
  RealD f cur q -> lookup f (cur ++ q ++ [c]) = Some (NSym d a cs) ->
  descend_ok f cur (q ++ c :: r) = false.
Proof.
  induction q as [|x q IH]; intros cur HR L.
  - simpl in *. rewrite L. reflexivity.
  - cbn [app descend_ok]. rewrite (RealD_head _ _ _ _ HR).
    apply IH; [apply (RealD_step _ _ _ _ HR)|]. rewrite <- app_assoc. exact L.
Qed.

(* a name whose parent chain below the unpack directory goes through a symbolic link *)
Lemma entry_through_link_rejected g pres cwd dp dirName f e t q c r d a cs :
  RealD f [] dp -> RealD f dp q ->
  entry_rel dp dirName (entry_name e) = Some (q ++ c :: r) -> r <> [] ->
  lookup f (dp ++ q ++ [c]) = Some (NSym d a cs) ->
  extract_entry g pres cwd dp dirName f e t = None.
Proof.
  intros HRd HRq ER Hr L.
  assert (PO : parents_ok f dp (q ++ c :: r) = false).
  { unfold parents_ok.
    assert (E : removelast (q ++ c :: r) = q ++ c :: removelast r).
    { rewrite removelast_app by discriminate. f_equal.
      change (c :: r) with ([c] ++ r). rewrite removelast_app by exact Hr. reflexivity. }
    rewrite E. destruct (q ++ c :: removelast r) eqn:Eq; [destruct q; discriminate|]. rewrite <- Eq.
    unfold awalk. pose proof (walk_real f dp FUEL NLINK [] true HRd) as W.
    destruct (walk FUEL f NLINK [] (Nms dp) true); try contradiction; try reflexivity.
    simpl in W. subst p. eapply descend_ok_link; eauto. }
  unfold extract_entry, extract_entry_core, resolve_rel. rewrite ER, PO. reflexivity.
Qed.

(* audit F3: the hypothesis "files below the working directory share no inode with the outside"
   (inv_ino) is needed: a pre-populated hard link to an outside file (cp -al, ostree-style
   checkouts) is truncated in place by a plain named blob of the repaired store *)
Definition fs2 : fsys :=
  mkFS [ ([b "r"], NDir); ([b "r"; b "w"], NDir); ([b "victim"], NFile 0); ([b "r"; b "w"; b "old"], NFile 0) ]
       [ (0, 100%N) ] 1 [] [] [] [].

Lemma refuted_shared_inode :
  inside wd0 [b "victim"] = false /\
  snd (pushes cfg_fixed false wd0 cwd0 (mkStore fs2 [] []) [PBlob (b "old") 7%N]) = [true] /\
  view_at (st_fs (fst (pushes cfg_fixed false wd0 cwd0 (mkStore fs2 [] []) [PBlob (b "old") 7%N]))) [b "victim"]
  <> view_at fs2 [b "victim"].
Proof. split; [vm_compute; reflexivity|]. split; [vm_compute; reflexivity | vm_compute; discriminate]. Qed.

(* ---------- manifests ---------- *)

(* a layer whose title lexically resolves outside, and whose content the store holds, ends the push
   of the manifest with an error at that layer, nothing written for it *)
Lemma manifest_outside_layer_rejected g wd s t c c' r :
  t <> [] -> existsb (str_eqb t) (st_names s) = false -> fetch s c = FSome c' ->
  inside wd (lex_loc wd t) = false ->
  restore_layers g wd s ((t, c) :: r) = (s, false).
Proof.
  intros Hne Hex Hf Ho. cbn [restore_layers]. destruct t as [|t0 tt]; [contradiction|].
  rewrite Hex, Hf. unfold push_blob. rewrite Hex.
  destruct (write_path g wd (t0 :: tt)) as [raw|] eqn:EW; [|reflexivity].
  apply write_path_lex in EW as [E _]. congruence.
Qed.

Definition os_manifest : list pushop :=
  [PBlob [] 41%N; PBlob (b "n1") 51%N;
   PManifest [(b "second", 41%N); (b "m/third", 51%N); (b "absent", 43%N); (b "n1", 51%N)];
   PBlob (b "n1b") 52%N;
   PManifest [(b "../victim", 41%N)];
   PManifest [(b "x", 52%N); (b "/victim", 51%N); (b "never", 41%N)]].

Lemma manifest_ok :
  snd (run0 cfg_fixed os_manifest) = [true; true; true; true; false; false] /\
  view_at (fst (run0 cfg_fixed os_manifest)) [b "r"; b "w"; b "second"] = VFile (enc 41 420) 0%N /\
  view_at (fst (run0 cfg_fixed os_manifest)) [b "r"; b "w"; b "m"; b "third"] = VFile (enc 51 420) 0%N /\
  view_at (fst (run0 cfg_fixed os_manifest)) [b "r"; b "w"; b "absent"] = VNone /\
  view_at (fst (run0 cfg_fixed os_manifest)) [b "r"; b "w"; b "x"] = VFile (enc 52 420) 0%N /\
  view_at (fst (run0 cfg_fixed os_manifest)) [b "r"; b "w"; b "never"] = VNone /\
  view_at (fst (run0 cfg_fixed os_manifest)) [b "victim"] = view_at fs0 [b "victim"].
Proof. vm_compute. repeat split. Qed.

(* a layer restored from a named file whose content was replaced since: the copy fails verification,
   the partially written file is removed and the push of the manifest fails *)
Definition os_manifest_stale : list pushop :=
  [PBlob (b "n1") 51%N;
   PDir (b ".") [] [EHard (b "./h") (b "n1"); EReg (b "./h") 54%N 420%N];
   PManifest [(b "copy", 51%N); (b "later", 51%N)]].

Lemma manifest_stale :
  snd (run0 cfg_fixed os_manifest_stale) = [true; true; false] /\
  view_at (fst (run0 cfg_fixed os_manifest_stale)) [b "r"; b "w"; b "n1"] = VFile (enc 54 420) 0%N /\
  view_at (fst (run0 cfg_fixed os_manifest_stale)) [b "r"; b "w"; b "copy"] = VNone /\
  view_at (fst (run0 cfg_fixed os_manifest_stale)) [b "r"; b "w"; b "later"] = VNone.
Proof. vm_compute. repeat split. Qed.

(* ---------- the process's current directory is irrelevant for the repaired store ---------- *)

Lemma do_link_cwd f cwd1 cwd2 fp pn tgt :
  do_link cfg_fixed f cwd1 fp pn tgt = do_link cfg_fixed f cwd2 fp pn tgt.
Proof. reflexivity. Qed.

Lemma extract_entry_cwd pres cwd1 cwd2 dp dirName f e t :
  extract_entry cfg_fixed pres cwd1 dp dirName f e t = extract_entry cfg_fixed pres cwd2 dp dirName f e t.
Proof. reflexivity. Qed.

Lemma extract_cwd pres cwd1 cwd2 dp dirName trunc : forall es f ts dirs,
  extract cfg_fixed pres cwd1 dp dirName f es ts dirs trunc = extract cfg_fixed pres cwd2 dp dirName f es ts dirs trunc.
Proof.
  induction es as [|e es IH]; intros f ts dirs; [reflexivity|].
  cbn [extract]. rewrite (extract_entry_cwd pres cwd1 cwd2).
  destruct (extract_entry cfg_fixed pres cwd2 dp dirName f e (hd 0%N ts)); [apply IH | reflexivity].
Qed.

Lemma push_cwd pres wd cwd1 cwd2 s o :
  push cfg_fixed pres wd cwd1 s o = push cfg_fixed pres wd cwd2 s o.
Proof.
  assert (D : forall t ts es how, push_dir cfg_fixed pres wd cwd1 s t ts es how = push_dir cfg_fixed pres wd cwd2 s t ts es how).
  { intros t ts es how. unfold push_dir.
    destruct (existsb (str_eqb t) (st_names s)); [reflexivity|].
    destruct (write_path cfg_fixed wd t); [|reflexivity].
    unfold cached, remember. cbn [fixK cfg_fixed negb andb].
    destruct (ensure_write_dir cfg_fixed wd (st_fs s) (clean_abs l) l); [|reflexivity].
    destruct (how =? 1)%N; [reflexivity|]. now rewrite (extract_cwd pres cwd1 cwd2). }
  destruct o as [t c|t ts es|layers|how t ts es]; try reflexivity;
    (destruct t as [|t0 tt]; [reflexivity|]); unfold push; apply D.
Qed.

Lemma pushes_cwd pres wd cwd1 cwd2 : forall os s,
  pushes cfg_fixed pres wd cwd1 s os = pushes cfg_fixed pres wd cwd2 s os.
Proof.
  induction os as [|o os IH]; intros s; [reflexivity|].
  cbn [pushes]. rewrite (push_cwd pres wd cwd1 cwd2).
  destruct (push cfg_fixed pres wd cwd2 s o) as [s1 ok]. now rewrite IH.
Qed.

(* ---------- Lstat at a location whose parents are real directories is a look-up ---------- *)

(* (why the store's Lstat checks are modelled as look-ups at the lexical location) *)
Lemma lstat_is_lookup f p fuel nl :
  lexreal f [] p = true ->
  match walk fuel f nl [] (Nms p) false with
  | WFile q i => q = p /\ lookup f p = Some (NFile i)
  | WSym q d a cs => q = p /\ lookup f p = Some (NSym d a cs)
  | WNoEnt q => q = p /\ lookup f p = None
  | WDir q => q = p
  | _ => True
  end.
Proof.
  intro HL. pose proof (walk_lexical f p fuel nl [] HL) as Wl.
  pose proof (walk_lookup f fuel nl [] (Nms p) false) as Wk.
  destruct (walk fuel f nl [] (Nms p) false); simpl in *; try exact Logic.I; subst p0;
    try (destruct Wk as [L _]; split; [reflexivity | exact L]). reflexivity.
Qed.

(* failing archives: nothing unpacked / unpacked up to the break, modes not restored / everything
   unpacked but the push fails *)
Definition os_failing : list pushop :=
  [PDirF 1 (b "g") [] [EDir (b "g/d") 320%N];
   PDirF 2 (b "t") [] [EDir (b "t/d") 320%N; EReg (b "t/d/f") 7%N 420%N];
   PDirF 3 (b "u") [] [EDir (b "u/d") 320%N]].

Lemma failing_ok :
  snd (run0 cfg_fixed os_failing) = [false; false; false] /\
  view_at (fst (run0 cfg_fixed os_failing)) [b "r"; b "w"; b "g"] = VDir 493%N 0%N /\
  view_at (fst (run0 cfg_fixed os_failing)) [b "r"; b "w"; b "g"; b "d"] = VNone /\
  view_at (fst (run0 cfg_fixed os_failing)) [b "r"; b "w"; b "t"; b "d"] = VDir 448%N 0%N /\
  view_at (fst (run0 cfg_fixed os_failing)) [b "r"; b "w"; b "t"; b "d"; b "f"] = VFile (enc 7 420) 0%N /\
  view_at (fst (run0 cfg_fixed os_failing)) [b "r"; b "w"; b "u"; b "d"] = VDir 320%N 0%N.
Proof. vm_compute. repeat split. Qed.

(* ---------- a working directory that does not exist yet (the first push creates it) ---------- *)

Record Inv0 (wd : path) (f : fsys) : Prop := mkInv0 {
  inv0_ne : wd <> [];
  inv0_anc : RealD f [] (removelast wd);
  inv0_none : forall p, inside wd p = true -> lookup f p = None;
  inv0_fresh : forall p i, lookup f p = Some (NFile i) -> i < nexti f;
  inv0_taint : forall i, In i (taint f) -> i < nexti f
}.

Definition PreInv (wd : path) (f : fsys) : Prop := Inv wd f \/ Inv0 wd f.
Definition Keeps0 (wd : path) (f f' : fsys) : Prop := PreInv wd f' /\ same_outside wd f f'.

Lemma Keeps0_refl wd f : PreInv wd f -> Keeps0 wd f f.
Proof. intro H. split; [exact H | apply same_outside_refl]. Qed.

Lemma Keeps_Keeps0 wd f f' : Keeps wd f f' -> Keeps0 wd f f'.
Proof. intros [I S]. split; [now left | exact S]. Qed.

Lemma Keeps0_trans wd f g h : Keeps0 wd f g -> Keeps0 wd g h -> Keeps0 wd f h.
Proof. intros [_ A] [I B]. split; [exact I | eapply same_outside_trans; eauto]. Qed.

Lemma wd_snoc (wd : path) : wd <> [] -> wd = removelast wd ++ [last wd []].
Proof. intro H. now apply app_removelast_last. Qed.

(* creating the working directory *)
Lemma create_wd wd f m : Inv0 wd f -> Keeps wd f (new_dir wd m f).
Proof.
  intros I0. unfold new_dir. split.
  - constructor.
    + intros q r E Hq. rewrite lookup_setdmode, lookup_set. destruct (path_eqb wd q) eqn:Eq; [reflexivity|].
      destruct r as [|x r'] using rev_ind.
      * rewrite app_nil_r in E. subst q. rewrite path_eqb_refl in Eq. discriminate.
      * apply (inv0_anc _ _ I0 q r'); [|exact Hq]. rewrite app_assoc in E.
        rewrite (wd_snoc wd (inv0_ne _ _ I0)) in E at 1. apply app_inj_tail in E as [E _]. exact E.
    + intros p q i. rewrite !lookup_setdmode, !lookup_set.
      destruct (path_eqb wd p); [discriminate|]. intros Lp _ Hp. rewrite (inv0_none _ _ I0 p Hp) in Lp. discriminate.
    + intros p i. rewrite lookup_setdmode, lookup_set. destruct (path_eqb wd p); [discriminate|].
      apply (inv0_fresh _ _ I0).
    + exact (inv0_taint _ _ I0).
  - split; [reflexivity|]. intros q Hq.
    assert (Hne : path_eqb wd q = false) by (apply (outside_neq wd wd q (inside_refl wd) Hq)).
    repeat split; try reflexivity.
    + rewrite lookup_setdmode, lookup_set, Hne. reflexivity.
    + unfold dir_mode, set_dmode, set_ent; simpl. rewrite Hne. reflexivity.
Qed.

(* os.MkdirAll over existing directories, then one missing last element *)
Lemma mkdir_prefixes_skip f mo : forall t1 d t2,
  RealD f [] (d ++ t1) ->
  mkdir_prefixes f (Nms d) (Nms (t1 ++ t2)) mo = mkdir_prefixes f (Nms (d ++ t1)) (Nms t2) mo \/
  mkdir_prefixes f (Nms d) (Nms (t1 ++ t2)) mo = None.
Proof.
  induction t1 as [|c t1 IH]; intros d t2 HR.
  - left. now rewrite app_nil_r.
  - cbn [app Nms map mkdir_prefixes]. fold (Nms (t1 ++ t2)). rewrite Nms_snoc.
    assert (HR1 : RealD f [] (d ++ [c])).
    { apply (RealD_prefix f (d ++ [c]) t1). now rewrite <- app_assoc. }
    pose proof (walk_real f (d ++ [c]) FUEL NLINK [] true HR1) as W1.
    pose proof (walk_real f (d ++ [c]) FUEL NLINK [] false HR1) as W2.
    destruct (walk FUEL f NLINK [] (Nms (d ++ [c])) true); try contradiction.
    + specialize (IH (d ++ [c]) t2). rewrite <- !app_assoc in IH. simpl in IH. apply IH. exact HR.
    + right. destruct (walk FUEL f NLINK [] (Nms (d ++ [c])) false); try contradiction; reflexivity.
Qed.

Lemma walk_at_none f : forall ns fuel nl cur follow,
  lexreal f cur ns = true -> ns <> [] -> lookup f (cur ++ ns) = None ->
  match walk fuel f nl cur (Nms ns) follow with
  | WNoEnt p => p = cur ++ ns
  | WErrNoEnt => True
  | WErr => True
  | _ => False
  end.
Proof.
  induction ns as [|c r IH]; intros fuel nl cur follow HL Hne Ln; [contradiction|].
  destruct fuel as [|fuel]; [exact Logic.I|]. simpl. simpl in HL.
  destruct r as [|c2 r'].
  - rewrite Ln. reflexivity.
  - destruct (lookup f (cur ++ [c])) as [[|i|d a cs]|] eqn:L; try exact Logic.I; try discriminate.
    specialize (IH fuel nl (cur ++ [c]) follow HL). rewrite <- app_assoc in IH.
    apply IH; [discriminate | exact Ln].
Qed.

Lemma mkdir_all_creates_wd wd f mo f0 :
  Inv0 wd f -> mkdir_all f (Nms wd) mo = Some f0 -> f0 = new_dir wd mo f.
Proof.
  intros I0 H. unfold mkdir_all in H.
  pose proof (inv0_ne _ _ I0) as Hne.
  rewrite (wd_snoc wd Hne) in H.
  destruct (mkdir_prefixes_skip f mo (removelast wd) [] [last wd []]) as [E|E].
  - simpl. exact (inv0_anc _ _ I0).
  - simpl app in E. change (Nms []) with (@nil comp) in E. rewrite E in H.
    cbn [Nms map mkdir_prefixes] in H. fold (Nms (removelast wd)) in H.
    rewrite Nms_snoc, <- (wd_snoc wd Hne) in H.
    assert (HL : lexreal f [] wd = true) by (apply lexreal_of_parent; exact (inv0_anc _ _ I0)).
    assert (Ln : lookup f wd = None) by (apply (inv0_none _ _ I0); apply inside_refl).
    pose proof (walk_at_none f wd FUEL NLINK [] true HL Hne Ln) as W1.
    pose proof (walk_at_none f wd FUEL NLINK [] false HL Hne Ln) as W2.
    assert (Hsecond : match walk FUEL f NLINK [] (Nms wd) false with
                      | WNoEnt p => mkdir_prefixes (new_dir p mo f) (Nms wd) [] mo | _ => None end = Some f0 ->
                      f0 = new_dir wd mo f).
    { destruct (walk FUEL f NLINK [] (Nms wd) false) as [| | |q| |]; try contradiction; try discriminate.
      simpl in W2. subst q. simpl. now intros [= <-]. }
    destruct (walk FUEL f NLINK [] (Nms wd) true); try contradiction; apply Hsecond; exact H.
  - simpl app in E. change (Nms []) with (@nil comp) in E. rewrite E in H. discriminate.
Qed.

Lemma ensure_write_dir_below0 wd f rel rawdir f1 :
  PreInv wd f -> ensure_write_dir cfg_fixed wd f (wd ++ rel) rawdir = Some f1 ->
  Keeps wd f f1 /\ RealD f1 [] (wd ++ rel).
Proof.
  intros [I|I0] H; [now apply (ensure_write_dir_below wd f rel rawdir f1 I)|].
  unfold ensure_write_dir in H. cbn [fixN cfg_fixed] in H.
  assert (SP : strip_prefix wd (wd ++ rel) = Some rel) by now apply strip_prefix_spec.
  rewrite SP in H.
  destruct (mkdir_all f (Nms wd) c11_write_dir_perm) as [f0|] eqn:M0; [|discriminate].
  apply (mkdir_all_creates_wd wd f _ f0 I0) in M0. subst f0.
  pose proof (create_wd wd f c11_write_dir_perm I0) as K0.
  destruct (mkdir_real_lex wd _ rel wd _ f1 (proj1 K0) (inside_refl wd) (RealD_inv _ _ (proj1 K0)) H) as (K1 & R1 & _).
  split; [eapply Keeps_trans; eauto | exact R1].
Qed.

(* no title denotes the (missing) working directory itself *)
Definition title_ok (wd : path) (t : str) : Prop := t = [] \/ lex_loc wd t <> wd.

Definition op_ok (wd : path) (o : pushop) : Prop :=
  match o with
  | PBlob t _ => title_ok wd t
  | PDir t _ _ => title_ok wd t
  | PDirF _ t _ _ => title_ok wd t
  | PManifest ls => Forall (fun l => title_ok wd (fst l)) ls
  end.

Lemma push_blob_keeps0 wd s title w good s' ok :
  PreInv wd (st_fs s) -> lex_loc wd title <> wd ->
  push_blob cfg_fixed wd s title w good = (s', ok) ->
  Keeps0 wd (st_fs s) (st_fs s').
Proof.
  intros I Hcw H. unfold push_blob in H.
  destruct (existsb (str_eqb title) (st_names s)).
  { injection H as <- _. now apply Keeps0_refl. }
  destruct (write_path cfg_fixed wd title) as [raw|] eqn:EW.
  2:{ injection H as <- _. now apply Keeps0_refl. }
  pose proof (write_path_lex _ _ _ _ EW) as [_ Ecl].
  destruct (write_path_fixed _ _ _ EW) as (cl & -> & Hcl).
  rewrite clean_abs_names in Ecl. rewrite <- Ecl in Hcw. clear Ecl.
  unfold cached, remember in H. cbn [fixW fixK cfg_fixed negb andb] in H.
  rewrite removelast_Nms, !clean_abs_names in H.
  destruct (strip_prefix wd (removelast cl)) as [rel|] eqn:SP.
  2:{ destruct (parent_outside wd cl Hcl SP) as [E _]. contradiction. }
  apply strip_prefix_spec in SP. rewrite SP in H.
  destruct (ensure_write_dir cfg_fixed wd (st_fs s) (wd ++ rel) (Nms (wd ++ rel))) as [f1|] eqn:M.
  2:{ injection H as <- _. now apply Keeps0_refl. }
  destruct (ensure_write_dir_below0 wd _ rel _ f1 I M) as (K1 & R1).
  rewrite <- SP in R1.
  pose proof (lexreal_of_parent _ _ R1) as HL1.
  rewrite (path_eqb_neq cl wd Hcw) in H. cbn [negb andb] in H.
  destruct (unlink_if_symlink f1 cl) as [f1'|] eqn:U.
  2:{ injection H as <- _. now apply Keeps_Keeps0. }
  destruct (unlink_if_lex wd cl f1 f1' (proj1 K1) Hcl HL1 U) as (K2 & O2 & N2).
  assert (K12 : Keeps wd (st_fs s) f1') by (eapply Keeps_trans; eauto).
  assert (HL2 : lexreal f1' [] cl = true) by (rewrite (lexreal_only_at _ _ _ O2); exact HL1).
  destruct (write_at f1' (Nms cl) w 438) as [f2|] eqn:Wr.
  - destruct (write_at_lex wd cl w 438 f1' f2 (proj1 K2) Hcl HL2 N2 Wr) as (K3 & O3 & (i3 & L3)).
    assert (K13 : Keeps wd (st_fs s) f2) by (eapply Keeps_trans; eauto).
    destruct good; [injection H as <- _; now apply Keeps_Keeps0|].
    destruct (remove_at f2 cl) as [f3|] eqn:Rm; injection H as <- _; [|now apply Keeps_Keeps0]. simpl.
    assert (Hne : cl <> []).
    { intros ->. rewrite (write_at_real f1' [] w 438) in Wr; [discriminate|].
      intros q r E Hq. destruct q; [contradiction | discriminate]. }
    assert (Hs : sinside wd cl) by (eapply inside_sinside; [exact (proj1 K3) | exact Hcl | exact Hne | rewrite L3; discriminate]).
    assert (HL3 : lexreal f2 [] cl = true) by (rewrite (lexreal_only_at _ _ _ O3); exact HL2).
    destruct (remove_at_lex wd cl f2 f3 (proj1 K3) Hs HL3 Rm) as (_ & K4 & _).
    apply Keeps_Keeps0. eapply Keeps_trans; eauto.
  - injection H as <- _. now apply Keeps_Keeps0.
Qed.

Lemma push_dir_keeps0 wd pres cwd s title ts es how s' ok :
  PreInv wd (st_fs s) ->
  push_dir cfg_fixed pres wd cwd s title ts es how = (s', ok) ->
  Keeps0 wd (st_fs s) (st_fs s').
Proof.
  intros I H. unfold push_dir in H.
  destruct (existsb (str_eqb title) (st_names s)).
  { injection H as <- _. now apply Keeps0_refl. }
  destruct (write_path cfg_fixed wd title) as [raw|] eqn:EW.
  2:{ injection H as <- _. now apply Keeps0_refl. }
  destruct (write_path_fixed _ _ _ EW) as (cl & -> & Hcl).
  unfold cached, remember in H. cbn [fixK cfg_fixed negb andb] in H.
  rewrite clean_abs_names in H.
  destruct (strip_prefix wd cl) as [rel|] eqn:SP.
  2:{ unfold inside in Hcl. rewrite SP in Hcl. discriminate. }
  apply strip_prefix_spec in SP. subst cl.
  destruct (ensure_write_dir cfg_fixed wd (st_fs s) (wd ++ rel) (Nms (wd ++ rel))) as [f1|] eqn:M.
  2:{ injection H as <- _. now apply Keeps0_refl. }
  destruct (ensure_write_dir_below0 wd _ rel _ f1 I M) as (K1 & R1).
  destruct (how =? 1)%N; [injection H as <- _; now apply Keeps_Keeps0|].
  destruct (extract cfg_fixed pres cwd (wd ++ rel) title f1 es ts [] (how =? 2)%N) as [f2 ok2] eqn:EX.
  injection H as <- _. simpl. apply Keeps_Keeps0.
  eapply Keeps_trans; [exact K1|].
  apply (extract_keeps wd pres cwd (wd ++ rel) title _ es f1 f2 ok2 ts [] (proj1 K1) Hcl R1 (Forall_nil _) (Forall_nil _) EX).
Qed.

Lemma restore_layers_keeps0 wd : forall layers s s' ok,
  PreInv wd (st_fs s) -> Forall (fun l => title_ok wd (fst l)) layers ->
  restore_layers cfg_fixed wd s layers = (s', ok) ->
  Keeps0 wd (st_fs s) (st_fs s').
Proof.
  induction layers as [|[t c] r IH]; intros s s' ok I Hok H.
  - injection H as <- _. now apply Keeps0_refl.
  - cbn [restore_layers] in H. inversion Hok as [|? ? Ht Hr]; subst. simpl in Ht.
    destruct t as [|t0 tt]; [now apply (IH s s' ok)|].
    destruct (existsb (str_eqb (t0 :: tt)) (st_names s)); [now apply (IH s s' ok)|].
    destruct (fetch s c) as [| |c']; [now apply (IH s s' ok) | injection H as <- _; now apply Keeps0_refl |].
    destruct (push_blob cfg_fixed wd s (t0 :: tt) c' ((c' =? c)%N && negb (c =? 0)%N)) as [s1 ok1] eqn:P.
    assert (Hcw : lex_loc wd (t0 :: tt) <> wd) by (destruct Ht as [E|E]; [discriminate | exact E]).
    pose proof (push_blob_keeps0 _ _ _ _ _ _ _ I Hcw P) as K1.
    destruct ok1.
    + eapply Keeps0_trans; [exact K1|]. apply (IH s1 s' ok (proj1 K1) Hr H).
    + injection H as <- _. exact K1.
Qed.

Lemma push_keeps0 wd pres cwd s o s' ok :
  PreInv wd (st_fs s) -> op_ok wd o ->
  push cfg_fixed pres wd cwd s o = (s', ok) ->
  Keeps0 wd (st_fs s) (st_fs s').
Proof.
  intros I Hok H. unfold push in H. destruct o as [t c|t ts es|layers|how t ts es]; simpl in Hok.
  - destruct t as [|t0 tt].
    + destruct ((c =? 0)%N || existsb (str_eqb [0%N; c]) (st_names s)); injection H as <- _; now apply Keeps0_refl.
    + destruct Hok as [E|E]; [discriminate|]. eapply push_blob_keeps0; eauto.
  - destruct t as [|t0 tt].
    + injection H as <- _. now apply Keeps0_refl.
    + eapply push_dir_keeps0; eauto.
  - destruct (existsb (str_eqb (manifest_marker layers)) (st_names s)).
    + injection H as <- _. now apply Keeps0_refl.
    + apply (restore_layers_keeps0 wd layers (mkStore (st_fs s) (manifest_marker layers :: st_names s) (st_d2p s)) s' ok I Hok H).
  - destruct t as [|t0 tt].
    + injection H as <- _. now apply Keeps0_refl.
    + eapply push_dir_keeps0; eauto.
Qed.

Lemma pushes_keeps0 wd pres cwd : forall os s s' oks,
  PreInv wd (st_fs s) -> Forall (op_ok wd) os ->
  pushes cfg_fixed pres wd cwd s os = (s', oks) ->
  Keeps0 wd (st_fs s) (st_fs s').
Proof.
  induction os as [|o os IH]; intros s s' oks I Hok H.
  - injection H as <- _. now apply Keeps0_refl.
  - cbn [pushes] in H. inversion Hok as [|? ? Ho Hos]; subst.
    destruct (push cfg_fixed pres wd cwd s o) as [s1 ok] eqn:P.
    destruct (pushes cfg_fixed pres wd cwd s1 os) as [s2 oks2] eqn:Ps.
    injection H as <- _.
    pose proof (push_keeps0 _ _ _ _ _ _ _ I Ho P) as K1.
    eapply Keeps0_trans; [exact K1|]. eapply IH; eauto. exact (proj1 K1).
Qed.

(* the hypothesis is satisfiable: a tree in which the working directory does not exist yet *)
Definition fs3 : fsys :=
  mkFS [ ([b "r"], NDir); ([b "victim"], NFile 0) ] [ (0, 100%N) ] 1 [] [] [] [].

Lemma inv0_fs3 : Inv0 wd0 fs3.
Proof.
  constructor.
  - discriminate.
  - intros q r E Hq. destruct q as [|q1 [|q2 q']]; [contradiction | |].
    + injection E as <- _. reflexivity.
    + apply (f_equal (@length _)) in E. simpl in E. rewrite app_length in E. simpl in E. lia.
  - intros p Hp. apply inside_spec in Hp as [r ->]. reflexivity.
  - intros p i H. change (nexti fs3) with 1. unfold lookup, fs3 in H. cbn [ents lookup_ents] in H.
    repeat match type of H with
           | (if ?c then _ else _) = _ =>
             destruct c; [first [discriminate H | (injection H as H; subst i; lia)] |]
           end. discriminate.
  - intros i [].
Qed.

Definition os_first_push : list pushop :=
  [PBlob (b "../victim") 5%N; PDir (b "t") [] [EDir (b "t/a") 493%N; EReg (b "t/a/f") 7%N 420%N]; PBlob (b "x") 8%N].

Lemma first_push_ok :
  snd (pushes cfg_fixed false wd0 cwd0 (mkStore fs3 [] []) os_first_push) = [false; true; true] /\
  lookup (st_fs (fst (pushes cfg_fixed false wd0 cwd0 (mkStore fs3 [] []) os_first_push))) wd0 = Some NDir /\
  view_at (st_fs (fst (pushes cfg_fixed false wd0 cwd0 (mkStore fs3 [] []) os_first_push))) [b "victim"] = view_at fs3 [b "victim"].
Proof. vm_compute. repeat split. Qed.

(* the seeded change C11-r3m2 as a model variant (fixK = false): remembering that a directory was
   already checked is unsound, because a later archive can replace the (empty) directory by a link;
   every write has to walk its path again in the current tree *)
Definition os_cached_dir : list pushop :=
  [PDir (b "a/e") [] [EDir (b "a/e") 493%N];
   PDir (b "a") [] [ESym (b "a/p") (b "."); ESym (b "a/q") (b "p/.."); ESym (b "a/e") (b "q/..")];
   PBlob (b "a/e/victim") 22%N].

Lemma refuted_cached_dir : escapes (mkCfg true true true true true true false).
Proof. escape_with os_cached_dir [b "r"; b "victim"]. Qed.

Lemma cached_dir_fixed :
  snd (run0 cfg_fixed os_cached_dir) = [true; true; false] /\
  view_at (fst (run0 cfg_fixed os_cached_dir)) [b "r"; b "victim"] = view_at fs0 [b "r"; b "victim"] /\
  view_at (fst (run0 cfg_fixed os_cached_dir)) [b "r"; b "w"; b "a"; b "e"] = VSym (b "q/..").
Proof. vm_compute. repeat split. Qed.

(* ---------- a regular file where the working directory should be ---------- *)
(* (a named blob whose title denotes the not yet existing working directory creates it) *)

Lemma walk_at_file f i : forall ns fuel nl cur follow,
  lexreal f cur ns = true -> ns <> [] -> lookup f (cur ++ ns) = Some (NFile i) ->
  match walk fuel f nl cur (Nms ns) follow with
  | WFile p j => p = cur ++ ns /\ j = i
  | WErrNoEnt => True
  | WErr => True
  | _ => False
  end.
Proof.
  induction ns as [|c r IH]; intros fuel nl cur follow HL Hne Lf; [contradiction|].
  destruct fuel as [|fuel]; [exact Logic.I|]. simpl. simpl in HL.
  destruct r as [|c2 r'].
  - rewrite Lf. split; reflexivity.
  - destruct (lookup f (cur ++ [c])) as [[|i0|d a cs]|] eqn:L; try exact Logic.I; try discriminate.
    specialize (IH fuel nl (cur ++ [c]) follow HL). rewrite <- app_assoc in IH.
    apply IH; [discriminate | exact Lf].
Qed.

Record InvF (wd : path) (f : fsys) : Prop := mkInvF {
  invF_ne : wd <> [];
  invF_anc : RealD f [] (removelast wd);
  invF_file : exists i, lookup f wd = Some (NFile i) /\ forall q, lookup f q = Some (NFile i) -> q = wd;
  invF_none : forall p, sinside wd p -> lookup f p = None;
  invF_fresh : forall p i, lookup f p = Some (NFile i) -> i < nexti f;
  invF_taint : forall i, In i (taint f) -> i < nexti f
}.

Definition PreInv3 (wd : path) (f : fsys) : Prop := Inv wd f \/ Inv0 wd f \/ InvF wd f.
Definition Keeps3 (wd : path) (f f' : fsys) : Prop := PreInv3 wd f' /\ same_outside wd f f'.

Lemma Keeps3_refl wd f : PreInv3 wd f -> Keeps3 wd f f.
Proof. intro H. split; [exact H | apply same_outside_refl]. Qed.

Lemma Keeps0_Keeps3 wd f f' : Keeps0 wd f f' -> Keeps3 wd f f'.
Proof. intros [[I|I] S]; (split; [|exact S]); [left | right; left]; exact I. Qed.

Lemma Keeps3_trans wd f g h : Keeps3 wd f g -> Keeps3 wd g h -> Keeps3 wd f h.
Proof. intros [_ A] [I B]. split; [exact I | eapply same_outside_trans; eauto]. Qed.

Lemma wd_lexreal wd f : RealD f [] (removelast wd) -> lexreal f [] wd = true.
Proof. apply lexreal_of_parent. Qed.

(* with a file at the working directory's place nothing below it can be created *)
Lemma ensure_write_dir_file wd f rel rawdir :
  InvF wd f -> ensure_write_dir cfg_fixed wd f (wd ++ rel) rawdir = None.
Proof.
  intros IF. unfold ensure_write_dir. cbn [fixN cfg_fixed].
  assert (SP : strip_prefix wd (wd ++ rel) = Some rel) by now apply strip_prefix_spec.
  rewrite SP. pose proof (invF_ne _ _ IF) as Hne.
  destruct (invF_file _ _ IF) as (i & Li & _).
  assert (M : mkdir_all f (Nms wd) c11_write_dir_perm = None).
  { unfold mkdir_all. rewrite (wd_snoc wd Hne).
    destruct (mkdir_prefixes_skip f c11_write_dir_perm (removelast wd) [] [last wd []]) as [E|E].
    - simpl. exact (invF_anc _ _ IF).
    - simpl app in E. change (Nms []) with (@nil comp) in E. rewrite E.
      cbn [Nms map mkdir_prefixes]. fold (Nms (removelast wd)). rewrite Nms_snoc, <- (wd_snoc wd Hne).
      pose proof (wd_lexreal wd f (invF_anc _ _ IF)) as HL.
      pose proof (walk_at_file f i wd FUEL NLINK [] true HL Hne Li) as W1.
      pose proof (walk_at_file f i wd FUEL NLINK [] false HL Hne Li) as W2.
      destruct (walk FUEL f NLINK [] (Nms wd) true); try contradiction; try reflexivity;
        (destruct (walk FUEL f NLINK [] (Nms wd) false); try contradiction; reflexivity).
    - simpl app in E. change (Nms []) with (@nil comp) in E. exact E. }
  rewrite M. reflexivity.
Qed.

Lemma outside_not_wd (wd q : path) : inside wd q = false -> q <> wd.
Proof. intros H ->. rewrite inside_refl in H. discriminate. Qed.

Lemma prefix_not_wd (wd q r : path) : wd <> [] -> removelast wd = q ++ r -> q <> wd.
Proof.
  intros Hne E ->. apply (f_equal (@length _)) in E. rewrite app_length in E.
  assert (L : length (removelast wd) < length wd).
  { rewrite (wd_snoc wd Hne) at 2. rewrite app_length. simpl. lia. }
  lia.
Qed.

(* os.Create at the working directory's own path when it is missing or a regular file *)
Lemma write_wd_keeps3 wd f w f2 :
  Inv0 wd f \/ InvF wd f -> write_at f (Nms wd) w 438 = Some f2 ->
  InvF wd f2 /\ same_outside wd f f2.
Proof.
  intros [I0|IF] H; unfold write_at in H.
  - pose proof (inv0_ne _ _ I0) as Hne.
    assert (HL : lexreal f [] wd = true) by (apply wd_lexreal; exact (inv0_anc _ _ I0)).
    assert (Ln : lookup f wd = None) by (apply (inv0_none _ _ I0); apply inside_refl).
    assert (Hns : nosym f wd) by (apply nosym_of_lookup; [exact HL | intros; rewrite Ln; discriminate]).
    rewrite (walk_follow_agrees f FUEL NLINK [] (Nms wd) Hns) in H.
    pose proof (walk_at_none f wd FUEL NLINK [] false HL Hne Ln) as W.
    destruct (walk FUEL f NLINK [] (Nms wd) false); try contradiction; try discriminate.
    simpl in W. subst p. injection H as <-. split.
    + constructor.
      * exact Hne.
      * intros q r E Hq. simpl. rewrite lookup_newfile, (path_eqb_neq wd q); [apply (inv0_anc _ _ I0 q r E Hq)|].
        intro E'. apply (prefix_not_wd wd q r Hne E). now symmetry.
      * exists (nexti f). split; [rewrite lookup_newfile, path_eqb_refl; reflexivity|].
        intros q. rewrite lookup_newfile. destruct (path_eqb wd q) eqn:Eq; [apply path_eqb_spec in Eq; now intros _|].
        intro L. apply (inv0_fresh _ _ I0) in L. lia.
      * intros p Hp. rewrite lookup_newfile, (path_eqb_neq wd p).
        -- apply (inv0_none _ _ I0). now apply sinside_inside.
        -- intros ->. destruct Hp as (x & r & E). apply (f_equal (@length _)) in E. rewrite app_length in E. simpl in E. lia.
      * intros p i. rewrite lookup_newfile. unfold new_file at 1; simpl. destruct (path_eqb wd p).
        -- intros [= <-]. lia.
        -- intro L. apply (inv0_fresh _ _ I0) in L. lia.
      * intros i Hi. unfold new_file; simpl. apply (inv0_taint _ _ I0) in Hi. lia.
    + apply (frame_ents wd f _ wd (inside_refl wd)); try reflexivity.
      * intros q Hq. rewrite lookup_newfile, path_eqb_neq; [reflexivity | congruence].
      * intros q j Lq. split; [|reflexivity].
        unfold content, new_file; simpl. destruct (Nat.eqb (nexti f) j) eqn:E2; [|reflexivity].
        apply Nat.eqb_eq in E2. apply (inv0_fresh _ _ I0) in Lq. lia.
  - pose proof (invF_ne _ _ IF) as Hne.
    destruct (invF_file _ _ IF) as (i & Li & Ui).
    assert (HL : lexreal f [] wd = true) by (apply wd_lexreal; exact (invF_anc _ _ IF)).
    assert (Hns : nosym f wd) by (apply nosym_of_lookup; [exact HL | intros; rewrite Li; discriminate]).
    rewrite (walk_follow_agrees f FUEL NLINK [] (Nms wd) Hns) in H.
    pose proof (walk_at_file f i wd FUEL NLINK [] false HL Hne Li) as W.
    destruct (walk FUEL f NLINK [] (Nms wd) false); try contradiction; try discriminate.
    destruct W as [-> ->]. injection H as <-. split.
    + constructor.
      * exact Hne.
      * exact (invF_anc _ _ IF).
      * exists i. split; [exact Li | exact Ui].
      * exact (invF_none _ _ IF).
      * exact (invF_fresh _ _ IF).
      * exact (invF_taint _ _ IF).
    + split; [reflexivity|]. intros q Hq. repeat split; try reflexivity.
      apply content_setcont_other. intros ->. apply Ui in H. subst q.
      rewrite inside_refl in Hq. discriminate.
Qed.

(* the failed verification removes the file again: the working directory is missing again *)
Lemma remove_wd_keeps3 wd f f3 :
  InvF wd f -> remove_at f wd = Some f3 -> Inv0 wd f3 /\ same_outside wd f f3.
Proof.
  intros IF H. unfold remove_at, awalk in H.
  pose proof (invF_ne _ _ IF) as Hne.
  destruct (invF_file _ _ IF) as (i & Li & Ui).
  assert (HL : lexreal f [] wd = true) by (apply wd_lexreal; exact (invF_anc _ _ IF)).
  pose proof (walk_at_file f i wd FUEL NLINK [] false HL Hne Li) as W.
  destruct (walk FUEL f NLINK [] (Nms wd) false); try contradiction; try discriminate.
  destruct W as [-> ->]. injection H as <-. split.
  - constructor.
    + exact Hne.
    + intros q r E Hq. simpl. rewrite lookup_delent, (path_eqb_neq wd q); [apply (invF_anc _ _ IF q r E Hq)|].
      intro E'. apply (prefix_not_wd wd q r Hne E). now symmetry.
    + intros p Hp. rewrite lookup_delent. destruct (path_eqb wd p) eqn:Eq; [reflexivity|].
      apply (invF_none _ _ IF). apply inside_spec in Hp as [r ->]. destruct r as [|x r'].
      * rewrite app_nil_r, path_eqb_refl in Eq. discriminate.
      * exists x, r'. reflexivity.
    + intros p j. rewrite lookup_delent. destruct (path_eqb wd p); [discriminate|]. apply (invF_fresh _ _ IF).
    + exact (invF_taint _ _ IF).
  - apply (frame_ents wd f _ wd (inside_refl wd)); try reflexivity; [|intros; split; reflexivity].
    intros q Hq. rewrite lookup_delent, path_eqb_neq; [reflexivity | congruence].
Qed.

Lemma push_blob_at_wd wd s title w good s' ok :
  Inv0 wd (st_fs s) \/ InvF wd (st_fs s) -> lex_loc wd title = wd ->
  push_blob cfg_fixed wd s title w good = (s', ok) ->
  Keeps3 wd (st_fs s) (st_fs s').
Proof.
  intros I Hcw H.
  assert (P3 : PreInv3 wd (st_fs s)) by (destruct I; [right; left | right; right]; assumption).
  assert (Hne : wd <> []) by (destruct I as [I|I]; [exact (inv0_ne _ _ I) | exact (invF_ne _ _ I)]).
  assert (HA : RealD (st_fs s) [] (removelast wd)) by (destruct I as [I|I]; [exact (inv0_anc _ _ I) | exact (invF_anc _ _ I)]).
  unfold push_blob in H.
  destruct (existsb (str_eqb title) (st_names s)).
  { injection H as <- _. now apply Keeps3_refl. }
  destruct (write_path cfg_fixed wd title) as [raw|] eqn:EW.
  2:{ injection H as <- _. now apply Keeps3_refl. }
  pose proof (write_path_lex _ _ _ _ EW) as [_ Ecl].
  destruct (write_path_fixed _ _ _ EW) as (cl & -> & Hcl).
  rewrite clean_abs_names in Ecl. rewrite Hcw in Ecl. subst cl.
  unfold cached, remember in H. cbn [fixW fixK cfg_fixed negb andb] in H.
  rewrite removelast_Nms, !clean_abs_names in H.
  unfold ensure_write_dir in H. cbn [fixN cfg_fixed] in H.
  destruct (strip_prefix wd (removelast wd)) as [rel|] eqn:SP.
  { exfalso. apply strip_prefix_spec in SP. apply (prefix_not_wd wd wd rel Hne SP). reflexivity. }
  destruct (mkdir_all (st_fs s) (Nms (removelast wd)) c11_ensure_dir_perm) as [f1|] eqn:M.
  2:{ injection H as <- _. now apply Keeps3_refl. }
  unfold mkdir_all in M. apply (mkdir_prefixes_noop (st_fs s) _ (removelast wd) [] f1 HA) in M. subst f1.
  rewrite path_eqb_refl in H. cbn [negb andb] in H.
  destruct (write_at (st_fs s) (Nms wd) w 438) as [f2|] eqn:Wr.
  2:{ injection H as <- _. now apply Keeps3_refl. }
  destruct (write_wd_keeps3 wd _ w f2 I Wr) as [IF2 S2].
  destruct good.
  { injection H as <- _. split; [right; right; exact IF2 | exact S2]. }
  destruct (remove_at f2 wd) as [f3|] eqn:Rm; injection H as <- _; simpl.
  - destruct (remove_wd_keeps3 wd f2 f3 IF2 Rm) as [I03 S3].
    split; [right; left; exact I03 | eapply same_outside_trans; eauto].
  - split; [right; right; exact IF2 | exact S2].
Qed.

Lemma push_blob_keeps3 wd s title w good s' ok :
  PreInv3 wd (st_fs s) ->
  push_blob cfg_fixed wd s title w good = (s', ok) ->
  Keeps3 wd (st_fs s) (st_fs s').
Proof.
  intros P3 H. destruct (path_eqb (lex_loc wd title) wd) eqn:E.
  - apply path_eqb_spec in E. destruct P3 as [I|[I0|IF]].
    + apply Keeps0_Keeps3, Keeps_Keeps0. eapply push_blob_keeps; eauto.
    + eapply push_blob_at_wd; eauto.
    + eapply push_blob_at_wd; eauto.
  - assert (Hcw : lex_loc wd title <> wd) by (intro E'; rewrite E', path_eqb_refl in E; discriminate).
    destruct P3 as [I|[I0|IF]].
    + apply Keeps0_Keeps3. eapply push_blob_keeps0; eauto. now left.
    + apply Keeps0_Keeps3. eapply push_blob_keeps0; eauto. now right.
    + (* a file at the working directory's place: nothing below it can be written *)
      assert (P3 : PreInv3 wd (st_fs s)) by (right; right; exact IF).
      unfold push_blob in H.
      destruct (existsb (str_eqb title) (st_names s)).
      { injection H as <- _. now apply Keeps3_refl. }
      destruct (write_path cfg_fixed wd title) as [raw|] eqn:EW.
      2:{ injection H as <- _. now apply Keeps3_refl. }
      pose proof (write_path_lex _ _ _ _ EW) as [_ Ecl].
      destruct (write_path_fixed _ _ _ EW) as (cl & -> & Hcl).
      rewrite clean_abs_names in Ecl. rewrite <- Ecl in Hcw.
      unfold cached, remember in H. cbn [fixW fixK cfg_fixed negb andb] in H.
      rewrite removelast_Nms, !clean_abs_names in H.
      destruct (strip_prefix wd (removelast cl)) as [rel|] eqn:SP.
      2:{ destruct (parent_outside wd cl Hcl SP) as [E' _]. contradiction. }
      apply strip_prefix_spec in SP. rewrite SP in H.
      rewrite (ensure_write_dir_file wd (st_fs s) rel _ IF) in H.
      injection H as <- _. now apply Keeps3_refl.
Qed.

Lemma push_dir_keeps3 wd pres cwd s title ts es how s' ok :
  PreInv3 wd (st_fs s) ->
  push_dir cfg_fixed pres wd cwd s title ts es how = (s', ok) ->
  Keeps3 wd (st_fs s) (st_fs s').
Proof.
  intros [I|[I0|IF]] H.
  - apply Keeps0_Keeps3. eapply push_dir_keeps0; eauto. now left.
  - apply Keeps0_Keeps3. eapply push_dir_keeps0; eauto. now right.
  - assert (P3 : PreInv3 wd (st_fs s)) by (right; right; exact IF).
    unfold push_dir in H.
    destruct (existsb (str_eqb title) (st_names s)).
    { injection H as <- _. now apply Keeps3_refl. }
    destruct (write_path cfg_fixed wd title) as [raw|] eqn:EW.
    2:{ injection H as <- _. now apply Keeps3_refl. }
    destruct (write_path_fixed _ _ _ EW) as (cl & -> & Hcl).
    unfold cached, remember in H. cbn [fixK cfg_fixed negb andb] in H.
    rewrite clean_abs_names in H.
    apply inside_spec in Hcl as [rel ->].
    rewrite (ensure_write_dir_file wd (st_fs s) rel _ IF) in H.
    injection H as <- _. now apply Keeps3_refl.
Qed.

Lemma restore_layers_keeps3 wd : forall layers s s' ok,
  PreInv3 wd (st_fs s) ->
  restore_layers cfg_fixed wd s layers = (s', ok) ->
  Keeps3 wd (st_fs s) (st_fs s').
Proof.
  induction layers as [|[t c] r IH]; intros s s' ok I H.
  - injection H as <- _. now apply Keeps3_refl.
  - cbn [restore_layers] in H.
    destruct t as [|t0 tt]; [now apply (IH s s' ok)|].
    destruct (existsb (str_eqb (t0 :: tt)) (st_names s)); [now apply (IH s s' ok)|].
    destruct (fetch s c) as [| |c']; [now apply (IH s s' ok) | injection H as <- _; now apply Keeps3_refl |].
    destruct (push_blob cfg_fixed wd s (t0 :: tt) c' ((c' =? c)%N && negb (c =? 0)%N)) as [s1 ok1] eqn:P.
    pose proof (push_blob_keeps3 _ _ _ _ _ _ _ I P) as K1.
    destruct ok1.
    + eapply Keeps3_trans; [exact K1|]. apply (IH s1 s' ok (proj1 K1) H).
    + injection H as <- _. exact K1.
Qed.

Lemma push_keeps3 wd pres cwd s o s' ok :
  PreInv3 wd (st_fs s) ->
  push cfg_fixed pres wd cwd s o = (s', ok) ->
  Keeps3 wd (st_fs s) (st_fs s').
Proof.
  intros I H. unfold push in H. destruct o as [t c|t ts es|layers|how t ts es].
  - destruct t as [|t0 tt].
    + destruct ((c =? 0)%N || existsb (str_eqb [0%N; c]) (st_names s)); injection H as <- _; now apply Keeps3_refl.
    + eapply push_blob_keeps3; eauto.
  - destruct t as [|t0 tt].
    + injection H as <- _. now apply Keeps3_refl.
    + eapply push_dir_keeps3; eauto.
  - destruct (existsb (str_eqb (manifest_marker layers)) (st_names s)).
    + injection H as <- _. now apply Keeps3_refl.
    + apply (restore_layers_keeps3 wd layers (mkStore (st_fs s) (manifest_marker layers :: st_names s) (st_d2p s)) s' ok I H).
  - destruct t as [|t0 tt].
    + injection H as <- _. now apply Keeps3_refl.
    + eapply push_dir_keeps3; eauto.
Qed.

Lemma pushes_keeps3 wd pres cwd : forall os s s' oks,
  PreInv3 wd (st_fs s) ->
  pushes cfg_fixed pres wd cwd s os = (s', oks) ->
  Keeps3 wd (st_fs s) (st_fs s').
Proof.
  induction os as [|o os IH]; intros s s' oks I H.
  - injection H as <- _. now apply Keeps3_refl.
  - cbn [pushes] in H.
    destruct (push cfg_fixed pres wd cwd s o) as [s1 ok] eqn:P.
    destruct (pushes cfg_fixed pres wd cwd s1 os) as [s2 oks2] eqn:Ps.
    injection H as <- _.
    pose proof (push_keeps3 _ _ _ _ _ _ _ I P) as K1.
    eapply Keeps3_trans; [exact K1|]. eapply IH; eauto. exact (proj1 K1).
Qed.

(* a named blob titled like the missing working directory makes it a regular file; a later push
   below it fails, one that fails verification removes it again *)
Definition os_wd_as_file : list pushop :=
  [PBlob (b ".") 5%N; PBlob (b "x") 6%N; PDir (b "t") [] [EDir (b "t/a") 493%N]; PBlob (b "/r/w") 0%N; PBlob (b "x") 7%N].

Lemma wd_as_file_ok :
  snd (pushes cfg_fixed false wd0 cwd0 (mkStore fs3 [] []) os_wd_as_file) = [true; false; false; false; true] /\
  lookup (st_fs (fst (pushes cfg_fixed false wd0 cwd0 (mkStore fs3 [] []) os_wd_as_file))) wd0 = Some NDir /\
  view_at (st_fs (fst (pushes cfg_fixed false wd0 cwd0 (mkStore fs3 [] []) os_wd_as_file))) [b "victim"] = view_at fs3 [b "victim"].
Proof. vm_compute. repeat split. Qed.

(* ---------- the observer's view ---------- *)

(* with no tainted inode (no file below the working directory shares its inode with a file
   outside) nothing at all changes outside *)
Lemma pushes_keeps_view wd pres cwd os s s' oks :
  Inv wd (st_fs s) -> taint (st_fs s) = [] ->
  pushes cfg_fixed pres wd cwd s os = (s', oks) ->
  Inv wd (st_fs s') /\ (forall p, inside wd p = false -> view_at (st_fs s') p = view_at (st_fs s) p).
Proof.
  intros I T H. destruct (pushes_keeps wd pres cwd os s s' oks I H) as [I' S]. split; [exact I'|].
  intros p Hp. apply (same_outside_view wd _ _ p S Hp). intros i _. rewrite T. intros [].
Qed.

(* in general: the view changes only at files whose inode is tainted (and stays a file of that inode) *)
Lemma pushes_keeps_view_tainted wd pres cwd os s s' oks :
  Inv wd (st_fs s) ->
  pushes cfg_fixed pres wd cwd s os = (s', oks) ->
  forall p, inside wd p = false ->
    view_at (st_fs s') p = view_at (st_fs s) p \/
    exists i, lookup (st_fs s) p = Some (NFile i) /\ In i (taint (st_fs s)) /\ lookup (st_fs s') p = Some (NFile i).
Proof.
  intros I H p Hp. destruct (pushes_keeps wd pres cwd os s s' oks I H) as [_ S].
  destruct (lookup (st_fs s) p) as [[|i|d a cs]|] eqn:L.
  - left. apply (same_outside_view wd _ _ p S Hp). intros i Li. rewrite L in Li. discriminate.
  - destruct (in_dec Nat.eq_dec i (taint (st_fs s))) as [Hi|Hi].
    + right. exists i. split; [reflexivity|]. split; [exact Hi|].
      destruct S as [_ S]. destruct (S p Hp) as (A1 & _). rewrite A1. exact L.
    + left. apply (same_outside_view wd _ _ p S Hp). intros j Lj. rewrite L in Lj. injection Lj as <-. exact Hi.
  - left. apply (same_outside_view wd _ _ p S Hp). intros i Li. rewrite L in Li. discriminate.
  - left. apply (same_outside_view wd _ _ p S Hp). intros i Li. rewrite L in Li. discriminate.
Qed.

Lemma pushes_keeps3_view wd pres cwd os s s' oks :
  PreInv3 wd (st_fs s) -> taint (st_fs s) = [] ->
  pushes cfg_fixed pres wd cwd s os = (s', oks) ->
  PreInv3 wd (st_fs s') /\ (forall p, inside wd p = false -> view_at (st_fs s') p = view_at (st_fs s) p).
Proof.
  intros I T H. destruct (pushes_keeps3 wd pres cwd os s s' oks I H) as [I' S]. split; [exact I'|].
  intros p Hp. apply (same_outside_view wd _ _ p S Hp). intros i _. rewrite T. intros [].
Qed.

(* the tree of the known finding with its shared inode declared: the invariant holds, so the full
   theorem applies - and the one outside change is exactly the permitted one *)
Definition fs2t : fsys :=
  mkFS [ ([b "r"], NDir); ([b "r"; b "w"], NDir); ([b "victim"], NFile 0); ([b "r"; b "w"; b "old"], NFile 0) ]
       [ (0, 100%N) ] 1 [] [] [] [0].

Lemma inv_fs2t : Inv wd0 fs2t.
Proof.
  constructor.
  - intros q r E Hq. destruct q as [|q1 [|q2 [|q3 q']]]; [contradiction| | |].
    + injection E as <- _. reflexivity.
    + injection E as <- <- _. reflexivity.
    + apply (f_equal (@length _)) in E. simpl in E. rewrite app_length in E. lia.
  - intros p q i Hp _ _. right. unfold lookup, fs2t in Hp. cbn [ents lookup_ents] in Hp.
    repeat match type of Hp with
           | (if ?c then _ else _) = _ => destruct c; [first [discriminate Hp | (injection Hp as <-; now left)] |]
           end. discriminate.
  - intros p i H. change (nexti fs2t) with 1. unfold lookup, fs2t in H. cbn [ents lookup_ents] in H.
    repeat match type of H with
           | (if ?c then _ else _) = _ =>
             destruct c; [first [discriminate H | (injection H as H; subst i; lia)] |]
           end. discriminate.
  - intros i [<-|[]]. change (nexti fs2t) with 1. lia.
Qed.

(* the invariant asks nothing of a tree beyond a working directory reached through real directories
   and inode numbers below nexti: declaring every inode tainted satisfies the rest *)
Definition with_taint (t : list nat) (f : fsys) : fsys :=
  mkFS (ents f) (cont f) (nexti f) (dmode f) (fstamp f) (dstamp f) t.

Lemma inv_any_tree wd f :
  (forall q r, wd = q ++ r -> q <> [] -> lookup f q = Some NDir) ->
  (forall p i, lookup f p = Some (NFile i) -> i < nexti f) ->
  Inv wd (with_taint (seq 0 (nexti f)) f).
Proof.
  intros Hwd Hfresh. constructor.
  - exact Hwd.
  - intros p q i Lp _ _. right. apply in_seq. apply Hfresh in Lp. simpl in *. lia.
  - exact Hfresh.
  - intros i Hi. apply in_seq in Hi. simpl in *. lia.
Qed.
