(* C20: requests of the descriptor-driven operations (Model/RefOps.v desc_op_requests): exact slot
   in the base repository, and the query decodes to exactly the documented parameters. *)
From Oras Require Import Base.Prelude Base.Regex Generated.GC20 Model.NetURL Model.Reference Model.RefOps
  Proofs.Reference Proofs.RefOps Proofs.RefURL Proofs.NetURL.

Definition bytes (s : str) : Prop := Forall (fun c => (c < 256)%N) s.

(* ---------- encode_params / parse_query round trip ---------- *)

Lemma esc_no x s : qsafe x = false -> bytes s -> contains x (query_escape s) = false.
Proof. intros Hx Hb. eapply qsafe_contains; [exact Hx | now apply query_escape_safe]. Qed.

Definition enc1 (kv : str * str) : str := query_escape (fst kv) ++ [61] ++ query_escape (snd kv).

Lemma enc1_no_amp kv : bytes (fst kv) -> bytes (snd kv) -> contains 38 (enc1 kv) = false.
Proof.
  intros Hk Hv. unfold enc1. rewrite !contains_app.
  rewrite (esc_no 38 _ eq_refl Hk), (esc_no 38 _ eq_refl Hv). reflexivity.
Qed.

Lemma split_join_amp l :
  l <> [] -> Forall (fun x => contains 38 x = false) l -> split_on 38 (join_amp l) = l.
Proof.
  intros Hne F. induction F as [|x l Hx F IH]; [contradiction|].
  destruct l as [|y r]; [simpl; now apply split_on_none|].
  change (join_amp (x :: y :: r)) with (x ++ 38 :: join_amp (y :: r)).
  rewrite split_on_app, (split_on_none _ _ Hx), IH by discriminate. reflexivity.
Qed.

Definition params_bytes (ps : list (str * str)) : Prop := Forall (fun kv => bytes (fst kv) /\ bytes (snd kv)) ps.

Lemma parse_params_enc ps : params_bytes ps -> parse_params (map enc1 ps) = Some ps.
Proof.
  induction 1 as [|[k v] ps [Hk Hv] F IH]; [reflexivity|]. simpl in Hk, Hv. simpl map. unfold enc1 at 1. simpl fst. simpl snd.
  simpl. change (query_escape k ++ 61 :: query_escape v) with (query_escape k ++ 61 :: query_escape v).
  rewrite (split_first_app 61 (query_escape k) (query_escape v) (esc_no 61 _ eq_refl Hk)).
  rewrite (query_escape_roundtrip k Hk), (query_escape_roundtrip v Hv), IH. reflexivity.
Qed.

Theorem parse_query_encode ps : ps <> [] -> params_bytes ps -> parse_query (encode_params ps) = Some ps.
Proof.
  intros Hne Hb. unfold parse_query, encode_params. fold enc1.
  change (map (fun kv => query_escape (fst kv) ++ [61] ++ query_escape (snd kv)) ps) with (map enc1 ps).
  rewrite split_join_amp.
  - now apply parse_params_enc.
  - destruct ps; [contradiction | discriminate].
  - apply Forall_forall. intros x Hx. apply in_map_iff in Hx as (kv & <- & Hin).
    unfold params_bytes in Hb. rewrite Forall_forall in Hb. destruct (Hb kv Hin). now apply enc1_no_amp.
Qed.

Lemma join_amp_no x l : (x =? 38) = false -> Forall (fun y => contains x y = false) l -> contains x (join_amp l) = false.
Proof.
  intros Hx F. induction F as [|y l Hy F IH]; [reflexivity|].
  destruct l as [|z r]; [exact Hy|].
  change (join_amp (y :: z :: r)) with (y ++ [38] ++ join_amp (z :: r)).
  rewrite !contains_app, Hy, IH. unfold contains. cbn [existsb]. rewrite (N.eqb_sym 38 x), Hx. reflexivity.
Qed.

Lemma encode_params_no_hash ps : params_bytes ps -> contains c_hash (encode_params ps) = false.
Proof.
  intro Hb. unfold encode_params. apply join_amp_no; [reflexivity|].
  apply Forall_forall. intros x Hx. apply in_map_iff in Hx as (kv & <- & Hin).
  unfold params_bytes in Hb. rewrite Forall_forall in Hb. destruct (Hb kv Hin) as [Hk Hv].
  rewrite !contains_app. rewrite (esc_no c_hash _ eq_refl Hk), (esc_no c_hash _ eq_refl Hv). reflexivity.
Qed.

(* a string without '%' and '+' is its own query encoding as far as decoding goes *)
Lemma query_unescape_plain s : contains c_pct s = false -> contains 43 s = false -> query_unescape s = Some s.
Proof.
  unfold contains. induction s as [|c s IH]; [reflexivity|]. simpl. intros A B.
  apply orb_false_iff in A as [A1 A2]. apply orb_false_iff in B as [B1 B2].
  rewrite A1, (IH A2 B2), B1. reflexivity.
Qed.

(* ---------- the documented slot and parameters of each operation ---------- *)

Definition desc_op_slot (op : descop) (d : str) : list str :=
  match op with
  | DMFetch | DMDelete => [b "manifests"; d]
  | DBFetch | DBDelete => [b "blobs"; d]
  | DReferrers => [b "referrers"; d]
  | DMount | DBPush => [b "blobs"; b "uploads"; []]
  | DTags => [b "tags"; b "list"]
  end.

Definition desc_op_params (op : descop) (d a1 num : str) : list (str * str) :=
  match op with
  | DReferrers => opt_param (b "artifactType") a1 ++ opt_param (b "n") num
  | DMount => [(b "mount", d); (b "from", a1)]
  | DTags => opt_param (b "n") num ++ opt_param (b "last") a1
  | _ => []
  end.

Definition desc_op_method (op : descop) : str :=
  match op with
  | DMFetch | DBFetch | DReferrers | DTags => m_get
  | DMDelete | DBDelete => m_delete
  | DMount | DBPush => m_post
  end.

Lemma opt_param_bytes k v : bytes k -> bytes v -> params_bytes (opt_param k v).
Proof.
  intros Hk Hv. unfold opt_param, params_bytes. destruct v; [constructor|].
  constructor; [split; assumption | constructor].
Qed.

Ltac norm_url :=
  unfold desc_op_requests, with_query, url_manifest, url_blob, url_referrers, url_taglist, url_upload, url_repo_base;
  cbn [r_registry r_repository r_reference];
  repeat rewrite <- app_assoc.

Section DescOps.
  Variable avail : str -> bool.
  Variable vr : str -> bool.
  Hypothesis vr_clean : forall reg, vr reg = true -> reg_clean reg = true.

  Lemma path_of_two repo s1 s2 : path_of repo [s1; s2] = b "/v2/" ++ repo ++ [c_slash] ++ s1 ++ [c_slash] ++ s2.
  Proof. unfold path_of, tail_of. simpl. rewrite ?app_nil_r. reflexivity. Qed.

  (* one request, of the documented method, to exactly
       <scheme>://<host of the base registry>/v2/<base repository>/<slot of the operation>
     without fragment; without query when the operation documents no parameter, otherwise with a
     query that url.ParseQuery decodes to exactly the documented parameters -- whatever bytes the
     caller passes as artifact type or last tag *)
  Theorem desc_op_requests_exact op plain breg brepo d a1 num :
    vr breg = true -> valid_repository brepo = true -> valid_digest avail d = true ->
    bytes a1 -> bytes num -> (op = DMount -> valid_repository a1 = true) ->
    exists u q,
      desc_op_requests op plain (mkRef breg brepo []) d a1 num = [(desc_op_method op, u)] /\
      url_split u = Some (mkParts (scheme plain) (host_of breg) (path_of brepo (desc_op_slot op d)) q None) /\
      split_on c_slash (path_of brepo (desc_op_slot op d)) = [[]; b "v2"] ++ split_on c_slash brepo ++ desc_op_slot op d /\
      contains c_at (host_of breg) = false /\
      match desc_op_params op d a1 num with
      | [] => q = None
      | ps => exists qs, q = Some qs /\ parse_query qs = Some ps
      end.
  Proof.
    intros Hreg Hrepo Hd Ha Hn Hm.
    pose proof (vr_clean _ Hreg) as Hc.
    pose proof (repo_qf_free _ Hrepo) as Hq.
    pose proof (seg_clean_ok _ (digest_seg_clean avail d Hd)) as Hds.
    assert (Hat : contains c_at (host_of breg) = false) by now apply host_of_clean.
    assert (K : forall s, forallb (fun c => (97 <=? c) && (c <=? 122)) s = true -> seg_ok s) by (intros; now apply const_seg_ok).
    assert (Hsegs : Forall seg_ok (desc_op_slot op d)).
    { destruct op; simpl; repeat (constructor; try (apply K; reflexivity); try exact Hds); repeat split; reflexivity. }
    destruct (url_split_general plain breg brepo (desc_op_slot op d) Hc Hq Hsegs) as [G0 G1].
    assert (Bk : forall k, forallb (fun c => c <? 256) k = true -> bytes k).
    { intros k H. apply Forall_forall. intros c Hin. rewrite forallb_forall in H. now apply N.ltb_lt, H. }
    (* operations without parameters *)
    assert (NoQ : forall u, u = scheme plain ++ b "://" ++ host_of breg ++ path_of brepo (desc_op_slot op d) ->
                  desc_op_params op d a1 num = [] ->
                  desc_op_requests op plain (mkRef breg brepo []) d a1 num = [(desc_op_method op, u)] ->
                  exists u q, desc_op_requests op plain (mkRef breg brepo []) d a1 num = [(desc_op_method op, u)] /\
                    url_split u = Some (mkParts (scheme plain) (host_of breg) (path_of brepo (desc_op_slot op d)) q None) /\
                    split_on c_slash (path_of brepo (desc_op_slot op d)) = [[]; b "v2"] ++ split_on c_slash brepo ++ desc_op_slot op d /\
                    contains c_at (host_of breg) = false /\
                    match desc_op_params op d a1 num with [] => q = None | ps => exists qs, q = Some qs /\ parse_query qs = Some ps end).
    { intros u -> Hp Hr. exists (scheme plain ++ b "://" ++ host_of breg ++ path_of brepo (desc_op_slot op d)), None.
      rewrite Hp. repeat split; auto. }
    (* operations with encoded parameters *)
    assert (WithQ : forall ps, ps <> [] -> params_bytes ps -> desc_op_params op d a1 num = ps ->
                  desc_op_requests op plain (mkRef breg brepo []) d a1 num
                  = [(desc_op_method op, (scheme plain ++ b "://" ++ host_of breg ++ path_of brepo (desc_op_slot op d)) ++ [c_qm] ++ encode_params ps)] ->
                  exists u q, desc_op_requests op plain (mkRef breg brepo []) d a1 num = [(desc_op_method op, u)] /\
                    url_split u = Some (mkParts (scheme plain) (host_of breg) (path_of brepo (desc_op_slot op d)) q None) /\
                    split_on c_slash (path_of brepo (desc_op_slot op d)) = [[]; b "v2"] ++ split_on c_slash brepo ++ desc_op_slot op d /\
                    contains c_at (host_of breg) = false /\
                    match desc_op_params op d a1 num with [] => q = None | ps => exists qs, q = Some qs /\ parse_query qs = Some ps end).
    { intros ps Hne Hb Hp Hr. eexists. exists (Some (encode_params ps)). split; [exact Hr|]. split.
      - rewrite <- (url_split_query plain breg brepo (desc_op_slot op d) (encode_params ps) Hc Hq Hsegs (encode_params_no_hash ps Hb)).
        f_equal. rewrite <- !app_assoc. reflexivity.
      - split; [exact G1|]. split; [exact Hat|]. rewrite Hp. destruct ps; [contradiction|].
        exists (encode_params (p :: ps)). split; [reflexivity | now apply parse_query_encode]. }
    destruct op.
    - apply (NoQ _ eq_refl eq_refl). cbn [desc_op_slot desc_op_method]. rewrite path_of_two. norm_url. reflexivity.
    - apply (NoQ _ eq_refl eq_refl). cbn [desc_op_slot desc_op_method]. rewrite path_of_two. norm_url. reflexivity.
    - apply (NoQ _ eq_refl eq_refl). cbn [desc_op_slot desc_op_method]. rewrite path_of_two. norm_url. reflexivity.
    - apply (NoQ _ eq_refl eq_refl). cbn [desc_op_slot desc_op_method]. rewrite path_of_two. norm_url. reflexivity.
    - (* referrers *)
      assert (Hb : params_bytes (opt_param (b "artifactType") a1 ++ opt_param (b "n") num)).
      { apply Forall_app. split; apply opt_param_bytes; auto; apply Bk; reflexivity. }
      destruct (opt_param (b "artifactType") a1 ++ opt_param (b "n") num) as [|p ps] eqn:Eps.
      + apply (NoQ _ eq_refl); [exact Eps|]. cbn [desc_op_slot desc_op_method]. rewrite path_of_two.
        unfold desc_op_requests. rewrite Eps. norm_url. reflexivity.
      + apply (WithQ (p :: ps)); [discriminate | exact Hb | exact Eps |].
        cbn [desc_op_slot desc_op_method]. rewrite path_of_two.
        unfold desc_op_requests. rewrite Eps. norm_url. reflexivity.
    - (* mount *)
      specialize (Hm eq_refl).
      pose proof (url_mount_exact avail vr vr_clean plain (mkRef breg brepo []) d a1) as M.
      destruct M as [M1 M2].
      { unfold wf_ref; simpl. split; [split; [exact Hreg | now apply reg_clean_no]|]. split; [exact Hrepo | now left]. }
      { exact Hd. } { exact Hm. }
      eexists. exists (Some (b "mount=" ++ d ++ b "&from=" ++ a1)). split; [reflexivity|]. split.
      + unfold url_mount in M1. simpl in M1. simpl. 
        replace (path_of brepo [b "blobs"; b "uploads"; []]) with (b "/v2/" ++ brepo ++ b "/blobs/uploads/")
          by (unfold path_of, tail_of; simpl; rewrite ?app_nil_r; reflexivity).
        exact M1.
      + split; [exact G1|]. split; [exact Hat|]. simpl.
        exists (b "mount=" ++ d ++ b "&from=" ++ a1). split; [reflexivity|].
        inversion M2 as [|x1 l1 [A1 B1] M3]; subst. inversion M3 as [|x2 l2 [A2 B2] M4]; subst.
        inversion M4 as [|x3 l3 [A3 B3] M5]; subst. inversion M5 as [|x4 l4 [A4 B4] M6]; subst.
        inversion M6 as [|x5 l5 [A5 B5] M7]; subst.
        unfold parse_query.
        change (b "mount=" ++ d ++ b "&from=" ++ a1) with ((b "mount=" ++ d) ++ 38 :: (b "from=" ++ a1)).
        rewrite split_on_app.
        rewrite (split_on_none 38 (b "mount=" ++ d)) by (rewrite contains_app, A1; reflexivity).
        rewrite (split_on_none 38 (b "from=" ++ a1)) by (rewrite contains_app, B1; reflexivity).
        change ([b "mount=" ++ d] ++ [b "from=" ++ a1]) with [b "mount" ++ 61 :: d; b "from" ++ 61 :: a1].
        cbn [parse_params].
        rewrite (split_first_app 61 (b "mount") d eq_refl), (split_first_app 61 (b "from") a1 eq_refl).
        rewrite (query_unescape_plain d A4 A5), (query_unescape_plain a1 B4 B5).
        reflexivity.
    - apply (NoQ _ eq_refl eq_refl). cbn [desc_op_slot desc_op_method].
      replace (path_of brepo [b "blobs"; b "uploads"; []]) with (b "/v2/" ++ brepo ++ b "/blobs/uploads/")
        by (unfold path_of, tail_of; simpl; rewrite ?app_nil_r; reflexivity).
      norm_url. reflexivity.
    - (* tags *)
      assert (Hb : params_bytes (opt_param (b "n") num ++ opt_param (b "last") a1)).
      { apply Forall_app. split; apply opt_param_bytes; auto; apply Bk; reflexivity. }
      destruct (opt_param (b "n") num ++ opt_param (b "last") a1) as [|p ps] eqn:Eps.
      + apply (NoQ _ eq_refl); [exact Eps|]. cbn [desc_op_slot desc_op_method].
        replace (path_of brepo [b "tags"; b "list"]) with (b "/v2/" ++ brepo ++ b "/tags/list")
          by (unfold path_of, tail_of; simpl; rewrite ?app_nil_r; reflexivity).
        unfold desc_op_requests. rewrite Eps. norm_url. reflexivity.
      + apply (WithQ (p :: ps)); [discriminate | exact Hb | exact Eps |].
        cbn [desc_op_slot desc_op_method].
        replace (path_of brepo [b "tags"; b "list"]) with (b "/v2/" ++ brepo ++ b "/tags/list")
          by (unfold path_of, tail_of; simpl; rewrite ?app_nil_r; reflexivity).
        unfold desc_op_requests. rewrite Eps. norm_url. reflexivity.
  Qed.
End DescOps.

(* ---------- any history of calls on one Repository value ---------- *)

(* one call: a reference-taking operation on a reference string, or a descriptor-driven one *)
Inductive call :=
| CRef (op : refop) (s d : str)
| CDesc (op : descop) (d a1 num : str).

Section Sessions.
  Variable avail : str -> bool.
  Variable vr : str -> bool.
  Hypothesis vr_clean : forall reg, vr reg = true -> reg_clean reg = true.
  Variable plain : bool.
  Variables breg brepo : str.

  Definition call_requests (c : call) : list (str * str) :=
    match c with
    | CRef op s d => match op_requests avail vr op plain breg brepo s d with Some l => l | None => [] end
    | CDesc op d a1 num => desc_op_requests op plain (mkRef breg brepo []) d a1 num
    end.
  Definition session_requests (cs : list call) : list (str * str) := flat_map call_requests cs.

  (* what the caller must respect: descriptors carry valid digests, strings are byte strings, a
     mount names a valid source repository; reference strings are arbitrary *)
  Definition call_ok (c : call) : Prop :=
    match c with
    | CRef _ _ d => valid_digest avail d = true
    | CDesc op d a1 num => valid_digest avail d = true /\ bytes a1 /\ bytes num /\ (op = DMount -> valid_repository a1 = true)
    end.

  (* the request goes to the base registry (authority exactly its host, no user-info), its path is
     /v2/<base repository>/<segments> and it has no fragment *)
  Definition in_base_slot (u : str) : Prop :=
    exists segs q,
      url_split u = Some (mkParts (scheme plain) (host_of breg) (path_of brepo segs) q None) /\
      split_on c_slash (path_of brepo segs) = [[]; b "v2"] ++ split_on c_slash brepo ++ segs /\
      contains c_at (host_of breg) = false.

  Hypothesis Hbreg : vr breg = true.
  Hypothesis Hbrepo : valid_repository brepo = true.

  Lemma call_in_base c : call_ok c -> Forall (fun mu => in_base_slot (snd mu)) (call_requests c).
  Proof.
    destruct c as [op s d | op d a1 num]; simpl.
    - intro Hd. destruct (op_requests avail vr op plain breg brepo s d) as [l|] eqn:E; [|constructor].
      assert (Hok : ok_registry vr breg) by (split; [exact Hbreg | apply reg_clean_no; [reflexivity | now apply vr_clean]]).
      destruct (op_requests_exact_paths avail vr op plain breg brepo s d l vr_clean Hok Hbrepo Hd E) as (r & _ & F).
      eapply Forall_impl; [|exact F]. intros mu (seg & x & _ & _ & (U & S & A & _)).
      exists [seg; x], None. cbn [r_registry r_repository r_reference] in U, S, A.
      rewrite (path_of_two brepo seg x). auto.
    - intros (Hd & Ha & Hn & Hm).
      destruct (desc_op_requests_exact avail vr vr_clean op plain breg brepo d a1 num Hbreg Hbrepo Hd Ha Hn Hm)
        as (u & q & -> & U & S & A & _).
      constructor; [|constructor]. exists (desc_op_slot op d), q. auto.
  Qed.

  (* every request of every history of calls on the Repository stays in the base repository *)
  Theorem session_in_base cs :
    Forall call_ok cs -> Forall (fun mu => in_base_slot (snd mu)) (session_requests cs).
  Proof.
    induction 1 as [|c cs Hc F IH]; [constructor|].
    unfold session_requests. simpl. apply Forall_app. split; [now apply call_in_base | exact IH].
  Qed.
  (* ---------- oras.Tag / oras.TagN ---------- *)

  Lemma manifest_url_in_base s r :
    repo_parse avail vr breg brepo s = Some r -> in_base_slot (url_manifest plain r).
  Proof.
    intro H. destruct (repo_parse_result_in_base avail vr breg brepo s r H) as (Hreg & Hrepo & Hne & Hv).
    assert (Hok : ok_registry vr breg) by (split; [exact Hbreg | apply reg_clean_no; [reflexivity | now apply vr_clean]]).
    assert (W : wf_ref avail vr r).
    { unfold wf_ref. rewrite Hreg, Hrepo. split; [exact Hok|]. split; [exact Hbrepo | now right]. }
    destruct (url_exact avail vr plain r vr_clean W Hne) as ((U & S & A & _) & _ & _).
    rewrite Hreg, ?Hrepo in U. rewrite ?Hreg, ?Hrepo in S. rewrite ?Hreg in A.
    exists [b "manifests"; r_reference r], None. rewrite (path_of_two brepo (b "manifests") (r_reference r)). auto.
  Qed.

  (* whatever source and destinations are passed to oras.Tag / oras.TagN on a Repository with a
     valid base, and whatever the registry serves, every request stays in the base repository *)
  Theorem oras_tag_in_base src dsts served :
    Forall (fun mu => in_base_slot (snd mu)) (oras_tag_requests avail vr plain breg brepo src dsts served).
  Proof.
    unfold oras_tag_requests. destruct dsts as [|d0 dr]; [constructor|].
    destruct (repo_parse avail vr breg brepo src) as [r|] eqn:E; [|constructor].
    constructor; [now apply (manifest_url_in_base src)|].
    destruct (fetch_ok avail r served); [|constructor].
    generalize (d0 :: dr). intro l. induction l as [|dst l IH]; simpl; [constructor|].
    destruct (repo_parse avail vr breg brepo dst) as [r2|] eqn:E2; [|constructor].
    constructor; [now apply (manifest_url_in_base dst) | exact IH].
  Qed.

  (* ... and equivalent forms of source and destination send identical requests *)
  Theorem oras_tag_forms_agree t dg d2 served :
    valid_tag t = true -> valid_digest avail dg = true -> valid_tag d2 = true ->
    oras_tag_requests avail vr plain breg brepo (t ++ [c_at] ++ dg) [breg ++ [c_slash] ++ brepo ++ [c_colon] ++ d2] served
    = oras_tag_requests avail vr plain breg brepo dg [d2] served.
  Proof.
    intros Ht Hd H2.
    assert (Hok : ok_registry vr breg) by (split; [exact Hbreg | apply reg_clean_no; [reflexivity | now apply vr_clean]]).
    unfold oras_tag_requests, put_until_refused.
    rewrite (repo_parse_tag_at_digest avail vr breg brepo t dg (tag_no_slash _ Ht) (tag_no_at _ Ht) Hd).
    rewrite (repo_parse_digest avail vr breg brepo dg Hd).
    rewrite (repo_parse_full_tag avail vr breg brepo Hok Hbrepo d2 H2).
    rewrite (repo_parse_tag avail vr breg brepo d2 H2). reflexivity.
  Qed.
End Sessions.

(* ---------- constructors: every Repository value the library hands out has a valid base ---------- *)

Section Constructors.
  Variable avail : str -> bool.
  Variable vr : str -> bool.

  (* remote.NewRepository(s) *)
  Theorem new_repository_base_ok s base :
    new_repository avail vr s = Some base ->
    vr (r_registry base) = true /\ valid_repository (r_repository base) = true.
  Proof.
    unfold new_repository. intro H. destruct (parse_wf avail vr s base H) as ([Hr _] & Hp & _). auto.
  Qed.

  (* remote.NewRegistry(name) followed by Registry.Repository(ctx, sub) *)
  Theorem registry_repository_base_ok name sub reg base :
    new_registry vr name = Some reg -> registry_repository reg sub = Some base ->
    base = mkRef name sub [] /\ vr name = true /\ valid_repository sub = true.
  Proof.
    unfold new_registry, registry_repository. destruct (vr name) eqn:V; [|discriminate].
    intro H. injection H as <-. destruct (valid_repository sub) eqn:P; [|discriminate].
    intro H. injection H as <-. auto.
  Qed.
End Constructors.

(* ---------- the Registry's own requests ---------- *)

Lemma url_split_rooted plain reg p q :
  reg_clean reg = true -> free [c_qm; c_hash] (c_slash :: p) ->
  match q with Some qs => contains c_hash qs = false | None => True end ->
  url_split (scheme plain ++ b "://" ++ host_of reg ++ (c_slash :: p) ++ match q with Some qs => c_qm :: qs | None => [] end)
  = Some (mkParts (scheme plain) (host_of reg) (c_slash :: p) q None).
Proof.
  intros Hreg Fp Hq. unfold url_split.
  change (b "://" ++ host_of reg ++ (c_slash :: p) ++ match q with Some qs => c_qm :: qs | None => [] end)
    with (c_colon :: 47 :: 47 :: host_of reg ++ c_slash :: (p ++ match q with Some qs => c_qm :: qs | None => [] end)).
  rewrite (take_until_stop [c_colon] (scheme plain) c_colon _ (scheme_free plain) eq_refl).
  assert (Fh : free [c_slash; c_qm; c_hash] (host_of reg)).
  { apply free_of_contains. intros x [<-|[<-|[<-|[]]]]; now apply host_of_clean. }
  rewrite (take_until_stop _ _ c_slash _ Fh eq_refl).
  destruct q as [qs|].
  - change (c_slash :: p ++ c_qm :: qs) with ((c_slash :: p) ++ c_qm :: qs).
    rewrite (take_until_stop _ _ c_qm _ Fp eq_refl).
    assert (Fq : free [c_hash] qs) by (apply free_of_contains; intros x [<-|[]]; exact Hq).
    rewrite (take_until_end _ _ Fq). reflexivity.
  - rewrite app_nil_r. rewrite (take_until_end _ _ Fp). reflexivity.
Qed.

Definition reg_op_path (op : regop) : str := match op with RPing => b "/v2/" | RCatalog => b "/v2/_catalog" end.
Definition reg_op_params (op : regop) (a1 num : str) : list (str * str) :=
  match op with RPing => [] | RCatalog => opt_param (b "n") num ++ opt_param (b "last") a1 end.

(* Ping and Repositories: one GET to exactly /v2/ resp. /v2/_catalog of the registry's host, no
   user-info, no fragment, query = exactly the documented parameters *)
Theorem reg_op_requests_exact (vr : str -> bool) op plain reg a1 num :
  (forall r, vr r = true -> reg_clean r = true) -> vr reg = true -> bytes a1 -> bytes num ->
  exists u q,
    reg_op_requests op plain reg a1 num = [(m_get, u)] /\
    url_split u = Some (mkParts (scheme plain) (host_of reg) (reg_op_path op) q None) /\
    contains c_at (host_of reg) = false /\
    match reg_op_params op a1 num with
    | [] => q = None
    | ps => exists qs, q = Some qs /\ parse_query qs = Some ps
    end.
Proof.
  intros Hvr Hreg Ha Hn. pose proof (Hvr _ Hreg) as Hc.
  assert (Hat : contains c_at (host_of reg) = false) by now apply host_of_clean.
  assert (Bk : forall k, forallb (fun c => c <? 256) k = true -> bytes k).
  { intros k H. apply Forall_forall. intros c Hin. rewrite forallb_forall in H. now apply N.ltb_lt, H. }
  destruct op.
  - exists (url_base plain (mkRef reg [] [])), None. split; [reflexivity|]. split; [|split; [exact Hat | reflexivity]].
    unfold url_base. cbn [r_registry].
    refine (eq_trans _ (url_split_rooted plain reg (b "v2/") None Hc _ I)).
    + f_equal; try (rewrite ?app_nil_r; reflexivity).
    + vm_compute; repeat constructor.
  - assert (Hb : params_bytes (opt_param (b "n") num ++ opt_param (b "last") a1)).
    { apply Forall_app. split; apply opt_param_bytes; auto; apply Bk; reflexivity. }
    cbn [reg_op_params reg_op_path]. unfold reg_op_requests, with_query.
    destruct (opt_param (b "n") num ++ opt_param (b "last") a1) as [|p ps] eqn:Eps.
    + exists (url_catalog plain (mkRef reg [] [])), None. split; [reflexivity|]. split; [|split; [exact Hat | reflexivity]].
      unfold url_catalog. cbn [r_registry].
      refine (eq_trans _ (url_split_rooted plain reg (b "v2/_catalog") None Hc _ I)).
      * f_equal; try (rewrite ?app_nil_r; reflexivity).
      * vm_compute; repeat constructor.
    + eexists. exists (Some (encode_params (p :: ps))). split; [reflexivity|]. split; [|split; [exact Hat|]].
      * unfold url_catalog. cbn [r_registry].
        refine (eq_trans _ (url_split_rooted plain reg (b "v2/_catalog") (Some (encode_params (p :: ps))) Hc _ (encode_params_no_hash _ Hb))).
        -- f_equal; try (rewrite <- ?app_assoc; reflexivity).
        -- vm_compute; repeat constructor.
      * exists (encode_params (p :: ps)). split; [reflexivity|]. apply parse_query_encode; [discriminate | exact Hb].
Qed.

(* ---------- the same with the modelled validator: the premise about the registry is a theorem ---------- *)

Section WithGoValidator.
  Variable avail : str -> bool.
  Variable ip6 : str -> bool.
  Notation vr := (go_valid_registry ip6).
  Notation clean := (vr_clean ip6).

  Theorem desc_op_requests_exact_go op plain breg brepo d a1 num :
    vr breg = true -> valid_repository brepo = true -> valid_digest avail d = true ->
    bytes a1 -> bytes num -> (op = DMount -> valid_repository a1 = true) ->
    exists u q,
      desc_op_requests op plain (mkRef breg brepo []) d a1 num = [(desc_op_method op, u)] /\
      url_split u = Some (mkParts (scheme plain) (host_of breg) (path_of brepo (desc_op_slot op d)) q None) /\
      split_on c_slash (path_of brepo (desc_op_slot op d)) = [[]; b "v2"] ++ split_on c_slash brepo ++ desc_op_slot op d /\
      contains c_at (host_of breg) = false /\
      match desc_op_params op d a1 num with
      | [] => q = None
      | ps => exists qs, q = Some qs /\ parse_query qs = Some ps
      end.
  Proof. exact (desc_op_requests_exact avail vr clean op plain breg brepo d a1 num). Qed.

  Theorem reg_op_requests_exact_go op plain reg a1 num :
    vr reg = true -> bytes a1 -> bytes num ->
    exists u q,
      reg_op_requests op plain reg a1 num = [(m_get, u)] /\
      url_split u = Some (mkParts (scheme plain) (host_of reg) (reg_op_path op) q None) /\
      contains c_at (host_of reg) = false /\
      match reg_op_params op a1 num with
      | [] => q = None
      | ps => exists qs, q = Some qs /\ parse_query qs = Some ps
      end.
  Proof. exact (reg_op_requests_exact vr op plain reg a1 num clean). Qed.

  (* a Repository made by NewRepository(s0), then any history of calls: everything stays in the base *)
  Theorem new_repository_session_in_base s0 base plain cs :
    new_repository avail vr s0 = Some base -> Forall (call_ok avail) cs ->
    Forall (fun mu => in_base_slot plain (r_registry base) (r_repository base) (snd mu))
           (session_requests avail vr plain (r_registry base) (r_repository base) cs).
  Proof.
    intros H Hc. destruct (new_repository_base_ok avail vr s0 base H) as [Hr Hp].
    exact (session_in_base avail vr clean plain (r_registry base) (r_repository base) Hr Hp cs Hc).
  Qed.

  Theorem new_repository_oras_tag_in_base s0 base plain src dsts served :
    new_repository avail vr s0 = Some base ->
    Forall (fun mu => in_base_slot plain (r_registry base) (r_repository base) (snd mu))
           (oras_tag_requests avail vr plain (r_registry base) (r_repository base) src dsts served).
  Proof.
    intro H. destruct (new_repository_base_ok avail vr s0 base H) as [Hr Hp].
    exact (oras_tag_in_base avail vr clean plain (r_registry base) (r_repository base) Hr Hp src dsts served).
  Qed.

  Theorem url_referrers_at_exact_go plain s r at_ :
    parse avail vr s = Some r -> r_reference r <> [] -> at_ <> [] -> bytes at_ ->
    url_split (url_referrers_at plain r at_)
    = Some (mkParts (scheme plain) (host_of (r_registry r))
              (b "/v2/" ++ r_repository r ++ b "/referrers/" ++ r_reference r)
              (Some (b "artifactType=" ++ query_escape at_)) None) /\
    query_unescape (query_escape at_) = Some at_.
  Proof.
    intros H Hne Ha Hb.
    destruct (url_referrers_at_exact avail vr clean plain r at_ (parse_wf avail vr s r H) Hne Ha Hb) as (A & B & _).
    split; assumption.
  Qed.
End WithGoValidator.
