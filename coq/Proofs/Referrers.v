(* C14 — lemmas about Model/Referrers.v *)
From Oras Require Import Base.Prelude Model.Referrers.
From Coq Require Import Lia.

Lemma filter_referrers_spec refs art d :
  In d (filter_referrers refs art) <-> In d refs /\ (art = 0 \/ dart d = art).
Proof.
  unfold filter_referrers. destruct (art =? 0) eqn:E.
  - apply N.eqb_eq in E. tauto.
  - apply N.eqb_neq in E. rewrite filter_In, N.eqb_eq. tauto.
Qed.
