(* C14 — lemmas about Model/Referrers.v (applyReferrerChanges,
   removeEmptyDescriptors, filterReferrers). *)
From Oras Require Import Base.Prelude Model.Referrers.
From Coq Require Import Lia.

(* ---------- filterReferrers ---------- *)

Lemma filter_referrers_spec refs art d :
  In d (filter_referrers refs art) <-> In d refs /\ (art = 0 \/ dart d = art).
Proof.
  unfold filter_referrers. destruct (art =? 0) eqn:E.
  - apply N.eqb_eq in E. tauto.
  - apply N.eqb_neq in E. rewrite filter_In, N.eqb_eq. tauto.
Qed.

(* ---------- small facts ---------- *)

Lemma nonempty_true d : nonempty d = true <-> dkey d <> 0.
Proof. unfold nonempty, is_empty. rewrite negb_true_iff, N.eqb_neq. tauto. Qed.

Lemma nonempty_false d : nonempty d = false <-> dkey d = 0.
Proof. unfold nonempty, is_empty. rewrite negb_false_iff, N.eqb_eq. tauto. Qed.

Lemma has_key_In k l : has_key k l = true <-> In k (keys l).
Proof.
  unfold has_key, keys. rewrite existsb_exists, in_map_iff. split.
  - intros (d & Hd & E). apply N.eqb_eq in E. eauto.
  - intros (d & E & Hd). exists d. split; auto. now apply N.eqb_eq.
Qed.

Lemma has_key_app k l1 l2 : has_key k (l1 ++ l2) = has_key k l1 || has_key k l2.
Proof. unfold has_key. apply existsb_app. Qed.

Lemma lookup_None_notin m k : lookup m k = None -> ~ In k (map fst m).
Proof.
  induction m as [|[k' p] m IH]; simpl; [tauto|].
  destruct (k' =? k) eqn:E; [discriminate|]. apply N.eqb_neq in E.
  intros H [H1|H1]; [congruence|]. now apply IH.
Qed.

Lemma lookup_Some_In m k p : lookup m k = Some p -> In k (map fst m).
Proof.
  induction m as [|[k' p'] m IH]; simpl; [discriminate|].
  destruct (k' =? k) eqn:E.
  - apply N.eqb_eq in E. auto.
  - intro H. right. auto.
Qed.

Lemma lookup_mdelete m k k' :
  lookup (mdelete m k) k' = if k =? k' then None else lookup m k'.
Proof.
  induction m as [|[k0 p] m IH]; simpl.
  - now destruct (k =? k').
  - destruct (k0 =? k) eqn:E0; simpl.
    + apply N.eqb_eq in E0. subst k0. rewrite IH. destruct (k =? k'); reflexivity.
    + rewrite IH. destruct (k0 =? k') eqn:E1; [|reflexivity].
      apply N.eqb_eq in E1. subst k0. now rewrite N.eqb_sym, E0.
Qed.

Lemma NoDup_mdelete m k : NoDup (map fst m) -> NoDup (map fst (mdelete m k)).
Proof.
  induction m as [|[k0 p] m IH]; simpl; intro H; [constructor|].
  inversion H as [|? ? Hn Hd]; subst.
  destruct (negb (k0 =? k)); simpl; auto.
  constructor; auto. intro Hin. apply Hn.
  unfold mdelete in Hin. rewrite in_map_iff in *. destruct Hin as (x & E & Hx).
  apply filter_In in Hx. exists x. tauto.
Qed.

Lemma mdelete_notin m k : ~ In k (map fst m) -> mdelete m k = m.
Proof.
  induction m as [|[k0 p] m IH]; simpl; intro H; [reflexivity|].
  destruct (k0 =? k) eqn:E.
  - apply N.eqb_eq in E. tauto.
  - simpl. f_equal. apply IH. tauto.
Qed.

Lemma length_mdelete m k p :
  NoDup (map fst m) -> lookup m k = Some p -> S (length (mdelete m k)) = length m.
Proof.
  induction m as [|[k0 p0] m IH]; simpl; intros Hnd H; [discriminate|].
  inversion Hnd as [|? ? Hn Hd]; subst.
  destruct (k0 =? k) eqn:E; simpl.
  - apply N.eqb_eq in E. subst k0. f_equal.
    change (filter (fun e => negb (fst e =? k)) m) with (mdelete m k).
    now rewrite mdelete_notin.
  - f_equal. now apply IH.
Qed.

Lemma length_set_nth n x l : length (set_nth n x l) = length l.
Proof. revert n; induction l as [|h t IH]; intros [|n]; simpl; auto. Qed.

Lemma nth_error_set_nth_eq n x l :
  (n < length l)%nat -> nth_error (set_nth n x l) n = Some x.
Proof.
  revert n; induction l as [|h t IH]; intros [|n]; simpl; intro H; try lia; auto.
  apply IH. lia.
Qed.

Lemma nth_error_set_nth_neq n p x l :
  p <> n -> nth_error (set_nth n x l) p = nth_error l p.
Proof.
  revert n p; induction l as [|h t IH]; intros [|n] [|p]; simpl; intro H; auto; try congruence.
Qed.

Lemma filter_all_neq k (l : list desc) :
  (forall d, In d l -> dkey d <> k) -> filter (fun x => negb (dkey x =? k)) l = l.
Proof.
  induction l as [|h t IH]; simpl; intro H; [reflexivity|].
  destruct (dkey h =? k) eqn:E.
  - apply N.eqb_eq in E. exfalso. eapply H; eauto.
  - simpl. f_equal. apply IH. auto.
Qed.

(* tombstoning the unique position of key k = filtering key k out *)
Lemma filter_set_nth k : k <> 0 -> forall l pos d0,
  nth_error l pos = Some d0 -> dkey d0 = k ->
  (forall p d, nth_error l p = Some d -> dkey d = k -> p = pos) ->
  filter nonempty (set_nth pos empty_desc l) =
  filter (fun x => negb (dkey x =? k)) (filter nonempty l).
Proof.
  intros Hk. induction l as [|h t IH]; intros pos d0 Hn Hd Hu.
  - destruct pos; discriminate.
  - destruct pos as [|pos]; simpl in *.
    + injection Hn as ->.
      assert (Hne : nonempty d0 = true) by (apply nonempty_true; congruence).
      rewrite Hne. simpl. rewrite Hd, N.eqb_refl. simpl.
      symmetry. apply filter_all_neq. intros d Hin Hk'.
      apply filter_In in Hin as [Hin _].
      apply In_nth_error in Hin as [p Hp].
      specialize (Hu (S p) d Hp Hk'). discriminate.
    + assert (Hh : dkey h <> k).
      { intro E. specialize (Hu O h eq_refl E). discriminate. }
      assert (IH' := IH pos d0 Hn Hd).
      rewrite IH'.
      * destruct (nonempty h); simpl; [|reflexivity].
        apply N.eqb_neq in Hh. now rewrite Hh.
      * intros p d Hp Hk'. specialize (Hu (S p) d Hp Hk'). congruence.
Qed.

Lemma count_set_nth l pos d0 :
  nth_error l pos = Some d0 -> nonempty d0 = true ->
  S (length (filter nonempty (set_nth pos empty_desc l))) = length (filter nonempty l).
Proof.
  revert pos; induction l as [|h t IH]; intros [|pos] Hn Hd; simpl in *; try discriminate.
  - injection Hn as ->. now rewrite Hd.
  - destruct (nonempty h); simpl; [f_equal|]; now apply IH.
Qed.

(* ---------- removeEmptyDescriptors ---------- *)

Lemma remove_empty_go_spec hint : forall l j acc,
  (j + length (filter nonempty l) <= hint)%nat ->
  remove_empty_go l hint j acc = rev acc ++ filter nonempty l.
Proof.
  induction l as [|r t IH]; intros j acc H.
  - simpl. now rewrite app_nil_r.
  - cbn [remove_empty_go filter] in *.
    destruct (nonempty r) eqn:E.
    + cbn [length] in H. destruct (Nat.eqb (S j) hint) eqn:Eh.
      * apply Nat.eqb_eq in Eh.
        assert (H0 : length (filter nonempty t) = 0%nat) by lia.
        destruct (filter nonempty t); [|discriminate]. cbn [rev]. reflexivity.
      * rewrite IH by lia. cbn [rev]. rewrite <- app_assoc. reflexivity.
    + destruct (Nat.eqb j hint) eqn:Eh.
      * apply Nat.eqb_eq in Eh.
        assert (H0 : length (filter nonempty t) = 0%nat) by lia.
        destruct (filter nonempty t); [|discriminate]. now rewrite app_nil_r.
      * apply IH. lia.
Qed.

Lemma remove_empty_spec l hint :
  (length (filter nonempty l) <= hint)%nat -> remove_empty l hint = filter nonempty l.
Proof. intro H. unfold remove_empty. now rewrite remove_empty_go_spec. Qed.

(* whatever the hint, the result is a prefix of the non-empty entries *)
Lemma remove_empty_go_prefix hint : forall l j acc,
  exists rest, rev acc ++ filter nonempty l = remove_empty_go l hint j acc ++ rest.
Proof.
  induction l as [|r t IH]; intros j acc.
  - exists []. simpl. reflexivity.
  - cbn [remove_empty_go filter]. destruct (nonempty r).
    + destruct (Nat.eqb (S j) hint).
      * exists (filter nonempty t). cbn [rev]. now rewrite <- app_assoc.
      * destruct (IH (S j) (r :: acc)) as [rest Hr]. exists rest. rewrite <- Hr. cbn [rev].
        now rewrite <- app_assoc.
    + destruct (Nat.eqb j hint).
      * exists (filter nonempty t). reflexivity.
      * apply IH.
Qed.

(* ---------- the representation invariant of applyReferrerChanges ---------- *)

Record Inv (s : astate) (abs : list desc) : Prop := {
  inv_abs : filter nonempty (a_upd s) = abs;
  inv_map : forall k p, lookup (a_map s) k = Some p ->
            exists d, nth_error (a_upd s) p = Some d /\ dkey d = k /\ k <> 0;
  inv_pos : forall p d, nth_error (a_upd s) p = Some d -> dkey d <> 0 ->
            lookup (a_map s) (dkey d) = Some p;
  inv_nodup : NoDup (map fst (a_map s));
  inv_len : length (a_map s) = length abs
}.

Lemma inv_lookup_has s abs k :
  Inv s abs -> (lookup (a_map s) k <> None <-> has_key k abs = true).
Proof.
  intros [Ha Hm Hp _ _]. split.
  - destruct (lookup (a_map s) k) as [p|] eqn:E; [|congruence]. intros _.
    destruct (Hm k p E) as (d & Hn & Hk & Hz).
    apply has_key_In. unfold keys. rewrite in_map_iff. exists d. split; auto.
    rewrite <- Ha. apply filter_In. split.
    + eapply nth_error_In; eauto.
    + apply nonempty_true. congruence.
  - intro H. apply has_key_In in H. unfold keys in H. rewrite in_map_iff in H.
    destruct H as (d & Hk & Hin). rewrite <- Ha in Hin. apply filter_In in Hin as [Hin Hne].
    apply In_nth_error in Hin as [p Hp']. apply nonempty_true in Hne.
    rewrite <- Hk. rewrite (Hp p d Hp' Hne). discriminate.
Qed.

Lemma inv_lookup_none s abs k :
  Inv s abs -> (lookup (a_map s) k = None <-> has_key k abs = false).
Proof.
  intro I. pose proof (inv_lookup_has s abs k I) as H.
  destruct (lookup (a_map s) k), (has_key k abs); split; intro; try reflexivity; try discriminate.
  - exfalso. assert (Some n <> None) by discriminate. apply H in H1. discriminate.
  - exfalso. destruct H as [_ H]. apply H; auto.
Qed.

Lemma inv_init : Inv (mkA [] [] false) [].
Proof.
  constructor; simpl; auto; try constructor.
  - intros k p H. discriminate.
  - intros [|p] d H; discriminate.
Qed.

Lemma inv_append s abs r req :
  Inv s abs -> dkey r <> 0 -> lookup (a_map s) (dkey r) = None ->
  Inv (mkA (a_upd s ++ [r]) ((dkey r, length (a_upd s)) :: a_map s) req) (abs ++ [r]).
Proof.
  intros [Ha Hm Hp Hnd Hl] Hz Hnone. constructor; simpl.
  - rewrite filter_app. simpl. apply nonempty_true in Hz. rewrite Hz. now rewrite Ha.
  - intros k p H. destruct (dkey r =? k) eqn:E.
    + apply N.eqb_eq in E. injection H as <-. exists r. repeat split; auto; try congruence.
      rewrite nth_error_app2 by lia. now rewrite Nat.sub_diag.
    + destruct (Hm k p H) as (d & Hn & Hk & Hz'). exists d. repeat split; auto.
      rewrite nth_error_app1; auto. apply nth_error_Some. congruence.
  - intros p d Hn Hd.
    destruct (Nat.lt_ge_cases p (length (a_upd s))) as [Hlt|Hge].
    + rewrite nth_error_app1 in Hn by auto.
      pose proof (Hp p d Hn Hd) as Hl'.
      destruct (dkey r =? dkey d) eqn:E; [|exact Hl'].
      apply N.eqb_eq in E. rewrite E in Hnone. congruence.
    + rewrite nth_error_app2 in Hn by auto.
      destruct (p - length (a_upd s))%nat as [|q] eqn:Eq; simpl in Hn.
      * injection Hn as <-. rewrite N.eqb_refl. f_equal. lia.
      * destruct q; discriminate.
  - constructor; auto. now apply lookup_None_notin.
  - rewrite app_length. simpl. lia.
Qed.

Lemma inv_remove s abs k pos req :
  Inv s abs -> lookup (a_map s) k = Some pos ->
  Inv (mkA (set_nth pos empty_desc (a_upd s)) (mdelete (a_map s) k) req)
      (filter (fun x => negb (dkey x =? k)) abs).
Proof.
  intros [Ha Hm Hp Hnd Hl] Hlk.
  destruct (Hm k pos Hlk) as (d0 & Hn0 & Hk0 & Hz).
  assert (Hu : forall p d, nth_error (a_upd s) p = Some d -> dkey d = k -> p = pos).
  { intros p d Hn Hk. assert (dkey d <> 0) by congruence.
    pose proof (Hp p d Hn H) as Hl'. rewrite Hk in Hl'. congruence. }
  assert (Hlt : (pos < length (a_upd s))%nat) by (apply nth_error_Some; congruence).
  constructor; simpl.
  - rewrite <- Ha. eapply filter_set_nth; eauto.
  - intros k' p H. rewrite lookup_mdelete in H.
    destruct (k =? k') eqn:E; [discriminate|]. apply N.eqb_neq in E.
    destruct (Hm k' p H) as (d & Hn & Hk & Hz'). exists d. repeat split; auto.
    rewrite nth_error_set_nth_neq; auto. intro; subst p. congruence.
  - intros p d Hn Hd. destruct (Nat.eq_dec p pos) as [->|Hne].
    + rewrite nth_error_set_nth_eq in Hn by auto. injection Hn as <-. simpl in Hd. congruence.
    + rewrite nth_error_set_nth_neq in Hn by auto.
      rewrite lookup_mdelete. destruct (k =? dkey d) eqn:E.
      * apply N.eqb_eq in E. exfalso. apply Hne. eapply Hu; eauto.
      * now apply Hp.
  - now apply NoDup_mdelete.
  - assert (H1 := length_mdelete _ _ _ Hnd Hlk).
    assert (Hne0 : nonempty d0 = true) by (apply nonempty_true; congruence).
    assert (H2 := count_set_nth _ _ _ Hn0 Hne0).
    rewrite <- Ha.
    rewrite <- (filter_set_nth k Hz (a_upd s) pos d0 Hn0 Hk0 Hu).
    rewrite Ha in H2. lia.
Qed.

(* ---------- first loop = clean ---------- *)

Lemma scan_step_inv s abs r :
  Inv s abs ->
  Inv (scan_step s r) (if is_empty r || has_key (dkey r) abs then abs else abs ++ [r]).
Proof.
  intro I. unfold scan_step. destruct (is_empty r) eqn:Ee; simpl.
  - destruct I; constructor; auto.
  - destruct (lookup (a_map s) (dkey r)) as [p|] eqn:El.
    + assert (H : has_key (dkey r) abs = true).
      { apply (inv_lookup_has s abs (dkey r) I). congruence. }
      rewrite H. destruct I; constructor; auto.
    + assert (H : has_key (dkey r) abs = false) by (now apply (inv_lookup_none s abs (dkey r) I)).
      rewrite H. apply inv_append; auto.
      unfold is_empty in Ee. now apply N.eqb_neq.
Qed.

Lemma scan_inv l : forall s abs,
  Inv s abs -> Inv (fold_left scan_step l s) (clean_acc l abs).
Proof.
  induction l as [|r t IH]; intros s abs I; simpl; auto.
  pose proof (scan_step_inv s abs r I) as I'.
  destruct (is_empty r || has_key (dkey r) abs); apply IH; exact I'.
Qed.

(* the updateRequired flag after the first loop *)
Fixpoint dirty (l acc : list desc) : bool :=
  match l with
  | [] => false
  | r :: t => if is_empty r || has_key (dkey r) acc then true else dirty t (acc ++ [r])
  end.

Lemma scan_step_req_true s r : a_req s = true -> a_req (scan_step s r) = true.
Proof.
  intro H. unfold scan_step. destruct (is_empty r); simpl; auto.
  destruct (lookup (a_map s) (dkey r)); simpl; auto.
Qed.

Lemma scan_req_true l : forall s, a_req s = true -> a_req (fold_left scan_step l s) = true.
Proof. induction l as [|r t IH]; intros s H; simpl; auto. apply IH. now apply scan_step_req_true. Qed.

Lemma scan_req l : forall s abs,
  Inv s abs -> a_req (fold_left scan_step l s) = a_req s || dirty l abs.
Proof.
  induction l as [|r t IH]; intros s abs I; simpl.
  - now rewrite orb_false_r.
  - pose proof (scan_step_inv s abs r I) as I'.
    unfold scan_step in *. destruct (is_empty r) eqn:Ee; simpl in *.
    + rewrite scan_req_true; [now rewrite orb_true_r | reflexivity].
    + destruct (lookup (a_map s) (dkey r)) as [p|] eqn:El.
      * assert (H : has_key (dkey r) abs = true).
        { apply (inv_lookup_has s abs (dkey r) I). congruence. }
        rewrite H. rewrite scan_req_true; [now rewrite orb_true_r | reflexivity].
      * assert (H : has_key (dkey r) abs = false) by (now apply (inv_lookup_none s abs (dkey r) I)).
        rewrite H in *. rewrite (IH _ _ I'). reflexivity.
Qed.

Lemma dirty_false l : forall acc,
  dirty l acc = false ->
  Forall (fun d => nonempty d = true) l /\ NoDup (keys l) /\
  (forall k, In k (keys l) -> has_key k acc = false) /\ clean_acc l acc = acc ++ l.
Proof.
  induction l as [|r t IH]; intros acc H; simpl in *.
  - repeat split; auto; try constructor; try tauto. now rewrite app_nil_r.
  - destruct (is_empty r) eqn:Ee; simpl in *; [discriminate|].
    destruct (has_key (dkey r) acc) eqn:Eh; [discriminate|].
    destruct (IH _ H) as (F & N & K & C). repeat split.
    + constructor; auto. unfold nonempty. now rewrite Ee.
    + constructor; auto. intro Hin. specialize (K _ Hin).
      rewrite has_key_app in K. apply orb_false_iff in K as [_ K].
      unfold has_key in K. simpl in K. now rewrite N.eqb_refl in K.
    + intros k [<-|Hin]; auto. specialize (K _ Hin).
      rewrite has_key_app in K. now apply orb_false_iff in K as [K _].
    + rewrite C. now rewrite <- app_assoc.
Qed.

Lemma dirty_false_conv l : forall acc,
  Forall (fun d => nonempty d = true) l -> NoDup (keys l) ->
  (forall k, In k (keys l) -> has_key k acc = false) -> dirty l acc = false.
Proof.
  induction l as [|r t IH]; intros acc F N K; simpl in *; auto.
  inversion F as [|? ? Fr Ft]; subst. inversion N as [|? ? Nr Nt]; subst.
  unfold nonempty in Fr. apply negb_true_iff in Fr. rewrite Fr. simpl.
  rewrite (K (dkey r)) by auto. apply IH; auto.
  intros k Hin. rewrite has_key_app, (K k) by auto. simpl.
  unfold has_key. simpl. rewrite orb_false_r. apply N.eqb_neq. intro; subst. auto.
Qed.

(* ---------- second loop = spec_step ---------- *)

Definition changes_nonempty (cs : list change) : Prop :=
  Forall (fun c => dkey (cdesc c) <> 0) cs.

Lemma change_step_inv s abs c :
  dkey (cdesc c) <> 0 -> Inv s abs -> Inv (change_step s c) (spec_step abs c).
Proof.
  intros Hz I. destruct c as [d|d]; simpl in *.
  - destruct (lookup (a_map s) (dkey d)) as [p|] eqn:El.
    + assert (H : has_key (dkey d) abs = true).
      { apply (inv_lookup_has s abs (dkey d) I). congruence. }
      now rewrite H.
    + assert (H : has_key (dkey d) abs = false) by (now apply (inv_lookup_none s abs (dkey d) I)).
      rewrite H. now apply inv_append.
  - destruct (lookup (a_map s) (dkey d)) as [p|] eqn:El.
    + now apply inv_remove.
    + assert (H : has_key (dkey d) abs = false) by (now apply (inv_lookup_none s abs (dkey d) I)).
      rewrite filter_all_neq; auto.
      intros x Hin E. assert (has_key (dkey d) abs = true); [|congruence].
      apply has_key_In. unfold keys. rewrite in_map_iff. eauto.
Qed.

Lemma change_step_req s c : a_req (change_step s c) = a_req s.
Proof.
  destruct c as [d|d]; simpl; destruct (lookup (a_map s) (dkey d)); reflexivity.
Qed.

Lemma changes_inv cs : forall s abs,
  changes_nonempty cs -> Inv s abs ->
  Inv (fold_left change_step cs s) (fold_left spec_step cs abs) /\
  a_req (fold_left change_step cs s) = a_req s.
Proof.
  induction cs as [|c t IH]; intros s abs F I; simpl; auto.
  inversion F as [|? ? Fc Ft]; subst.
  destruct (IH (change_step s c) (spec_step abs c) Ft (change_step_inv s abs c Fc I)) as [I' R].
  split; auto. now rewrite R, change_step_req.
Qed.

(* ---------- specification-side facts ---------- *)

Lemma spec_step_has k l c :
  has_key k (spec_step l c) = member_step k (has_key k l) c.
Proof.
  destruct c as [d|d]; simpl.
  - destruct (has_key (dkey d) l) eqn:E.
    + destruct (dkey d =? k) eqn:Ek; auto. apply N.eqb_eq in Ek. now subst.
    + rewrite has_key_app. unfold has_key at 2. simpl. rewrite orb_false_r.
      destruct (dkey d =? k); [apply orb_true_r | apply orb_false_r].
  - induction l as [|h t IH]; simpl.
    + now destruct (dkey d =? k).
    + destruct (dkey h =? dkey d) eqn:E1; simpl.
      * apply N.eqb_eq in E1. rewrite IH. rewrite E1.
        unfold has_key. simpl. fold (has_key k t).
        destruct (dkey d =? k); reflexivity.
      * unfold has_key in *. simpl. rewrite IH.
        destruct (dkey d =? k) eqn:E2; [|reflexivity].
        apply N.eqb_eq in E2. subst k. rewrite E1. reflexivity.
Qed.

Lemma spec_fold_has k cs : forall l,
  has_key k (fold_left spec_step cs l) = member_after k (has_key k l) cs.
Proof.
  unfold member_after. induction cs as [|c t IH]; intro l; simpl; auto.
  now rewrite IH, spec_step_has.
Qed.

Definition wf (l : list desc) : Prop :=
  NoDup (keys l) /\ Forall (fun d => nonempty d = true) l.

Lemma keys_filter_incl (f : desc -> bool) l k : In k (keys (filter f l)) -> In k (keys l).
Proof.
  unfold keys. rewrite !in_map_iff. intros (d & E & H). apply filter_In in H. exists d. tauto.
Qed.

Lemma NoDup_keys_filter (f : desc -> bool) l : NoDup (keys l) -> NoDup (keys (filter f l)).
Proof.
  induction l as [|h t IH]; simpl; intro H; [constructor|].
  inversion H as [|? ? Hn Hd]; subst. destruct (f h); simpl; auto.
  constructor; auto. intro Hin. apply Hn. eapply keys_filter_incl; eauto.
Qed.

Lemma NoDup_app_one {A} (l : list A) x : NoDup l -> ~ In x l -> NoDup (l ++ [x]).
Proof.
  induction l as [|h t IH]; simpl; intros N H.
  - constructor; [simpl; tauto|constructor].
  - inversion N as [|? ? Hn Hd]; subst. constructor.
    + rewrite in_app_iff. simpl. intros [H1|[H1|[]]]; auto.
    + apply IH; auto.
Qed.

Lemma spec_step_wf l c : dkey (cdesc c) <> 0 -> wf l -> wf (spec_step l c).
Proof.
  intros Hz [N F]. destruct c as [d|d]; simpl in *.
  - destruct (has_key (dkey d) l) eqn:E; [split; auto|]. split.
    + unfold keys. rewrite map_app. simpl. apply NoDup_app_one; auto.
      intro Hin. apply has_key_In in Hin. congruence.
    + apply Forall_app. split; auto. constructor; auto. now apply nonempty_true.
  - split.
    + now apply NoDup_keys_filter.
    + apply Forall_forall. intros x Hx. apply filter_In in Hx as [Hx _].
      rewrite Forall_forall in F. auto.
Qed.

Lemma spec_fold_wf cs : forall l, changes_nonempty cs -> wf l -> wf (fold_left spec_step cs l).
Proof.
  induction cs as [|c t IH]; intros l F W; simpl; auto.
  inversion F; subst. apply IH; auto. now apply spec_step_wf.
Qed.

Lemma clean_acc_wf l : forall acc, wf acc -> wf (clean_acc l acc).
Proof.
  induction l as [|r t IH]; intros acc W; simpl; auto.
  destruct (is_empty r) eqn:Ee; simpl; auto.
  destruct (has_key (dkey r) acc) eqn:Eh; auto.
  apply IH. destruct W as [N F]. split.
  - unfold keys. rewrite map_app. simpl. apply NoDup_app_one; auto.
    intro Hin. apply has_key_In in Hin. congruence.
  - apply Forall_app. split; auto. constructor; auto. unfold nonempty. now rewrite Ee.
Qed.

Lemma clean_wf l : wf (clean l).
Proof. apply clean_acc_wf. split; constructor. Qed.

Lemma has_key_cons k r t : has_key k (r :: t) = (dkey r =? k) || has_key k t.
Proof. reflexivity. Qed.

Lemma has_key_nil k : has_key k [] = false.
Proof. reflexivity. Qed.

Lemma clean_acc_has k l : forall acc,
  has_key k (clean_acc l acc) = has_key k acc || (negb (k =? 0) && has_key k l).
Proof.
  induction l as [|r t IH]; intro acc; cbn [clean_acc].
  - rewrite has_key_nil. now rewrite andb_false_r, orb_false_r.
  - rewrite has_key_cons.
    destruct (is_empty r) eqn:Ee; cbn [orb].
    + rewrite IH. unfold is_empty in Ee. apply N.eqb_eq in Ee.
      destruct (dkey r =? k) eqn:E; cbn [orb]; auto.
      apply N.eqb_eq in E. rewrite <- E, Ee. reflexivity.
    + unfold is_empty in Ee. apply N.eqb_neq in Ee.
      destruct (has_key (dkey r) acc) eqn:Eh.
      * rewrite IH. destruct (dkey r =? k) eqn:E; cbn [orb]; auto.
        apply N.eqb_eq in E. subst k. rewrite Eh. reflexivity.
      * rewrite IH, has_key_app, has_key_cons, has_key_nil, orb_false_r.
        destruct (dkey r =? k) eqn:E; cbn [orb].
        -- apply N.eqb_eq in E. subst k. apply N.eqb_neq in Ee. rewrite Ee. cbn [negb andb].
           now rewrite !orb_true_r.
        -- now rewrite orb_false_r.
Qed.

Lemma clean_has k l : has_key k (clean l) = negb (k =? 0) && has_key k l.
Proof. unfold clean. now rewrite clean_acc_has. Qed.

(* ---------- main results ---------- *)

Lemma apply_final old cs :
  changes_nonempty cs ->
  let s2 := fold_left change_step cs (fold_left scan_step old (mkA [] [] false)) in
  Inv s2 (spec_apply old cs) /\ a_req s2 = dirty old [].
Proof.
  intros F s2. pose proof (scan_inv old _ _ inv_init) as I1.
  destruct (changes_inv cs _ _ F I1) as [I2 R]. split; [exact I2|].
  unfold s2. rewrite R. now rewrite (scan_req old _ _ inv_init).
Qed.

Lemma apply_updated_spec old cs l :
  changes_nonempty cs -> apply_changes old cs = Updated l -> l = spec_apply old cs.
Proof.
  intros F H. destruct (apply_final old cs F) as [I R]. unfold apply_changes in H.
  set (s2 := fold_left change_step cs (fold_left scan_step old (mkA [] [] false))) in *.
  assert (E : remove_empty (a_upd s2) (length (a_map s2)) = spec_apply old cs).
  { rewrite remove_empty_spec; [apply (inv_abs _ _ I)|].
    rewrite (inv_abs _ _ I), (inv_len _ _ I). lia. }
  destruct (negb (a_req s2) && Nat.eqb (length (a_map s2)) (length old)).
  - destruct (forallb _ old); [discriminate|]. injection H as <-. exact E.
  - injection H as <-. exact E.
Qed.

Lemma apply_noupdate_iff old cs :
  changes_nonempty cs ->
  (apply_changes old cs = NoUpdate <->
   wf old /\ forall k, In k (keys old) <-> In k (keys (spec_apply old cs))).
Proof.
  intros F. destruct (apply_final old cs F) as [I R]. unfold apply_changes.
  set (s2 := fold_left change_step cs (fold_left scan_step old (mkA [] [] false))) in *.
  assert (Wn : wf (spec_apply old cs)) by (apply spec_fold_wf; auto; apply clean_wf).
  assert (Hall : forallb (fun r => match lookup (a_map s2) (dkey r) with Some _ => true | None => false end) old = true
                 <-> forall k, In k (keys old) -> In k (keys (spec_apply old cs))).
  { rewrite forallb_forall. split.
    - intros H k Hin. unfold keys in Hin. rewrite in_map_iff in Hin. destruct Hin as (d & <- & Hd).
      specialize (H d Hd). apply has_key_In. apply (inv_lookup_has _ _ (dkey d) I).
      destruct (lookup (a_map s2) (dkey d)); congruence.
    - intros H d Hd. assert (Hin : In (dkey d) (keys old)) by (unfold keys; now apply in_map).
      apply H, has_key_In in Hin. apply (inv_lookup_has _ _ (dkey d) I) in Hin.
      destruct (lookup (a_map s2) (dkey d)); congruence. }
  rewrite R, (inv_len _ _ I). split.
  - intro H. destruct (dirty old []) eqn:Ed; simpl in H; [discriminate|].
    destruct (Nat.eqb (length (spec_apply old cs)) (length old)) eqn:El; [|discriminate].
    destruct (forallb _ old) eqn:Ef; [|discriminate].
    apply Nat.eqb_eq in El. destruct (dirty_false _ _ Ed) as (Fo & No & _ & _).
    split; [split; auto|]. intro k. split; [now apply Hall|].
    apply (NoDup_length_incl No).
    + unfold keys. rewrite !map_length. lia.
    + intros x. now apply Hall.
  - intros [[No Fo] Hk].
    rewrite (dirty_false_conv old [] Fo No) by reflexivity. simpl.
    assert (El : length (spec_apply old cs) = length old).
    { destruct Wn as [Nn _]. apply Nat.le_antisymm.
      - rewrite <- (map_length dkey (spec_apply old cs)), <- (map_length dkey old).
        apply NoDup_incl_length; auto. intros x Hx. now apply Hk.
      - rewrite <- (map_length dkey (spec_apply old cs)), <- (map_length dkey old).
        apply NoDup_incl_length; auto. intros x Hx. now apply Hk. }
    rewrite El, Nat.eqb_refl.
    assert (Ef : forallb (fun r => match lookup (a_map s2) (dkey r) with Some _ => true | None => false end) old = true).
    { apply Hall. intros k Hin. now apply Hk. }
    now rewrite Ef.
Qed.

Lemma spec_apply_member old cs k :
  In k (keys (spec_apply old cs)) <->
  member_after k (negb (k =? 0) && has_key k old) cs = true.
Proof.
  rewrite <- has_key_In. unfold spec_apply. now rewrite spec_fold_has, clean_has.
Qed.

Lemma spec_apply_wf old cs : changes_nonempty cs -> wf (spec_apply old cs).
Proof. intro F. apply spec_fold_wf; auto. apply clean_wf. Qed.

(* survivors keep their relative order: the result is the sub-sequence of the
   cleaned old list that is never removed, followed by additions *)
Lemma spec_step_survivors l c k1 k2 :
  (forall d, c = Remove d -> dkey d <> k1 /\ dkey d <> k2) ->
  forall l1 l2 l3 a b, l = l1 ++ a :: l2 ++ b :: l3 -> dkey a = k1 -> dkey b = k2 ->
  exists m1 m2 m3, spec_step l c = m1 ++ a :: m2 ++ b :: m3.
Proof.
  intros Hc l1 l2 l3 a b -> Ha Hb. destruct c as [d|d]; simpl.
  - destruct (has_key _ _).
    + eauto.
    + exists l1, l2, (l3 ++ [d]). rewrite <- !app_assoc. simpl. rewrite <- app_assoc. reflexivity.
  - destruct (Hc d eq_refl) as [H1 H2].
    set (f := fun x => negb (dkey x =? dkey d)).
    exists (filter f l1), (filter f l2), (filter f l3).
    rewrite filter_app. simpl. rewrite filter_app. simpl. unfold f at 2 4.
    rewrite Ha, Hb.
    assert (E1 : (k1 =? dkey d) = false) by (apply N.eqb_neq; congruence).
    assert (E2 : (k2 =? dkey d) = false) by (apply N.eqb_neq; congruence).
    now rewrite E1, E2.
Qed.

Lemma apply_set_semantics old cs l :
  changes_nonempty cs -> apply_changes old cs = Updated l ->
  l = spec_apply old cs /\
  (NoDup (keys l) /\ Forall (fun d => nonempty d = true) l) /\
  (forall k, In k (keys l) <-> member_after k (negb (k =? 0) && has_key k old) cs = true).
Proof.
  intros F H. pose proof (apply_updated_spec old cs l F H) as E. subst l.
  split; [reflexivity|]. split; [exact (spec_apply_wf old cs F)|exact (spec_apply_member old cs)].
Qed.

Lemma referrer_art_api k art cfg : referrer_art k art cfg = api_art k art cfg.
Proof.
  unfold referrer_art, api_art.
  destruct k; cbv [kind_num table_fallback GC14.referrer_art_table]; simpl;
    destruct (art =? 0) eqn:E; simpl; auto; apply N.eqb_eq in E; congruence.
Qed.

(* every entry of the result is an entry of the old index or the descriptor of an
   Add change, unchanged (artifact type and annotations travel with it) *)
Lemma spec_fold_origin d cs : forall l,
  In d (fold_left spec_step cs l) -> In d l \/ In (Add d) cs.
Proof.
  induction cs as [|c t IH]; intros l H; simpl in *; auto.
  destruct (IH _ H) as [H1|H1]; [|auto].
  destruct c as [x|x]; simpl in H1.
  - destruct (has_key (dkey x) l); auto. apply in_app_iff in H1 as [H1|[<-|[]]]; auto.
  - apply filter_In in H1. tauto.
Qed.

Lemma clean_acc_incl d l : forall acc, In d (clean_acc l acc) -> In d acc \/ In d l.
Proof.
  induction l as [|r t IH]; intros acc H; simpl in *; auto.
  destruct (is_empty r || has_key (dkey r) acc).
  - destruct (IH _ H); auto.
  - destruct (IH _ H) as [H1|H1]; auto. apply in_app_iff in H1 as [H1|[<-|[]]]; auto.
Qed.

Lemma spec_apply_origin d old cs : In d (spec_apply old cs) -> In d old \/ In (Add d) cs.
Proof.
  intro H. apply spec_fold_origin in H as [H|H]; auto.
  apply clean_acc_incl in H as [[]|H]. auto.
Qed.

(* ---------- listing by tag schema ---------- *)

Lemma changes_nonempty_nil : changes_nonempty [].
Proof. constructor. Qed.

Lemma cleaned_listing x :
  let c := match apply_changes x [] with Updated c => c | NoUpdate => x end in
  wf c /\ forall k, In k (keys c) <-> (negb (k =? 0) && has_key k x) = true.
Proof.
  simpl. destruct (apply_changes x []) as [|c] eqn:E.
  - apply (apply_noupdate_iff x [] changes_nonempty_nil) in E as [W _]. split; auto.
    intro k. rewrite <- has_key_In. destruct W as [_ F]. split.
    + intro H. rewrite H, andb_true_r. apply negb_true_iff, N.eqb_neq. intro; subst k.
      apply has_key_In in H. unfold keys in H. apply in_map_iff in H as (d & Ed & Hd).
      rewrite Forall_forall in F. apply F in Hd. apply nonempty_true in Hd. congruence.
    + intro H. now apply andb_true_iff in H as [_ H].
  - destruct (apply_set_semantics x [] c changes_nonempty_nil E) as (_ & W & M). split; auto.
Qed.

Lemma filter_referrers_keys_nodup l art : NoDup (keys l) -> NoDup (keys (filter_referrers l art)).
Proof.
  unfold filter_referrers. destruct (art =? 0); auto. apply NoDup_keys_filter.
Qed.

Lemma list_referrers_spec r art :
  NoDup (keys (list_referrers r art)) /\
  Forall (fun d => nonempty d = true) (list_referrers r art) /\
  (forall d, In d (list_referrers r art) -> art = 0 \/ dart d = art) /\
  (forall k, In k (keys (list_referrers r 0)) <->
             (negb (k =? 0) && has_key k (match r with Some x => x | None => [] end)) = true).
Proof.
  unfold list_referrers. set (x := match r with Some x => x | None => [] end).
  destruct (cleaned_listing x) as [[N F] M]. simpl in M.
  set (c := match apply_changes x [] with Updated c => c | NoUpdate => x end) in *.
  repeat split.
  - now apply filter_referrers_keys_nodup.
  - apply Forall_forall. intros d Hd. apply filter_referrers_spec in Hd as [Hd _].
    rewrite Forall_forall in F. auto.
  - intros d Hd. now apply filter_referrers_spec in Hd as [_ Hd].
  - unfold filter_referrers. simpl. apply M.
  - unfold filter_referrers. simpl. apply M.
Qed.
