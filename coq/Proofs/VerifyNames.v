(* file.Store by NAMES: resolveWritePath (lexical filepath.Clean + traversal check) is
   part of the model; histories in which no name resolves to the path of another name
   in use satisfy the full property. *)
From Oras Require Import Base.Prelude Generated.GC05 Model.Verify Proofs.Verify.
From Coq Require Import Lia.

Section Names.
  Variable H : str -> str -> str.

  (* every path that serves content belongs to a name in use *)
  Definition d2p_named (s : fstore) : Prop :=
    forall dg p, assoc_get (f_d2p s) dg = Some p ->
                 exists n, name_in n (f_names s) = true /\ resolve_name n = Some p.

  Lemma name_in_cons n x l : name_in n (x :: l) = str_eqb n x || name_in n l.
  Proof. reflexivity. Qed.

  Lemma no_alias_path_free s name path :
    d2p_named s -> no_alias s name -> name_in name (f_names s) = false ->
    resolve_name name = Some path -> path_free s path.
  Proof.
    intros Dn Na Nin Rn dg p Gp. destruct (Dn _ _ Gp) as (n & In & Rp).
    destruct (str_eqb path p) eqn:E; auto. apply str_eqb_spec in E. subst p.
    assert (n = name) by (apply Na; auto; congruence). subst n. congruence.
  Qed.

  Lemma file_push_d2p_named comb fuel s name path d evs e s' :
    d2p_named s -> (name <> [] -> resolve_name name = Some path) ->
    file_push H comb true fuel s name path d evs = (e, s') -> d2p_named s'.
  Proof.
    intros Dn Rn. unfold file_push. destruct name as [|c n0].
    - destruct (limited_push _ _ _ _ _) as [e0 fb']. intro E; inversion E; subst. exact Dn.
    - assert (Rp : resolve_name (c :: n0) = Some path) by (apply Rn; discriminate).
      destruct (name_in (c :: n0) (f_names s)); [intro E; inversion E; subst; exact Dn|].
      destruct (copy_buffer H comb true fuel (mkBase evs None) file_bufsz (d_dg d) (d_sz d)) as [[[e0|] out] v];
        intro E; inversion E; subst; clear E.
      + exact Dn.
      + intros dg p. cbn [f_d2p f_names]. rewrite assoc_get_set. destruct (str_eqb (d_dg d) dg).
        * intro X; inversion X; subst. exists (c :: n0). rewrite name_in_cons, str_eqb_refl. auto.
        * intro Gp. destruct (Dn _ _ Gp) as (n & In & Rq). exists n. rewrite name_in_cons, In, orb_true_r. auto.
  Qed.

  Lemma file_push_name_cases comb fuel s name d evs e s' :
    file_push_name H comb true fuel s name d evs = (e, s') ->
    (name = [] /\ file_push H comb true fuel s [] [] d evs = (e, s')) \/
    (name <> [] /\ e <> None /\ s' = s /\ (e = Some EDupName \/ (e = Some ETraversal /\ resolve_name name = None))) \/
    (name <> [] /\ name_in name (f_names s) = false /\
     exists path, resolve_name name = Some path /\ file_push H comb true fuel s name path d evs = (e, s')).
  Proof.
    unfold file_push_name. destruct name as [|c n0]; [intro E; left; auto|].
    destruct (name_in (c :: n0) (f_names s)) eqn:Nin.
    - intro E; inversion E; subst. right; left. repeat split; auto; discriminate.
    - destruct (resolve_name (c :: n0)) as [path|] eqn:Rn.
      + intro E. right; right. split; [discriminate|]. split; auto. exists path. auto.
      + intro E; inversion E; subst. right; left. repeat split; auto; discriminate.
  Qed.

  Lemma file_reach_names_ok s : file_reach_names H s -> file_reach H s /\ d2p_named s.
  Proof.
    induction 1 as [|comb fuel s name d evs e s' R [IH1 IH2] Na E].
    - split; [constructor|]. intros dg p; discriminate.
    - apply file_push_name_cases in E as [(-> & E)|[(Nn & _ & -> & _)|(Nn & Nin & path & Rn & E)]].
      + split.
        * eapply file_reach_push; [exact IH1| |exact E]. intro X; congruence.
        * eapply file_push_d2p_named; [exact IH2| |exact E]. intro X; congruence.
      + auto.
      + split.
        * eapply file_reach_push; [exact IH1| |exact E]. intros _.
          eapply no_alias_path_free; eauto.
        * eapply file_push_d2p_named; [exact IH2| |exact E]. auto.
  Qed.

  (* the full statement for the file store, by names *)
  Theorem file_push_name_spec comb fuel s name d evs e s' :
    file_reach_names H s -> no_alias s name ->
    file_push_name H comb true fuel s name d evs = (e, s') ->
    (e = None ->
       exists bs, file_fetch s' name d = Some bs /\ file_exists s' name d = true /\
                  d_dg d = digest_of H (alg_of (d_dg d)) bs /\ valid_digest (d_dg d) = true /\
                  ((name <> [] \/ assoc_get (f_d2p s) (d_dg d) = None) ->
                   matches_desc H (d_dg d) (d_sz d) bs /\ exists rest, stream evs = bs ++ rest)) /\
    (e <> None -> forall name' d', file_exists s' name' d' = file_exists s name' d' /\
                                   file_fetch s' name' d' = file_fetch s name' d').
  Proof.
    intros R Na E. destruct (file_reach_names_ok s R) as [Rs Dn].
    apply file_push_name_cases in E as [(-> & E)|[(Nn & Ne & -> & _)|(Nn & Nin & path & Rn & E)]].
    - refine (proj2 (file_push_spec H comb fuel s [] [] d evs e s' (file_reach_ok H s Rs) _ E)). intro X; congruence.
    - split; [intro X; congruence|]. auto.
    - refine (proj2 (file_push_spec H comb fuel s name path d evs e s' (file_reach_ok H s Rs) _ E)).
      intros _. eapply no_alias_path_free; eauto.
  Qed.

  Theorem file_names_visible_matches s name d bs :
    file_reach_names H s -> file_fetch s name d = Some bs ->
    d_dg d = digest_of H (alg_of (d_dg d)) bs /\ valid_digest (d_dg d) = true.
  Proof.
    intros R. apply file_fetch_ok. apply file_reach_ok. apply file_reach_names_ok. exact R.
  Qed.

  (* a name that leaves the working directory (or is absolute) is refused, nothing changes *)
  Theorem file_push_traversal comb fuel s name d evs :
    name <> [] -> name_in name (f_names s) = false -> resolve_name name = None ->
    file_push_name H comb true fuel s name d evs = (Some ETraversal, s).
  Proof.
    intros Nn Nin Rn. unfold file_push_name. destruct name as [|c n0]; [congruence|].
    rewrite Nin, Rn. reflexivity.
  Qed.
End Names.

Example resolve_examples :
  (resolve_name (b "./a"), resolve_name (b "x/../a"), resolve_name (b "sub/./f"), resolve_name (b "a//b/"),
   resolve_name (b "../x"), resolve_name (b "a/../../x"), resolve_name (b "/etc/x"), resolve_name (b "a/.."))
  = (Some (b "a"), Some (b "a"), Some (b "sub/f"), Some (b "a/b"), None, None, None, Some (b ".")).
Proof. vm_compute. reflexivity. Qed.
