(* cas.Proxy: the cache only ever holds verified content; what Fetch hands out are
   the base's (or the cached) bytes; a failed push never populates the cache. *)
From Oras Require Import Base.Prelude Generated.GC05 Model.Verify Proofs.Verify.
From Coq Require Import Lia ZArith.

Local Open Scope nat_scope.

Section ProxyProofs.
  Variable H : str -> str -> str.

  Lemma stream_map_data ws : stream (map Data ws) = concat ws.
  Proof. induction ws as [|w r IH]; simpl; congruence. Qed.

  Lemma neof_map_data ws : neof (map Data ws) = 0.
  Proof. induction ws; simpl; auto. Qed.

  Lemma concat_writes_of rs : concat (writes_of rs) = concat (map fst rs).
  Proof.
    unfold writes_of. induction rs as [|[bs e] r IH]; simpl; auto.
    destruct bs; simpl; congruence.
  Qed.

  Lemma rc_reads_prefix comb ks : forall evs,
    exists rest, stream evs = concat (map fst (rc_reads comb evs ks)) ++ rest.
  Proof.
    induction ks as [|k r IH]; intro evs; simpl.
    - exists (stream evs). reflexivity.
    - destruct (script_read comb evs k) as [[bs e] evs'] eqn:E.
      apply script_read_spec in E as (A & _). destruct (IH evs') as (rest & B).
      exists rest. simpl. rewrite A, B, app_assoc. reflexivity.
  Qed.

  Lemma tee_results_dead pe c rs : forall off, c <= off ->
    concat (map fst (tee_results (Some pe) c off rs)) = [].
  Proof.
    induction rs as [|[bs e] r IH]; intros off L; simpl; auto.
    destruct bs as [|x bs']; simpl.
    - apply IH; auto.
    - destruct (off + S (length bs') <=? c) eqn:Q; [apply Nat.leb_le in Q; lia|].
      simpl. replace (c - off) with 0 by lia. simpl. apply IH. lia.
  Qed.

  Lemma tee_results_prefix pe c rs : forall off,
    exists rest, concat (map fst rs) = concat (map fst (tee_results pe c off rs)) ++ rest.
  Proof.
    induction rs as [|[bs e] r IH]; intro off; simpl.
    - exists []. reflexivity.
    - destruct bs as [|x bs']; simpl.
      + apply IH.
      + destruct pe as [pe|].
        * destruct (off + S (length bs') <=? c) eqn:Q.
          -- destruct (IH (off + S (length bs'))) as (rest & B). exists rest. simpl. rewrite B, app_assoc. reflexivity.
          -- apply Nat.leb_gt in Q. simpl.
             rewrite (tee_results_dead pe c r (off + S (length bs'))) by lia. rewrite app_nil_r.
             exists (skipn (c - off) (x :: bs') ++ concat (map fst r)).
             rewrite app_assoc, firstn_skipn. reflexivity.
        * destruct (IH (off + S (length bs'))) as (rest & B). exists rest. simpl. rewrite B, app_assoc. reflexivity.
  Qed.

  Lemma cache_push_spec limit m d ws e m' c :
    cache_push H limit m d ws = ((e, m'), c) ->
    (e = None /\ mem_get m d = None /\
     exists buf, m' = (d, buf) :: m /\ matches_desc H (d_dg d) (d_sz d) buf /\
                 (exists rest, concat ws = buf ++ rest) /\ (limit = None -> concat ws = buf))
    \/ (e <> None /\ m' = m).
  Proof.
    unfold cache_push.
    set (fuel := S (S (S (ev_weight (map Data ws))))).
    assert (Inner : forall lim,
      (match mem_get m d with
       | Some _ => ((Some EExists, m), 0)
       | None =>
           let '((e0, buf), v) := read_all H false true fuel (mkBase (map Data ws) lim) (d_dg d) (d_sz d) in
           let c0 := length (stream (map Data ws)) - length (stream (b_evs (v_base v))) in
           match e0 with Some e1 => ((Some e1, m), c0) | None => ((None, (d, buf) :: m), c0) end
       end) = ((e, m'), c) ->
      (e = None /\ mem_get m d = None /\
       exists buf, m' = (d, buf) :: m /\ matches_desc H (d_dg d) (d_sz d) buf /\
                   (exists rest, concat ws = buf ++ rest) /\ (lim = None -> concat ws = buf))
      \/ (e <> None /\ m' = m)).
    { intro lim. destruct (mem_get m d) eqn:G.
      - intro E; inversion E; subst. right. split; [discriminate|reflexivity].
      - destruct (read_all H false true fuel (mkBase (map Data ws) lim) (d_dg d) (d_sz d)) as [[[e0|] buf] v] eqn:Er;
          intro E; inversion E; subst.
        + right. split; [discriminate|reflexivity].
        + left. apply read_all_sound in Er as (A & B & C). simpl in B, C. rewrite stream_map_data in B, C.
          split; auto. split; auto. exists buf. repeat split; auto; try apply A.
          intro L. apply C; auto. apply neof_map_data. }
    destruct limit as [l|].
    - destruct (d_sz d >? l)%Z.
      + intro E; inversion E; subst. right. split; [discriminate|reflexivity].
      + intro E. apply Inner in E as [(A & B & buf & C & D & F & _)|X]; auto.
        left. split; auto. split; auto. exists buf. repeat split; auto; try apply D. discriminate.
    - apply Inner.
  Qed.

  (* the theorem of the caching wrapper *)
  Theorem proxy_fetch_spec limit stop m d comb evs ks rs ce m' :
    mem_ok H m -> proxy_fetch H limit stop m d comb evs ks = ((rs, ce), m') ->
    mem_ok H m' /\
    match mem_get m d with
    | Some bs =>            (* served from the cache: verified bytes, cache untouched *)
        matches_desc H (d_dg d) (d_sz d) bs /\ m' = m /\ ce = None /\
        exists rest, bs = concat (map fst rs) ++ rest
    | None =>               (* served from the base store *)
        (exists rest, stream evs = concat (map fst rs) ++ rest) /\
        (stop = true -> m' = m /\ ce = None) /\
        (ce <> None -> m' = m) /\
        (m' = m \/
         exists buf, m' = (d, buf) :: m /\ ce = None /\ matches_desc H (d_dg d) (d_sz d) buf /\
                     (exists rest, stream evs = buf ++ rest) /\
                     (limit = None -> buf = concat (map fst rs)))
    end.
  Proof.
    intros Ok. unfold proxy_fetch. destruct (mem_get m d) as [bs|] eqn:G.
    - intro E; inversion E; subst. split; auto. split; [apply Ok; exact G|]. split; auto. split; auto.
      destruct (rc_reads_prefix false ks (serve_script bs)) as (rest & B).
      exists rest. rewrite <- B. unfold serve_script. destruct bs; simpl; auto. rewrite app_nil_r. reflexivity.
    - destruct stop.
      + intro E; inversion E; subst. split; auto. split; [apply rc_reads_prefix|].
        split; auto.
      + destruct (cache_push H limit m d (writes_of (rc_reads comb evs ks))) as [[pe m1] c] eqn:Ec.
        intro E; inversion E; subst.
        destruct (rc_reads_prefix comb ks evs) as (rest0 & B0).
        destruct (tee_results_prefix ce c (rc_reads comb evs ks) 0) as (rest1 & B1).
        apply cache_push_spec in Ec as [(-> & _ & buf & -> & A & (rest2 & B2) & B3)|(Ne & ->)].
        * split.
          { intros d' bs'. rewrite mem_get_cons. destruct (desc_eqb d d') eqn:Q.
            - apply desc_eqb_spec in Q. subst d'. intro X; inversion X; subst. exact A.
            - apply Ok. }
          split; [exists (rest1 ++ rest0); rewrite app_assoc, <- B1; exact B0|].
          split; [discriminate|]. split; [congruence|].
          right. exists buf. split; auto. split; auto. split; auto. split.
          -- rewrite concat_writes_of in B2. exists (rest2 ++ rest0). rewrite B0, B2, app_assoc. reflexivity.
          -- intro L. specialize (B3 L). rewrite concat_writes_of in B3. rewrite <- B3.
             (* nothing was truncated: the push succeeded *)
             clear. generalize 0 as off. induction (rc_reads comb evs ks) as [|[bs e] r IH]; intro off; simpl; auto.
             destruct bs; simpl; [apply IH|]. f_equal. f_equal. apply IH.
        * split; auto. split; [exists (rest1 ++ rest0); rewrite app_assoc, <- B1; exact B0|].
          split; [discriminate|]. split; auto.
  Qed.

  (* over all fetch histories: whatever the cache holds matches its descriptor, and a
     fetch served from it hands out (a prefix of) matching bytes *)
  Theorem proxy_reach_ok m : proxy_reach H m -> mem_ok H m.
  Proof.
    induction 1 as [|limit stop m d comb evs ks rs ce m' R IH E].
    - intros d bs; discriminate.
    - exact (proj1 (proxy_fetch_spec limit stop m d comb evs ks rs ce m' IH E)).
  Qed.

  Theorem proxy_history_hit limit stop m d comb evs ks rs ce m' bs :
    proxy_reach H m -> mem_get m d = Some bs ->
    proxy_fetch H limit stop m d comb evs ks = ((rs, ce), m') ->
    matches_desc H (d_dg d) (d_sz d) bs /\ m' = m /\ ce = None /\
    exists rest, bs = concat (map fst rs) ++ rest.
  Proof.
    intros R G E. pose proof (proxy_fetch_spec limit stop m d comb evs ks rs ce m' (proxy_reach_ok m R) E) as [_ S].
    rewrite G in S. exact S.
  Qed.
End ProxyProofs.
