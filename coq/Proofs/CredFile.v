(* C18 -- lemmas about the credentials FileStore model (Model/CredFile.v). *)
From Coq Require Import Permutation.
From Oras Require Import Base.Prelude Generated.GC18 Model.Utf8 Model.CredFile.

(* ---------- str_eqb ---------- *)
Lemma str_eqb_false x y : str_eqb x y = false <-> x <> y.
Proof.
  split.
  - intros H E. apply str_eqb_spec in E. congruence.
  - intro H. destruct (str_eqb x y) eqn:E; [|reflexivity]. apply str_eqb_spec in E. contradiction.
Qed.

Lemma str_eqb_sym x y : str_eqb x y = str_eqb y x.
Proof.
  destruct (str_eqb x y) eqn:E.
  - apply str_eqb_spec in E. subst. symmetry. apply str_eqb_refl.
  - symmetry. apply str_eqb_false. apply str_eqb_false in E. congruence.
Qed.

(* ---------- association lists ---------- *)
Section AssocLemmas.
  Context {V : Type}.
  Implicit Types (l : list (str * V)).

  Lemma lookup_del_eq k l : lookup k (del k l) = None.
  Proof.
    induction l as [|[k' v] l IH]; simpl; [reflexivity|].
    destruct (str_eqb k k') eqn:E; simpl; [exact IH|]. rewrite E. exact IH.
  Qed.

  Lemma lookup_del_neq k k' l : k <> k' -> lookup k' (del k l) = lookup k' l.
  Proof.
    intro N. induction l as [|[k2 v] l IH]; simpl; [reflexivity|].
    destruct (str_eqb k k2) eqn:E; simpl.
    - apply str_eqb_spec in E. subst k2.
      assert (F : str_eqb k' k = false) by (apply str_eqb_false; congruence).
      rewrite F. exact IH.
    - destruct (str_eqb k' k2); [reflexivity|exact IH].
  Qed.

  Lemma lookup_set_eq k v l : lookup k (set k v l) = Some v.
  Proof. unfold set. simpl. now rewrite str_eqb_refl. Qed.

  Lemma lookup_set_neq k k' v l : k <> k' -> lookup k' (set k v l) = lookup k' l.
  Proof.
    intro N. unfold set. simpl.
    assert (F : str_eqb k' k = false) by (apply str_eqb_false; congruence).
    rewrite F. now apply lookup_del_neq.
  Qed.

  Lemma lookup_in k v l : lookup k l = Some v -> In (k, v) l.
  Proof.
    induction l as [|[k' v'] l IH]; simpl; [discriminate|].
    destruct (str_eqb k k') eqn:E.
    - intro H. injection H as ->. apply str_eqb_spec in E. subst. now left.
    - intro H. right. now apply IH.
  Qed.

  Lemma lookup_none_notin k l : lookup k l = None -> forall v, ~ In (k, v) l.
  Proof.
    induction l as [|[k' v'] l IH]; simpl; intros H v; [tauto|].
    destruct (str_eqb k k') eqn:E; [discriminate|].
    intros [X|X].
    - injection X as -> ->. rewrite str_eqb_refl in E. discriminate.
    - exact (IH H v X).
  Qed.

  Lemma in_del k k' v l : In (k', v) (del k l) <-> k <> k' /\ In (k', v) l.
  Proof.
    unfold del. rewrite filter_In. simpl. rewrite negb_true_iff, str_eqb_false. tauto.
  Qed.
End AssocLemmas.

Section AssocPerm.
  Context {V : Type}.
  Implicit Types (l : list (str * V)).

  Lemma in_lookup k v l : NoDup (map fst l) -> In (k, v) l -> lookup k l = Some v.
  Proof.
    induction l as [|[k' v'] l IH]; simpl; intros ND I; [contradiction|].
    inversion ND as [|? ? NI ND']; subst.
    destruct I as [E|I].
    - injection E as -> ->. now rewrite str_eqb_refl.
    - destruct (str_eqb k k') eqn:E; [|now apply IH].
      apply str_eqb_spec in E. subst k'. elim NI. apply in_map_iff. now exists (k, v).
  Qed.

  Lemma notin_lookup k l : (forall v, ~ In (k, v) l) -> lookup k l = None.
  Proof.
    intro H. destruct (lookup k l) eqn:E; [|reflexivity]. apply lookup_in in E. elim (H _ E).
  Qed.

  Lemma lookup_perm k l l' : NoDup (map fst l) -> Permutation l l' -> lookup k l' = lookup k l.
  Proof.
    intros ND P.
    assert (ND' : NoDup (map fst l')) by (eapply Permutation_NoDup; [apply Permutation_map; exact P|exact ND]).
    destruct (lookup k l) eqn:E.
    - apply lookup_in in E. apply in_lookup; [exact ND'|]. eapply Permutation_in; eauto.
    - apply notin_lookup. intros v I. apply (lookup_none_notin _ _ E v).
      eapply Permutation_in; [apply Permutation_sym; exact P|exact I].
  Qed.

  Lemma filter_perm (f : str * V -> bool) l l' : Permutation l l' -> Permutation (filter f l) (filter f l').
  Proof.
    induction 1; simpl.
    - constructor.
    - destruct (f x); [now constructor|assumption].
    - destruct (f x), (f y); try apply Permutation_refl. apply perm_swap.
    - eapply perm_trans; eauto.
  Qed.
End AssocPerm.

(* ----- the regenerated tables say what this development assumes about the code ----- *)
Lemma put_guards_order :
  fileStorePut_guards = [b "DisablePut"; b "call:validateCredentialFormat"; b "utf8:serverAddress"].
Proof. reflexivity. Qed.

Lemma put_accepts_spec a c :
  put_accepts a c =
  negb (contains colon (c_user c)) && valid_utf8 a && valid_utf8 (c_refresh c) && valid_utf8 (c_access c).
Proof.
  destruct c as [u p r t].
  cbv - [contains valid_utf8].
  destruct (contains 58 u), (valid_utf8 a), (valid_utf8 r), (valid_utf8 t); reflexivity.
Qed.

(* the order of the effects the models assume, as it stands in the source (kind callseq):
   saveFile = MkdirAll, Ingest, [deferred Remove], Rename; Ingest = CreateTemp, [deferred
   Close, Remove], Chmod, Copy; every operation takes its lock first, releases it by a
   deferred call, and a writer saves inside it *)
Lemma call_orders :
  calls_saveFile = [b "os.MkdirAll"; b "ioutil.Ingest"; b "os.Remove"; b "os.Rename"] /\
  calls_Ingest = [b "os.CreateTemp"; b "tempFile.Close"; b "os.Remove"; b "tempFile.Chmod"; b "io.Copy"] /\
  calls_PutCredential = [b "cfg.rwLock.Lock"; b "cfg.rwLock.Unlock"; b "json.Marshal"; b "cfg.saveFile"] /\
  calls_DeleteCredential = [b "cfg.rwLock.Lock"; b "cfg.rwLock.Unlock"; b "cfg.saveFile"] /\
  calls_SetCredentialsStore = [b "cfg.rwLock.Lock"; b "cfg.rwLock.Unlock"; b "cfg.saveFile"] /\
  calls_GetCredential = [b "cfg.rwLock.RLock"; b "cfg.rwLock.RUnlock"; b "json.Unmarshal"] /\
  calls_IsAuthConfigured = [b "cfg.rwLock.RLock"; b "cfg.rwLock.RUnlock"] /\
  calls_getHelperSuffix = [b "ds.config.GetCredentialHelper"; b "ds.config.CredentialsStore"].
Proof. repeat split; reflexivity. Qed.

Lemma to_hostname_spec addr :
  to_hostname addr = cut_before slash (trim_prefix (b "https://") (trim_prefix (b "http://") addr)).
Proof. reflexivity. Qed.

Lemma auths_neq_cs : configFieldAuths <> configFieldCredentialsStore.
Proof. intro H. apply str_eqb_spec in H. vm_compute in H. discriminate. Qed.
Lemma auths_neq_helpers : configFieldAuths <> configFieldCredentialHelpers.
Proof. intro H. apply str_eqb_spec in H. vm_compute in H. discriminate. Qed.
Lemma cs_neq_helpers : configFieldCredentialsStore <> configFieldCredentialHelpers.
Proof. intro H. apply str_eqb_spec in H. vm_compute in H. discriminate. Qed.

(* ---------- what the theorems talk about ---------- *)

(* the operation (re)writes or removes the entry keyed [a] *)
Definition writes (a : str) (o : op) : Prop :=
  match o with
  | Get _ => False
  | Put a' _ => a' = a
  | Delete a' => a' = a
  | SetCs _ => False
  end.

Definition is_setcs (o : op) : Prop := match o with SetCs _ => True | _ => False end.

(* top-level value of key [k] in the file *)
Definition file_top (k : str) (f : option fdoc) : option tval :=
  match f with Some d => lookup k d | None => None end.

(* the auths entry keyed [a] in the file *)
Definition file_entry (a : str) (f : option fdoc) : option entry :=
  match file_top configFieldAuths f with
  | Some (TAuths l) => lookup a l
  | _ => None
  end.

Definition cache_of (st : state) := m_cache (st_mem st).

Section Proofs.
  Variable b64enc : str -> str.
  Variable b64dec : str -> option str.
  (* [b64ok]: the strings the codec is specified on (byte strings for the concrete codec) *)
  Variable b64ok : str -> Prop.
  Hypothesis b64_roundtrip : forall s, b64ok s -> b64dec (b64enc s) = Some s.
  Hypothesis b64_nonempty : forall s, b64enc s = [] -> s = [].

  Notation step := (step b64enc b64dec).
  Notation run := (run b64enc b64dec).
  Notation get_candidates := (get_candidates b64dec).
  Notation get_cache := (get_cache b64dec).
  Notation cred_of_entry := (cred_of_entry b64dec).
  Notation entry_of_cred := (entry_of_cred b64enc).

  (* ----- the codec: encodeAuth / decodeAuth / AuthConfig ----- *)
  Lemma codec_roundtrip c :
    contains colon (c_user c) = false ->
    b64ok (c_user c ++ colon :: c_pass c) ->
    cred_of_entry (entry_of_cred c) = RCred c.
  Proof.
    intros NC OK. destruct c as [u p r a]. simpl in *.
    unfold entry_of_cred, cred_of_entry, cred_of_fields, encode_auth. simpl.
    destruct u as [|u0 u'] eqn:EU.
    - destruct p as [|p0 p'] eqn:EP; [reflexivity|].
      destruct (b64enc ([] ++ colon :: p0 :: p')) eqn:EE.
      + apply b64_nonempty in EE. discriminate.
      + rewrite <- EE. unfold decode_auth. rewrite EE, <- EE.
        rewrite (b64_roundtrip _ OK). simpl. reflexivity.
    - rewrite <- EU in *.
      assert (NE : u ++ colon :: p <> []) by (subst u; discriminate).
      destruct (b64enc (u ++ colon :: p)) eqn:EE.
      + apply b64_nonempty in EE. contradiction.
      + rewrite <- EE. unfold decode_auth. rewrite EE, <- EE.
        rewrite (b64_roundtrip _ OK).
        rewrite (index_of_app_fresh colon u p NC).
        rewrite firstn_app_exact, skipn_S_app. reflexivity.
  Qed.

  (* ----- Get ----- *)
  Lemma get_cache_in_candidates cache a : In (get_cache cache a) (get_candidates cache a).
  Proof.
    unfold CredFile.get_cache, CredFile.get_candidates.
    destruct (lookup a cache); [now left|].
    destruct (legacy_matches a cache) as [|[k e] l]; [now left|]. now left.
  Qed.

  Lemma candidates_exact cache a e :
    lookup a cache = Some e -> get_candidates cache a = [cred_of_entry e].
  Proof. intro H. unfold CredFile.get_candidates. now rewrite H. Qed.

  Lemma candidates_none cache a :
    lookup a cache = None ->
    (forall k e, In (k, e) cache -> to_hostname k <> a) ->
    get_candidates cache a = [RCred empty_cred].
  Proof.
    intros H L. unfold CredFile.get_candidates. rewrite H.
    assert (E : legacy_matches a cache = []).
    { unfold legacy_matches. clear H. induction cache as [|[k e] l IH]; [reflexivity|].
      simpl. assert (F : str_eqb (to_hostname k) a = false).
      { apply str_eqb_false. apply (L k e). now left. }
      rewrite F. apply IH. intros k' e' I. apply (L k' e'). now right. }
    now rewrite E.
  Qed.

  (* Go's map iteration order: [get_candidates] is exactly the set of answers
     GetCredential can give over all orders of the (key-unique) cache *)
  Lemma candidates_all_orders cache a r :
    NoDup (map fst cache) ->
    (In r (get_candidates cache a) <->
     exists cache', Permutation cache cache' /\ get_cache cache' a = r).
  Proof.
    intro ND. unfold CredFile.get_candidates. split.
    - destruct (lookup a cache) as [e|] eqn:L.
      + intros [<-|[]]. exists cache. split; [apply Permutation_refl|].
        unfold CredFile.get_cache. now rewrite L.
      + destruct (legacy_matches a cache) as [|kv l] eqn:M.
        * intros [<-|[]]. exists cache. split; [apply Permutation_refl|].
          unfold CredFile.get_cache. now rewrite L, M.
        * intro I. apply in_map_iff in I as ([k e] & <- & I). rewrite <- M in I.
          unfold legacy_matches in I. apply filter_In in I as [IC T]. cbn [fst] in T.
          destruct (in_split _ _ IC) as (l1 & l2 & ->).
          exists ((k, e) :: l1 ++ l2). split; [apply Permutation_sym, Permutation_middle|].
          unfold CredFile.get_cache.
          rewrite (lookup_perm a _ _ ND (Permutation_sym (Permutation_middle l1 l2 (k, e)))), L.
          unfold legacy_matches. cbn [filter fst]. rewrite T. reflexivity.
    - intros (cache' & P & <-). unfold CredFile.get_cache.
      rewrite (lookup_perm a _ _ ND P).
      destruct (lookup a cache) as [e|] eqn:L; [now left|].
      pose proof (filter_perm (fun kv => str_eqb (to_hostname (fst kv)) a) _ _ P) as PF.
      fold (legacy_matches a cache) in PF. fold (legacy_matches a cache') in PF.
      destruct (legacy_matches a cache') as [|[k e] l'] eqn:M'.
      + apply Permutation_sym, Permutation_nil in PF. rewrite PF. now left.
      + assert (I : In (k, e) (legacy_matches a cache)).
        { eapply Permutation_in; [apply Permutation_sym; exact PF|now left]. }
        destruct (legacy_matches a cache) as [|kv l]; [contradiction|].
        apply in_map_iff. now exists (k, e).
  Qed.

  (* ----- one step ----- *)
  Lemma step_get st a : step st (Get a) = (st, get_cache (cache_of st) a).
  Proof. reflexivity. Qed.

  (* Get never changes the store: neither memory (cache, content, credsStore) nor file *)
  Lemma get_pure st a : fst (step st (Get a)) = st.
  Proof. reflexivity. Qed.

  Definition is_get (o : op) : Prop := match o with Get _ => True | _ => False end.

  Lemma gets_pure h : forall st, Forall is_get h -> run st h = st.
  Proof.
    induction h as [|o h IH]; intros st F; [reflexivity|].
    inversion F as [|? ? G F']; subst. destruct o; try contradiction. simpl. now apply IH.
  Qed.

  Lemma put_accepts_colon a c : put_accepts a c = true -> contains colon (c_user c) = false.
  Proof.
    rewrite put_accepts_spec. intro H. apply andb_true_iff in H as [H _]. apply andb_true_iff in H as [H _].
    apply andb_true_iff in H as [H _]. now apply negb_true_iff in H.
  Qed.

  Lemma colon_not_accepted a c : contains colon (c_user c) = true -> put_accepts a c = false.
  Proof. intro H. rewrite put_accepts_spec. now rewrite H. Qed.

  Lemma put_refused st a c :
    put_accepts a c = false -> step st (Put a c) = (st, RErrBadCred).
  Proof. intro H. simpl. now rewrite H. Qed.

  Lemma colon_refused st a c :
    contains colon (c_user c) = true -> step st (Put a c) = (st, RErrBadCred).
  Proof. intro H. apply put_refused. now apply colon_not_accepted. Qed.

  Lemma put_ok st a c :
    put_accepts a c = true ->
    snd (step st (Put a c)) = ROk /\
    cache_of (fst (step st (Put a c))) = set a (entry_of_cred c) (cache_of st).
  Proof. intro H. simpl. rewrite H. simpl. split; reflexivity. Qed.

  Lemma step_cache_untouched st o a :
    ~ writes a o -> lookup a (cache_of (fst (step st o))) = lookup a (cache_of st).
  Proof.
    intro NW. destruct o as [a'|a' c|a'|s']; simpl in *; [| | |reflexivity].
    - reflexivity.
    - destruct (put_accepts a' c); [|reflexivity]. unfold cache_of. simpl.
      apply lookup_set_neq. exact NW.
    - destruct (lookup a' (m_cache (st_mem st))) eqn:E; [|reflexivity]. unfold cache_of. simpl.
      apply lookup_del_neq. exact NW.
  Qed.

  Lemma run_cache_untouched h : forall st a,
    (forall o, In o h -> ~ writes a o) ->
    lookup a (cache_of (run st h)) = lookup a (cache_of st).
  Proof.
    induction h as [|o h IH]; intros st a H; [reflexivity|].
    simpl. rewrite IH.
    - apply step_cache_untouched. apply H. now left.
    - intros o' I. apply H. now right.
  Qed.

  (* ----- C18_roundtrip ----- *)
  Lemma roundtrip st a c h :
    put_accepts a c = true ->
    b64ok (c_user c ++ colon :: c_pass c) ->
    (forall o, In o h -> ~ writes a o) ->
    snd (step st (Put a c)) = ROk /\
    get_candidates (cache_of (run (fst (step st (Put a c))) h)) a = [RCred c] /\
    snd (step (run (fst (step st (Put a c))) h) (Get a)) = RCred c.
  Proof.
    intros ACC OK NW. pose proof (put_accepts_colon a c ACC) as NC. destruct (put_ok st a c ACC) as [R C].
    assert (L : lookup a (cache_of (run (fst (step st (Put a c))) h)) = Some (entry_of_cred c)).
    { rewrite run_cache_untouched by exact NW. rewrite C. apply lookup_set_eq. }
    assert (G : get_candidates (cache_of (run (fst (step st (Put a c))) h)) a = [RCred c]).
    { rewrite (candidates_exact _ _ _ L). now rewrite codec_roundtrip. }
    repeat split; [exact R|exact G|].
    rewrite step_get. simpl.
    pose proof (get_cache_in_candidates (cache_of (run (fst (step st (Put a c))) h)) a) as I.
    rewrite G in I. destruct I as [I|[]]. now symmetry.
  Qed.

  Definition cs_value (s : str) : option tval :=
    match s with [] => None | _ => Some (TCs s) end.

  Lemma saved_doc_other m k :
    k <> configFieldAuths -> k <> configFieldCredentialsStore ->
    lookup k (saved_doc m) = lookup k (m_content m).
  Proof.
    intros N1 N2. unfold saved_doc. rewrite lookup_set_neq by congruence.
    destruct (m_cs m); [apply lookup_del_neq|apply lookup_set_neq]; congruence.
  Qed.

  Lemma saved_doc_auths m : lookup configFieldAuths (saved_doc m) = Some (TAuths (m_cache m)).
  Proof. unfold saved_doc. apply lookup_set_eq. Qed.

  Lemma saved_doc_cs m : lookup configFieldCredentialsStore (saved_doc m) = cs_value (m_cs m).
  Proof.
    unfold saved_doc. rewrite lookup_set_neq by apply auths_neq_cs.
    destruct (m_cs m); [apply lookup_del_eq|apply lookup_set_eq].
  Qed.

  (* ----- C18_delete_local ----- *)
  Lemma delete_local st a :
    let st' := fst (step st (Delete a)) in
    snd (step st (Delete a)) = ROk /\
    lookup a (cache_of st') = None /\
    (forall a', a' <> a -> lookup a' (cache_of st') = lookup a' (cache_of st)) /\
    (lookup a (cache_of st) = None -> st' = st) /\
    (lookup a (cache_of st) <> None ->
       file_top configFieldAuths (st_file st') = Some (TAuths (cache_of st')) /\
       file_entry a (st_file st') = None /\
       forall a', a' <> a -> file_entry a' (st_file st') = lookup a' (cache_of st)).
  Proof.
    unfold cache_of. simpl.
    destruct (lookup a (m_cache (st_mem st))) eqn:E; simpl.
    - split; [reflexivity|]. split; [apply lookup_del_eq|].
      split; [intros a' N; apply lookup_del_neq; congruence|].
      split; [discriminate|]. intros _.
      unfold file_entry, file_top. rewrite !saved_doc_auths. simpl.
      split; [reflexivity|]. split; [apply lookup_del_eq|].
      intros a' N; apply lookup_del_neq; congruence.
    - split; [reflexivity|]. split; [exact E|]. split; [reflexivity|].
      split; [reflexivity|]. intro X. now elim X.
  Qed.

  Lemma delete_then_get st a :
    (forall k e, In (k, e) (cache_of st) -> k <> a -> to_hostname k <> a) ->
    get_candidates (cache_of (fst (step st (Delete a)))) a = [RCred empty_cred].
  Proof.
    intro L. destruct (delete_local st a) as (_ & N & _ & SAME & _).
    apply candidates_none; [exact N|].
    intros k e I. unfold cache_of in *. simpl in *.
    destruct (lookup a (m_cache (st_mem st))) eqn:E; simpl in I.
    - apply in_del in I as [NE I]. apply (L k e I). congruence.
    - assert (NE : k <> a).
      { intro X. subst k. exact (lookup_none_notin _ _ E e I). }
      exact (L k e I NE).
  Qed.

  (* ----- preservation: an invariant of every history ----- *)
  (* [st] descends from [st0]: credsStore and every foreign top-level key are
     untouched in memory, and the file either still is the one [st0] saw or is
     exactly the in-memory document with the current cache as its auths *)
  Definition descends (st0 st : state) : Prop :=
    True /\
    (forall k, k <> configFieldAuths -> k <> configFieldCredentialsStore ->
               lookup k (m_content (st_mem st)) = lookup k (m_content (st_mem st0))) /\
    (st = st0 \/
     st_file st = Some (m_content (st_mem st)) /\
     lookup configFieldAuths (m_content (st_mem st)) = Some (TAuths (cache_of st)) /\
     lookup configFieldCredentialsStore (m_content (st_mem st)) = cs_value (m_cs (st_mem st))).

  Lemma descends_refl st : descends st st.
  Proof. repeat split; auto. Qed.

  Lemma save_descends st0 st m :
    descends st0 st ->
    m_content m = m_content (st_mem st) ->
    descends st0 (save m).
  Proof.
    intros (_ & O & _) EC. unfold descends, save, cache_of. cbn [st_mem st_file m_content m_cache m_cs].
    split; [exact I|]. split.
    - intros k N1 N2. rewrite saved_doc_other by assumption. rewrite EC. now apply O.
    - right. split; [reflexivity|]. split; [apply saved_doc_auths|apply saved_doc_cs].
  Qed.

  Lemma step_descends st0 st o : descends st0 st -> descends st0 (fst (step st o)).
  Proof.
    intro D. destruct o as [a|a c|a|s']; simpl; [| | |now apply (save_descends st0 st)].
    - exact D.
    - destruct (put_accepts a c); simpl; [|exact D].
      now apply (save_descends st0 st).
    - destruct (lookup a (m_cache (st_mem st))); simpl; [|exact D].
      now apply (save_descends st0 st).
  Qed.

  Lemma run_descends h : forall st0 st, descends st0 st -> descends st0 (run st h).
  Proof.
    induction h as [|o h IH]; intros st0 st D; [exact D|].
    simpl. apply IH. now apply step_descends.
  Qed.

  (* what open_store establishes *)
  Lemma open_store_spec f st0 :
    open_store f = Some st0 ->
    st_file st0 = f /\
    (forall k, lookup k (m_content (st_mem st0)) = file_top k f) /\
    (forall a, lookup a (cache_of st0) = file_entry a f) /\
    (forall s, file_top configFieldCredentialsStore f = Some (TCs s) -> m_cs (st_mem st0) = s).
  Proof.
    unfold open_store. destruct f as [d|].
    - unfold load_doc. destruct (cs_ok d && helpers_ok d && auths_ok d) eqn:OK; [|discriminate].
      intro H. injection H as <-. unfold cache_of, file_entry, file_top. simpl.
      split; [reflexivity|]. split; [reflexivity|]. split.
      + intro a. destruct (lookup configFieldAuths d) as [[| |]|]; reflexivity.
      + intros s E. now rewrite E.
    - intro H. injection H as <-. unfold cache_of, file_entry, file_top. simpl.
      repeat split; auto. discriminate.
  Qed.

  Lemma run_cs_untouched h : forall st,
    (forall o, In o h -> ~ is_setcs o) -> m_cs (st_mem (run st h)) = m_cs (st_mem st).
  Proof.
    induction h as [|o h IH]; intros st NS; [reflexivity|].
    simpl. rewrite IH by (intros o' I; apply NS; now right).
    assert (N : ~ is_setcs o) by (apply NS; now left).
    destruct o as [a|a c|a|s']; simpl in *; [reflexivity| | |tauto].
    - destruct (put_accepts a c); reflexivity.
    - destruct (lookup a (m_cache (st_mem st))); reflexivity.
  Qed.

  (* SetCredentialsStore: the file holds the new credsStore (dropped when empty) and nothing else changes *)
  Lemma setcs_step st s :
    let st' := fst (step st (SetCs s)) in
    snd (step st (SetCs s)) = ROk /\
    cache_of st' = cache_of st /\
    file_top configFieldCredentialsStore (st_file st') = cs_value s /\
    file_top configFieldAuths (st_file st') = Some (TAuths (cache_of st)) /\
    (forall k, k <> configFieldAuths -> k <> configFieldCredentialsStore ->
               file_top k (st_file st') = lookup k (m_content (st_mem st))).
  Proof.
    cbn [step fst snd save st_file file_top cache_of st_mem m_cache].
    split; [reflexivity|]. split; [reflexivity|].
    split; [exact (saved_doc_cs {| m_content := m_content (st_mem st); m_cache := m_cache (st_mem st); m_cs := s |})|].
    split; [exact (saved_doc_auths {| m_content := m_content (st_mem st); m_cache := m_cache (st_mem st); m_cs := s |})|].
    intros k N1 N2.
    exact (saved_doc_other {| m_content := m_content (st_mem st); m_cache := m_cache (st_mem st); m_cs := s |} k N1 N2).
  Qed.

  (* ----- C18_preserves_rest ----- *)
  Lemma preserves_rest f st0 h :
    open_store f = Some st0 ->
    let stf := run st0 h in
    (* every other top-level key *)
    (forall k, k <> configFieldAuths -> k <> configFieldCredentialsStore ->
               file_top k (st_file stf) = file_top k f) /\
    (* a configured credsStore *)
    ((forall o, In o h -> ~ is_setcs o) ->
     forall s, s <> [] -> file_top configFieldCredentialsStore f = Some (TCs s) ->
               file_top configFieldCredentialsStore (st_file stf) = Some (TCs s)) /\
    (* every auths entry no operation of the history addressed *)
    (forall a, (forall o, In o h -> ~ writes a o) ->
               file_entry a (st_file stf) = file_entry a f).
  Proof.
    intros OP stf. destruct (open_store_spec f st0 OP) as (F0 & T0 & E0 & C0).
    pose proof (run_descends h st0 st0 (descends_refl st0)) as (_ & OT & FILE).
    fold stf in OT, FILE.
    split; [|split].
    - intros k N1 N2. destruct FILE as [SAME|(FE & _ & _)].
      + rewrite SAME, F0. reflexivity.
      + rewrite FE. simpl. rewrite OT by assumption. apply T0.
    - intros NS s NE TC. pose proof (run_cs_untouched h st0 NS) as CS. fold stf in CS.
      destruct FILE as [SAME|(FE & _ & CE)].
      + rewrite SAME, F0. exact TC.
      + rewrite FE. simpl. rewrite CE, CS, (C0 s TC). destruct s; [contradiction|reflexivity].
    - intros a NW. destruct FILE as [SAME|(FE & AE & _)].
      + rewrite SAME, F0. reflexivity.
      + unfold file_entry at 1. rewrite FE. simpl. rewrite AE.
        unfold stf. rewrite run_cache_untouched by exact NW. apply E0.
  Qed.

  (* ----- an operation whose save fails (I/O error) ----- *)
  Lemma step_io_failed st o :
    saves st o = true -> step_io b64enc b64dec true st o = (st, RErrIO).
  Proof. intro S. unfold step_io. now rewrite S. Qed.

  Lemma step_io_unaffected io st o :
    io = false \/ saves st o = false -> step_io b64enc b64dec io st o = step st o.
  Proof. intros [->|S]; unfold step_io; [reflexivity|]. rewrite S. now rewrite andb_false_r. Qed.

  (* before the fix the failed Put stayed visible: Get answers the credential whose
     Put reported an error (and the next successful save writes it) *)
  Lemma step_io_prefix_visible :
    exists st o a,
      snd (step_io_prefix b64enc b64dec true st o) = RErrIO /\
      get_candidates (cache_of (fst (step_io_prefix b64enc b64dec true st o))) a <>
      get_candidates (cache_of st) a.
  Proof.
    exists {| st_mem := empty_mem; st_file := None |},
           (Put [97] {| c_user := []; c_pass := []; c_refresh := [116]; c_access := [] |}), [97].
    split; [reflexivity|]. vm_compute. discriminate.
  Qed.

  (* ----- DisablePut: no secret is ever written ----- *)
  Notation fs_step := (fs_step b64enc b64dec).
  Notation fs_run := (fs_run b64enc b64dec).

  Lemma fs_step_enabled st o : fs_step false st o = step st o.
  Proof. destruct o; reflexivity. Qed.

  Lemma fs_run_enabled h : forall st, fs_run false st h = run st h.
  Proof. induction h as [|o h IH]; intro st; simpl; [reflexivity|]. now rewrite fs_step_enabled, IH. Qed.

  Lemma put_disabled st a c : fs_step true st (Put a c) = (st, RErrPutDisabled).
  Proof. reflexivity. Qed.

  Definition not_put (o : op) : bool := match o with Put _ _ => false | _ => true end.

  Lemma fs_run_disabled h : forall st, fs_run true st h = run st (filter not_put h).
  Proof.
    induction h as [|o h IH]; intro st; [reflexivity|].
    destruct o as [a|a c|a|s']; simpl; now rewrite IH.
  Qed.

  (* without Puts the cache only loses entries *)
  Lemma step_cache_shrinks st o a e :
    not_put o = true ->
    lookup a (cache_of (fst (step st o))) = Some e -> lookup a (cache_of st) = Some e.
  Proof.
    destruct o as [a'|a' c|a'|s']; simpl; intros NP L; [exact L|discriminate| |exact L].
    destruct (lookup a' (m_cache (st_mem st))) eqn:E; [|exact L].
    unfold cache_of in L. simpl in L.
    destruct (str_eqb a' a) eqn:EA.
    - apply str_eqb_spec in EA. subst a'. rewrite lookup_del_eq in L. discriminate.
    - apply str_eqb_false in EA. now rewrite lookup_del_neq in L.
  Qed.

  Lemma run_cache_shrinks h : forall st a e,
    forallb not_put h = true ->
    lookup a (cache_of (run st h)) = Some e -> lookup a (cache_of st) = Some e.
  Proof.
    induction h as [|o h IH]; intros st a e NP L; [exact L|].
    simpl in NP. apply andb_true_iff in NP as [N1 N2]. simpl in L.
    apply (step_cache_shrinks st o a e N1). now apply (IH _ a e N2).
  Qed.

  Lemma filter_not_put h : forallb not_put (filter not_put h) = true.
  Proof. induction h as [|o h IH]; simpl; [reflexivity|]. destruct (not_put o) eqn:E; simpl; [now rewrite E|exact IH]. Qed.

  (* with DisablePut every auths entry in the file after any history is an entry
     the opened document already had, unchanged *)
  Lemma disable_put_no_new_entry f st0 h a e :
    open_store f = Some st0 ->
    file_entry a (st_file (fs_run true st0 h)) = Some e -> file_entry a f = Some e.
  Proof.
    intros OP FE. rewrite fs_run_disabled in FE.
    destruct (open_store_spec f st0 OP) as (F0 & _ & E0 & _).
    pose proof (run_descends (filter not_put h) st0 st0 (descends_refl st0)) as (_ & _ & FILE).
    destruct FILE as [SAME|(FEQ & AE & _)].
    - rewrite SAME, F0 in FE. exact FE.
    - unfold file_entry in FE at 1. rewrite FEQ in FE. simpl in FE. rewrite AE in FE.
      rewrite <- E0. apply (run_cache_shrinks (filter not_put h) st0 a e (filter_not_put h) FE).
  Qed.

  (* ----- on plain host addresses the FileStore is the in-memory Store ----- *)
  Definition plain (a : str) : Prop := to_hostname a = a.
  Definition good (c : cred) : Prop :=
    contains colon (c_user c) = false /\ b64ok (c_user c ++ colon :: c_pass c).
  Definition good_op (o : op) : Prop :=
    plain (op_addr o) /\ match o with Put _ c => b64ok (c_user c ++ colon :: c_pass c) | _ => True end.

  (* the file store's cache is the map, entry by entry, and holds plain keys only *)
  Definition sim (st : state) (m : list (str * cred)) : Prop :=
    (forall k e, In (k, e) (cache_of st) -> plain k) /\
    (forall a, lookup a (cache_of st) = option_map entry_of_cred (lookup a m)) /\
    (forall a c, lookup a m = Some c -> good c).

  Lemma lookup_set_case {V} (k a : str) (v : V) l :
    lookup a (set k v l) = if str_eqb k a then Some v else lookup a l.
  Proof.
    destruct (str_eqb k a) eqn:E.
    - apply str_eqb_spec in E. subst. apply lookup_set_eq.
    - apply str_eqb_false in E. now apply lookup_set_neq.
  Qed.

  Lemma lookup_del_case {V} (k a : str) (l : list (str * V)) :
    lookup a (del k l) = if str_eqb k a then None else lookup a l.
  Proof.
    destruct (str_eqb k a) eqn:E.
    - apply str_eqb_spec in E. subst. apply lookup_del_eq.
    - apply str_eqb_false in E. now apply lookup_del_neq.
  Qed.

  Lemma sim_get st m a :
    sim st m -> plain a ->
    get_candidates (cache_of st) a = [RCred (match lookup a m with Some c => c | None => empty_cred end)].
  Proof.
    intros (PK & LK & GD) PA. destruct (lookup a m) as [c|] eqn:L.
    - rewrite (candidates_exact _ _ (entry_of_cred c)); [|now rewrite LK, L].
      destruct (GD a c L) as [NC OK]. now rewrite codec_roundtrip.
    - apply candidates_none; [now rewrite LK, L|].
      intros k e I H. pose proof (PK k e I) as PKK. unfold plain in PKK. rewrite PKK in H. subst k.
      apply (lookup_none_notin a (cache_of st)) in I; [exact I|now rewrite LK, L].
  Qed.

  Lemma sim_step st m o :
    sim st m -> good_op o ->
    snd (step st o) = snd (mem_step m o) /\ sim (fst (step st o)) (fst (mem_step m o)).
  Proof.
    intros S (PA & OKO). pose proof S as (PK & LK & GD).
    destruct o as [a|a c|a|s']; cbn [op_addr] in PA; [| | |split; [reflexivity|exact S]].
    - split; [|exact S]. rewrite step_get. cbn [mem_step snd].
      pose proof (get_cache_in_candidates (cache_of st) a) as I.
      rewrite (sim_get st m a S PA) in I. destruct I as [I|[]]. now symmetry.
    - cbn [mem_step]. destruct (put_accepts a c) eqn:ACC; cbn [negb].
      2:{ rewrite put_refused by exact ACC. split; [reflexivity|exact S]. }
      + pose proof (put_accepts_colon a c ACC) as NC.
        destruct (put_ok st a c ACC) as [R C]. split; [exact R|]. cbn [fst].
        split; [|split].
        * intros k e I. rewrite C in I. destruct I as [E|I]; [injection E as <- _; exact PA|].
          apply in_del in I as [_ I]. now apply (PK k e).
        * intro a'. rewrite C, !lookup_set_case, LK. now destruct (str_eqb a a').
        * intros a' c' L. rewrite lookup_set_case in L. destruct (str_eqb a a').
          -- injection L as <-. split; assumption.
          -- now apply (GD a').
    - cbn [mem_step fst snd]. destruct (delete_local st a) as (R & _ & _ & SAME & _).
      split; [exact R|].
      assert (C : cache_of (fst (step st (Delete a))) = del a (cache_of st)).
      { unfold cache_of. simpl. destruct (lookup a (m_cache (st_mem st))) eqn:E; [reflexivity|].
        simpl. symmetry. unfold del. clear -E. induction (m_cache (st_mem st)) as [|[k v] l IH]; [reflexivity|].
        simpl in *. destruct (str_eqb a k) eqn:EK; [discriminate|]. simpl. f_equal. now apply IH. }
      split; [|split].
      + intros k e I. rewrite C in I. apply in_del in I as [_ I]. now apply (PK k e).
      + intro a'. rewrite C, !lookup_del_case, LK. now destruct (str_eqb a a').
      + intros a' c' L. rewrite lookup_del_case in L. destruct (str_eqb a a'); [discriminate|]. now apply (GD a').
  Qed.

  Lemma refines_memory_store h : forall st m,
    sim st m -> Forall good_op h ->
    map fst (run_obs b64enc b64dec st h) = mem_results m h.
  Proof.
    induction h as [|o h IH]; intros st m S F; [reflexivity|].
    inversion F as [|? ? GO F']; subst.
    destruct (sim_step st m o S GO) as [R S'].
    cbn [run_obs mem_results]. destruct (step st o) as [st' r] eqn:E. cbn [map fst]. cbn [fst snd] in *.
    rewrite R. f_equal. now apply IH.
  Qed.

  Lemma sim_empty f : sim {| st_mem := empty_mem; st_file := f |} [].
  Proof. split; [intros k e []|]. split; [reflexivity|discriminate]. Qed.

  (* ----- DynamicStore ----- *)
  Notation ds_step := (ds_step b64enc b64dec).
  Notation ds_run := (ds_run b64enc b64dec).

  (* an address that is routed to a native helper never touches the store or the file *)
  Lemma ds_native_untouched allow helpers st o h :
    ds_route helpers st (op_addr o) = Some h -> (forall s, o <> SetCs s) ->
    ds_step allow helpers st o = (st, RNative).
  Proof. intros R NS. destruct o as [a|a c|a|s]; cbn [CredFile.ds_step op_addr] in *; try now rewrite R. now elim (NS s). Qed.

  (* with no credential helper and no credsStore configured, the DynamicStore IS the file
     store with DisablePut = not AllowPlaintextPut, over every history of Get/Put/Delete *)
  Definition dyn_op (o : op) : Prop := match o with SetCs _ => False | _ => True end.

  Lemma ds_step_file allow helpers st o :
    (forall a, helper_of helpers a = []) ->
    m_cs (st_mem st) = [] -> dyn_op o ->
    ds_step allow helpers st o = fs_step (negb allow) st o.
  Proof.
    intros NH CS D. destruct o as [a|a c|a|s]; cbn [CredFile.ds_step]; try contradiction;
      unfold ds_route; rewrite (NH a), CS; reflexivity.
  Qed.

  Lemma fs_step_cs dp st o : dyn_op o -> m_cs (st_mem (fst (fs_step dp st o))) = m_cs (st_mem st).
  Proof.
    destruct o as [a|a c|a|s]; cbn [dyn_op]; try contradiction; intros _; cbn [CredFile.fs_step].
    - reflexivity.
    - destruct dp; [reflexivity|]. cbn [CredFile.step]. destruct (negb (put_accepts a c)); reflexivity.
    - cbn [CredFile.step]. destruct (lookup a (m_cache (st_mem st))); reflexivity.
  Qed.

  Lemma ds_run_file allow helpers h : forall st,
    (forall a, helper_of helpers a = []) ->
    m_cs (st_mem st) = [] -> Forall dyn_op h ->
    ds_run allow helpers st h = fs_run (negb allow) st h.
  Proof.
    induction h as [|o h IH]; intros st NH CS F; [reflexivity|].
    inversion F as [|? ? D F']; subst. cbn [CredFile.ds_run CredFile.fs_run].
    rewrite (ds_step_file allow helpers st o NH CS D).
    apply IH; [exact NH| |exact F']. rewrite fs_step_cs by exact D. exact CS.
  Qed.

  (* ----- reopening the saved file gives a store with the same secrets ----- *)
  Lemma reopen f st0 h :
    open_store f = Some st0 ->
    exists st1, open_store (st_file (run st0 h)) = Some st1 /\
                cache_of st1 = cache_of (run st0 h) /\
                m_cs (st_mem st1) = m_cs (st_mem (run st0 h)).
  Proof.
    intros OP. set (stf := run st0 h).
    pose proof (run_descends h st0 st0 (descends_refl st0)) as (_ & OT & FILE).
    fold stf in OT, FILE.
    destruct (open_store_spec f st0 OP) as (F0 & T0 & _ & _).
    destruct FILE as [SAME|(FE & AE & CE)].
    - exists st0. rewrite SAME, F0. auto.
    - assert (HOK : helpers_ok (m_content (st_mem stf)) = true).
      { unfold helpers_ok. rewrite OT; [|apply not_eq_sym, auths_neq_helpers|apply not_eq_sym, cs_neq_helpers].
        rewrite T0. clear -OP. unfold open_store in OP. destruct f as [d|]; [|reflexivity].
        unfold load_doc in OP. destruct (cs_ok d) eqn:E1; simpl in OP; [|discriminate].
        destruct (helpers_ok d) eqn:E2; simpl in OP; [|discriminate]. exact E2. }
      rewrite FE. unfold open_store, load_doc.
      assert (COK : cs_ok (m_content (st_mem stf)) = true).
      { unfold cs_ok. rewrite CE. destruct (m_cs (st_mem stf)); reflexivity. }
      assert (AOK : auths_ok (m_content (st_mem stf)) = true).
      { unfold auths_ok. now rewrite AE. }
      rewrite COK, HOK, AOK. simpl. eexists. split; [reflexivity|].
      unfold cache_of. simpl. rewrite AE, CE. split; [reflexivity|].
      destruct (m_cs (st_mem stf)); reflexivity.
  Qed.
End Proofs.

(* ----- reading the file: lossy decoding of keys (known finding lone-surrogate) ----- *)
Lemma sanitize_fuel_valid n : forall s, valid_fuel n s = true -> sanitize_fuel n s = s.
Proof.
  induction n as [|n IH]; intros [|c r] V; try reflexivity; try discriminate.
  cbn [valid_fuel] in V. cbn [sanitize_fuel].
  destruct (rune_len (c :: r)) as [k|]; [|discriminate].
  rewrite (IH _ V). apply firstn_skipn.
Qed.

Lemma sanitize_valid s : valid_utf8 s = true -> sanitize s = s.
Proof. apply sanitize_fuel_valid. Qed.

(* every string encoding/json decodes when loading the document is valid UTF-8 *)
Definition tval_utf8 (v : tval) : Prop :=
  match v with
  | TRaw _ _ => True
  | TAuths l => Forall (fun ae => valid_utf8 (fst ae) = true) l
  | TCs s => valid_utf8 s = true
  end.
Definition doc_utf8 (d : fdoc) : Prop :=
  Forall (fun kv => valid_utf8 (fst kv) = true /\ tval_utf8 (snd kv)) d.

Lemma decode_doc_utf8 d : doc_utf8 d -> decode_doc d = d.
Proof.
  induction 1 as [|[k v] d [K V] _ IH]; [reflexivity|].
  cbn [decode_doc map fst snd] in *. fold (decode_doc d). rewrite IH. f_equal. f_equal.
  - now apply sanitize_valid.
  - destruct v as [raw kd|l|cs]; cbn [decode_tval tval_utf8] in *; [reflexivity| |now rewrite sanitize_valid].
    f_equal. induction V as [|[a e] l A _ IHl]; [reflexivity|].
    cbn [map fst snd] in *. rewrite IHl. now rewrite (sanitize_valid a A).
Qed.

Lemma open_file_utf8 d : doc_utf8 d -> open_file (Some d) = open_store (Some d).
Proof.
  intro U. unfold open_file. rewrite (decode_doc_utf8 d U).
  unfold open_store. destruct (load_doc d); reflexivity.
Qed.

Definition file_utf8 (f : option fdoc) : Prop :=
  match f with Some d => doc_utf8 d | None => True end.

Lemma open_file_store f : file_utf8 f -> open_file f = open_store f.
Proof. destruct f as [d|]; [apply open_file_utf8|reflexivity]. Qed.

Section Lossy.
  Variable b64enc : str -> str.
  Variable b64dec : str -> option str.

  (* preservation for documents whose decoded strings are valid UTF-8 *)
  Lemma preserves_rest_partial f st0 h :
    file_utf8 f -> open_file f = Some st0 ->
    let stf := run b64enc b64dec st0 h in
    (forall k, k <> configFieldAuths -> k <> configFieldCredentialsStore ->
               file_top k (st_file stf) = file_top k f) /\
    ((forall o, In o h -> ~ is_setcs o) ->
     forall s, s <> [] -> file_top configFieldCredentialsStore f = Some (TCs s) ->
               file_top configFieldCredentialsStore (st_file stf) = Some (TCs s)) /\
    (forall a, (forall o, In o h -> ~ writes a o) ->
               file_entry a (st_file stf) = file_entry a f).
  Proof. intros U OP. rewrite (open_file_store f U) in OP. now apply preserves_rest. Qed.

  (* without that hypothesis it fails: a top-level key holding a lone surrogate
     escape is renamed by the first save *)
  Definition lone_key : str := [107; 237; 160; 128].        (* "k\ud800" *)
  Definition lone_doc : fdoc := [(lone_key, TRaw [49] KOther)].
  Definition lone_put : op :=
    Put [97] {| c_user := []; c_pass := []; c_refresh := [116]; c_access := [] |}.

  Lemma preserves_rest_refuted :
    exists f st0 h k,
      open_file f = Some st0 /\
      k <> configFieldAuths /\ k <> configFieldCredentialsStore /\
      file_top k f <> None /\
      file_top k (st_file (run b64enc b64dec st0 h)) = None.
  Proof.
    exists (Some lone_doc). eexists. exists [lone_put], lone_key.
    split; [vm_compute; reflexivity|].
    split; [intro H; apply str_eqb_spec in H; vm_compute in H; discriminate|].
    split; [intro H; apply str_eqb_spec in H; vm_compute in H; discriminate|].
    split; [vm_compute; discriminate|vm_compute; reflexivity].
  Qed.
End Lossy.

(* ----- the defect fixed in config.Load (kept as a witness) ----- *)
Lemma null_document_refuted :
  exists j cache, save_content_prefix (load_content_prefix j) cache = None.
Proof. exists JNull, []. reflexivity. Qed.

Lemma null_document_fixed :
  forall j cache, save_content_prefix (load_content j) cache <> None.
Proof. intros [|d] cache; discriminate. Qed.
