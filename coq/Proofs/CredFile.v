From Oras Require Import Base.Prelude Base.FlatFS Generated.GC18 Model.Base64 Model.CredFile Model.CredSave.
