(* Source-order of the effectful calls of every function of pack.go that Model/Pack.v mirrors
   (translated by gosrc2v kind "callseq" on every run).  The model issues its validations, storage
   operations and the created-annotation step in exactly this order; a reordering in the source
   (a validation moved behind a push, ensureAnnotationCreated before the config push, ...) changes
   the generated lists and breaks this lemma. *)
From Oras Require Import Base.Prelude Generated.GC19.

Lemma call_order_as_modelled :
  calls_PackManifest = [b "packManifestV1_0"; b "packManifestV1_1"] /\
  calls_Pack = [b "packManifestV1_1_RC2"; b "packArtifact"] /\
  calls_packArtifact = [b "ensureAnnotationCreated"; b "pushManifest"] /\
  calls_packManifestV1_0 =
    [b "validateMediaType"; b "validateMediaType"; b "pushCustomEmptyConfig"; b "ensureAnnotationCreated"; b "pushManifest"] /\
  calls_packManifestV1_1_RC2 = [b "pushCustomEmptyConfig"; b "ensureAnnotationCreated"; b "pushManifest"] /\
  calls_packManifestV1_1 =
    [b "validateMediaType"; b "validateMediaType"; b "pushIfNotExist"; b "ensureAnnotationCreated"; b "pushIfNotExist"; b "pushManifest"] /\
  calls_pushIfNotExist = [b "ros.Exists"; b "pusher.Push"] /\
  calls_pushManifest = [b "json.Marshal"; b "content.NewDescriptorFromBytes"; b "pusher.Push"] /\
  calls_pushCustomEmptyConfig = [b "content.NewDescriptorFromBytes"; b "pushIfNotExist"] /\
  calls_ensureAnnotationCreated = [b "validateRFC3339"; b "maps.Copy"; b "time.Now"] /\
  calls_validateRFC3339 = [b "time.Parse"] /\
  calls_validateMediaType = [b "mediaTypeRegexp.MatchString"].
Proof. repeat split; reflexivity. Qed.

(* The struct tags encoding/json works from (gosrc2v kind "jsontags": spec.Artifact from the repository,
   Manifest / Versioned / Descriptor / Platform from image-spec in the module cache at the version go.mod
   requires): names, order and omitempty are those Model/PackEnc.v writes (json_manifest, json_desc,
   json_platform).  A bumped image-spec or an edited Artifact struct breaks this lemma. *)
Lemma json_tags_as_modelled :
  Artifact_json_tags =
    [(b "mediaType", false); (b "artifactType", false); (b "blobs", true); (b "subject", true); (b "annotations", true)] /\
  Manifest_json_tags =
    [(b "<embedded specs.Versioned>", false); (b "mediaType", true); (b "artifactType", true); (b "config", false);
     (b "layers", false); (b "subject", true); (b "annotations", true)] /\
  Versioned_json_tags = [(b "schemaVersion", false)] /\
  Descriptor_json_tags =
    [(b "mediaType", false); (b "digest", false); (b "size", false); (b "urls", true); (b "annotations", true);
     (b "data", true); (b "platform", true); (b "artifactType", true)] /\
  Platform_json_tags =
    [(b "architecture", false); (b "os", false); (b "os.version", true); (b "os.features", true); (b "variant", true)].
Proof. repeat split; reflexivity. Qed.

(* Every decision (if condition with its init statement, switch case) of the functions of pack.go that
   Model/Pack.v mirrors, as source text in source order (gosrc2v kind "ifconds").  The model's branches
   are these conditions: subject for v1.0, the two-step artifactType check of v1.1, comma-ok lookup of
   the created key, ErrAlreadyExists swallowed at both pushes, len(Layers) == 0 and !emptyBlobExists for
   the placeholder, nil layers made an empty array.  An edited condition breaks this lemma. *)
Lemma decisions_as_modelled :
  conds_PackManifest =
    [b "case PackManifestVersion1_0";
     b "case PackManifestVersion1_1";
     b "default"] /\
  conds_Pack =
    [b "opts.PackImageManifest"] /\
  conds_packArtifact =
    [b "artifactType == """"";
     b "err != nil"] /\
  conds_packManifestV1_0 =
    [b "opts.Subject != nil";
     b "opts.ConfigDescriptor != nil";
     b "err := validateMediaType(opts.ConfigDescriptor.MediaType); err != nil";
     b "artifactType == """"";
     b "err := validateMediaType(artifactType); err != nil";
     b "err != nil";
     b "err != nil";
     b "opts.Layers == nil"] /\
  conds_packManifestV1_1_RC2 =
    [b "configMediaType == """"";
     b "opts.ConfigDescriptor != nil";
     b "err != nil";
     b "err != nil";
     b "layers == nil"] /\
  conds_packManifestV1_1 =
    [b "artifactType == """" && (opts.ConfigDescriptor == nil || opts.ConfigDescriptor.MediaType == ocispec.MediaTypeEmptyJSON)";
     b "artifactType != """"";
     b "err := validateMediaType(artifactType); err != nil";
     b "opts.ConfigDescriptor != nil";
     b "err := validateMediaType(opts.ConfigDescriptor.MediaType); err != nil";
     b "err := pushIfNotExist(ctx, pusher, configDesc, configBytes); err != nil";
     b "err != nil";
     b "len(opts.Layers) == 0";
     b "!emptyBlobExists";
     b "err := pushIfNotExist(ctx, pusher, layerDesc, layerData); err != nil"] /\
  conds_pushIfNotExist =
    [b "ros, ok := pusher.(content.ReadOnlyStorage); ok";
     b "err != nil";
     b "exists";
     b "err := pusher.Push(ctx, desc, bytes.NewReader(data)); err != nil && !errors.Is(err, errdef.ErrAlreadyExists)"] /\
  conds_pushManifest =
    [b "err != nil";
     b "err := pusher.Push(ctx, manifestDesc, bytes.NewReader(manifestJSON)); err != nil && !errors.Is(err, errdef.ErrAlreadyExists)"] /\
  conds_pushCustomEmptyConfig =
    [b "err := pushIfNotExist(ctx, pusher, configDesc, configBytes); err != nil"] /\
  conds_ensureAnnotationCreated =
    [b "createdTime, ok := annotations[annotationCreatedKey]; ok";
     b "err := validateRFC3339(createdTime); err != nil"] /\
  conds_validateMediaType =
    [b "!mediaTypeRegexp.MatchString(mediaType)"].
Proof. repeat split; reflexivity. Qed.
