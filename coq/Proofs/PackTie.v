(* Source-order of the effectful calls of every function of pack.go that Model/Pack.v mirrors
   (translated by gosrc2v kind "callseq" on every run).  The model issues its validations, storage
   operations and the created-annotation step in exactly this order; a reordering in the source
   (a validation moved behind a push, ensureAnnotationCreated before the config push, ...) changes
   the generated lists and breaks this lemma. *)
From Oras Require Import Base.Prelude Generated.GC19.

Lemma call_order_as_modelled :
  calls_PackManifest = [b "packManifestV1_0"; b "packManifestV1_1"] /\
  calls_Pack = [b "packManifestV1_1_RC2"; b "packArtifact"] /\
  calls_packArtifact = [b "ensureAnnotationCreated"; b "pushManifest"] /\
  calls_packManifestV1_0 =
    [b "validateMediaType"; b "validateMediaType"; b "pushCustomEmptyConfig"; b "ensureAnnotationCreated"; b "pushManifest"] /\
  calls_packManifestV1_1_RC2 = [b "pushCustomEmptyConfig"; b "ensureAnnotationCreated"; b "pushManifest"] /\
  calls_packManifestV1_1 =
    [b "validateMediaType"; b "validateMediaType"; b "pushIfNotExist"; b "ensureAnnotationCreated"; b "pushIfNotExist"; b "pushManifest"] /\
  calls_pushIfNotExist = [b "ros.Exists"; b "pusher.Push"] /\
  calls_pushManifest = [b "json.Marshal"; b "content.NewDescriptorFromBytes"; b "pusher.Push"] /\
  calls_pushCustomEmptyConfig = [b "content.NewDescriptorFromBytes"; b "pushIfNotExist"] /\
  calls_ensureAnnotationCreated = [b "validateRFC3339"; b "maps.Copy"; b "time.Now"] /\
  calls_validateRFC3339 = [b "time.Parse"] /\
  calls_validateMediaType = [b "mediaTypeRegexp.MatchString"].
Proof. repeat split; reflexivity. Qed.

(* The struct tags encoding/json works from (gosrc2v kind "jsontags": spec.Artifact from the repository,
   Manifest / Versioned / Descriptor / Platform from image-spec in the module cache at the version go.mod
   requires): names, order and omitempty are those Model/PackEnc.v writes (json_manifest, json_desc,
   json_platform).  A bumped image-spec or an edited Artifact struct breaks this lemma. *)
Lemma json_tags_as_modelled :
  Artifact_json_tags =
    [(b "mediaType", false); (b "artifactType", false); (b "blobs", true); (b "subject", true); (b "annotations", true)] /\
  Manifest_json_tags =
    [(b "<embedded specs.Versioned>", false); (b "mediaType", true); (b "artifactType", true); (b "config", false);
     (b "layers", false); (b "subject", true); (b "annotations", true)] /\
  Versioned_json_tags = [(b "schemaVersion", false)] /\
  Descriptor_json_tags =
    [(b "mediaType", false); (b "digest", false); (b "size", false); (b "urls", true); (b "annotations", true);
     (b "data", true); (b "platform", true); (b "artifactType", true)] /\
  Platform_json_tags =
    [(b "architecture", false); (b "os", false); (b "os.version", true); (b "os.features", true); (b "variant", true)].
Proof. repeat split; reflexivity. Qed.
