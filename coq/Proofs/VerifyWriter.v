(* ioutil.CopyBuffer into a destination that may fail or short-write: nil is returned
   only when the destination took every byte, and then it holds exactly the
   descriptor's bytes. *)
From Oras Require Import Base.Prelude Generated.GC05 Model.Verify Proofs.Verify.
From Coq Require Import Lia ZArith.

Local Open Scope nat_scope.

Section Writer.
  Variable H : str -> str -> str.
  Variable comb : bool.

  Definition write_fault (e : option rerr) : Prop := e = Some EWrite \/ e = Some EShortWrite.

  Lemma w_write_spec w bs acc we w' :
    w_write w bs = ((acc, we), w') ->
    (we = None /\ acc = bs /\ w_mode w' = w_mode w /\
     (w_mode w <> None -> length bs <= w_left w /\ w_left w' = w_left w - length bs)) \/
    (write_fault we /\ w_left w < length bs).
  Proof.
    unfold w_write. destruct (w_mode w) as [m|] eqn:Em.
    - destruct (length bs <=? w_left w) eqn:L.
      + apply Nat.leb_le in L. intro E; inversion E; subst; simpl. left. repeat split; auto; lia.
      + apply Nat.leb_gt in L. intro E; inversion E; subst. right. split; auto.
        destruct m; [left|right]; reflexivity.
    - intro E; inversion E; subst. left. repeat split; auto; congruence.
  Qed.

  (* the loop with a destination either ends in a write fault or is the loop of the
     fault-free model, and then the destination had room for everything *)
  Lemma copy_loop_w_rel bufsz fuel : forall v out w e out' v' w',
    copy_loop_w comb fuel v bufsz out w = (((e, out'), v'), w') ->
    write_fault e \/
    (copy_loop comb fuel v bufsz out = ((e, out'), v') /\
     (w_mode w <> None -> length out' - length out <= w_left w)).
  Proof.
    induction fuel as [|f IH]; intros v out w e out' v' w'; simpl.
    - intro E; inversion E; subst. right. split; auto. intros _. lia.
    - destruct (vr_read comb v bufsz) as [[bs e0] v1] eqn:Er.
      destruct bs as [|c bs'].
      + (* nothing read: nothing written *)
        rewrite !app_nil_r.
        destruct e0 as [e0|].
        * destruct e0; intro E; inversion E; subst; right; (split; [reflexivity|intros _; lia]).
        * intro E. apply IH in E as [F|[E1 E2]]; [left; exact F|]. right. split; auto.
      + destruct (w_write w (c :: bs')) as [[acc we] w1] eqn:Ew.
        apply w_write_spec in Ew as [(-> & -> & Wm & Wl)|(F & _)].
        * destruct e0 as [e0|].
          -- destruct e0; intro E; inversion E; subst; right; (split; [reflexivity|]);
               intro Nn; destruct (Wl Nn) as [L1 _]; rewrite app_length; simpl in *; lia.
          -- intro E. apply IH in E as [F|[E1 E2]]; [left; exact F|]. right. split; auto.
             intro Nn. destruct (Wl Nn) as [L1 L2].
             assert (Nn1 : w_mode w1 <> None) by congruence. specialize (E2 Nn1).
             rewrite app_length in E2. simpl in *. lia.
        * intro E. destruct F as [-> | ->]; inversion E; subst; left; [left|right]; reflexivity.
  Qed.

  Theorem copy_buffer_w_sound fuel src bufsz dg sz w out v w' :
    copy_buffer_w H comb true fuel src bufsz dg sz w = (((None, out), v), w') ->
    copy_buffer H comb true fuel src bufsz dg sz = ((None, out), v) /\
    (w_mode w <> None -> length out <= w_left w) /\
    matches_desc H dg sz out /\
    (b_lim src = None -> neof (b_evs src) = 0 -> stream (b_evs src) = out).
  Proof.
    unfold copy_buffer_w, copy_buffer.
    destruct (copy_loop_w comb fuel (new_vr true src dg sz) bufsz [] w) as [[[e o] v0] w0] eqn:Ec.
    apply copy_loop_w_rel in Ec as [F|[E1 E2]].
    - destruct F as [-> | ->]; discriminate.
    - rewrite E1. destruct e as [e|]; [discriminate|].
      destruct (vr_verify H comb fuel dg v0) as [r v1] eqn:Ev.
      intro X; inversion X; subst. split; [reflexivity|]. split.
      + intro Nn. specialize (E2 Nn). simpl in E2. lia.
      + assert (Cb : copy_buffer H comb true fuel src bufsz dg sz = ((None, out), v)).
        { unfold copy_buffer. rewrite E1, Ev. reflexivity. }
        apply copy_buffer_sound in Cb as (A & _ & C). split; auto.
  Qed.

  (* a destination that cannot take Size bytes is never answered with nil *)
  Corollary copy_buffer_w_short_dest fuel src bufsz dg sz m left out v w' :
    (Z.of_nat left < sz)%Z ->
    copy_buffer_w H comb true fuel src bufsz dg sz (mkW (Some m) left) <> (((None, out), v), w').
  Proof.
    intros L E. apply copy_buffer_w_sound in E as (_ & B & (A1 & _) & _).
    simpl in B. assert (X : Some m <> None) by discriminate. specialize (B X). lia.
  Qed.
End Writer.
