(* C06 -- quiescent serialisability of the OCI store, second part: the resolver's
   digest-string entries, hence every Resolve answer. *)
From Oras Require Import Base.Prelude Model.Stores Model.StoresConc Model.StoresConcOci
     Proofs.Stores Proofs.StoresConc Proofs.StoresConcOci.
From Coq Require Import Permutation.

Local Arguments res_tag : simpl never.
Local Arguments res_untag : simpl never.
Local Arguments oci_tag : simpl never.
Local Arguments oci_untag_equal : simpl never.
Local Arguments untag_fold : simpl never.
Local Arguments spec_oci_tag : simpl never.
Local Arguments g_index : simpl never.
Local Arguments g_remove : simpl never.
Local Arguments gkey_eqb : simpl never.
Local Arguments verify : simpl never.
Local Arguments is_manifest : simpl never.

(* the digest-string entry of digest g *)
Definition dent (t : list (ref * desc)) (g : N) : option desc := get ref_eqb (RDig g) t.

Inductive deff := DNone | DSet (g : N) (d : desc) | DDel (k : gkey).

Definition apply_deff (e : deff) (f : N -> option desc) (g : N) : option desc :=
  match e with
  | DNone => f g
  | DSet g0 d => if g0 =? g then Some d else f g
  | DDel k => match f g with Some d' => if eq_target d' k then None else Some d' | None => None end
  end.

Lemma dent_put_dig g0 d t g : dent (put ref_eqb (RDig g0) d t) g = if g0 =? g then Some d else dent t g.
Proof.
  unfold dent. destruct (g0 =? g) eqn:E.
  - apply N.eqb_eq in E. subst. apply (get_put_eq ref_eqb ref_eqb_spec).
  - apply (get_put_neq ref_eqb ref_eqb_spec). intro H. injection H as ->. rewrite N.eqb_refl in E. discriminate.
Qed.

Lemma dent_put_name m d t g : dent (put ref_eqb (RName m) d t) g = dent t g.
Proof. unfold dent. apply (get_put_neq ref_eqb ref_eqb_spec). discriminate. Qed.

Lemma dent_del_name m (t : list (ref * desc)) g : dent (del ref_eqb (RName m) t) g = dent t g.
Proof. unfold dent. apply (get_del_neq ref_eqb ref_eqb_spec). discriminate. Qed.

Lemma dent_untag_fold k t g :
  NoDup (map fst t) -> dent (untag_fold k t t) g = apply_deff (DDel k) (dent t) g.
Proof.
  intro Hnd. unfold dent, apply_deff. rewrite (untag_fold_order_free k t t (RDig g) Hnd) by tauto.
  unfold spec_untag_equal. rewrite get_filter_nodup by exact Hnd. simpl.
  destruct (get ref_eqb (RDig g) t) as [d'|]; auto. now destruct (eq_target d' k).
Qed.

Lemma dent_spec_oci_tag d r t g :
  dent (spec_oci_tag d r t) g =
  match r with
  | RDig g0 => if g0 =? g then Some d else if d_dig d =? g then (if g0 =? d_dig d then dent t g else Some d) else dent t g
  | _ => if d_dig d =? g then Some d else dent t g
  end.
Proof.
  unfold spec_oci_tag. destruct r as [m|g0|]; simpl.
  - rewrite dent_put_name. apply dent_put_dig.
  - rewrite dent_put_dig. destruct (g0 =? g) eqn:E0; auto.
    destruct (g0 =? d_dig d) eqn:E1.
    + apply N.eqb_eq in E1. subst g0. now rewrite E0.
    + rewrite dent_put_dig. now destruct (d_dig d =? g).
  - unfold dent at 1. rewrite (get_put_neq ref_eqb ref_eqb_spec) by discriminate. apply dent_put_dig.
Qed.

Section OciDig.
  Variable U : N -> gkey.
  Hypothesis U_dig : forall g, k_dig (U g) = g.
  Variable B : N -> blob.

  (* (Store.Tag refuses another content's digest string as reference since 2b70301, so the
     earlier extra hypothesis "a reference is never another node's digest string" is gone:
     wf2_op is wf_op) *)
  Definition wf2_op (o : op) : Prop := wf_op U B o /\ True.

  (* digest-string entries are well formed; a stored manifest has one *)
  Definition dwf (t : list (ref * desc)) : Prop :=
    forall g d, dent t g = Some d -> d_dig d = g /\ canon_desc U d.

  Definition qdig (st : oci_store) : Prop :=
    dwf (r_index (o_res st)) /\
    forall g, get N.eqb g (o_blobs st) <> None -> is_manifest (k_mt (U g)) = true ->
              dent (r_index (o_res st)) g <> None.

  (* effect of a sequential operation on the digest entries *)
  Definition qeff (st : oci_store) (o : op) : deff :=
    match o with
    | Push d c => match get N.eqb (d_dig d) (o_blobs st) with
                  | Some _ => DNone
                  | None => if verify d c && is_manifest (d_mt d) then DSet (d_dig d) d else DNone
                  end
    | Tag d r => match r with
                 | REmpty => DNone
                 | _ => if foreign_digest_ref d r then DNone
                        else if is_some (get N.eqb (d_dig d) (o_blobs st)) then DSet (d_dig d) d else DNone
                 end
    | Delete d => DDel (gk d)
    | _ => DNone
    end.

  Lemma oci_step_dent st o :
    wf2_op o -> dwf (r_index (o_res st)) -> NoDup (map fst (r_index (o_res st))) ->
    forall g, dent (r_index (o_res (fst (oci_step st o)))) g = apply_deff (qeff st o) (dent (r_index (o_res st))) g.
  Proof.
    intros [Hwf Hw2] Hd Hnd g. destruct o; simpl; auto.
    - destruct (get N.eqb (d_dig d) (o_blobs st)); auto.
      destruct (verify d c); simpl; auto. destruct (is_manifest (d_mt d)); simpl; auto.
      change (dent (r_index (oci_tag d (RDig (d_dig d)) (o_res st))) g = (if d_dig d =? g then Some d else dent (r_index (o_res st)) g)).
      rewrite r_index_oci_tag, dent_spec_oci_tag. destruct (d_dig d =? g); auto.
    - destruct (get N.eqb (d_dig d) (o_blobs st)); auto.
    - destruct r as [m|g0|]; cbn [foreign_digest_ref]; auto.
      + destruct (is_some (get N.eqb (d_dig d) (o_blobs st))); simpl; auto.
        change (dent (r_index (oci_tag d (RName m) (o_res st))) g = (if d_dig d =? g then Some d else dent (r_index (o_res st)) g)).
        now rewrite r_index_oci_tag, dent_spec_oci_tag.
      + destruct (g0 =? d_dig d) eqn:Eg; cbn [negb]; auto. apply N.eqb_eq in Eg. subst g0.
        destruct (is_some (get N.eqb (d_dig d) (o_blobs st))); simpl; auto.
        change (dent (r_index (oci_tag d (RDig (d_dig d)) (o_res st))) g = (if d_dig d =? g then Some d else dent (r_index (o_res st)) g)).
        rewrite r_index_oci_tag, dent_spec_oci_tag. destruct (d_dig d =? g); auto.
    - destruct r as [m|g0|]; auto.
      + destruct (get ref_eqb (RName m) (r_index (o_res st))); auto.
      + destruct (get ref_eqb (RDig g0) (r_index (o_res st))); auto.
        destruct (get N.eqb g0 (o_blobs st)); auto.
    - destruct r as [m|g0|]; auto.
      + destruct (get ref_eqb (RName m) (r_index (o_res st))) as [d0|]; auto.
        cbn [ref_eqb fst o_res].
        change (dent (r_index (res_untag (RName m) (o_res st))) g = dent (r_index (o_res st)) g).
        rewrite r_index_untag. apply dent_del_name.
      + destruct (get ref_eqb (RDig g0) (r_index (o_res st))) as [d0|] eqn:E; auto.
        destruct (Hd g0 d0 E) as [Hg _]. rewrite Hg. simpl. now rewrite N.eqb_refl.
    - destruct (get N.eqb (d_dig d) (o_blobs st)); cbn [fst o_res];
        rewrite r_index_untag_equal; now apply dent_untag_fold.
  Qed.

  Lemma wf2_canon o d : wf2_op o ->
    match o with Push d' _ | Tag d' _ | Delete d' => d' = d | _ => False end -> canon_desc U d.
  Proof. intros [[Hc _] _] H. destruct o; try contradiction; subst; exact Hc. Qed.

  Lemma qdig_step st o :
    wf2_op o -> NoDup (map fst (r_index (o_res st))) -> qdig st -> qdig (fst (oci_step st o)).
  Proof.
    intros Hwf Hnd [Hd Hm].
    pose proof (oci_step_dent st o Hwf Hd Hnd) as He.
    destruct (oci_step_view st o Hnd) as [Hb _].
    split.
    - intros g d0. rewrite He. unfold apply_deff, qeff.
      destruct o; try apply Hd.
      + destruct (get N.eqb (d_dig d) (o_blobs st)); [apply Hd|].
        destruct (verify d c && is_manifest (d_mt d)); [|apply Hd].
        destruct (d_dig d =? g) eqn:E; [|apply Hd]. apply N.eqb_eq in E. intro H. injection H as <-.
        split; auto. eapply wf2_canon; eauto. reflexivity.
      + destruct r; try apply Hd;
          (destruct (foreign_digest_ref d _); [apply Hd|];
           destruct (is_some (get N.eqb (d_dig d) (o_blobs st))); [|apply Hd];
           destruct (d_dig d =? g) eqn:E; [|apply Hd]; apply N.eqb_eq in E; intro H; injection H as <-;
           split; auto; eapply wf2_canon; eauto; reflexivity).
      + destruct (dent (r_index (o_res st)) g) as [d'|] eqn:E; [|discriminate].
        destruct (eq_target d' (gk d)); [discriminate|]. intro H. injection H as <-. now apply Hd.
    - intros g Hp Hman. rewrite He. rewrite Hb in Hp. unfold apply_deff, qeff, vblobs in *.
      destruct o; try (now apply Hm).
      + destruct (get N.eqb (d_dig d) (o_blobs st)) eqn:Eb; [now apply Hm|].
        destruct (verify d c) eqn:V; [|now apply Hm]. simpl.
        destruct (N.eq_dec g (d_dig d)) as [->|Hne].
        * assert (Hc : canon_desc U d) by (eapply wf2_canon; eauto; reflexivity).
          assert (Hmt : is_manifest (d_mt d) = true).
          { unfold canon_desc in Hc. rewrite <- Hc in Hman. exact Hman. }
          rewrite Hmt, N.eqb_refl. discriminate.
        * rewrite (get_put_neq N.eqb Neqb_spec) in Hp by exact Hne.
          destruct (is_manifest (d_mt d)); [|now apply Hm].
          destruct (d_dig d =? g); [discriminate | now apply Hm].
      + destruct r; try (now apply Hm);
          (destruct (foreign_digest_ref d _); [now apply Hm|];
           destruct (is_some (get N.eqb (d_dig d) (o_blobs st))); [|now apply Hm];
           destruct (d_dig d =? g); [discriminate | now apply Hm]).
      + destruct (get N.eqb (d_dig d) (o_blobs st)) eqn:Eb.
        * destruct (N.eq_dec g (d_dig d)) as [->|Hne]; [rewrite (get_del_eq N.eqb) in Hp; congruence|].
          rewrite (get_del_neq N.eqb Neqb_spec) in Hp by exact Hne.
          specialize (Hm g Hp Hman). destruct (dent (r_index (o_res st)) g) as [d'|] eqn:E; [|congruence].
          destruct (Hd g d' E) as [Hg _].
          destruct (eq_target d' (gk d)) eqn:Ek; [|discriminate].
          apply eq_target_spec in Ek. exfalso. apply Hne. rewrite <- Hg. exact Ek.
        * specialize (Hm g Hp Hman). destruct (dent (r_index (o_res st)) g) as [d'|] eqn:E; [|congruence].
          destruct (Hd g d' E) as [Hg _].
          destruct (eq_target d' (gk d)) eqn:Ek; [|discriminate].
          apply eq_target_spec in Ek. exfalso.
          assert (g = d_dig d) by (rewrite <- Hg; exact Ek). subst g. congruence.
  Qed.

  Lemma qdig_init : qdig oci_init.
  Proof. split; [intros g d H; discriminate | intros g H; exfalso; apply H; reflexivity]. Qed.

  Lemma qdig_run h : forall st,
    Forall wf2_op h -> NoDup (map fst (r_index (o_res st))) -> qdig st -> qdig (fst (run oci_step st h)).
  Proof.
    induction h as [|o h IH]; intros st Hwf Hnd Hq; [exact Hq|].
    inversion Hwf; subst. rewrite run_cons. cbn [fst]. apply IH; auto.
    - now apply oci_index_nodup.
    - now apply qdig_step.
  Qed.

  (* goroutines whose pending steps concern the digest entry of g *)
  Definition pq (t : othread) (g : N) : Prop :=
    exists d, (ot_pc t = OPush3 d \/ ot_pc t = OPush4 d) /\ d_dig d = g /\ is_manifest (d_mt d) = true.
  Definition ps (t : othread) (g : N) : Prop :=
    exists d m, ot_pc t = OTag3 d (RName m) /\ d_dig d = g.
  Definition pendQ (g : N) (ths : list othread) : Prop := exists t, In t ths /\ pq t g.
  Definition pendS (g : N) (ths : list othread) : Prop := exists t, In t ths /\ ps t g.

  Definition okd (t : othread) : Prop :=
    match ot_pc t with
    | OPush4 d => canon_desc U d /\ is_manifest (d_mt d) = true
    | OTagIx d r => canon_desc U d /\ (r = RDig (d_dig d) \/ exists m, r = RName m)
    | OTag2 d r => canon_desc U d /\ exists m, r = RName m
    | OTag3 d r => canon_desc U d /\ (r = RDig (d_dig d) \/ exists m, r = RName m)
    | OUntag2 r => exists m, r = RName m
    | _ => True
    end.

  Lemma dwf_ext t1 t2 : (forall g, dent t2 g = dent t1 g) -> dwf t1 -> dwf t2.
  Proof. intros E H g d. rewrite E. apply H. Qed.

  Lemma dwf_set t1 t2 g0 d :
    (forall g, dent t2 g = if g0 =? g then Some d else dent t1 g) ->
    d_dig d = g0 -> canon_desc U d -> dwf t1 -> dwf t2.
  Proof.
    intros E Hg Hc H g d'. rewrite E. destruct (g0 =? g) eqn:E0; [|apply H].
    apply N.eqb_eq in E0. subst g. intro X. injection X as <-. auto.
  Qed.

  Lemma dstep b s t s' t' lg ix un q :
    othread_ok U B s t -> okd t -> dwf (r_index (o_res s)) -> NoDup (map fst (r_index (o_res s))) ->
    qdig q -> NoDup (map fst (r_index (o_res q))) -> o_blobs s = o_blobs q ->
    (forall o, In o (oremaining t) -> wf2_op o) ->
    othread_step b s t = Some (s', t', lg, ix, un) ->
    okd t' /\ dwf (r_index (o_res s')) /\
    forall g (PQ PS : Prop), (b = true -> ~ PQ /\ ~ PS) ->
      ((dent (r_index (o_res s)) g <> None \/ pq t g \/ PQ) <->
       (dent (r_index (o_res q)) g <> None \/ ps t g \/ PS)) ->
      ((dent (r_index (o_res s')) g <> None \/ pq t' g \/ PQ) <->
       (dent (r_index (o_res (fst (run oci_step q lg)))) g <> None \/ ps t' g \/ PS)).
  Proof.
    intros Hok Hokd Hd Hnd [Hqd Hqm] Hndq Hbl Hwf.
    unfold othread_step, othread_ok, okd, pq, ps in *. destruct t as [pc ops]; cbn [ot_pc ot_ops] in *.
    destruct pc as [|d c|d|d|d r|d r|d r|r].
    - (* between operations *)
      destruct ops as [|o rest]; [discriminate|].
      assert (Hwfo : wf2_op o) by (apply Hwf; unfold oremaining; simpl; now left).
      (* a step that leaves s alone, whose commit (if any) has no effect on q's digest entries *)
      assert (HP0 : forall pc' lg0,
                 (match pc' with OPush3 _ | OPush4 _ => False | OTag3 _ (RName _) => False | _ => True end) ->
                 okd (mkOT pc' rest) ->
                 (forall g, dent (r_index (o_res (fst (run oci_step q lg0)))) g = dent (r_index (o_res q)) g) ->
                 Some (s, mkOT pc' rest, lg0, @nil gkey, @None gkey) = Some (s', t', lg, ix, un) ->
                 okd t' /\ dwf (r_index (o_res s')) /\
                 forall g (PQ PS : Prop), (b = true -> ~ PQ /\ ~ PS) ->
                   ((dent (r_index (o_res s)) g <> None \/ (exists d, (OIdle = OPush3 d \/ OIdle = OPush4 d) /\ d_dig d = g /\ is_manifest (d_mt d) = true) \/ PQ) <->
                    (dent (r_index (o_res q)) g <> None \/ (exists d m, OIdle = OTag3 d (RName m) /\ d_dig d = g) \/ PS)) ->
                   ((dent (r_index (o_res s')) g <> None \/ (exists d, (ot_pc t' = OPush3 d \/ ot_pc t' = OPush4 d) /\ d_dig d = g /\ is_manifest (d_mt d) = true) \/ PQ) <->
                    (dent (r_index (o_res (fst (run oci_step q lg)))) g <> None \/ (exists d m, ot_pc t' = OTag3 d (RName m) /\ d_dig d = g) \/ PS))).
      { intros pc' lg0 Hpc Hokd' Hq H. injection H as <- <- <- <- <-. split; [exact Hokd'|]. split; [exact Hd|].
        intros g PQ PS _ Hiff. rewrite Hq. cbn [ot_pc].
        assert (N1 : ~ (exists d, (pc' = OPush3 d \/ pc' = OPush4 d) /\ d_dig d = g /\ is_manifest (d_mt d) = true)).
        { intros (d0 & [E|E] & _); rewrite E in Hpc; exact Hpc. }
        assert (N2 : ~ (exists d m, pc' = OTag3 d (RName m) /\ d_dig d = g)).
        { intros (d0 & m & E & _). rewrite E in Hpc. exact Hpc. }
        assert (N3 : ~ (exists d, (OIdle = OPush3 d \/ OIdle = OPush4 d) /\ d_dig d = g /\ is_manifest (d_mt d) = true)).
        { intros (d0 & [E|E] & _); discriminate. }
        assert (N4 : ~ (exists d m, OIdle = OTag3 d (RName m) /\ d_dig d = g)).
        { intros (d0 & m & E & _). discriminate. }
        tauto. }
      assert (Hq1 : forall o1, qeff q o1 = DNone -> wf2_op o1 ->
                forall g, dent (r_index (o_res (fst (run oci_step q [o1])))) g = dent (r_index (o_res q)) g).
      { intros o1 E Hw g. rewrite run_cons. cbn [fst run]. rewrite (oci_step_dent q o1 Hw Hqd Hndq). now rewrite E. }
      assert (Hq0 : forall g, dent (r_index (o_res (fst (run oci_step q [])))) g = dent (r_index (o_res q)) g) by reflexivity.
      destruct o; try (apply (HP0 OIdle _ I I); apply Hq1; auto; fail).
      + (* Push *)
        destruct (get N.eqb (d_dig d) (o_blobs s)) eqn:E.
        * apply (HP0 OIdle _ I I). apply Hq1; auto. simpl. rewrite <- Hbl. now rewrite E.
        * destruct (verify d c) eqn:V.
          -- apply (HP0 (OPush2 d c) [] I I Hq0).
          -- apply (HP0 OIdle _ I I). apply Hq1; auto. simpl. rewrite <- Hbl. now rewrite E, V.
      + (* Tag *)
        destruct r as [m|g0|]; cbn [foreign_digest_ref]; try (apply (HP0 OIdle _ I I); apply Hq1; auto; fail).
        * destruct (is_some (get N.eqb (d_dig d) (o_blobs s))) eqn:E.
          -- cbn [ref_eqb]. destruct (is_manifest (d_mt d)).
             ++ apply (HP0 (OTagIx d (RName m)) [] I); auto.
                unfold okd; cbn [ot_pc]. split; [eapply wf2_canon; eauto; reflexivity | eauto].
             ++ apply (HP0 (OTag2 d (RName m)) [] I); auto.
                unfold okd; cbn [ot_pc]. split; [eapply wf2_canon; eauto; reflexivity | eauto].
          -- apply (HP0 OIdle _ I I). apply Hq1; auto. simpl. rewrite <- Hbl. now rewrite E.
        * destruct (g0 =? d_dig d) eqn:Eg; cbn [negb].
          2:{ apply (HP0 OIdle _ I I). apply Hq1; auto. simpl. now rewrite Eg. }
          apply N.eqb_eq in Eg. subst g0. destruct Hwfo as [Hw1 Hw2].
          destruct (is_some (get N.eqb (d_dig d) (o_blobs s))) eqn:E.
          -- cbn [ref_eqb]. rewrite N.eqb_refl. destruct (is_manifest (d_mt d)).
             ++ apply (HP0 (OTagIx d (RDig (d_dig d))) [] I); auto.
                unfold okd; cbn [ot_pc]. split; [exact (proj1 Hw1) | now left].
             ++ apply (HP0 (OTag3 d (RDig (d_dig d))) [] I); auto.
                unfold okd; cbn [ot_pc]. split; [exact (proj1 Hw1) | now left].
          -- apply (HP0 OIdle _ I I). apply Hq1; [|split; simpl; auto]. simpl. rewrite N.eqb_refl. simpl. rewrite <- Hbl. now rewrite E.
      + (* Untag *)
        destruct r as [m|g0|]; try (apply (HP0 OIdle _ I I); apply Hq1; auto; fail).
        * destruct (get ref_eqb (RName m) (r_index (o_res s))) as [d0|].
          -- cbn [ref_eqb]. apply (HP0 (OUntag2 (RName m)) [] I); auto. unfold okd; cbn [ot_pc]. eauto.
          -- apply (HP0 OIdle _ I I). apply Hq1; auto.
        * destruct (get ref_eqb (RDig g0) (r_index (o_res s))) as [d0|] eqn:E.
          -- destruct (Hd g0 d0 E) as [Hg _]. rewrite Hg. cbn [ref_eqb]. rewrite N.eqb_refl.
             apply (HP0 OIdle _ I I). apply Hq1; auto.
          -- apply (HP0 OIdle _ I I). apply Hq1; auto.
      + (* Delete *)
        destruct b; [|discriminate]. intro H. injection H as <- <- <- <- <-. cbn [ot_pc].
        assert (Hs' : forall g, dent (r_index (o_res (fst (oci_step s (Delete d))))) g =
                                apply_deff (DDel (gk d)) (dent (r_index (o_res s))) g).
        { intro g. cbn [oci_step]. destruct (get N.eqb (d_dig d) (o_blobs s)); cbn [fst o_res];
            rewrite r_index_untag_equal; now apply dent_untag_fold. }
        split; [exact I|]. split.
        * intros g d0. rewrite Hs'. unfold apply_deff.
          destruct (dent (r_index (o_res s)) g) as [d'|] eqn:E; [|discriminate].
          destruct (eq_target d' (gk d)); [discriminate|]. intro X. injection X as <-. now apply Hd.
        * intros g PQ PS Hb Hiff. destruct (Hb eq_refl) as [NPQ NPS].
          rewrite Hs'. rewrite run_cons. cbn [fst run]. rewrite (oci_step_dent q (Delete d) Hwfo Hqd Hndq).
          cbn [qeff]. unfold apply_deff.
          assert (Hnn : dent (r_index (o_res s)) g <> None <-> dent (r_index (o_res q)) g <> None).
          { split; intro X.
            - destruct (proj1 Hiff (or_introl X)) as [Y|[(d0 & m & E0 & _)|Y]]; [exact Y | discriminate | contradiction].
            - destruct (proj2 Hiff (or_introl X)) as [Y|[(d0 & [E0|E0] & _)|Y]]; [exact Y | discriminate | discriminate | contradiction]. }
          assert (N3 : ~ (exists d0, (OIdle = OPush3 d0 \/ OIdle = OPush4 d0) /\ d_dig d0 = g /\ is_manifest (d_mt d0) = true))
            by (intros (d0 & [E0|E0] & _); discriminate).
          assert (N4 : ~ (exists d0 m, OIdle = OTag3 d0 (RName m) /\ d_dig d0 = g))
            by (intros (d0 & m & E0 & _); discriminate).
          destruct (dent (r_index (o_res s)) g) as [d1|] eqn:E1; destruct (dent (r_index (o_res q)) g) as [d2|] eqn:E2.
          -- destruct (Hd g d1 E1) as [G1 C1]. destruct (Hqd g d2 E2) as [G2 C2].
             assert (Hgk : eq_target d1 (gk d) = eq_target d2 (gk d)) by (unfold eq_target; congruence). rewrite Hgk.
             destruct (eq_target d2 (gk d)).
             ++ split; intros [X|[X|X]]; try congruence; tauto.
             ++ split; intros _; left; discriminate.
          -- exfalso. assert (X : Some d1 <> None) by discriminate. apply Hnn in X. congruence.
          -- exfalso. assert (X : Some d2 <> None) by discriminate. apply Hnn in X. congruence.
          -- split; intros [X|[X|X]]; try congruence; tauto.
    - (* rename: the commit of Push d c *)
      destruct Hok as (V & Hc & Hcb). intro H. injection H as <- <- <- <- <-. cbn [ot_pc o_res].
      split; [exact I|]. split; [exact Hd|].
      intros g PQ PS _ Hiff. rewrite run_cons. cbn [fst run].
      assert (Hw : wf2_op (Push d c)) by (apply Hwf; unfold oremaining; simpl; now left).
      rewrite (oci_step_dent q (Push d c) Hw Hqd Hndq). cbn [qeff]. rewrite V. unfold apply_deff.
      destruct (N.eq_dec (d_dig d) g) as [<-|Hne].
      + destruct (is_manifest (d_mt d)) eqn:Em.
        * split; intros _.
          -- left. destruct (get N.eqb (d_dig d) (o_blobs q)) eqn:Eq.
             ++ apply Hqm; [congruence|]. unfold canon_desc in Hc. rewrite <- Hc. exact Em.
             ++ simpl. rewrite N.eqb_refl. discriminate.
          -- right. left. exists d. auto.
        * assert (X : forall f, match (match get N.eqb (d_dig d) (o_blobs q) with Some _ => DNone | None => if true && false then DSet (d_dig d) d else DNone end)
                                with DNone => f | DSet g0 d0 => if g0 =? d_dig d then Some d0 else f
                                | DDel k => match f with Some d' => if eq_target d' k then None else Some d' | None => None end end = f).
          { intro f. destruct (get N.eqb (d_dig d) (o_blobs q)); reflexivity. }
          rewrite X. split.
          -- intros [A|[(d0 & [E0|E0] & G0 & M0)|A]].
             ++ destruct (proj1 Hiff (or_introl A)) as [Y|[(d1 & m & E1 & _)|Y]]; [now left | discriminate | right; now right].
             ++ injection E0 as <-. congruence.
             ++ discriminate.
             ++ destruct (proj1 Hiff (or_intror (or_intror A))) as [Y|[(d1 & m & E1 & _)|Y]]; [now left | discriminate | right; now right].
          -- intros [A|[(d1 & m & E1 & _)|A]].
             ++ destruct (proj2 Hiff (or_introl A)) as [Y|[(d0 & [E0|E0] & _)|Y]]; [now left | discriminate | discriminate | right; now right].
             ++ discriminate.
             ++ destruct (proj2 Hiff (or_intror (or_intror A))) as [Y|[(d0 & [E0|E0] & _)|Y]]; [now left | discriminate | discriminate | right; now right].
      + assert (X : forall f, match (match get N.eqb (d_dig d) (o_blobs q) with Some _ => DNone | None => if true && is_manifest (d_mt d) then DSet (d_dig d) d else DNone end)
                              with DNone => f | DSet g0 d0 => if g0 =? g then Some d0 else f
                              | DDel k => match f with Some d' => if eq_target d' k then None else Some d' | None => None end end = f).
        { intro f. destruct (get N.eqb (d_dig d) (o_blobs q)); [reflexivity|].
          destruct (is_manifest (d_mt d)); simpl; [|reflexivity]. apply N.eqb_neq in Hne. now rewrite Hne. }
        rewrite X. split.
        * intros [A|[(d0 & [E0|E0] & G0 & M0)|A]].
          -- destruct (proj1 Hiff (or_introl A)) as [Y|[(d1 & m & E1 & _)|Y]]; [now left | discriminate | right; now right].
          -- injection E0 as <-. congruence.
          -- discriminate.
          -- destruct (proj1 Hiff (or_intror (or_intror A))) as [Y|[(d1 & m & E1 & _)|Y]]; [now left | discriminate | right; now right].
        * intros [A|[(d1 & m & E1 & _)|A]].
          -- destruct (proj2 Hiff (or_introl A)) as [Y|[(d0 & [E0|E0] & _)|Y]]; [now left | discriminate | discriminate | right; now right].
          -- discriminate.
          -- destruct (proj2 Hiff (or_intror (or_intror A))) as [Y|[(d0 & [E0|E0] & _)|Y]]; [now left | discriminate | discriminate | right; now right].
    - (* graph.index *)
      destruct Hok as (Hc & Hp). unfold present in Hp.
      destruct (get N.eqb (d_dig d) (o_blobs s)) as [c|] eqn:E; [|congruence].
      intro H. injection H as <- <- <- <- <-. cbn [ot_pc o_res]. split; [|split; [exact Hd|]].
      + destruct (is_manifest (d_mt d)) eqn:Em; cbn [ot_pc]; auto.
      + intros g PQ PS _ Hiff. cbn [run fst].
        assert (Q : (exists d0, (ot_pc (mkOT (if is_manifest (d_mt d) then OPush4 d else OIdle) ops) = OPush3 d0 \/
                                 ot_pc (mkOT (if is_manifest (d_mt d) then OPush4 d else OIdle) ops) = OPush4 d0) /\
                                d_dig d0 = g /\ is_manifest (d_mt d0) = true) <->
                    (exists d0, (OPush3 d = OPush3 d0 \/ OPush3 d = OPush4 d0) /\ d_dig d0 = g /\ is_manifest (d_mt d0) = true)).
        { cbn [ot_pc]. split.
          - intros (d0 & [E0|E0] & G0 & M0); destruct (is_manifest (d_mt d)) eqn:Em; try discriminate.
            injection E0 as <-. exists d. auto.
          - intros (d0 & [E0|E0] & G0 & M0); [|discriminate]. injection E0 as <-. rewrite M0. exists d. auto. }
        assert (S0 : ~ (exists d0 m, ot_pc (mkOT (if is_manifest (d_mt d) then OPush4 d else OIdle) ops) = OTag3 d0 (RName m) /\ d_dig d0 = g)).
        { cbn [ot_pc]. intros (d0 & m & E0 & _). destruct (is_manifest (d_mt d)); discriminate. }
        assert (S1 : ~ (exists d0 m, OPush3 d = OTag3 d0 (RName m) /\ d_dig d0 = g)) by (intros (d0 & m & E0 & _); discriminate).
        tauto.
    - (* tag by digest after a push *)
      destruct Hokd as [Hc Hm]. intro H. injection H as <- <- <- <- <-. cbn [ot_pc o_res]. rewrite r_index_tag.
      split; [exact I|]. split.
      + eapply dwf_set; [intro g; apply dent_put_dig | reflexivity | exact Hc | exact Hd].
      + intros g PQ PS _ Hiff. cbn [run fst]. rewrite dent_put_dig.
        destruct (d_dig d =? g) eqn:E.
        * apply N.eqb_eq in E. split; [|intros _; left; discriminate].
          intros _. assert (L : dent (r_index (o_res s)) g <> None \/ (exists d0, (OPush4 d = OPush3 d0 \/ OPush4 d = OPush4 d0) /\ d_dig d0 = g /\ is_manifest (d_mt d0) = true) \/ PQ).
          { right. left. exists d. auto. }
          destruct (proj1 Hiff L) as [Y|[(d1 & m & E1 & _)|Y]]; [now left | discriminate | right; now right].
        * apply N.eqb_neq in E. split.
          -- intros [A|[(d0 & [E0|E0] & _)|A]]; try discriminate.
             ++ destruct (proj1 Hiff (or_introl A)) as [Y|[(d1 & m & E1 & _)|Y]]; [now left | discriminate | right; now right].
             ++ destruct (proj1 Hiff (or_intror (or_intror A))) as [Y|[(d1 & m & E1 & _)|Y]]; [now left | discriminate | right; now right].
          -- intros [A|[(d1 & m & E1 & _)|A]]; try discriminate.
             ++ destruct (proj2 Hiff (or_introl A)) as [Y|[(d0 & [E0|E0] & G0 & _)|Y]]; [now left | discriminate | | right; now right].
                injection E0 as <-. congruence.
             ++ destruct (proj2 Hiff (or_intror (or_intror A))) as [Y|[(d0 & [E0|E0] & G0 & _)|Y]]; [now left | discriminate | | right; now right].
                injection E0 as <-. congruence.
    - (* Tag: graph.index of the manifest -- no effect on the resolver *)
      destruct Hok as (Hcn & Hp). unfold present in Hp. destruct Hokd as [Hc Hr].
      destruct (get N.eqb (d_dig d) (o_blobs s)) as [c|] eqn:E; [|congruence].
      intro H. injection H as <- <- <- <- <-. cbn [ot_pc o_res]. split; [|split; [exact Hd|]].
      + destruct Hr as [->|(m & ->)]; cbn [ref_eqb]; [rewrite N.eqb_refl|]; unfold okd; cbn [ot_pc]; split; eauto.
      + intros g PQ PS _ Hiff. cbn [run fst].
        assert (Q1 : ~ (exists d0, (OTagIx d r = OPush3 d0 \/ OTagIx d r = OPush4 d0) /\ d_dig d0 = g /\ is_manifest (d_mt d0) = true))
          by (intros (d0 & [E0|E0] & _); discriminate).
        assert (S1 : ~ (exists d0 m, OTagIx d r = OTag3 d0 (RName m) /\ d_dig d0 = g)) by (intros (d0 & m & E0 & _); discriminate).
        assert (Q2 : ~ (exists d0, (ot_pc (mkOT (if ref_eqb r (RDig (d_dig d)) then OTag3 d r else OTag2 d r) ops) = OPush3 d0 \/
                                    ot_pc (mkOT (if ref_eqb r (RDig (d_dig d)) then OTag3 d r else OTag2 d r) ops) = OPush4 d0) /\
                                   d_dig d0 = g /\ is_manifest (d_mt d0) = true)).
        { cbn [ot_pc]. intros (d0 & [E0|E0] & _); destruct (ref_eqb r (RDig (d_dig d))); discriminate. }
        assert (S2 : ~ (exists d0 m, ot_pc (mkOT (if ref_eqb r (RDig (d_dig d)) then OTag3 d r else OTag2 d r) ops) = OTag3 d0 (RName m) /\ d_dig d0 = g)).
        { cbn [ot_pc]. intros (d0 & m & E0 & _). destruct Hr as [->|(m0 & ->)]; cbn [ref_eqb] in E0.
          - rewrite N.eqb_refl in E0. discriminate.
          - discriminate. }
        tauto.
    - (* Tag: the digest entry *)
      destruct Hokd as [Hc (m & ->)]. intro H. injection H as <- <- <- <- <-. cbn [ot_pc o_res]. rewrite r_index_tag.
      split; [unfold okd; cbn [ot_pc]; split; eauto|]. split.
      + eapply dwf_set; [intro g; apply dent_put_dig | reflexivity | exact Hc | exact Hd].
      + intros g PQ PS _ Hiff. cbn [run fst]. rewrite dent_put_dig.
        destruct (d_dig d =? g) eqn:E.
        * apply N.eqb_eq in E. split; intros _; [right; left; exists d, m; auto | left; discriminate].
        * apply N.eqb_neq in E. split.
          -- intros [A|[(d0 & [E0|E0] & _)|A]]; try discriminate.
             ++ destruct (proj1 Hiff (or_introl A)) as [Y|[(d1 & m1 & E1 & _)|Y]]; [now left | discriminate | right; now right].
             ++ destruct (proj1 Hiff (or_intror (or_intror A))) as [Y|[(d1 & m1 & E1 & _)|Y]]; [now left | discriminate | right; now right].
          -- intros [A|[(d1 & m1 & E1 & G1)|A]].
             ++ destruct (proj2 Hiff (or_introl A)) as [Y|[(d0 & [E0|E0] & _)|Y]]; [now left | discriminate | discriminate | right; now right].
             ++ injection E1 as <- <-. congruence.
             ++ destruct (proj2 Hiff (or_intror (or_intror A))) as [Y|[(d0 & [E0|E0] & _)|Y]]; [now left | discriminate | discriminate | right; now right].
    - (* Tag: the commit *)
      destruct Hokd as [Hc Hr]. unfold present in Hok.
      intro H. injection H as <- <- <- <- <-. cbn [ot_pc o_res]. rewrite r_index_tag.
      assert (Hw : wf2_op (Tag d r)) by (apply Hwf; unfold oremaining; simpl; now left).
      assert (Hq' : forall g, dent (r_index (o_res (fst (run oci_step q [Tag d r])))) g =
                              if d_dig d =? g then Some d else dent (r_index (o_res q)) g).
      { intro g. rewrite run_cons. cbn [fst run]. rewrite (oci_step_dent q (Tag d r) Hw Hqd Hndq). cbn [qeff].
        rewrite <- Hbl. destruct (get N.eqb (d_dig d) (o_blobs s)); [|congruence].
        destruct Hr as [->|(m & ->)]; cbn [foreign_digest_ref]; [rewrite N.eqb_refl|]; reflexivity. }
      split; [exact I|]. split.
      + destruct Hr as [->|(m & ->)].
        * eapply dwf_set; [intro g; apply dent_put_dig | reflexivity | exact Hc | exact Hd].
        * eapply dwf_ext; [intro g; apply dent_put_name | exact Hd].
      + intros g PQ PS _ Hiff. rewrite Hq'.
        destruct (d_dig d =? g) eqn:E.
        * apply N.eqb_eq in E. split; [intros _; left; discriminate|]. intros _.
          destruct Hr as [->|(m & ->)].
          -- left. rewrite dent_put_dig, E, N.eqb_refl. discriminate.
          -- rewrite dent_put_name.
             assert (R : dent (r_index (o_res q)) g <> None \/ (exists d0 m0, OTag3 d (RName m) = OTag3 d0 (RName m0) /\ d_dig d0 = g) \/ PS).
             { right. left. exists d, m. auto. }
             destruct (proj2 Hiff R) as [Y|[(d0 & [E0|E0] & _)|Y]]; [now left | discriminate | discriminate | right; now right].
        * apply N.eqb_neq in E.
          assert (Hs' : dent (put ref_eqb r d (r_index (o_res s))) g = dent (r_index (o_res s)) g).
          { destruct Hr as [->|(m & ->)]; [|apply dent_put_name]. rewrite dent_put_dig.
            apply N.eqb_neq in E. now rewrite E. }
          rewrite Hs'. split.
          -- intros [A|[(d0 & [E0|E0] & _)|A]]; try discriminate.
             ++ destruct (proj1 Hiff (or_introl A)) as [Y|[(d1 & m1 & E1 & G1)|Y]]; [now left | | right; now right].
                injection E1 as <- _. congruence.
             ++ destruct (proj1 Hiff (or_intror (or_intror A))) as [Y|[(d1 & m1 & E1 & G1)|Y]]; [now left | | right; now right].
                injection E1 as <- _. congruence.
          -- intros [A|[(d1 & m1 & E1 & _)|A]]; try discriminate.
             ++ destruct (proj2 Hiff (or_introl A)) as [Y|[(d0 & [E0|E0] & _)|Y]]; [now left | discriminate | discriminate | right; now right].
             ++ destruct (proj2 Hiff (or_intror (or_intror A))) as [Y|[(d0 & [E0|E0] & _)|Y]]; [now left | discriminate | discriminate | right; now right].
    - (* Untag of a name *)
      destruct Hokd as (m & ->). intro H. injection H as <- <- <- <- <-. cbn [ot_pc o_res]. rewrite r_index_untag.
      assert (Hw : wf2_op (Untag (RName m))) by (apply Hwf; unfold oremaining; simpl; now left).
      split; [exact I|]. split; [eapply dwf_ext; [intro g; apply dent_del_name | exact Hd]|].
      intros g PQ PS _ Hiff. rewrite dent_del_name. rewrite run_cons. cbn [fst run].
      rewrite (oci_step_dent q (Untag (RName m)) Hw Hqd Hndq). cbn [qeff apply_deff].
      split.
      + intros [A|[(d0 & [E0|E0] & _)|A]]; try discriminate.
        * destruct (proj1 Hiff (or_introl A)) as [Y|[(d1 & m1 & E1 & _)|Y]]; [now left | discriminate | right; now right].
        * destruct (proj1 Hiff (or_intror (or_intror A))) as [Y|[(d1 & m1 & E1 & _)|Y]]; [now left | discriminate | right; now right].
      + intros [A|[(d1 & m1 & E1 & _)|A]]; try discriminate.
        * destruct (proj2 Hiff (or_introl A)) as [Y|[(d0 & [E0|E0] & _)|Y]]; [now left | discriminate | discriminate | right; now right].
        * destruct (proj2 Hiff (or_intror (or_intror A))) as [Y|[(d0 & [E0|E0] & _)|Y]]; [now left | discriminate | discriminate | right; now right].
  Qed.

  Lemma pendQ_split g l1 x l2 : pendQ g (l1 ++ x :: l2) <-> pq x g \/ pendQ g (l1 ++ l2).
  Proof.
    unfold pendQ. split.
    - intros (t & Hin & H). apply in_app_or in Hin as [Hin|[<-|Hin]]; auto;
        right; exists t; split; auto; apply in_or_app; auto.
    - intros [H|(t & Hin & H)]; [exists x; split; auto; apply in_or_app; right; now left|].
      exists t. split; auto. apply in_app_or in Hin as [Hin|Hin]; apply in_or_app; auto. right. now right.
  Qed.

  Lemma pendS_split g l1 x l2 : pendS g (l1 ++ x :: l2) <-> ps x g \/ pendS g (l1 ++ l2).
  Proof.
    unfold pendS. split.
    - intros (t & Hin & H). apply in_app_or in Hin as [Hin|[<-|Hin]]; auto;
        right; exists t; split; auto; apply in_or_app; auto.
    - intros [H|(t & Hin & H)]; [exists x; split; auto; apply in_or_app; right; now left|].
      exists t. split; auto. apply in_app_or in Hin as [Hin|Hin]; apply in_or_app; auto. right. now right.
  Qed.

  Record dinv (cf : oconf) : Prop := mkDInv {
    di_dwf : dwf (r_index (o_res (oc_store cf)));
    di_okd : Forall okd (oc_threads cf);
    di_rel : forall g,
        (dent (r_index (o_res (oc_store cf))) g <> None \/ pendQ g (oc_threads cf)) <->
        (dent (r_index (o_res (seq_ostate (map snd (oc_log cf))))) g <> None \/ pendS g (oc_threads cf)) }.

  Lemma dinv_init progs : dinv (oconf_init progs).
  Proof.
    constructor; simpl.
    - intros g d H. discriminate.
    - apply Forall_forall. intros t Ht. apply in_map_iff in Ht as (p & <- & _). exact I.
    - intro g. unfold seq_ostate. simpl. split.
      + intros [H|(t & Ht & d & [E|E] & _)]; [now left| |];
          apply in_map_iff in Ht as (p & <- & _); discriminate.
      + intros [H|(t & Ht & d & m & E & _)]; [now left|].
        apply in_map_iff in Ht as (p & <- & _). discriminate.
  Qed.

  Lemma seq_ostate_app L lg : seq_ostate (L ++ lg) = fst (run oci_step (seq_ostate L) lg).
  Proof. unfold seq_ostate. now rewrite run_app. Qed.

  Lemma dinv_step progs cf i :
    Forall wf2_op (concat progs) -> oinv U B progs cf -> dinv cf -> dinv (oconf_step cf i).
  Proof.
    intros Hwfall Hinv Hdinv. unfold oconf_step.
    destruct (nth_error (oc_threads cf) i) as [t|] eqn:En; [|exact Hdinv].
    destruct (othread_step (others_idle_at i (oc_threads cf)) (oc_store cf) t)
      as [[[[[s' t'] lg] ix] un]|] eqn:Es; [|exact Hdinv].
    apply nth_error_split in En as (l1 & l2 & Hth & Hlen). subst i.
    destruct cf as [s ths L J]. cbn [oc_store oc_threads oc_log oc_indexed] in *. subst ths.
    rewrite upd_nth_split.
    destruct Hinv as [Hperm Hord Hbl Hnm Hnd HB Hthr Hg Hix Hsub].
    destruct Hdinv as [Hd Hokd Hrel].
    cbn [oc_store oc_threads oc_log oc_indexed] in *.
    assert (Hokt : othread_ok U B s t).
    { rewrite Forall_forall in Hthr. apply Hthr. apply in_or_app. right. now left. }
    assert (Hokdt : okd t).
    { rewrite Forall_forall in Hokd. apply Hokd. apply in_or_app. right. now left. }
    assert (Hwft : forall o, In o (oremaining t) -> wf2_op o).
    { intros o Ho. rewrite Forall_forall in Hwfall. apply Hwfall.
      eapply Permutation_in; [exact Hperm|]. apply in_or_app. right.
      rewrite flat_map_oremaining_split. apply in_or_app. right. apply in_or_app. now left. }
    assert (HwfL : Forall wf2_op (map snd L)).
    { apply Forall_forall. intros o Ho. rewrite Forall_forall in Hwfall. apply Hwfall.
      eapply Permutation_in; [exact Hperm|]. apply in_or_app. now left. }
    assert (Hq : qdig (seq_ostate (map snd L))).
    { apply qdig_run; [exact HwfL | constructor | exact qdig_init]. }
    destruct (dstep _ _ _ _ _ _ _ _ (seq_ostate (map snd L)) Hokt Hokdt Hd Hnd Hq
                    (seq_ostate_nodup _) Hbl Hwft Es) as (Hokd' & Hd' & Hstep).
    constructor; cbn [oc_store oc_threads oc_log oc_indexed].
    - exact Hd'.
    - apply Forall_forall. intros x Hx. rewrite Forall_forall in Hokd.
      apply in_app_or in Hx as [Hx|[<-|Hx]]; auto; apply Hokd; apply in_or_app; auto. right. now right.
    - intro g. rewrite map_app, map_snd_pair, seq_ostate_app.
      rewrite pendQ_split, pendS_split. apply Hstep.
      + intro Hb. pose proof (others_idle_split l1 t l2 Hb) as Hall. split.
        * intros (x & Hx & d0 & [E|E] & _); apply in_app_or in Hx; rewrite (Hall x Hx) in E; discriminate.
        * intros (x & Hx & d0 & m & E & _). apply in_app_or in Hx. rewrite (Hall x Hx) in E. discriminate.
      + rewrite <- pendQ_split, <- pendS_split. apply Hrel.
  Qed.

  Lemma dinv_run progs sched :
    Forall wf2_op (concat progs) ->
    forall cf, oinv U B progs cf -> dinv cf ->
               oinv U B progs (oconf_run cf sched) /\ dinv (oconf_run cf sched).
  Proof.
    intro Hwf. assert (Hwf1 : Forall (wf_op U B) (concat progs)).
    { eapply Forall_impl; [|exact Hwf]. intros o [A _]. exact A. }
    unfold oconf_run. induction sched as [|i sched IH]; intros cf H1 H2; [auto|].
    simpl. apply IH; [now apply oinv_step | now apply (dinv_step progs)].
  Qed.

  (* Complete statement: at quiescence of ANY schedule, every Resolve (names, digest
     strings, the empty reference), Fetch/Exists (content map) and Predecessors answer is
     the one of a sequential execution of the same operations in program order. *)
  Theorem quiescent_serialisable_oci_full (progs : list (list op)) (sched : list nat) :
    Forall wf2_op (concat progs) ->
    let cf := oconf_run (oconf_init progs) sched in
    oquiescent cf = true ->
    exists order : list (nat * op),
      Permutation (map snd order) (concat progs) /\
      (forall i, log_of i order = nth i progs []) /\
      let q := fst (run oci_step oci_init (map snd order)) in
      o_blobs (oc_store cf) = o_blobs q /\
      (forall r, snd (oci_step (oc_store cf) (Resolve r)) = snd (oci_step q (Resolve r))) /\
      forall n k, In k (map gk (g_predecessors n (o_graph (oc_store cf)))) <->
                  In k (map gk (g_predecessors n (o_graph q))).
  Proof.
    intros Hwf cf Hq.
    assert (Hwf1 : Forall (wf_op U B) (concat progs)).
    { eapply Forall_impl; [|exact Hwf]. intros o [A _]. exact A. }
    destruct (dinv_run progs sched Hwf _ (oinv_init U B progs) (dinv_init progs)) as [Hinv Hdinv].
    fold cf in Hinv, Hdinv.
    destruct (quiescent_serialisable_oci U U_dig B progs sched Hwf1 Hq) as (order & Hp & Ho & Hrest).
    (* the witness of the first theorem is the commit log *)
    clear order Hp Ho Hrest.
    pose proof Hinv as [Hperm Hord Hbl Hnm Hnd HB Hthr Hg Hix Hsub].
    destruct Hdinv as [Hd Hokd Hrel]. unfold oquiescent in Hq.
    assert (Hperm0 : Permutation (map snd (oc_log cf)) (concat progs)).
    { rewrite (oquiescent_remaining _ Hq), app_nil_r in Hperm. exact Hperm. }
    exists (oc_log cf). split; [exact Hperm0|]. split.
    { intro i. specialize (Hord i). rewrite (oquiescent_thread_remaining _ i Hq), app_nil_r in Hord. exact Hord. }
    cbn zeta. fold (seq_ostate (map snd (oc_log cf))). split; [exact Hbl|]. split.
    - (* Resolve *)
      assert (HwfL : Forall wf2_op (map snd (oc_log cf))).
      { eapply Permutation_Forall; [apply Permutation_sym; exact Hperm0 | exact Hwf]. }
      assert (Hqd : qdig (seq_ostate (map snd (oc_log cf)))).
      { apply qdig_run; [exact HwfL | constructor | exact qdig_init]. }
      destruct Hqd as [Hqd _].
      assert (Hnone : forall g, dent (r_index (o_res (oc_store cf))) g <> None <->
                                dent (r_index (o_res (seq_ostate (map snd (oc_log cf))))) g <> None).
      { intro g. specialize (Hrel g).
        assert (NQ : ~ pendQ g (oc_threads cf)).
        { intros (x & Hx & d0 & [E|E] & _); rewrite forallb_forall in Hq; apply Hq in Hx;
            apply othread_done_spec in Hx as [Hx _]; congruence. }
        assert (NS : ~ pendS g (oc_threads cf)).
        { intros (x & Hx & d0 & m & E & _). rewrite forallb_forall in Hq. apply Hq in Hx.
          apply othread_done_spec in Hx as [Hx _]. congruence. }
        tauto. }
      intro r. destruct r as [n|g|]; cbn [oci_step snd]; [| |reflexivity].
      + specialize (Hnm n). unfold names_of in Hnm. rewrite Hnm.
        destruct (get ref_eqb (RName n) (r_index (o_res (seq_ostate (map snd (oc_log cf)))))); reflexivity.
      + specialize (Hnone g). unfold dent in *.
        destruct (get ref_eqb (RDig g) (r_index (o_res (oc_store cf)))) as [d1|] eqn:E1;
          destruct (get ref_eqb (RDig g) (r_index (o_res (seq_ostate (map snd (oc_log cf)))))) as [d2|] eqn:E2.
        * destruct (Hd g d1 E1) as [G1 C1]. destruct (Hqd g d2 E2) as [G2 C2].
          cbn [snd ref_eqb]. rewrite G1, G2, N.eqb_refl.
          assert (Hgk : gk d1 = gk d2) by (unfold canon_desc in *; congruence).
          unfold plain. unfold gk in Hgk. injection Hgk as -> -> ->. reflexivity.
        * exfalso. assert (X : Some d1 <> None) by discriminate. apply Hnone in X. congruence.
        * exfalso. assert (X : Some d2 <> None) by discriminate. apply Hnone in X. congruence.
        * rewrite Hbl. destruct (get N.eqb g (o_blobs (seq_ostate (map snd (oc_log cf))))); reflexivity.
    - (* Predecessors: as in the first theorem *)
      assert (Hcan : Forall (canon_op U) (map snd (oc_log cf))).
      { eapply Forall_impl; [|eapply Permutation_Forall; [apply Permutation_sym; exact Hperm0 | exact Hwf1]].
        intros o [A _]. apply canon_op_all_weaken. exact A. }
      destruct (run_refines_oci U U_dig (map snd (oc_log cf)) oci_init Hcan (oci_inv_init U)) as (_ & _ & [_ Hg2 _]).
      fold (seq_ostate (map snd (oc_log cf))) in Hg2. rewrite <- Hbl in Hg2.
      assert (Hg1 : graph_inv (S_oci U (o_blobs (oc_store cf))) (o_graph (oc_store cf))).
      { eapply graph_inv_ext; [|exact Hg]. intro k0. unfold S_ixo.
        destruct (mem gkey_eqb k0 (oc_indexed cf)) eqn:Em; auto.
        unfold S_oci. destruct (gkey_eqb k0 (U (k_dig k0))) eqn:Ec; auto.
        destruct (get N.eqb (k_dig k0) (o_blobs (oc_store cf))) eqn:E; auto. exfalso.
        assert (Hp : present (oc_store cf) (k_dig k0)) by (unfold present; congruence).
        destruct (Hix _ Hp) as [H|(tw & dw & Hin & Hpc & _)].
        - apply gkey_eqb_spec in Ec. rewrite <- Ec in H.
          apply (mem_In gkey_eqb gkey_eqb_spec) in H. congruence.
        - rewrite forallb_forall in Hq. apply Hq in Hin. apply othread_done_spec in Hin as [Hin _]. congruence. }
      intros n k. rewrite (g_predecessors_spec _ _ _ _ Hg1). rewrite (g_predecessors_spec _ _ _ _ Hg2). tauto.
  Qed.
End OciDig.

Lemma ox_wf2 : Forall (wf2_op ex_U ox_B) (concat ox_progs).
Proof.
  repeat (constructor; [split; [split; [reflexivity | try exact I; try (intros _; reflexivity)] | exact I] |]). constructor.
Qed.
